#!/usr/bin/env python3
# dev/try_seed.py <patch.diff> <ID> [<ID>...] : apply a seeded change to /repo, run the quick checks, undo it straight afterwards.
import subprocess, sys, os
patch = os.path.abspath(sys.argv[1])
ids = sys.argv[2:]
def sh(c, **k): return subprocess.run(c, shell=True, stdout=subprocess.PIPE, stderr=subprocess.STDOUT, **k)
r = sh("git -C /repo status --porcelain")
if r.stdout.strip():
    print("REPO NOT CLEAN:", r.stdout.decode()); sys.exit(2)
r = sh("git -C /repo apply --whitespace=nowarn %s" % patch)
if r.returncode != 0:
    print("APPLY FAILED:", r.stdout.decode()[-500:]); sys.exit(2)
try:
    t = sh("cd /repo && GOFLAGS=-mod=mod GOPROXY=off GOSUMDB=off GOTOOLCHAIN=local go build ./varlink/... ./cmd/varlink-go-interface-generator/ && "
           "GOFLAGS=-mod=mod GOPROXY=off GOSUMDB=off GOTOOLCHAIN=local go test -count=1 ./varlink/... ./cmd/varlink-go-interface-generator/ 2>&1 | tail -4", timeout=900)
    print("existing tests:", "ok" if b"FAIL" not in t.stdout and t.returncode == 0 else "FAIL", t.stdout.decode().strip().replace("\n", " | ")[-300:])
    for i in ids:
        c = sh("cd /verif && timeout 1500 ./check %s --tier quick 2>&1 | grep -E '^(PASS|FAIL|VIOLATION|KNOWN-FINDING)' | tail -4" % i, timeout=1600)
        print(i, "->", c.stdout.decode().strip().replace("\n", " || ")[-600:])
finally:
    sh("git -C /repo checkout -- . && git -C /repo clean -fdq")
    print("repo restored:", sh("git -C /repo status --porcelain").stdout.decode().strip() or "clean")
