#!/usr/bin/env python3
# development-time comparison of the Json model with encoding/json (all modes)
import random, sys
sys.path.insert(0, '/verif/lib')
import vcheck as V, jsongen as J
rng = random.Random(int(sys.argv[1]) if len(sys.argv) > 1 else 1)
N = int(sys.argv[2]) if len(sys.argv) > 2 else 3000
ok, out, binp = V.build_go("h_json"); assert ok, out
def cmp(mode, mmode, lines, pre=""):
    rc, impl, err = V.run_lines([binp, mode], lines)
    model = V.run_model(mmode, lines)
    bad = [(l, i, m) for l, i, m in zip(lines, impl, model) if i != m]
    print(mode, len(lines), "mismatches", len(bad), "impl ERR", sum(1 for i in impl if i == "ERR"))
    for l, i, m in bad[:5]:
        print("   case", l[:300]); print("   impl ", i[:300]); print("   model", m[:300])
        if mode in ("parse","valid","compact","call"):
            print("   text", bytes.fromhex(l.split()[-1]) if l.split()[-1] != '-' else b'')
cmp("enc", "json-enc", [J.rand_value(rng, 3, True, True) for _ in range(N)])
texts = [J.text_of(rng) for _ in range(N)]
texts += [J.mutate(rng, t, rng.choice([1, 2])) for t in texts]
texts += [bytes(rng.choice(b'{}[]",:\\ntfu01e-. \x00\xff') for _ in range(rng.choice([1,2,3,5,8]))) for _ in range(N)]
tl = [V.hexs(t) for t in texts]
cmp("valid", "json-valid", tl)
cmp("parse", "json-parse", tl)
cmp("compact", "json-compact", tl)
pool = [b"a.b", b"org.varlink.service.GetInfo", b"", b"x", b"a.b.C", "ü.x".encode(), b"a\x00.b"]
frames = [J.frame_like(rng, J.CALL_KEYS, b"method", pool) for _ in range(N * 2)]
frames += [J.mutate(rng, f) for f in frames[:N]]
cmp("call", "call-decode", [V.hexs(f) for f in frames])
rframes = [J.frame_like(rng, J.REPLY_KEYS, b"error", pool + [b"org.varlink.service.InvalidParameter"]) for _ in range(N * 2)]
cmp("struct", "json-struct", ["reply " + V.hexs(f) for f in rframes])
iframes = [J.frame_like(rng, [b"vendor", b"product", b"version", b"url", b"interfaces"], b"vendor", pool) for _ in range(N)]
iframes += [b'{"interfaces":["a","b",null,"c"]}', b'{"interfaces":[1,"x"]}', b'{"interfaces":null}', b'{"interfaces":{}}', b'{"interfaces":[]}',
            b'{"Interfaces":["\\u00e9"],"VENDOR":"v"}']
cmp("struct", "json-struct", ["info " + V.hexs(f) for f in iframes])
cmp("struct", "json-struct", ["iface " + V.hexs(J.frame_like(rng, [b"interface"], b"interface", pool)) for _ in range(N)])
replies = []
for _ in range(N):
    d = rng.choice(["-", J.rand_value(rng, 2, True, True), "R" + V.hexs(J.text_of(rng)).replace("-", "") + ";", "R" + V.hexs(J.mutate(rng, J.text_of(rng))).replace("-","") + ";"])
    replies.append("%s %d %s" % (d, rng.randrange(2), V.hexs(rng.choice([b"", b"a.b.E", b"org.varlink.service.X", "ü".encode(), b"\x00"]))))
cmp("reply", "reply-enc", replies)
