#!/usr/bin/env python3
# dev/verify_seed.py <Cxx> <i> [extra check ids...] : confirm an independently written breaking change
# (in the scratch worktree /tmp/mut/Cxx), run our checks against it in /repo, record it under /verif/seeded/.
import glob, json, os, re, shutil, subprocess, sys
pid, i = sys.argv[1], sys.argv[2]
checks = [pid] + sys.argv[3:]
BASE = os.environ.get("MUT_BASE", "/tmp/mut")
WT, OUT = "%s/%s" % (BASE, pid), "%s/%s-out" % (BASE, pid)
ENV = "GOFLAGS=-mod=mod GOPROXY=off GOSUMDB=off GOTOOLCHAIN=local"
RACE = "-race" if pid == "C16" else ""      # C16 demonstrations rely on the race detector
def sh(c, t=1200):
    p = subprocess.run(c, shell=True, stdout=subprocess.PIPE, stderr=subprocess.STDOUT, timeout=t)
    return p.returncode, p.stdout.decode("utf-8", "replace")
patch = "%s/patch%s.diff" % (OUT, i)
demo = "%s/demo%s" % (OUT, i)
sh("git -C %s checkout -- . && git -C %s clean -fdq" % (WT, WT))
PKGDIR = {"idl": "varlink/idl", "idl_test": "varlink/idl", "varlink": "varlink", "varlink_test": "varlink", "ctxio": "varlink/internal/ctxio",
          "ctxio_test": "varlink/internal/ctxio", "main": "cmd/varlink-go-interface-generator"}
def run_demo():
    """-> (passed?, output)"""
    if os.path.exists(os.path.join(demo, "go.mod")):
        rc, out = sh("cd %s && %s go run %s . 2>&1 | tail -15" % (demo, ENV, RACE), 600)
        # `| tail` hides the exit status: look at the text
        rc2, out2 = sh("cd %s && %s go run %s . >/dev/null 2>&1; echo rc=$?" % (demo, ENV, RACE), 600)
        ok = "rc=0" in out2 and "VIOLATION" not in out
        return ok, out
    copied = []
    dirs = set()
    for f in glob.glob(demo + "/*_test.go") + glob.glob(demo + "/*/*_test.go"):
        m = re.search(r"^package (\w+)", open(f).read(), re.M)
        d = PKGDIR.get(m.group(1), "varlink")
        dst = os.path.join(WT, d, os.path.basename(f))
        shutil.copy(f, dst); copied.append(dst); dirs.add(d)
    out_all, ok = "", True
    for d in dirs:
        rc, out = sh("cd %s && %s go test %s -count=1 ./%s/ 2>&1 | tail -12" % (WT, ENV, RACE, d), 900)
        rc2, out2 = sh("cd %s && %s go test %s -count=1 ./%s/ >/dev/null 2>&1; echo rc=$?" % (WT, ENV, RACE, d), 900)
        ok = ok and "rc=0" in out2
        out_all += out
    for c in copied:
        os.remove(c)
    return ok, out_all
res = {"property": pid, "change": i}
ok0, out0 = run_demo()
res["demo_without_change"] = "pass" if ok0 else "FAIL"
rc, out = sh("git -C %s apply --whitespace=nowarn %s" % (WT, patch))
if rc != 0:
    print("patch does not apply:", out[-300:]); sys.exit(1)
rc, out = sh("cd %s && %s go build ./varlink/... ./cmd/varlink-go-interface-generator/ && %s go test -count=1 ./varlink/... ./cmd/varlink-go-interface-generator/ >/dev/null 2>&1; echo rc=$?" % (WT, ENV, ENV), 900)
res["existing_tests_with_change"] = "pass" if "rc=0" in out else "FAIL"
ok1, out1 = run_demo()
res["demo_with_change"] = "pass" if ok1 else "fail (as intended)"
sh("git -C %s checkout -- . && git -C %s clean -fdq" % (WT, WT))
print(json.dumps(res))
confirmed = ok0 and not ok1 and res["existing_tests_with_change"] == "pass"
# our checks against the change, in /repo
rc, st = sh("git -C /repo status --porcelain")
if st.strip():
    print("REPO NOT CLEAN"); sys.exit(2)
detected = {}
rc, out = sh("git -C /repo apply --whitespace=nowarn %s" % patch)
try:
    for c in checks:
        rc, o = sh("cd /verif && timeout 1500 ./check %s --tier quick 2>&1 | grep -E '^(PASS|FAIL|VIOLATION|KNOWN-FINDING)' | tail -4" % c, 1600)
        detected[c] = "VIOLATION" in o
        print(c, "->", o.strip().replace("\n", " || ")[-400:])
finally:
    sh("git -C /repo checkout -- . && git -C /repo clean -fdq")
sid = "%s-%d" % (pid, int(i) + int(os.environ.get("SEED_OFFSET", "0")))
d = "/verif/seeded/%s" % sid
if confirmed:
    os.makedirs(d, exist_ok=True)
    shutil.copy(patch, os.path.join(d, "patch.diff"))
    if os.path.exists(os.path.join(d, "demo")):
        shutil.rmtree(os.path.join(d, "demo"))
    shutil.copytree(demo, os.path.join(d, "demo"))
    notes = open("%s/notes%s.md" % (OUT, i)).read() if os.path.exists("%s/notes%s.md" % (OUT, i)) else ""
    open(os.path.join(d, "notes.md"), "w").write(notes)
    m = re.search(r"(?i)(needs|manifest|trigger)[^\n]*\n?[^\n]*", notes)
    json.dump(dict(id=sid, breaks=pid, needs=(m.group(0)[:400] if m else "see notes.md"), author="independent sub-agent given only the property text and a scratch worktree",
                   confirmed=res, ran=["go test (existing suite) with the change: pass", "demonstration without the change: pass", "demonstration with the change: fails",
                                       "./check %s --tier quick with the change applied in /repo (undone afterwards)" % " ".join(checks)],
                   detected_by={k: v for k, v in detected.items()}), open(os.path.join(d, "meta.json"), "w"), indent=1)
print("confirmed" if confirmed else "NOT CONFIRMED", "detected_by", detected)
