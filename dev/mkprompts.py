#!/usr/bin/env python3
# dev/mkprompts.py <base dir> [ids...] : prepare a round of independently written breaking changes.
# For each property: a scratch git worktree of /repo under <base>/<id> and a prompt file <base>/<id>.prompt that contains
# ONLY the property text, the worktree path, the rules of the exercise and one-line descriptions of ideas already used
# (so that a new round has to find a different mechanism). Nothing from /verif's checks, models or harnesses is mentioned.
import json, os, re, subprocess, sys
base = sys.argv[1]
ids = sys.argv[2:]
props = {}
for l in open("/verif/properties.jsonl"):
    d = json.loads(l)
    props[d["id"]] = d
used = {}
for l in open("/verif/DESIGN.md"):
    m = re.match(r"\| (C\d\d)-\d \| ([^|]+) \| ([^|]+) \|", l)
    if m:
        used.setdefault(m.group(1), []).append("%s (needs: %s)" % (m.group(2).strip(), m.group(3).strip()))
os.makedirs(base, exist_ok=True)
for pid in ids or sorted(props):
    p = props[pid]
    wt = "%s/%s" % (base, pid)
    if not os.path.exists(wt):
        subprocess.run(["git", "-C", "/repo", "worktree", "add", "--detach", "-f", wt], check=True, stdout=subprocess.DEVNULL, stderr=subprocess.DEVNULL)
    out = "%s/%s-out" % (base, pid)
    text = """You are helping to evaluate a verification effort for the Go library varlink/go (an implementation of the Varlink IPC protocol:
NUL-framed JSON client and service, an IDL parser, and a Go code generator for interface stubs).

You have your own scratch git worktree of the library at {wt} (a detached checkout of the current head). Work ONLY there. Never touch
/repo or /verif, never look into /verif, never commit anything anywhere.

Environment: no network. For every shell call use
  export GOFLAGS=-mod=mod GOPROXY=off GOSUMDB=off GOTOOLCHAIN=local
The existing test suite is run with
  cd {wt} && go test -count=1 ./varlink/... ./cmd/varlink-go-interface-generator/
(`go test ./...` additionally shows a build failure for cmd/varlink-go-certification: that is the baseline, ignore it. The test
TestAnonUnix binds a fixed abstract socket name and can fail with "address already in use" when other jobs run the suite at the same
time: re-run it then.)

THE PROPERTY (id {pid}): {title}

{statement}

It is meant to hold for: {quant}

YOUR TASK: write TWO different, realistic changes to the library, each of which
  1. BREAKS this property (say which clause),
  2. still COMPILES and still PASSES the existing test suite unchanged,
  3. looks like something a maintainer could plausibly commit (an optimisation, a clean-up, a refactoring, a well-meant "fix", a new
     fast path) - not sabotage, no dead flags, no "if input == magic",
  4. needs something SPECIFIC to manifest: a particular kind of input, a sequence of operations, state carried over from an earlier
     operation, a rare interleaving, two code sites that are each fine alone - so that casual testing would not see it,
  5. comes with a DEMONSTRATION: a Go test file (package as appropriate, to be copied next to the code it tests) or a small standalone
     program in its own module (go.mod with `replace github.com/varlink/go => {wt}` and an empty go.sum) that FAILS (non-zero exit /
     test failure, printing a line containing VIOLATION) with the change applied and PASSES on the unchanged tree.

The two changes must differ in kind from each other AND from these ideas, which were used before for this property:
{used}

Deliver in the directory {out} (create it):
  patch1.diff, patch2.diff   - `git diff` output of each change alone against the clean worktree (each must `git apply` to a clean tree)
  demo1/, demo2/             - the demonstration for each change
  notes1.md, notes2.md       - what the change is, which clause of the property it breaks, what is needed for it to manifest, the exact
                               commands you ran and their output with and without the change
Verify everything yourself before you finish: build, existing tests with the change, demonstration with and without the change. Leave the
worktree clean (git checkout -- . && git clean -fd) at the end. Your final message: a short summary of the two changes, what each needs
to manifest, and the verification results.
""".format(wt=wt, pid=pid, title=p["title"], statement=p["statement"], quant=p["quantifier"]["text"], out=out,
           used="\n".join("  - " + u for u in used.get(pid, [])) or "  (none)")
    open("%s/%s.prompt" % (base, pid), "w").write(text)
    print(pid, len(used.get(pid, [])), "ideas listed")
