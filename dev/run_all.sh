#!/bin/sh
# run every quick (or $1 = thorough) check and print one line each
cd "$(dirname "$0")/.."
tier=${1:-quick}
for p in C01 C02 C03 C04 C05 C06 C07 C08 C09 C10 C11 C12 C13 C14 C15 C16 C17 C18 C19 C20; do
  ./check $p --tier $tier 2>&1 | grep -E "^(PASS|FAIL|VIOLATION|KNOWN-FINDING)" | cut -c1-160
done
