#!/usr/bin/env python3
# dev/reverify_all.py [ids...] : apply every stored seeded change to /repo in turn, run the quick check of the property it breaks,
# undo it, and record the outcome in seeded/<id>/meta.json ("redetected") and in seeded/REGRESSION.txt.
import glob, json, os, subprocess, sys, time
def sh(c, t=2400):
    p = subprocess.run(c, shell=True, stdout=subprocess.PIPE, stderr=subprocess.STDOUT, timeout=t)
    return p.returncode, p.stdout.decode("utf-8", "replace")
ids = sys.argv[1:] or sorted(os.path.basename(d.rstrip("/")) for d in glob.glob("/verif/seeded/C*-*/"))
rows = []
for sid in ids:
    d = "/verif/seeded/" + sid
    pid = sid.split("-")[0]
    rc, st = sh("git -C /repo status --porcelain")
    if st.strip():
        print("REPO NOT CLEAN", st); sys.exit(2)
    rc, out = sh("git -C /repo apply --whitespace=nowarn %s/patch.diff" % d)
    if rc != 0:
        rows.append((sid, "PATCH-DOES-NOT-APPLY")); print(rows[-1], flush=True); continue
    try:
        t0 = time.time()
        rc, o = sh("cd /verif && timeout 1500 ./check %s --tier quick 2>&1 | grep -E '^(PASS|FAIL|VIOLATION|KNOWN-FINDING)' | tail -4" % pid)
        det = "VIOLATION property=%s" % pid in o
        nfi = "no-failing-input-found" in o
    finally:
        sh("git -C /repo checkout -- . && git -C /repo clean -fdq")
    rows.append((sid, "detected" + (" (no-failing-input-found)" if nfi else "") if det else "MISSED", "%.0fs" % (time.time() - t0)))
    print(rows[-1], flush=True)
    m = json.load(open(d + "/meta.json"))
    m["redetected"] = {"by": pid, "result": rows[-1][1], "repo_head": sh("git -C /repo rev-parse --short HEAD")[1].strip()}
    json.dump(m, open(d + "/meta.json", "w"), indent=1)
# merge into the existing table (a run over a subset updates only those lines)
table = {}
if os.path.exists("/verif/seeded/REGRESSION.txt"):
    for l in open("/verif/seeded/REGRESSION.txt"):
        if l.strip():
            table[l.split()[0]] = l.strip()
for r in rows:
    table[r[0]] = " ".join(r)
open("/verif/seeded/REGRESSION.txt", "w").write("\n".join(table[k] for k in sorted(table)) + "\n")
print("ALLDONE", sum(1 for r in rows if r[1].startswith("detected")), "of", len(rows))
