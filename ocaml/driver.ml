(* driver.ml — runs the extracted Coq models on cases read from stdin.
   One case per line (fields are hex or decimal, space separated), one result
   line per case.  No logic of its own beyond (de)serialisation. *)
open Model

(* the extracted model contains Coq's own string type (literals of Model/Gen.v): keep OCaml's names *)
type string = Stdlib.String.t

let rec pos_of_int n =
  if n = 1 then XH
  else if n land 1 = 1 then XI (pos_of_int (n lsr 1))
  else XO (pos_of_int (n lsr 1))
let n_of_int n = if n = 0 then N0 else Npos (pos_of_int n)
let rec int_of_pos = function XH -> 1 | XO p -> 2 * int_of_pos p | XI p -> 2 * int_of_pos p + 1
let int_of_n = function N0 -> 0 | Npos p -> int_of_pos p
let rec nat_of_int n = if n <= 0 then O else S (nat_of_int (n - 1))
let rec int_of_nat = function O -> 0 | S n -> 1 + int_of_nat n

let hexval c =
  match c with
  | '0' .. '9' -> Char.code c - 48
  | 'a' .. 'f' -> Char.code c - 87
  | 'A' .. 'F' -> Char.code c - 55
  | _ -> failwith "bad hex"

(* "-" denotes the empty string so that every field is a non-empty token *)
let bytes_of_hex (s : string) : n list =
  if s = "-" then []
  else begin
    let l = ref [] in
    let len = String.length s / 2 in
    for i = len - 1 downto 0 do
      l := n_of_int ((hexval s.[2 * i] * 16) + hexval s.[(2 * i) + 1]) :: !l
    done;
    !l
  end

let string_of_bytes (l : n list) : string =
  let b = Buffer.create 256 in
  List.iter (fun x -> Buffer.add_char b (Char.chr (int_of_n x land 255))) l;
  Buffer.contents b

let hex_of_bytes (l : n list) : string =
  match l with
  | [] -> "-"
  | _ ->
    let b = Buffer.create 256 in
    List.iter (fun x -> Buffer.add_string b (Printf.sprintf "%02x" (int_of_n x))) l;
    Buffer.contents b

(* ---------- parser for the canonical IDL dump (see Model/IdlDump.v) ---------- *)
exception Irregular of string

let parse_dump (s : string) : idl =
  let p = ref 0 in
  let len = String.length s in
  let peek () = if !p < len then s.[!p] else '\000' in
  let adv () = incr p in
  let expect c = if peek () = c then adv () else raise (Irregular (Printf.sprintf "expected %c at %d" c !p)) in
  let is_hex c = (c >= '0' && c <= '9') || (c >= 'a' && c <= 'f') in
  let hexrun () =
    let st = !p in
    while is_hex (peek ()) do adv () done;
    let h = String.sub s st (!p - st) in
    if h = "" then [] else bytes_of_hex h in
  let rec ty () : ty =
    let c = peek () in
    adv ();
    match c with
    | 'b' -> TBool | 'i' -> TInt | 'f' -> TFloat | 's' -> TString | 'o' -> TObject
    | 'A' -> TArray (ty ()) | 'Q' -> TMaybe (ty ()) | 'D' -> TMap (ty ())
    | 'N' -> let n = hexrun () in expect '.'; TAlias n
    | 'S' | 'E' ->
      expect '(';
      let fields = ref [] in
      if peek () = ')' then adv ()
      else begin
        let continue = ref true in
        while !continue do
          let n = hexrun () in
          let ft = if peek () = ':' then (adv (); Some (ty ())) else None in
          fields := (n, ft) :: !fields;
          if peek () = ',' then adv () else (expect ')'; continue := false)
        done
      end;
      let fs = List.rev !fields in
      if c = 'S' then
        TStruct (List.map (fun (n, ft) -> match ft with Some t -> (n, t) | None -> raise (Irregular "struct field without type")) fs)
      else
        TEnum (List.map (fun (n, ft) -> match ft with None -> n | Some _ -> raise (Irregular "enum member with a type")) fs)
    | '\000' -> raise (Irregular "nil type")
    | _ -> raise (Irregular (Printf.sprintf "bad type tag %c" c)) in
  let member () : member =
    let c = peek () in
    adv ();
    let n = hexrun () in expect '.';
    let d = hexrun () in expect '.';
    match c with
    | 'T' -> MAlias (n, d, ty ())
    | 'M' -> let i = ty () in expect '>'; let o = ty () in MMethod (n, d, i, o)
    | 'X' -> if peek () = '-' then (adv (); MError (n, d, None)) else MError (n, d, Some (ty ()))
    | _ -> raise (Irregular "bad member tag") in
  let members () : member list =
    expect '[';
    let l = ref [] in
    if peek () = ']' then adv ()
    else begin
      let continue = ref true in
      while !continue do
        l := member () :: !l;
        if peek () = ';' then adv () else (expect ']'; continue := false)
      done
    end;
    List.rev !l in
  expect 'I';
  let name = hexrun () in expect '.';
  let doc = hexrun () in expect '.';
  expect 'D';
  let dflag = peek () in adv ();
  if dflag <> '1' then raise (Irregular "Description differs from the input");
  let ms = members () in
  let al = members () in
  let me = members () in
  let er = members () in
  let d = { i_name = name; i_doc = doc; i_descr = []; i_members = ms } in
  if al <> i_aliases d then raise (Irregular "Aliases is not the alias sub-list of Members");
  if me <> i_methods d then raise (Irregular "Methods is not the method sub-list of Members");
  if er <> i_errors d then raise (Irregular "Errors is not the error sub-list of Members");
  d

(* ---------- wire ---------- *)
let show_rres = function
  | RData d -> "D" ^ hex_of_bytes d
  | REof d -> "E" ^ hex_of_bytes d

let wire_run (cap : int) (chunks : string) (ops : string list) : string =
  let chs = if chunks = "-" then [] else List.map bytes_of_hex (String.split_on_char ',' chunks) in
  let ops = List.map (fun o ->
      match o.[0] with
      | 'B' -> OpReadBytes (List.hd (bytes_of_hex (String.sub o 1 (String.length o - 1))))
      | 'R' -> OpRead (nat_of_int (int_of_string (String.sub o 1 (String.length o - 1))))
      | _ -> failwith "bad op") ops in
  match run_ops (nat_of_int cap) ops { rbuf = []; chunks = chs } with
  | None -> "FUEL"
  | Some (rs, _) -> String.concat " " (List.map show_rres rs)

(* ---------- JSON value descriptions (see harness/vt/values.go) ---------- *)
let parse_value_desc (s : string) : pval =
  let p = ref 0 in
  let len = String.length s in
  let peek () = if !p < len then s.[!p] else '\000' in
  let adv () = incr p in
  let expect c = if peek () = c then adv () else failwith (Printf.sprintf "value desc: expected %c at %d in %s" c !p s) in
  let is_hex c = (c >= '0' && c <= '9') || (c >= 'a' && c <= 'f') in
  let hexrun () =
    let st = !p in
    while is_hex (peek ()) do adv () done;
    let h = String.sub s st (!p - st) in
    if h = "" then [] else bytes_of_hex h in
  let rec value () : jvalue =
    let c = peek () in
    adv ();
    match c with
    | 'N' -> JNull | 'T' -> JBool true | 'F' -> JBool false
    | 'D' -> let h = hexrun () in expect ';'; JNum h
    | 'S' -> let h = hexrun () in expect ';'; JStr h
    | '[' ->
      if peek () = ']' then (adv (); JArr [])
      else begin
        let l = ref [] in
        let continue = ref true in
        while !continue do
          l := value () :: !l;
          if peek () = ',' then adv () else (expect ']'; continue := false)
        done;
        JArr (List.rev !l)
      end
    | '{' | 'M' ->
      if c = 'M' then expect '{';
      let l = ref [] in
      if peek () = '}' then adv ()
      else begin
        let continue = ref true in
        while !continue do
          let k = hexrun () in
          expect ':';
          let v = value () in
          l := (k, v) :: !l;
          if peek () = ',' then adv () else (expect '}'; continue := false)
        done
      end;
      let m = List.rev !l in
      (* a Go map: duplicate keys collapse (last wins), members are emitted in sorted key order *)
      if c = 'M' then begin
        let dedup = List.fold_left (fun acc (k, v) -> (k, v) :: List.filter (fun (k', _) -> k' <> k) acc) [] m in
        JObj (sort_members (List.rev dedup))
      end else JObj m
    | _ -> failwith ("value desc: bad tag in " ^ s) in
  if s = "-" || s = "N" then PNone   (* a nil interface value *)
  else if peek () = 'R' then begin
    adv ();
    let h = hexrun () in
    expect ';';
    PRaw h
  end else begin
    let v = value () in
    if !p <> len then failwith "value desc: trailing text";
    PJson v
  end

let schema_of = function
  | "call" -> call_schema | "reply" -> reply_schema | "iface" -> iface_schema
  | "info" -> info_schema | "descr" -> descr_schema | "address" -> address_schema
  | "method" -> [(s_method, KString)] | "parameter" -> [(s_parameter, KString)]
  | "resolver-info" -> resolver_info_schema
  | x -> failwith ("unknown schema " ^ x)

let tf b = if b then "T" else "F"

(* ---------- service cases (see harness/cmd/h_svc/main.go) ---------- *)
let split_on_string (sep : string) (s : string) : string list =
  let sl = String.length sep in
  let rec go acc start i =
    if i + sl > String.length s then List.rev (String.sub s start (String.length s - start) :: acc)
    else if String.sub s i sl = sep then go (String.sub s start (i - start) :: acc) (i + sl) (i + sl)
    else go acc start (i + 1) in
  go [] 0 0

let fields (l : string) : string list = List.filter (fun x -> x <> "") (String.split_on_char ' ' l)

let res_is_error = function ResOk -> false | _ -> true

let parse_step (t : string) : (action * char) =
  let n = String.length t in
  match t.[0] with
  | 'r' -> (AReply (t.[1] = '1', parse_value_desc (String.sub t 4 (n - 4))), t.[2])
  | 'd' -> (AReply (false, parse_value_desc (String.sub t 4 (n - 4))), t.[2])     (* a reply under a context with its own deadline: a reply *)
  | 'e' ->
    let rest = String.sub t 3 (n - 3) in
    let i = String.index rest ':' in
    (AReplyError (bytes_of_hex (String.sub rest 0 i), parse_value_desc (String.sub rest (i + 1) (String.length rest - i - 1))), t.[1])
  | 's' ->
    let k = (match t.[3] with 'I' -> EInterfaceNotFound | 'M' -> EMethodNotFound | 'N' -> EMethodNotImplemented | _ -> EInvalidParameter) in
    (AStdError (k, bytes_of_hex (String.sub t 5 (n - 5))), t.[1])
  | _ -> failwith ("bad step " ^ t)

let rec prog_of (steps : (action * char) list) (ret : bool) : hprog =
  match steps with
  | [] -> Ret ret
  | (a, pol) :: rest ->
    Do (a, fun r ->
        if res_is_error r then (match pol with 'e' -> Ret true | 'n' -> Ret false | _ -> prog_of rest ret)
        else if pol = 's' then Ret false
        else prog_of rest ret)

type svc_case = {
  mutable reg : registry option;
  mutable regres : string;
  mutable scripts : (n list * hprog) list;
  mutable conns : (string * n list list) list;
}

let parse_svc_case (line : string) : svc_case =
  let c = { reg = None; regres = ""; scripts = []; conns = [] } in
  List.iter (fun sec ->
      match fields sec with
      | "svc" :: v :: p :: ver :: u :: d :: _ ->
        c.reg <- Some (new_service (bytes_of_hex v) (bytes_of_hex p) (bytes_of_hex ver) (bytes_of_hex u) (bytes_of_hex d))
      | "iface" :: name :: descr :: _ ->
        (match c.reg with
         | Some r -> let (r', refused) = register r (bytes_of_hex name) (bytes_of_hex descr) in
           c.reg <- Some r'; c.regres <- c.regres ^ (if refused then "x" else "o")
         | None -> failwith "iface before svc")
      | "script" :: m :: rest ->
        let ret = List.mem "ret1" rest in
        (* 'b<id>' is a rendezvous between the handlers of two connections, 'w<ms>' a pause: no effect on what a handler does *)
        let steps = List.filter (fun t -> t <> "ret0" && t <> "ret1" && t.[0] <> 'b' && t.[0] <> 'w') rest in
        c.scripts <- (bytes_of_hex m, prog_of (List.map parse_step steps) ret) :: c.scripts
      | "conn" :: mode :: rest ->
        let chunks = (match rest with
            | [] | ["-"] -> []
            | h :: _ -> List.map bytes_of_hex (String.split_on_char ',' h)) in
        c.conns <- c.conns @ [(mode, chunks)]
      | [] -> ()
      | x :: _ -> failwith ("bad section " ^ x)) (split_on_string " | " line);
  c

let handlers_of (c : svc_case) : n list -> n list -> call -> hprog =
  fun iface m _ ->
  let full = iface @ [n_of_int 46] @ m in
  (try List.assoc full c.scripts with Not_found -> Ret false)

let show_entry (e : entry) : string option =
  match e.e_disp with
  | DHandler (i, m) ->
    let cl = e.e_call in
    Some (String.concat " "
            (["H" ^ hex_of_bytes i ^ "." ^ hex_of_bytes m;
              (match cl.c_params with None -> "N" | Some r -> "R" ^ hex_of_bytes r);
              tf cl.c_more ^ tf cl.c_oneway ^ tf cl.c_upgrade]
             @ List.map (fun a -> if res_is_error a.at_result then "x" else "o") e.e_attempts
             @ [if e.e_err then "ret1" else "ret0"]))
  | _ -> None

let filter_map f l = List.fold_right (fun x acc -> match f x with Some y -> y :: acc | None -> acc) l []

let svc_run (line : string) : string =
  let c = parse_svc_case line in
  let reg = (match c.reg with Some r -> r | None -> failwith "no svc") in
  let hs = handlers_of c in
  let parts = List.map (fun (_, chunks) ->
      let chunks = List.filter (fun ch -> ch <> []) chunks in
      let o = serve_conn (nat_of_int 4096) reg hs None { rbuf = []; chunks = chunks } in
      Printf.sprintf "out=%s log=[%s] ovl=0" (hex_of_bytes o.o_written)
        (String.concat ";" (filter_map show_entry o.o_log))) c.conns in
  String.concat " | " parts ^ " || reg=" ^ c.regres

(* ---------- end-to-end cases (see harness/cmd/h_e2e/main.go) ---------- *)
let show_fval (v : fval) : string = string_of_bytes (dump_fval v)

let show_recv (r : recv_res) : string =
  match r with
  | RvEOF -> "eof"
  | RvDecodeErr -> "other:decode"
  | RvStdError (k, a) ->
    "std " ^ (match k with EInterfaceNotFound -> "I" | EMethodNotFound -> "M" | EMethodNotImplemented -> "N" | EInvalidParameter -> "P")
    ^ " " ^ hex_of_bytes a
  | RvError (name, ps) -> "err " ^ hex_of_bytes name ^ " " ^ (match ps with None -> "N" | Some r -> "R" ^ hex_of_bytes r)
  | RvReply (ps, cont) -> Printf.sprintf "ok %d %s" (if cont then 4 else 0) (match ps with None -> "N" | Some r -> "R" ^ hex_of_bytes r)
  | RvFuel -> "FUEL"

let stops (r : string) : bool =
  let pre p = String.length r >= String.length p && String.sub r 0 (String.length p) = p in
  pre "eof" || pre "timeout" || pre "other"

let e2e_run (line : string) : string =
  let secs = split_on_string " | " line in
  let is_op sec = match fields sec with
    | ("call" | "slowcall" | "plaincall" | "typedcall" | "upcall" | "window" | "reconnect2" | "stale" | "getinfo" | "getdescr" | "resolver-getinfo" | "resolve") :: _ -> true | _ -> false in
  let c = parse_svc_case (String.concat " | " (List.filter (fun sec -> not (is_op sec) && (match fields sec with "transport" :: _ -> false | _ -> true)) secs)) in
  let reg = (match c.reg with Some r -> r | None -> failwith "no svc") in
  let hs = handlers_of c in
  (* connection 0 = the client connection, connection 1 = the resolver's own connection *)
  let server = [| cs_init None; cs_init None |] in
  let inbound = [| []; [] |] in
  let exchange (ci : int) (msg : n list) : unit =
    let before = List.length server.(ci).cs_w.w_out in
    server.(ci) <- step_conn reg hs server.(ci) (EvData msg);
    let out = server.(ci).cs_w.w_out in
    let rec drop n l = if n = 0 then l else (match l with [] -> [] | _ :: r -> drop (n - 1) r) in
    inbound.(ci) <- inbound.(ci) @ drop before out in
  let receive (ci : int) : string * recv_res option =
    match cut_at (n_of_int 0) inbound.(ci) with
    | None ->
      if server.(ci).cs_closed = None then ("timeout", None) else ("eof", None)
    | Some _ ->
      let (r, c') = client_receive (nat_of_int 4096) { rbuf = inbound.(ci); chunks = [] } in
      inbound.(ci) <- stream_of c';
      (show_recv r, Some r) in
  let out = ref [] in
  let stop = ref false in
  let helper (ci : int) (tag : string) (req : send_res) (sch : (n list * fkind) list) (fmt : fval list -> string) : unit =
    match req with
    | SSent msg ->
      exchange ci msg;
      let (s, r) = receive ci in
      (match r with
       | Some (RvReply (p, cont)) ->
         (match helper_of sch (RvReply (p, cont)) with
          | HOk fs -> out := (tag ^ "=ok " ^ fmt fs) :: !out
          | HErr _ -> ())
       | _ -> out := (tag ^ "=" ^ s) :: !out; if stops s then stop := true)
    | _ -> out := (tag ^ "=senderr") :: !out in
  List.iter (fun sec ->
      if not !stop then
        match fields sec with
        | ("call" | "slowcall") :: flags :: m :: v :: nrecv :: _ ->
          (match client_send (n_of_int (int_of_string flags)) (bytes_of_hex m) (parse_value_desc v) with
           | SRefused what -> out := ("send=refused:" ^ hex_of_bytes what) :: !out
           | SMarshalErr -> out := "send=marshal" :: !out
           | SSent msg ->
             exchange 0 msg;
             let parts = ref ["send=ok"] in
             (try
                for _ = 1 to int_of_string nrecv do
                  let (s, r) = receive 0 in
                  parts := ("recv=" ^ s) :: !parts;
                  if stops s then (stop := true; raise Exit);
                  (match r with Some (RvReply (_, true)) -> () | _ -> raise Exit)
                done
              with Exit -> ());
             out := String.concat " " (List.rev !parts) :: !out)
        | "plaincall" :: m :: v :: _ ->
          (match client_send N0 (bytes_of_hex m) (call_params (parse_value_desc v)) with
           | SSent msg ->
             exchange 0 msg;
             let (s, r) = receive 0 in
             (match r with
              | Some (RvReply (p, _)) -> out := ("call=ok " ^ (match p with None -> "N" | Some x -> "R" ^ hex_of_bytes x)) :: !out
              | _ -> out := ("call=" ^ s) :: !out; if stops s then stop := true)
           | _ -> out := "call=senderr" :: !out)
        | ("window" | "reconnect2" | "stale") :: ms :: _ ->
          (* pipelining changes nothing: the service answers the calls in order, each receive gets the next reply *)
          let got = List.map (fun m ->
              match client_send N0 (bytes_of_hex m) PNone with
              | SSent msg ->
                exchange 0 msg;
                let (s, r) = receive 0 in
                (match r with
                 | Some (RvReply (p, _)) -> (match p with None -> "N" | Some x -> "R" ^ hex_of_bytes x)
                 | _ -> s)
              | _ -> "senderr") (String.split_on_char ',' ms) in
          out := ("win=" ^ String.concat "," got) :: !out
        | "upcall" :: m :: v :: _ ->
          (match client_send (n_of_int 8) (bytes_of_hex m) (call_params (parse_value_desc v)) with
           | SSent msg ->
             exchange 0 msg;
             let (s, r) = receive 0 in
             (match r with
              | Some (RvReply (_, _)) -> out := "ucall=ok" :: !out
              | _ -> out := ("ucall=" ^ s) :: !out; if stops s then stop := true)
           | _ -> out := "ucall=senderr" :: !out)
        | "typedcall" :: m :: v :: _ ->
          (match client_send N0 (bytes_of_hex m) (call_params (parse_value_desc v)) with
           | SSent msg ->
             exchange 0 msg;
             let (s, r) = receive 0 in
             (match r with
              | Some (RvReply (_, _)) -> out := "tcall=ok" :: !out
              | _ -> out := ("tcall=" ^ s) :: !out; if stops s then stop := true)
           | _ -> out := "tcall=senderr" :: !out)
        | "getinfo" :: _ ->
          helper 0 "info" get_info_request info_schema (fun fs -> String.concat " " (List.map show_fval fs))
        | "getdescr" :: name :: _ ->
          helper 0 "descr" (get_descr_request (bytes_of_hex name)) descr_schema (fun fs -> String.concat " " (List.map show_fval fs))
        | "resolver-getinfo" :: _ ->
          helper 1 "rinfo" resolver_info_request resolver_info_schema (fun fs -> String.concat " " (List.map show_fval fs))
        | "resolve" :: iface :: _ ->
          if bytes_of_hex iface = org_varlink_resolver then out := "addr=self" :: !out
          else helper 1 "addr" (resolve_request (bytes_of_hex iface)) address_schema (fun fs -> String.concat " " (List.map show_fval fs))
        | _ -> ()) secs;
  let logs = Array.map (fun st -> "[" ^ String.concat ";" (filter_map show_entry (List.rev st.cs_log)) ^ "]") server in
  String.concat " ; " (List.rev !out) ^ " || log0=" ^ logs.(0) ^ " log1=" ^ logs.(1)

(* ---------- registration histories (see harness/cmd/h_reg/main.go) ---------- *)
let reg_run (line : string) : string =
  let secs = split_on_string " | " line in
  (* the whole state lives in the Coq model (Model/RegLife.v): registry, running flag, connection counter, serving call *)
  let st = ref (match fields (List.hd secs) with
      | "svc" :: v :: p :: ver :: u :: d :: _ ->
        rl_init (bytes_of_hex v) (bytes_of_hex p) (bytes_of_hex ver) (bytes_of_hex u) (bytes_of_hex d)
      | _ -> failwith "reg-run: no svc") in
  let hs = (fun _ m _ -> Do (AStdError (EMethodNotImplemented, m), fun r -> Ret (res_is_error r))) in
  let run es = let (s', _) = rl_run !st es in st := s' in
  let connected () = !st.rl_active <> O in
  let draining () = !st.rl_serving && not !st.rl_running in
  let direct (req : send_res) : n list =
    match req with
    | SSent msg ->
      let cs = step_conn !st.rl_reg hs (cs_init None) (EvData msg) in
      cs.cs_w.w_out
    | _ -> [] in
  let client (reply : n list) (sch : (n list * fkind) list) : string =
    let (r, _) = client_receive (nat_of_int 4096) { rbuf = reply; chunks = [] } in
    match helper_of sch r with
    | HOk fs -> String.concat " " (List.map show_fval fs)
    | HErr e -> show_recv e in
  let out = List.map (fun sec ->
      match fields sec with
      | "reg" :: name :: descr :: _ ->
        let (s', o) = rl_step !st (EvRegister (bytes_of_hex name, bytes_of_hex descr)) in
        st := s'; (match o with ORefused -> "x" | OAccepted -> "o" | _ -> "?")
      | "reg2" :: name :: descr :: _ ->
        (* two concurrent registrations of one name are, under the mutex, two registrations one after the other *)
        let one () = let (s', o) = rl_step !st (EvRegister (bytes_of_hex name, bytes_of_hex descr)) in st := s'; (match o with OAccepted -> "o" | _ -> "x") in
        let a = one () in let b = one () in
        if a = "o" || b = "o" then (if a = "o" && b = "o" then "oo" else "ox") else "xx"
      | ("listen" | "listen2") :: _ -> if !st.rl_serving then "already" else (run (events_of RListen); "listening")
      | "shutdown" :: _ -> if !st.rl_serving then (run (events_of RShutdownAll); "stopped") else "notlistening"
      | "shutdown-keep" :: _ -> if !st.rl_serving && not (draining ()) then (run (events_of RShutdownKeep); "draining") else "notlistening"
      | "drop" :: _ -> if draining () then (run (events_of RDrop); "stopped") else "notdraining"
      | "info" :: _ ->
        let rep = direct (client_send N0 (org_varlink_service @ [n_of_int 46] @ m_GetInfo) PNone) in
        "info " ^ hex_of_bytes rep ^ (if connected () then " client " ^ client rep info_schema else "")
      | "call" :: m :: _ ->
        "call " ^ hex_of_bytes (direct (client_send N0 (bytes_of_hex m) PNone))
      | "descr" :: name :: _ ->
        let rep = direct (get_descr_request (bytes_of_hex name)) in
        "descr " ^ hex_of_bytes rep ^ (if connected () then " client " ^ client rep descr_schema else "")
      | _ -> failwith ("reg-run: bad op " ^ sec)) (List.tl secs) in
  String.concat " ; " out

(* ---------- address histories (see harness/cmd/h_addr/main.go) ---------- *)
let addr_run (line : string) : string =
  let st = ref svc_init in
  let w = ref { w_files = []; w_open = [] } in
  let show = function OOk -> "ok" | OErr -> "err" | OPanic -> "panic" in
  let outs = List.map (fun sec ->
      match fields sec with
      | "bind" :: ok :: a :: _ ->
        let ((r, st'), w') = svc_bind (ok = "1") (bytes_of_hex a) !st !w in
        st := st'; w := w'; show r
      | "start" :: _ ->
        if !st.sv_running then "already" else (let (r, st') = svc_start !st in st := st'; show r)
      | "listen" :: ok :: a :: _ ->
        if !st.sv_running then "already"
        else begin
          (* Listen = Bind, then the accept loop; a failed Bind returns through the deferred teardown *)
          let ((r, st'), w') = svc_bind (ok = "1") (bytes_of_hex a) !st !w in
          match r with
          | OOk -> let (r2, st2) = svc_start st' in st := st2; w := w'; show r2
          | _ -> show r      (* a refused Listen leaves the service as it was *)
        end
      | "stop" :: _ ->
        if !st.sv_running then (let (st', w') = svc_stop !st !w in st := st'; w := w'; "stopped") else "notrunning"
      | "shutdown" :: _ ->
        let was = !st.sv_running in
        let (st', w') = svc_stop !st !w in st := st'; w := w'; if was then "stopped" else "shutdown"
      | "connect" :: a :: _ -> show (client_connect (bytes_of_hex a) !st !w)
      | "exists" :: p :: _ -> if List.mem (bytes_of_hex p) !w.w_files then "1" else "0"
      | "stale" :: p :: _ -> w := { !w with w_files = bytes_of_hex p :: remove_file (bytes_of_hex p) !w.w_files }; "done"
      | _ -> failwith ("addr-run: bad op " ^ sec)) (split_on_string " | " line) in
  String.concat " " outs

(* ---------- life-cycle histories (see harness/cmd/h_life/main.go) ---------- *)
let rec life_run (line : string) : string =
  (* two serving calls on one object that overlap while the first one drains: outside the single-serving-call model; the statement's
     reading for it is simply "ok" (see harness/cmd/h_life overlapDrain) *)
  if String.length line >= 13 && String.sub line 0 13 = "overlap-drain" then "ok" else life_run1 line
and life_run1 (line : string) : string =
  let st = ref l_init in
  let gate = ref false and gate_pending = ref false and hold = ref false and held = ref false in
  let last_obj = ref (-1) in
  let step lb = match lstep !st lb with Some s' -> st := s'; true | None -> false in
  let obj_open () = match !st.listener with
    | Some i -> (get_obj !st i).lo_open
    | None -> false in
  let rec quiesce fuel =
    if fuel = 0 then () else
    if !held then () else
    if step LServe then begin
      (* a gate set by the harness takes effect at the next entry into Accept *)
      if !st.serve = SAccept && !gate_pending then (gate := true; gate_pending := false);
      quiesce (fuel - 1)
    end
    else begin
      let progressed =
        (match !st.serve with
         | SAccept when not !gate ->
           (match cur_obj !st with
            | Some o when o.lo_open ->
              (match o.lo_queue with
               | _ :: _ -> if step LAcceptConn then (if !hold then (hold := false; held := true); true) else false
               | [] -> false)
            | _ -> step LAcceptClosed)
         | _ -> false) in
      if progressed then quiesce (fuel - 1)
      else begin
        (* handlers whose connection has ended run their exit *)
        let n = List.length !st.conns in
        let any = ref false in
        for c = 0 to n - 1 do
          if step (LHandlerExit (nat_of_int c)) then any := true
        done;
        if !any then quiesce (fuel - 1)
      end
    end in
  let show_ret = function
    | RNilRet -> "ret:nil" | RTimeoutErr -> "ret:timeout" | _ -> "ret:err" in
  let outs = List.map (fun sec ->
      match fields sec with
      | "bind" :: _ -> ignore (step (LBind true)); (match !st.listener with Some i -> last_obj := int_of_nat i | None -> ()); "ok"
      | "realbind" :: ok :: _ ->
        let before = !st.listener in
        ignore (step (LBind (ok = "1")));
        if !st.listener <> before && not !st.running then "ok" else (if ok = "1" && not !st.running then "ok" else "err")
      | "dolisten" :: t :: _ ->
        if !st.serve <> SNone then "skipped"
        else (ignore (step (LStartDoListen (t = "1"))); quiesce 1000; "started")
      | "listen" :: ok :: t :: _ ->
        if !st.serve <> SNone then
          (* a second Listen while one is in progress: Bind refuses because the service is running *)
          (if !st.running then "refused" else "accepted")
        else (ignore (step (LStartListen (ok = "1", t = "1"))); quiesce 1000; "started")
      | "wait-accept" :: _ -> if !st.serve = SAccept then "ok" else "no"
      | "gate" :: _ -> gate_pending := true; "ok"
      | "open-gate" :: _ -> gate := false; gate_pending := false; quiesce 1000; "ok"
      | "hold" :: _ -> hold := true; "ok"
      | "release" :: _ -> held := false; hold := false; quiesce 1000; "ok"
      | "connect" :: _ ->
        let id = List.length !st.conns in
        ignore (step LConnect);
        let r = (match conn_st !st (nat_of_int id) with CRefused -> "refused" | _ -> "c" ^ string_of_int id) in
        quiesce 1000; r
      | "call" :: id :: _ ->
        (match conn_st !st (nat_of_int (int_of_string id)) with CServed -> "ok" | _ -> "err")
      | "stall" :: id :: _ ->
        (match conn_st !st (nat_of_int (int_of_string id)) with CServed -> "ok" | _ -> "err")
      | "ctxcancel" :: _ ->
        (* cancellation of the serving context ends every connection that is being served *)
        List.iteri (fun i c -> match c with CServed | CHeld -> ignore (step (LEnd (nat_of_int i))); quiesce 1000 | _ -> ()) !st.conns;
        "ended"
      | ("badcall" | "badcall-keep") :: id :: _ ->
        let c = nat_of_int (int_of_string id) in
        (match conn_st !st c with
         | CServed -> ignore (step (LEnd c)); quiesce 1000; "ended"
         | CRefused -> "none"
         | _ -> ignore (step (LEnd c)); quiesce 1000; "notended")
      | "close" :: id :: _ ->
        let c = nat_of_int (int_of_string id) in
        (match conn_st !st c with
         | CRefused -> "none"
         | _ -> ignore (step (LEnd c)); quiesce 1000; "closed")
      | "expire" :: _ ->
        if step LExpire then (quiesce 1000; if !st.serve = SNone then "returned" else if !st.serve = SAccept then "looped" else "stuck")
        else "stuck"
      | "shutdown" :: _ -> ignore (step LShutdown); quiesce 1000; "nil"
      | "wait-return" :: _ ->
        (match !st.serve, !st.result0 with
         | SNone, Some r -> st := { !st with result0 = None }; show_ret r
         | SNone, None -> "notstarted"
         | _, _ -> "noreturn")
      | "active" :: _ -> string_of_int (int_of_nat !st.conncounter)
      | "running" :: _ -> tf !st.running
      | "closed" :: _ -> if !last_obj >= 0 then tf (not (get_obj !st (nat_of_int !last_obj)).lo_open) else "F"
      | "listener-nil" :: _ -> tf (!st.listener = None)
      | _ -> failwith ("life-run: bad op " ^ sec)) (split_on_string " | " line) in
  ignore obj_open;
  String.concat " " outs

(* ---------- socket activation (see harness/cmd/h_act/main.go) ---------- *)
let rec z_of_int (n : int) : z =
  if n = 0 then Z0 else if n > 0 then Zpos (pos_of_int n) else Zneg (pos_of_int (- n))
let int_of_z = function Z0 -> 0 | Zpos p -> int_of_pos p | Zneg p -> - (int_of_pos p)
let bytes_of_string (s : string) : n list = List.init (String.length s) (fun i -> n_of_int (Char.code s.[i]))

let act_run (line : string) : string =
  match fields line with
  | pidmode :: fds :: names :: kinds :: _ ->      (* a fifth field only says which address the child passes to Bind: not inspected *)
    let opt s = if s = "-" then None else if s = "EMPTY" then Some [] else Some (bytes_of_string s) in
    let pid = 4242 in
    let lp = (match pidmode with
        | "match" -> Some (bytes_of_string (string_of_int pid))
        | "plus" -> Some (bytes_of_string ("+" ^ string_of_int pid))
        | "differ" -> Some (bytes_of_string "1")
        | "garbage" -> Some (bytes_of_string "abc")
        | _ -> None) in
    let e = { e_pid = z_of_int pid; e_listen_pid = lp; e_listen_fds = opt fds; e_fdnames = opt names } in
    let ks = if kinds = "-" then [] else String.split_on_char ',' kinds in
    let is_socket fd = let i = int_of_z fd - 3 in i >= 0 && i < List.length ks && (List.nth ks i = "s" || List.nth ks i = "S") in
    (match choose_listener e is_socket with
     | LInherited fd -> "inherited:" ^ string_of_int (int_of_z fd - 3)
     | LBindAddress -> "fallback")
  | _ -> failwith "act-run"

(* ---------- context-aware I/O scenarios (see harness/cmd/h_ctx/main.go) ---------- *)
let ctx_run (line : string) : string =
  match fields line with
  | [hon; kind; instant] ->
    let hon = (hon = "1") in
    let dl = (kind = "deadline") in
    let s0 =
      (match instant with
       | "before" -> c_init DNone dl dl (not dl) hon O
       | "after" -> c_init DNone dl false false hon (nat_of_int 6)
       | _ -> c_init DNone dl false false hon O) in
    let run s ls = List.fold_left (fun s l -> match cstep s l with Some s' -> s' | None -> s) s ls in
    let s1 =
      (match instant with
       | "blocked" | "partial" -> run s0 [LCaller; LCaller; (if dl then LExpire0 else LCancel)]
       | _ -> s0) in
    let outs = outcomes (nat_of_int 14) s1 in
    let show = function
      | None -> "blocked" | Some (CData _) -> "ok" | Some CCtxErr -> "ctx" | Some CTimeout -> "timeout" | Some CEof0 -> "eof" in
    String.concat "," (List.sort_uniq compare (List.map show outs))
  | _ -> failwith "ctx-run"

(* ---------- typed JSON mapping (C08) ---------- *)
let ty_of_dump (s : string) : ty =
  let p = ref 0 in
  let len = String.length s in
  let peek () = if !p < len then s.[!p] else '\000' in
  let adv () = incr p in
  let expect c = if peek () = c then adv () else failwith "type dump" in
  let is_hex c = (c >= '0' && c <= '9') || (c >= 'a' && c <= 'f') in
  let hexrun () = let st = !p in while is_hex (peek ()) do adv () done; let h = String.sub s st (!p - st) in if h = "" then [] else bytes_of_hex h in
  let rec ty () : ty =
    let c = peek () in adv ();
    match c with
    | 'b' -> TBool | 'i' -> TInt | 'f' -> TFloat | 's' -> TString | 'o' -> TObject
    | 'A' -> TArray (ty ()) | 'Q' -> TMaybe (ty ()) | 'D' -> TMap (ty ())
    | 'N' -> let n = hexrun () in expect '.'; TAlias n
    | 'S' -> expect '(';
      let fs = ref [] in
      if peek () = ')' then adv () else begin
        let continue = ref true in
        while !continue do
          let n = hexrun () in expect ':'; let t = ty () in fs := (n, t) :: !fs;
          if peek () = ',' then adv () else (expect ')'; continue := false)
        done end;
      TStruct (List.rev !fs)
    | 'E' -> expect '(';
      let ns = ref [] in
      if peek () = ')' then adv () else begin
        let continue = ref true in
        while !continue do
          ns := hexrun () :: !ns;
          if peek () = ',' then adv () else (expect ')'; continue := false)
        done end;
      TEnum (List.rev !ns)
    | _ -> failwith "type dump tag" in
  ty ()

(* line: <type dump> <name=dump,name=dump | -> <call|reply> <hex frame without NUL> *)
let typed_check (tdump : string) (aliases : string) (kind : string) (frame : string) : string =
  let t = ty_of_dump tdump in
  let al = if aliases = "-" then [] else
      List.map (fun kv -> let i = String.index kv '=' in
                 (bytes_of_hex (String.sub kv 0 i), ty_of_dump (String.sub kv (i + 1) (String.length kv - i - 1))))
        (String.split_on_char ';' aliases) in
  let fr = bytes_of_hex frame in
  let raw = (match kind with
      | "call" -> (match decode_call fr with Some c -> c.c_params | None -> None)
      | _ -> (match decode_struct reply_schema fr with Some (FRaw p :: _) -> p | _ -> None)) in
  let fuel = nat_of_int 64 in
  match raw with
  | None -> (match t with TStruct [] -> "ok" | _ -> "bad:no-parameters")
  | Some r ->
    (match parse0 r with
     | None -> "bad:json"
     | Some j ->
       (match decode_typed fuel al t j with
        | None -> "bad:decode"
        | Some v ->
          if not (has_type fuel al t v) then "bad:type"
          else (match encode_typed fuel al t v with
              | None -> "bad:encode"
              | Some j2 -> let out = encode_value j2 in
                if out = r then "ok" else "diff " ^ hex_of_bytes out ^ " " ^ hex_of_bytes r)))

let split_ws (l : string) : string list =
  List.filter (fun x -> x <> "") (String.split_on_char ' ' l)

let handle (cmd : string) (line : string) : string =
  match cmd, split_ws line with
  | "idl-parse", [h] -> string_of_bytes (idl_case (bytes_of_hex h))
  | "idl-oracle", [h; dump] ->
    (* evaluate the C06 oracle on a tree produced by the implementation *)
    (try
       let input = bytes_of_hex h in
       let d = parse_dump dump in
       let d = { d with i_descr = input } in
       let (st, wf) = idl_oracle input d in
       Printf.sprintf "strip=%d wf=%d" (if st then 1 else 0) (if wf then 1 else 0)
     with Irregular m -> "IRREGULAR " ^ m)
  | "json-enc", [d] ->
    (match parse_value_desc d with
     | PJson v -> (match marshal_value v with Some b -> hex_of_bytes b | None -> "ERR")
     | PRaw r -> (match compact_raw r with Some b -> hex_of_bytes b | None -> "ERR")
     | PNone -> hex_of_bytes lit_null
     | _ -> failwith "json-enc")
  | "json-parse", [h] -> string_of_bytes (json_parse_case (bytes_of_hex h))
  | "json-valid", [h] -> if valid (bytes_of_hex h) then "1" else "0"
  | "json-compact", [h] -> string_of_bytes (json_compact_case (bytes_of_hex h))
  | "json-struct", [sch; h] -> string_of_bytes (json_struct_case (schema_of sch) (bytes_of_hex h))
  | "call-decode", [h] ->
    (match decode_call (bytes_of_hex h) with
     | None -> "ERR"
     | Some c ->
       String.concat " " ["S" ^ hex_of_bytes c.c_method;
                          (match c.c_params with None -> "N" | Some r -> "R" ^ hex_of_bytes r);
                          tf c.c_more; tf c.c_oneway; tf c.c_upgrade])
  | "reply-enc", [d; cont; e] ->
    (match enc_params (parse_value_desc d) with
     | None -> "ERR"
     | Some ps -> hex_of_bytes (encode_reply ps (cont = "1") (bytes_of_hex e)))
  | "send-enc", [flags; m; d] ->
    (match client_send (n_of_int (int_of_string flags)) (bytes_of_hex m) (parse_value_desc d) with
     | SRefused what -> "REFUSED " ^ hex_of_bytes what ^ " -"
     | SMarshalErr -> "ERR -"
     | SSent msg -> hex_of_bytes msg)
  | "cli-run", [flags; m; d; nrecv; chunks] ->
    (match client_send (n_of_int (int_of_string flags)) (bytes_of_hex m) (parse_value_desc d) with
     | SRefused what -> "send=refused:" ^ hex_of_bytes what ^ " wrote=-"
     | SMarshalErr -> "send=marshal wrote=-"
     | SSent msg ->
       let chs = if chunks = "-" then [] else List.filter (fun c -> c <> []) (List.map bytes_of_hex (String.split_on_char ',' chunks)) in
       let c = ref { rbuf = []; chunks = chs } in
       let outs = ref ["send=ok wrote=" ^ hex_of_bytes msg] in
       for _ = 1 to int_of_string nrecv do
         let (r, c') = client_receive (nat_of_int 4096) !c in
         c := c';
         outs := ("recv=" ^ show_recv r) :: !outs
       done;
       String.concat " ; " (List.rev !outs))
  | "gen-run", [h] ->
    (match generate (bytes_of_hex h) with
     | GOk (pk, t) -> "OK " ^ hex_of_bytes pk ^ " " ^ hex_of_bytes t
     | GParseErr -> "PARSEERR"
     | GPanic -> "PANIC")
  | "typed-check", [t; al; kind; fr] -> typed_check t al kind fr
  | "wire-run", cap :: chunks :: ops -> wire_run (int_of_string cap) chunks ops
  | _ -> failwith ("bad case for " ^ cmd ^ ": " ^ line)

let handle_line (cmd : string) (line : string) : string =
  match cmd with
  | "svc-run" -> svc_run line
  | "e2e-run" -> e2e_run line
  | "reg-run" -> reg_run line
  | "addr-run" -> addr_run line
  | "life-run" -> life_run line
  | "act-run" -> act_run line
  | "ctx-run" -> ctx_run line
  | _ -> handle cmd line

let () =
  let cmd = Sys.argv.(1) in
  try
    while true do
      let line = input_line stdin in
      print_string (handle_line cmd line);
      print_char '\n'
    done
  with End_of_file -> ()
