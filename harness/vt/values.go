// Package vt: the value-description language shared by the harness commands.
//
//	N | T | F | D hex ; | S hex ; | [ v , v ] | { hex : v , ... } (ordered) | M{ hex : v , ... } (Go map)
//	R hex ;  (json.RawMessage)
package vt

import (
	"bytes"
	"encoding/hex"
	"encoding/json"
	"fmt"
	"sort"
	"strings"
)

// Ordered is an object whose members are emitted in the given order.
type Ordered struct {
	Keys []string
	Vals []interface{}
}

func (o Ordered) MarshalJSON() ([]byte, error) {
	var b bytes.Buffer
	b.WriteByte('{')
	for i, k := range o.Keys {
		if i > 0 {
			b.WriteByte(',')
		}
		kb, err := json.Marshal(k)
		if err != nil {
			return nil, err
		}
		b.Write(kb)
		b.WriteByte(':')
		vb, err := json.Marshal(o.Vals[i])
		if err != nil {
			return nil, err
		}
		b.Write(vb)
	}
	b.WriteByte('}')
	return b.Bytes(), nil
}

type parser struct {
	s string
	p int
}

func (p *parser) hexrun() string {
	st := p.p
	for p.p < len(p.s) && strings.IndexByte("0123456789abcdef", p.s[p.p]) >= 0 {
		p.p++
	}
	b, err := hex.DecodeString(p.s[st:p.p])
	if err != nil {
		panic(err)
	}
	return string(b)
}

func (p *parser) expect(c byte) {
	if p.p >= len(p.s) || p.s[p.p] != c {
		panic(fmt.Sprintf("expected %c at %d in %q", c, p.p, p.s))
	}
	p.p++
}

func (p *parser) value() interface{} {
	c := p.s[p.p]
	p.p++
	switch c {
	case 'N':
		return nil
	case 'T':
		return true
	case 'F':
		return false
	case 'D':
		h := p.hexrun()
		p.expect(';')
		return json.Number(h)
	case 'S':
		h := p.hexrun()
		p.expect(';')
		return h
	case 'R':
		h := p.hexrun()
		p.expect(';')
		return json.RawMessage(h)
	case '[':
		l := []interface{}{}
		if p.s[p.p] == ']' {
			p.p++
			return l
		}
		for {
			l = append(l, p.value())
			if p.s[p.p] == ',' {
				p.p++
				continue
			}
			p.expect(']')
			return l
		}
	case '{', 'M':
		isMap := c == 'M'
		if isMap {
			p.expect('{')
		}
		o := Ordered{}
		if p.s[p.p] == '}' {
			p.p++
		} else {
			for {
				k := p.hexrun()
				p.expect(':')
				o.Keys = append(o.Keys, k)
				o.Vals = append(o.Vals, p.value())
				if p.s[p.p] == ',' {
					p.p++
					continue
				}
				p.expect('}')
				break
			}
		}
		if isMap {
			m := map[string]interface{}{}
			for i, k := range o.Keys {
				m[k] = o.Vals[i]
			}
			return m
		}
		return o
	}
	panic("bad value tag " + string(c))
}

// Parse builds a Go value from its description.
func Parse(s string) interface{} {
	p := &parser{s: s}
	v := p.value()
	if p.p != len(s) {
		panic("trailing text in value description")
	}
	return v
}

// Dump renders a value decoded with UseNumber into interface{} (map keys sorted... no:
// decoded objects are maps, so Dump cannot recover member order; DumpRaw walks the token stream instead).
func DumpRaw(data []byte) (string, error) {
	dec := json.NewDecoder(bytes.NewReader(data))
	dec.UseNumber()
	var b strings.Builder
	if err := dumpTok(dec, &b); err != nil {
		return "", err
	}
	// trailing data must be whitespace only
	if _, err := dec.Token(); err == nil {
		return "", fmt.Errorf("trailing data")
	}
	return b.String(), nil
}

func dumpTok(dec *json.Decoder, b *strings.Builder) error {
	t, err := dec.Token()
	if err != nil {
		return err
	}
	switch v := t.(type) {
	case nil:
		b.WriteString("N")
	case bool:
		if v {
			b.WriteString("T")
		} else {
			b.WriteString("F")
		}
	case json.Number:
		b.WriteString("D" + hex.EncodeToString([]byte(v)) + ";")
	case string:
		b.WriteString("S" + hex.EncodeToString([]byte(v)) + ";")
	case json.Delim:
		switch v {
		case '[':
			b.WriteString("[")
			first := true
			for dec.More() {
				if !first {
					b.WriteString(",")
				}
				first = false
				if err := dumpTok(dec, b); err != nil {
					return err
				}
			}
			if _, err := dec.Token(); err != nil {
				return err
			}
			b.WriteString("]")
		case '{':
			b.WriteString("{")
			first := true
			for dec.More() {
				if !first {
					b.WriteString(",")
				}
				first = false
				k, err := dec.Token()
				if err != nil {
					return err
				}
				b.WriteString(hex.EncodeToString([]byte(k.(string))) + ":")
				if err := dumpTok(dec, b); err != nil {
					return err
				}
			}
			if _, err := dec.Token(); err != nil {
				return err
			}
			b.WriteString("}")
		}
	}
	return nil
}

// SortedKeys is exported for tests of the model's key order.
func SortedKeys(m map[string]interface{}) []string {
	ks := make([]string, 0, len(m))
	for k := range m {
		ks = append(ks, k)
	}
	sort.Strings(ks)
	return ks
}

func Hx(b []byte) string {
	if len(b) == 0 {
		return "-"
	}
	return hex.EncodeToString(b)
}

func Unhex(s string) []byte {
	if s == "-" || s == "" {
		return []byte{}
	}
	b, err := hex.DecodeString(s)
	if err != nil {
		panic(err)
	}
	return b
}
