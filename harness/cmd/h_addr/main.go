// h_addr: address handling histories on one real Service object, in a scratch directory (cwd).
// line := ops separated by " | ":
//
//	bind <ok> <hexaddr>      Service.Bind                       -> ok | err | panic
//	start                    DoListen in a goroutine            -> ok | err
//	listen <ok> <hexaddr>    Service.Listen in a goroutine      -> ok | err | panic
//	stop                     Shutdown + wait for return         -> stopped | notrunning | noreturn
//	connect <hexaddr>        NewConnection + GetInfo            -> ok | err | panic
//	exists <hexpath>         does the path exist                -> 1 | 0
//	stale <hexpath>          leave a dead socket file behind    -> done
//
// (<ok> is the model's oracle bit and is ignored here)
package main

import (
	"bufio"
	"context"
	"fmt"
	"net"
	"os"
	"strings"
	"time"

	"github.com/varlink/go/varlink"
	"verif/harness/vt"
)

func guard(f func() string) (res string) {
	defer func() {
		if r := recover(); r != nil {
			res = "panic"
		}
	}()
	return f()
}

func runCase(line string) string {
	svc, _ := varlink.NewService("v", "p", "1", "u")
	ctx := context.Background()
	var done chan error
	var out []string
	waitRunning := func(d chan error) string {
		for t := 0; t < 5000; t++ {
			if svc.VerifRunning() {
				return "ok"
			}
			select {
			case err := <-d:
				d <- err
				if err != nil {
					return "err"
				}
				return "returned"
			default:
			}
			time.Sleep(200 * time.Microsecond)
		}
		return "stuck"
	}
	for _, sec := range strings.Split(line, " | ") {
		f := strings.Fields(sec)
		if len(f) == 0 {
			continue
		}
		switch f[0] {
		case "bind":
			out = append(out, guard(func() string {
				if err := svc.Bind(ctx, string(vt.Unhex(f[2]))); err != nil {
					return "err"
				}
				return "ok"
			}))
		case "start":
			if done != nil {
				out = append(out, "already")
				continue
			}
			d := make(chan error, 2)
			go func() { d <- svc.DoListen(ctx, 0) }()
			r := waitRunning(d)
			if r == "ok" {
				done = d
			}
			out = append(out, r)
		case "listen":
			if done != nil {
				out = append(out, "already")
				continue
			}
			d := make(chan error, 2)
			addr := string(vt.Unhex(f[2]))
			go func() {
				defer func() {
					if r := recover(); r != nil {
						d <- fmt.Errorf("PANIC")
					}
				}()
				d <- svc.Listen(ctx, addr, 0)
			}()
			r := waitRunning(d)
			if r == "ok" {
				done = d
			} else if r == "err" {
				e := <-d
				if e != nil && e.Error() == "PANIC" {
					r = "panic"
				}
			}
			out = append(out, r)
		case "stop":
			if done == nil {
				out = append(out, "notrunning")
				continue
			}
			svc.Shutdown()
			select {
			case <-done:
				out = append(out, "stopped")
			case <-time.After(3 * time.Second):
				out = append(out, "noreturn")
			}
			done = nil
		case "shutdown":
			svc.Shutdown()
			if done == nil {
				out = append(out, "shutdown")
				continue
			}
			select {
			case <-done:
				out = append(out, "stopped")
			case <-time.After(3 * time.Second):
				out = append(out, "noreturn")
			}
			done = nil
		case "connect":
			out = append(out, guard(func() string {
				cctx, cancel := context.WithTimeout(ctx, 400*time.Millisecond)
				defer cancel()
				c, err := varlink.NewConnection(cctx, string(vt.Unhex(f[1])))
				if err != nil {
					return "err"
				}
				defer c.Close()
				var v string
				if err := c.GetInfo(cctx, &v, nil, nil, nil, nil); err != nil || v != "v" {
					return "err"
				}
				return "ok"
			}))
		case "exists":
			if _, err := os.Lstat(string(vt.Unhex(f[1]))); err == nil {
				out = append(out, "1")
			} else {
				out = append(out, "0")
			}
		case "stale":
			l, err := net.Listen("unix", string(vt.Unhex(f[1])))
			if err == nil {
				l.(*net.UnixListener).SetUnlinkOnClose(false)
				l.Close()
			}
			out = append(out, "done")
		}
	}
	if done != nil {
		svc.Shutdown()
		select {
		case <-done:
		case <-time.After(3 * time.Second):
		}
	} else if l, _ := svc.GetListener(); l != nil {
		l.Close()
	}
	return strings.Join(out, " ")
}

func main() {
	if len(os.Args) > 1 {
		if err := os.Chdir(os.Args[1]); err != nil {
			panic(err)
		}
	}
	sc := bufio.NewScanner(os.Stdin)
	sc.Buffer(make([]byte, 1<<20), 1<<28)
	w := bufio.NewWriterSize(os.Stdout, 1<<20)
	defer w.Flush()
	hangs := 0
	for sc.Scan() {
		// a case that never comes back (a lock that is never released, a goroutine that is never joined) must not hang the check
		line := sc.Text()
		if hangs >= 3 {
			fmt.Fprintln(w, "HANG skipped: three earlier cases of this run did not finish")
			continue
		}
		resc := make(chan string, 1)
		go func() { resc <- runCase(line) }()
		select {
		case r := <-resc:
			fmt.Fprintln(w, r)
		case <-time.After(60 * time.Second):
			hangs++
			fmt.Fprintln(w, "HANG the case did not finish within 60 s")
		}
	}
}
