// h_clock: real-clock idle-timeout runs with one-sided margins.
// For each input line: Listen with a 150 ms timeout on an abstract unix socket; hold a connection open for 600 ms
// (the service must not stop); close it; the service must return ServiceTimeoutError within 2 s; afterwards a dial must
// fail and the same address must be servable again at once.
package main

import (
	"bufio"
	"context"
	"errors"
	"fmt"
	"net"
	"os"
	"time"

	"github.com/varlink/go/varlink"
)

// serve starts Listen and waits until the listener exists, so that no scenario depends on how fast a goroutine gets going.
// stopped receives the instant the serving call returned.
func serve(svc *varlink.Service, addr string, timeout time.Duration) (done chan error, stopped *time.Time) {
	done = make(chan error, 1)
	stopped = new(time.Time)
	go func() {
		e := svc.Listen(context.Background(), addr, timeout)
		*stopped = time.Now()
		done <- e
	}()
	for t := 0; t < 5000; t++ {
		if l, _ := svc.GetListener(); l != nil {
			break
		}
		select {
		case e := <-done:
			done <- e
			return
		default:
		}
		time.Sleep(time.Millisecond)
	}
	return
}

func run(n int) string {
	var svc *varlink.Service
	var name, addr string
	var done chan error
	var c net.Conn
	var err error
	// an idle service with a 150 ms timeout may legitimately stop before a slow harness has connected: try again then
	for attempt := 0; attempt < 5; attempt++ {
		svc, _ = varlink.NewService("v", "p", "1", "u")
		name = fmt.Sprintf("@vrf-clock-%d-%d-%d", os.Getpid(), n, attempt)
		addr = "unix:" + name
		done, _ = serve(svc, addr, 150*time.Millisecond)
		c, err = net.Dial("unix", name)
		if err == nil {
			break
		}
		svc.Shutdown()
		select {
		case <-done:
		case <-time.After(2 * time.Second):
		}
	}
	if err != nil {
		return "could not connect in five attempts: " + err.Error()
	}
	select {
	case e := <-done:
		return fmt.Sprintf("service stopped while a connection was open: %v", e)
	case <-time.After(600 * time.Millisecond):
	}
	c.Close()
	select {
	case e := <-done:
		var te varlink.ServiceTimeoutError
		if !errors.As(e, &te) {
			return fmt.Sprintf("expected the timeout error, got %v", e)
		}
	case <-time.After(2 * time.Second):
		svc.Shutdown()
		return "service did not time out within 2 s after the last connection ended"
	}
	if c2, err := net.Dial("unix", name); err == nil {
		c2.Close()
		return "after the timeout exit a connection attempt still succeeds (listener left open)"
	}
	svc2, _ := varlink.NewService("v", "p", "1", "u")
	if err := svc2.Bind(context.Background(), addr); err != nil {
		return "the address cannot be served again at once: " + err.Error()
	}
	l, _ := svc2.GetListener()
	l.Close()
	if r := late(n); r != "ok" {
		return r
	}
	if r := fsidle(n); r != "ok" {
		return r
	}
	if r := twice(n); r != "ok" {
		return r
	}
	return upgradeHold(n)
}

// twice: ONE service object served three times in a row with an idle timeout, on an abstract and on a filesystem address; every
// serve must end with the timeout error and release its endpoint (a dial fails, the same address can be served again at once).
func twice(n int) string {
	dir, err := os.MkdirTemp("", "vclock2")
	if err != nil {
		return "twice: " + err.Error()
	}
	defer os.RemoveAll(dir)
	for _, kind := range []string{"abstract", "fs"} {
		svc, _ := varlink.NewService("v", "p", "1", "u")
		name := fmt.Sprintf("@vrf-clock-twice-%d-%d", os.Getpid(), n)
		if kind == "fs" {
			name = fmt.Sprintf("%s/t%d.sock", dir, n)
		}
		for round := 1; round <= 3; round++ {
			done, _ := serve(svc, "unix:"+name, 200*time.Millisecond)
			select {
			case e := <-done:
				var te varlink.ServiceTimeoutError
				if !errors.As(e, &te) {
					return fmt.Sprintf("twice(%s) serve %d: expected the timeout error, got %v", kind, round, e)
				}
			case <-time.After(4 * time.Second):
				svc.Shutdown()
				return fmt.Sprintf("twice(%s) serve %d: an idle service with a 200 ms timeout was still serving after 4 s", kind, round)
			}
			if c, err := net.Dial("unix", name); err == nil {
				c.Close()
				return fmt.Sprintf("twice(%s) serve %d: after the timeout exit a connection attempt still succeeds (listener left open)", kind, round)
			}
		}
	}
	return "ok"
}

type upIface struct{}

func (upIface) VarlinkGetName() string        { return "a.b" }
func (upIface) VarlinkGetDescription() string { return "interface a.b\nmethod Up() -> ()" }
func (upIface) VarlinkDispatch(ctx context.Context, c varlink.Call, m string) error {
	return c.Reply(ctx, nil)
}

// upgradeHold: a client makes a call with the upgrade flag, gets its reply and stays connected over several timeout periods: the
// service must not stop while that connection is open, and must stop once it is closed.
func upgradeHold(n int) string {
	const T = 200 * time.Millisecond
	var svc *varlink.Service
	var done chan error
	var c net.Conn
	var err error
	for attempt := 0; attempt < 5; attempt++ {
		svc, _ = varlink.NewService("v", "p", "1", "u")
		svc.RegisterInterface(upIface{})
		name := fmt.Sprintf("@vrf-clock-up-%d-%d-%d", os.Getpid(), n, attempt)
		done, _ = serve(svc, "unix:"+name, T)
		if c, err = net.Dial("unix", name); err == nil {
			break
		}
		svc.Shutdown()
		select {
		case <-done:
		case <-time.After(2 * time.Second):
		}
	}
	if err != nil {
		return "upgradeHold: could not connect in five attempts: " + err.Error()
	}
	c.SetDeadline(time.Now().Add(5 * time.Second))
	if _, err := c.Write([]byte("{\"method\":\"a.b.Up\",\"upgrade\":true}\x00")); err != nil {
		return "upgradeHold: write: " + err.Error()
	}
	if _, err := bufio.NewReader(c).ReadBytes(0); err != nil {
		return "upgradeHold: no reply to the upgrade call: " + err.Error()
	}
	c.SetDeadline(time.Time{})
	select {
	case e := <-done:
		c.Close()
		return fmt.Sprintf("upgradeHold: the service stopped (%v) while the client of an upgraded call was still connected", e)
	case <-time.After(5 * T):
	}
	c.Close()
	select {
	case e := <-done:
		var te varlink.ServiceTimeoutError
		if !errors.As(e, &te) {
			return fmt.Sprintf("upgradeHold: expected the timeout error, got %v", e)
		}
	case <-time.After(4 * time.Second):
		svc.Shutdown()
		return "upgradeHold: the service did not time out within 4 s after the connection ended"
	}
	return "ok"
}

// fsidle: the same on a filesystem socket path and on TCP (other listener types than the abstract socket above): an idle service
// with a 150 ms timeout stops by itself, also after a client has come and gone, and removes its socket file.
func fsidle(n int) string {
	dir, err := os.MkdirTemp("", "vclock")
	if err != nil {
		return "fsidle: " + err.Error()
	}
	defer os.RemoveAll(dir)
	for _, kind := range []string{"fs", "fs-visited", "tcp"} {
		svc, _ := varlink.NewService("v", "p", "1", "u")
		path := fmt.Sprintf("%s/c%d-%s.sock", dir, n, kind)
		addr := "unix:" + path
		if kind == "tcp" {
			addr = "tcp:127.0.0.1:0"
		}
		done := make(chan error, 1)
		go func() { done <- svc.Listen(context.Background(), addr, 150*time.Millisecond) }()
		if kind == "fs-visited" {
			for t := 0; t < 500; t++ {
				if c, err := net.Dial("unix", path); err == nil {
					c.Close()
					break
				}
				time.Sleep(time.Millisecond)
			}
		}
		select {
		case e := <-done:
			var te varlink.ServiceTimeoutError
			if !errors.As(e, &te) {
				return fmt.Sprintf("fsidle(%s): expected the timeout error, got %v", kind, e)
			}
		case <-time.After(3 * time.Second):
			svc.Shutdown()
			return fmt.Sprintf("fsidle(%s): an idle service with a 150 ms timeout was still serving after 3 s", kind)
		}
		if kind != "tcp" {
			if _, err := os.Lstat(path); err == nil {
				return fmt.Sprintf("fsidle(%s): the socket file is still there after the timeout exit", kind)
			}
		}
	}
	return "ok"
}

// late: timeout T = 400 ms; a short connection arrives at 0.7 T and is closed at once. The period must be measured from
// that connection: at 1.4 T the service must still be serving (it would have stopped at 1.0 T if the period had been measured
// from the start), and it must stop by 1.7 T plus slack.
func late(n int) string {
	const T = 400 * time.Millisecond
	var svc *varlink.Service
	var done chan error
	var stopped *time.Time
	var c net.Conn
	var err error
	var arrived time.Time
	for attempt := 0; attempt < 5; attempt++ {
		svc, _ = varlink.NewService("v", "p", "1", "u")
		name := fmt.Sprintf("@vrf-clock-late-%d-%d-%d", os.Getpid(), n, attempt)
		done, stopped = serve(svc, "unix:"+name, T)
		time.Sleep(6 * T / 10)
		arrived = time.Now() // taken BEFORE dialling: the listener cannot have seen the connection earlier than this
		c, err = net.Dial("unix", name)
		if err == nil {
			break
		}
		// the harness was so slow that the first period had already passed: not the library's problem
		svc.Shutdown()
		select {
		case <-done:
		case <-time.After(2 * time.Second):
		}
	}
	if err != nil {
		return "late: could not connect in five attempts: " + err.Error()
	}
	c.Close()
	select {
	case e := <-done:
		var te varlink.ServiceTimeoutError
		if !errors.As(e, &te) {
			return fmt.Sprintf("late: expected the timeout error, got %v", e)
		}
		// the period counts from the last new connection: the stop instant (taken inside the serving goroutine) is compared with an
		// instant before the connection can have arrived - however slow this harness is, a correct service stops at least T after it
		if d := stopped.Sub(arrived); d < T-60*time.Millisecond {
			return fmt.Sprintf("late: the service stopped %v after its last new connection, the timeout is %v", d.Round(time.Millisecond), T)
		}
	case <-time.After(3 * time.Second):
		svc.Shutdown()
		return "late: service did not time out within 3 s after the last connection"
	}
	return "ok"
}

func main() {
	sc := bufio.NewScanner(os.Stdin)
	n := 0
	for sc.Scan() {
		n++
		fmt.Println(run(n))
	}
}
