// h_clock: real-clock idle-timeout runs with one-sided margins.
// For each input line: Listen with a 150 ms timeout on an abstract unix socket; hold a connection open for 600 ms
// (the service must not stop); close it; the service must return ServiceTimeoutError within 2 s; afterwards a dial must
// fail and the same address must be servable again at once.
package main

import (
	"bufio"
	"context"
	"errors"
	"fmt"
	"net"
	"os"
	"time"

	"github.com/varlink/go/varlink"
)

func run(n int) string {
	svc, _ := varlink.NewService("v", "p", "1", "u")
	name := fmt.Sprintf("@vrf-clock-%d-%d", os.Getpid(), n)
	addr := "unix:" + name
	done := make(chan error, 1)
	go func() { done <- svc.Listen(context.Background(), addr, 150*time.Millisecond) }()
	var c net.Conn
	var err error
	for t := 0; t < 200; t++ {
		c, err = net.Dial("unix", name)
		if err == nil {
			break
		}
		time.Sleep(time.Millisecond)
	}
	if err != nil {
		return "could not connect: " + err.Error()
	}
	select {
	case e := <-done:
		return fmt.Sprintf("service stopped while a connection was open: %v", e)
	case <-time.After(600 * time.Millisecond):
	}
	c.Close()
	select {
	case e := <-done:
		var te varlink.ServiceTimeoutError
		if !errors.As(e, &te) {
			return fmt.Sprintf("expected the timeout error, got %v", e)
		}
	case <-time.After(2 * time.Second):
		svc.Shutdown()
		return "service did not time out within 2 s after the last connection ended"
	}
	if c2, err := net.Dial("unix", name); err == nil {
		c2.Close()
		return "after the timeout exit a connection attempt still succeeds (listener left open)"
	}
	svc2, _ := varlink.NewService("v", "p", "1", "u")
	if err := svc2.Bind(context.Background(), addr); err != nil {
		return "the address cannot be served again at once: " + err.Error()
	}
	l, _ := svc2.GetListener()
	l.Close()
	if r := late(n); r != "ok" {
		return r
	}
	return fsidle(n)
}

// fsidle: the same on a filesystem socket path and on TCP (other listener types than the abstract socket above): an idle service
// with a 150 ms timeout stops by itself, also after a client has come and gone, and removes its socket file.
func fsidle(n int) string {
	dir, err := os.MkdirTemp("", "vclock")
	if err != nil {
		return "fsidle: " + err.Error()
	}
	defer os.RemoveAll(dir)
	for _, kind := range []string{"fs", "fs-visited", "tcp"} {
		svc, _ := varlink.NewService("v", "p", "1", "u")
		path := fmt.Sprintf("%s/c%d-%s.sock", dir, n, kind)
		addr := "unix:" + path
		if kind == "tcp" {
			addr = "tcp:127.0.0.1:0"
		}
		done := make(chan error, 1)
		go func() { done <- svc.Listen(context.Background(), addr, 150*time.Millisecond) }()
		if kind == "fs-visited" {
			for t := 0; t < 500; t++ {
				if c, err := net.Dial("unix", path); err == nil {
					c.Close()
					break
				}
				time.Sleep(time.Millisecond)
			}
		}
		select {
		case e := <-done:
			var te varlink.ServiceTimeoutError
			if !errors.As(e, &te) {
				return fmt.Sprintf("fsidle(%s): expected the timeout error, got %v", kind, e)
			}
		case <-time.After(3 * time.Second):
			svc.Shutdown()
			return fmt.Sprintf("fsidle(%s): an idle service with a 150 ms timeout was still serving after 3 s", kind)
		}
		if kind != "tcp" {
			if _, err := os.Lstat(path); err == nil {
				return fmt.Sprintf("fsidle(%s): the socket file is still there after the timeout exit", kind)
			}
		}
	}
	return "ok"
}

// late: timeout T = 400 ms; a short connection arrives at 0.7 T and is closed at once. The period must be measured from
// that connection: at 1.4 T the service must still be serving (it would have stopped at 1.0 T if the period had been measured
// from the start), and it must stop by 1.7 T plus slack.
func late(n int) string {
	const T = 400 * time.Millisecond
	svc, _ := varlink.NewService("v", "p", "1", "u")
	name := fmt.Sprintf("@vrf-clock-late-%d-%d", os.Getpid(), n)
	done := make(chan error, 1)
	start := time.Now()
	go func() { done <- svc.Listen(context.Background(), "unix:"+name, T) }()
	time.Sleep(time.Until(start.Add(7 * T / 10)))
	c, err := net.Dial("unix", name)
	if err != nil {
		svc.Shutdown()
		return "late: could not connect at 0.7 T: " + err.Error()
	}
	c.Close()
	arrived := time.Now()
	select {
	case e := <-done:
		return fmt.Sprintf("late: the service stopped %v after its last new connection, the timeout is %v (%v)", time.Since(arrived).Round(time.Millisecond), T, e)
	case <-time.After(time.Until(start.Add(14 * T / 10))):
	}
	select {
	case e := <-done:
		var te varlink.ServiceTimeoutError
		if !errors.As(e, &te) {
			return fmt.Sprintf("late: expected the timeout error, got %v", e)
		}
	case <-time.After(2 * time.Second):
		svc.Shutdown()
		return "late: service did not time out within 2 s after the last connection"
	}
	return "ok"
}

func main() {
	sc := bufio.NewScanner(os.Stdin)
	n := 0
	for sc.Scan() {
		n++
		fmt.Println(run(n))
	}
}
