// h_clock: real-clock idle-timeout runs with one-sided margins.
// For each input line: Listen with a 150 ms timeout on an abstract unix socket; hold a connection open for 600 ms
// (the service must not stop); close it; the service must return ServiceTimeoutError within 2 s; afterwards a dial must
// fail and the same address must be servable again at once.
package main

import (
	"bufio"
	"context"
	"errors"
	"fmt"
	"net"
	"os"
	"time"

	"github.com/varlink/go/varlink"
)

func run(n int) string {
	svc, _ := varlink.NewService("v", "p", "1", "u")
	name := fmt.Sprintf("@vrf-clock-%d-%d", os.Getpid(), n)
	addr := "unix:" + name
	done := make(chan error, 1)
	go func() { done <- svc.Listen(context.Background(), addr, 150*time.Millisecond) }()
	var c net.Conn
	var err error
	for t := 0; t < 200; t++ {
		c, err = net.Dial("unix", name)
		if err == nil {
			break
		}
		time.Sleep(time.Millisecond)
	}
	if err != nil {
		return "could not connect: " + err.Error()
	}
	select {
	case e := <-done:
		return fmt.Sprintf("service stopped while a connection was open: %v", e)
	case <-time.After(600 * time.Millisecond):
	}
	c.Close()
	select {
	case e := <-done:
		var te varlink.ServiceTimeoutError
		if !errors.As(e, &te) {
			return fmt.Sprintf("expected the timeout error, got %v", e)
		}
	case <-time.After(2 * time.Second):
		svc.Shutdown()
		return "service did not time out within 2 s after the last connection ended"
	}
	if c2, err := net.Dial("unix", name); err == nil {
		c2.Close()
		return "after the timeout exit a connection attempt still succeeds (listener left open)"
	}
	svc2, _ := varlink.NewService("v", "p", "1", "u")
	if err := svc2.Bind(context.Background(), addr); err != nil {
		return "the address cannot be served again at once: " + err.Error()
	}
	l, _ := svc2.GetListener()
	l.Close()
	return "ok"
}

func main() {
	sc := bufio.NewScanner(os.Stdin)
	n := 0
	for sc.Scan() {
		n++
		fmt.Println(run(n))
	}
}
