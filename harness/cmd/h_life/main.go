// h_life: life-cycle histories (accept loop, Shutdown, idle timeout) on a real Service with a controlled listener.
// line := ops separated by " | " (see runCase); one result token per op, joined by " ".
package main

import (
	"io"
	"bufio"
	"context"
	"errors"
	"fmt"
	"net"
	"os"
	"strconv"
	"strings"
	"sync"
	"time"

	"github.com/varlink/go/varlink"
)

type tmoErr struct{}

func (tmoErr) Error() string   { return "i/o timeout" }
func (tmoErr) Timeout() bool   { return true }
func (tmoErr) Temporary() bool { return true }

type closedErr struct{}

func (closedErr) Error() string   { return "use of closed network connection" }
func (closedErr) Timeout() bool   { return false }
func (closedErr) Temporary() bool { return false }

type ev struct {
	conn    net.Conn
	timeout bool
	id      int
}

type ctl struct {
	mu        sync.Mutex
	closed    bool
	closedCh  chan struct{}
	queue     chan ev
	entered   chan struct{}
	gate      chan struct{}
	hold      chan struct{}
	accepted  map[int]bool
	deadlines int
	armed     bool // SetDeadline was called since Accept last returned
	stale     int  // Accept entered although a deadline was in use and has not been re-armed since the previous return
}

func newCtl() *ctl {
	return &ctl{closedCh: make(chan struct{}), queue: make(chan ev, 256), entered: make(chan struct{}, 256), accepted: map[int]bool{}}
}

func (l *ctl) Accept() (c net.Conn, err error) {
	// the gate that applies to this call is read BEFORE the entry is signalled: once the harness has seen the signal, nothing it does
	// afterwards (setting a gate for the NEXT entry) can change what this call does
	l.mu.Lock()
	g := l.gate
	if l.deadlines > 0 && !l.armed {
		l.stale++
	}
	l.mu.Unlock()
	l.entered <- struct{}{}
	defer func() {
		l.mu.Lock()
		l.armed = false
		l.mu.Unlock()
	}()
	if g != nil {
		<-g
	}
	for {
		l.mu.Lock()
		closed := l.closed
		l.mu.Unlock()
		if closed {
			return nil, closedErr{}
		}
		select {
		case e := <-l.queue:
			if e.timeout {
				return nil, tmoErr{}
			}
			l.mu.Lock()
			h := l.hold
			l.hold = nil
			l.accepted[e.id] = true
			l.mu.Unlock()
			if h != nil {
				<-h
			}
			return e.conn, nil
		case <-l.closedCh:
			return nil, closedErr{}
		}
	}
}

func (l *ctl) Close() error {
	l.mu.Lock()
	defer l.mu.Unlock()
	if !l.closed {
		l.closed = true
		close(l.closedCh)
	}
	return nil
}

func (l *ctl) Addr() net.Addr { return &net.UnixAddr{Name: "@ctl", Net: "unix"} }

func (l *ctl) SetDeadline(t time.Time) error {
	l.mu.Lock()
	defer l.mu.Unlock()
	if l.closed {
		return closedErr{}
	}
	l.deadlines++
	l.armed = true
	return nil
}

func (l *ctl) isClosed() bool {
	l.mu.Lock()
	defer l.mu.Unlock()
	return l.closed
}

func drain(ch chan struct{}) {
	for {
		select {
		case <-ch:
		default:
			return
		}
	}
}

// overlapDrain (real sockets, no controlled listener): serving call #1 is shut down while client A is still connected and keeps
// draining; the same object is bound and served again (#2) and client B connects to it; when A ends, #1 must return although
// B - which is not its connection - is still open.
func overlapDrain(n int) string {
	svc, _ := varlink.NewService("v", "p", "1", "u")
	ctx := context.Background()
	a1 := fmt.Sprintf("unix:@vrf-ovl1-%d-%d", os.Getpid(), n)
	a2 := fmt.Sprintf("unix:@vrf-ovl2-%d-%d", os.Getpid(), n)
	visit := func(addr string) (*varlink.Connection, error) {
		var c *varlink.Connection
		var err error
		for t := 0; t < 2000; t++ {
			if c, err = varlink.NewConnection(ctx, addr); err == nil {
				break
			}
			time.Sleep(time.Millisecond)
		}
		if err != nil {
			return nil, err
		}
		cctx, cancel := context.WithTimeout(ctx, 3*time.Second)
		defer cancel()
		var v string
		if err := c.GetInfo(cctx, &v, nil, nil, nil, nil); err != nil {
			c.Close()
			return nil, err
		}
		return c, nil
	}
	d1 := make(chan error, 1)
	go func() { d1 <- svc.Listen(ctx, a1, 0) }()
	ca, err := visit(a1)
	if err != nil {
		svc.Shutdown()
		return "X client A: " + err.Error()
	}
	svc.Shutdown()
	select {
	case <-d1:
		ca.Close()
		return "serving call #1 returned while its connection A was still open"
	case <-time.After(30 * time.Millisecond):
	}
	// wait until #1 has released the object (teardown) so that it can be bound again
	for t := 0; t < 3000 && svc.VerifRunning(); t++ {
		time.Sleep(time.Millisecond)
	}
	var d2 chan error
	for t := 0; t < 200; t++ {
		if err = svc.Bind(ctx, a2); err == nil {
			break
		}
		time.Sleep(5 * time.Millisecond)
	}
	if err != nil {
		ca.Close()
		return "the object cannot be bound again while call #1 drains: " + err.Error()
	}
	d2 = make(chan error, 1)
	go func() { d2 <- svc.DoListen(ctx, 0) }()
	cb, err := visit(a2)
	if err != nil {
		ca.Close()
		svc.Shutdown()
		return "X client B: " + err.Error()
	}
	res := "ok"
	ca.Close()
	select {
	case <-d1:
	case <-time.After(3 * time.Second):
		res = "serving call #1 did not return within 3 s after its only accepted connection ended (another serving call's connection is still open)"
	}
	cb.Close()
	svc.Shutdown()
	select {
	case <-d2:
	case <-time.After(3 * time.Second):
		if res == "ok" {
			res = "serving call #2 did not return after Shutdown"
		}
	}
	select {
	case <-d1:
	case <-time.After(time.Second):
	}
	return res
}

func runCase(n int, line string) (res string) {
	defer func() {
		if r := recover(); r != nil {
			res = "PANIC " + strings.ReplaceAll(fmt.Sprint(r), " ", "_")
		}
	}()
	if strings.HasPrefix(line, "overlap-drain") {
		return strings.ReplaceAll(overlapDrain(n), " ", "_")
	}
	svc, _ := varlink.NewService("v", "p", "1", "u")
	ctx, cancelCtx := context.WithCancel(context.Background()) // the context handed to the serving calls
	defer cancelCtx()
	var l *ctl
	var ctls []*ctl
	var done chan error
	clients := map[int]net.Conn{}
	nextID := 0
	var gate, hold chan struct{}
	var out []string
	var extra []chan error
	for _, sec := range strings.Split(line, " | ") {
		f := strings.Fields(sec)
		if len(f) == 0 {
			continue
		}
		switch f[0] {
		case "bind":
			l = newCtl()
			ctls = append(ctls, l)
			svc.VerifSetListener(l)
			out = append(out, "ok")
		case "realbind":
			addr := fmt.Sprintf("unix:@vrf-life-%d-%d-%d", os.Getpid(), n, len(out))
			if f[1] == "0" {
				addr = "nonsense"
			}
			if err := svc.Bind(ctx, addr); err != nil {
				out = append(out, "err")
			} else {
				out = append(out, "ok")
			}
		case "dolisten", "listen":
			if done != nil {
				select {
				case <-done:
				default:
					// a second serving call while one is in progress: run it synchronously, it must be refused
					if f[0] != "listen" {
						out = append(out, "skipped")
						continue
					}
					addr := fmt.Sprintf("unix:@vrf-life2-%d-%d-%d", os.Getpid(), n, len(out))
					d2 := make(chan error, 1)
					go func() { d2 <- svc.Listen(ctx, addr, 0) }()
					select {
					case err := <-d2:
						if err != nil {
							out = append(out, "refused")
						} else {
							out = append(out, "accepted")
						}
					case <-time.After(3 * time.Second):
						// it is serving: the second Listen was not refused
						out = append(out, "accepted")
						extra = append(extra, d2)
					}
					continue
				}
			}
			var to time.Duration
			if f[len(f)-1] == "1" {
				to = time.Hour
			}
			d := make(chan error, 1)
			done = d
			if f[0] == "dolisten" {
				go func() { d <- svc.DoListen(ctx, to) }()
			} else {
				addr := fmt.Sprintf("unix:@vrf-life3-%d-%d-%d", os.Getpid(), n, len(out))
				if f[1] == "0" {
					addr = "nonsense"
				}
				go func() { d <- svc.Listen(ctx, addr, to) }()
			}
			out = append(out, "started")
		case "wait-accept":
			if l == nil {
				out = append(out, "no")
				continue
			}
			select {
			case <-l.entered:
				out = append(out, "ok")
			case <-time.After(3 * time.Second):
				out = append(out, "no")
			}
		case "gate":
			gate = make(chan struct{})
			l.mu.Lock()
			l.gate = gate
			l.mu.Unlock()
			out = append(out, "ok")
		case "open-gate":
			l.mu.Lock()
			l.gate = nil
			l.mu.Unlock()
			close(gate)
			time.Sleep(2 * time.Millisecond)
			out = append(out, "ok")
		case "hold":
			hold = make(chan struct{})
			l.mu.Lock()
			l.hold = hold
			l.mu.Unlock()
			out = append(out, "ok")
		case "release":
			// the held Accept returns its connection now; wait until the service has accounted for it (the increment can only
			// happen after the release), so that later observations do not depend on how fast the service goroutine runs
			before := svc.VerifActive()
			close(hold)
			for t := 0; t < 4000 && svc.VerifActive() <= before; t++ {
				time.Sleep(250 * time.Microsecond)
			}
			time.Sleep(2 * time.Millisecond)
			out = append(out, "ok")
		case "connect":
			id := nextID
			nextID++
			if l == nil || l.isClosed() {
				out = append(out, "refused")
				continue
			}
			c, s := net.Pipe()
			clients[id] = c
			l.mu.Lock()
			holding := l.hold != nil
			l.mu.Unlock()
			l.queue <- ev{conn: s, id: id}
			if holding {
				// the placement "between Accept's decision and its return" needs Accept to have taken this connection before the
				// history goes on (a Shutdown issued earlier would compete with it inside Accept's select)
				for t := 0; t < 8000; t++ {
					l.mu.Lock()
					took := l.accepted[id]
					l.mu.Unlock()
					if took {
						break
					}
					time.Sleep(250 * time.Microsecond)
				}
			}
			out = append(out, "c"+strconv.Itoa(id))
		case "call":
			id, _ := strconv.Atoi(f[1])
			c := clients[id]
			if c == nil {
				out = append(out, "err")
				continue
			}
			c.SetDeadline(time.Now().Add(3 * time.Second))
			_, err := c.Write([]byte("{\"method\":\"org.varlink.service.GetInfo\"}\x00"))
			if err == nil {
				_, err = bufio.NewReader(c).ReadBytes(0)
			}
			c.SetDeadline(time.Time{})
			if err != nil {
				out = append(out, "err")
			} else {
				out = append(out, "ok")
			}
		case "stall":
			// a complete call and the head of the next frame in ONE write; the client reads the reply and then stalls in mid-frame
			id, _ := strconv.Atoi(f[1])
			c := clients[id]
			if c == nil {
				out = append(out, "none")
				continue
			}
			c.SetDeadline(time.Now().Add(3 * time.Second))
			_, err := c.Write([]byte("{\"method\":\"org.varlink.service.GetInfo\"}\x00{\"meth"))
			if err == nil {
				_, err = bufio.NewReader(c).ReadBytes(0)
			}
			c.SetDeadline(time.Time{})
			if err != nil {
				out = append(out, "err")
			} else {
				out = append(out, "ok")
			}
		case "ctxcancel":
			// the context given to the serving call is cancelled: every connection's read ends, all handlers exit
			cancelCtx()
			for t := 0; t < 12000 && svc.VerifActive() > 0; t++ {
				time.Sleep(250 * time.Microsecond)
			}
			if a := svc.VerifActive(); a > 0 {
				out = append(out, fmt.Sprintf("stuck:%d", a))
			} else {
				out = append(out, "ended")
			}
			for id, c := range clients {
				c.Close()
				delete(clients, id)
			}
		case "badcall", "badcall-keep":
			// a frame that does not decode: the handler fails, the service ends the connection itself
			id, _ := strconv.Atoi(f[1])
			c := clients[id]
			if c == nil {
				out = append(out, "none")
				continue
			}
			before := svc.VerifActive()
			c.SetDeadline(time.Now().Add(3 * time.Second))
			_, err := c.Write([]byte("{\"method\":5}\x00"))
			if err == nil {
				var b [16]byte
				_, err = c.Read(b[:])
			}
			c.SetDeadline(time.Time{})
			if f[0] == "badcall" {
				c.Close()
				delete(clients, id)
			}
			// badcall-keep: the client has seen the service hang up but keeps its own end open (closed when the case ends):
			// the connection's resources must be released all the same
			if err == io.EOF {
				for t := 0; t < 2000 && svc.VerifActive() >= before && before > 0; t++ {
					time.Sleep(500 * time.Microsecond)
				}
				out = append(out, "ended")
			} else {
				out = append(out, "notended:"+strings.ReplaceAll(fmt.Sprint(err), " ", "_"))
			}
		case "close":
			id, _ := strconv.Atoi(f[1])
			c := clients[id]
			if c == nil {
				out = append(out, "none")
				continue
			}
			l.mu.Lock()
			was := l.accepted[id]
			l.mu.Unlock()
			before := svc.VerifActive()
			c.Close()
			delete(clients, id)
			if was {
				for t := 0; t < 2000 && svc.VerifActive() >= before && before > 0; t++ {
					time.Sleep(500 * time.Microsecond)
				}
			}
			out = append(out, "closed")
		case "expire":
			drain(l.entered)
			l.queue <- ev{timeout: true}
			select {
			case <-l.entered:
				out = append(out, "looped")
			case err := <-done:
				done <- err
				out = append(out, "returned")
			case <-time.After(3 * time.Second):
				out = append(out, "stuck")
			}
		case "shutdown":
			if l != nil {
				drain(l.entered)
			}
			if err := svc.Shutdown(); err != nil {
				out = append(out, "err")
			} else {
				out = append(out, "nil")
			}
			time.Sleep(2 * time.Millisecond)
		case "wait-return":
			if done == nil {
				out = append(out, "notstarted")
				continue
			}
			select {
			case err := <-done:
				done = nil
				var te varlink.ServiceTimeoutError
				switch {
				case err == nil:
					out = append(out, "ret:nil")
				case errors.As(err, &te):
					out = append(out, "ret:timeout")
				default:
					out = append(out, "ret:err")
				}
			case <-time.After(3 * time.Second):
				out = append(out, "noreturn")
			}
		case "active":
			out = append(out, strconv.FormatInt(svc.VerifActive(), 10))
		case "running":
			if svc.VerifRunning() {
				out = append(out, "T")
			} else {
				out = append(out, "F")
			}
		case "closed":
			if l != nil && l.isClosed() {
				out = append(out, "T")
			} else {
				out = append(out, "F")
			}
		case "listener-nil":
			if x, _ := svc.GetListener(); x == nil {
				out = append(out, "T")
			} else {
				out = append(out, "F")
			}
		}
	}
	// clean up whatever the history left running
	for _, c := range clients {
		c.Close()
	}
	if gate != nil {
		select {
		case <-gate:
		default:
			close(gate)
		}
	}
	if hold != nil {
		select {
		case <-hold:
		default:
			close(hold)
		}
	}
	svc.Shutdown()
	if l != nil {
		l.Close()
	}
	if done != nil {
		select {
		case <-done:
		case <-time.After(2 * time.Second):
		}
	}
	if x, _ := svc.GetListener(); x != nil {
		x.Close()
	}
	for _, d2 := range extra {
		svc.Shutdown()
		select {
		case <-d2:
		case <-time.After(time.Second):
		}
	}
	stale := 0
	for _, c := range ctls {
		c.mu.Lock()
		stale += c.stale
		c.mu.Unlock()
	}
	if stale > 0 {
		// mechanism observation: with a timeout in use, Accept was entered without a fresh deadline
		out = append(out, fmt.Sprintf("STALE-DEADLINE=%d", stale))
	}
	return strings.Join(out, " ")
}

func main() {
	sc := bufio.NewScanner(os.Stdin)
	sc.Buffer(make([]byte, 1<<20), 1<<28)
	w := bufio.NewWriterSize(os.Stdout, 1<<20)
	defer w.Flush()
	n := 0
	hangs := 0
	for sc.Scan() {
		n++
		// a case that never comes back (a lock that is never released, a goroutine that is never joined) must not hang the check
		line := sc.Text()
		if hangs >= 3 {
			fmt.Fprintln(w, "HANG skipped: three earlier cases of this run did not finish")
			continue
		}
		resc := make(chan string, 1)
		go func() { resc <- runCase(n, line) }()
		select {
		case r := <-resc:
			fmt.Fprintln(w, r)
		case <-time.After(120 * time.Second):
			hangs++
			fmt.Fprintln(w, "HANG the case did not finish within 120 s")
		}
	}
}
