// h_act: socket activation. The parent spawns one child process per case with a chosen environment and
// inherited descriptors; the child binds a Service and reports which listener it ended up with.
//
//	case   := <pidmode match|differ|unset|garbage|plus> <LISTEN_FDS|-> <LISTEN_FDNAMES|-> <kinds e.g. s,f,p|->
//	result := inherited:<index> | fallback | other:<addr> | childerr:<text>
package main

import (
	"bufio"
	"context"
	"fmt"
	"net"
	"os"
	"os/exec"
	"strings"

	"github.com/varlink/go/varlink"
)

func child(fallback string) {
	svc, _ := varlink.NewService("v", "p", "1", "u")
	if err := svc.Bind(context.Background(), fallback); err != nil {
		fmt.Println("binderr:" + strings.ReplaceAll(err.Error(), " ", "_"))
		return
	}
	l, _ := svc.GetListener()
	if l == nil {
		fmt.Println("nolistener")
		return
	}
	// while the service holds its listener, a filesystem socket it listens on must exist under its path
	exists := "-"
	if a := l.Addr().String(); strings.HasPrefix(a, "/") {
		exists = "0"
		if _, err := os.Lstat(a); err == nil {
			exists = "1"
		}
	}
	fmt.Println("listener=" + l.Addr().String() + " exists=" + exists)
	if len(os.Args) > 3 && os.Args[3] == "rebind" {
		// a second service in the same process, after the activation variables were removed (what a supervisor library does once
		// the socket has been taken): it must not see the old environment
		os.Unsetenv("LISTEN_PID")
		os.Unsetenv("LISTEN_FDS")
		os.Unsetenv("LISTEN_FDNAMES")
		svc2, _ := varlink.NewService("v", "p", "1", "u")
		if err := svc2.Bind(context.Background(), os.Args[4]); err != nil {
			fmt.Println("second=binderr:" + strings.ReplaceAll(err.Error(), " ", "_"))
		} else if l2, _ := svc2.GetListener(); l2 != nil {
			fmt.Println("second=" + l2.Addr().String())
			l2.Close()
		}
	}
	l.Close()
}

func unesc(s string) (string, bool) {
	if s == "-" {
		return "", false
	}
	if s == "EMPTY" {
		return "", true
	}
	return s, true
}

func runCase(n int, line string) string {
	f := strings.Fields(line)
	pidmode, fds, names, kinds := f[0], f[1], f[2], f[3]
	fallback := fmt.Sprintf("@vrf-act-fb-%d-%d", os.Getpid(), n)
	fspath, fsidx := "", -1
	var fsinfo os.FileInfo
	var files []*os.File
	var addrs []string
	var closers []func()
	if kinds != "-" {
		for i, k := range strings.Split(kinds, ",") {
			switch k {
			case "s":
				name := fmt.Sprintf("@vrf-act-%d-%d-%d", os.Getpid(), n, i)
				l, err := net.Listen("unix", name)
				if err != nil {
					return "X listen " + err.Error()
				}
				fl, _ := l.(*net.UnixListener).File()
				files = append(files, fl)
				addrs = append(addrs, name)
				closers = append(closers, func() { l.Close(); fl.Close() })
			case "S":
				// a filesystem socket; the address given to the service names the same path (as a unit file and its service agree on one path)
				dir, err := os.MkdirTemp("", "vactS")
				if err != nil {
					return "X tempdir " + err.Error()
				}
				name := dir + "/s.sock"
				l, err := net.Listen("unix", name)
				if err != nil {
					os.RemoveAll(dir)
					return "X listen " + err.Error()
				}
				l.(*net.UnixListener).SetUnlinkOnClose(false)
				fl, _ := l.(*net.UnixListener).File()
				files = append(files, fl)
				addrs = append(addrs, name)
				if fspath == "" {
					fspath, fsidx = name, i
					fsinfo, _ = os.Lstat(name)
					fallback = name
				}
				closers = append(closers, func() { l.Close(); fl.Close(); os.RemoveAll(dir) })
			case "f":
				fl, _ := os.CreateTemp("", "vact")
				os.Remove(fl.Name())
				files = append(files, fl)
				addrs = append(addrs, "")
				closers = append(closers, func() { fl.Close() })
			case "p":
				r, w, _ := os.Pipe()
				files = append(files, r)
				addrs = append(addrs, "")
				closers = append(closers, func() { r.Close(); w.Close() })
			}
		}
	}
	defer func() {
		for _, c := range closers {
			c()
		}
	}()
	var pre string
	switch pidmode {
	case "match":
		pre = "LISTEN_PID=$$; export LISTEN_PID;"
	case "plus":
		pre = "LISTEN_PID=+$$; export LISTEN_PID;"
	case "differ":
		pre = "LISTEN_PID=1; export LISTEN_PID;"
	case "garbage":
		pre = "LISTEN_PID=abc; export LISTEN_PID;"
	default:
		pre = "unset LISTEN_PID;"
	}
	bindAddr := "unix:" + fallback
	tcpAddr := len(f) > 4 && f[4] == "tcp"
	if tcpAddr && fspath == "" {
		// the address names another protocol than the inherited socket's: it is not to be inspected when activation succeeds
		bindAddr = "tcp:127.0.0.1:0"
	}
	rebind := len(f) > 4 && f[4] == "rebind"
	second := fmt.Sprintf("@vrf-act-2nd-%d-%d", os.Getpid(), n)
	args := []string{os.Args[0], "child", bindAddr}
	if rebind {
		args = append(args, "rebind", "unix:"+second)
	}
	cmd := exec.Command("sh", append([]string{"-c", pre + ` exec "$0" "$@"`}, args...)...)
	env := []string{"PATH=" + os.Getenv("PATH")}
	if v, set := unesc(fds); set {
		env = append(env, "LISTEN_FDS="+v)
	}
	if v, set := unesc(names); set {
		env = append(env, "LISTEN_FDNAMES="+v)
	}
	cmd.Env = env
	cmd.ExtraFiles = files
	out, err := cmd.Output()
	if err != nil {
		return "childerr:" + strings.ReplaceAll(err.Error(), " ", "_")
	}
	res := strings.TrimSpace(string(out))
	secondRes := ""
	if i := strings.Index(res, "\nsecond="); i >= 0 {
		secondRes = strings.TrimSpace(res[i+len("\nsecond="):])
		res = strings.TrimSpace(res[:i])
	}
	if rebind && secondRes != second {
		return "second-bind-after-unsetenv:" + strings.ReplaceAll(secondRes, " ", "_")
	}
	if !strings.HasPrefix(res, "listener=") {
		return "child:" + res
	}
	rf := strings.Fields(strings.TrimPrefix(res, "listener="))
	addr, exists := rf[0], "-"
	if len(rf) > 1 {
		exists = strings.TrimPrefix(rf[1], "exists=")
	}
	if fspath != "" && addr == fspath {
		// same path for the inherited socket and for the fallback: tell them apart by the file itself
		now, err := os.Lstat(fspath)
		switch {
		case exists == "0":
			return fmt.Sprintf("inherited:%d:socket-file-removed", fsidx)
		case err == nil && os.SameFile(now, fsinfo):
			return fmt.Sprintf("inherited:%d", fsidx)
		default:
			return "fallback"
		}
	}
	if addr == fallback || (strings.HasPrefix(bindAddr, "tcp:") && strings.HasPrefix(addr, "127.0.0.1:")) {
		return "fallback"
	}
	for i, a := range addrs {
		if a != "" && a == addr {
			return fmt.Sprintf("inherited:%d", i)
		}
	}
	return "other:" + addr
}

func main() {
	if len(os.Args) > 2 && os.Args[1] == "child" {
		child(os.Args[2])
		return
	}
	sc := bufio.NewScanner(os.Stdin)
	w := bufio.NewWriter(os.Stdout)
	defer w.Flush()
	n := 0
	for sc.Scan() {
		n++
		fmt.Fprintln(w, runCase(n, sc.Text()))
	}
}
