// h_act: socket activation. The parent spawns one child process per case with a chosen environment and
// inherited descriptors; the child binds a Service and reports which listener it ended up with.
//
//	case   := <pidmode match|differ|unset|garbage|plus> <LISTEN_FDS|-> <LISTEN_FDNAMES|-> <kinds e.g. s,f,p|->
//	result := inherited:<index> | fallback | other:<addr> | childerr:<text>
package main

import (
	"bufio"
	"context"
	"fmt"
	"net"
	"os"
	"os/exec"
	"strings"

	"github.com/varlink/go/varlink"
)

func child(fallback string) {
	svc, _ := varlink.NewService("v", "p", "1", "u")
	if err := svc.Bind(context.Background(), fallback); err != nil {
		fmt.Println("binderr:" + strings.ReplaceAll(err.Error(), " ", "_"))
		return
	}
	l, _ := svc.GetListener()
	if l == nil {
		fmt.Println("nolistener")
		return
	}
	fmt.Println("listener=" + l.Addr().String())
	l.Close()
}

func unesc(s string) (string, bool) {
	if s == "-" {
		return "", false
	}
	if s == "EMPTY" {
		return "", true
	}
	return s, true
}

func runCase(n int, line string) string {
	f := strings.Fields(line)
	pidmode, fds, names, kinds := f[0], f[1], f[2], f[3]
	fallback := fmt.Sprintf("@vrf-act-fb-%d-%d", os.Getpid(), n)
	var files []*os.File
	var addrs []string
	var closers []func()
	if kinds != "-" {
		for i, k := range strings.Split(kinds, ",") {
			switch k {
			case "s":
				name := fmt.Sprintf("@vrf-act-%d-%d-%d", os.Getpid(), n, i)
				l, err := net.Listen("unix", name)
				if err != nil {
					return "X listen " + err.Error()
				}
				fl, _ := l.(*net.UnixListener).File()
				files = append(files, fl)
				addrs = append(addrs, name)
				closers = append(closers, func() { l.Close(); fl.Close() })
			case "f":
				fl, _ := os.CreateTemp("", "vact")
				os.Remove(fl.Name())
				files = append(files, fl)
				addrs = append(addrs, "")
				closers = append(closers, func() { fl.Close() })
			case "p":
				r, w, _ := os.Pipe()
				files = append(files, r)
				addrs = append(addrs, "")
				closers = append(closers, func() { r.Close(); w.Close() })
			}
		}
	}
	defer func() {
		for _, c := range closers {
			c()
		}
	}()
	var pre string
	switch pidmode {
	case "match":
		pre = "LISTEN_PID=$$; export LISTEN_PID;"
	case "plus":
		pre = "LISTEN_PID=+$$; export LISTEN_PID;"
	case "differ":
		pre = "LISTEN_PID=1; export LISTEN_PID;"
	case "garbage":
		pre = "LISTEN_PID=abc; export LISTEN_PID;"
	default:
		pre = "unset LISTEN_PID;"
	}
	cmd := exec.Command("sh", "-c", pre+` exec "$0" "$@"`, os.Args[0], "child", "unix:"+fallback)
	env := []string{"PATH=" + os.Getenv("PATH")}
	if v, set := unesc(fds); set {
		env = append(env, "LISTEN_FDS="+v)
	}
	if v, set := unesc(names); set {
		env = append(env, "LISTEN_FDNAMES="+v)
	}
	cmd.Env = env
	cmd.ExtraFiles = files
	out, err := cmd.Output()
	if err != nil {
		return "childerr:" + strings.ReplaceAll(err.Error(), " ", "_")
	}
	res := strings.TrimSpace(string(out))
	if !strings.HasPrefix(res, "listener=") {
		return "child:" + res
	}
	addr := strings.TrimPrefix(res, "listener=")
	if addr == fallback {
		return "fallback"
	}
	for i, a := range addrs {
		if a != "" && a == addr {
			return fmt.Sprintf("inherited:%d", i)
		}
	}
	return "other:" + addr
}

func main() {
	if len(os.Args) > 2 && os.Args[1] == "child" {
		child(os.Args[2])
		return
	}
	sc := bufio.NewScanner(os.Stdin)
	w := bufio.NewWriter(os.Stdout)
	defer w.Flush()
	n := 0
	for sc.Scan() {
		n++
		fmt.Fprintln(w, runCase(n, sc.Text()))
	}
}
