// h_race: drives the service API and client connections from several goroutines in the way the library intends
// (Shutdown, GetListener, RegisterInterface and Bind attempts concurrently with a running Listen / DoListen and with
// client connections, also cancelled ones).  Built with -race: the race detector's reports on stderr are the verdict.
// usage: h_race <iterations> <seed>
package main

import (
	"context"
	"fmt"
	"math/rand"
	"os"
	"strconv"
	"sync"
	"time"

	"github.com/varlink/go/varlink"
)

type iface struct{ name string }

func (i *iface) VarlinkGetName() string        { return i.name }
func (i *iface) VarlinkGetDescription() string { return "interface " + i.name + "\nmethod M() -> ()" }
func (i *iface) VarlinkDispatch(ctx context.Context, c varlink.Call, m string) error {
	return c.Reply(ctx, map[string]string{"m": m})
}

func scenario(rng *rand.Rand, n int, useListen bool, ops []string, clients int) {
	svc, _ := varlink.NewService("v", "p", "1", "u")
	svc.RegisterInterface(&iface{"a.b"})
	addr := fmt.Sprintf("unix:@vrf-race-%d-%d", os.Getpid(), n)
	ctx := context.Background()
	done := make(chan error, 1)
	if useListen {
		go func() { done <- svc.Listen(ctx, addr, 50*time.Millisecond) }()
	} else {
		if err := svc.Bind(ctx, addr); err != nil {
			return
		}
		go func() { done <- svc.DoListen(ctx, 50*time.Millisecond) }()
	}
	time.Sleep(time.Duration(rng.Intn(300)) * time.Microsecond)
	var wg sync.WaitGroup
	stop := make(chan struct{})
	for _, op := range ops {
		wg.Add(1)
		delay := time.Duration(rng.Intn(2000)) * time.Microsecond
		go func(op string) {
			defer wg.Done()
			time.Sleep(delay)
			switch op {
			case "getlistener":
				for i := 0; i < 20; i++ {
					svc.GetListener()
					time.Sleep(50 * time.Microsecond)
				}
			case "register":
				for i := 0; i < 10; i++ {
					svc.RegisterInterface(&iface{fmt.Sprintf("x.y%d", i)})
					time.Sleep(100 * time.Microsecond)
				}
			case "bind":
				for i := 0; i < 5; i++ {
					svc.Bind(ctx, addr+"-other")
					time.Sleep(100 * time.Microsecond)
				}
			case "shutdown":
				time.Sleep(time.Duration(rng.Intn(1500)) * time.Microsecond)
				svc.Shutdown()
			}
		}(op)
	}
	for c := 0; c < clients; c++ {
		wg.Add(1)
		go func(c int) {
			defer wg.Done()
			cctx, cancel := context.WithTimeout(ctx, 500*time.Millisecond)
			defer cancel()
			conn, err := varlink.NewConnection(cctx, addr)
			if err != nil {
				return
			}
			defer conn.Close()
			for i := 0; i < 3; i++ {
				var v string
				var ifs []string
				conn.GetInfo(cctx, &v, nil, nil, nil, &ifs)
				conn.GetInterfaceDescription(cctx, "a.b")
				var out map[string]string
				if c%2 == 1 && i == 1 {
					// a cancelled call
					c2, cancel2 := context.WithCancel(cctx)
					go func() { time.Sleep(100 * time.Microsecond); cancel2() }()
					conn.Call(c2, "a.b.M", nil, &out)
					cancel2()
					return
				}
				conn.Call(cctx, "a.b.M", nil, &out)
			}
		}(c)
	}
	wg.Wait()
	close(stop)
	svc.Shutdown()
	select {
	case <-done:
	case <-time.After(3 * time.Second):
		fmt.Println("NORETURN")
	}
	// registering again once the service has stopped is part of the intended use
	svc.RegisterInterface(&iface{"after.stop"})
}

func main() {
	iters, _ := strconv.Atoi(os.Args[1])
	seed, _ := strconv.ParseInt(os.Args[2], 10, 64)
	rng := rand.New(rand.NewSource(seed))
	all := []string{"shutdown", "getlistener", "register", "bind"}
	n := 0
	for it := 0; it < iters; it++ {
		for _, useListen := range []bool{true, false} {
			// every pair and triple of operations
			for mask := 1; mask < 16; mask++ {
				var ops []string
				for i, o := range all {
					if mask&(1<<i) != 0 {
						ops = append(ops, o)
					}
				}
				if len(ops) > 3 {
					continue
				}
				n++
				scenario(rng, n, useListen, ops, rng.Intn(5))
			}
		}
	}
	fmt.Println("done", n)
}
