// h_race: drives the service API and client connections from several goroutines in the way the library intends
// (Shutdown, GetListener, RegisterInterface and Bind attempts concurrently with a running Listen / DoListen and with
// client connections, also cancelled ones).  Built with -race: the race detector's reports on stderr are the verdict.
// usage: h_race <iterations> <seed>
package main

import (
	"context"
	"fmt"
	"math/rand"
	"os"
	"strconv"
	"sync"
	"time"

	"github.com/varlink/go/varlink"
)

type iface struct{ name string }

func (i *iface) VarlinkGetName() string        { return i.name }
func (i *iface) VarlinkGetDescription() string { return "interface " + i.name + "\nmethod M() -> ()" }
func (i *iface) VarlinkDispatch(ctx context.Context, c varlink.Call, m string) error {
	return c.Reply(ctx, map[string]string{"m": m})
}

// raw is an interface whose methods upgrade the connection and then use the raw byte stream, also with cancelled reads;
// Slow answers late, so that a client can cancel the blocked receive and use the connection again.
type raw struct{}

func (raw) VarlinkGetName() string { return "r.w" }
func (raw) VarlinkGetDescription() string {
	return "interface r.w\nmethod ClientCancels() -> ()\nmethod HandlerCancels() -> ()\nmethod Slow() -> ()"
}
func (raw) VarlinkDispatch(ctx context.Context, c varlink.Call, m string) error {
	if m == "Slow" {
		time.Sleep(20 * time.Millisecond)
		return c.Reply(ctx, nil)
	}
	if !c.WantsUpgrade() {
		return c.ReplyInvalidParameter(ctx, "upgrade")
	}
	if err := c.Reply(ctx, nil); err != nil {
		return err
	}
	buf := make([]byte, 16)
	switch m {
	case "ClientCancels":
		if _, err := c.Conn.Read(ctx, buf); err != nil {
			return err
		}
		_, err := c.Conn.Write(ctx, []byte("pong"))
		return err
	case "HandlerCancels":
		rctx, cancel := context.WithCancel(ctx)
		t := time.AfterFunc(5*time.Millisecond, cancel)
		c.Conn.Read(rctx, buf)
		t.Stop()
		cancel()
		_, err := c.Conn.Write(ctx, []byte("late"))
		return err
	}
	return c.ReplyMethodNotFound(ctx, m)
}

// clientScenarios: one goroutine per connection, as intended; the only other goroutines touching a connection are the
// helpers the library starts itself. Cancelled operations are followed by further use of the same connection.
func clientScenarios(n int) {
	svc, _ := varlink.NewService("v", "p", "1", "u")
	svc.RegisterInterface(raw{})
	addr := fmt.Sprintf("unix:@vrf-race-c-%d-%d", os.Getpid(), n)
	ctx := context.Background()
	done := make(chan error, 1)
	go func() { done <- svc.Listen(ctx, addr, 0) }()
	for i := 0; i < 2000; i++ {
		if l, _ := svc.GetListener(); l != nil {
			break
		}
		time.Sleep(200 * time.Microsecond)
	}
	dl := func() (context.Context, context.CancelFunc) { return context.WithTimeout(ctx, 2*time.Second) }
	// (1) a cancelled call (blocked receive), then the connection is used again
	if conn, err := varlink.NewConnection(ctx, addr); err == nil {
		for i := 0; i < 3; i++ {
			c1, cancel1 := context.WithCancel(ctx)
			t := time.AfterFunc(2*time.Millisecond, cancel1)
			var out struct{}
			conn.Call(c1, "r.w.Slow", nil, &out)
			t.Stop()
			cancel1()
			c2, cancel2 := dl()
			var v string
			conn.GetInfo(c2, &v, nil, nil, nil, nil)
			cancel2()
		}
		conn.Close()
	}
	// (2) / (3) a cancelled raw Read on an upgraded connection, client side and handler side, then further use
	for _, m := range []string{"r.w.ClientCancels", "r.w.HandlerCancels"} {
		conn, err := varlink.NewConnection(ctx, addr)
		if err != nil {
			continue
		}
		c0, cancel0 := dl()
		recv, err := conn.Upgrade(c0, m, nil)
		if err == nil {
			var out struct{}
			_, rw, err := recv(c0, &out)
			if err == nil && rw != nil {
				buf := make([]byte, 16)
				if m == "r.w.ClientCancels" {
					rctx, cancel := context.WithCancel(ctx)
					t := time.AfterFunc(5*time.Millisecond, cancel)
					rw.Read(rctx, buf)
					t.Stop()
					cancel()
					rw.Write(c0, []byte("ping"))
				}
				rw.Read(c0, buf)
			}
		}
		cancel0()
		conn.Close()
	}
	svc.Shutdown()
	select {
	case <-done:
	case <-time.After(3 * time.Second):
		fmt.Println("NORETURN")
	}
}

func scenario(rng *rand.Rand, n int, useListen bool, ops []string, clients int) {
	svc, _ := varlink.NewService("v", "p", "1", "u")
	svc.RegisterInterface(&iface{"a.b"})
	addr := fmt.Sprintf("unix:@vrf-race-%d-%d", os.Getpid(), n)
	ctx := context.Background()
	done := make(chan error, 1)
	if useListen {
		go func() { done <- svc.Listen(ctx, addr, 50*time.Millisecond) }()
	} else {
		if err := svc.Bind(ctx, addr); err != nil {
			return
		}
		go func() { done <- svc.DoListen(ctx, 50*time.Millisecond) }()
	}
	// the property speaks of operations concurrent with a RUNNING serving call: its start-up (Bind inside Listen) is not
	// meant to overlap with other calls on the same object
	for i := 0; i < 10000 && !svc.VerifRunning(); i++ {
		time.Sleep(100 * time.Microsecond)
	}
	time.Sleep(time.Duration(rng.Intn(300)) * time.Microsecond)
	var wg sync.WaitGroup
	stop := make(chan struct{})
	for _, op := range ops {
		wg.Add(1)
		delay := time.Duration(rng.Intn(2000)) * time.Microsecond
		go func(op string) {
			defer wg.Done()
			time.Sleep(delay)
			switch op {
			case "getlistener":
				for i := 0; i < 20; i++ {
					svc.GetListener()
					time.Sleep(50 * time.Microsecond)
				}
			case "register":
				for i := 0; i < 10; i++ {
					svc.RegisterInterface(&iface{fmt.Sprintf("x.y%d", i)})
					time.Sleep(100 * time.Microsecond)
				}
			case "bind":
				for i := 0; i < 5; i++ {
					svc.Bind(ctx, addr+"-other")
					time.Sleep(100 * time.Microsecond)
				}
			case "shutdown":
				time.Sleep(time.Duration(rng.Intn(1500)) * time.Microsecond)
				svc.Shutdown()
			}
		}(op)
	}
	for c := 0; c < clients; c++ {
		wg.Add(1)
		go func(c int) {
			defer wg.Done()
			cctx, cancel := context.WithTimeout(ctx, 500*time.Millisecond)
			defer cancel()
			conn, err := varlink.NewConnection(cctx, addr)
			if err != nil {
				return
			}
			defer conn.Close()
			for i := 0; i < 3; i++ {
				var v string
				var ifs []string
				conn.GetInfo(cctx, &v, nil, nil, nil, &ifs)
				conn.GetInterfaceDescription(cctx, "a.b")
				var out map[string]string
				if c%2 == 1 && i == 1 {
					// a cancelled call
					c2, cancel2 := context.WithCancel(cctx)
					go func() { time.Sleep(100 * time.Microsecond); cancel2() }()
					conn.Call(c2, "a.b.M", nil, &out)
					cancel2()
					return
				}
				conn.Call(cctx, "a.b.M", nil, &out)
			}
		}(c)
	}
	wg.Wait()
	close(stop)
	svc.Shutdown()
	select {
	case <-done:
	case <-time.After(3 * time.Second):
		fmt.Println("NORETURN")
	}
	// registering again once the service has stopped is part of the intended use
	svc.RegisterInterface(&iface{"after.stop"})
}

func main() {
	iters, _ := strconv.Atoi(os.Args[1])
	seed, _ := strconv.ParseInt(os.Args[2], 10, 64)
	rng := rand.New(rand.NewSource(seed))
	all := []string{"shutdown", "getlistener", "register", "bind"}
	n := 0
	for it := 0; it < iters; it++ {
		for k := 0; k < 3; k++ {
			n++
			clientScenarios(n)
		}
		for _, useListen := range []bool{true, false} {
			// every pair and triple of operations
			for mask := 1; mask < 16; mask++ {
				var ops []string
				for i, o := range all {
					if mask&(1<<i) != 0 {
						ops = append(ops, o)
					}
				}
				if len(ops) > 3 {
					continue
				}
				// Bind is not among the operations the property lists; it is exercised only while the serving call keeps running
				// (where it is refused under the mutex), never together with a Shutdown whose teardown it could overlap
				if mask&1 != 0 && mask&8 != 0 {
					continue
				}
				n++
				scenario(rng, n, useListen, ops, rng.Intn(5))
			}
		}
	}
	fmt.Println("done", n)
}
