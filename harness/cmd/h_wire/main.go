// h_wire drives the buffered reader of varlink/internal/ctxio (through the
// overlay accessor) over a connection that delivers exactly the given chunks.
//
// mode "ops":   line = <chunk,chunk,...> <op> <op> ...   (chunks hex; ops B<hex delim> | R<n>)
//
//	out  = D<hex> | E<hex> per op ("-" for empty data)
//
// mode "upgrade-service" / "upgrade-client": line = <hex frame-without-NUL> <hex payload> <readsize>
//
//	a real service / client receives frame+NUL+payload in ONE segment and then reads raw;
//	out  = the raw bytes seen after the frame (hex), read until len(payload) bytes or EOF
package main

import (
	"runtime"
	"bufio"
	"context"
	"encoding/hex"
	"fmt"
	"io"
	"net"
	"os"
	"strconv"
	"strings"
	"sync"
	"time"

	"github.com/varlink/go/varlink"
)

type chunkConn struct {
	chunks [][]byte
}

func (c *chunkConn) Read(p []byte) (int, error) {
	if len(c.chunks) == 0 {
		return 0, io.EOF
	}
	n := copy(p, c.chunks[0])
	if n == len(c.chunks[0]) {
		c.chunks = c.chunks[1:]
	} else {
		c.chunks[0] = c.chunks[0][n:]
	}
	return n, nil
}
func (c *chunkConn) Write(p []byte) (int, error)        { return len(p), nil }
func (c *chunkConn) Close() error                       { return nil }
func (c *chunkConn) LocalAddr() net.Addr                { return nil }
func (c *chunkConn) RemoteAddr() net.Addr               { return nil }
func (c *chunkConn) SetDeadline(t time.Time) error      { return nil }
func (c *chunkConn) SetReadDeadline(t time.Time) error  { return nil }
func (c *chunkConn) SetWriteDeadline(t time.Time) error { return nil }

func unhex(s string) []byte {
	if s == "-" || s == "" {
		return nil
	}
	b, err := hex.DecodeString(s)
	if err != nil {
		fmt.Fprintln(os.Stderr, "bad hex", s)
		os.Exit(2)
	}
	return b
}

func hx(b []byte) string {
	if len(b) == 0 {
		return "-"
	}
	return hex.EncodeToString(b)
}

func runOps(line string) string {
	f := strings.Fields(line)
	cc := &chunkConn{}
	if f[0] != "-" {
		for _, h := range strings.Split(f[0], ",") {
			cc.chunks = append(cc.chunks, unhex(h))
		}
	}
	conn := varlink.VerifNewCtxConn(cc)
	ctx := context.Background()
	var out []string
	for _, op := range f[1:] {
		switch op[0] {
		case 'B':
			d := unhex(op[1:])
			data, err := conn.ReadBytes(ctx, d[0])
			if err == nil {
				out = append(out, "D"+hx(data))
			} else if err == io.EOF {
				out = append(out, "E"+hx(data))
			} else {
				out = append(out, "X"+err.Error())
			}
		case 'R':
			n, _ := strconv.Atoi(op[1:])
			buf := make([]byte, n)
			k, err := conn.Read(ctx, buf)
			if err == nil {
				out = append(out, "D"+hx(buf[:k]))
			} else if err == io.EOF {
				out = append(out, "E"+hx(buf[:k]))
			} else {
				out = append(out, "X"+err.Error())
			}
		}
	}
	return strings.Join(out, " ")
}

// ---- upgrade through a real service ----

type upIface struct {
	mu   sync.Mutex
	got  chan []byte
	want int
	rs   int
}

func (u *upIface) VarlinkGetName() string        { return "x.y" }
func (u *upIface) VarlinkGetDescription() string { return "interface x.y\nmethod Up() -> ()" }
func (u *upIface) VarlinkDispatch(ctx context.Context, c varlink.Call, method string) error {
	if err := c.Reply(ctx, nil); err != nil {
		return err
	}
	var acc []byte
	ctx2, cancel := context.WithTimeout(ctx, 3*time.Second)
	defer cancel()
	for len(acc) < u.want {
		buf := make([]byte, u.rs)
		n, err := c.Conn.Read(ctx2, buf)
		acc = append(acc, buf[:n]...)
		if err != nil {
			break
		}
	}
	u.got <- acc
	return fmt.Errorf("done")
}

var variant string // "" | "split" (payload in later segments) | "gc" (the caller keeps only the upgraded stream)

func upgradeService(dir string, idx int, frame, payload []byte, rs int) string {
	svc, _ := varlink.NewService("v", "p", "1", "u")
	u := &upIface{got: make(chan []byte, 1), want: len(payload), rs: rs}
	svc.RegisterInterface(u)
	addr := fmt.Sprintf("unix:%s/s%d", dir, idx)
	done := make(chan error, 1)
	ctx := context.Background()
	if err := svc.Bind(ctx, addr); err != nil {
		return "X bind " + err.Error()
	}
	go func() { done <- svc.DoListen(ctx, 0) }()
	c, err := net.Dial("unix", fmt.Sprintf("%s/s%d", dir, idx))
	if err != nil {
		return "X dial " + err.Error()
	}
	msg := append(append(append([]byte{}, frame...), 0), payload...)
	if variant == "split" && len(payload) > 1 {
		// the payload arrives after the request, in two segments: the handler's raw read starts on an empty buffer
		c.Write(msg[:len(frame)+1])
		time.Sleep(80 * time.Millisecond)
		c.Write(payload[:len(payload)/2])
		time.Sleep(80 * time.Millisecond)
		c.Write(payload[len(payload)/2:])
	} else {
		c.Write(msg) // one segment: frame, NUL and payload together
	}
	var res string
	select {
	case g := <-u.got:
		res = hx(g)
	case <-time.After(5 * time.Second):
		res = "X timeout"
	}
	c.Close()
	svc.Shutdown()
	<-done
	return res
}

func upgradeClient(dir string, idx int, frame, payload []byte, rs int) string {
	path := fmt.Sprintf("%s/c%d", dir, idx)
	l, err := net.Listen("unix", path)
	if err != nil {
		return "X listen " + err.Error()
	}
	defer l.Close()
	go func() {
		c, err := l.Accept()
		if err != nil {
			return
		}
		r := bufio.NewReader(c)
		r.ReadBytes(0)
		msg := append(append(append([]byte{}, frame...), 0), payload...)
		if variant == "gc" {
			c.Write(msg[:len(frame)+1])
			time.Sleep(200 * time.Millisecond) // the payload follows later, when the client holds nothing but the stream
			c.Write(payload)
		} else {
			c.Write(msg)
		}
		time.Sleep(50 * time.Millisecond)
		c.Close()
	}()
	ctx := context.Background()
	conn, err := varlink.NewConnection(ctx, "unix:"+path)
	if err != nil {
		return "X connect " + err.Error()
	}
	if variant != "gc" {
		defer conn.Close()
	}
	recv, err := conn.Upgrade(ctx, "x.y.Up", nil)
	if err != nil {
		return "X upgrade " + err.Error()
	}
	var out map[string]interface{}
	_, rw, err := recv(ctx, &out)
	if err != nil {
		return "X receive " + err.Error()
	}
	if variant == "gc" {
		// a caller that keeps only the upgraded stream (as a Dial-style helper returning just the ReadWriterContext would): the
		// Connection object becomes garbage; the stream must keep working
		conn, recv = nil, nil
		runtime.GC()
		runtime.GC()
		time.Sleep(20 * time.Millisecond)
		runtime.GC()
	}
	var acc []byte
	ctx2, cancel := context.WithTimeout(ctx, 3*time.Second)
	defer cancel()
	for len(acc) < len(payload) {
		buf := make([]byte, rs)
		n, err := rw.Read(ctx2, buf)
		acc = append(acc, buf[:n]...)
		if err != nil {
			break
		}
	}
	return hx(acc)
}

func main() {
	mode := os.Args[1]
	dir := ""
	if mode != "ops" {
		var err error
		dir, err = os.MkdirTemp("", "vwire")
		if err != nil {
			panic(err)
		}
		defer os.RemoveAll(dir)
	}
	sc := bufio.NewScanner(os.Stdin)
	sc.Buffer(make([]byte, 1<<20), 1<<28)
	w := bufio.NewWriterSize(os.Stdout, 1<<20)
	defer w.Flush()
	idx := 0
	for sc.Scan() {
		line := strings.TrimSpace(sc.Text())
		idx++
		switch mode {
		case "ops":
			fmt.Fprintln(w, runOps(line))
		default:
			f := strings.Fields(line)
			rs, _ := strconv.Atoi(f[2])
			variant = ""
			if len(f) > 3 {
				variant = f[3]
			}
			if mode == "upgrade-service" {
				fmt.Fprintln(w, upgradeService(dir, idx, unhex(f[0]), unhex(f[1]), rs))
			} else {
				fmt.Fprintln(w, upgradeClient(dir, idx, unhex(f[0]), unhex(f[1]), rs))
			}
		}
	}
}
