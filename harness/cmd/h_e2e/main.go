// h_e2e: a real varlink Service and a real varlink client (Connection / Resolver) talking over a chosen transport.
//
// case := svc / iface / script sections as for h_svc, then
//
//	transport <unixfs|unixabs|tcp|bridge>
//	call <flags> <hexmethod> <value|-> <nrecv>     Connection.Send + nrecv receives (stops at a reply without continues or an error)
//	plaincall <hexmethod> <value|->                Connection.Call
//	getinfo | getdescr <hexname> | resolver-getinfo | resolve <hexiface>
//
// result := op results joined by " ; " then " || log=[...]"
package main

import (
	"bufio"
	"context"
	"encoding/json"
	"fmt"
	"io"
	"net"
	"os"
	"strconv"
	"strings"
	"time"

	"github.com/varlink/go/varlink"
	"verif/harness/hs"
	"verif/harness/vt"
)

func classify(err error) string {
	switch e := err.(type) {
	case *varlink.InterfaceNotFound:
		return "std I " + vt.Hx([]byte(e.Interface))
	case *varlink.MethodNotFound:
		return "std M " + vt.Hx([]byte(e.Method))
	case *varlink.MethodNotImplemented:
		return "std N " + vt.Hx([]byte(e.Method))
	case *varlink.InvalidParameter:
		return "std P " + vt.Hx([]byte(e.Parameter))
	case *varlink.Error:
		ps := "N"
		if rp, ok := e.Parameters.(*json.RawMessage); ok {
			if rp != nil {
				ps = "R" + vt.Hx([]byte(*rp))
			}
		} else if s, ok := e.Parameters.(string); ok {
			ps = "S" + vt.Hx([]byte(s))
		}
		return "err " + vt.Hx([]byte(e.Name)) + " " + ps
	}
	if err == io.ErrUnexpectedEOF {
		return "eof"
	}
	if err == context.DeadlineExceeded {
		return "timeout"
	}
	if ne, ok := err.(net.Error); ok && ne.Timeout() {
		return "timeout"
	}
	return "other:" + strings.ReplaceAll(err.Error(), " ", "_")
}

func stops(r string) bool {
	return strings.HasPrefix(r, "eof") || strings.HasPrefix(r, "timeout") || strings.HasPrefix(r, "other")
}

func sd(s string) string { return "S" + vt.Hx([]byte(s)) }

func ld(l []string) string {
	if l == nil {
		return "N"
	}
	h := make([]string, len(l))
	for i, s := range l {
		h[i] = vt.Hx([]byte(s))
	}
	return "[" + strings.Join(h, ",") + "]"
}

func runCase(dir string, n int, line string) (res string) {
	defer func() {
		if r := recover(); r != nil {
			res = "PANIC " + fmt.Sprint(r)
		}
	}()
	h := &hs.Harness{Scripts: map[string]*hs.Script{}, Conns: map[int]*hs.ConnState{}}
	var svc *varlink.Service
	var ifaces []*hs.Disp
	var ops [][]string
	transport := "unixfs"
	for _, sec := range strings.Split(line, " | ") {
		f := strings.Fields(sec)
		if len(f) == 0 {
			continue
		}
		switch f[0] {
		case "svc":
			svc, _ = varlink.NewService(string(vt.Unhex(f[1])), string(vt.Unhex(f[2])), string(vt.Unhex(f[3])), string(vt.Unhex(f[4])))
		case "iface":
			ifaces = append(ifaces, &hs.Disp{Name: string(vt.Unhex(f[1])), Descr: string(vt.Unhex(f[2])), H: h})
		case "script":
			h.Scripts[string(vt.Unhex(f[1]))] = hs.ParseScript(f[2:])
		case "transport":
			transport = f[1]
		default:
			ops = append(ops, f)
		}
	}
	for _, d := range ifaces {
		svc.RegisterInterface(d)
	}
	ctx := context.Background()
	var addr string
	switch transport {
	case "unixfs", "bridge", "proxy1", "proxyR", "proxyP":
		addr = fmt.Sprintf("unix:%s/e%d", dir, n)
	case "unixabs":
		addr = fmt.Sprintf("unix:@verif-e2e-%d-%d", os.Getpid(), n)
	case "tcp":
		addr = "tcp:127.0.0.1:0"
	}
	if err := svc.Bind(ctx, addr); err != nil {
		return "X bind " + err.Error()
	}
	l, _ := svc.GetListener()
	if transport == "tcp" {
		addr = "tcp:" + l.Addr().String()
	}
	tl := &hs.TagListener{Listener: l, Accepted: make(chan int, 16)}
	svc.VerifSetListener(tl)
	done := make(chan error, 1)
	go func() { done <- svc.DoListen(ctx, 0) }()
	var conn *varlink.Connection
	var err error
	if strings.HasPrefix(transport, "proxy") {
		// a re-segmenting proxy in front of the service: 1-byte writes, or pseudo-random cut sizes
		paddr := fmt.Sprintf("%s/p%d", dir, n)
		pl, perr := net.Listen("unix", paddr)
		if perr != nil {
			return "X proxy " + perr.Error()
		}
		defer pl.Close()
		go func() {
			for {
				c, err := pl.Accept()
				if err != nil {
					return
				}
				up, err := net.Dial("unix", strings.TrimPrefix(addr, "unix:"))
				if err != nil {
					c.Close()
					return
				}
				pump := func(dst, src net.Conn, seed uint32) {
					buf := make([]byte, 1<<16)
					for msg := 0; ; msg++ {
						k, err := src.Read(buf)
						b := buf[:k]
						for len(b) > 0 {
							sz := 1
							if transport == "proxyP" {
								// pauses: the first message passes untouched, later ones arrive in three parts 400 ms apart
								sz = len(b)
								if msg > 0 && k > 2 {
									sz = (k + 2) / 3
									time.Sleep(400 * time.Millisecond)
								}
							} else if transport != "proxy1" {
								seed = seed*1664525 + 1013904223
								sz = 1 + int(seed>>16)%(1+int(seed>>8)%9000)
							}
							if sz > len(b) {
								sz = len(b)
							}
							if _, werr := dst.Write(b[:sz]); werr != nil {
								break
							}
							b = b[sz:]
						}
						if err != nil {
							if uc, ok := dst.(*net.UnixConn); ok {
								uc.CloseWrite()
							}
							return
						}
					}
				}
				go pump(up, c, uint32(n)*7+1)
				go pump(c, up, uint32(n)*13+5)
			}
		}()
		conn, err = varlink.NewConnection(ctx, "unix:"+paddr)
	} else if transport == "bridge" {
		conn, err = varlink.NewBridgeWithStderr(os.Getenv("VERIF_RELAY")+" "+strings.TrimPrefix(addr, "unix:"), io.Discard)
	} else {
		conn, err = varlink.NewConnection(ctx, addr+";ignored=1")
	}
	if err != nil {
		svc.Shutdown()
		<-done
		return "X connect " + err.Error()
	}
	var resolver *varlink.Resolver
	var out []string
	stop := false
	// behind the pausing proxy the first operation runs under a 1.5 s deadline (and completes long before it), all later ones
	// under contexts without a deadline (a watchdog cancels them after 10 s): a pause is then never a reason to fail
	opTimeout := func(i int) (context.Context, context.CancelFunc) {
		if transport != "proxyP" {
			return context.WithTimeout(ctx, 3*time.Second)
		}
		if i == 0 {
			return context.WithTimeout(ctx, 1500*time.Millisecond)
		}
		c, cf := context.WithCancel(ctx)
		t := time.AfterFunc(10*time.Second, cf)
		return c, func() { t.Stop(); cf() }
	}
	for opi, f := range ops {
		if stop {
			break
		}
		cctx, cancel := opTimeout(opi)
		switch f[0] {
		case "call", "slowcall":
			slow := f[0] == "slowcall" // a client that takes its time between replies
			flags, _ := strconv.ParseUint(f[1], 10, 64)
			nrecv, _ := strconv.Atoi(f[4])
			recv, err := conn.Send(cctx, string(vt.Unhex(f[2])), hs.ParseValue(f[3]), flags)
			if err != nil {
				if e, ok := err.(*varlink.Error); ok && e.Name == "org.varlink.InvalidParameter" {
					out = append(out, "send=refused:"+vt.Hx([]byte(fmt.Sprint(e.Parameters))))
				} else if _, ok := err.(*json.MarshalerError); ok {
					out = append(out, "send=marshal")
				} else if _, ok := err.(*json.UnsupportedValueError); ok {
					out = append(out, "send=marshal")
				} else if strings.HasPrefix(err.Error(), "json:") {
					out = append(out, "send=marshal")
				} else {
					out = append(out, "send="+classify(err))
					stop = true
				}
				cancel()
				continue
			}
			parts := []string{"send=ok"}
			for i := 0; i < nrecv; i++ {
				var raw json.RawMessage
				if slow {
					time.Sleep(40 * time.Millisecond)
				}
				rctx, rcancel := opTimeout(opi)
				fl, err := recv(rctx, &raw)
				rcancel()
				if err != nil {
					c := classify(err)
					parts = append(parts, "recv="+c)
					if stops(c) {
						stop = true
					}
					break
				}
				ps := "N"
				if raw != nil {
					ps = "R" + vt.Hx(raw)
				}
				parts = append(parts, fmt.Sprintf("recv=ok %d %s", fl, ps))
				if fl&varlink.Continues == 0 {
					break
				}
			}
			out = append(out, strings.Join(parts, " "))
		case "plaincall":
			var raw json.RawMessage
			err := conn.Call(cctx, string(vt.Unhex(f[1])), hs.ParseValue(f[2]), &raw)
			if err != nil {
				c := classify(err)
				out = append(out, "call="+c)
				if stops(c) {
					stop = true
				}
			} else {
				ps := "N"
				if raw != nil {
					ps = "R" + vt.Hx(raw)
				}
				out = append(out, "call=ok "+ps)
			}
		case "stale":
			// a call under a context with a short deadline that completes well within it; the connection then sits idle until that
			// deadline has passed; then a call under context.Background() itself (the scenario watchdog bounds it)
			ms := strings.Split(f[1], ",")
			var got []string
			for i, m := range ms {
				var raw json.RawMessage
				var err error
				if i == 0 {
					dctx, dcancel := context.WithTimeout(ctx, 300*time.Millisecond)
					err = conn.Call(dctx, string(vt.Unhex(m)), nil, &raw)
					dcancel()
					time.Sleep(450 * time.Millisecond)
				} else {
					err = conn.Call(context.Background(), string(vt.Unhex(m)), nil, &raw)
				}
				if err != nil {
					got = append(got, classify(err))
				} else if raw == nil {
					got = append(got, "N")
				} else {
					got = append(got, "R"+vt.Hx(raw))
				}
			}
			out = append(out, "win="+strings.Join(got, ","))
		case "reconnect2":
			// the connection is closed (twice: a deferred Close plus an explicit one is common), then two new connections are used
			// side by side: each must receive the replies to its own calls
			conn.Close()
			conn.Close()
			ms := strings.Split(f[1], ",")
			var cs [2]*varlink.Connection
			var cerr error
			for k := range cs {
				if strings.HasPrefix(transport, "proxy") {
					cs[k], cerr = varlink.NewConnection(ctx, "unix:"+fmt.Sprintf("%s/p%d", dir, n))
				} else if transport == "bridge" {
					cs[k], cerr = varlink.NewBridgeWithStderr(os.Getenv("VERIF_RELAY")+" "+strings.TrimPrefix(addr, "unix:"), io.Discard)
				} else {
					cs[k], cerr = varlink.NewConnection(ctx, addr)
				}
				if cerr != nil {
					break
				}
			}
			var got []string
			if cerr != nil {
				got = append(got, "connecterr")
			} else {
				for i, m := range ms {
					var raw json.RawMessage
					if err := cs[i%2].Call(cctx, string(vt.Unhex(m)), nil, &raw); err != nil {
						got = append(got, classify(err))
					} else if raw == nil {
						got = append(got, "N")
					} else {
						got = append(got, "R"+vt.Hx(raw))
					}
				}
				cs[1].Close()
				conn = cs[0]
			}
			out = append(out, "win="+strings.Join(got, ","))
		case "window":
			// pipelined use of one connection with a sliding window of two calls in flight:
			// Send m0; Send m1; receive; Send m2; receive; ... ; receive - with a pause before every receive, so that the
			// replies of both outstanding calls are already in the client's read buffer when the next Send happens
			ms := strings.Split(f[1], ",")
			type rf = func(context.Context, interface{}) (uint64, error)
			var pending []rf
			var got []string
			send := func(m string) bool {
				r, err := conn.Send(cctx, string(vt.Unhex(m)), nil, 0)
				if err != nil {
					got = append(got, "senderr:"+classify(err))
					return false
				}
				pending = append(pending, r)
				return true
			}
			recvOne := func() {
				time.Sleep(60 * time.Millisecond)
				var raw json.RawMessage
				r := pending[0]
				pending = pending[1:]
				if _, err := r(cctx, &raw); err != nil {
					got = append(got, classify(err))
				} else if raw == nil {
					got = append(got, "N")
				} else {
					got = append(got, "R"+vt.Hx(raw))
				}
			}
			ok := true
			for i, m := range ms {
				if ok = send(m); !ok {
					break
				}
				if i >= 1 {
					recvOne()
				}
			}
			for ok && len(pending) > 0 {
				recvOne()
			}
			out = append(out, "win="+strings.Join(got, ","))
		case "upcall":
			// the same call through Connection.Upgrade: an error reply must arrive as the same error value
			recv, err := conn.Upgrade(cctx, string(vt.Unhex(f[1])), hs.ParseValue(f[2]))
			if err == nil {
				var raw json.RawMessage
				_, _, err = recv(cctx, &raw)
			}
			if err != nil {
				c := classify(err)
				out = append(out, "ucall="+c)
				if stops(c) {
					stop = true
				}
			} else {
				out = append(out, "ucall=ok")
			}
		case "typedcall":
			// a caller with a typed reply struct whose field names also occur in error parameters, with other types:
			// an error reply must arrive as the error, whatever the reply struct looks like
			var typed struct {
				A          int64          `json:"a"`
				B          []int          `json:"b"`
				K          map[string]int `json:"k"`
				Method     int            `json:"method"`
				Parameters bool           `json:"parameters"`
				Interface  int            `json:"interface"`
				Parameter  int            `json:"parameter"`
				Fallback   bool           `json:"fallback"`
			}
			err := conn.Call(cctx, string(vt.Unhex(f[1])), hs.ParseValue(f[2]), &typed)
			if err != nil {
				c := classify(err)
				out = append(out, "tcall="+c)
				if stops(c) {
					stop = true
				}
			} else {
				out = append(out, "tcall=ok")
			}
		case "getinfo":
			var v, p, ver, u string
			var ifs []string
			err := conn.GetInfo(cctx, &v, &p, &ver, &u, &ifs)
			if err != nil {
				c := classify(err)
				out = append(out, "info="+c)
				stop = stops(c)
			} else {
				out = append(out, strings.Join([]string{"info=ok", sd(v), sd(p), sd(ver), sd(u), ld(ifs)}, " "))
			}
		case "getdescr":
			d, err := conn.GetInterfaceDescription(cctx, string(vt.Unhex(f[1])))
			if err != nil {
				c := classify(err)
				out = append(out, "descr="+c)
				stop = stops(c)
			} else {
				out = append(out, "descr=ok "+sd(d))
			}
		case "resolver-getinfo", "resolve":
			if resolver == nil {
				resolver, err = varlink.NewResolver(cctx, addr)
				if err != nil {
					out = append(out, "X resolver "+err.Error())
					stop = true
					cancel()
					continue
				}
			}
			if f[0] == "resolve" {
				a, err := resolver.Resolve(cctx, string(vt.Unhex(f[1])))
				if err != nil {
					c := classify(err)
					out = append(out, "addr="+c)
					stop = stops(c)
				} else if string(vt.Unhex(f[1])) == "org.varlink.resolver" {
					if a == addr {
						out = append(out, "addr=self")
					} else {
						out = append(out, "addr=notself")
					}
				} else {
					out = append(out, "addr=ok "+sd(a))
				}
			} else {
				var v, p, ver, u string
				var ifs []string
				err := resolver.GetInfo(cctx, &v, &p, &ver, &u, &ifs)
				if err != nil {
					c := classify(err)
					out = append(out, "rinfo="+c)
					stop = stops(c)
				} else {
					out = append(out, strings.Join([]string{"rinfo=ok", sd(v), sd(p), sd(ver), sd(u), ld(ifs)}, " "))
				}
			}
		}
		cancel()
	}
	conn.Close()
	if resolver != nil {
		resolver.Close()
	}
	released := "0"
	for t := 0; t < 3000; t++ {
		if svc.VerifActive() == 0 {
			released = "1"
			break
		}
		time.Sleep(time.Millisecond)
	}
	svc.Shutdown()
	select {
	case <-done:
	case <-time.After(3 * time.Second):
		released = "noreturn"
	}
	var logs []string
	for i := 0; i < 4; i++ {
		st := h.Conn(i)
		st.Mu.Lock()
		logs = append(logs, "["+strings.Join(st.Log, ";")+"]")
		st.Mu.Unlock()
	}
	return strings.Join(out, " ; ") + " || log0=" + logs[0] + " log1=" + logs[1] + " released=" + released
}

func main() {
	dir, err := os.MkdirTemp("", "ve2e")
	if err != nil {
		panic(err)
	}
	defer os.RemoveAll(dir)
	sc := bufio.NewScanner(os.Stdin)
	sc.Buffer(make([]byte, 1<<20), 1<<30)
	w := bufio.NewWriterSize(os.Stdout, 1<<20)
	defer w.Flush()
	n := 0
	hangs := 0
	for sc.Scan() {
		n++
		// a case that never comes back (a lock that is never released, a goroutine that is never joined) must not hang the check
		line := sc.Text()
		if hangs >= 3 {
			fmt.Fprintln(w, "HANG skipped: three earlier cases of this run did not finish")
			continue
		}
		resc := make(chan string, 1)
		go func() { resc <- runCase(dir, n, line) }()
		select {
		case r := <-resc:
			fmt.Fprintln(w, r)
		case <-time.After(90 * time.Second):
			hangs++
			fmt.Fprintln(w, "HANG the case did not finish within 90 s")
		}
	}
}
