// goaccess: the translator for C16.  It walks the methods of *Service in /repo/varlink/service.go (and the
// functions of ctxio/conn.go) with go/ast and emits, for every access to a field of the receiver, the tuple
// (function, field, Read|Write, mutex held?) as a Coq list.  Lock state is tracked syntactically along the
// statement list: s.mutex.Lock() raises it, s.mutex.Unlock() lowers it, `defer s.mutex.Unlock()` keeps it
// raised to the end of the function; a closure passed to `defer` or `go` is analysed as its own function
// (suffix "$defer" / "$go") starting unlocked.
package main

import (
	"fmt"
	"go/ast"
	"go/parser"
	"go/token"
	"os"
	"sort"
	"strings"
)

type access struct {
	fn, field, kind string
	locked          bool
}

var out []access

// calls that run user code or may block on a peer: the handler dispatch, replies, connection I/O, Accept, WaitGroup.Wait.
// Recorded with the lock state at the call site (second table, "callouts").
var calloutNames = map[string]bool{"VarlinkDispatch": true, "HandleMessage": true, "handleConnection": true, "sendMessage": true, "Write": true, "Read": true,
	"ReadBytes": true, "Accept": true, "Wait": true, "Reply": true, "ReplyError": true, "ReplyInterfaceNotFound": true, "ReplyMethodNotFound": true,
	"ReplyMethodNotImplemented": true, "ReplyInvalidParameter": true, "orgvarlinkserviceDispatch": true, "getInfo": true, "getInterfaceDescription": true,
	"replyGetInfo": true, "replyGetInterfaceDescription": true}
var callouts []access

type walker struct {
	fn     string
	recv   string
	mutex  string // field name of the sync.Mutex
	depth  int
	sticky bool
}

func (w *walker) isRecvField(e ast.Expr) (string, bool) {
	se, ok := e.(*ast.SelectorExpr)
	if !ok {
		return "", false
	}
	id, ok := se.X.(*ast.Ident)
	if !ok || id.Name != w.recv {
		return "", false
	}
	return se.Sel.Name, true
}

func (w *walker) lockCall(e ast.Expr) (string, bool) {
	call, ok := e.(*ast.CallExpr)
	if !ok {
		return "", false
	}
	se, ok := call.Fun.(*ast.SelectorExpr)
	if !ok {
		return "", false
	}
	if f, ok := w.isRecvField(se.X); ok && f == w.mutex {
		return se.Sel.Name, true
	}
	return "", false
}

func (w *walker) record(field, kind string) {
	if field == w.mutex {
		return
	}
	out = append(out, access{w.fn, field, kind, w.depth > 0})
}

func (w *walker) expr(e ast.Expr, write bool) {
	switch v := e.(type) {
	case nil:
	case *ast.SelectorExpr:
		if f, ok := w.isRecvField(v); ok {
			if write {
				w.record(f, "W")
			} else {
				w.record(f, "R")
			}
			return
		}
		w.expr(v.X, false)
	case *ast.IndexExpr:
		// s.m[k] = v writes the map; s.m[k] reads it
		w.expr(v.X, write)
		w.expr(v.Index, false)
	case *ast.CallExpr:
		if _, ok := w.lockCall(v); ok {
			return
		}
		if se, ok := v.Fun.(*ast.SelectorExpr); ok && calloutNames[se.Sel.Name] {
			callouts = append(callouts, access{w.fn, se.Sel.Name, "R", w.depth > 0})
		}
		if id, ok := v.Fun.(*ast.Ident); ok && id.Name == "append" && len(v.Args) > 0 {
			for _, a := range v.Args {
				w.expr(a, false)
			}
			return
		}
		w.expr(v.Fun, false)
		for _, a := range v.Args {
			w.expr(a, false)
		}
	case *ast.FuncLit:
		sub := &walker{fn: w.fn + "$func", recv: w.recv, mutex: w.mutex}
		sub.block(v.Body)
	case *ast.UnaryExpr:
		w.expr(v.X, false)
	case *ast.BinaryExpr:
		w.expr(v.X, false)
		w.expr(v.Y, false)
	case *ast.ParenExpr:
		w.expr(v.X, write)
	case *ast.StarExpr:
		w.expr(v.X, write)
	case *ast.TypeAssertExpr:
		w.expr(v.X, false)
	case *ast.CompositeLit:
		for _, el := range v.Elts {
			w.expr(el, false)
		}
	case *ast.KeyValueExpr:
		w.expr(v.Value, false)
	case *ast.SliceExpr:
		w.expr(v.X, false)
		w.expr(v.Low, false)
		w.expr(v.High, false)
	}
}

func (w *walker) stmt(s ast.Stmt) {
	switch v := s.(type) {
	case nil:
	case *ast.ExprStmt:
		if name, ok := w.lockCall(v.X); ok {
			if name == "Lock" || name == "RLock" {
				w.depth++
			} else if (name == "Unlock" || name == "RUnlock") && !w.sticky {
				w.depth--
			}
			return
		}
		w.expr(v.X, false)
	case *ast.AssignStmt:
		for _, r := range v.Rhs {
			w.expr(r, false)
		}
		for _, l := range v.Lhs {
			w.expr(l, true)
		}
	case *ast.IncDecStmt:
		w.expr(v.X, false)
		w.expr(v.X, true)
	case *ast.DeferStmt:
		if name, ok := w.lockCall(v.Call); ok && (name == "Unlock" || name == "RUnlock") {
			w.sticky = true
			return
		}
		if fl, ok := v.Call.Fun.(*ast.FuncLit); ok {
			sub := &walker{fn: w.fn + "$defer", recv: w.recv, mutex: w.mutex}
			sub.block(fl.Body)
			return
		}
		w.expr(v.Call, false)
	case *ast.GoStmt:
		if fl, ok := v.Call.Fun.(*ast.FuncLit); ok {
			sub := &walker{fn: w.fn + "$go", recv: w.recv, mutex: w.mutex}
			sub.block(fl.Body)
			return
		}
		w.expr(v.Call, false)
	case *ast.ReturnStmt:
		for _, r := range v.Results {
			w.expr(r, false)
		}
	case *ast.IfStmt:
		w.stmt(v.Init)
		w.expr(v.Cond, false)
		d := w.depth
		w.block(v.Body)
		w.depth = d // a branch that unlocks and returns does not change the state of the code after the if
		if v.Else != nil {
			w.stmt(v.Else)
			w.depth = d
		}
	case *ast.ForStmt:
		w.stmt(v.Init)
		w.expr(v.Cond, false)
		w.block(v.Body)
		w.stmt(v.Post)
	case *ast.RangeStmt:
		w.expr(v.X, false)
		w.block(v.Body)
	case *ast.BlockStmt:
		w.block(v)
	case *ast.SwitchStmt:
		w.stmt(v.Init)
		w.expr(v.Tag, false)
		w.block(v.Body)
	case *ast.TypeSwitchStmt:
		w.stmt(v.Init)
		w.stmt(v.Assign)
		w.block(v.Body)
	case *ast.CaseClause:
		for _, e := range v.List {
			w.expr(e, false)
		}
		for _, st := range v.Body {
			w.stmt(st)
		}
	case *ast.SelectStmt:
		w.block(v.Body)
	case *ast.CommClause:
		w.stmt(v.Comm)
		for _, st := range v.Body {
			w.stmt(st)
		}
	case *ast.DeclStmt:
		if gd, ok := v.Decl.(*ast.GenDecl); ok {
			for _, sp := range gd.Specs {
				if vs, ok := sp.(*ast.ValueSpec); ok {
					for _, val := range vs.Values {
						w.expr(val, false)
					}
				}
			}
		}
	case *ast.SendStmt:
		w.expr(v.Chan, false)
		w.expr(v.Value, false)
	}
}

func (w *walker) block(b *ast.BlockStmt) {
	if b == nil {
		return
	}
	for _, s := range b.List {
		w.stmt(s)
	}
}

func analyse(path, recvType, mutex string) {
	fset := token.NewFileSet()
	f, err := parser.ParseFile(fset, path, nil, 0)
	if err != nil {
		fmt.Fprintln(os.Stderr, err)
		os.Exit(1)
	}
	for _, d := range f.Decls {
		fd, ok := d.(*ast.FuncDecl)
		if !ok || fd.Recv == nil || len(fd.Recv.List) == 0 || fd.Body == nil {
			continue
		}
		t := fd.Recv.List[0].Type
		if st, ok := t.(*ast.StarExpr); ok {
			t = st.X
		}
		id, ok := t.(*ast.Ident)
		if !ok || id.Name != recvType || len(fd.Recv.List[0].Names) == 0 {
			continue
		}
		w := &walker{fn: fd.Name.Name, recv: fd.Recv.List[0].Names[0].Name, mutex: mutex}
		w.block(fd.Body)
	}
}

func coqStr(s string) string {
	b := []string{}
	for _, c := range []byte(s) {
		b = append(b, fmt.Sprint(c))
	}
	return "[" + strings.Join(b, ";") + "]"
}

func main() {
	root := os.Args[1]
	analyse(root+"/varlink/service.go", "Service", "mutex")
	analyse(root+"/varlink/orgvarlinkservice.go", "Service", "mutex")
	analyse(root+"/varlink/internal/ctxio/conn.go", "Conn", "")
	// de-duplicate and sort
	seen := map[access]bool{}
	var u []access
	for _, a := range out {
		if !seen[a] {
			seen[a] = true
			u = append(u, a)
		}
	}
	sort.Slice(u, func(i, j int) bool {
		if u[i].fn != u[j].fn {
			return u[i].fn < u[j].fn
		}
		if u[i].field != u[j].field {
			return u[i].field < u[j].field
		}
		if u[i].kind != u[j].kind {
			return u[i].kind < u[j].kind
		}
		return !u[i].locked && u[j].locked
	})
	seenc := map[access]bool{}
	var uc []access
	for _, a := range callouts {
		if !seenc[a] {
			seenc[a] = true
			uc = append(uc, a)
		}
	}
	sort.Slice(uc, func(i, j int) bool {
		if uc[i].fn != uc[j].fn {
			return uc[i].fn < uc[j].fn
		}
		if uc[i].field != uc[j].field {
			return uc[i].field < uc[j].field
		}
		return !uc[i].locked && uc[j].locked
	})
	if len(os.Args) > 2 && os.Args[2] == "text" {
		for _, a := range u {
			fmt.Printf("%s %s %s %v\n", a.fn, a.field, a.kind, a.locked)
		}
		for _, a := range uc {
			fmt.Printf("callout %s %s locked=%v\n", a.fn, a.field, a.locked)
		}
		return
	}
	fmt.Println("(* generated by harness/cmd/goaccess from /repo's current sources: do not edit *)")
	fmt.Println("From VL Require Import Bytes Access.")
	fmt.Println("Open Scope N_scope.")
	fmt.Println("Definition table : list access := [")
	for i, a := range u {
		sep := ";"
		if i == len(u)-1 {
			sep = ""
		}
		k := "AR"
		if a.kind == "W" {
			k = "AW"
		}
		l := "false"
		if a.locked {
			l = "true"
		}
		fmt.Printf("  mkAcc %s %s %s %s%s  (* %s.%s *)\n", coqStr(a.fn), coqStr(a.field), k, l, sep, a.fn, a.field)
	}
	fmt.Println("].")
	fmt.Println("(* calls that run handlers or may block on a peer, with the lock state at the call site *)")
	fmt.Println("Definition callouts : list access := [")
	for i, a := range uc {
		sep := ";"
		if i == len(uc)-1 {
			sep = ""
		}
		l := "false"
		if a.locked {
			l = "true"
		}
		fmt.Printf("  mkAcc %s %s AR %s%s  (* %s calls %s *)\n", coqStr(a.fn), coqStr(a.field), l, sep, a.fn, a.field)
	}
	fmt.Println("].")
}
