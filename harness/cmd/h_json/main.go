// h_json exercises encoding/json exactly as varlink/go uses it.
//
//	enc     <value-description>        -> hex of json.Marshal(value) | ERR
//	reply   <value-description|-> <continues 0/1> <hex error name|->   -> hex of the reply the service would write | ERR
//	parse   <hex text>                 -> dump of the decoded tree (token stream, member order kept) | ERR
//	valid   <hex text>                 -> 1 | 0
//	compact <hex raw>                  -> hex of json.Marshal(json.RawMessage(raw)) | ERR
//	call    <hex frame>                -> S<hex method> <N|R<hex params>> <T|F more> <T|F oneway> <T|F upgrade> | ERR
//	struct  <schema> <hex text>        -> field dump | ERR     (schema: reply, iface, info, descr, method, parameter, address)
package main

import (
	"bufio"
	"context"
	"encoding/hex"
	"encoding/json"
	"fmt"
	"io"
	"net"
	"os"
	"strings"
	"time"

	"github.com/varlink/go/varlink"
	"verif/harness/vt"
)

type capConn struct{ buf []byte }

func (c *capConn) Read(p []byte) (int, error)         { return 0, io.EOF }
func (c *capConn) Write(p []byte) (int, error)        { c.buf = append(c.buf, p...); return len(p), nil }
func (c *capConn) Close() error                       { return nil }
func (c *capConn) LocalAddr() net.Addr                { return nil }
func (c *capConn) RemoteAddr() net.Addr               { return nil }
func (c *capConn) SetDeadline(t time.Time) error      { return nil }
func (c *capConn) SetReadDeadline(t time.Time) error  { return nil }
func (c *capConn) SetWriteDeadline(t time.Time) error { return nil }

func sdump(s string) string { return "S" + vt.Hx([]byte(s)) }
func bdump(b bool) string {
	if b {
		return "T"
	}
	return "F"
}
func rdump(r *json.RawMessage) string {
	if r == nil {
		return "N"
	}
	return "R" + vt.Hx([]byte(*r))
}
func ldump(l []string) string {
	if l == nil {
		return "N"
	}
	hs := make([]string, len(l))
	for i, s := range l {
		hs[i] = vt.Hx([]byte(s))
	}
	return "[" + strings.Join(hs, ",") + "]"
}

func handle(mode string, f []string) (out string) {
	defer func() {
		if r := recover(); r != nil {
			out = "PANIC " + fmt.Sprint(r)
		}
	}()
	switch mode {
	case "enc":
		b, err := json.Marshal(vt.Parse(f[0]))
		if err != nil {
			return "ERR"
		}
		return vt.Hx(b)
	case "reply":
		var p interface{}
		if f[0] != "-" {
			p = vt.Parse(f[0])
		}
		b, err := varlink.VerifEncodeReply(p, f[1] == "1", string(vt.Unhex(f[2])))
		if err != nil {
			return "ERR"
		}
		return vt.Hx(b)
	case "send":
		// the bytes Connection.Send puts on the wire: <flags> <hexmethod> <value|->
		cc := &capConn{}
		conn := varlink.VerifNewConnection(cc)
		var p interface{}
		if f[2] != "-" {
			p = vt.Parse(f[2])
		}
		var fl uint64
		fmt.Sscan(f[0], &fl)
		_, err := conn.Send(context.Background(), string(vt.Unhex(f[1])), p, fl)
		if err != nil {
			if e, ok := err.(*varlink.Error); ok {
				return "REFUSED " + vt.Hx([]byte(fmt.Sprint(e.Parameters))) + " " + vt.Hx(cc.buf)
			}
			return "ERR " + vt.Hx(cc.buf)
		}
		return vt.Hx(cc.buf)
	case "parse":
		d, err := vt.DumpRaw(vt.Unhex(f[0]))
		if err != nil || !json.Valid(vt.Unhex(f[0])) {
			return "ERR"
		}
		return d
	case "valid":
		if json.Valid(vt.Unhex(f[0])) {
			return "1"
		}
		return "0"
	case "compact":
		b, err := json.Marshal(json.RawMessage(vt.Unhex(f[0])))
		if err != nil {
			return "ERR"
		}
		return vt.Hx(b)
	case "call":
		m, p, has, more, ow, up, err := varlink.VerifDecodeCall(vt.Unhex(f[0]))
		if err != nil {
			return "ERR"
		}
		ps := "N"
		if has {
			ps = "R" + vt.Hx(p)
		}
		return strings.Join([]string{sdump(m), ps, bdump(more), bdump(ow), bdump(up)}, " ")
	case "struct":
		data := vt.Unhex(f[1])
		switch f[0] {
		case "reply":
			var m struct {
				Parameters *json.RawMessage `json:"parameters"`
				Continues  bool             `json:"continues"`
				Error      string           `json:"error"`
			}
			if json.Unmarshal(data, &m) != nil {
				return "ERR"
			}
			return strings.Join([]string{rdump(m.Parameters), bdump(m.Continues), sdump(m.Error)}, " ")
		case "iface":
			var m struct {
				Interface string `json:"interface"`
			}
			if json.Unmarshal(data, &m) != nil {
				return "ERR"
			}
			return sdump(m.Interface)
		case "method":
			var m varlink.MethodNotFound
			if json.Unmarshal(data, &m) != nil {
				return "ERR"
			}
			return sdump(m.Method)
		case "parameter":
			var m varlink.InvalidParameter
			if json.Unmarshal(data, &m) != nil {
				return "ERR"
			}
			return sdump(m.Parameter)
		case "descr":
			var m struct {
				Description string `json:"description"`
			}
			if json.Unmarshal(data, &m) != nil {
				return "ERR"
			}
			return sdump(m.Description)
		case "info":
			var m struct {
				Vendor     string   `json:"vendor"`
				Product    string   `json:"product"`
				Version    string   `json:"version"`
				URL        string   `json:"url"`
				Interfaces []string `json:"interfaces"`
			}
			if json.Unmarshal(data, &m) != nil {
				return "ERR"
			}
			return strings.Join([]string{sdump(m.Vendor), sdump(m.Product), sdump(m.Version), sdump(m.URL), ldump(m.Interfaces)}, " ")
		}
	}
	return "BADMODE"
}

func main() {
	mode := os.Args[1]
	sc := bufio.NewScanner(os.Stdin)
	sc.Buffer(make([]byte, 1<<20), 1<<30)
	w := bufio.NewWriterSize(os.Stdout, 1<<20)
	defer w.Flush()
	_ = hex.EncodeToString
	for sc.Scan() {
		fmt.Fprintln(w, handle(mode, strings.Fields(sc.Text())))
	}
}
