// h_ctx: cancellation / deadline scenarios on ctxio.Conn over real transports.
// line   := <transport unix|tcp|pipe|bridge> <op readbytes|read|write> <kind cancel|deadline> <instant before|blocked|partial|buffered|after>
// result := class=<ok|ctx|timeout|eof|other:..> speed=<fast|slow:ms> leak=<n> follow=<ok|bad:..>
package main

import (
	"bufio"
	"bytes"
	"context"
	"errors"
	"fmt"
	"io"
	"net"
	"os"
	"runtime"
	"strings"
	"time"

	"github.com/varlink/go/varlink"
)

func classify(err error) string {
	if err == nil {
		return "ok"
	}
	if errors.Is(err, context.Canceled) || errors.Is(err, context.DeadlineExceeded) {
		return "ctx"
	}
	var ne net.Error
	if errors.As(err, &ne) && ne.Timeout() {
		return "timeout"
	}
	if errors.Is(err, os.ErrDeadlineExceeded) {
		return "timeout"
	}
	if err == io.EOF || err == io.ErrUnexpectedEOF {
		return "eof"
	}
	return "other:" + strings.ReplaceAll(err.Error(), " ", "_")
}

// pair returns the context-aware connection under test, the raw peer end, and a cleanup function
func pair(transport, dir string, n int) (varlink.ReadWriterContext, net.Conn, func(), error) {
	switch transport {
	case "pipe":
		a, b := net.Pipe()
		return varlink.VerifNewCtxConn(a), b, func() { a.Close(); b.Close() }, nil
	case "unix", "tcp", "bridge":
		var l net.Listener
		var err error
		path := fmt.Sprintf("%s/x%d", dir, n)
		if transport == "tcp" {
			l, err = net.Listen("tcp", "127.0.0.1:0")
		} else {
			l, err = net.Listen("unix", path)
		}
		if err != nil {
			return nil, nil, nil, err
		}
		acc := make(chan net.Conn, 1)
		go func() {
			c, err := l.Accept()
			if err == nil {
				acc <- c
			}
		}()
		if transport == "bridge" {
			conn, err := varlink.NewBridgeWithStderr(os.Getenv("VERIF_RELAY")+" "+path, io.Discard)
			if err != nil {
				l.Close()
				return nil, nil, nil, err
			}
			select {
			case peer := <-acc:
				return varlink.VerifConnRW(conn), peer, func() { peer.Close(); conn.Close(); l.Close() }, nil
			case <-time.After(3 * time.Second):
				l.Close()
				return nil, nil, nil, fmt.Errorf("relay did not connect")
			}
		}
		var c net.Conn
		if transport == "tcp" {
			c, err = net.Dial("tcp", l.Addr().String())
		} else {
			c, err = net.Dial("unix", path)
		}
		if err != nil {
			l.Close()
			return nil, nil, nil, err
		}
		peer := <-acc
		return varlink.VerifNewCtxConn(c), peer, func() { peer.Close(); c.Close(); l.Close() }, nil
	}
	return nil, nil, nil, fmt.Errorf("unknown transport")
}

// rawPair: a connected pair of plain net.Conns over the given transport
func rawPair(transport, dir string, n int) (net.Conn, net.Conn, func(), error) {
	if transport == "pipe" {
		a, b := net.Pipe()
		return a, b, func() { a.Close(); b.Close() }, nil
	}
	var l net.Listener
	var err error
	path := fmt.Sprintf("%s/y%d", dir, n)
	if transport == "tcp" {
		l, err = net.Listen("tcp", "127.0.0.1:0")
	} else {
		l, err = net.Listen("unix", path)
	}
	if err != nil {
		return nil, nil, nil, err
	}
	acc := make(chan net.Conn, 1)
	go func() {
		if c, err := l.Accept(); err == nil {
			acc <- c
		}
	}()
	var c net.Conn
	if transport == "tcp" {
		c, err = net.Dial("tcp", l.Addr().String())
	} else {
		c, err = net.Dial("unix", path)
	}
	if err != nil {
		l.Close()
		return nil, nil, nil, err
	}
	peer := <-acc
	return c, peer, func() { peer.Close(); c.Close(); l.Close() }, nil
}

// clientCase: Connection.Send and the receive function it returns are given DIFFERENT contexts.
//   sendctx: Send's context is done before receive is called with a live one: receive must deliver the reply
//   recvctx: Send's context stays live, receive's is cancelled / expires while the service is silent: receive must return promptly
func clientCase(dir string, n int, transport, kind, which string) string {
	c, peer, cleanup, err := rawPair(transport, dir, n)
	if err != nil {
		return "X setup " + err.Error()
	}
	defer cleanup()
	conn := varlink.VerifNewConnection(c)
	time.Sleep(5 * time.Millisecond)
	base := runtime.NumGoroutine()
	silent := 30 * time.Millisecond
	if which == "recvctx" {
		silent = 3 * time.Second
	}
	go func() {
		bufio.NewReader(peer).ReadBytes(0)
		time.Sleep(silent)
		peer.Write([]byte("{\"parameters\":{\"x\":1}}\x00"))
	}()
	sctx, scancel := context.WithCancel(context.Background())
	defer scancel()
	recv, err := conn.Send(sctx, "a.b.M", nil, 0)
	if err != nil {
		return "X send " + err.Error()
	}
	var rctx context.Context
	var rcancel context.CancelFunc
	if which == "sendctx" {
		scancel()
		rctx, rcancel = context.WithCancel(context.Background())
		t := time.AfterFunc(3*time.Second, rcancel)
		defer t.Stop()
	} else if kind == "cancel" {
		rctx, rcancel = context.WithCancel(context.Background())
		go func() { time.Sleep(60 * time.Millisecond); rcancel() }()
	} else {
		rctx, rcancel = context.WithTimeout(context.Background(), 60*time.Millisecond)
	}
	defer rcancel()
	start := time.Now()
	var out map[string]int
	_, opErr := recv(rctx, &out)
	el := time.Since(start)
	class := classify(opErr)
	if opErr == nil && out["x"] != 1 {
		class = "other:wrong-data"
	}
	speed := "fast"
	if el > time.Second {
		speed = fmt.Sprintf("slow:%dms", el.Milliseconds())
	}
	rcancel()
	scancel()
	time.Sleep(30 * time.Millisecond)
	leak := runtime.NumGoroutine() - base - 1 // the peer goroutine of this scenario may still be sleeping
	if leak < 0 {
		leak = 0
	}
	return fmt.Sprintf("class=%s speed=%s leak=%d follow=ok", class, speed, leak)
}

// duplexCase: one connection used in both directions at once (one goroutine reads, another writes).
//   rdcancel : a write under a live context is blocked (the peer does not read); a read on the same connection is cancelled;
//              then the peer drains: the write must complete, untouched by the read's cancellation
//   stalehook: a write completes under ctx1; a later write under a live ctx2 is blocked; ctx1 is cancelled; the peer drains:
//              the second write must complete
//   rwshare  : a raw read is blocked while writes on the same connection complete; then the peer sends three bytes:
//              the read must return exactly those
func duplexCase(dir string, n int, transport, which string) string {
	rw, peer, cleanup, err := pair(transport, dir, n)
	if err != nil {
		return "X setup " + err.Error()
	}
	defer cleanup()
	time.Sleep(5 * time.Millisecond)
	base := runtime.NumGoroutine()
	live := func() (context.Context, context.CancelFunc) {
		c, cf := context.WithCancel(context.Background())
		t := time.AfterFunc(5*time.Second, cf)
		return c, func() { t.Stop(); cf() }
	}
	big := bytes.Repeat([]byte("w"), 8<<20)
	class, speed := "ok", "fast"
	switch which {
	case "rdcancel", "stalehook":
		if which == "stalehook" {
			c1, cancel1 := context.WithCancel(context.Background())
			got := make(chan int, 1)
			go func() { b := make([]byte, 16); k, _ := peer.Read(b); got <- k }()
			if _, err := rw.Write(c1, []byte("first")); err != nil {
				cancel1()
				return "X first write " + err.Error()
			}
			<-got
			defer cancel1()
			wctx, wcancel := live()
			defer wcancel()
			wres := make(chan error, 1)
			go func() { _, e := rw.Write(wctx, big); wres <- e }()
			time.Sleep(40 * time.Millisecond)
			cancel1() // the context of the write that completed long ago
			time.Sleep(40 * time.Millisecond)
			go io.Copy(io.Discard, peer)
			start := time.Now()
			select {
			case e := <-wres:
				class = classify(e)
			case <-time.After(6 * time.Second):
				class = "other:stuck"
			}
			if time.Since(start) > 4*time.Second {
				speed = "slow"
			}
		} else {
			wctx, wcancel := live()
			defer wcancel()
			wres := make(chan error, 1)
			go func() { _, e := rw.Write(wctx, big); wres <- e }()
			time.Sleep(40 * time.Millisecond)
			rctx, rcancel := context.WithCancel(context.Background())
			go func() { time.Sleep(40 * time.Millisecond); rcancel() }()
			buf := make([]byte, 16)
			_, rerr := rw.Read(rctx, buf)
			rcancel()
			if c := classify(rerr); c != "ctx" && c != "timeout" {
				return "class=other:read-" + c + " speed=fast leak=0 follow=ok"
			}
			time.Sleep(20 * time.Millisecond)
			go io.Copy(io.Discard, peer)
			select {
			case e := <-wres:
				class = classify(e)
			case <-time.After(6 * time.Second):
				class = "other:stuck"
			}
		}
	case "bigraw":
		// 20 MiB of raw payload in one direction with no frame read in between: every byte, in order
		const total = 20 << 20
		go func() {
			chunk := make([]byte, 1<<16)
			for off := 0; off < total; off += len(chunk) {
				for i := range chunk {
					chunk[i] = byte((off + i) * 131 >> 7)
				}
				if _, err := peer.Write(chunk); err != nil {
					return
				}
			}
		}()
		rctx, rcancel := context.WithCancel(context.Background())
		t := time.AfterFunc(30*time.Second, rcancel)
		defer func() { t.Stop(); rcancel() }()
		buf := make([]byte, 70000)
		got := 0
		for got < total {
			k, e := rw.Read(rctx, buf)
			for i := 0; i < k; i++ {
				if buf[i] != byte((got+i)*131>>7) {
					class = fmt.Sprintf("other:wrong-byte-at-%d", got+i)
					k = 0
					e = io.ErrUnexpectedEOF
					break
				}
			}
			got += k
			if e != nil {
				if class == "ok" {
					class = fmt.Sprintf("other:raw-read-stopped-after-%d-of-%d:%s", got, total, classify(e))
				}
				break
			}
		}
	case "rwshare":
		rctx, rcancel := live()
		defer rcancel()
		type rr struct {
			b   []byte
			err error
		}
		rres := make(chan rr, 1)
		go func() {
			buf := make([]byte, 16)
			for i := range buf {
				buf[i] = 0xEE
			}
			k, e := rw.Read(rctx, buf)
			rres <- rr{buf[:k], e}
		}()
		time.Sleep(30 * time.Millisecond)
		go io.Copy(io.Discard, peer)
		for i := 0; i < 5; i++ {
			wctx, wcancel := live()
			rw.Write(wctx, []byte("tick\x00"))
			wcancel()
			time.Sleep(5 * time.Millisecond)
		}
		select {
		case r := <-rres:
			class = "other:read-returned-before-anything-was-sent:" + fmt.Sprintf("%q", r.b)
		default:
			peer.Write([]byte("XYZ"))
			select {
			case r := <-rres:
				class = classify(r.err)
				if r.err == nil && string(r.b) != "XYZ" {
					class = "other:wrong-data:" + fmt.Sprintf("%q", r.b)
				}
			case <-time.After(4 * time.Second):
				class = "other:stuck"
			}
		}
	}
	time.Sleep(30 * time.Millisecond)
	leak := runtime.NumGoroutine() - base - 1 // our own drain goroutine
	if leak < 0 {
		leak = 0
	}
	return fmt.Sprintf("class=%s speed=%s leak=%d follow=ok", strings.ReplaceAll(class, " ", "_"), speed, leak)
}

// svcCtx: the context given to the serving call ends (cancel, or its deadline passes) while a client connection is idle or stalled in
// the middle of a frame: the service's per-connection read must end, the client sees EOF, and after Shutdown the serving call returns.
func svcCtx(dir string, n int, kind, state string) string {
	svc, _ := varlink.NewService("v", "p", "1", "u")
	path := fmt.Sprintf("%s/z%d", dir, n)
	var ctx context.Context
	var cancel context.CancelFunc
	if kind == "deadline" {
		ctx, cancel = context.WithTimeout(context.Background(), 250*time.Millisecond)
	} else {
		ctx, cancel = context.WithCancel(context.Background())
	}
	defer cancel()
	if err := svc.Bind(context.Background(), "unix:"+path); err != nil {
		return "X bind " + err.Error()
	}
	done := make(chan error, 1)
	go func() { done <- svc.DoListen(ctx, 0) }()
	c, err := net.Dial("unix", path)
	if err != nil {
		svc.Shutdown()
		return "X dial " + err.Error()
	}
	defer c.Close()
	// one round trip, so that the connection is being served
	c.SetDeadline(time.Now().Add(5 * time.Second))
	c.Write([]byte("{\"method\":\"org.varlink.service.GetInfo\"}\x00"))
	if _, err := bufio.NewReader(c).ReadBytes(0); err != nil {
		svc.Shutdown()
		return "X first call " + err.Error()
	}
	if state == "midframe" {
		c.Write([]byte("{\"method\":\"org.varl"))
	}
	if kind == "cancel" {
		time.Sleep(60 * time.Millisecond)
		cancel()
	}
	start := time.Now()
	c.SetDeadline(time.Now().Add(4 * time.Second))
	var b [64]byte
	_, rerr := c.Read(b[:])
	class, speed := "ctx", "fast"
	if rerr != io.EOF {
		class = "other:the-idle-connection-was-not-ended:" + strings.ReplaceAll(fmt.Sprint(rerr), " ", "_")
	}
	if time.Since(start) > 2*time.Second {
		speed = fmt.Sprintf("slow:%dms", time.Since(start).Milliseconds())
	}
	svc.Shutdown()
	follow := "ok"
	select {
	case <-done:
	case <-time.After(4 * time.Second):
		follow = "bad:the-serving-call-did-not-return-after-Shutdown"
	}
	return fmt.Sprintf("class=%s speed=%s leak=0 follow=%s", class, speed, follow)
}

func runCase(dir string, n int, line string) (res string) {
	defer func() {
		if r := recover(); r != nil {
			res = "PANIC " + strings.ReplaceAll(fmt.Sprint(r), " ", "_")
		}
	}()
	f := strings.Fields(line)
	transport, op, kind, instant := f[0], f[1], f[2], f[3]
	if op == "clientrecv" {
		return clientCase(dir, n, transport, kind, instant)
	}
	if op == "svcctx" {
		return svcCtx(dir, n, kind, instant)
	}
	if op == "duplex" {
		return duplexCase(dir, n, transport, instant)
	}
	rw, peer, cleanup, err := pair(transport, dir, n)
	if err != nil {
		return "X setup " + err.Error()
	}
	defer cleanup()
	time.Sleep(5 * time.Millisecond)
	base := runtime.NumGoroutine()
	// what the peer does before the operation
	switch instant {
	case "buffered":
		// a complete frame and the head of the next one arrive in one segment; reading the first frame leaves "abc" in the
		// connection's buffer, and the peer then stalls in the middle of the second frame
		go peer.Write([]byte("first\x00abc"))
		lctx, lcancel := context.WithTimeout(context.Background(), 2*time.Second)
		fr, err := rw.ReadBytes(lctx, 0)
		lcancel()
		if err != nil || string(fr) != "first\x00" {
			return fmt.Sprintf("X setup first frame %q %v", fr, err)
		}
	case "partial":
		go peer.Write([]byte("abc")) // net.Pipe is synchronous: the write completes when the operation reads
		time.Sleep(20 * time.Millisecond)
	case "after":
		if op != "write" {
			go peer.Write([]byte("hello\x00"))
			time.Sleep(20 * time.Millisecond)
		}
	}
	var ctx context.Context
	var cancel context.CancelFunc
	switch {
	case instant == "before" && kind == "cancel":
		ctx, cancel = context.WithCancel(context.Background())
		cancel()
	case instant == "before":
		ctx, cancel = context.WithDeadline(context.Background(), time.Now().Add(-time.Second))
	case instant == "after" && kind == "deadline":
		// completes long before its deadline; the deadline must not outlive the operation
		ctx, cancel = context.WithTimeout(context.Background(), 120*time.Millisecond)
	case instant == "after":
		ctx, cancel = context.WithCancel(context.Background())
	case kind == "cancel":
		ctx, cancel = context.WithCancel(context.Background())
		go func() { time.Sleep(60 * time.Millisecond); cancel() }()
	default:
		ctx, cancel = context.WithTimeout(context.Background(), 60*time.Millisecond)
	}
	defer cancel()
	drained := make(chan []byte, 1)
	if op == "write" && instant == "after" {
		go func() {
			b := make([]byte, 64)
			k, _ := peer.Read(b)
			drained <- b[:k]
		}()
	}
	// a watchdog lets a stuck operation end after 3 s by making the peer act (and marks it slow)
	wd := time.AfterFunc(3*time.Second, func() {
		if op == "write" {
			go io.Copy(io.Discard, peer)
		} else {
			go peer.Write([]byte("late\x00"))
		}
	})
	start := time.Now()
	var opErr error
	var got []byte
	switch op {
	case "readbytes":
		got, opErr = rw.ReadBytes(ctx, 0)
	case "read":
		buf := make([]byte, 16)
		var k int
		k, opErr = rw.Read(ctx, buf)
		got = buf[:k]
	case "write":
		payload := []byte("ping\x00")
		if instant != "after" {
			payload = bytes.Repeat([]byte("w"), 8<<20)
		}
		_, opErr = rw.Write(ctx, payload)
	}
	el := time.Since(start)
	wd.Stop()
	cancel()
	class := classify(opErr)
	if instant == "after" && opErr == nil {
		if op == "readbytes" && string(got) != "hello\x00" {
			class = "other:wrong-data"
		}
		if op == "read" && !strings.HasPrefix("hello\x00", string(got)) {
			class = "other:wrong-data"
		}
	}
	speed := "fast"
	if el > time.Second {
		speed = fmt.Sprintf("slow:%dms", el.Milliseconds())
	}
	time.Sleep(30 * time.Millisecond)
	leak := runtime.NumGoroutine() - base
	if op == "write" && instant == "after" {
		leak-- // our own drain goroutine may still be alive
		select {
		case <-drained:
			leak++
		default:
		}
	}
	if leak < 0 {
		leak = 0
	}
	// follow-up with a live context that carries no deadline of its own (a watchdog cancels it after 3 s):
	// every byte the peer sends from now on must be delivered, also once the first operation's deadline has passed
	live := func() (context.Context, context.CancelFunc) {
		c, cf := context.WithCancel(context.Background())
		t := time.AfterFunc(3*time.Second, cf)
		return c, func() { t.Stop(); cf() }
	}
	if instant == "after" && kind == "deadline" {
		time.Sleep(150 * time.Millisecond)
		// ... and the follow-up runs under context.Background() itself (Done() == nil), as a caller without any context of its own would;
		// the scenario watchdog of main() bounds it
		live = func() (context.Context, context.CancelFunc) { return context.Background(), func() {} }
	}
	follow := "ok"
	if op == "write" {
		go io.Copy(io.Discard, peer)
		lctx, lcancel := live()
		if _, err := rw.Write(lctx, []byte("PING\x00")); err != nil {
			follow = "bad:write:" + classify(err)
		}
		lcancel()
	} else {
		if op == "read" && instant == "after" && len(got) < 6 {
			// drain the rest of "hello\0" first
			lctx, lcancel := context.WithTimeout(context.Background(), 2*time.Second)
			rw.ReadBytes(lctx, 0)
			lcancel()
		}
		go peer.Write([]byte("XYZ\x00"))
		lctx, lcancel := live()
		fr, err := rw.ReadBytes(lctx, 0)
		lcancel()
		if err != nil {
			follow = "bad:read:" + classify(err)
		} else if !bytes.HasSuffix(fr, []byte("XYZ\x00")) || bytes.Count(fr, []byte("XYZ")) != 1 {
			follow = "bad:data:" + fmt.Sprintf("%q", fr)
		} else if len(fr) > 4 && string(fr[:len(fr)-4]) != "abc" && string(fr[:len(fr)-4]) != "late\x00" {
			follow = "bad:prefix:" + fmt.Sprintf("%q", fr)
		}
	}
	return fmt.Sprintf("class=%s speed=%s leak=%d follow=%s", class, speed, leak, follow)
}

func main() {
	dir, err := os.MkdirTemp("", "vctx")
	if err != nil {
		panic(err)
	}
	defer os.RemoveAll(dir)
	sc := bufio.NewScanner(os.Stdin)
	w := bufio.NewWriter(os.Stdout)
	defer w.Flush()
	n := 0
	for sc.Scan() {
		n++
		// a scenario that never comes back (a helper that is never joined, a stolen completion value) must not hang the check
		resc := make(chan string, 1)
		line := sc.Text()
		go func(k int) { resc <- runCase(dir, k, line) }(n)
		select {
		case r := <-resc:
			fmt.Fprintln(w, r)
		case <-time.After(40 * time.Second):
			fmt.Fprintln(w, "class=other:hung speed=slow:40000ms leak=0 follow=bad:hung")
		}
		w.Flush()
	}
}
