// h_relay connects stdin/stdout to a unix socket (the "bridge" subprocess for varlink.NewBridge).
package main

import (
	"io"
	"net"
	"os"
)

func main() {
	c, err := net.Dial("unix", os.Args[1])
	if err != nil {
		os.Exit(1)
	}
	done := make(chan struct{}, 2)
	go func() {
		io.Copy(c, os.Stdin)
		c.(*net.UnixConn).CloseWrite()
		done <- struct{}{}
	}()
	go func() {
		io.Copy(os.Stdout, c)
		os.Stdout.Close()
		done <- struct{}{}
	}()
	<-done
	<-done
}
