// h_relay connects stdin/stdout to a unix socket (the "bridge" subprocess for varlink.NewBridge).
package main

import (
	"io"
	"net"
	"os"
)

func main() {
	c, err := net.Dial("unix", os.Args[1])
	if err != nil {
		os.Exit(1)
	}
	done := make(chan struct{}, 2)
	go func() {
		io.Copy(c, os.Stdin)
		c.(*net.UnixConn).CloseWrite()
		done <- struct{}{}
	}()
	go func() {
		io.Copy(os.Stdout, c)
		os.Stdout.Close()
		// the service hung up: a bridge (think `ssh host varlink bridge`) ends by itself then, whether or not its own
		// stdin is still open; whatever it wrote to stdout before must still reach the parent
		os.Exit(0)
	}()
	<-done
	<-done
}
