// h_cli: the real client (Connection.Send + the receive closure) against a scripted byte stream.
// line   := <flags> <hexmethod> <value|-> <nrecv> <hexchunk,hexchunk,...|->
// result := send=<ok|refused:<hexwhat>|marshal|err> wrote=<hex|-> then " ; recv=<class>" per receive
package main

import (
	"bufio"
	"context"
	"encoding/json"
	"fmt"
	"io"
	"net"
	"os"
	"strconv"
	"strings"
	"time"

	"github.com/varlink/go/varlink"
	"verif/harness/vt"
)

type scriptConn struct {
	chunks [][]byte
	wrote  []byte
}

func (c *scriptConn) Read(p []byte) (int, error) {
	if len(c.chunks) == 0 {
		return 0, io.EOF
	}
	n := copy(p, c.chunks[0])
	if n == len(c.chunks[0]) {
		c.chunks = c.chunks[1:]
	} else {
		c.chunks[0] = c.chunks[0][n:]
	}
	return n, nil
}
func (c *scriptConn) Write(p []byte) (int, error) {
	c.wrote = append(c.wrote, p...)
	return len(p), nil
}
func (c *scriptConn) Close() error                       { return nil }
func (c *scriptConn) LocalAddr() net.Addr                { return nil }
func (c *scriptConn) RemoteAddr() net.Addr               { return nil }
func (c *scriptConn) SetDeadline(t time.Time) error      { return nil }
func (c *scriptConn) SetReadDeadline(t time.Time) error  { return nil }
func (c *scriptConn) SetWriteDeadline(t time.Time) error { return nil }

func classify(err error) string {
	switch e := err.(type) {
	case *varlink.InterfaceNotFound:
		return "std I " + vt.Hx([]byte(e.Interface))
	case *varlink.MethodNotFound:
		return "std M " + vt.Hx([]byte(e.Method))
	case *varlink.MethodNotImplemented:
		return "std N " + vt.Hx([]byte(e.Method))
	case *varlink.InvalidParameter:
		return "std P " + vt.Hx([]byte(e.Parameter))
	case *varlink.Error:
		ps := "N"
		if rp, ok := e.Parameters.(*json.RawMessage); ok && rp != nil {
			ps = "R" + vt.Hx([]byte(*rp))
		}
		return "err " + vt.Hx([]byte(e.Name)) + " " + ps
	}
	if err == io.ErrUnexpectedEOF {
		return "eof"
	}
	if err == io.EOF {
		return "plain-eof"
	}
	return "other:decode"
}

func run(line string) (res string) {
	defer func() {
		if r := recover(); r != nil {
			res = "PANIC " + strings.ReplaceAll(fmt.Sprint(r), " ", "_")
		}
	}()
	f := strings.Fields(line)
	if f[0] == "seq" {
		// several calls of ONE method on ONE connection with different flags: "seq <hexmethod> <flags,flags,...>" -> the bytes each Send wrote
		sc := &scriptConn{}
		conn := varlink.VerifNewConnection(sc)
		var outs []string
		for _, fs := range strings.Split(f[2], ",") {
			fl, _ := strconv.ParseUint(fs, 10, 64)
			before := len(sc.wrote)
			_, err := conn.Send(context.Background(), string(vt.Unhex(f[1])), nil, fl)
			if err != nil {
				outs = append(outs, "refused")
			} else {
				outs = append(outs, vt.Hx(sc.wrote[before:]))
			}
		}
		return "seq " + strings.Join(outs, "|")
	}
	nilOut := strings.HasPrefix(f[0], "nil:") // the caller passes no out value (a method without out parameters)
	f[0] = strings.TrimPrefix(f[0], "nil:")
	flags, _ := strconv.ParseUint(f[0], 10, 64)
	nrecv, _ := strconv.Atoi(f[3])
	sc := &scriptConn{}
	if f[4] != "-" {
		for _, h := range strings.Split(f[4], ",") {
			sc.chunks = append(sc.chunks, vt.Unhex(h))
		}
	}
	conn := varlink.VerifNewConnection(sc)
	ctx := context.Background()
	var p interface{}
	if f[2] != "-" {
		p = vt.Parse(f[2])
	}
	recv, err := conn.Send(ctx, string(vt.Unhex(f[1])), p, flags)
	if err != nil {
		if e, ok := err.(*varlink.Error); ok && e.Name == "org.varlink.InvalidParameter" {
			return "send=refused:" + vt.Hx([]byte(fmt.Sprint(e.Parameters))) + " wrote=" + vt.Hx(sc.wrote)
		}
		if strings.HasPrefix(err.Error(), "json:") {
			return "send=marshal wrote=" + vt.Hx(sc.wrote)
		}
		return "send=err wrote=" + vt.Hx(sc.wrote)
	}
	out := []string{"send=ok wrote=" + vt.Hx(sc.wrote)}
	for i := 0; i < nrecv; i++ {
		var raw json.RawMessage
		var fl uint64
		var err error
		if nilOut {
			fl, err = recv(ctx, nil)
		} else {
			fl, err = recv(ctx, &raw)
		}
		if err != nil {
			out = append(out, "recv="+classify(err))
			continue
		}
		if nilOut {
			out = append(out, fmt.Sprintf("recv=ok %d -", fl))
			continue
		}
		ps := "N"
		if raw != nil {
			ps = "R" + vt.Hx(raw)
		}
		out = append(out, fmt.Sprintf("recv=ok %d %s", fl, ps))
	}
	return strings.Join(out, " ; ")
}

func main() {
	sc := bufio.NewScanner(os.Stdin)
	sc.Buffer(make([]byte, 1<<20), 1<<30)
	w := bufio.NewWriterSize(os.Stdout, 1<<20)
	defer w.Flush()
	for sc.Scan() {
		fmt.Fprintln(w, run(sc.Text()))
	}
}
