// h_idl runs idl.New from /repo on hex-encoded inputs (one per line) and
// prints the canonical dump defined in coq/Model/IdlDump.v:
//
//	OK <dump> | ERR | PANIC <msg> | TIMEOUT
package main

import (
	"bufio"
	"encoding/hex"
	"fmt"
	"os"
	"strings"
	"time"

	"github.com/varlink/go/varlink/idl"
)

func hx(s string) string { return hex.EncodeToString([]byte(s)) }

func dumpType(b *strings.Builder, t *idl.Type) {
	if t == nil {
		return // the dump parser reports a nil type as irregular
	}
	switch t.Kind {
	case idl.TypeBool:
		b.WriteString("b")
	case idl.TypeInt:
		b.WriteString("i")
	case idl.TypeFloat:
		b.WriteString("f")
	case idl.TypeString:
		b.WriteString("s")
	case idl.TypeObject:
		b.WriteString("o")
	case idl.TypeArray:
		b.WriteString("A")
		dumpType(b, t.ElementType)
	case idl.TypeMaybe:
		b.WriteString("Q")
		dumpType(b, t.ElementType)
	case idl.TypeMap:
		b.WriteString("D")
		dumpType(b, t.ElementType)
	case idl.TypeAlias:
		b.WriteString("N" + hx(t.Alias) + ".")
	case idl.TypeStruct, idl.TypeEnum:
		if t.Kind == idl.TypeStruct {
			b.WriteString("S(")
		} else {
			b.WriteString("E(")
		}
		for i, f := range t.Fields {
			if i > 0 {
				b.WriteString(",")
			}
			b.WriteString(hx(f.Name))
			if f.Type != nil {
				b.WriteString(":")
				dumpType(b, f.Type)
			}
		}
		b.WriteString(")")
	default:
		b.WriteString("?")
	}
}

func dumpMember(b *strings.Builder, m interface{}) {
	switch v := m.(type) {
	case *idl.Alias:
		b.WriteString("T" + hx(v.Name) + "." + hx(v.Doc) + ".")
		dumpType(b, v.Type)
	case *idl.Method:
		b.WriteString("M" + hx(v.Name) + "." + hx(v.Doc) + ".")
		dumpType(b, v.In)
		b.WriteString(">")
		dumpType(b, v.Out)
	case *idl.Error:
		b.WriteString("X" + hx(v.Name) + "." + hx(v.Doc) + ".")
		if v.Type == nil {
			b.WriteString("-")
		} else {
			dumpType(b, v.Type)
		}
	default:
		b.WriteString("?")
	}
}

func dumpList(b *strings.Builder, n int, at func(int) interface{}) {
	b.WriteString("[")
	for i := 0; i < n; i++ {
		if i > 0 {
			b.WriteString(";")
		}
		dumpMember(b, at(i))
	}
	b.WriteString("]")
}

func dump(input string, d *idl.IDL) string {
	var b strings.Builder
	b.WriteString("I" + hx(d.Name) + "." + hx(d.Doc) + ".")
	if d.Description == input {
		b.WriteString("D1")
	} else {
		b.WriteString("D0")
	}
	dumpList(&b, len(d.Members), func(i int) interface{} { return d.Members[i] })
	dumpList(&b, len(d.Aliases), func(i int) interface{} { return d.Aliases[i] })
	dumpList(&b, len(d.Methods), func(i int) interface{} { return d.Methods[i] })
	dumpList(&b, len(d.Errors), func(i int) interface{} { return d.Errors[i] })
	return b.String()
}

func run(input string) (out string) {
	defer func() {
		if r := recover(); r != nil {
			out = "PANIC " + strings.ReplaceAll(fmt.Sprint(r), "\n", " ")
		}
	}()
	d, err := idl.New(input)
	if err != nil {
		if d != nil {
			return "ERR-WITH-TREE"
		}
		return "ERR"
	}
	if d == nil {
		return "NIL-WITHOUT-ERROR"
	}
	return "OK " + dump(input, d)
}

func main() {
	sc := bufio.NewScanner(os.Stdin)
	sc.Buffer(make([]byte, 1<<20), 1<<28)
	w := bufio.NewWriterSize(os.Stdout, 1<<20)
	defer w.Flush()
	for sc.Scan() {
		line := strings.TrimSpace(sc.Text())
		var raw []byte
		if line != "-" {
			var err error
			raw, err = hex.DecodeString(line)
			if err != nil {
				fmt.Fprintln(os.Stderr, "bad hex:", err)
				os.Exit(2)
			}
		}
		ch := make(chan string, 1)
		go func() { ch <- run(string(raw)) }()
		select {
		case r := <-ch:
			fmt.Fprintln(w, r)
		case <-time.After(8 * time.Second):
			fmt.Fprintln(w, "TIMEOUT")
			w.Flush()
			os.Exit(3)
		}
	}
}
