// h_reg: registration / introspection histories on one real Service object.
// case := "svc <hexvendor> <hexproduct> <hexversion> <hexurl> <ignored>" then ops separated by " | ":
//
//	reg <hexname> <hexdescr>   RegisterInterface -> o | x
//	listen                     Bind + DoListen in a goroutine (waits until running)
//	listen2                    Listen in a goroutine (waits until running)
//	shutdown                   closes the client connection, Shutdown, waits for the serving call to return
//	shutdown-keep              Shutdown while the client connection stays open: the serving call keeps draining
//	drop                       closes the client connection after shutdown-keep and waits for the serving call to return
//	info                       GetInfo: direct HandleMessage reply bytes, and (while listening) the client helper's fields
//	descr <hexname>            GetInterfaceDescription likewise
//	call <hexmethod>           a call of that method string through HandleMessage (every registered interface answers MethodNotImplemented)
package main

import (
	"bufio"
	"context"
	"encoding/json"
	"fmt"
	"os"
	"strings"
	"time"

	"github.com/varlink/go/varlink"
	"verif/harness/vt"
)

type capture struct{ buf []byte }

func (c *capture) Write(ctx context.Context, b []byte) (int, error) {
	c.buf = append(c.buf, b...)
	return len(b), nil
}
func (c *capture) Read(ctx context.Context, b []byte) (int, error) { return 0, fmt.Errorf("no") }
func (c *capture) ReadBytes(ctx context.Context, d byte) ([]byte, error) {
	return nil, fmt.Errorf("no")
}

type plain struct{ name, descr string }

func (p *plain) VarlinkGetName() string        { return p.name }
func (p *plain) VarlinkGetDescription() string { return p.descr }
func (p *plain) VarlinkDispatch(ctx context.Context, c varlink.Call, m string) error {
	return c.ReplyMethodNotImplemented(ctx, m)
}

type slow struct{ plain }

func (p *slow) VarlinkGetDescription() string {
	time.Sleep(15 * time.Millisecond)
	return p.descr
}

func sd(s string) string { return "S" + vt.Hx([]byte(s)) }
func ld(l []string) string {
	if l == nil {
		return "N"
	}
	h := make([]string, len(l))
	for i, s := range l {
		h[i] = vt.Hx([]byte(s))
	}
	return "[" + strings.Join(h, ",") + "]"
}

func errClass(err error) string {
	switch e := err.(type) {
	case *varlink.InvalidParameter:
		return "std P " + vt.Hx([]byte(e.Parameter))
	case *varlink.InterfaceNotFound:
		return "std I " + vt.Hx([]byte(e.Interface))
	case *varlink.MethodNotFound:
		return "std M " + vt.Hx([]byte(e.Method))
	}
	return "other:" + strings.ReplaceAll(err.Error(), " ", "_")
}

func runCase(dir string, n int, line string) (res string) {
	defer func() {
		if r := recover(); r != nil {
			res = "PANIC " + fmt.Sprint(r)
		}
	}()
	secs := strings.Split(line, " | ")
	f0 := strings.Fields(secs[0])
	svc, _ := varlink.NewService(string(vt.Unhex(f0[1])), string(vt.Unhex(f0[2])), string(vt.Unhex(f0[3])), string(vt.Unhex(f0[4])))
	ctx := context.Background()
	addr := fmt.Sprintf("unix:%s/r%d", dir, n)
	var done chan error
	draining := false
	var conn *varlink.Connection
	var out []string
	var v, p, ver, u string
	var ifs []string
	direct := func(req string) string {
		c := &capture{}
		err := svc.HandleMessage(ctx, c, []byte(req))
		if err != nil {
			return "X" + err.Error()
		}
		return vt.Hx(c.buf)
	}
	for _, sec := range secs[1:] {
		f := strings.Fields(sec)
		switch f[0] {
		case "reg":
			if err := svc.RegisterInterface(&plain{string(vt.Unhex(f[1])), string(vt.Unhex(f[2]))}); err != nil {
				out = append(out, "x")
			} else {
				out = append(out, "o")
			}
		case "reg2":
			// two goroutines register the same name at the same time (the interface takes a moment to produce its description):
			// exactly one of them may succeed, whatever the interleaving
			name, descr := string(vt.Unhex(f[1])), string(vt.Unhex(f[2]))
			res := make(chan bool, 2)
			for k := 0; k < 2; k++ {
				go func() { res <- svc.RegisterInterface(&slow{plain{name, descr}}) == nil }()
			}
			a, b := <-res, <-res
			switch {
			case a && b:
				out = append(out, "oo")
			case a || b:
				out = append(out, "ox")
			default:
				out = append(out, "xx")
			}
		case "listen", "listen2":
			if done != nil {
				out = append(out, "already")
				continue
			}
			if f[0] == "listen" {
				if err := svc.Bind(ctx, addr); err != nil {
					out = append(out, "binderr")
					continue
				}
				done = make(chan error, 1)
				go func(d chan error) { d <- svc.DoListen(ctx, 0) }(done)
			} else {
				done = make(chan error, 1)
				go func(d chan error) { d <- svc.Listen(ctx, addr, 0) }(done)
			}
			for t := 0; t < 3000 && !svc.VerifRunning(); t++ {
				time.Sleep(200 * time.Microsecond)
			}
			var err error
			conn, err = varlink.NewConnection(ctx, addr)
			if err != nil {
				out = append(out, "connecterr")
			} else {
				out = append(out, "listening")
			}
		case "shutdown":
			if done == nil {
				out = append(out, "notlistening")
				continue
			}
			draining = false
			if conn != nil {
				conn.Close()
				conn = nil
			}
			svc.Shutdown()
			select {
			case <-done:
				out = append(out, "stopped")
			case <-time.After(3 * time.Second):
				out = append(out, "noreturn")
			}
			done = nil
		case "shutdown-keep":
			if done == nil || draining {
				out = append(out, "notlistening")
				continue
			}
			if conn != nil {
				// one round trip first: the connection is accepted and being served when Shutdown arrives
				var a, b, c, d string
				var e []string
				cctx, cancel := context.WithTimeout(ctx, 2*time.Second)
				conn.GetInfo(cctx, &a, &b, &c, &d, &e)
				cancel()
			}
			svc.Shutdown()
			draining = true
			select {
			case <-done:
				out = append(out, "returned-early")
				done = nil
			case <-time.After(30 * time.Millisecond):
				out = append(out, "draining")
			}
		case "drop":
			if !draining {
				out = append(out, "notdraining")
				continue
			}
			draining = false
			if conn != nil {
				conn.Close()
				conn = nil
			}
			if done == nil {
				out = append(out, "stopped")
				continue
			}
			select {
			case <-done:
				out = append(out, "stopped")
			case <-time.After(3 * time.Second):
				out = append(out, "noreturn")
			}
			done = nil
		case "info":
			r := "info " + direct(`{"method":"org.varlink.service.GetInfo"}`)
			if conn != nil {
				// the output variables are reused across calls, as a polling client would
				cctx, cancel := context.WithTimeout(ctx, 2*time.Second)
				if err := conn.GetInfo(cctx, &v, &p, &ver, &u, &ifs); err != nil {
					r += " client " + errClass(err)
				} else {
					r += " client " + strings.Join([]string{sd(v), sd(p), sd(ver), sd(u), ld(ifs)}, " ")
				}
				cancel()
			}
			out = append(out, r)
		case "call":
			mb, _ := json.Marshal(string(vt.Unhex(f[1])))
			out = append(out, "call "+direct(`{"method":`+string(mb)+`}`))
		case "descr":
			name := string(vt.Unhex(f[1]))
			nb, _ := json.Marshal(name)
			r := "descr " + direct(`{"method":"org.varlink.service.GetInterfaceDescription","parameters":{"interface":`+string(nb)+`}}`)
			if conn != nil {
				cctx, cancel := context.WithTimeout(ctx, 2*time.Second)
				d, err := conn.GetInterfaceDescription(cctx, name)
				if err != nil {
					r += " client " + errClass(err)
				} else {
					r += " client " + sd(d)
				}
				cancel()
			}
			out = append(out, r)
		}
	}
	if conn != nil {
		conn.Close()
	}
	if done != nil {
		svc.Shutdown()
		select {
		case <-done:
		case <-time.After(3 * time.Second):
		}
	}
	return strings.Join(out, " ; ")
}

func main() {
	dir, err := os.MkdirTemp("", "vreg")
	if err != nil {
		panic(err)
	}
	defer os.RemoveAll(dir)
	sc := bufio.NewScanner(os.Stdin)
	sc.Buffer(make([]byte, 1<<20), 1<<30)
	w := bufio.NewWriterSize(os.Stdout, 1<<20)
	defer w.Flush()
	n := 0
	hangs := 0
	for sc.Scan() {
		n++
		// a case that never comes back (a lock that is never released, a goroutine that is never joined) must not hang the check
		line := sc.Text()
		if hangs >= 3 {
			fmt.Fprintln(w, "HANG skipped: three earlier cases of this run did not finish")
			continue
		}
		resc := make(chan string, 1)
		go func() { resc <- runCase(dir, n, line) }()
		select {
		case r := <-resc:
			fmt.Fprintln(w, r)
		case <-time.After(60 * time.Second):
			hangs++
			fmt.Fprintln(w, "HANG the case did not finish within 60 s")
		}
	}
}
