// h_svc runs a real varlink Service (DoListen on a unix socket) with scripted
// dispatchers and raw clients.  One case per input line, one result line per case.
//
// case := section { " | " section }
//   svc <hexvendor> <hexproduct> <hexversion> <hexurl> <hexsvcdescr(ignored)>
//   iface <hexname> <hexdescr>
//   script <hexfullmethod> <step>* ret0|ret1
//        step := r<0|1><policy>:<value>            Reply (continues flag) with parameters
//              | e<policy>:<hexname>:<value>        ReplyError
//              | s<policy>:<I|M|N|P>:<hexarg>       ReplyInterfaceNotFound / MethodNotFound / MethodNotImplemented / InvalidParameter
//        policy := c (carry on) | e (return the error if the reply failed) | n (return nil if the reply failed)
//   conn <half|abort|pause> <hexchunk,hexchunk,...>
// result := per connection "out=<hex> log=[entry;...] ovl=<0|1>" joined by " | ", then " || released=<0|1> returned=<0|1> err=<class>"
//   entry := H<hexiface>.<hexmethod> <N|R<hexparams>> <more><oneway><upgrade> <attempt results o/x ...> ret<0|1>
package main

import (
	"bufio"
	"context"
	"encoding/json"
	"errors"
	"fmt"
	"io"
	"net"
	"os"
	"strings"
	"sync"
	"sync/atomic"
	"time"

	"github.com/varlink/go/varlink"
	"verif/harness/vt"
)

type step struct {
	kind   byte
	cont   bool
	policy byte
	name   string
	val    interface{}
	std    byte
	arg    string
}

type script struct {
	steps []step
	ret   bool
}

type connState struct {
	mu      sync.Mutex
	busy    int32
	overlap bool
	log     []string
}

type harness struct {
	scripts map[string]*script
	mu      sync.Mutex
	conns   map[int]*connState
}

func (h *harness) conn(i int) *connState {
	h.mu.Lock()
	defer h.mu.Unlock()
	c := h.conns[i]
	if c == nil {
		c = &connState{}
		h.conns[i] = c
	}
	return c
}

type tagConn struct {
	net.Conn
	idx int
}

type tagListener struct {
	net.Listener
	n        int32
	accepted chan int
}

func (l *tagListener) Accept() (net.Conn, error) {
	c, err := l.Listener.Accept()
	if err != nil {
		return nil, err
	}
	i := int(atomic.AddInt32(&l.n, 1)) - 1
	l.accepted <- i
	return &tagConn{Conn: c, idx: i}, nil
}

type disp struct {
	name, descr string
	h           *harness
}

func (d *disp) VarlinkGetName() string        { return d.name }
func (d *disp) VarlinkGetDescription() string { return d.descr }

func tf(b bool) string {
	if b {
		return "T"
	}
	return "F"
}

func (d *disp) VarlinkDispatch(ctx context.Context, c varlink.Call, method string) error {
	idx := -1
	if g, ok := c.Conn.(varlink.GetNetConn); ok {
		if t, ok := g.NetConn().(*tagConn); ok {
			idx = t.idx
		}
	}
	st := d.h.conn(idx)
	if !atomic.CompareAndSwapInt32(&st.busy, 0, 1) {
		st.mu.Lock()
		st.overlap = true
		st.mu.Unlock()
	}
	defer atomic.StoreInt32(&st.busy, 0)
	var raw json.RawMessage
	ps := "N"
	if err := c.GetParameters(&raw); err == nil {
		ps = "R" + vt.Hx(raw)
	} else if err.Error() != "empty parameters" {
		ps = "X"
	}
	entry := []string{"H" + vt.Hx([]byte(d.name)) + "." + vt.Hx([]byte(method)), ps, tf(c.WantsMore()) + tf(c.IsOneway()) + tf(c.WantsUpgrade())}
	finish := func(ret bool) {
		if ret {
			entry = append(entry, "ret1")
		} else {
			entry = append(entry, "ret0")
		}
		st.mu.Lock()
		st.log = append(st.log, strings.Join(entry, " "))
		st.mu.Unlock()
	}
	sc := d.h.scripts[d.name+"."+method]
	if sc == nil {
		finish(false)
		return nil
	}
	for _, s := range sc.steps {
		var err error
		switch s.kind {
		case 'r':
			c.Continues = s.cont
			err = c.Reply(ctx, s.val)
		case 'e':
			err = c.ReplyError(ctx, s.name, s.val)
		case 's':
			switch s.std {
			case 'I':
				err = c.ReplyInterfaceNotFound(ctx, s.arg)
			case 'M':
				err = c.ReplyMethodNotFound(ctx, s.arg)
			case 'N':
				err = c.ReplyMethodNotImplemented(ctx, s.arg)
			case 'P':
				err = c.ReplyInvalidParameter(ctx, s.arg)
			}
		}
		if err == nil {
			entry = append(entry, "o")
		} else {
			entry = append(entry, "x")
			if s.policy == 'e' {
				finish(true)
				return err
			}
			if s.policy == 'n' {
				finish(false)
				return nil
			}
		}
	}
	finish(sc.ret)
	if sc.ret {
		return errors.New("scripted handler error")
	}
	return nil
}

func parseValue(s string) interface{} {
	if s == "-" {
		return nil
	}
	return vt.Parse(s)
}

func parseScript(f []string) *script {
	sc := &script{}
	for _, t := range f {
		if t == "ret0" {
			sc.ret = false
			continue
		}
		if t == "ret1" {
			sc.ret = true
			continue
		}
		st := step{kind: t[0]}
		switch t[0] {
		case 'r':
			st.cont = t[1] == '1'
			st.policy = t[2]
			st.val = parseValue(t[4:])
		case 'e':
			st.policy = t[1]
			rest := t[3:]
			i := strings.IndexByte(rest, ':')
			st.name = string(vt.Unhex(rest[:i]))
			st.val = parseValue(rest[i+1:])
		case 's':
			st.policy = t[1]
			st.std = t[3]
			st.arg = string(vt.Unhex(t[5:]))
		}
		sc.steps = append(sc.steps, st)
	}
	return sc
}

type connSpec struct {
	mode   string
	chunks [][]byte
}

func runCase(dir string, caseNo int, line string) (res string) {
	defer func() {
		if r := recover(); r != nil {
			res = "PANIC " + fmt.Sprint(r)
		}
	}()
	h := &harness{scripts: map[string]*script{}, conns: map[int]*connState{}}
	var svc *varlink.Service
	var conns []connSpec
	var ifaces []*disp
	for _, sec := range strings.Split(line, " | ") {
		f := strings.Fields(sec)
		if len(f) == 0 {
			continue
		}
		switch f[0] {
		case "svc":
			svc, _ = varlink.NewService(string(vt.Unhex(f[1])), string(vt.Unhex(f[2])), string(vt.Unhex(f[3])), string(vt.Unhex(f[4])))
		case "iface":
			ifaces = append(ifaces, &disp{name: string(vt.Unhex(f[1])), descr: string(vt.Unhex(f[2])), h: h})
		case "script":
			h.scripts[string(vt.Unhex(f[1]))] = parseScript(f[2:])
		case "conn":
			cs := connSpec{mode: f[1]}
			if len(f) > 2 && f[2] != "-" {
				for _, hx := range strings.Split(f[2], ",") {
					cs.chunks = append(cs.chunks, vt.Unhex(hx))
				}
			}
			conns = append(conns, cs)
		}
	}
	var regres []string
	for _, d := range ifaces {
		if err := svc.RegisterInterface(d); err != nil {
			regres = append(regres, "x")
		} else {
			regres = append(regres, "o")
		}
	}
	path := fmt.Sprintf("%s/s%d", dir, caseNo)
	inner, err := net.Listen("unix", path)
	if err != nil {
		return "X listen " + err.Error()
	}
	tl := &tagListener{Listener: inner, accepted: make(chan int, len(conns)+1)}
	svc.VerifSetListener(tl)
	done := make(chan error, 1)
	ctx := context.Background()
	go func() { done <- svc.DoListen(ctx, 0) }()
	clients := make([]net.Conn, len(conns))
	for i := range conns {
		c, err := net.Dial("unix", path)
		if err != nil {
			return "X dial " + err.Error()
		}
		clients[i] = c
		select {
		case <-tl.accepted:
		case <-time.After(5 * time.Second):
			return "X accept timeout"
		}
	}
	outs := make([]string, len(conns))
	var wg sync.WaitGroup
	for i := range conns {
		wg.Add(1)
		go func(i int) {
			defer wg.Done()
			c := clients[i]
			for _, ch := range conns[i].chunks {
				if _, err := c.Write(ch); err != nil {
					break
				}
				if conns[i].mode == "pause" {
					time.Sleep(300 * time.Microsecond)
				}
			}
			if conns[i].mode == "abort" {
				c.Close()
				outs[i] = "-"
				return
			}
			c.(*net.UnixConn).CloseWrite()
			c.SetReadDeadline(time.Now().Add(10 * time.Second))
			b, err := io.ReadAll(c)
			if err != nil {
				if ne, ok := err.(net.Error); ok && ne.Timeout() {
					outs[i] = "TIMEOUT" + vt.Hx(b)
					c.Close()
					return
				}
			}
			outs[i] = vt.Hx(b)
			c.Close()
		}(i)
	}
	wg.Wait()
	released := "0"
	for t := 0; t < 3000; t++ {
		if svc.VerifActive() == 0 {
			released = "1"
			break
		}
		time.Sleep(time.Millisecond)
	}
	svc.Shutdown()
	returned, errc := "0", "-"
	select {
	case err := <-done:
		returned = "1"
		if err != nil {
			errc = "err"
		} else {
			errc = "nil"
		}
	case <-time.After(3 * time.Second):
	}
	os.Remove(path)
	var parts []string
	for i := range conns {
		st := h.conn(i)
		st.mu.Lock()
		ov := "0"
		if st.overlap {
			ov = "1"
		}
		parts = append(parts, fmt.Sprintf("out=%s log=[%s] ovl=%s", outs[i], strings.Join(st.log, ";"), ov))
		st.mu.Unlock()
	}
	return strings.Join(parts, " | ") + " || reg=" + strings.Join(regres, "") + " released=" + released + " returned=" + returned + " err=" + errc
}

func main() {
	dir, err := os.MkdirTemp("", "vsvc")
	if err != nil {
		panic(err)
	}
	defer os.RemoveAll(dir)
	sc := bufio.NewScanner(os.Stdin)
	sc.Buffer(make([]byte, 1<<20), 1<<30)
	w := bufio.NewWriterSize(os.Stdout, 1<<20)
	defer w.Flush()
	n := 0
	for sc.Scan() {
		n++
		fmt.Fprintln(w, runCase(dir, n, sc.Text()))
	}
}
