// h_svc runs a real varlink Service (DoListen on a unix socket) with scripted
// dispatchers and raw clients.  One case per input line, one result line per case.
//
// case := section { " | " section }
//
//	svc <hexvendor> <hexproduct> <hexversion> <hexurl> <hexsvcdescr(ignored)>
//	iface <hexname> <hexdescr>
//	script <hexfullmethod> <step>* ret0|ret1
//	     step := r<0|1><policy>:<value>            Reply (continues flag) with parameters
//	           | e<policy>:<hexname>:<value>        ReplyError
//	           | s<policy>:<I|M|N|P>:<hexarg>       ReplyInterfaceNotFound / MethodNotFound / MethodNotImplemented / InvalidParameter
//	     policy := c (carry on) | e (return the error if the reply failed) | n (return nil if the reply failed)
//	conn <half|abort|pause> <hexchunk,hexchunk,...>
//
// result := per connection "out=<hex> log=[entry;...] ovl=<0|1>" joined by " | ", then " || released=<0|1> returned=<0|1> err=<class>"
//
//	entry := H<hexiface>.<hexmethod> <N|R<hexparams>> <more><oneway><upgrade> <attempt results o/x ...> ret<0|1>
package main

import (
	"bufio"
	"context"
	"fmt"
	"io"
	"net"
	"os"
	"strings"
	"sync"
	"time"

	"github.com/varlink/go/varlink"
	"verif/harness/hs"
	"verif/harness/vt"
)

type connSpec struct {
	mode   string
	chunks [][]byte
}

func runCase(dir string, caseNo int, line string) (res string) {
	defer func() {
		if r := recover(); r != nil {
			res = "PANIC " + fmt.Sprint(r)
		}
	}()
	h := &hs.Harness{Scripts: map[string]*hs.Script{}, Conns: map[int]*hs.ConnState{}}
	var svc *varlink.Service
	var conns []connSpec
	var ifaces []*hs.Disp
	for _, sec := range strings.Split(line, " | ") {
		f := strings.Fields(sec)
		if len(f) == 0 {
			continue
		}
		switch f[0] {
		case "svc":
			svc, _ = varlink.NewService(string(vt.Unhex(f[1])), string(vt.Unhex(f[2])), string(vt.Unhex(f[3])), string(vt.Unhex(f[4])))
		case "iface":
			ifaces = append(ifaces, &hs.Disp{Name: string(vt.Unhex(f[1])), Descr: string(vt.Unhex(f[2])), H: h})
		case "script":
			h.Scripts[string(vt.Unhex(f[1]))] = hs.ParseScript(f[2:])
		case "conn":
			cs := connSpec{mode: f[1]}
			if len(f) > 2 && f[2] != "-" {
				for _, hx := range strings.Split(f[2], ",") {
					cs.chunks = append(cs.chunks, vt.Unhex(hx))
				}
			}
			conns = append(conns, cs)
		}
	}
	var regres []string
	for _, d := range ifaces {
		if err := svc.RegisterInterface(d); err != nil {
			regres = append(regres, "x")
		} else {
			regres = append(regres, "o")
		}
	}
	path := fmt.Sprintf("%s/s%d", dir, caseNo)
	inner, err := net.Listen("unix", path)
	if err != nil {
		return "X listen " + err.Error()
	}
	tl := &hs.TagListener{Listener: inner, Accepted: make(chan int, len(conns)+1)}
	svc.VerifSetListener(tl)
	done := make(chan error, 1)
	ctx := context.Background()
	go func() { done <- svc.DoListen(ctx, 0) }()
	clients := make([]net.Conn, len(conns))
	for i := range conns {
		if conns[i].mode == "late" {
			continue // dialled while the other connections' handlers are already running
		}
		c, err := net.Dial("unix", path)
		if err != nil {
			return "X dial " + err.Error()
		}
		clients[i] = c
		select {
		case <-tl.Accepted:
		case <-time.After(5 * time.Second):
			return "X accept timeout"
		}
	}
	outs := make([]string, len(conns))
	var wg sync.WaitGroup
	for i := range conns {
		wg.Add(1)
		go func(i int) {
			defer wg.Done()
			if conns[i].mode == "late" {
				time.Sleep(60 * time.Millisecond)
				c, err := net.Dial("unix", path)
				if err != nil {
					outs[i] = "TIMEOUT-dial"
					return
				}
				clients[i] = c
				select {
				case <-tl.Accepted:
				case <-time.After(8 * time.Second):
					outs[i] = "TIMEOUT-accept"
					c.Close()
					return
				}
			}
			c := clients[i]
			for _, ch := range conns[i].chunks {
				if _, err := c.Write(ch); err != nil {
					break
				}
				if conns[i].mode == "pause" {
					time.Sleep(300 * time.Microsecond)
				}
				if conns[i].mode == "slow" {
					time.Sleep(40 * time.Millisecond)
				}
			}
			if conns[i].mode == "abort" {
				c.Close()
				outs[i] = "-"
				return
			}
			if conns[i].mode != "keep" {
				c.(*net.UnixConn).CloseWrite()
			}
			// mode keep: the client neither half-closes nor closes: it reads until the SERVICE hangs up (its stream ends in a frame
			// that does not decode) and keeps its own end open until the service has been shut down
			c.SetReadDeadline(time.Now().Add(10 * time.Second))
			b, err := io.ReadAll(c)
			if err != nil {
				if ne, ok := err.(net.Error); ok && ne.Timeout() {
					outs[i] = "TIMEOUT" + vt.Hx(b)
					c.Close()
					return
				}
			}
			outs[i] = vt.Hx(b)
			if conns[i].mode != "keep" {
				c.Close()
			}
		}(i)
	}
	wg.Wait()
	released := "0"
	for t := 0; t < 3000; t++ {
		if svc.VerifActive() == 0 {
			released = "1"
			break
		}
		time.Sleep(time.Millisecond)
	}
	svc.Shutdown()
	returned, errc := "0", "-"
	select {
	case err := <-done:
		returned = "1"
		if err != nil {
			errc = "err"
		} else {
			errc = "nil"
		}
	case <-time.After(3 * time.Second):
	}
	for i := range conns {
		if conns[i].mode == "keep" && clients[i] != nil {
			clients[i].Close()
		}
	}
	os.Remove(path)
	var parts []string
	for i := range conns {
		st := h.Conn(i)
		st.Mu.Lock()
		ov := "0"
		if st.Overlap {
			ov = "1"
		}
		parts = append(parts, fmt.Sprintf("out=%s log=[%s] ovl=%s", outs[i], strings.Join(st.Log, ";"), ov))
		st.Mu.Unlock()
	}
	return strings.Join(parts, " | ") + " || reg=" + strings.Join(regres, "") + " released=" + released + " returned=" + returned + " err=" + errc
}

func main() {
	dir, err := os.MkdirTemp("", "vsvc")
	if err != nil {
		panic(err)
	}
	defer os.RemoveAll(dir)
	sc := bufio.NewScanner(os.Stdin)
	sc.Buffer(make([]byte, 1<<20), 1<<30)
	w := bufio.NewWriterSize(os.Stdout, 1<<20)
	defer w.Flush()
	n := 0
	hangs := 0
	for sc.Scan() {
		n++
		// a case that never comes back (a lock that is never released, a goroutine that is never joined) must not hang the check
		line := sc.Text()
		if hangs >= 3 {
			fmt.Fprintln(w, "HANG skipped: three earlier cases of this run did not finish")
			continue
		}
		resc := make(chan string, 1)
		go func() { resc <- runCase(dir, n, line) }()
		select {
		case r := <-resc:
			fmt.Fprintln(w, r)
		case <-time.After(60 * time.Second):
			hangs++
			fmt.Fprintln(w, "HANG the case did not finish within 60 s")
		}
	}
}
