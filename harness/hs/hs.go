// Package hs: scripted dispatchers, tagged listener and script parsing shared by the service-side harness commands.
package hs

import (
	"context"
	"encoding/json"
	"errors"
	"net"
	"strconv"
	"strings"
	"sync"
	"sync/atomic"
	"time"

	"github.com/varlink/go/varlink"
	"verif/harness/vt"
)

type Step struct {
	kind   byte
	cont   bool
	policy byte
	name   string
	val    interface{}
	std    byte
	arg    string
}

type Script struct {
	Steps []Step
	Ret   bool
}

type ConnState struct {
	Mu      sync.Mutex
	Busy    int32
	Overlap bool
	Log     []string
}

type Harness struct {
	Scripts map[string]*Script
	mu      sync.Mutex
	Conns   map[int]*ConnState
	meets   map[string]chan struct{}
}

// Meet: the first handler to arrive at a rendezvous waits (at most d) for a second one; false if nobody came.
func (h *Harness) Meet(id string, d time.Duration) bool {
	h.mu.Lock()
	if h.meets == nil {
		h.meets = map[string]chan struct{}{}
	}
	if ch, ok := h.meets[id]; ok {
		delete(h.meets, id)
		h.mu.Unlock()
		close(ch)
		return true
	}
	ch := make(chan struct{})
	h.meets[id] = ch
	h.mu.Unlock()
	select {
	case <-ch:
		return true
	case <-time.After(d):
		h.mu.Lock()
		if h.meets[id] == ch {
			delete(h.meets, id)
		}
		h.mu.Unlock()
		return false
	}
}

func (h *Harness) Conn(i int) *ConnState {
	h.mu.Lock()
	defer h.mu.Unlock()
	c := h.Conns[i]
	if c == nil {
		c = &ConnState{}
		h.Conns[i] = c
	}
	return c
}

type TagConn struct {
	net.Conn
	Idx int
}

// CloseWrite is forwarded, so that the wrapper does not hide from the library what the real connection can do.
func (t *TagConn) CloseWrite() error {
	if cw, ok := t.Conn.(interface{ CloseWrite() error }); ok {
		return cw.CloseWrite()
	}
	return errors.New("CloseWrite not supported by the wrapped connection")
}

type TagListener struct {
	net.Listener
	N        int32
	Accepted chan int
}

func (l *TagListener) Accept() (net.Conn, error) {
	c, err := l.Listener.Accept()
	if err != nil {
		return nil, err
	}
	i := int(atomic.AddInt32(&l.N, 1)) - 1
	l.Accepted <- i
	return &TagConn{Conn: c, Idx: i}, nil
}

type Disp struct {
	Name, Descr string
	H           *Harness
}

func (d *Disp) VarlinkGetName() string        { return d.Name }
func (d *Disp) VarlinkGetDescription() string { return d.Descr }

func Tf(b bool) string {
	if b {
		return "T"
	}
	return "F"
}

func (d *Disp) VarlinkDispatch(ctx context.Context, c varlink.Call, method string) error {
	idx := -1
	if g, ok := c.Conn.(varlink.GetNetConn); ok {
		if t, ok := g.NetConn().(*TagConn); ok {
			idx = t.Idx
		}
	}
	st := d.H.Conn(idx)
	if !atomic.CompareAndSwapInt32(&st.Busy, 0, 1) {
		st.Mu.Lock()
		st.Overlap = true
		st.Mu.Unlock()
	}
	defer atomic.StoreInt32(&st.Busy, 0)
	var raw json.RawMessage
	ps := "N"
	if err := c.GetParameters(&raw); err == nil {
		ps = "R" + vt.Hx(raw)
	} else if err.Error() != "empty parameters" {
		ps = "X"
	}
	entry := []string{"H" + vt.Hx([]byte(d.Name)) + "." + vt.Hx([]byte(method)), ps, Tf(c.WantsMore()) + Tf(c.IsOneway()) + Tf(c.WantsUpgrade())}
	finish := func(ret bool) {
		if ret {
			entry = append(entry, "ret1")
		} else {
			entry = append(entry, "ret0")
		}
		st.Mu.Lock()
		st.Log = append(st.Log, strings.Join(entry, " "))
		st.Mu.Unlock()
	}
	sc := d.H.Scripts[d.Name+"."+method]
	if sc == nil {
		finish(false)
		return nil
	}
	for _, s := range sc.Steps {
		var err error
		if s.kind == 'w' {
			ms, _ := strconv.Atoi(s.arg)
			time.Sleep(time.Duration(ms) * time.Millisecond)
			continue
		}
		if s.kind == 'b' {
			// the two handlers can only meet if the service runs them at the same time; a service that serialises
			// connections makes the first one wait in vain: logged, so that the history differs from the model's
			if !d.H.Meet(s.arg, 3*time.Second) {
				entry = append(entry, "x-nobody-else-was-served")
			}
			continue
		}
		switch s.kind {
		case 'r':
			c.Continues = s.cont
			err = c.Reply(ctx, s.val)
		case 'd':
			c.Continues = false
			dctx, dcancel := context.WithTimeout(ctx, 50*time.Millisecond)
			err = c.Reply(dctx, s.val)
			dcancel()
		case 'e':
			err = c.ReplyError(ctx, s.name, s.val)
		case 's':
			switch s.std {
			case 'I':
				err = c.ReplyInterfaceNotFound(ctx, s.arg)
			case 'M':
				err = c.ReplyMethodNotFound(ctx, s.arg)
			case 'N':
				err = c.ReplyMethodNotImplemented(ctx, s.arg)
			case 'P':
				err = c.ReplyInvalidParameter(ctx, s.arg)
			}
		}
		if err == nil {
			entry = append(entry, "o")
			if s.policy == 's' { // stop (return nil) once a reply went out
				finish(false)
				return nil
			}
		} else {
			entry = append(entry, "x")
			if s.policy == 'e' {
				finish(true)
				return err
			}
			if s.policy == 'n' {
				finish(false)
				return nil
			}
		}
	}
	finish(sc.Ret)
	if sc.Ret {
		return errors.New("scripted handler error")
	}
	return nil
}

func ParseValue(s string) interface{} {
	if s == "-" {
		return nil
	}
	return vt.Parse(s)
}

func ParseScript(f []string) *Script {
	sc := &Script{}
	for _, t := range f {
		if t == "ret0" {
			sc.Ret = false
			continue
		}
		if t == "ret1" {
			sc.Ret = true
			continue
		}
		st := Step{kind: t[0]}
		switch t[0] {
		case 'r':
			st.cont = t[1] == '1'
			st.policy = t[2]
			st.val = ParseValue(t[4:])
		case 'd':
			// a reply sent under a context with a short deadline of its own (50 ms)
			st.policy = t[2]
			st.val = ParseValue(t[4:])
		case 'e':
			st.policy = t[1]
			rest := t[3:]
			i := strings.IndexByte(rest, ':')
			st.name = string(vt.Unhex(rest[:i]))
			st.val = ParseValue(rest[i+1:])
		case 's':
			st.policy = t[1]
			st.std = t[3]
			st.arg = string(vt.Unhex(t[5:]))
		case 'w':
			// the handler takes a while (milliseconds)
			st.arg = t[1:]
		case 'b':
			// rendezvous with the handler of ANOTHER connection that runs a step with the same id
			st.arg = t[1:]
		}
		sc.Steps = append(sc.Steps, st)
	}
	return sc
}
