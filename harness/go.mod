module verif/harness

go 1.23

require github.com/varlink/go v0.0.0

replace github.com/varlink/go => /repo
