(* C18 — Upgraded connections continue the byte stream without loss.
   Only statements: each is closed by `exact` of a lemma of Proofs/WireProofs.v. *)
From VL Require Import Bytes Wire WireProofs.
Open Scope N_scope.

(* every byte of the stream is delivered exactly once and in order, whatever
   sequence of frame reads and raw reads (of any sizes) consumes it, for every
   segmentation into chunks and every buffer capacity *)
Theorem C18_exactly_once_in_order : forall cap ops c, (1 <= cap)%nat -> chunks_ok c ->
  Forall (fun o => match o with OpRead n => (1 <= n)%nat | _ => True end) ops ->
  exists rs c', run_ops cap ops c = Some (rs, c') /\ chunks_ok c' /\
    concat_bytes (map data_of rs) ++ stream_of c' = stream_of c.
Proof. exact C18_exactly_once. Qed.
Print Assumptions C18_exactly_once_in_order.

(* a frame read ends at the first delimiter after the previous read point *)
Theorem C18_frame_read_is_stream_cut : forall cap delim c, (1 <= cap)%nat -> chunks_ok c ->
  exists r c', read_bytes cap delim c = Some (r, c') /\ chunks_ok c' /\
    match cut_at delim (stream_of c) with
    | Some (a, rest) => r = RData a /\ stream_of c' = rest
    | None => r = REof (stream_of c) /\ stream_of c' = []
    end.
Proof. exact read_bytes_spec. Qed.
Print Assumptions C18_frame_read_is_stream_cut.

(* upgrade (both sides use the same reader): after the reply / request frame, the next
   raw read returns the bytes immediately following the frame's NUL, also when they
   arrived in the same segment *)
Theorem C18_upgrade_raw_read_continues : forall cap delim n c a rest, (1 <= cap)%nat -> (1 <= n)%nat -> chunks_ok c ->
  cut_at delim (stream_of c) = Some (a, rest) -> rest <> [] ->
  exists c1 d c2, read_bytes cap delim c = Some (RData a, c1) /\ read_raw cap n c1 = (RData d, c2) /\
    d <> [] /\ exists rest', rest = d ++ rest' /\ stream_of c2 = rest'.
Proof. exact C18_raw_after_frame. Qed.
Print Assumptions C18_upgrade_raw_read_continues.

(* the statement is false for a raw read that bypasses the buffer (the behaviour repaired by the fix: commit) *)
Theorem C18_refuted_for_socket_level_read : exists c c1 r c2,
  chunks_ok c /\ read_bytes 4096 0 c = Some (RData [65; 0], c1) /\ read_raw_unbuffered 3 c1 = (r, c2) /\
  [65; 0] ++ data_of r ++ stream_of c2 <> stream_of c.
Proof. exact C18_refuted_for_unbuffered_read. Qed.
Print Assumptions C18_refuted_for_socket_level_read.
