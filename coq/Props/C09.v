(* placeholder until Proofs/IdlTotal.v exists *)
