(* C09 — IDL parser is total: every input yields a tree or an error.
   Only statements; proofs live in Proofs/IdlTotal.v. *)
From VL Require Import Bytes Idl IdlTotal.

(* For every byte string (no size bound) the cursor-faithful model of idl.New
   never reaches a Go slice-bounds panic and never runs out of fuel: it returns
   a tree (POk) or an error (PErr). *)
Theorem C09_total : forall s : bytes, parse s <> PPanic /\ parse s <> PFuel.
Proof. exact parse_total. Qed.
Print Assumptions C09_total.

Theorem C09_tree_or_error : forall s : bytes, (exists d, parse s = POk d) \/ parse s = PErr.
Proof.
  intro s. destruct (parse_total s) as [Hp Hf].
  destruct (parse s) as [d| | |]; [left; exists d; reflexivity | right; reflexivity | contradiction | contradiction].
Qed.
Print Assumptions C09_tree_or_error.

(* non-vacuity: the model does have panic outcomes elsewhere — a cursor past the end cannot be sliced *)
Example C09_slice_can_panic : slice 0 (mkCur [] [] 1 1) = None.
Proof. reflexivity. Qed.
Print Assumptions C09_slice_can_panic.
