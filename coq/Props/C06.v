(* C06 — IDL parser: nothing ill-formed accepted, nothing silently ignored.
   Only statements; proofs live in Proofs/IdlSound.v. *)
From VL Require Import Bytes Idl IdlSound.

(* Whenever parsing succeeds, re-printing the tree reproduces the input up to
   whitespace and comments (so no part of the text is unaccounted for or
   reinterpreted), member names are unique, at least one method exists, no
   optional directly wraps an optional, every parenthesised list is all typed
   fields or all bare names (wf_liberal), and the description is kept verbatim. *)
Theorem C06_sound : forall (s : bytes) (d : idl), parse s = POk d ->
  strip s = strip (print_idl d) /\ wf_liberal d = true /\ i_descr d = s.
Proof. exact parse_sound. Qed.
Print Assumptions C06_sound.

(* contrapositive: a text that is not the layout of any liberally well-formed tree is rejected *)
Theorem C06_rejects_outside : forall s : bytes,
  (forall d, wf_liberal d = true -> strip s <> strip (print_idl d)) ->
  forall d, parse s <> POk d.
Proof.
  intros s H d Hp. destruct (parse_sound s d Hp) as [Hs [Hw _]]. exact (H d Hw Hs).
Qed.
Print Assumptions C06_rejects_outside.

(* non-vacuity: a concrete description is accepted and satisfies the conclusion *)
Example C06_example :
  exists d, parse [105;110;116;101;114;102;97;99;101;32;97;46;98;10;109;101;116;104;111;100;32;77;40;41;45;62;40;41]%N = POk d
            /\ wf_liberal d = true.
Proof. eexists. split; [vm_compute; reflexivity | vm_compute; reflexivity]. Qed.
Print Assumptions C06_example.
