(* Base/Lit2.v — more ASCII literals (kept apart from Lit.v so that adding one does not rebuild everything). *)
From Coq Require Import String.
From VL Require Import Bytes.
Local Open Scope string_scope.
Definition org_varlink_resolver : bytes := Eval compute in b "org.varlink.resolver".
Definition m_resolver_Resolve : bytes := Eval compute in b "org.varlink.resolver.Resolve".
Definition m_resolver_GetInfo : bytes := Eval compute in b "org.varlink.resolver.GetInfo".
