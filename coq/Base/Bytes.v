(* Base/Bytes.v — byte strings as lists of N, and the string primitives the
   models share (Go's strings.Index / LastIndex / SplitN for a single byte).
   No proofs about repository code live here; only definitions and their
   elementary lemmas. *)
From Coq Require Export List NArith Bool Arith Lia.
From Coq Require Ascii String.
Export ListNotations.
Open Scope N_scope.

Definition byte := N.
Definition bytes := list N.

(* literal helper: b "interface" is the byte string of an ASCII literal
   (used only in Base/Lit.v, where String is imported) *)
Definition b (s : String.string) : bytes :=
  List.map Ascii.N_of_ascii (String.list_ascii_of_string s).

Fixpoint bytes_eqb (x y : bytes) : bool :=
  match x, y with
  | [], [] => true
  | a :: x', c :: y' => (a =? c) && bytes_eqb x' y'
  | _, _ => false
  end.

Lemma bytes_eqb_eq : forall x y, bytes_eqb x y = true <-> x = y.
Proof.
  induction x as [|a x IH]; destruct y as [|c y]; simpl; split; intro H;
    try reflexivity; try discriminate.
  - apply andb_true_iff in H. destruct H as [H1 H2].
    apply N.eqb_eq in H1. apply IH in H2. subst. reflexivity.
  - inversion H; subst. rewrite N.eqb_refl. simpl. apply IH. reflexivity.
Qed.

Lemma bytes_eqb_refl : forall x, bytes_eqb x x = true.
Proof. intro x. apply bytes_eqb_eq. reflexivity. Qed.

Lemma bytes_eqb_neq : forall x y, bytes_eqb x y = false <-> x <> y.
Proof.
  intros x y. split.
  - intros H E. apply bytes_eqb_eq in E. congruence.
  - intro H. destruct (bytes_eqb x y) eqn:E; [|reflexivity].
    apply bytes_eqb_eq in E. contradiction.
Qed.

Fixpoint take_while (p : N -> bool) (s : bytes) : bytes :=
  match s with
  | x :: r => if p x then x :: take_while p r else []
  | [] => []
  end.

Fixpoint drop_while (p : N -> bool) (s : bytes) : bytes :=
  match s with
  | x :: r => if p x then drop_while p r else s
  | [] => []
  end.

Lemma take_drop_while : forall p s, take_while p s ++ drop_while p s = s.
Proof.
  induction s as [|x r IH]; simpl; [reflexivity|].
  destruct (p x); simpl; [rewrite IH|]; reflexivity.
Qed.

Lemma take_while_all : forall p s, forallb p (take_while p s) = true.
Proof.
  induction s as [|x r IH]; simpl; [reflexivity|].
  destruct (p x) eqn:E; simpl; [rewrite E, IH|]; reflexivity.
Qed.

Lemma drop_while_head : forall p s x r, drop_while p s = x :: r -> p x = false.
Proof.
  induction s as [|y s IH]; simpl; intros x r H; [discriminate|].
  destruct (p y) eqn:E; [eauto|]. inversion H; subst. exact E.
Qed.

Lemma drop_while_length : forall p s, (length (drop_while p s) <= length s)%nat.
Proof.
  induction s as [|x r IH]; simpl; [lia|]. destruct (p x); simpl; lia.
Qed.

(* strings.Index(s, c) for a single byte *)
Fixpoint index_of (c : byte) (s : bytes) : option nat :=
  match s with
  | [] => None
  | x :: r => if x =? c then Some O
              else match index_of c r with Some i => Some (S i) | None => None end
  end.

(* strings.LastIndex(s, c) for a single byte *)
Fixpoint last_index_of (c : byte) (s : bytes) : option nat :=
  match s with
  | [] => None
  | x :: r => match last_index_of c r with
              | Some i => Some (S i)
              | None => if x =? c then Some O else None
              end
  end.

(* strings.SplitN(s, c, 2): (before, Some after) when c occurs, (s, None) otherwise *)
Fixpoint split2 (c : byte) (s : bytes) : bytes * option bytes :=
  match s with
  | [] => ([], None)
  | x :: r => if x =? c then ([], Some r)
              else let (a, o) := split2 c r in (x :: a, o)
  end.

(* strings.Split(s, c) *)
Fixpoint split_all (c : byte) (s : bytes) : list bytes :=
  match s with
  | [] => [[]]
  | x :: r => if x =? c then [] :: split_all c r
              else match split_all c r with
                   | w :: ws => (x :: w) :: ws
                   | [] => [[x]]
                   end
  end.

Fixpoint is_prefix (p s : bytes) : bool :=
  match p, s with
  | [], _ => true
  | a :: p', c :: s' => (a =? c) && is_prefix p' s'
  | _ :: _, [] => false
  end.

Fixpoint concat_bytes (l : list bytes) : bytes :=
  match l with [] => [] | x :: r => x ++ concat_bytes r end.
