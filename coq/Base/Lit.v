(* Base/Lit.v — ASCII literals used by the models, as explicit byte lists. *)
From Coq Require Import String.
From VL Require Import Bytes.
Local Open Scope string_scope.

Definition kw_bool : bytes := Eval compute in b "bool".
Definition kw_int : bytes := Eval compute in b "int".
Definition kw_float : bytes := Eval compute in b "float".
Definition kw_string : bytes := Eval compute in b "string".
Definition kw_object : bytes := Eval compute in b "object".
Definition kw_interface : bytes := Eval compute in b "interface".
Definition kw_type : bytes := Eval compute in b "type".
Definition kw_method : bytes := Eval compute in b "method".
Definition kw_error : bytes := Eval compute in b "error".
