(* Base/Lit.v — ASCII literals used by the models, as explicit byte lists. *)
From Coq Require Import String.
From VL Require Import Bytes.
Local Open Scope string_scope.

Definition kw_bool : bytes := Eval compute in b "bool".
Definition kw_int : bytes := Eval compute in b "int".
Definition kw_float : bytes := Eval compute in b "float".
Definition kw_string : bytes := Eval compute in b "string".
Definition kw_object : bytes := Eval compute in b "object".
Definition kw_interface : bytes := Eval compute in b "interface".
Definition kw_type : bytes := Eval compute in b "type".
Definition kw_method : bytes := Eval compute in b "method".
Definition kw_error : bytes := Eval compute in b "error".

(* JSON member names and varlink names *)
Definition s_method : bytes := Eval compute in b "method".
Definition s_parameters : bytes := Eval compute in b "parameters".
Definition s_more : bytes := Eval compute in b "more".
Definition s_oneway : bytes := Eval compute in b "oneway".
Definition s_upgrade : bytes := Eval compute in b "upgrade".
Definition s_continues : bytes := Eval compute in b "continues".
Definition s_error : bytes := Eval compute in b "error".
Definition s_interface : bytes := Eval compute in b "interface".
Definition s_description : bytes := Eval compute in b "description".
Definition s_parameter : bytes := Eval compute in b "parameter".
Definition s_vendor : bytes := Eval compute in b "vendor".
Definition s_product : bytes := Eval compute in b "product".
Definition s_version : bytes := Eval compute in b "version".
Definition s_url : bytes := Eval compute in b "url".
Definition s_interfaces : bytes := Eval compute in b "interfaces".
Definition s_address : bytes := Eval compute in b "address".
Definition org_varlink_service : bytes := Eval compute in b "org.varlink.service".
Definition err_InterfaceNotFound : bytes := Eval compute in b "org.varlink.service.InterfaceNotFound".
Definition err_MethodNotFound : bytes := Eval compute in b "org.varlink.service.MethodNotFound".
Definition err_MethodNotImplemented : bytes := Eval compute in b "org.varlink.service.MethodNotImplemented".
Definition err_InvalidParameter : bytes := Eval compute in b "org.varlink.service.InvalidParameter".
Definition m_GetInfo : bytes := Eval compute in b "GetInfo".
Definition m_GetInterfaceDescription : bytes := Eval compute in b "GetInterfaceDescription".
Definition s_unix : bytes := Eval compute in b "unix".
Definition s_tcp : bytes := Eval compute in b "tcp".
Definition s_varlink : bytes := Eval compute in b "varlink".
Definition lit_true : bytes := Eval compute in b "true".
Definition lit_null : bytes := Eval compute in b "null".
