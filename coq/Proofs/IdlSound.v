(* Proofs/IdlSound.v — what the parser model accepts is, up to layout, the
   printed form of the tree it returns, and that tree is well-formed (C06,
   model side).

   For every reader:  reader st = ROk x st'  implies
       strip (rest st) = TOKENS x ++ strip (rest st')
   where TOKENS x is the piece of print_* that corresponds to x. *)
From VL Require Import Bytes Lit Idl IdlCursor IdlTotal.
From Coq Require Import Lia ZArith.
Open Scope N_scope.

Ltac norm_app := cbn [app]; repeat (rewrite <- app_assoc; cbn [app]).

(* ------------------------------------------------------------------ *)
(** * The printer, with its local fixpoints named *)

Fixpoint print_fields (l : list (bytes * ty)) : bytes :=
  match l with
  | [] => []
  | [(n, ft)] => n ++ [58] ++ print_ty ft
  | (n, ft) :: r => n ++ [58] ++ print_ty ft ++ [44] ++ print_fields r
  end.

Fixpoint print_enum (l : list bytes) : bytes :=
  match l with
  | [] => []
  | [n] => n
  | n :: r => n ++ [44] ++ print_enum r
  end.

Fixpoint wf_fields (l : list (bytes * ty)) : bool :=
  match l with [] => true | (_, ft) :: r => wf_ty ft && wf_fields r end.

Lemma print_struct : forall fs, print_ty (TStruct fs) = [40] ++ print_fields fs ++ [41].
Proof. reflexivity. Qed.
Lemma print_enum_ty : forall ns, print_ty (TEnum ns) = [40] ++ print_enum ns ++ [41].
Proof. reflexivity. Qed.
Lemma wf_struct : forall fs, wf_ty (TStruct fs) = wf_fields fs.
Proof. reflexivity. Qed.

(* what follows a field in the printed list *)
Definition tail_fields (l : list (bytes * ty)) : bytes :=
  match l with [] => [] | _ => [44] ++ print_fields l end.
Definition tail_enum (l : list bytes) : bytes :=
  match l with [] => [] | _ => [44] ++ print_enum l end.

Lemma print_fields_cons : forall n ft l,
  print_fields ((n, ft) :: l) = n ++ [58] ++ print_ty ft ++ tail_fields l.
Proof.
  intros n ft l. destruct l as [|p l]; cbn [print_fields tail_fields].
  - rewrite app_nil_r. reflexivity.
  - reflexivity.
Qed.

Lemma print_enum_cons : forall n l, print_enum (n :: l) = n ++ tail_enum l.
Proof.
  intros n l. destruct l as [|p l]; cbn [print_enum tail_enum].
  - rewrite app_nil_r. reflexivity.
  - reflexivity.
Qed.

Lemma tail_fields_ne : forall l, l <> [] -> tail_fields l = [44] ++ print_fields l.
Proof. intros l H. destruct l; [contradiction|reflexivity]. Qed.
Lemma tail_enum_ne : forall l, l <> [] -> tail_enum l = [44] ++ print_enum l.
Proof. intros l H. destruct l; [contradiction|reflexivity]. Qed.

Lemma builtin_of_spec : forall w t, builtin_of w = Some t -> print_ty t = w /\ wf_ty t = true.
Proof.
  intros w t H. unfold builtin_of in H.
  destruct (bytes_eqb w kw_bool) eqn:E1;
    [apply bytes_eqb_eq in E1; inversion H; subst; split; reflexivity|].
  destruct (bytes_eqb w kw_int) eqn:E2;
    [apply bytes_eqb_eq in E2; inversion H; subst; split; reflexivity|].
  destruct (bytes_eqb w kw_float) eqn:E3;
    [apply bytes_eqb_eq in E3; inversion H; subst; split; reflexivity|].
  destruct (bytes_eqb w kw_string) eqn:E4;
    [apply bytes_eqb_eq in E4; inversion H; subst; split; reflexivity|].
  destruct (bytes_eqb w kw_object) eqn:E5;
    [apply bytes_eqb_eq in E5; inversion H; subst; split; reflexivity|].
  discriminate.
Qed.

Lemma word_strip : forall rr w r', rr = w ++ r' -> clean w -> strip rr = w ++ strip r'.
Proof. intros rr w r' E C. subst rr. apply strip_clean_app, C. Qed.

Lemma strip_byte : forall x r, tokch x = true -> strip (x :: r) = [x] ++ strip r.
Proof. intros x r H. apply strip_tokch, H. Qed.

(* ------------------------------------------------------------------ *)
(** * read_type / read_fields *)

Definition type_post (r : bytes) (t : ty) (s' : pst) : Prop :=
  strip r = print_ty t ++ strip (rest (cu s')) /\ wf_ty t = true.

(* what the loop of readStructType has established when it returns: the
   fields read from here on (fs' / es') extend the ones read before *)
Definition fields_post (m : lmode) (tf : list (bytes * ty)) (ef : list bytes) (r : bytes)
    (t : ty) (s' : pst) : Prop :=
  (m <> LBare /\ exists fs', fs' <> [] /\ t = TStruct (rev tf ++ fs') /\ wf_fields fs' = true
     /\ strip r = print_fields fs' ++ [41] ++ strip (rest (cu s')))
  \/ (m <> LTyped /\ exists es', es' <> [] /\ t = TEnum (rev ef ++ es')
     /\ strip r = print_enum es' ++ [41] ++ strip (rest (cu s'))).

Definition after_post (m : lmode) (tf : list (bytes * ty)) (ef : list bytes) (r : bytes)
    (t : ty) (s' : pst) : Prop :=
  (m <> LBare /\ exists fs', t = TStruct (rev tf ++ fs') /\ wf_fields fs' = true
     /\ strip r = tail_fields fs' ++ [41] ++ strip (rest (cu s')))
  \/ (m <> LTyped /\ exists es', t = TEnum (rev ef ++ es')
     /\ strip r = tail_enum es' ++ [41] ++ strip (rest (cu s'))).

Definition S_type (fuel : nat) : Prop :=
  forall F b r l, (length r < fuel)%nat -> (length r < F)%nat ->
    post (read_type fuel F (mkPst (gc b r) l)) (type_post r).

Definition S_fields (fuel : nat) : Prop :=
  forall F m tf ef b r l, (length r < fuel)%nat -> (length r < F)%nat ->
    post (read_fields fuel F m tf ef (mkPst (gc b r) l)) (fields_post m tf ef r).

Lemma after_field_sound : forall f, S_fields f ->
  forall F m' tf' ef' b r l,
    (length r <= f)%nat -> (length r < F)%nat ->
    post (after_field f F m' tf' ef' (mkPst (gc b r) l)) (after_post m' tf' ef' r).
Proof.
  intros f HS F m' tf' ef' b r l Hf HF. unfold after_field.
  destruct (advance_gc F b r l HF) as (b6 & r6 & l6 & E6 & L6 & S6).
  rewrite E6. cbn [bind cu lc].
  destruct r6 as [|x r7]; [rewrite next_gc_nil; exact I|].
  rewrite next_gc_cons. cbv beta iota. rewrite m44_41. cbn [length] in L6.
  destruct (N.eqb_spec x 44) as [->|N44].
  - eapply post_mono; [apply HS; lia|].
    intros t s' [(Hm & fs' & Hne & Ht & Hw & Hs)|(Hm & es' & Hne & Ht & Hs)].
    + left. split; [exact Hm|]. exists fs'. split; [exact Ht|]. split; [exact Hw|].
      rewrite S6, (strip_byte 44) by reflexivity. rewrite Hs, tail_fields_ne by exact Hne.
      norm_app. reflexivity.
    + right. split; [exact Hm|]. exists es'. split; [exact Ht|].
      rewrite S6, (strip_byte 44) by reflexivity. rewrite Hs, tail_enum_ne by exact Hne.
      norm_app. reflexivity.
  - destruct (N.eqb_spec x 41) as [->|N41]; [|exact I].
    cbn [post]. unfold after_post. cbn [cu rest gc].
    rewrite S6, (strip_byte 41) by reflexivity.
    destruct m'; cbn [finish_list].
    + left. split; [discriminate|]. exists []. rewrite app_nil_r.
      split; [reflexivity|]. split; reflexivity.
    + left. split; [discriminate|]. exists []. rewrite app_nil_r.
      split; [reflexivity|]. split; reflexivity.
    + right. split; [discriminate|]. exists []. rewrite app_nil_r.
      split; reflexivity.
Qed.

(* the result of the field loop started right after "(" *)
Lemma fields_post_top : forall r1 r5 t s',
  fields_post LNone [] [] r5 t s' -> strip r1 = strip r5 ->
  type_post (40 :: r1) t s'.
Proof.
  intros r1 r5 t s' H S5. unfold type_post. rewrite (strip_byte 40) by reflexivity. rewrite S5.
  destruct H as [(_ & fs' & Hne & Ht & Hw & Hs)|(_ & es' & Hne & Ht & Hs)];
    cbn [rev app] in Ht; subst t; rewrite Hs.
  - rewrite print_struct, wf_struct. split; [norm_app; reflexivity|exact Hw].
  - rewrite print_enum_ty. split; [norm_app; reflexivity|].
    destruct es'; [contradiction|reflexivity].
Qed.

Lemma types_sound : forall fuel, S_type fuel /\ S_fields fuel.
Proof.
  induction fuel as [|f [IHt IHf]].
  { split; [intros F b r l H; lia|intros F m tf ef b r l H; lia]. }
  pose proof (types_total f) as [Tt Tf].
  split.
  - (* read_type *)
    intros F b r l Hf HF. rewrite read_type_S. cbn [cu lc].
    destruct r as [|x r1].
    + rewrite next_gc_nil. cbv beta iota zeta. rewrite backup_oc.
      unfold read_keyword, read_type_name. rewrite read_span_gc by exact HF.
      cbn [take_while drop_while rev app bind].
      rewrite read_span_gc by exact HF.
      cbn [take_while drop_while rev app bind cu lc].
      rewrite next_gc_nil. exact I.
    + rewrite next_gc_cons. cbv beta iota zeta. rewrite m63_91. cbn [length] in Hf, HF.
      destruct (N.eqb_spec x 63) as [->|N63]; [|destruct (N.eqb_spec x 91) as [->|N91]].
      * (* ?T *)
        eapply post_bind; [apply IHt; lia|].
        intros e s2 [St W]. destruct (is_maybe e) eqn:M; [exact I|]. cbn [post].
        split.
        -- rewrite (strip_byte 63) by reflexivity. rewrite St.
           cbn [print_ty]. norm_app. reflexivity.
        -- cbn [wf_ty]. rewrite M, W. reflexivity.
      * (* [...]T *)
        destruct (read_keyword_ex F (91 :: b) r1 l ltac:(lia)) as (w & r2 & E & Er & C & Len).
        rewrite E. cbn [bind cu lc].
        assert (Hcon : forall con : ty -> ty,
                  (forall e, print_ty (con e) = [91] ++ w ++ [93] ++ print_ty e) ->
                  (forall e, wf_ty (con e) = wf_ty e) ->
                  post (let (ch2, c3) := next (gc (rev w ++ 91 :: b) r2) in
                        match ch2 with
                        | Some 93 => do (e, s4) <- read_type f F (mkPst c3 l); ROk (con e) s4
                        | _ => RNil
                        end) (type_post (91 :: r1))).
        { intros con Hp Hw.
          destruct r2 as [|y r3]; [rewrite next_gc_nil; exact I|].
          rewrite next_gc_cons. cbv beta iota. rewrite m93. cbn [length] in Len.
          destruct (N.eqb_spec y 93) as [->|N93]; [|exact I].
          eapply post_bind; [apply IHt; lia|].
          intros e s4 [St W]. cbn [post]. split.
          - rewrite (strip_byte 91) by reflexivity.
            rewrite (word_strip _ _ _ Er C). rewrite (strip_byte 93) by reflexivity.
            rewrite St, Hp. norm_app. reflexivity.
          - rewrite Hw. exact W. }
        destruct (bytes_eqb w kw_string) eqn:Es.
        -- apply bytes_eqb_eq in Es. apply Hcon; [intro e; rewrite Es; reflexivity|reflexivity].
        -- destruct w as [|w0 w']; [|exact I].
           apply Hcon; [intro e; reflexivity|reflexivity].
      * (* keyword, alias or struct *)
        cbv beta iota. rewrite backup_gc_cons.
        destruct (read_keyword_ex F b (x :: r1) l ltac:(cbn [length]; lia))
          as (w & r2 & E & Er & C & Len).
        rewrite E. cbn [bind cu lc]. cbn [length] in Len.
        destruct w as [|w0 w'].
        -- cbn [app] in Er. subst r2. cbn [rev app].
           destruct (read_type_name_ex F b (x :: r1) l ltac:(cbn [length]; lia))
             as (w2 & r3 & E2 & Er2 & C2 & Len2).
           rewrite E2. cbn [bind cu lc]. cbn [length] in Len2.
           destruct w2 as [|n0 n'].
           ++ cbn [app] in Er2. subst r3. cbn [rev app].
              rewrite next_gc_cons. cbv beta iota. rewrite m40.
              destruct (N.eqb_spec x 40) as [->|N40]; [|exact I].
              destruct (advance_gc F (40 :: b) r1 l ltac:(lia)) as (b5 & r5 & l5 & E5 & L5 & S5).
              rewrite E5. cbn [bind cu lc].
              destruct r5 as [|y r6].
              ** rewrite next_gc_nil. cbv beta iota. rewrite backup_oc.
                 eapply post_mono; [apply IHf; cbn [length]; lia|].
                 intros t s' H. eapply fields_post_top; [exact H|exact S5].
              ** rewrite next_gc_cons. cbv beta iota. rewrite m41. cbn [length] in L5.
                 destruct (N.eqb_spec y 41) as [->|N41].
                 --- cbn [post]. unfold type_post. cbn [cu rest gc]. split; [|reflexivity].
                     rewrite (strip_byte 40) by reflexivity. rewrite S5.
                     rewrite (strip_byte 41) by reflexivity. reflexivity.
                 --- rewrite backup_gc_cons.
                     eapply post_mono; [apply IHf; cbn [length]; lia|].
                     intros t s' H. eapply fields_post_top; [exact H|exact S5].
           ++ cbn [post]. unfold type_post. cbn [cu rest gc print_ty wf_ty].
              split; [apply (word_strip _ _ _ Er2 C2)|reflexivity].
        -- destruct (builtin_of (w0 :: w')) as [t|] eqn:Eb; [|exact I].
           apply builtin_of_spec in Eb. destruct Eb as [Ep Ew].
           cbn [post]. unfold type_post. cbn [cu rest gc]. rewrite Ep.
           split; [apply (word_strip _ _ _ Er C)|exact Ew].
  - (* read_fields *)
    intros F m tf ef b r l Hf HF. rewrite read_fields_S.
    destruct (advance_gc F b r l HF) as (b1 & r1 & l1 & E1 & L1 & S1).
    rewrite E1. cbn [bind].
    destruct (read_field_name_ex F b1 r1 l1 ltac:(lia)) as (w & r2 & E2 & Er2 & C2 & Len2).
    rewrite E2. cbn [bind].
    destruct w as [|w0 w']; [exact I|]. cbn [length] in Len2.
    destruct (advance_gc F (rev (w0 :: w') ++ b1) r2 l1 ltac:(lia))
      as (b3 & r3 & l3 & E3 & L3 & S3).
    rewrite E3. cbn [bind cu lc].
    assert (Sname : strip r = (w0 :: w') ++ strip r3).
    { rewrite S1, (word_strip _ _ _ Er2 C2), S3. reflexivity. }
    (* a bare name: the enum case *)
    assert (Kbare : forall b4 r4, strip r3 = strip r4 -> (length r4 <= length r3)%nat ->
              m <> LTyped ->
              post (after_field f F LBare tf ((w0 :: w') :: ef) (mkPst (gc b4 r4) l3))
                   (fields_post m tf ef r)).
    { intros b4 r4 S4 L4 Hm.
      eapply post_mono; [apply after_field_sound; [exact IHf|lia|lia]|].
      intros t s' [(Hm' & _)|(_ & es' & Ht & Hs)]; [contradiction Hm'; reflexivity|].
      right. split; [exact Hm|]. exists ((w0 :: w') :: es').
      split; [discriminate|]. split.
      - rewrite Ht. cbn [rev]. rewrite <- app_assoc. reflexivity.
      - rewrite Sname, S4, Hs, print_enum_cons. norm_app. reflexivity. }
    destruct r3 as [|y r4].
    + rewrite next_gc_nil. cbv beta iota. rewrite backup_oc.
      destruct m; [|exact I|]; (apply Kbare; [reflexivity|lia|discriminate]).
    + rewrite next_gc_cons. cbv beta iota. rewrite m58. cbn [length] in L3.
      destruct (N.eqb_spec y 58) as [->|N58].
      * assert (K : m <> LBare ->
                    post (do (_, s5) <- advance F (mkPst (gc (58 :: b3) r4) l3);
                          do (ft, s6) <- read_type f F s5;
                          after_field f F LTyped ((w0 :: w', ft) :: tf) ef s6)
                         (fields_post m tf ef r)).
        { intro Hm.
          destruct (advance_gc F (58 :: b3) r4 l3 ltac:(lia)) as (b5 & r5 & l5 & E5 & L5 & S5).
          rewrite E5. cbn [bind].
          eapply post_bind;
            [apply post_and; [apply (Tt F b5 r5 l5); lia|apply (IHt F b5 r5 l5); lia]|].
          intros ft s6 [(b6 & r6 & l6 & -> & L6) [St W]]. cbn [cu rest gc] in St.
          eapply post_mono; [apply after_field_sound; [exact IHf|lia|lia]|].
          intros t s' [(_ & fs' & Ht & Hw & Hs)|(Hm' & _)]; [|contradiction Hm'; reflexivity].
          left. split; [exact Hm|]. exists ((w0 :: w', ft) :: fs').
          split; [discriminate|]. split; [|split].
          - rewrite Ht. cbn [rev]. rewrite <- app_assoc. reflexivity.
          - cbn [wf_fields]. rewrite W, Hw. reflexivity.
          - rewrite Sname, (strip_byte 58) by reflexivity.
            rewrite S5, St, Hs, print_fields_cons. norm_app. reflexivity. }
        destruct m; [apply K; discriminate|apply K; discriminate|exact I].
      * rewrite backup_gc_cons.
        destruct m; [|exact I|]; (apply Kbare; [reflexivity|cbn [length]; lia|discriminate]).
Qed.

Lemma read_type_sound : forall F b r l, (length r < F)%nat ->
  post (read_type F F (mkPst (gc b r) l))
       (fun t s' => gq (length r) s' /\ type_post r t s').
Proof.
  intros F b r l H. apply post_and.
  - apply read_type_total; exact H.
  - apply (proj1 (types_sound F)); exact H.
Qed.

(* ------------------------------------------------------------------ *)
(** * members *)

Definition member_kw (m : member) : bytes :=
  match m with MAlias _ _ _ => kw_type | MMethod _ _ _ _ => kw_method | MError _ _ _ => kw_error end.

Definition member_body (m : member) : bytes :=
  match m with
  | MAlias n _ t => n ++ print_ty t
  | MMethod n _ i o => n ++ print_ty i ++ [45; 62] ++ print_ty o
  | MError n _ None => n
  | MError n _ (Some t) => n ++ print_ty t
  end.

Lemma print_member_split : forall m, print_member m = member_kw m ++ member_body m.
Proof. intros [n d t|n d i o|n d [t|]]; reflexivity. Qed.

Definition member_post (kw : bytes) (r : bytes) (m : member) (s' : pst) : Prop :=
  strip r = member_body m ++ strip (rest (cu s')) /\ wf_member m = true /\ member_kw m = kw.

Definition member_reader_sound (reader : nat -> pst -> res member) (kw : bytes) (F : nat) : Prop :=
  forall b r l, (length r < F)%nat ->
    post (reader F (mkPst (gc b r) l)) (member_post kw r).

Lemma read_alias_sound : forall F, member_reader_sound read_alias kw_type F.
Proof.
  intros F b r l HF. unfold read_alias.
  destruct (advance_gc F b r l HF) as (b1 & r1 & l1 & E1 & L1 & S1).
  rewrite E1. cbn [bind lc].
  destruct (read_type_name_ex F b1 r1 l1 ltac:(lia)) as (w & r2 & E2 & Er2 & C2 & Len2).
  rewrite E2. cbn [bind].
  destruct w as [|w0 w']; [exact I|].
  destruct (advance_gc F (rev (w0 :: w') ++ b1) r2 l1 ltac:(lia))
    as (b3 & r3 & l3 & E3 & L3 & S3).
  rewrite E3. cbn [bind].
  eapply post_bind; [apply read_type_sound; lia|].
  intros t s4 [_ [St W]]. cbn [post]. unfold member_post. cbn [member_body wf_member member_kw].
  split; [|split; [exact W|reflexivity]].
  rewrite S1, (word_strip _ _ _ Er2 C2), S3, St. norm_app. reflexivity.
Qed.

Lemma read_method_sound : forall F, member_reader_sound read_method kw_method F.
Proof.
  intros F b r l HF. unfold read_method.
  destruct (advance_gc F b r l HF) as (b1 & r1 & l1 & E1 & L1 & S1).
  rewrite E1. cbn [bind lc].
  destruct (read_type_name_ex F b1 r1 l1 ltac:(lia)) as (w & r2 & E2 & Er2 & C2 & Len2).
  rewrite E2. cbn [bind].
  destruct w as [|w0 w']; [exact I|].
  destruct (advance_gc F (rev (w0 :: w') ++ b1) r2 l1 ltac:(lia))
    as (b3 & r3 & l3 & E3 & L3 & S3).
  rewrite E3. cbn [bind].
  eapply post_bind; [apply read_type_sound; lia|].
  intros tin s4 [(b4 & r4 & l4 & -> & L4) [St4 W4]]. cbn [cu rest gc] in St4.
  destruct (advance_gc F b4 r4 l4 ltac:(lia)) as (b5 & r5 & l5 & E5 & L5 & S5).
  rewrite E5. cbn [bind cu lc].
  destruct r5 as [|y r6].
  { rewrite next_gc_nil. destruct (next (oc b5)) as [two c7]. exact I. }
  rewrite next_gc_cons.
  destruct r6 as [|z r7].
  { rewrite next_gc_nil. cbv beta iota. rewrite m45. destruct (y =? 45); exact I. }
  rewrite next_gc_cons. cbv beta iota. rewrite m45.
  destruct (N.eqb_spec y 45) as [->|N45]; [|exact I].
  rewrite m62. destruct (N.eqb_spec z 62) as [->|N62]; [|exact I].
  cbn [length] in L5.
  destruct (advance_gc F (62 :: 45 :: b5) r7 l5 ltac:(lia)) as (b8 & r8 & l8 & E8 & L8 & S8).
  rewrite E8. cbn [bind].
  eapply post_bind; [apply read_type_sound; lia|].
  intros tout s9 [_ [St9 W9]]. cbn [post]. unfold member_post.
  cbn [member_body wf_member member_kw].
  split; [|split; [rewrite W4, W9; reflexivity|reflexivity]].
  rewrite S1, (word_strip _ _ _ Er2 C2), S3, St4, S5.
  rewrite (strip_byte 45) by reflexivity. rewrite (strip_byte 62) by reflexivity.
  rewrite S8, St9. norm_app. reflexivity.
Qed.

Lemma read_error_sound : forall F, member_reader_sound read_error kw_error F.
Proof.
  intros F b r l HF. unfold read_error.
  destruct (advance_gc F b r l HF) as (b1 & r1 & l1 & E1 & L1 & S1).
  rewrite E1. cbn [bind lc].
  destruct (read_type_name_ex F b1 r1 l1 ltac:(lia)) as (w & r2 & E2 & Er2 & C2 & Len2).
  rewrite E2. cbn [bind].
  destruct w as [|w0 w']; [exact I|].
  destruct (advance_gc F (rev (w0 :: w') ++ b1) r2 l1 ltac:(lia))
    as (b3 & r3 & l3 & E3 & L3 & S3).
  rewrite E3.
  pose proof (read_type_sound F b3 r3 l3 ltac:(lia)) as T.
  destruct (read_type F F (mkPst (gc b3 r3) l3)) as [t s4| | |]; cbn [post] in T |- *.
  - destruct T as [_ [St W]]. unfold member_post. cbn [member_body wf_member member_kw].
    split; [|split; [exact W|reflexivity]].
    rewrite S1, (word_strip _ _ _ Er2 C2), S3, St. norm_app. reflexivity.
  - unfold member_post. cbn [member_body wf_member member_kw cu rest gc].
    split; [|split; reflexivity].
    rewrite S1. apply (word_strip _ _ _ Er2 C2).
  - contradiction.
  - contradiction.
Qed.

Lemma existsb_bytes_In : forall x l, existsb (bytes_eqb x) l = true <-> In x l.
Proof.
  intros x l. rewrite existsb_exists. split.
  - intros (y & Hy & E). apply bytes_eqb_eq in E. subst y. exact Hy.
  - intro H. exists x. split; [exact H|apply bytes_eqb_refl].
Qed.

Lemma nodup_bytes_NoDup : forall l, NoDup l -> nodup_bytes l = true.
Proof.
  induction l as [|x l IH]; intro H; [reflexivity|].
  inversion H as [|x' l' Hx Hl]; subst. cbn [nodup_bytes].
  rewrite IH by exact Hl.
  destruct (existsb (bytes_eqb x) l) eqn:E; [|reflexivity].
  apply existsb_bytes_In in E. contradiction.
Qed.

Definition members_post (seen : list bytes) (acc : list member) (r : bytes)
    (ms : list member) (s' : pst) : Prop :=
  exists ms', ms = rev acc ++ ms'
    /\ strip r = concat_bytes (map print_member ms')
    /\ forallb wf_member ms' = true
    /\ NoDup (map member_name ms')
    /\ (forall n, In n (map member_name ms') -> ~ In n seen).

Lemma read_members_sound : forall fuel F seen acc b r l,
  (length r < fuel)%nat -> (length r < F)%nat ->
  post (read_members fuel F seen acc (mkPst (gc b r) l)) (members_post seen acc r).
Proof.
  induction fuel as [|f IH]; intros F seen acc b r l Hf HF; [lia|].
  rewrite read_members_S.
  destruct (advance_gc F b r l HF) as (b1 & r1 & l1 & E1 & L1 & S1).
  rewrite E1. cbn [bind cu]. rewrite has_more_gc.
  destruct r1 as [|x r1'].
  { cbn [post]. exists []. rewrite app_nil_r. split; [reflexivity|].
    split; [rewrite S1; reflexivity|]. split; [reflexivity|].
    split; [constructor|]. intros n [].
  }
  destruct (read_keyword_ex F b1 (x :: r1') l1 ltac:(lia)) as (w & r2 & E2 & Er2 & C2 & Len2).
  rewrite E2. cbn [bind].
  destruct w as [|w0 w']; [exact I|]. cbn [length] in Len2, L1.
  assert (K : forall reader, member_reader_total reader F ->
            member_reader_sound reader (w0 :: w') F ->
            post (do (m, s3) <- reader F (mkPst (gc (rev (w0 :: w') ++ b1) r2) l1);
                  if existsb (bytes_eqb (member_name m)) seen then RNil
                  else read_members f F (member_name m :: seen) (m :: acc) s3)
                 (members_post seen acc r)).
  { intros reader HT HR.
    eapply post_bind; [apply post_and; [apply HT; lia|apply HR; lia]|].
    intros m s3 [(b3 & r3 & l3 & -> & L3) (St & W & Kw)]. cbn [cu rest gc] in St.
    destruct (existsb (bytes_eqb (member_name m)) seen) eqn:Ex; [exact I|].
    eapply post_mono; [apply IH; lia|].
    intros ms s' (ms' & Hms & Hs & Hw & Hnd & Hseen).
    exists (m :: ms'). split; [|split; [|split; [|split]]].
    - rewrite Hms. cbn [rev]. rewrite <- app_assoc. reflexivity.
    - cbn [map concat_bytes]. rewrite print_member_split, Kw.
      rewrite S1, (word_strip _ _ _ Er2 C2), St, Hs. norm_app. reflexivity.
    - cbn [forallb]. rewrite W, Hw. reflexivity.
    - cbn [map]. constructor; [|exact Hnd].
      intro Hin. apply (Hseen _ Hin). left. reflexivity.
    - cbn [map]. intros n [<-|Hin] Hs'.
      + apply existsb_bytes_In in Hs'. rewrite Hs' in Ex. discriminate.
      + apply (Hseen _ Hin). right. exact Hs'. }
  destruct (bytes_eqb (w0 :: w') kw_type) eqn:Et.
  { apply bytes_eqb_eq in Et. rewrite Et in *. apply K; [apply read_alias_total|apply read_alias_sound]. }
  destruct (bytes_eqb (w0 :: w') kw_method) eqn:Em.
  { apply bytes_eqb_eq in Em. rewrite Em in *. apply K; [apply read_method_total|apply read_method_sound]. }
  destruct (bytes_eqb (w0 :: w') kw_error) eqn:Ee.
  { apply bytes_eqb_eq in Ee. rewrite Ee in *. apply K; [apply read_error_total|apply read_error_sound]. }
  exact I.
Qed.

(* ------------------------------------------------------------------ *)
(** * parse *)

Lemma presult_ok_post : forall (r : res idl) (Q : idl -> pst -> Prop) d,
  post r Q ->
  match r with ROk t _ => POk t | RNil => PErr | RPanic => PPanic | RFuel => PFuel end = POk d ->
  exists s', Q d s'.
Proof.
  intros r Q d H E. destruct r as [t s'| | |]; try discriminate.
  inversion E; subst. exists s'. exact H.
Qed.

Theorem parse_sound : forall (s : bytes) (d : idl), parse s = POk d ->
  strip s = strip (print_idl d) /\ wf_liberal d = true /\ i_descr d = s.
Proof.
  intros s d H. unfold parse in H. cbv zeta in H.
  cut (exists s' : pst, strip s = print_idl d /\ wf_liberal d = true /\ i_descr d = s).
  { intros (_ & Hs & Hw & Hd). split; [|split; assumption].
    rewrite <- Hs. symmetry. apply strip_idem. }
  revert H.
  apply (presult_ok_post _ (fun d _ => strip s = print_idl d /\ wf_liberal d = true /\ i_descr d = s)).
  unfold cur_init. change (mkCur [] s 0 0) with (gc [] s).
  set (F := S (S (length s))).
  assert (HF : (length s < F)%nat) by (unfold F; lia).
  destruct (advance_gc F [] s [] HF) as (b1 & r1 & l1 & E1 & L1 & S1).
  rewrite E1. cbn [bind].
  destruct (read_keyword_ex F b1 r1 l1 ltac:(lia)) as (w & r2 & E2 & Er2 & C2 & Len2).
  rewrite E2. cbn [bind].
  destruct (bytes_eqb w kw_interface) eqn:Ei; [|exact I].
  apply bytes_eqb_eq in Ei.
  destruct (advance_gc F (rev w ++ b1) r2 l1 ltac:(lia)) as (b3 & r3 & l3 & E3 & L3 & S3).
  rewrite E3. cbn [bind lc].
  destruct (read_interface_name_ex b3 r3 l3) as (n & r4 & E4 & Er4 & C4 & Len4).
  rewrite E4. cbn [bind].
  destruct n as [|n0 n']; [exact I|].
  eapply post_bind; [apply (read_members_sound F F); lia|].
  intros ms s5 (ms' & Hms & Hs & Hw & Hnd & _). cbn [rev app] in Hms. subst ms'.
  destruct (existsb is_method ms) eqn:Em; [|exact I].
  cbn [post]. split; [|split; [|reflexivity]].
  - unfold print_idl. cbn [i_name i_members].
    rewrite S1, (word_strip _ _ _ Er2 C2), S3, (word_strip _ _ _ Er4 C4), Hs, Ei.
    reflexivity.
  - unfold wf_liberal. cbn [i_members].
    rewrite (nodup_bytes_NoDup _ Hnd), Em, Hw. reflexivity.
Qed.

Print Assumptions parse_sound.
