(* Proofs/RaceProofs.v — the protocol arguments behind the lock discipline of C16. *)
From VL Require Import Bytes Lifecycle LifeProofsA.
From Coq Require Import Lia.
Open Scope nat_scope.

(* RegisterInterface writes the registry only in a critical section that observes conncounter = 0
   (and running = false): in every reachable state that means no handler goroutine is live, so no
   handler can be reading the registry; and a handler that starts later does so only after the
   serving call's locked increment of the counter, i.e. after that critical section. *)
Theorem register_guard_excludes_handlers : forall s, wreach s -> conncounter s = 0 -> live s = 0.
Proof. intros s H Hc. pose proof (I1_counter s H) as E. lia. Qed.
Print Assumptions register_guard_excludes_handlers.

Theorem handler_start_follows_increment : forall s c, wreach s -> serve s = SSpawn c -> 1 <= conncounter s.
Proof. intros s c H Hs. pose proof (I1_counter s H) as E. rewrite Hs in E. cbn [inflight_counter] in E. lia. Qed.
Print Assumptions handler_start_follows_increment.

