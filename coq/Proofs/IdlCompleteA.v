(* Proofs/IdlCompleteA.v — completeness of the IDL parser model, part A:
   layout.  Exact behaviour of [advance] on gaps, comments, final gaps and
   documentation blocks. *)
From VL Require Import Bytes Lit Idl IdlGrammar IdlCursor.
From Coq Require Import Lia ZArith.
Open Scope N_scope.

(* bytes on which [advance] does not stop *)
Definition is_gapb (c : N) : bool := (c =? LF) || is_blank c || (c =? HASH).
Definition stop (k : bytes) : bool :=
  match k with [] => true | c :: _ => negb (is_gapb c) end.

Lemma hash_lf : (HASH =? LF) = false. Proof. reflexivity. Qed.
Lemma hash_blank : ((HASH =? SP) || (HASH =? TAB) || (HASH =? CR)) = false.
Proof. reflexivity. Qed.
Lemma lf_sp : (LF =? SP) = false. Proof. reflexivity. Qed.

Lemma blank_not_lf : forall x, is_blank x = true -> (x =? LF) = false.
Proof.
  intros x H. unfold is_blank in H.
  destruct (N.eqb_spec x SP) as [E|_]; [rewrite E; reflexivity|].
  destruct (N.eqb_spec x TAB) as [E|_]; [rewrite E; reflexivity|].
  destruct (N.eqb_spec x CR) as [E|_]; [rewrite E; reflexivity|discriminate].
Qed.

Lemma advance_lf : forall f b r l,
  advance (S f) (mkPst (gc b (LF :: r)) l) = advance f (mkPst (gc (LF :: b) r) []).
Proof.
  intros f b r l. rewrite advance_S. cbn [cu lc]. rewrite next_gc_cons.
  cbv beta iota. rewrite N.eqb_refl. reflexivity.
Qed.

Lemma advance_blank : forall f b x r l, is_blank x = true ->
  advance (S f) (mkPst (gc b (x :: r)) l) = advance f (mkPst (gc (x :: b) r) l).
Proof.
  intros f b x r l H. rewrite advance_S. cbn [cu lc]. rewrite next_gc_cons.
  cbv beta iota. rewrite (blank_not_lf x H). unfold is_blank in H. rewrite H.
  reflexivity.
Qed.

Lemma advance_stop : forall f b k l, stop k = true ->
  advance (S f) (mkPst (gc b k) l) = ROk tt (mkPst (gc b k) l).
Proof.
  intros f b k l H. rewrite advance_S. cbn [cu lc]. destruct k as [|x r].
  - rewrite next_gc_nil. cbv beta iota. rewrite backup_oc. reflexivity.
  - rewrite next_gc_cons. cbv beta iota. cbn [stop] in H.
    unfold is_gapb, is_blank in H. apply negb_true_iff in H.
    apply orb_false_iff in H. destruct H as [H H3].
    apply orb_false_iff in H. destruct H as [H1 H2].
    rewrite H1, H2, H3. rewrite backup_gc_cons. reflexivity.
Qed.

Lemma tw_nolf : forall txt r, no_lf txt ->
  take_while not_lf (txt ++ LF :: r) = txt /\ drop_while not_lf (txt ++ LF :: r) = LF :: r.
Proof.
  intros txt r H. induction H as [|c t Hc Ht [IH1 IH2]].
  - cbn. split; reflexivity.
  - cbn [app take_while drop_while]. unfold not_lf at 1 3.
    destruct (N.eqb_spec c LF) as [E|_]; [contradiction|]. cbn [negb].
    rewrite IH1, IH2. split; reflexivity.
Qed.

Lemma tw_nolf_end : forall txt, no_lf txt ->
  take_while not_lf txt = txt /\ drop_while not_lf txt = [].
Proof.
  intros txt H. induction H as [|c t Hc Ht [IH1 IH2]].
  - cbn. split; reflexivity.
  - cbn [take_while drop_while]. unfold not_lf at 1 3.
    destruct (N.eqb_spec c LF) as [E|_]; [contradiction|]. cbn [negb].
    rewrite IH1, IH2. split; reflexivity.
Qed.

(* the body of the comment branch, once the optional blank has been skipped *)
Lemma comment_tail : forall fuel f b3 w r l, no_lf w ->
  (length (w ++ LF :: r) < fuel)%nat ->
  match scan_while not_lf fuel (gc b3 (w ++ LF :: r)) with
  | None => RFuel
  | Some c4 =>
    match slice (N.of_nat (length b3)) c4 with
    | None => RPanic
    | Some txt =>
      let c5 := if has_more c4 then snd (next c4) else c4 in
      advance f (mkPst c5 (lc_append l txt))
    end
  end = advance f (mkPst (gc (LF :: rev w ++ b3) r) (lc_append l w)).
Proof.
  intros fuel f b3 w r l Hw Hl. rewrite scan_while_gc by exact Hl.
  destruct (tw_nolf w r Hw) as [E1 E2]. rewrite E1, E2. rewrite slice_gc.
  rewrite has_more_gc. cbv zeta. rewrite next_gc_cons. reflexivity.
Qed.

Lemma comment_tail_end : forall fuel f b3 w l, no_lf w ->
  (length w < fuel)%nat ->
  match scan_while not_lf fuel (gc b3 w) with
  | None => RFuel
  | Some c4 =>
    match slice (N.of_nat (length b3)) c4 with
    | None => RPanic
    | Some txt =>
      let c5 := if has_more c4 then snd (next c4) else c4 in
      advance f (mkPst c5 (lc_append l txt))
    end
  end = advance f (mkPst (gc (rev w ++ b3) []) (lc_append l w)).
Proof.
  intros fuel f b3 w l Hw Hl. rewrite scan_while_gc by exact Hl.
  destruct (tw_nolf_end w Hw) as [E1 E2]. rewrite E1, E2. rewrite slice_gc.
  rewrite has_more_gc. reflexivity.
Qed.

Lemma advance_hash : forall f b r l,
  advance (S f) (mkPst (gc b (HASH :: r)) l) =
    let (ch2, c2) := next (gc (HASH :: b) r) in
    let c3 := match ch2 with
              | Some y => if y =? SP then c2 else backup c2
              | None => backup c2
              end in
    let start := pos c3 in
    match scan_while not_lf (S f) c3 with
    | None => RFuel
    | Some c4 =>
      match slice start c4 with
      | None => RPanic
      | Some txt =>
        let c5 := if has_more c4 then snd (next c4) else c4 in
        advance f (mkPst c5 (lc_append l txt))
      end
    end.
Proof.
  intros f b r l. rewrite advance_S. cbn [cu lc]. rewrite next_gc_cons.
  cbv beta iota. rewrite hash_lf, hash_blank, N.eqb_refl. reflexivity.
Qed.

Lemma advance_comment : forall f b txt r l, no_lf txt ->
  (length (txt ++ LF :: r) < S f)%nat ->
  advance (S f) (mkPst (gc b (HASH :: txt ++ LF :: r)) l)
  = advance f (mkPst (gc (LF :: rev txt ++ HASH :: b) r) (lc_append l (comment_text txt))).
Proof.
  intros f b txt r l Ht Hl. rewrite advance_hash.
  destruct txt as [|y t].
  - cbn [app]. rewrite next_gc_cons. cbv beta iota zeta. rewrite lf_sp.
    rewrite backup_gc_cons, pos_gc.
    apply (comment_tail (S f) f (HASH :: b) [] r l); [constructor|exact Hl].
  - cbn [app]. rewrite next_gc_cons. cbv beta iota zeta.
    inversion Ht as [|y' t' Hy Ht']; subst.
    cbn [comment_text]. destruct (y =? SP) eqn:Ey.
    + rewrite pos_gc.
      etransitivity;
        [apply (comment_tail (S f) f (y :: HASH :: b) t r l Ht'); cbn [app length] in Hl; lia|].
      cbn [rev]. rewrite <- app_assoc. reflexivity.
    + rewrite backup_gc_cons, pos_gc.
      apply (comment_tail (S f) f (HASH :: b) (y :: t) r l Ht Hl).
Qed.

Lemma advance_comment_end : forall f b txt l, no_lf txt ->
  (length txt < S f)%nat ->
  advance (S f) (mkPst (gc b (HASH :: txt)) l)
  = advance f (mkPst (gc (rev txt ++ HASH :: b) []) (lc_append l (comment_text txt))).
Proof.
  intros f b txt l Ht Hl. rewrite advance_hash.
  destruct txt as [|y t].
  - rewrite next_gc_nil. cbv beta iota zeta. rewrite backup_oc, pos_gc.
    apply (comment_tail_end (S f) f (HASH :: b) [] l); [constructor|exact Hl].
  - rewrite next_gc_cons. cbv beta iota zeta.
    inversion Ht as [|y' t' Hy Ht']; subst.
    cbn [comment_text]. destruct (y =? SP) eqn:Ey.
    + rewrite pos_gc.
      etransitivity;
        [apply (comment_tail_end (S f) f (y :: HASH :: b) t l Ht'); cbn [length] in Hl; lia|].
      cbn [rev]. rewrite <- app_assoc. reflexivity.
    + rewrite backup_gc_cons, pos_gc.
      apply (comment_tail_end (S f) f (HASH :: b) (y :: t) l Ht Hl).
Qed.

(* ---- gaps ---- *)
Lemma gap_item_len : forall i, gap_item i -> (1 <= length i)%nat.
Proof. intros i H. destruct H; cbn [length]; lia. Qed.

Lemma advance_gap_item : forall i, gap_item i -> forall f b r l,
  (length (i ++ r) < S f)%nat ->
  exists l', advance (S f) (mkPst (gc b (i ++ r)) l)
             = advance f (mkPst (gc (rev i ++ b) r) l').
Proof.
  intros i H f b r l Hl. destruct H as [| | | |txt Ht].
  - exists l. apply advance_blank. reflexivity.
  - exists l. apply advance_blank. reflexivity.
  - exists l. apply advance_blank. reflexivity.
  - exists []. apply advance_lf.
  - exists (lc_append l (comment_text txt)).
    cbn [app]. rewrite <- app_assoc. cbn [app].
    rewrite advance_comment; [|exact Ht|].
    + cbn [rev]. rewrite rev_app_distr. cbn [rev app]. rewrite <- app_assoc. reflexivity.
    + cbn [app length] in Hl. rewrite <- app_assoc in Hl. cbn [app] in Hl. lia.
Qed.

Lemma advance_gap : forall g, gap g -> forall F b k l,
  stop k = true -> (length (g ++ k) < F)%nat ->
  exists l', advance F (mkPst (gc b (g ++ k)) l) = ROk tt (mkPst (gc (rev g ++ b) k) l').
Proof.
  intros g H. induction H as [|i g Hi Hg IH]; intros F b k l Hk Hl.
  - destruct F as [|f]; [lia|]. exists l. apply advance_stop. exact Hk.
  - destruct F as [|f]; [lia|]. rewrite <- app_assoc in Hl |- *.
    destruct (advance_gap_item i Hi f b (g ++ k) l Hl) as [l1 E1]. rewrite E1.
    pose proof (gap_item_len i Hi) as Li. rewrite app_length in Hl.
    destruct (IH f (rev i ++ b) k l1 Hk ltac:(lia)) as [l' E]. exists l'.
    rewrite E, rev_app_distr, <- app_assoc. reflexivity.
Qed.

Lemma advance_blanks_keep_comment : forall g F b k l,
  forallb is_blank g = true -> stop k = true -> (length (g ++ k) < F)%nat ->
  advance F (mkPst (gc b (g ++ k)) l) = ROk tt (mkPst (gc (rev g ++ b) k) l).
Proof.
  induction g as [|x g IH]; intros F b k l Hg Hk Hl.
  - destruct F as [|f]; [lia|]. apply advance_stop. exact Hk.
  - destruct F as [|f]; [lia|]. cbn [forallb] in Hg. apply andb_true_iff in Hg.
    destruct Hg as [Hx Hg]. cbn [app]. rewrite advance_blank by exact Hx.
    cbn [app length] in Hl. rewrite IH; [|exact Hg|exact Hk|lia].
    cbn [rev]. rewrite <- app_assoc. reflexivity.
Qed.

Lemma gap_app : forall g1 g2, gap g1 -> gap g2 -> gap (g1 ++ g2).
Proof.
  intros g1 g2 H1 H2. induction H1 as [|i g Hi Hg IH]; [exact H2|].
  rewrite <- app_assoc. constructor; assumption.
Qed.

Lemma gap_head : forall g, gap g ->
  match g with [] => True | c :: _ => is_gapb c = true end.
Proof.
  intros g H. induction H as [|i g Hi Hg IH]; [exact I|].
  destruct Hi; cbn [app]; reflexivity.
Qed.

Lemma gap_stop_nil : forall g, gap g -> stop g = true -> g = [].
Proof.
  intros g H S. apply gap_head in H. destruct g as [|c r]; [reflexivity|].
  cbn [stop] in S. rewrite H in S. discriminate.
Qed.

(* the final gap, at the very end of the input *)
Lemma advance_final_gap : forall g, final_gap g -> forall F b l,
  (S (length g) < F)%nat ->
  exists l', advance F (mkPst (gc b g) l) = ROk tt (mkPst (gc (rev g ++ b) []) l').
Proof.
  intros g H F b l Hl. destruct H as [g Hg|g txt Hg Ht].
  - destruct (advance_gap g Hg F b [] l eq_refl) as [l' E].
    + rewrite app_nil_r. lia.
    + rewrite app_nil_r in E. exists l'. exact E.
  - (* run the gap with the comment as (non-stopping) continuation by hand *)
    revert F b l Hl. induction Hg as [|i g Hi Hg IH]; intros F b l Hl.
    + cbn [app] in *. destruct F as [|[|f]]; [lia|lia|]. cbn [length] in Hl.
      rewrite advance_comment_end; [|exact Ht|lia].
      rewrite advance_stop by reflexivity. eexists.
      cbn [rev]. rewrite <- app_assoc. reflexivity.
    + destruct F as [|f]; [lia|]. rewrite <- app_assoc in Hl |- *.
      destruct (advance_gap_item i Hi f b (g ++ HASH :: txt) l ltac:(lia)) as [l1 E1].
      rewrite E1. pose proof (gap_item_len i Hi) as Li. rewrite app_length in Hl.
      destruct (IH f (rev i ++ b) l1 ltac:(lia)) as [l' E]. exists l'.
      rewrite E, (rev_app_distr i (g ++ HASH :: txt)), <- app_assoc. reflexivity.
Qed.

(* ---- documentation blocks ---- *)
Lemma advance_blanks_steps : forall g f b r l, forallb is_blank g = true ->
  advance (length g + f) (mkPst (gc b (g ++ r)) l) = advance f (mkPst (gc (rev g ++ b) r) l).
Proof.
  induction g as [|x g IH]; intros f b r l Hg; [reflexivity|].
  cbn [forallb] in Hg. apply andb_true_iff in Hg. destruct Hg as [Hx Hg].
  cbn [length app Nat.add]. rewrite advance_blank by exact Hx. rewrite IH by exact Hg.
  cbn [rev]. rewrite <- app_assoc. reflexivity.
Qed.

Definition line_texts (lines : list (bytes * bytes)) : list bytes :=
  map (fun l => comment_text (snd l)) lines.

Lemma advance_block : forall lines, block_ok lines -> forall F b r l,
  (length (render_block lines ++ r) < F)%nat ->
  exists F' b', (length r < F')%nat /\
    advance F (mkPst (gc b (render_block lines ++ r)) l)
    = advance F' (mkPst (gc b' r) (fold_left lc_append (line_texts lines) l)).
Proof.
  intros lines H. induction H as [|[ind raw] lines [Hi Hr] Hrest IH]; intros F b r l Hl.
  - exists F, b. split; [exact Hl|reflexivity].
  - cbn [fst snd] in Hi, Hr. cbn [render_block line_texts map fold_left snd] in *.
    rewrite <- app_assoc in Hl |- *. cbn [app] in Hl |- *.
    rewrite <- app_assoc in Hl |- *. cbn [app] in Hl |- *.
    rewrite app_length in Hl. cbn [length] in Hl. rewrite app_length in Hl. cbn [length] in Hl.
    replace F with (length ind + S (F - length ind - 1))%nat by lia.
    rewrite advance_blanks_steps by exact Hi.
    rewrite advance_comment; [|exact Hr|rewrite app_length; cbn [length]; lia].
    destruct (IH (F - length ind - 1)%nat (LF :: rev raw ++ HASH :: rev ind ++ b) r
                 (lc_append l (comment_text raw)) ltac:(lia)) as (F' & b' & L' & E).
    exists F', b'. split; [exact L'|exact E].
Qed.

Lemma join_lf_cons2 : forall x t ts,
  join_lf ((x ++ LF :: t) :: ts) = x ++ [LF] ++ join_lf (t :: ts).
Proof.
  intros x t ts. destruct ts as [|u ts']; cbn [join_lf app].
  - reflexivity.
  - rewrite <- app_assoc. reflexivity.
Qed.

Lemma fold_lc_nonempty : forall ts x, x <> [] ->
  fold_left lc_append ts x = join_lf (x :: ts).
Proof.
  induction ts as [|t ts IH]; intros x Hx; [reflexivity|].
  cbn [fold_left]. destruct x as [|c x']; [contradiction|].
  cbn [lc_append]. change ((c :: x') ++ [LF] ++ t) with ((c :: x') ++ LF :: t).
  rewrite IH; [|discriminate]. rewrite join_lf_cons2.
  cbn [join_lf app]. reflexivity.
Qed.

Lemma fold_lc_empty : forall ts, fold_left lc_append ts [] = join_lf (drop_empty ts).
Proof.
  induction ts as [|t ts IH]; [reflexivity|].
  cbn [fold_left lc_append]. destruct t as [|c t']; [exact IH|].
  cbn [drop_empty]. apply fold_lc_nonempty. discriminate.
Qed.

Lemma doc_block_core : forall lines ind k F lc0 bef0,
  block_ok lines -> forallb is_blank ind = true -> stop k = true ->
  (length (LF :: render_block lines ++ ind ++ k) < F)%nat ->
  exists b', advance F (mkPst (gc bef0 (LF :: render_block lines ++ ind ++ k)) lc0)
             = ROk tt (mkPst (gc b' k) (doc_of lines)).
Proof.
  intros lines ind k F lc0 bef0 Hb Hi Hk Hl.
  destruct F as [|f]; [lia|]. cbn [length] in Hl. rewrite advance_lf.
  destruct (advance_block lines Hb f (LF :: bef0) (ind ++ k) [] ltac:(lia))
    as (F' & b' & L' & E).
  rewrite E. rewrite advance_blanks_keep_comment; [|exact Hi|exact Hk|exact L'].
  exists (rev ind ++ b'). rewrite fold_lc_empty. reflexivity.
Qed.
