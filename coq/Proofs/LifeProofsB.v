(* Proofs/LifeProofsB.v — safety of the outcomes of a serving call (Model/Lifecycle.v). *)
From VL Require Import Bytes Lifecycle LifeProofsA.
Open Scope nat_scope.

(* ================= timeout ================= *)
Theorem timeout_only_when_idle : forall s s', lstep s LServe = Some s' -> serve s = STimeout ->
  serve s' = STeardown RTimeoutErr -> conncounter s = 0.
Proof.
  intros s s' H Es Es'. simpl in H. rewrite Es in H.
  destruct (Nat.eqb_spec (conncounter s) 0) as [E|E]; auto.
  inversion H; subst s'. simpl in Es'. discriminate.
Qed.
Print Assumptions timeout_only_when_idle.

Theorem never_while_open : forall s s', lstep s LServe = Some s' -> serve s = STimeout ->
  conncounter s > 0 -> serve s' = SLoopHead.
Proof.
  intros s s' H Es Hc. simpl in H. rewrite Es in H.
  destruct (Nat.eqb_spec (conncounter s) 0) as [E|E]; [lia|].
  inversion H; subst s'. reflexivity.
Qed.
Print Assumptions never_while_open.

(* with I1: when the idle timeout fires, no handler exists and no accepted connection is open or in hand *)
Theorem timeout_no_open_connection : forall s s', wreach s -> lstep s LServe = Some s' -> serve s = STimeout ->
  serve s' = STeardown RTimeoutErr ->
  live s = 0 /\ wg s = 0 /\
  forall c, conn_st s c <> CServed /\ conn_st s c <> CHeld /\ conn_st s c <> CEnded.
Proof.
  intros s s' Hw H Es Es'. pose proof (timeout_only_when_idle _ _ H Es Es') as Hc.
  pose proof (I1_counter _ Hw) as H1. pose proof (I1_wg _ Hw) as H2. rewrite Es in H1, H2. simpl in H1, H2.
  assert (Hl : live s = 0) by lia. split; [auto|]. split; [lia|].
  intro c. unfold conn_st.
  destruct (Nat.lt_ge_cases c (length (conns s))) as [L|L].
  - unfold live in Hl. pose proof (count_live_zero _ _ _ Hl c L) as Hz. rewrite Es in Hz. simpl in Hz.
    destruct (in_hand s c Hw) as [_ Hh]. unfold conn_st in Hh. rewrite Es in Hh. simpl in Hh.
    repeat split; intro E; rewrite E in *; try discriminate. specialize (Hh eq_refl). discriminate.
  - rewrite nth_overflow by auto. repeat split; discriminate.
Qed.
Print Assumptions timeout_no_open_connection.

Theorem open_blocks_timeout : forall s s' c, wreach s -> serve s = STimeout -> conn_st s c = CServed ->
  lstep s LServe = Some s' -> serve s' = SLoopHead.
Proof.
  intros s s' c Hw Es Hc H. simpl in H. rewrite Es in H.
  destruct (Nat.eqb_spec (conncounter s) 0) as [E|E]; [|inversion H; reflexivity].
  exfalso. assert (Hs : lstep s LServe = Some (upd_serve s (STeardown RTimeoutErr))).
  { simpl. rewrite Es. rewrite E. reflexivity. }
  destruct (timeout_no_open_connection s _ Hw Hs Es eq_refl) as [_ [_ Hn]].
  destruct (Hn c) as [Hn1 _]. contradiction.
Qed.
Print Assumptions open_blocks_timeout.

(* ================= no timeout configured ================= *)
Theorem expire_needs_timeout : forall s s', lstep s LExpire = Some s' ->
  tmo s = true /\ serve s = SAccept /\ serve s' = STimeout /\
  exists i, listener s = Some i /\ oopen (objs s) i = true.
Proof.
  intros s s' H. simpl in H. destruct (serve s) eqn:Es; try discriminate.
  unfold cur_obj in H. destruct (listener s) as [i|] eqn:El; try discriminate.
  destruct (tmo s) eqn:Et; simpl in H; try discriminate.
  destruct (lo_open (get_obj s i)) eqn:Eo; try discriminate.
  inversion H; subst s'. repeat split; auto. exists i. auto.
Qed.
Print Assumptions expire_needs_timeout.

Theorem no_timeout_never_stops : forall s l s', serve s = SAccept -> tmo s = false -> lstep s l = Some s' ->
  serve s' = SAccept \/ l = LAcceptConn \/ (l = LAcceptClosed /\ no_open_cur s).
Proof.
  intros s l s' Es Et H. destruct l; simpl in H; rewrite ?Es in H; try discriminate; auto.
  - destruct (running s); [|destruct ok]; inversion H; subst; auto.
  - right. right. split; auto. unfold cur_obj, no_open_cur in *. destruct (listener s) as [i|]; [|discriminate].
    intros j E. inversion E; subst j. destruct (lo_open (get_obj s i)) eqn:Eo; [discriminate|exact Eo].
  - unfold cur_obj in H. destruct (listener s); [|discriminate]. rewrite Et in H. simpl in H. discriminate.
  - destruct (listener s) as [i|].
    + change (close_obj s i) with (set_nth i dobj (objs s), drop_all (qof (objs s) i) (conns s)) in H.
      cbv beta iota in H. inversion H; subst; auto.
    + inversion H; subst; auto.
  - destruct (listener s) as [i|]; [destruct (lo_open _)|]; inversion H; subst; auto.
  - destruct (conn_st s c); try discriminate; inversion H; subst; auto.
  - destruct (conn_st s c); try discriminate; inversion H; subst; auto.
Qed.
Print Assumptions no_timeout_never_stops.

(* ================= how one step changes the endpoint ================= *)
Definition is_binding (l : label) : Prop := l = LBind true \/ exists t, l = LStartListen true t.
Definition is_closing (s : lstate) (l : label) : Prop :=
  l = LShutdown \/ (l = LServe /\ exists r, serve s = STeardown r).

Definition objs_change (s : lstate) (l : label) (s' : lstate) : Prop :=
  (objs s' = objs s /\ listener s' = listener s)
  \/ (objs s' = objs s ++ [mkLobj true []] /\ listener s' = Some (length (objs s)) /\ is_binding l /\ running s = false)
  \/ (exists i q, listener s = Some i /\ oopen (objs s) i = true /\
                  objs s' = set_nth i (mkLobj true q) (objs s) /\ listener s' = Some i)
  \/ (exists i, listener s = Some i /\ objs s' = set_nth i dobj (objs s) /\ is_closing s l /\
                (listener s' = Some i \/ listener s' = None))
  \/ (listener s = None /\ listener s' = None /\ objs s' = objs s).

Lemma objs_step : forall s l s', lstep s l = Some s' -> objs_change s l s'.
Proof.
  intros s l s' H. unfold objs_change, is_binding, is_closing. destruct l; simpl in H.
  - destruct (running s) eqn:Er; [|destruct ok]; inversion H; subst; fields; auto.
    right. left. auto.
  - destruct (serve s); inversion H; subst; auto.
  - destruct (serve s); try discriminate. destruct (running s) eqn:Er; [|destruct ok]; inversion H; subst; fields; auto.
    right. left. repeat split; auto. right. eauto.
  - destruct (serve s) eqn:Es; try discriminate; unfold upd_serve, cur_obj in H.
    + destruct (listener s); inversion H; subst; auto.
    + inversion H; subst; auto.
    + destruct (running s); inversion H; subst; auto.
    + destruct (listener s); [destruct (lo_open _)|]; inversion H; subst; auto.
    + destruct (Nat.eqb _ _); inversion H; subst; auto.
    + destruct (running s); inversion H; subst; auto.
    + inversion H; subst; auto.
    + inversion H; subst; auto.
    + inversion H; subst; auto.
    + destruct (listener s) as [i|] eqn:El.
      * change (close_obj s i) with (set_nth i dobj (objs s), drop_all (qof (objs s) i) (conns s)) in H.
        cbv beta iota in H. inversion H; subst; fields. right. right. right. left. exists i.
        repeat split; auto. right. split; eauto.
      * inversion H; subst; fields. right. right. right. right. auto.
    + destruct (Nat.eqb _ _); inversion H; subst; auto.
  - destruct (serve s); try discriminate. destruct (listener s) as [i|] eqn:El; try discriminate.
    destruct (lo_open (get_obj s i)) eqn:Eo; try discriminate.
    destruct (lo_queue (get_obj s i)) as [|c q] eqn:Eq; try discriminate.
    inversion H; subst; fields. right. right. left. exists i, q. auto.
  - destruct (serve s); try discriminate. unfold upd_serve in H.
    destruct (cur_obj s) as [o|]; [destruct (lo_open o); [discriminate|]|]; inversion H; subst; auto.
  - destruct (serve s); try discriminate. unfold upd_serve in H.
    destruct (cur_obj s) as [o|]; [|discriminate]. destruct (tmo s && lo_open o); inversion H; subst; auto.
  - destruct (listener s) as [i|] eqn:El.
    + change (close_obj s i) with (set_nth i dobj (objs s), drop_all (qof (objs s) i) (conns s)) in H.
      cbv beta iota in H. inversion H; subst; fields. right. right. right. left. exists i. auto.
    + inversion H; subst; auto.
  - destruct (listener s) as [i|] eqn:El; [destruct (lo_open (get_obj s i)) eqn:Eo|]; inversion H; subst; fields; auto.
    right. right. left. eexists. eexists. repeat split; eauto.
  - destruct (conn_st s c); try discriminate; inversion H; subst; auto.
  - apply handler_exit_inv in H. destruct H as [_ [_ E]]. subst s'. auto.
Qed.

Lemma oopen_close_self : forall os i, oopen (set_nth i dobj os) i = false.
Proof.
  intros os i. rewrite oopen_set, Nat.eqb_refl. destruct (Nat.ltb_spec i (length os)) as [L|L]; auto.
  unfold oopen. rewrite nth_overflow by auto. reflexivity.
Qed.

(* a listener object is closed only by Shutdown or by the serving call's teardown *)
Theorem close_only_by : forall s l s' i, lstep s l = Some s' ->
  oopen (objs s) i = true -> oopen (objs s') i = false -> is_closing s l.
Proof.
  intros s l s' i H Ho Hc.
  destruct (objs_step _ _ _ H) as [[E _]|[[E _]|[[j [q [_ [_ [E _]]]]]|[[j [_ [_ [Hcl _]]]]|[_ [_ E]]]]]]; auto;
    exfalso; rewrite E in Hc.
  - congruence.
  - rewrite oopen_new in Hc. destruct (Nat.eqb i (length (objs s))); congruence.
  - rewrite oopen_set in Hc. destruct (Nat.eqb j i); [|congruence].
    destruct (Nat.ltb j (length (objs s))); simpl in Hc; congruence.
  - congruence.
Qed.
Print Assumptions close_only_by.

(* ================= outcomes after a Shutdown ================= *)
Definition covered (p : spc) : bool :=
  match p with SNone | SEnter | SSetRunning => false | _ => true end.

(* the results still possible once running = false and the listener is closed *)
Definition after_shut (p : spc) (r : ret) : Prop :=
  match p with
  | SNone | SEnter | SSetRunning => True
  | SRefresh => r = RDeadlineErr
  | STimeout => r = RTimeoutErr \/ r = RNilRet
  | STeardown r0 | SWait r0 => r = r0
  | _ => r = RNilRet
  end.

Lemma no_open_cur_step : forall s l s', no_open_cur s -> serve s <> SNone -> running s = false ->
  ok_label s l -> lstep s l = Some s' -> no_open_cur s'.
Proof.
  intros s l s' Hn Hs Hr Hok H. unfold no_open_cur in *.
  destruct (objs_step _ _ _ H) as [[E1 E2]|[[_ [_ [Hb _]]]|[[j [q [El [Ho _]]]]|[[j [El [E1 [_ E2]]]]|[_ [E2 _]]]]]].
  - rewrite E1, E2. auto.
  - exfalso. destruct Hb as [Hb|[t Hb]]; subst l.
    + simpl in Hok. destruct Hok; congruence.
    + simpl in H. destruct (serve s); try discriminate. congruence.
  - rewrite (Hn j El) in Ho. discriminate.
  - intros i Ei. rewrite E1. destruct E2 as [E2|E2]; rewrite E2 in Ei; inversion Ei; subst. apply oopen_close_self.
  - intros i Ei. congruence.
Qed.

Lemma cur_closed : forall s, no_open_cur s ->
  match cur_obj s with Some o => lo_open o = false | None => True end.
Proof.
  intros s Hn. unfold cur_obj, no_open_cur in *. destruct (listener s) as [i|]; auto. apply (Hn i eq_refl).
Qed.

Lemma shut_step : forall s l s', running s = false -> no_open_cur s -> covered (serve s) = true ->
  ok_label s l -> lstep s l = Some s' ->
  (serve s' = SNone /\ exists r, result s' = Some r /\ after_shut (serve s) r)
  \/ (running s' = false /\ no_open_cur s' /\ covered (serve s') = true /\
      forall r, after_shut (serve s') r -> after_shut (serve s) r).
Proof.
  intros s l s' Hr Hn Hc Hok H.
  assert (Hs : serve s <> SNone) by (intro E; rewrite E in Hc; discriminate).
  pose proof (no_open_cur_step _ _ _ Hn Hs Hr Hok H) as Hn'.
  pose proof (cur_closed _ Hn) as Hcl.
  destruct l; simpl in H.
  - simpl in Hok. destruct Hok; congruence.
  - destruct (serve s); try discriminate; congruence.
  - destruct (serve s); try discriminate; congruence.
  - destruct (serve s) eqn:Es; try discriminate; unfold upd_serve in H; simpl in Hc; try discriminate.
    + rewrite Hr in H. inversion H; subst s'. right. simpl. auto.
    + destruct (cur_obj s) as [o|]; [rewrite Hcl in H|]; inversion H; subst s'; right; simpl; auto.
    + destruct (Nat.eqb _ _); inversion H; subst s'; right; simpl; auto.
    + rewrite Hr in H. inversion H; subst s'. right. simpl. auto.
    + inversion H; subst s'. right. simpl. auto.
    + inversion H; subst s'. right. simpl. auto.
    + inversion H; subst s'. right. simpl. auto.
    + right. destruct (listener s) as [i|].
      * change (close_obj s i) with (set_nth i dobj (objs s), drop_all (qof (objs s) i) (conns s)) in H.
        cbv beta iota in H. inversion H; subst s'. simpl. auto.
      * inversion H; subst s'. simpl. auto.
    + destruct (Nat.eqb _ _); [|discriminate]. inversion H; subst s'. left. simpl. eauto.
  - exfalso. destruct (serve s); try discriminate. unfold no_open_cur in Hn.
    destruct (listener s) as [i|]; try discriminate.
    change (lo_open (get_obj s i)) with (oopen (objs s) i) in H. rewrite (Hn i eq_refl) in H. discriminate.
  - destruct (serve s) eqn:Es; try discriminate. unfold upd_serve in H.
    destruct (cur_obj s) as [o|]; [rewrite Hcl in H|]; inversion H; subst s'; right; simpl; auto.
  - exfalso. destruct (serve s); try discriminate. destruct (cur_obj s) as [o|]; [|discriminate].
    rewrite Hcl, andb_false_r in H. discriminate.
  - right. destruct (listener s) as [i|].
    + change (close_obj s i) with (set_nth i dobj (objs s), drop_all (qof (objs s) i) (conns s)) in H.
      cbv beta iota in H. inversion H; subst s'. simpl. auto.
    + inversion H; subst s'. simpl. auto.
  - right. destruct (listener s) as [i|]; [destruct (lo_open _)|]; inversion H; subst s'; simpl;
      auto.
  - right. destruct (conn_st s c); try discriminate; inversion H; subst s'; simpl; auto.
  - right. change (lstep s (LHandlerExit c) = Some s') in H. apply handler_exit_inv in H.
    destruct H as [_ [_ E]]. subst s'. simpl. auto.
Qed.

(* executions within one serving call: they stop when the call has returned *)
Inductive crun : lstate -> lstate -> Prop :=
| crun_refl : forall s, crun s s
| crun_step : forall s l s1 s2, serve s <> SNone -> ok_label s l -> lstep s l = Some s1 -> crun s1 s2 -> crun s s2.

Theorem shut_outcome : forall s s', crun s s' -> running s = false -> no_open_cur s -> covered (serve s) = true ->
  (serve s' = SNone /\ exists r, result s' = Some r /\ after_shut (serve s) r)
  \/ (running s' = false /\ no_open_cur s' /\ covered (serve s') = true /\
      forall r, after_shut (serve s') r -> after_shut (serve s) r).
Proof.
  intros s s' H. induction H as [s|s l s1 s2 Hs Hok Hst Hc IH]; intros Hr Hn Hcov.
  - right. auto.
  - destruct (shut_step _ _ _ Hr Hn Hcov Hok Hst) as [[E1 Hres]|[Hr1 [Hn1 [Hc1 Hsub]]]].
    + inversion Hc; subst; [left; split; auto|congruence].
    + destruct (IH Hr1 Hn1 Hc1) as [[E2 [r [Hres Ha]]]|[Hr2 [Hn2 [Hc2 Hsub2]]]].
      * left. split; auto. exists r. auto.
      * right. repeat split; auto.
Qed.
Print Assumptions shut_outcome.

Lemma shutdown_closes : forall s s1, lstep s LShutdown = Some s1 ->
  running s1 = false /\ no_open_cur s1 /\ serve s1 = serve s.
Proof.
  intros s s1 H. simpl in H. unfold no_open_cur. destruct (listener s) as [i|] eqn:El.
  - change (close_obj s i) with (set_nth i dobj (objs s), drop_all (qof (objs s) i) (conns s)) in H.
    cbv beta iota in H. inversion H; subst s1; fields. repeat split; auto.
    intros j E. inversion E; subst. apply oopen_close_self.
  - inversion H; subst s1; fields. repeat split; auto. discriminate.
Qed.

(* every result the serving call can still produce after a Shutdown *)
Theorem shutdown_outcomes : forall s s1 s2, covered (serve s) = true -> lstep s LShutdown = Some s1 ->
  crun s1 s2 -> serve s2 = SNone -> exists r, result s2 = Some r /\ after_shut (serve s) r.
Proof.
  intros s s1 s2 Hc H Hrun Es2. destruct (shutdown_closes _ _ H) as [Hr [Hn Es]].
  rewrite <- Es in Hc. destruct (shut_outcome _ _ Hrun Hr Hn Hc) as [[_ Hres]|[_ [_ [Hc2 _]]]].
  - rewrite Es in Hres. exact Hres.
  - rewrite Es2 in Hc2. discriminate.
Qed.
Print Assumptions shutdown_outcomes.

Definition waiting (p : spc) : bool :=
  match p with SAccept | SLoopHead | SAcceptErr | SGot _ | SAdd _ | SSpawn _ => true | _ => false end.

(* Shutdown while the service waits for a connection or has one in hand: the call returns nil *)
Theorem nil_when_waiting : forall s s1 s2, waiting (serve s) = true -> lstep s LShutdown = Some s1 ->
  crun s1 s2 -> serve s2 = SNone -> result s2 = Some RNilRet.
Proof.
  intros s s1 s2 Hw H Hrun Es2.
  assert (Hc : covered (serve s) = true) by (destruct (serve s); simpl in *; auto; discriminate).
  destruct (shutdown_outcomes _ _ _ Hc H Hrun Es2) as [r [Hres Ha]].
  rewrite Hres. destruct (serve s); simpl in *; try discriminate; subst; reflexivity.
Qed.
Print Assumptions nil_when_waiting.

(* and until it returns, the call stays on the nil path *)
Definition nil_pc (p : spc) : bool :=
  match p with
  | SAccept | SLoopHead | SAcceptErr | SGot _ | SAdd _ | SSpawn _ => true
  | STeardown RNilRet | SWait RNilRet => true
  | _ => false
  end.

Theorem nil_path : forall s s1 s2, waiting (serve s) = true -> lstep s LShutdown = Some s1 -> crun s1 s2 ->
  (serve s2 = SNone /\ result s2 = Some RNilRet) \/ (running s2 = false /\ no_open_cur s2 /\ nil_pc (serve s2) = true).
Proof.
  intros s s1 s2 Hw H Hrun. destruct (shutdown_closes _ _ H) as [Hr [Hn Es]].
  assert (Hc : covered (serve s1) = true) by (rewrite Es; destruct (serve s); simpl in *; auto; discriminate).
  assert (Ha : forall r, after_shut (serve s1) r -> r = RNilRet).
  { rewrite Es. destruct (serve s); simpl in *; try discriminate; auto. }
  destruct (shut_outcome _ _ Hrun Hr Hn Hc) as [[E [r [Hres Hr']]]|[Hr2 [Hn2 [Hc2 Hsub]]]].
  - left. split; auto. rewrite Hres, (Ha r Hr'). reflexivity.
  - right. repeat split; auto. destruct (serve s2) as [| | | | | | | | | | |r|r] eqn:E2; simpl in *; auto; try discriminate.
    + specialize (Ha RDeadlineErr (Hsub _ eq_refl)). discriminate.
    + specialize (Ha RTimeoutErr (Hsub _ (or_introl eq_refl))). discriminate.
    + rewrite (Ha r (Hsub r eq_refl)). reflexivity.
    + rewrite (Ha r (Hsub r eq_refl)). reflexivity.
Qed.
Print Assumptions nil_path.

(* Shutdown before the call has set running (SEnter / SSetRunning) is outside `covered`:
   running is set afterwards and the loop finds a closed listener *)
Example early_shutdown :
  option_map result (wrun l_init [LBind true; LStartDoListen false; LServe; LShutdown; LServe; LServe;
                                  LAcceptClosed; LServe; LServe; LServe])
  = Some (Some RAcceptErr).
Proof. vm_compute. reflexivity. Qed.

(* with a timeout, the window at SRefresh gives RDeadlineErr *)
Example refresh_shutdown :
  option_map result (wrun l_init [LBind true; LStartDoListen true; LServe; LServe; LServe; LShutdown;
                                  LServe; LServe; LServe])
  = Some (Some RDeadlineErr).
Proof. vm_compute. reflexivity. Qed.

(* ================= the endpoint is released ================= *)
Theorem endpoint_released_wait : forall s r, wreach s -> serve s = SWait r ->
  listener s = None /\ running s = false.
Proof.
  intros s r Hw Es. pose proof (wreach_Inv _ Hw) as HI. split.
  - apply (i_nolis _ HI). rewrite Es. reflexivity.
  - destruct (running s) eqn:Er; auto. pose proof (i_run _ HI Er) as Hm. rewrite Es in Hm. discriminate.
Qed.

(* at the moment a serving call returns *)
Theorem endpoint_released : forall s s', wreach s -> serve s <> SNone -> lstep s LServe = Some s' ->
  serve s' = SNone -> listener s' = None /\ running s' = false /\ result s' <> None.
Proof.
  intros s s' Hw Hs H Es'. simpl in H. destruct (serve s) eqn:Es; try discriminate; unfold upd_serve in H;
    try (inversion H; subst s'; discriminate).
  - destruct (listener s); inversion H; subst s'; discriminate.
  - destruct (running s); [destruct (tmo s)|]; inversion H; subst s'; discriminate.
  - destruct (cur_obj s) as [o|]; [destruct (lo_open o)|]; inversion H; subst s'; discriminate.
  - destruct (Nat.eqb _ _); inversion H; subst s'; discriminate.
  - destruct (running s); inversion H; subst s'; discriminate.
  - destruct (listener s) as [i|]; [destruct (close_obj s i)|]; inversion H; subst s'; discriminate.
  - destruct (endpoint_released_wait s r Hw Es) as [E1 E2].
    destruct (Nat.eqb _ _); [|discriminate]. inversion H; subst s'; fields. repeat split; auto. discriminate.
Qed.
Print Assumptions endpoint_released.

(* the object the serving call listened on is closed by its teardown *)
Theorem teardown_closes : forall s s' r i, lstep s LServe = Some s' -> serve s = STeardown r ->
  listener s = Some i -> oopen (objs s') i = false /\ listener s' = None /\ running s' = false.
Proof.
  intros s s' r i H Es El. simpl in H. rewrite Es, El in H.
  change (close_obj s i) with (set_nth i dobj (objs s), drop_all (qof (objs s) i) (conns s)) in H.
  cbv beta iota in H. inversion H; subst s'; fields. repeat split; auto. apply oopen_close_self.
Qed.
Print Assumptions teardown_closes.

(* FALSE as stated for wreach: a result stays recorded after the call, and Bind may follow *)
Example released_counterexample :
  exists s, wrun l_init [LStartDoListen false; LServe; LServe; LServe; LBind true] = Some s /\
            serve s = SNone /\ result s = Some RNoListener /\ listener s = Some 0.
Proof. eexists. split; [vm_compute; reflexivity|]. simpl. auto. Qed.

(* FALSE for wreach: a second Bind (or Listen after Bind) leaks the earlier listener open *)
Example leak_counterexample :
  exists s, wrun l_init [LBind true; LBind true] = Some s /\
            oopen (objs s) 0 = true /\ listener s = Some 1.
Proof. eexists. split; [vm_compute; reflexivity|]. simpl. auto. Qed.

Example leak_counterexample2 :
  exists s, wrun l_init [LBind true; LStartListen true false] = Some s /\
            oopen (objs s) 0 = true /\ listener s = Some 1.
Proof. eexists. split; [vm_compute; reflexivity|]. simpl. auto. Qed.

Theorem open_is_current_false_for_wreach :
  ~ (forall s, wreach s -> forall i, oopen (objs s) i = true -> listener s = Some i).
Proof.
  intro H. destruct leak_counterexample as [s [Hr [Ho El]]].
  assert (Hw : wreach s) by (eapply wrun_wreach; [apply wr_init|exact Hr]).
  specialize (H s Hw 0 Ho). congruence.
Qed.
Print Assumptions open_is_current_false_for_wreach.

(* ---------- strict scope: no re-Bind over a listener that is still open ---------- *)
Definition ok_label2 (s : lstate) (l : label) : Prop :=
  ok_label s l /\
  match l with
  | LBind true => running s = true \/ no_open_cur s
  | LStartListen true _ => no_open_cur s
  | _ => True
  end.

Inductive sreach : lstate -> Prop :=
| sr_init : sreach l_init
| sr_step : forall s l s', sreach s -> ok_label2 s l -> lstep s l = Some s' -> sreach s'.

Lemma sreach_wreach : forall s, sreach s -> wreach s.
Proof.
  intros s H. induction H as [|s l s' Hs IH [Hok _] Hst]; [apply wr_init|eapply wr_step; eauto].
Qed.

(* an open listener object is always the service's current one: nothing leaks *)
Theorem open_is_current : forall s, sreach s -> forall i, oopen (objs s) i = true -> listener s = Some i.
Proof.
  intros s H. induction H as [|s l s' Hs IH [Hok Hok2] Hst]; intros i Ho.
  - unfold l_init, oopen in Ho. simpl in Ho. destruct i; discriminate.
  - destruct (objs_step _ _ _ Hst) as [[E1 E2]|[[E1 [E2 [Hb Hr]]]|[[j [q [El [Hoj [E1 E2]]]]]|[[j [El [E1 [_ E2]]]]|[El [_ E1]]]]]].
    + rewrite E1 in Ho. rewrite E2. auto.
    + rewrite E1, oopen_new in Ho. rewrite E2.
      destruct (Nat.eqb_spec i (length (objs s))) as [E|E]; [subst; auto|]. exfalso.
      pose proof (IH i Ho) as El.
      assert (Hn : no_open_cur s).
      { destruct Hb as [Hb|[t Hb]]; subst l; simpl in Hok2; auto. destruct Hok2; [congruence|auto]. }
      rewrite (Hn i El) in Ho. discriminate.
    + rewrite E2. rewrite E1, oopen_set in Ho. destruct (Nat.eqb_spec j i) as [E|E]; [subst; auto|].
      rewrite <- El. auto.
    + rewrite E1, oopen_set in Ho. destruct (Nat.eqb_spec j i) as [E|E].
      * subst j. pose proof (listener_in_range s i (sreach_wreach _ Hs) El) as L.
        apply Nat.ltb_lt in L. rewrite L in Ho. discriminate.
      * pose proof (IH i Ho). congruence.
    + rewrite E1 in Ho. pose proof (IH i Ho). congruence.
Qed.
Print Assumptions open_is_current.

(* when a serving call has torn down / returned, every listener object is closed *)
Theorem all_closed_after_teardown : forall s r, sreach s -> serve s = SWait r -> forall i, oopen (objs s) i = false.
Proof.
  intros s r Hs Es i. destruct (oopen (objs s) i) eqn:Eo; auto.
  pose proof (open_is_current s Hs i Eo) as El.
  destruct (endpoint_released_wait s r (sreach_wreach _ Hs) Es) as [E _]. congruence.
Qed.

Theorem all_closed_at_return : forall s s', sreach s -> serve s <> SNone -> lstep s LServe = Some s' ->
  serve s' = SNone -> forall i, oopen (objs s') i = false.
Proof.
  intros s s' Hs Hn H Es' i. destruct (oopen (objs s') i) eqn:Eo; auto.
  assert (Hs' : sreach s') by (eapply sr_step; eauto; split; simpl; auto).
  pose proof (open_is_current s' Hs' i Eo) as El.
  destruct (endpoint_released s s' (sreach_wreach _ Hs) Hn H Es') as [E _]. congruence.
Qed.
Print Assumptions all_closed_at_return.

(* a queued connection waits in the backlog of the current listener *)
Theorem queued_at_current : forall s c, sreach s -> conn_st s c = CQueued ->
  exists i, listener s = Some i /\ In c (lo_queue (get_obj s i)) /\ lo_open (get_obj s i) = true.
Proof.
  intros s c Hs Hc. destruct (queued_in_open s c (sreach_wreach _ Hs) Hc) as [i [Hi [Ho _]]].
  exists i. split; auto. apply open_is_current; auto.
Qed.
Print Assumptions queued_at_current.

(* ================= the service can be used again ================= *)
Theorem reusable : forall s, wreach s -> serve s = SNone ->
  running s = false /\ conncounter s = 0 /\ wg s = 0 /\ live s = 0 /\
  (forall t, exists s', lstep s (LStartDoListen t) = Some s' /\ serve s' = SEnter) /\
  (forall t, exists s', lstep s (LStartListen true t) = Some s' /\ serve s' = SSetRunning).
Proof.
  intros s Hw Es. pose proof (idle_not_running s Hw Es) as Hr. pose proof (idle_no_handlers s Hw Es) as Hl.
  pose proof (I1_counter s Hw) as H1. pose proof (I1_wg s Hw) as H2. rewrite Es in H1, H2. simpl in H1, H2.
  repeat split; auto; try lia.
  - intro t. simpl. rewrite Es. eexists. split; reflexivity.
  - intro t. simpl. rewrite Es, Hr. eexists. split; reflexivity.
Qed.
Print Assumptions reusable.

Theorem second_bind_refused : forall s ok, running s = true -> lstep s (LBind ok) = Some s.
Proof. intros s ok Hr. simpl. rewrite Hr. reflexivity. Qed.
Print Assumptions second_bind_refused.

(* a serving call cannot be started while another one is in progress (the label is not enabled);
   a second Listen during serving is therefore not expressible in this model *)
Theorem no_second_serving_call : forall s, serve s <> SNone ->
  (forall t, lstep s (LStartDoListen t) = None) /\ (forall ok t, lstep s (LStartListen ok t) = None).
Proof. intros s Hs. split; intros; simpl; destruct (serve s); congruence. Qed.
Print Assumptions no_second_serving_call.

(* sreach is inhabited by the demo trace *)
Example demo_sreach : exists s, sreach s /\ serve s = SNone /\ result s = Some RNilRet.
Proof.
  assert (H : forall ls s s', sreach s ->
     (fix go s ls := match ls with [] => Some s | l :: r =>
        match l with LBind _ | LStartListen _ _ => None | _ =>
          match lstep s l with Some s1 => go s1 r | None => None end end end) s ls = Some s' -> sreach s').
  { intro ls. induction ls as [|l r IH]; intros s s' Hs H.
    - inversion H; subst; auto.
    - destruct l; try discriminate; destruct (lstep s _) as [s1|] eqn:E; try discriminate;
        (apply (IH s1); [eapply sr_step; [exact Hs| |exact E]; split; exact I|exact H]). }
  assert (H0 : sreach (mkL false (Some 0) [mkLobj true []] 0 0 SNone false [] [] false None false)).
  { eapply sr_step with (l := LBind true); [apply sr_init| |reflexivity]. split; simpl; auto.
    right. intros i E. discriminate. }
  eexists. split; [apply (H (tl demo_trace) _ _ H0); vm_compute; reflexivity|]. simpl. auto.
Qed.
