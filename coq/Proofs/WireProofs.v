(* Proofs/WireProofs.v — theorems about the buffered reader model of Model/Wire.v
   (C18: the byte stream is delivered exactly once and in order whatever the mix of
   ReadBytes and raw Read; C02, receiving direction: deframing is independent of the
   segmentation of the stream into conn.Read chunks).

   The model (Model/Wire.v) is not modified; everything here is proved about it. *)
From VL Require Import Bytes Wire.
Open Scope N_scope.

(* ------------------------------------------------------------------ *)
(* cut_at                                                              *)
(* ------------------------------------------------------------------ *)

Lemma cut_at_some_app : forall d s a r t,
  cut_at d s = Some (a, r) -> cut_at d (s ++ t) = Some (a, r ++ t).
Proof.
  induction s as [|x s IH]; intros a r t H; cbn [cut_at app] in *; [discriminate|].
  destruct (x =? d).
  - inversion H; subst. reflexivity.
  - destruct (cut_at d s) as [[a0 r0]|] eqn:E; [|discriminate].
    inversion H; subst. rewrite (IH _ _ t eq_refl). reflexivity.
Qed.

Lemma cut_at_none_app : forall d s t,
  cut_at d s = None ->
  cut_at d (s ++ t) =
    match cut_at d t with Some (a, r) => Some (s ++ a, r) | None => None end.
Proof.
  induction s as [|x s IH]; intros t H; cbn [cut_at app] in *.
  - destruct (cut_at d t) as [[a r]|]; reflexivity.
  - destruct (x =? d); [discriminate|].
    destruct (cut_at d s) as [[a0 r0]|] eqn:E; [discriminate|].
    rewrite (IH t eq_refl). destruct (cut_at d t) as [[a r]|]; reflexivity.
Qed.

Lemma cut_at_some_inv : forall d s a r,
  cut_at d s = Some (a, r) -> s = a ++ r /\ (1 <= length a)%nat.
Proof.
  induction s as [|x s IH]; intros a r H; cbn [cut_at] in H; [discriminate|].
  destruct (x =? d).
  - inversion H; subst. cbn [app length]. split; [reflexivity|lia].
  - destruct (cut_at d s) as [[a0 r0]|] eqn:E; [|discriminate].
    inversion H; subst. destruct (IH _ _ eq_refl) as [Hs Hl].
    cbn [app length]. split; [rewrite <- Hs; reflexivity|lia].
Qed.

(* the first component of a cut ends with the delimiter and contains it nowhere else *)
Lemma cut_at_some_shape : forall d s a r,
  cut_at d s = Some (a, r) -> exists a', a = a' ++ [d] /\ ~ In d a'.
Proof.
  induction s as [|x s IH]; intros a r H; cbn [cut_at] in H; [discriminate|].
  destruct (x =? d) eqn:Ex.
  - inversion H; subst. apply N.eqb_eq in Ex. subst x.
    exists []. split; [reflexivity|]. intros [].
  - destruct (cut_at d s) as [[a0 r0]|] eqn:E; [|discriminate].
    inversion H; subst. destruct (IH _ _ eq_refl) as (a' & Ha & Hn).
    exists (x :: a'). split; [rewrite Ha; reflexivity|].
    intros [Hx|Hin]; [|exact (Hn Hin)].
    apply N.eqb_neq in Ex. exact (Ex Hx).
Qed.

Lemma cut_at_notin : forall d s, ~ In d s -> cut_at d s = None.
Proof.
  induction s as [|x s IH]; intro H; cbn [cut_at]; [reflexivity|].
  destruct (x =? d) eqn:E.
  - apply N.eqb_eq in E. exfalso. apply H. left. exact E.
  - rewrite IH; [reflexivity|]. intro Hin. apply H. right. exact Hin.
Qed.

Lemma cut_at_none_notin : forall d s, cut_at d s = None -> ~ In d s.
Proof.
  induction s as [|x s IH]; intros H Hin; [exact Hin|].
  cbn [cut_at] in H. destruct (x =? d) eqn:E; [discriminate|].
  destruct (cut_at d s) as [[a0 r0]|] eqn:Ec; [discriminate|].
  destruct Hin as [Hx|Hin]; [|exact (IH eq_refl Hin)].
  apply N.eqb_neq in E. exact (E Hx).
Qed.

Lemma cut_at_frame : forall d m t,
  ~ In d m -> cut_at d ((m ++ [d]) ++ t) = Some (m ++ [d], t).
Proof.
  intros d m t H. rewrite <- (app_assoc m [d] t).
  pose proof (cut_at_none_app d m ([d] ++ t) (cut_at_notin d m H)) as E.
  cbn [app cut_at] in E. rewrite N.eqb_refl in E. exact E.
Qed.

(* ------------------------------------------------------------------ *)
(* conn_read and fill                                                  *)
(* ------------------------------------------------------------------ *)

Lemma conn_read_none : forall k chs, conn_read k chs = None -> chs = [].
Proof.
  intros k [|ch r] H; [reflexivity|].
  unfold conn_read in H. destruct (skipn k ch); discriminate.
Qed.

Lemma conn_read_some : forall k chs t chs',
  (1 <= k)%nat -> Forall (fun ch : bytes => ch <> []) chs ->
  conn_read k chs = Some (t, chs') ->
  t ++ concat_bytes chs' = concat_bytes chs /\
  Forall (fun ch : bytes => ch <> []) chs' /\
  (1 <= length t <= k)%nat.
Proof.
  intros k [|ch r] t chs' Hk Hok H; [discriminate|].
  inversion Hok as [|? ? Hch Hr]; subst.
  assert (Hfs := firstn_skipn k ch).
  assert (Hlen : (1 <= length (firstn k ch) <= k)%nat).
  { rewrite firstn_length. destruct ch as [|y ch]; [congruence|]. cbn [length]. lia. }
  unfold conn_read in H. cbv zeta in H. revert H.
  destruct (skipn k ch) as [|y l] eqn:E; intro H; inversion H; subst; clear H;
    cbn [concat_bytes].
  - rewrite app_nil_r in Hfs. split; [f_equal; exact Hfs|]. split; assumption.
  - split; [|split; [|exact Hlen]].
    + rewrite app_assoc. rewrite Hfs. reflexivity.
    + constructor; [discriminate|assumption].
Qed.

Lemma fill_none : forall cap c, fill cap c = None -> chunks c = [].
Proof.
  intros cap c H. unfold fill in H.
  destruct (conn_read (cap - length (rbuf c)) (chunks c)) as [[t chs]|] eqn:E;
    [discriminate|].
  exact (conn_read_none _ _ E).
Qed.

Lemma fill_some : forall cap c c',
  (length (rbuf c) < cap)%nat -> chunks_ok c -> fill cap c = Some c' ->
  stream_of c' = stream_of c /\ chunks_ok c' /\ (pending c' < pending c)%nat.
Proof.
  intros cap c c' Hlt Hok H. unfold fill in H.
  destruct (conn_read (cap - length (rbuf c)) (chunks c)) as [[t chs]|] eqn:E;
    [|discriminate].
  inversion H; subst; clear H.
  assert (Hk : (1 <= cap - length (rbuf c))%nat) by lia.
  destruct (conn_read_some _ _ _ _ Hk Hok E) as (Hs & Hok' & Hl).
  unfold stream_of, chunks_ok, pending. cbn [rbuf chunks].
  split; [|split; [exact Hok'|]].
  - rewrite <- app_assoc. rewrite Hs. reflexivity.
  - rewrite <- Hs. rewrite app_length. lia.
Qed.

(* ------------------------------------------------------------------ *)
(* read_bytes                                                          *)
(* ------------------------------------------------------------------ *)

Lemma read_bytes_f_eq : forall f cap delim frags c,
  read_bytes_f (S f) cap delim frags c =
  match cut_at delim (rbuf c) with
  | Some (a, rest) => Some (RData (frags ++ a), mkConn rest (chunks c))
  | None =>
    if (cap <=? length (rbuf c))%nat
    then read_bytes_f f cap delim (frags ++ rbuf c) (mkConn [] (chunks c))
    else match fill cap c with
         | None => Some (REof (frags ++ rbuf c), mkConn [] (chunks c))
         | Some c' => read_bytes_f f cap delim frags c'
         end
  end.
Proof. reflexivity. Qed.

(* number of iterations of the ReadBytes loop that are enough from state c *)
Definition meas (cap : nat) (c : rconn) : nat :=
  (2 * pending c + (if (cap <=? length (rbuf c))%nat then 1 else 0) + 1)%nat.

Lemma read_bytes_f_spec : forall fuel cap delim frags c,
  (1 <= cap)%nat -> chunks_ok c -> (meas cap c <= fuel)%nat ->
  exists r c', read_bytes_f fuel cap delim frags c = Some (r, c') /\ chunks_ok c' /\
    match cut_at delim (stream_of c) with
    | Some (a, rest) => r = RData (frags ++ a) /\ stream_of c' = rest
    | None => r = REof (frags ++ stream_of c) /\ stream_of c' = []
    end.
Proof.
  induction fuel as [|f IH]; intros cap delim frags c Hcap Hok Hm.
  - unfold meas in Hm. lia.
  - rewrite read_bytes_f_eq.
    destruct (cut_at delim (rbuf c)) as [[a rest]|] eqn:Ecut.
    + exists (RData (frags ++ a)), (mkConn rest (chunks c)).
      split; [reflexivity|]. split; [exact Hok|].
      unfold stream_of. rewrite (cut_at_some_app _ _ _ _ (concat_bytes (chunks c)) Ecut).
      cbn [rbuf chunks]. split; reflexivity.
    + destruct (cap <=? length (rbuf c))%nat eqn:Efull.
      * destruct (IH cap delim (frags ++ rbuf c) (mkConn [] (chunks c)) Hcap Hok)
          as (r & c' & Hr & Hok' & Hspec).
        { unfold meas in *. rewrite Efull in Hm. unfold pending in *.
          cbn [rbuf chunks length].
          destruct (cap <=? 0)%nat eqn:E0; [apply Nat.leb_le in E0; lia|lia]. }
        exists r, c'. split; [exact Hr|]. split; [exact Hok'|].
        unfold stream_of in *. cbn [rbuf chunks app] in Hspec.
        rewrite (cut_at_none_app _ _ (concat_bytes (chunks c)) Ecut).
        destruct (cut_at delim (concat_bytes (chunks c))) as [[a rest]|];
          rewrite <- app_assoc in Hspec; exact Hspec.
      * apply Nat.leb_gt in Efull.
        destruct (fill cap c) as [c1|] eqn:Efill.
        -- destruct (fill_some _ _ _ Efull Hok Efill) as (Hs & Hok1 & Hp).
           destruct (IH cap delim frags c1 Hcap Hok1) as (r & c' & Hr & Hok' & Hspec).
           { unfold meas in *.
             destruct (cap <=? length (rbuf c1))%nat;
               destruct (cap <=? length (rbuf c))%nat; lia. }
           rewrite Hs in Hspec. exists r, c'.
           split; [exact Hr|]. split; [exact Hok'|exact Hspec].
        -- apply fill_none in Efill.
           exists (REof (frags ++ rbuf c)), (mkConn [] (chunks c)).
           split; [reflexivity|]. split; [exact Hok|].
           unfold stream_of. cbn [rbuf chunks]. rewrite Efill. cbn [concat_bytes app].
           rewrite app_nil_r. rewrite Ecut. split; reflexivity.
Qed.

(* the result of ReadBytes depends only on the byte stream, never on its
   segmentation or on buffer boundaries *)
Theorem read_bytes_spec : forall cap delim c, (1 <= cap)%nat -> chunks_ok c ->
  exists r c', read_bytes cap delim c = Some (r, c') /\ chunks_ok c' /\
    match cut_at delim (stream_of c) with
    | Some (a, rest) => r = RData a /\ stream_of c' = rest
    | None => r = REof (stream_of c) /\ stream_of c' = []
    end.
Proof.
  intros cap delim c Hcap Hok. unfold read_bytes.
  destruct (read_bytes_f_spec (2 * (length (rbuf c) + pending c) + 3)%nat
              cap delim [] c Hcap Hok) as (r & c' & Hr & Hok' & Hspec).
  { unfold meas. destruct (cap <=? length (rbuf c))%nat; lia. }
  exists r, c'. split; [exact Hr|]. split; [exact Hok'|]. exact Hspec.
Qed.
Print Assumptions read_bytes_spec.

(* ------------------------------------------------------------------ *)
(* read_raw                                                            *)
(* ------------------------------------------------------------------ *)

Lemma read_raw_inv : forall cap n c r c',
  (1 <= cap)%nat -> (1 <= n)%nat -> chunks_ok c ->
  read_raw cap n c = (r, c') ->
  data_of r ++ stream_of c' = stream_of c /\ chunks_ok c' /\
  match r with
  | RData d => (1 <= length d <= n)%nat
  | REof d => d = [] /\ stream_of c = []
  end.
Proof.
  intros cap n c r c' Hcap Hn Hok H. unfold read_raw in H.
  destruct (rbuf c) as [|x l] eqn:Eb.
  - destruct (cap <=? n)%nat eqn:Ecn.
    + destruct (conn_read n (chunks c)) as [[t chs]|] eqn:Er;
        inversion H; subst; clear H.
      * destruct (conn_read_some _ _ _ _ Hn Hok Er) as (Hs & Hok' & Hl).
        unfold stream_of, chunks_ok. cbn [data_of rbuf chunks]. rewrite Eb.
        cbn [app]. split; [exact Hs|]. split; [exact Hok'|exact Hl].
      * apply conn_read_none in Er.
        unfold stream_of. cbn [data_of]. rewrite Eb, Er. cbn [concat_bytes app].
        split; [reflexivity|]. split; [exact Hok|]. split; reflexivity.
    + apply Nat.leb_gt in Ecn.
      destruct (conn_read cap (chunks c)) as [[t chs]|] eqn:Er;
        inversion H; subst; clear H.
      * destruct (conn_read_some _ _ _ _ Hcap Hok Er) as (Hs & Hok' & Hl).
        unfold stream_of, chunks_ok. cbn [data_of rbuf chunks]. rewrite Eb.
        cbn [app].
        split; [rewrite (app_assoc (firstn n t)), firstn_skipn; exact Hs|].
        split; [exact Hok'|]. rewrite firstn_length. lia.
      * apply conn_read_none in Er.
        unfold stream_of. cbn [data_of]. rewrite Eb, Er. cbn [concat_bytes app].
        split; [reflexivity|]. split; [exact Hok|]. split; reflexivity.
  - inversion H; subst; clear H.
    unfold stream_of, chunks_ok. cbn [data_of rbuf chunks]. rewrite Eb.
    split; [rewrite (app_assoc (firstn n (x :: l))), firstn_skipn; reflexivity|].
    split; [exact Hok|]. rewrite firstn_length. cbn [length]. lia.
Qed.

Theorem read_raw_spec : forall cap n c, (1 <= cap)%nat -> (1 <= n)%nat -> chunks_ok c ->
  let (r, c') := read_raw cap n c in
  data_of r ++ stream_of c' = stream_of c /\ chunks_ok c' /\
  match r with
  | RData d => (1 <= length d <= n)%nat
  | REof d => d = [] /\ stream_of c = []
  end.
Proof.
  intros cap n c Hcap Hn Hok.
  destruct (read_raw cap n c) as [r c'] eqn:Er.
  exact (read_raw_inv cap n c r c' Hcap Hn Hok Er).
Qed.
Print Assumptions read_raw_spec.

(* ------------------------------------------------------------------ *)
(* C18                                                                 *)
(* ------------------------------------------------------------------ *)

Lemma run_op_step : forall cap o c,
  (1 <= cap)%nat -> chunks_ok c ->
  match o with OpRead n => (1 <= n)%nat | _ => True end ->
  exists r c1, run_op cap o c = Some (r, c1) /\ chunks_ok c1 /\
    data_of r ++ stream_of c1 = stream_of c.
Proof.
  intros cap o c Hcap Hok Ho. destruct o as [d|n]; cbn [run_op].
  - destruct (read_bytes_spec cap d c Hcap Hok) as (r & c1 & Hr & Hok1 & Hspec).
    exists r, c1. split; [exact Hr|]. split; [exact Hok1|].
    revert Hspec.
    destruct (cut_at d (stream_of c)) as [[a rest]|] eqn:Ec; intros [Hra Hs1]; subst r;
      cbn [data_of]; rewrite Hs1.
    + apply cut_at_some_inv in Ec. destruct Ec as [Eq _]. symmetry. exact Eq.
    + apply app_nil_r.
  - destruct (read_raw cap n c) as [r c1] eqn:Er.
    destruct (read_raw_inv cap n c r c1 Hcap Ho Hok Er) as (Hs & Hok1 & _).
    exists r, c1. split; [reflexivity|]. split; [exact Hok1|exact Hs].
Qed.

(* every byte is delivered exactly once and in order, whatever mix of frame
   reads and raw reads consumes the stream *)
Theorem C18_exactly_once : forall cap ops c, (1 <= cap)%nat -> chunks_ok c ->
  Forall (fun o => match o with OpRead n => (1 <= n)%nat | _ => True end) ops ->
  exists rs c', run_ops cap ops c = Some (rs, c') /\ chunks_ok c' /\
    concat_bytes (map data_of rs) ++ stream_of c' = stream_of c.
Proof.
  intros cap ops. induction ops as [|o ops IH]; intros c Hcap Hok Hall.
  - exists [], c. cbn [run_ops map concat_bytes app].
    split; [reflexivity|]. split; [exact Hok|reflexivity].
  - inversion Hall as [|? ? Ho Hrest]; subst.
    destruct (run_op_step cap o c Hcap Hok Ho) as (r & c1 & Hr & Hok1 & Hs).
    destruct (IH c1 Hcap Hok1 Hrest) as (rs & c2 & Hrs & Hok2 & Hs2).
    exists (r :: rs), c2. cbn [run_ops]. rewrite Hr, Hrs.
    split; [reflexivity|]. split; [exact Hok2|].
    cbn [map concat_bytes]. rewrite <- app_assoc, Hs2. exact Hs.
Qed.
Print Assumptions C18_exactly_once.

(* after a frame read, the next raw read returns the bytes that immediately
   follow the frame's delimiter, even when they arrived in the same chunk *)
Theorem C18_raw_after_frame : forall cap delim n c a rest,
  (1 <= cap)%nat -> (1 <= n)%nat -> chunks_ok c ->
  cut_at delim (stream_of c) = Some (a, rest) -> rest <> [] ->
  exists c1 d c2, read_bytes cap delim c = Some (RData a, c1) /\
    read_raw cap n c1 = (RData d, c2) /\
    d <> [] /\ exists rest', rest = d ++ rest' /\ stream_of c2 = rest'.
Proof.
  intros cap delim n c a rest Hcap Hn Hok Hcut Hne.
  destruct (read_bytes_spec cap delim c Hcap Hok) as (r & c1 & Hr & Hok1 & Hspec).
  rewrite Hcut in Hspec. destruct Hspec as [Hra Hs1]. subst r.
  destruct (read_raw cap n c1) as [r2 c2] eqn:Er.
  destruct (read_raw_inv cap n c1 r2 c2 Hcap Hn Hok1 Er) as (Hs & Hok2 & Hk).
  destruct r2 as [d|d].
  - exists c1, d, c2. split; [exact Hr|]. split; [exact Er|]. split.
    + intro Hd. subst d. cbn [length] in Hk. lia.
    + exists (stream_of c2). split; [|reflexivity].
      cbn [data_of] in Hs. rewrite Hs. symmetry. exact Hs1.
  - destruct Hk as [_ Hk]. rewrite Hs1 in Hk. contradiction.
Qed.
Print Assumptions C18_raw_after_frame.

(* ------------------------------------------------------------------ *)
(* deframing                                                           *)
(* ------------------------------------------------------------------ *)

Lemma read_all_f_spec : forall fuel cap delim c,
  (1 <= cap)%nat -> chunks_ok c -> (length (stream_of c) < fuel)%nat ->
  read_all_f fuel cap delim c = Some (split_frames_f fuel delim (stream_of c)).
Proof.
  induction fuel as [|f IH]; intros cap delim c Hcap Hok Hlt; [lia|].
  cbn [read_all_f split_frames_f].
  destruct (read_bytes_spec cap delim c Hcap Hok) as (r & c1 & Hr & Hok1 & Hspec).
  rewrite Hr. revert Hspec.
  destruct (cut_at delim (stream_of c)) as [[a rest]|] eqn:Ec; intros [Hra Hs1]; subst r.
  - apply cut_at_some_inv in Ec. destruct Ec as [Eq Hla].
    rewrite (IH cap delim c1 Hcap Hok1).
    + rewrite Hs1. destruct (split_frames_f f delim rest) as [fs tail]. reflexivity.
    + rewrite Hs1. rewrite Eq, app_length in Hlt. lia.
  - reflexivity.
Qed.

(* deframing: read_all recovers exactly the frames of the stream, for every
   segmentation *)
Theorem read_all_spec : forall cap delim c, (1 <= cap)%nat -> chunks_ok c ->
  read_all cap delim c = Some (split_frames delim (stream_of c)).
Proof.
  intros cap delim c Hcap Hok. unfold read_all, split_frames.
  apply read_all_f_spec; [exact Hcap|exact Hok|lia].
Qed.
Print Assumptions read_all_spec.

Lemma split_frames_f_frames : forall delim (ms : list bytes) tail fuel,
  Forall (fun m => ~ In delim m) ms -> ~ In delim tail ->
  (length (concat_bytes (map (fun m => m ++ [delim]) ms) ++ tail) < fuel)%nat ->
  split_frames_f fuel delim (concat_bytes (map (fun m => m ++ [delim]) ms) ++ tail) =
    (map (fun m => m ++ [delim]) ms, tail).
Proof.
  intros delim. induction ms as [|m ms IH]; intros tail fuel Hms Ht Hlt;
    (destruct fuel as [|f]; [lia|]); cbn [map concat_bytes split_frames_f].
  - cbn [app]. rewrite (cut_at_notin _ _ Ht). reflexivity.
  - inversion Hms as [|? ? Hm Hms']; subst.
    cbn [map concat_bytes] in Hlt.
    rewrite <- (app_assoc (m ++ [delim]) _ tail) in Hlt.
    rewrite <- (app_assoc (m ++ [delim]) _ tail).
    rewrite (cut_at_frame _ _ _ Hm).
    rewrite IH; [reflexivity|exact Hms'|exact Ht|].
    rewrite (app_length (m ++ [delim])), (app_length m) in Hlt.
    cbn [length] in Hlt. lia.
Qed.

Theorem split_frames_of_frames : forall delim (ms : list bytes) tail,
  Forall (fun m => ~ In delim m) ms -> ~ In delim tail ->
  split_frames delim (concat_bytes (map (fun m => m ++ [delim]) ms) ++ tail) =
    (map (fun m => m ++ [delim]) ms, tail).
Proof.
  intros delim ms tail Hms Ht. unfold split_frames.
  apply split_frames_f_frames; [exact Hms|exact Ht|lia].
Qed.
Print Assumptions split_frames_of_frames.

(* C02, receiving direction: any partition of the wire bytes into non-empty
   chunks yields the same messages *)
Theorem C02_deframe_any_segmentation :
  forall cap (ms : list bytes) tail (part : list bytes), (1 <= cap)%nat ->
  Forall (fun m => ~ In 0%N m) ms -> ~ In 0%N tail ->
  Forall (fun ch => ch <> []) part ->
  concat_bytes part = concat_bytes (map frame ms) ++ tail ->
  read_all cap 0%N (mkConn [] part) = Some (map frame ms, tail).
Proof.
  intros cap ms tail part Hcap Hms Ht Hpart Hcat.
  rewrite (read_all_spec cap 0%N (mkConn [] part) Hcap Hpart).
  unfold stream_of. cbn [rbuf chunks app]. rewrite Hcat. f_equal.
  exact (split_frames_of_frames 0%N ms tail Hms Ht).
Qed.
Print Assumptions C02_deframe_any_segmentation.

Theorem C02_segmentation_irrelevant : forall cap delim c1 c2,
  (1 <= cap)%nat -> chunks_ok c1 -> chunks_ok c2 ->
  stream_of c1 = stream_of c2 -> read_all cap delim c1 = read_all cap delim c2.
Proof.
  intros cap delim c1 c2 Hcap Hok1 Hok2 Hs.
  rewrite (read_all_spec cap delim c1 Hcap Hok1).
  rewrite (read_all_spec cap delim c2 Hcap Hok2).
  rewrite Hs. reflexivity.
Qed.
Print Assumptions C02_segmentation_irrelevant.

(* ------------------------------------------------------------------ *)
(* the pre-fix raw read                                                *)
(* ------------------------------------------------------------------ *)

(* the pre-fix raw read (straight from the socket, bypassing the buffer)
   violates the stream property *)
Theorem C18_refuted_for_unbuffered_read : exists c c1 r c2,
  chunks_ok c /\ read_bytes 4096 0%N c = Some (RData [65; 0]%N, c1) /\
  read_raw_unbuffered 3 c1 = (r, c2) /\
  [65; 0]%N ++ data_of r ++ stream_of c2 <> stream_of c.
Proof.
  exists (mkConn [] [[65; 0; 88; 89; 90]; [49; 50; 51]]%N).
  exists (mkConn [88; 89; 90]%N [[49; 50; 51]]%N).
  exists (RData [49; 50; 51]%N).
  exists (mkConn [88; 89; 90]%N []).
  split; [|split; [|split]].
  - unfold chunks_ok. cbn [chunks]. repeat constructor; discriminate.
  - vm_compute. reflexivity.
  - vm_compute. reflexivity.
  - vm_compute. intro H. discriminate H.
Qed.
Print Assumptions C18_refuted_for_unbuffered_read.

(* ------------------------------------------------------------------ *)
(* non-vacuity                                                         *)
(* ------------------------------------------------------------------ *)

(* a 10-byte stream arriving in 3 chunks; the second frame straddles two chunks *)
Definition ex_conn : rconn := mkConn [] [[1; 2; 0]; [3; 4; 5]; [6; 0; 7; 8]]%N.

Example ex_conn_ok :
  chunks_ok ex_conn /\ length (stream_of ex_conn) = 10%nat /\
  length (chunks ex_conn) = 3%nat.
Proof.
  split; [|split; reflexivity].
  unfold chunks_ok, ex_conn. cbn [chunks]. repeat constructor; discriminate.
Qed.

(* cap = 4 forces the buffer-full path as well; cap = 4096 is Go's default *)
Example ex_read_all :
  read_all 4 0%N ex_conn = Some ([[1; 2; 0]; [3; 4; 5; 6; 0]]%N, [7; 8]%N) /\
  read_all 4096 0%N ex_conn = Some ([[1; 2; 0]; [3; 4; 5; 6; 0]]%N, [7; 8]%N).
Proof. split; vm_compute; reflexivity. Qed.
