(* Proofs/RegLifeProofs.v — the registry and the life cycle (Model/RegLife.v):
   the single flag of Service.v's registry is [busy]; registration is refused exactly when
   the name is taken or the service is busy; what the handlers read without the mutex
   cannot change while the service is busy. *)
From Coq Require Import List Bool Arith Lia.
From VL Require Import Bytes Lit Service RegLife.
Open Scope nat_scope.

(* states reachable from a fresh service by any events *)
Inductive rl_reach (s0 : rl) : rl -> Prop :=
| rr_init : rl_reach s0 s0
| rr_step : forall s e, rl_reach s0 s -> rl_reach s0 (fst (rl_step s e)).

Definition fresh (s : rl) : Prop := exists v p ver u d, s = rl_init v p ver u d.

(* what handlers read without the mutex *)
Definition reg_view (s : rl) := (r_names (rl_reg s), r_descr (rl_reg s)).

(* ---------- the life-cycle invariant ---------- *)

Definition life_inv (s : rl) : Prop :=
  r_running (rl_reg s) = busy s /\
  (rl_running s = true -> rl_serving s = true) /\
  (rl_serving s = false -> rl_active s = 0).

Lemma life_inv_init : forall s0, fresh s0 -> life_inv s0.
Proof.
  intros s0 (v & p & ver & u & d & E). subst s0.
  unfold life_inv, rl_init, busy; cbn. repeat split; auto; discriminate.
Qed.

Lemma register_running : forall reg name descr,
  r_running (fst (register reg name descr)) = r_running reg.
Proof.
  intros reg name descr. unfold register.
  destruct (registered reg name); [reflexivity|].
  destruct (r_running reg) eqn:R; cbn; auto.
Qed.

Lemma step_register_fst : forall s name descr,
  fst (rl_step s (EvRegister name descr)) =
  mkRL (fst (register (rl_reg s) name descr)) (rl_running s) (rl_active s) (rl_serving s).
Proof.
  intros s name descr. cbn [rl_step].
  destruct (register (rl_reg s) name descr) as [reg' refused]. reflexivity.
Qed.

Lemma step_register_snd : forall s name descr,
  snd (rl_step s (EvRegister name descr)) =
  if snd (register (rl_reg s) name descr) then ORefused else OAccepted.
Proof.
  intros s name descr. cbn [rl_step].
  destruct (register (rl_reg s) name descr) as [reg' refused]. reflexivity.
Qed.

Lemma life_inv_step : forall s e, life_inv s -> life_inv (fst (rl_step s e)).
Proof.
  intros s e (Hf & Hrs & Hsa). unfold life_inv.
  destruct e as [name descr| | | | |].
  - rewrite step_register_fst. cbn [rl_reg rl_running rl_serving rl_active].
    rewrite register_running. unfold busy in *. cbn. auto.
  - destruct s as [reg run act srv]. unfold busy in *. cbn in *.
    destruct srv; cbn; repeat split; auto; discriminate.
  - destruct s as [reg run act srv]. unfold busy in *. cbn in *.
    destruct srv; destruct run; cbn; repeat split; auto; discriminate.
  - destruct s as [reg run act srv]. unfold busy in *. cbn in *.
    destruct act as [|n]; cbn; repeat split; auto.
    intro S1. apply Hsa in S1. discriminate.
  - destruct s as [reg run act srv]. unfold busy in *. cbn in *.
    repeat split; auto; discriminate.
  - destruct s as [reg run act srv]. unfold busy in *. cbn in *.
    destruct (srv && negb run && (act =? 0)); cbn; repeat split; auto; discriminate.
Qed.

Lemma life_inv_reach : forall s0 s, fresh s0 -> rl_reach s0 s -> life_inv s.
Proof.
  intros s0 s F R. induction R as [|s e R IH].
  - apply life_inv_init; assumption.
  - apply life_inv_step; assumption.
Qed.

(* 1 *)
Theorem flag_is_busy : forall s0 s, fresh s0 -> rl_reach s0 s -> r_running (rl_reg s) = busy s.
Proof. intros s0 s F R. apply (life_inv_reach s0 s F R). Qed.

(* ---------- registration: refused exactly when the name is taken or the service is busy ---------- *)

Lemma register_snd : forall reg name descr,
  snd (register reg name descr) = registered reg name || r_running reg.
Proof.
  intros reg name descr. unfold register.
  destruct (registered reg name); [reflexivity|].
  destruct (r_running reg); reflexivity.
Qed.

Lemma register_refused_same : forall reg name descr,
  snd (register reg name descr) = true -> fst (register reg name descr) = reg.
Proof.
  intros reg name descr. unfold register.
  destruct (registered reg name); [reflexivity|].
  destruct (r_running reg); [reflexivity|]. cbn. discriminate.
Qed.

(* 2 *)
Theorem rl_register_refused_iff : forall s0 s name descr, fresh s0 -> rl_reach s0 s ->
  snd (rl_step s (EvRegister name descr)) = ORefused <->
  (registered (rl_reg s) name = true \/ busy s = true).
Proof.
  intros s0 s name descr F R.
  rewrite step_register_snd, register_snd, (flag_is_busy s0 s F R).
  destruct (registered (rl_reg s) name); destruct (busy s); cbn; split; intro H;
    auto; try discriminate.
  destruct H; discriminate.
Qed.

Theorem rl_register_accepted_iff : forall s0 s name descr, fresh s0 -> rl_reach s0 s ->
  snd (rl_step s (EvRegister name descr)) = OAccepted <->
  (registered (rl_reg s) name = false /\ busy s = false).
Proof.
  intros s0 s name descr F R.
  rewrite step_register_snd, register_snd, (flag_is_busy s0 s F R).
  destruct (registered (rl_reg s) name); destruct (busy s); cbn; split; intro H;
    auto; try discriminate; destruct H; discriminate.
Qed.

(* a registration is answered with exactly one of the two *)
Lemma register_outcome : forall s name descr,
  snd (rl_step s (EvRegister name descr)) = ORefused \/
  snd (rl_step s (EvRegister name descr)) = OAccepted.
Proof.
  intros s name descr. rewrite step_register_snd.
  destruct (snd (register (rl_reg s) name descr)); auto.
Qed.

(* 3 *)
Theorem refused_changes_nothing : forall s name descr,
  snd (rl_step s (EvRegister name descr)) = ORefused ->
  fst (rl_step s (EvRegister name descr)) = s.
Proof.
  intros s name descr H. rewrite step_register_snd in H. rewrite step_register_fst.
  destruct (snd (register (rl_reg s) name descr)) eqn:E; [|discriminate].
  rewrite (register_refused_same _ _ _ E). destruct s; reflexivity.
Qed.

(* 4 *)
Theorem only_register_changes_view : forall s e,
  (forall n d, e <> EvRegister n d) -> reg_view (fst (rl_step s e)) = reg_view s.
Proof.
  intros s e H. unfold reg_view.
  destruct e as [name descr| | | | |].
  - exfalso. apply (H name descr). reflexivity.
  - destruct s as [reg run act srv]. cbn. destruct srv; reflexivity.
  - destruct s as [reg run act srv]. cbn. destruct (srv && run); reflexivity.
  - destruct s as [reg run act srv]. cbn. destruct act; reflexivity.
  - destruct s as [reg run act srv]. reflexivity.
  - destruct s as [reg run act srv]. cbn.
    destruct (srv && negb run && (act =? 0)); reflexivity.
Qed.

(* ---------- 5: the protocol argument for the unlocked reads ---------- *)

Theorem view_frozen_while_busy : forall s0 s e, fresh s0 -> rl_reach s0 s ->
  busy s = true -> reg_view (fst (rl_step s e)) = reg_view s.
Proof.
  intros s0 s e F R B.
  destruct e as [name descr| | | | |];
    try (apply only_register_changes_view; intros n d; discriminate).
  rewrite refused_changes_nothing; [reflexivity|].
  apply (rl_register_refused_iff s0 s name descr F R). right. exact B.
Qed.

(* [busy] holds before every step of the run *)
Fixpoint all_busy (s : rl) (es : list rl_ev) : bool :=
  match es with
  | [] => true
  | e :: r => busy s && all_busy (fst (rl_step s e)) r
  end.

Lemma rl_run_cons_fst : forall s e r,
  fst (rl_run s (e :: r)) = fst (rl_run (fst (rl_step s e)) r).
Proof.
  intros s e r. cbn [rl_run]. destruct (rl_step s e) as [s1 o]. cbn [fst].
  destruct (rl_run s1 r) as [s2 os]. reflexivity.
Qed.

Lemma rl_run_cons_snd : forall s e r,
  snd (rl_run s (e :: r)) = snd (rl_step s e) :: snd (rl_run (fst (rl_step s e)) r).
Proof.
  intros s e r. cbn [rl_run]. destruct (rl_step s e) as [s1 o]. cbn [fst snd].
  destruct (rl_run s1 r) as [s2 os]. reflexivity.
Qed.

Lemma reach_run : forall s0 s es, rl_reach s0 s -> rl_reach s0 (fst (rl_run s es)).
Proof.
  intros s0 s es. revert s. induction es as [|e r IH]; intros s R.
  - exact R.
  - rewrite rl_run_cons_fst. apply IH. apply rr_step. exact R.
Qed.

Theorem view_frozen_along_busy_run : forall s0 s es, fresh s0 -> rl_reach s0 s ->
  all_busy s es = true -> reg_view (fst (rl_run s es)) = reg_view s.
Proof.
  intros s0 s es F. revert s. induction es as [|e r IH]; intros s R A.
  - reflexivity.
  - cbn [all_busy] in A. apply andb_true_iff in A. destruct A as [B A].
    rewrite rl_run_cons_fst, (IH _ (rr_step s0 s e R) A).
    apply (view_frozen_while_busy s0 s e F R B).
Qed.

(* ---------- 6: running implies a serving call; connections only during a serving call ---------- *)

Theorem active_counts : forall s0 s, fresh s0 -> rl_reach s0 s ->
  (rl_serving s = false -> rl_running s = false) /\
  (rl_running s = true -> rl_serving s = true).
Proof.
  intros s0 s F R. destruct (life_inv_reach s0 s F R) as (_ & Hrs & _).
  split; [|exact Hrs].
  intro S1. destruct (rl_running s); [|reflexivity].
  rewrite Hrs in S1 by reflexivity. discriminate.
Qed.

(* EvAccept needs a serving call, EvReturn needs active = 0 *)
Theorem idle_when_not_serving : forall s0 s, fresh s0 -> rl_reach s0 s ->
  rl_serving s = false -> rl_active s = 0.
Proof. intros s0 s F R. apply (life_inv_reach s0 s F R). Qed.

Corollary not_serving_not_busy : forall s0 s, fresh s0 -> rl_reach s0 s ->
  rl_serving s = false -> busy s = false.
Proof.
  intros s0 s F R S1. unfold busy.
  rewrite (idle_when_not_serving s0 s F R S1).
  destruct (active_counts s0 s F R) as [H _]. rewrite (H S1). reflexivity.
Qed.

(* ---------- 7: names stay duplicate-free and keep their order ---------- *)

Definition names_inv (reg : registry) : Prop :=
  NoDup (r_names reg) /\
  hd_error (r_names reg) = Some org_varlink_service /\
  map fst (r_descr reg) = r_names reg.

Lemma registered_false_not_in : forall reg name,
  registered reg name = false -> ~ In name (r_names reg).
Proof.
  intros reg name H I. unfold registered in H.
  assert (E : existsb (bytes_eqb name) (r_names reg) = true).
  { apply existsb_exists. exists name. split; [exact I|apply bytes_eqb_refl]. }
  rewrite E in H. discriminate.
Qed.

Lemma registered_true_in : forall reg name,
  registered reg name = true -> In name (r_names reg).
Proof.
  intros reg name H. unfold registered in H.
  apply existsb_exists in H. destruct H as (x & I & E).
  apply bytes_eqb_eq in E. subst x. exact I.
Qed.

Lemma NoDup_snoc : forall (A : Type) (l : list A) (x : A),
  NoDup l -> ~ In x l -> NoDup (l ++ [x]).
Proof.
  intros A l x N. induction N as [|y l Hy N IH]; intro NI; cbn.
  - constructor; [intros []|constructor].
  - constructor.
    + intro I. apply in_app_or in I. destruct I as [I|[I|[]]].
      * contradiction.
      * apply NI. left. symmetry. exact I.
    + apply IH. intro I. apply NI. right. exact I.
Qed.

Lemma names_inv_register : forall reg name descr,
  names_inv reg -> names_inv (fst (register reg name descr)).
Proof.
  intros reg name descr (N & H & M). unfold register.
  destruct (registered reg name) eqn:Rg; [repeat split; assumption|].
  destruct (r_running reg); [repeat split; assumption|].
  unfold names_inv. cbn. repeat split.
  - apply NoDup_snoc; [exact N|]. apply registered_false_not_in. exact Rg.
  - destruct (r_names reg) as [|x l]; [discriminate|exact H].
  - rewrite map_app, M. reflexivity.
Qed.

Lemma names_inv_step : forall s e, names_inv (rl_reg s) -> names_inv (rl_reg (fst (rl_step s e))).
Proof.
  intros s e H. destruct e as [name descr| | | | |].
  - rewrite step_register_fst. cbn [rl_reg]. apply names_inv_register. exact H.
  - destruct s as [reg run act srv]. cbn in *. destruct srv; exact H.
  - destruct s as [reg run act srv]. cbn in *. destruct (srv && run); exact H.
  - destruct s as [reg run act srv]. cbn in *. destruct act; exact H.
  - destruct s as [reg run act srv]. exact H.
  - destruct s as [reg run act srv]. cbn in *.
    destruct (srv && negb run && (act =? 0)); exact H.
Qed.

Theorem names_nodup : forall s0 s, fresh s0 -> rl_reach s0 s ->
  NoDup (r_names (rl_reg s)) /\
  hd_error (r_names (rl_reg s)) = Some org_varlink_service /\
  map fst (r_descr (rl_reg s)) = r_names (rl_reg s).
Proof.
  intros s0 s F R. change (names_inv (rl_reg s)). induction R as [|s e R IH].
  - destruct F as (v & p & ver & u & d & E). subst s0.
    unfold names_inv, rl_init, new_service. cbn [rl_reg r_names r_descr map fst hd_error].
    repeat split. constructor; [intros []|constructor].
  - apply names_inv_step. exact IH.
Qed.

(* ---------- 8: a history that exercises all three answers ---------- *)

Example drain_history :
  snd (rl_run (rl_init [118%N] [112%N] [49%N] [117%N] [])
         (events_of RListen ++ [EvRegister [97%N;46%N;98%N] []] ++
          events_of RShutdownKeep ++ [EvRegister [97%N;46%N;98%N] []] ++
          events_of RDrop ++ [EvRegister [97%N;46%N;98%N] []]))
  = [ODone; ODone; ORefused; ODone; ORefused; ODone; ODone; OAccepted].
Proof. vm_compute. reflexivity. Qed.

(* the final state of that history: idle, and the name is now registered *)
Example drain_history_final :
  let s := fst (rl_run (rl_init [118%N] [112%N] [49%N] [117%N] [])
         (events_of RListen ++ [EvRegister [97%N;46%N;98%N] []] ++
          events_of RShutdownKeep ++ [EvRegister [97%N;46%N;98%N] []] ++
          events_of RDrop ++ [EvRegister [97%N;46%N;98%N] []])) in
  busy s = false /\ rl_serving s = false /\
  r_names (rl_reg s) = [org_varlink_service; [97%N;46%N;98%N]].
Proof. vm_compute. repeat split. Qed.

Print Assumptions flag_is_busy.
Print Assumptions rl_register_refused_iff.
Print Assumptions rl_register_accepted_iff.
Print Assumptions refused_changes_nothing.
Print Assumptions only_register_changes_view.
Print Assumptions view_frozen_while_busy.
Print Assumptions view_frozen_along_busy_run.
Print Assumptions active_counts.
Print Assumptions idle_when_not_serving.
Print Assumptions names_nodup.
