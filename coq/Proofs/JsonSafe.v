(* Proofs/JsonSafe.v — summary: nothing the JSON encoder writes contains a
   control byte (so no NUL before the frame terminator).
   JsonSafeA: strings, numbers, value trees, replies, calls, frames.
   JsonSafeB: one-step equations for the scanner and compact_f.
   JsonSafeC: Marshal of a json.RawMessage (compact_raw). *)
From VL Require Import Bytes Lit Json Wire Service Client.
From VL Require Export JsonSafeA JsonSafeB JsonSafeC.
Open Scope N_scope.

(* the three kinds of parameters a handler / caller can pass that go through
   Marshal; PEnc (the library's own structs) is covered when its encoding is *)
Corollary enc_params_no_ctl : forall p ps,
  (forall enc, p = PEnc enc -> no_ctl enc) ->
  enc_params p = Some ps -> forall b0, ps = Some b0 -> no_ctl b0.
Proof.
  intros p ps Henc H b0 Hb. subst ps. destruct p as [|v|raw|enc]; cbn [enc_params] in H.
  - discriminate.
  - destruct (marshal_value v) as [x|] eqn:E; [|discriminate].
    inversion H; subst. apply (marshal_value_no_ctl _ _ E).
  - destruct (compact_raw raw) as [x|] eqn:E; [|discriminate].
    inversion H; subst. apply (compact_raw_no_ctl _ _ E).
  - inversion H; subst. apply Henc. reflexivity.
Qed.

Check encode_string_no_ctl : forall s, no_ctl (encode_string s).
Check num_ok_no_ctl : forall t, num_ok t = true -> no_ctl t.
Check marshal_value_no_ctl : forall v b, marshal_value v = Some b -> no_ctl b.
Check compact_raw_no_ctl : forall raw c, compact_raw raw = Some c -> no_ctl c.
Check encode_reply_no_ctl : forall ps cont err,
  (forall p, ps = Some p -> no_ctl p) -> no_ctl (encode_reply ps cont err).
Check encode_call_no_ctl : forall m ps mo ow up,
  (forall p, ps = Some p -> no_ctl p) -> no_ctl (encode_call m ps mo ow up).
Check std_params_no_ctl : forall k arg, no_ctl (std_params k arg).
Check frame_one_nul : forall b0 k, no_ctl b0 -> cut_at 0 (frame b0 ++ k) = Some (frame b0, k).

Print Assumptions encode_string_no_ctl.
Print Assumptions num_ok_no_ctl.
Print Assumptions marshal_value_no_ctl.
Print Assumptions compact_raw_no_ctl.
Print Assumptions encode_reply_no_ctl.
Print Assumptions encode_call_no_ctl.
Print Assumptions std_params_no_ctl.
Print Assumptions frame_one_nul.
Print Assumptions enc_params_no_ctl.
