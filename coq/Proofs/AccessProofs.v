(* Proofs/AccessProofs.v — what the decidable lock discipline [table_ok] buys (C16). *)
From VL Require Import Bytes Access.
Open Scope N_scope.

Lemma mem_In : forall x l, mem x l = true -> exists y, In y l /\ bytes_eqb x y = true.
Proof. intros x l H. unfold mem in H. apply existsb_exists in H. exact H. Qed.

(* every pair of conflicting accesses of a table that satisfies the discipline is either ordered by the
   mutex (both under the lock) or belongs to one of the three protocol-ordered classes *)
Theorem table_ok_sound : forall t a c, table_ok t = true -> In a t -> In c t -> conflict a c = true ->
  (a_locked a = true /\ a_locked c = true) \/ protocol_ordered a c = true.
Proof.
  intros t a c Hok Ha Hc Hcf.
  unfold table_ok in Hok. apply andb_true_iff in Hok. destruct Hok as [Hall _].
  rewrite forallb_forall in Hall. pose proof (Hall a Ha) as Ra. pose proof (Hall c Hc) as Rc.
  unfold conflict in Hcf. apply andb_true_iff in Hcf. destruct Hcf as [Hcf Hw].
  apply andb_true_iff in Hcf. destruct Hcf as [Heq Hd]. apply bytes_eqb_eq in Heq.
  unfold rule in Ra, Rc. cbv zeta in Ra, Rc. rewrite <- Heq in Rc. unfold protocol_ordered. cbv zeta.
  destruct (mem (a_field a) counters) eqn:E1.
  - left. split; assumption.
  - destruct (bytes_eqb (a_field a) f_listener) eqn:E2.
    + cbn [andb].
      destruct (is_write a) eqn:Wa; destruct (is_write c) eqn:Wc; try discriminate.
      * left; split; assumption.
      * apply orb_true_iff in Rc. destruct Rc as [Rc|Rc]; [left; split; assumption|].
        right. rewrite Rc. rewrite orb_true_r. reflexivity.
      * apply orb_true_iff in Ra. destruct Ra as [Ra|Ra]; [left; split; assumption|].
        right. rewrite Ra. reflexivity.
    + destruct (mem (a_field a) registry_fields) eqn:E3.
      * right. cbn [andb orb]. reflexivity.
      * destruct (mem (a_field a) addr_fields) eqn:E4.
        -- right. cbn [andb orb]. reflexivity.
        -- destruct (mem (a_field a) const_fields) eqn:E5.
           ++ apply negb_true_iff in Ra. apply negb_true_iff in Rc. rewrite Ra, Rc in Hw. discriminate.
           ++ exfalso. unfold data_fields in Hd. unfold mem in Hd, E1, E3, E4, E5.
              rewrite !existsb_app in Hd. cbn [existsb] in Hd.
              rewrite E1, E3, E4, E5, E2 in Hd. discriminate.
Qed.
Print Assumptions table_ok_sound.

(* registry writes happen only in RegisterInterface, under the lock, in a section that reads flag and counter *)
Theorem registry_writes_guarded : forall t a, table_ok t = true -> In a t -> mem (a_field a) registry_fields = true -> is_write a = true ->
  a_locked a = true /\ a_fn a = fn_RegisterInterface /\ guard_present t = true.
Proof.
  intros t a Hok Ha Hf Hw. unfold table_ok in Hok. apply andb_true_iff in Hok. destruct Hok as [Hall Hg].
  rewrite forallb_forall in Hall. pose proof (Hall a Ha) as Ra. unfold rule in Ra. cbv zeta in Ra.
  assert (E12 : mem (a_field a) counters = false /\ bytes_eqb (a_field a) f_listener = false).
  { pose proof Hf as Hf'. unfold mem, registry_fields in Hf'. cbn [existsb] in Hf'.
    rewrite !orb_true_iff in Hf'.
    destruct Hf' as [Hf'|[Hf'|[Hf'|Hf']]]; try discriminate;
      apply bytes_eqb_eq in Hf'; rewrite Hf'; split; vm_compute; reflexivity. }
  destruct E12 as [E1 E2]. rewrite E1 in Ra.
  rewrite E2, Hf, Hw in Ra. apply andb_true_iff in Ra. destruct Ra as [Rl Rf]. apply bytes_eqb_eq in Rf.
  repeat split; assumption.
Qed.
Print Assumptions registry_writes_guarded.

(* counters are only ever touched under the lock *)
Theorem counters_always_locked : forall t a, table_ok t = true -> In a t -> mem (a_field a) counters = true -> a_locked a = true.
Proof.
  intros t a Hok Ha Hf. unfold table_ok in Hok. apply andb_true_iff in Hok. destruct Hok as [Hall _].
  rewrite forallb_forall in Hall. pose proof (Hall a Ha) as Ra. unfold rule in Ra. cbv zeta in Ra. rewrite Hf in Ra. exact Ra.
Qed.
Print Assumptions counters_always_locked.
