(* Proofs/DuplexProofs.v — one connection used in both directions at once (Model/Duplex.v).
   With conn.go's sharing discipline (each direction sets its own deadline, every call has its own
   channel) the two operations do not interfere: every duplex run projects onto two Ctxio runs and
   every pair of Ctxio runs is a duplex run, so the single-operation theorems of CtxioProofs.v lift.
   The two ways to get it wrong (one SetDeadline for both directions; one completion channel for
   both operations) are refuted by concrete runs. *)
From Coq Require Import List Bool Arith Lia.
From VL Require Import Bytes Ctxio Duplex CtxioProofs.
Import ListNotations.
Open Scope nat_scope.

(* ---------- 1. non-interference, one step ---------- *)

Theorem own_step_is_local : forall s who l s',
  dstep own_scope false s who l = Some s' ->
  cstep (get who s) l = Some (get who s') /\ get (flip who) s' = get (flip who) s.
Proof.
  intros s who l s' H. unfold dstep, own_scope in H.
  destruct s as [r w].
  destruct who; cbn [get flip dir_eqb andb put d_rd d_wr] in *.
  - destruct (cstep r l) as [c|] eqn:E; [|discriminate H].
    inversion H; subst; clear H. cbn [d_rd d_wr]. split; reflexivity.
  - destruct (cstep w l) as [c|] eqn:E; [|discriminate H].
    inversion H; subst; clear H. cbn [d_rd d_wr]. split; reflexivity.
Qed.

Theorem own_step_is_local_conv : forall s who l c',
  cstep (get who s) l = Some c' -> dstep own_scope false s who l = Some (put who s c').
Proof.
  intros s who l c' H. unfold dstep, own_scope.
  destruct s as [r w].
  destruct who; cbn [get flip dir_eqb andb put d_rd d_wr] in *; rewrite H; reflexivity.
Qed.

(* ---------- 2. projection of runs, and interleaving ---------- *)

Theorem own_reach_projects : forall r0 w0 s,
  dreach own_scope false (mkD r0 w0) s -> creach r0 (d_rd s) /\ creach w0 (d_wr s).
Proof.
  intros r0 w0 s Hr. induction Hr as [|s who l s' Hr [IHr IHw] Hst].
  - cbn [d_rd d_wr]. split; apply cr_init.
  - apply own_step_is_local in Hst. destruct Hst as [Hme Hother].
    destruct who; cbn [get flip] in *.
    + split; [eapply cr_step; eauto | rewrite Hother; exact IHw].
    + split; [rewrite Hother; exact IHr | eapply cr_step; eauto].
Qed.

Lemma own_reach_wr : forall r0 w0 w,
  creach w0 w -> dreach own_scope false (mkD r0 w0) (mkD r0 w).
Proof.
  intros r0 w0 w Hw. induction Hw as [|w1 l w2 Hw IH Hst].
  - apply dr_init.
  - eapply dr_step with (w := Wr) (l := l); [exact IH|].
    apply (own_step_is_local_conv (mkD r0 w1) Wr l w2). exact Hst.
Qed.

Theorem own_reach_interleaves : forall r0 w0 r w,
  creach r0 r -> creach w0 w -> dreach own_scope false (mkD r0 w0) (mkD r w).
Proof.
  intros r0 w0 r w Hr Hw. induction Hr as [|r1 l r2 Hr IH Hst].
  - apply own_reach_wr. exact Hw.
  - eapply dr_step with (w := Rd) (l := l); [exact IH|].
    apply (own_step_is_local_conv (mkD r1 w) Rd l r2). exact Hst.
Qed.

(* the two together: reachable duplex states = pairs of reachable Ctxio states *)
Corollary own_reach_iff : forall r0 w0 s,
  dreach own_scope false (mkD r0 w0) s <-> creach r0 (d_rd s) /\ creach w0 (d_wr s).
Proof.
  intros r0 w0 s. split; [apply own_reach_projects|].
  intros [Hr Hw]. destruct s as [r w]. cbn [d_rd d_wr] in *. apply own_reach_interleaves; assumption.
Qed.

(* ---------- 3. lifted guarantees ---------- *)

Theorem duplex_live_write_unaffected : forall leftr hdr er cr avr leftw hdw ew cw avw hon s,
  dreach own_scope false (mkD (c_init leftr hdr er cr hon avr) (c_init leftw hdw ew cw hon avw)) s ->
  done_ctx (d_wr s) = false ->
  helper (d_wr s) <> HDone HTimeout /\ chan (d_wr s) <> Some HTimeout /\
  (forall r, pc (d_wr s) = PRet r -> r <> CTimeout /\ r <> CCtxErr) /\ discarded (d_wr s) = 0.
Proof.
  intros leftr hdr er cr avr leftw hdw ew cw avw hon s Hr Hd.
  apply own_reach_projects in Hr. destruct Hr as [_ Hw].
  destruct (T3_no_stale_deadline_gen _ _ _ _ _ _ _ Hw Hd) as (A & B & C).
  pose proof (T4_live_context_loses_nothing_gen _ _ _ _ _ _ _ Hw Hd) as D.
  split; [exact A|]. split; [exact B|]. split; [|exact D].
  intros r0 Hp. exact (C r0 Hp).
Qed.

Theorem duplex_live_read_unaffected : forall leftr hdr er cr avr leftw hdw ew cw avw hon s,
  dreach own_scope false (mkD (c_init leftr hdr er cr hon avr) (c_init leftw hdw ew cw hon avw)) s ->
  done_ctx (d_rd s) = false ->
  helper (d_rd s) <> HDone HTimeout /\ chan (d_rd s) <> Some HTimeout /\
  (forall r, pc (d_rd s) = PRet r -> r <> CTimeout /\ r <> CCtxErr) /\ discarded (d_rd s) = 0.
Proof.
  intros leftr hdr er cr avr leftw hdw ew cw avw hon s Hr Hd.
  apply own_reach_projects in Hr. destruct Hr as [Hrd _].
  destruct (T3_no_stale_deadline_gen _ _ _ _ _ _ _ Hrd Hd) as (A & B & C).
  pose proof (T4_live_context_loses_nothing_gen _ _ _ _ _ _ _ Hrd Hd) as D.
  split; [exact A|]. split; [exact B|]. split; [|exact D].
  intros r0 Hp. exact (C r0 Hp).
Qed.

(* ---------- 4. the two ways to get it wrong ---------- *)

Lemma dreach_trans_run : forall scope sc s0 s ls s',
  dreach scope sc s0 s -> drun scope sc s ls = Some s' -> dreach scope sc s0 s'.
Proof.
  intros scope sc s0 s ls. revert s. induction ls as [|[w l] r IH]; intros s s' Hr Hrun; cbn [drun] in Hrun.
  - inversion Hrun; subst; exact Hr.
  - destruct (dstep scope sc s w l) as [s1|] eqn:E; [|discriminate Hrun].
    eapply IH; [eapply dr_step; eauto | exact Hrun].
Qed.

Definition idle0 : cst := c_init DNone false false false true 0.

(* (a) one SetDeadline for both directions: cancelling the read fails the live, deadline-free write *)
Definition shared_deadline_run : list (dir * clabel) :=
  [ (Rd, LCaller); (Rd, LCaller);            (* read: PStart, PSpawn -> PSelect, helper blocked *)
    (Wr, LCaller); (Wr, LCaller);            (* write: the same *)
    (Rd, LCancel);                           (* the read's context is cancelled *)
    (Rd, LCaller);                           (* read: ctx.Done() wins -> PForce *)
    (Rd, LCaller);                           (* read: SetDeadline(aLongTimeAgo) -- hits the write side too *)
    (Wr, LHelperTimeout);                    (* the blocked write fails with a timeout *)
    (Wr, LHelperSend); (Wr, LCallerRecv) ].  (* ... and the write's caller returns it *)

Definition shared_deadline_final : dst :=
  mkD (mkC PJoin HBlocked None DPast false false true 0 false true 0 0 0)
      (mkC (PRet CTimeout) HGone None DPast false false false 0 false true 0 0 0).

Example shared_deadline_run_ok :
  drun both_scope false (mkD idle0 idle0) shared_deadline_run = Some shared_deadline_final.
Proof. vm_compute. reflexivity. Qed.

Theorem shared_deadline_refuted :
  exists ls s, drun both_scope false (mkD (c_init DNone false false false true 0) (c_init DNone false false false true 0)) ls = Some s /\
               cancelled (d_wr s) = false /\ has_deadline (d_wr s) = false /\ pc (d_wr s) = PRet CTimeout.
Proof.
  exists shared_deadline_run, shared_deadline_final.
  split; [exact shared_deadline_run_ok|]. repeat split; reflexivity.
Qed.

(* the same run, read against the lifted guarantee 3(a): its conclusion fails under [both_scope] *)
Corollary shared_deadline_breaks_guarantee :
  exists s, dreach both_scope false (mkD idle0 idle0) s /\ done_ctx (d_wr s) = false /\
            ~ (forall r, pc (d_wr s) = PRet r -> r <> CTimeout /\ r <> CCtxErr).
Proof.
  exists shared_deadline_final. split; [|split].
  - eapply dreach_trans_run; [apply dr_init | exact shared_deadline_run_ok].
  - reflexivity.
  - intros X. destruct (X CTimeout eq_refl) as [Y _]. apply Y. reflexivity.
Qed.

(* ... and the same labels with conn.go's scoping are not even a run: the write never times out *)
Example shared_deadline_run_own_scope :
  drun own_scope false (mkD idle0 idle0) shared_deadline_run = None.
Proof. vm_compute. reflexivity. Qed.

(* (b) one completion channel for both operations: the read returns the write's result *)
Definition shared_channel_run : list (dir * clabel) :=
  [ (Rd, LCaller); (Rd, LCaller);            (* read: -> PSelect, helper blocked, nothing to read *)
    (Wr, LCaller); (Wr, LCaller);            (* write: -> PSelect, helper blocked *)
    (Wr, LHelperData);                       (* the write completes: 5 bytes written *)
    (Wr, LHelperSend);                       (* its helper sends HData 5 on THE channel *)
    (Rd, LCallerRecv) ].                     (* the read's select receives it *)

Definition shared_channel_final : dst :=
  mkD (mkC (PRet (CData 5)) HBlocked None DNone false false false 0 false true 5 0 0)
      (mkC PSelect HGone None DNone false false false 0 false true 0 0 5).

Example shared_channel_run_ok :
  drun own_scope true (mkD idle0 (c_init DNone false false false true 5)) shared_channel_run
  = Some shared_channel_final.
Proof. vm_compute. reflexivity. Qed.

Theorem shared_channel_refuted :
  exists ls s n, drun own_scope true (mkD (c_init DNone false false false true 0) (c_init DNone false false false true 5)) ls = Some s /\
                 sent (d_rd s) = 0 /\ pc (d_rd s) = PRet (CData n) /\ 0 < n /\ 0 < delivered (d_rd s).
Proof.
  exists shared_channel_run, shared_channel_final, 5.
  split; [exact shared_channel_run_ok|]. cbn [shared_channel_final d_rd sent pc delivered].
  repeat split; lia.
Qed.

(* consequences of that run: with a shared channel the projections are not Ctxio runs (the read side
   breaks T4's byte accounting: it delivered 5 bytes of which none was ever sent to it), ... *)
Corollary shared_channel_projection_fails :
  exists s, dreach own_scope true (mkD idle0 (c_init DNone false false false true 5)) s /\
            ~ creach idle0 (d_rd s) /\ ~ creach (c_init DNone false false false true 5) (d_wr s).
Proof.
  exists shared_channel_final. split; [|split].
  - eapply dreach_trans_run; [apply dr_init | exact shared_channel_run_ok].
  - intros X. apply T4_accounting in X. vm_compute in X. discriminate X.
  - (* the write side: helper gone, channel empty, caller still in the select (refuted by T1's shape) *)
    intros X. apply shape_reach in X. exact X.
Qed.

(* ... and the write, whose result was stolen, is blocked although its helper has finished and its
   context is live: none of its own internal steps is enabled (in Ctxio alone [shape] excludes this
   state; here it can only ever return by receiving, in turn, a later result of the READ's helper) *)
Corollary shared_channel_write_blocked :
  helper (d_wr shared_channel_final) = HGone /\ done_ctx (d_wr shared_channel_final) = false /\
  (forall r, pc (d_wr shared_channel_final) <> PRet r) /\
  forall l, internal l = true -> dstep own_scope true shared_channel_final Wr l = None.
Proof.
  split; [reflexivity|]. split; [reflexivity|]. split.
  - intros r X. discriminate X.
  - intros l Hi. destruct l; try discriminate Hi; vm_compute; reflexivity.
Qed.

Print Assumptions own_step_is_local.
Print Assumptions own_step_is_local_conv.
Print Assumptions own_reach_projects.
Print Assumptions own_reach_interleaves.
Print Assumptions own_reach_iff.
Print Assumptions duplex_live_write_unaffected.
Print Assumptions duplex_live_read_unaffected.
Print Assumptions shared_deadline_refuted.
Print Assumptions shared_deadline_breaks_guarantee.
Print Assumptions shared_channel_refuted.
Print Assumptions shared_channel_projection_fails.
Print Assumptions shared_channel_write_blocked.
