(* Proofs/LifeProofsC.v — progress: after a Shutdown, and on an idle timeout, the serving call returns. *)
From VL Require Import Bytes Lifecycle LifeProofsA LifeProofsB.
Open Scope nat_scope.

(* the steps of the serving call and of the handlers themselves *)
Definition internal (l : label) : bool :=
  match l with LServe | LAcceptClosed | LHandlerExit _ => true | _ => false end.

(* hypotheses: the listener is closed (a Shutdown has completed) and every accepted connection has ended *)
Record drained (s : lstate) : Prop := mkDrained {
  d_inv : Inv s;
  d_closed : no_open_cur s;
  d_noserved : forall c, conn_st s c <> CServed;
  d_hand : forall c, holder (serve s) = Some c -> conn_st s c = CEnded }.

Definition rank (p : spc) : nat :=
  match p with
  | SNone => 0 | SWait _ => 1 | STeardown _ => 2 | SAcceptErr => 3 | SAccept => 4 | SRefresh => 5
  | SLoopHead => 6 | SSetRunning => 7 | STimeout => 7 | SEnter => 8
  | SSpawn _ => 8 | SAdd _ => 9 | SGot _ => 10
  end.

Definition mu (s : lstate) : nat := rank (serve s) + live s.

Lemma mu_bound : forall s, mu s <= 10 + live s.
Proof. intro s. unfold mu. destruct (serve s); simpl; lia. Qed.

Lemma mu_via_counter : forall s, Inv s -> mu s = rank (serve s) + (conncounter s - inflight_counter (serve s)).
Proof. intros s HI. unfold mu. rewrite (i_cnt _ HI). lia. Qed.

Lemma internal_ok : forall s l, internal l = true -> ok_label s l.
Proof. intros s l H. destruct l; simpl in *; auto; discriminate. Qed.

Lemma no_open_cur_internal : forall s l s', no_open_cur s -> internal l = true -> lstep s l = Some s' -> no_open_cur s'.
Proof.
  intros s l s' Hn Hi H. unfold no_open_cur in *.
  destruct (objs_step _ _ _ H) as [[E1 E2]|[[_ [_ [Hb _]]]|[[j [q [El [Ho _]]]]|[[j [El [E1 [_ E2]]]]|[_ [E2 _]]]]]].
  - rewrite E1, E2. auto.
  - exfalso. destruct Hb as [Hb|[t Hb]]; subst l; discriminate.
  - rewrite (Hn j El) in Ho. discriminate.
  - intros i Ei. rewrite E1. destruct E2 as [E2|E2]; rewrite E2 in Ei; inversion Ei; subst. apply oopen_close_self.
  - intros i Ei. congruence.
Qed.

Lemma nth_drop_all_cases : forall q cs c d, nth c (drop_all q cs) d = nth c cs d \/ nth c (drop_all q cs) d = CDropped.
Proof.
  intro q. induction q as [|a q IH]; intros cs c d; [left; reflexivity|].
  unfold drop_all in *. simpl. destruct (IH (set_nth a CDropped cs) c d) as [E|E]; [|right; auto].
  rewrite E, nth_set_nth. destruct (Nat.eqb a c); auto. destruct (Nat.ltb a (length cs)); auto.
Qed.

(* a live handler that can run its exit *)
Lemma live_exit_enabled : forall s, drained s -> 0 < live s ->
  exists c s', lstep s (LHandlerExit c) = Some s'.
Proof.
  intros s Hd Hl. unfold live in Hl. destruct (count_live_pos _ _ _ Hl) as [c [Lc Hc]]. simpl in Hc.
  assert (Hst : conn_st s c = CEnded).
  { pose proof (d_noserved _ Hd c) as Hn. unfold conn_st in *.
    destruct (nth c (conns s) CRefused); simpl in Hc; try discriminate; auto. congruence. }
  exists c. simpl. rewrite Hst. unfold conn_st in Hst. rewrite Hst in Hc. simpl in Hc.
  destruct (serve s); eauto; destruct (Nat.eqb c c0); simpl in Hc; try discriminate; eauto.
Qed.

Lemma serve_enabled : forall s, serve s <> SNone -> serve s <> SAccept ->
  (forall r, serve s = SWait r -> wg s = 0) -> exists s', lstep s LServe = Some s'.
Proof.
  intros s H1 H2 H3. simpl. destruct (serve s) eqn:Es; try congruence; unfold cur_obj; eauto.
  - destruct (listener s); eauto.
  - destruct (running s); eauto.
  - destruct (listener s); [destruct (lo_open _)|]; eauto.
  - destruct (Nat.eqb _ _); eauto.
  - destruct (running s); eauto.
  - destruct (listener s) as [i|]; [destruct (close_obj s i)|]; eauto.
  - rewrite (H3 r eq_refl). simpl. eauto.
Qed.

(* some internal step is always enabled until the call has returned *)
Theorem internal_enabled : forall s, drained s -> serve s <> SNone ->
  exists l s', internal l = true /\ lstep s l = Some s'.
Proof.
  intros s Hd Hs. destruct (serve s) eqn:Es; try congruence;
    try (assert (He : exists s', lstep s LServe = Some s')
           by (apply serve_enabled; [congruence|congruence|intros ? E; congruence]);
         destruct He as [s' H]; exists LServe, s'; split; [reflexivity|exact H]).
  - (* SAccept *)
    exists LAcceptClosed. simpl. rewrite Es. pose proof (cur_closed _ (d_closed _ Hd)) as Hc.
    destruct (cur_obj s) as [o|]; [rewrite Hc|]; eauto.
  - (* SWait *)
    destruct (Nat.eq_dec (wg s) 0) as [E|E].
    + assert (He : exists s', lstep s LServe = Some s')
        by (apply serve_enabled; [congruence|congruence|intros; auto]).
      destruct He as [s' H]. exists LServe, s'. split; [reflexivity|exact H].
    + pose proof (i_wg _ (d_inv _ Hd)) as Hw. rewrite Es in Hw. simpl in Hw.
      destruct (live_exit_enabled s Hd) as [c [s' H]]; [lia|].
      exists (LHandlerExit c), s'. split; [reflexivity|exact H].
Qed.
Print Assumptions internal_enabled.

Lemma ended_live_pos : forall s c, conn_st s c = CEnded -> holder (serve s) <> Some c -> 0 < live s.
Proof.
  intros s c Hc Hh. destruct (Nat.eq_dec (live s) 0) as [E|E]; [|lia]. exfalso.
  unfold live, conn_st in *.
  assert (L : c < length (conns s)). { apply nth_lt_of_ne_default with (d := CRefused). rewrite Hc. discriminate. }
  pose proof (count_live_zero _ _ _ E c L) as Hz. simpl in Hz. rewrite Hc in Hz.
  rewrite live_ended_free in Hz by auto. discriminate.
Qed.

Ltac pc_case H Hns Hh :=
  inversion H; subst; split;
  [ constructor; auto; unfold conn_st in *; fields; auto; simpl holder;
    intros ? E; try discriminate; inversion E; subst; apply Hh; reflexivity
  | fields; simpl; lia ].

(* every internal step preserves the hypotheses and strictly decreases the measure *)
Theorem internal_step : forall s l s', drained s -> internal l = true -> lstep s l = Some s' ->
  drained s' /\ mu s' < mu s.
Proof.
  intros s l s' Hd Hi H.
  pose proof (d_inv _ Hd) as HI.
  assert (HI' : Inv s') by (eapply Inv_step; eauto; apply internal_ok; auto).
  assert (Hn' : no_open_cur s') by (eapply no_open_cur_internal; eauto using d_closed).
  rewrite (mu_via_counter s HI), (mu_via_counter s' HI').
  pose proof (i_cnt _ HI) as Hcnt.
  destruct Hd as [_ Hn Hns Hh].
  destruct l; try discriminate.
  - (* LServe *)
    simpl in H. destruct (serve s) eqn:Es; try discriminate; unfold upd_serve in H; simpl in Hcnt.
    + destruct (listener s); pc_case H Hns Hh.
    + pc_case H Hns Hh.
    + destruct (running s); [destruct (tmo s)|]; pc_case H Hns Hh.
    + destruct (cur_obj s) as [o|]; [destruct (lo_open o)|]; pc_case H Hns Hh.
    + destruct (Nat.eqb _ _); pc_case H Hns Hh.
    + destruct (running s); pc_case H Hns Hh.
    + pc_case H Hns Hh.
    + pc_case H Hns Hh.
    + (* SSpawn *)
      rewrite (Hh c eq_refl) in H. inversion H; subst s'. split; [|fields; simpl; lia].
      constructor; auto; unfold conn_st in *; fields; [|simpl; discriminate].
      intros c'. rewrite nth_set_nth. destruct (Nat.eqb c c'); auto.
      destruct (Nat.ltb c (length (conns s))); [discriminate|auto].
    + (* STeardown *)
      destruct (listener s) as [i|].
      * change (close_obj s i) with (set_nth i dobj (objs s), drop_all (qof (objs s) i) (conns s)) in H.
        cbv beta iota in H. inversion H; subst s'. split; [|fields; simpl; lia].
        constructor; auto; unfold conn_st in *; fields; [|simpl; discriminate].
        intros c'. change (nth c' (drop_all (qof (objs s) i) (conns s)) CRefused <> CServed).
        destruct (nth_drop_all_cases (qof (objs s) i) (conns s) c' CRefused) as [E|E]; rewrite E; auto.
        discriminate.
      * pc_case H Hns Hh.
    + destruct (Nat.eqb _ _); [|discriminate]. pc_case H Hns Hh.
  - (* LAcceptClosed *)
    simpl in H. destruct (serve s) eqn:Es; try discriminate; unfold upd_serve in H; simpl in Hcnt.
    destruct (cur_obj s) as [o|]; [destruct (lo_open o); [discriminate|]|]; pc_case H Hns Hh.
  - (* LHandlerExit *)
    apply handler_exit_inv in H. destruct H as [Hc [Hp E]]. subst s'.
    pose proof (ended_live_pos s c Hc Hp) as Hl.
    split; [|fields; lia].
    constructor; auto; unfold conn_st in *; fields.
    + intros c'. rewrite nth_set_nth. destruct (Nat.eqb c c'); auto.
      destruct (Nat.ltb c (length (conns s))); [discriminate|auto].
    + intros c' E. rewrite nth_set_nth_neq; auto. congruence.
Qed.
Print Assumptions internal_step.

(* every internal execution is bounded by the measure ... *)
Theorem internal_runs_bounded : forall ls s s', drained s -> Forall (fun l => internal l = true) ls ->
  run s ls = Some s' -> drained s' /\ length ls + mu s' <= mu s.
Proof.
  intro ls. induction ls as [|l r IH]; intros s s' Hd Hf H; simpl in H.
  - inversion H; subst. split; [auto|simpl; lia].
  - inversion Hf as [|l' r' Hl Hr]; subst. destruct (lstep s l) as [s1|] eqn:E; [|discriminate].
    destruct (internal_step _ _ _ Hd Hl E) as [Hd1 Hm].
    destruct (IH _ _ Hd1 Hr H) as [Hd' Hb]. split; auto. simpl. lia.
Qed.
Print Assumptions internal_runs_bounded.

Lemma return_sets_result : forall s l s', internal l = true -> lstep s l = Some s' ->
  serve s <> SNone -> serve s' = SNone -> exists r, serve s = SWait r /\ l = LServe /\ result s' = Some r.
Proof.
  intros s l s' Hi H Hs Es'. destruct l; try discriminate.
  - simpl in H. destruct (serve s) eqn:Es; try discriminate; unfold upd_serve in H;
      try (inversion H; subst s'; discriminate).
    + destruct (listener s); inversion H; subst s'; discriminate.
    + destruct (running s); [destruct (tmo s)|]; inversion H; subst s'; discriminate.
    + destruct (cur_obj s) as [o|]; [destruct (lo_open o)|]; inversion H; subst s'; discriminate.
    + destruct (Nat.eqb _ _); inversion H; subst s'; discriminate.
    + destruct (running s); inversion H; subst s'; discriminate.
    + destruct (listener s) as [i|]; [destruct (close_obj s i)|]; inversion H; subst s'; discriminate.
    + destruct (Nat.eqb _ _); [|discriminate]. inversion H; subst s'. eauto.
  - simpl in H. destruct (serve s); try discriminate. unfold upd_serve in H.
    destruct (cur_obj s) as [o|]; [destruct (lo_open o); [discriminate|]|]; inversion H; subst s'; discriminate.
  - apply handler_exit_inv in H. destruct H as [_ [_ E]]. subst s'. simpl in Es'. congruence.
Qed.

(* ... and an internal execution to the return exists: the serving call returns *)
Theorem returns : forall s, drained s -> serve s <> SNone ->
  exists ls s', Forall (fun l => internal l = true) ls /\ run s ls = Some s' /\ serve s' = SNone /\
                length ls <= mu s /\ result s' <> None.
Proof.
  intro s. remember (mu s) as n eqn:En. revert s En.
  induction n as [n IH] using lt_wf_ind. intros s En Hd Hs.
  destruct (internal_enabled s Hd Hs) as [l [s1 [Hl H1]]].
  destruct (internal_step _ _ _ Hd Hl H1) as [Hd1 Hm].
  destruct (serve s1) eqn:Es1.
  1: { exists [l], s1. destruct (return_sets_result _ _ _ Hl H1 Hs Es1) as [r [_ [_ Hr]]].
       repeat split; auto.
       - simpl. rewrite H1. reflexivity.
       - simpl. lia.
       - rewrite Hr. discriminate. }
  all: assert (Hs1 : serve s1 <> SNone) by (rewrite Es1; discriminate);
    destruct (IH (mu s1) ltac:(lia) s1 eq_refl Hd1 Hs1) as [ls [s' [Hf [Hr [Es' [Hlen Hres]]]]]];
    exists (l :: ls), s'; repeat split; auto; [simpl; rewrite H1; exact Hr|simpl; lia].
Qed.
Print Assumptions returns.

Lemma drained_of_wreach : forall s, wreach s -> shut s = true ->
  (forall c, conn_st s c <> CServed) -> (forall c, holder (serve s) = Some c -> conn_st s c = CEnded) ->
  drained s.
Proof.
  intros s Hw Hs H1 H2. pose proof (wreach_Inv _ Hw) as HI. constructor; auto. apply (i_shut _ HI Hs).
Qed.

(* After a completed Shutdown, once every accepted connection has ended, the serving call returns
   within 10 + (number of handlers still to exit) of its own and the handlers' steps. *)
Theorem returns_after_shutdown : forall s, wreach s -> shut s = true -> serve s <> SNone ->
  (forall c, conn_st s c <> CServed) -> (forall c, holder (serve s) = Some c -> conn_st s c = CEnded) ->
  exists ls s', Forall (fun l => internal l = true) ls /\ run s ls = Some s' /\ serve s' = SNone /\
                length ls <= 10 + live s /\ result s' <> None.
Proof.
  intros s Hw Hs Hn H1 H2. destruct (returns s (drained_of_wreach s Hw Hs H1 H2) Hn) as [ls [s' [Hf [Hr [Es [Hl Hres]]]]]].
  exists ls, s'. repeat split; auto. pose proof (mu_bound s). lia.
Qed.
Print Assumptions returns_after_shutdown.

(* and no schedule of internal steps can avoid it: any internal execution from s has at most mu s steps,
   and while the call has not returned some internal step is enabled (internal_enabled) *)
Theorem no_internal_divergence : forall s ls s', wreach s -> shut s = true ->
  (forall c, conn_st s c <> CServed) -> (forall c, holder (serve s) = Some c -> conn_st s c = CEnded) ->
  Forall (fun l => internal l = true) ls -> run s ls = Some s' ->
  length ls <= 10 + live s /\
  (serve s' <> SNone -> exists l s'', internal l = true /\ lstep s' l = Some s'').
Proof.
  intros s ls s' Hw Hs H1 H2 Hf Hr. pose proof (drained_of_wreach s Hw Hs H1 H2) as Hd.
  destruct (internal_runs_bounded ls s s' Hd Hf Hr) as [Hd' Hb]. split.
  - pose proof (mu_bound s). lia.
  - intro Hn. apply internal_enabled; auto.
Qed.
Print Assumptions no_internal_divergence.

(* the hypotheses are satisfiable: Shutdown while blocked in Accept with one handler still to exit *)
Definition drained_trace : list label :=
  [LBind true; LStartDoListen false; LServe; LServe; LServe; LConnect; LAcceptConn; LServe; LServe; LServe;
   LServe; LShutdown; LEnd 0].

Example drained_demo : exists s, wrun l_init drained_trace = Some s /\ drained s /\ serve s = SAccept /\ mu s = 5 /\
  exists s', run s [LAcceptClosed; LServe; LServe; LHandlerExit 0; LServe] = Some s' /\
             serve s' = SNone /\ result s' = Some RNilRet.
Proof.
  eexists. split; [vm_compute; reflexivity|]. split; [|split; [reflexivity|split; [reflexivity|]]].
  - apply drained_of_wreach.
    + apply (wrun_wreach drained_trace l_init); [apply wr_init|vm_compute; reflexivity].
    + reflexivity.
    + intro c. unfold conn_st. simpl. destruct c as [|[|c]]; discriminate.
    + simpl. discriminate.
  - eexists. split; [vm_compute; reflexivity|]. simpl. auto.
Qed.

(* ================= the idle timeout returns ================= *)
Theorem timeout_returns : forall s, wreach s -> serve s = STimeout -> conncounter s = 0 ->
  exists s', run s [LServe; LServe; LServe] = Some s' /\ serve s' = SNone /\ result s' = Some RTimeoutErr /\
             listener s' = None /\ running s' = false.
Proof.
  intros s Hw Es Hc.
  pose proof (I1_counter s Hw) as H1. pose proof (I1_wg s Hw) as H2. rewrite Es in H1, H2. simpl in H1, H2.
  assert (Hwg : wg s = 0) by lia.
  unfold run. simpl lstep at 1. rewrite Es, Hc. simpl Nat.eqb. cbv iota.
  unfold upd_serve. simpl lstep at 1. fields.
  destruct (listener s) as [i|].
  - change (close_obj _ i) with (set_nth i dobj (objs s), drop_all (qof (objs s) i) (conns s)).
    cbv beta iota. simpl lstep. fields. rewrite Hwg. simpl. eexists. repeat split; reflexivity.
  - simpl lstep. fields. rewrite Hwg. simpl. eexists. repeat split; reflexivity.
Qed.
Print Assumptions timeout_returns.

(* under any interleaving with the environment: once the timeout is decided with wg = 0, every step keeps the
   call on its way out, its own step is always enabled, and the result is RTimeoutErr *)
Definition tpath (s : lstate) : Prop :=
  (serve s = STeardown RTimeoutErr \/ serve s = SWait RTimeoutErr) /\ wg s = 0.

Theorem timeout_decided : forall s s', wreach s -> serve s = STimeout -> conncounter s = 0 ->
  lstep s LServe = Some s' -> tpath s'.
Proof.
  intros s s' Hw Es Hc H. pose proof (I1_counter s Hw) as H1. pose proof (I1_wg s Hw) as H2.
  rewrite Es in H1, H2. simpl in H1, H2.
  simpl in H. rewrite Es, Hc in H. simpl in H. inversion H; subst s'. unfold tpath. simpl. split; auto. lia.
Qed.

Theorem tpath_step : forall s l s', tpath s -> lstep s l = Some s' ->
  tpath s' \/ (serve s' = SNone /\ result s' = Some RTimeoutErr).
Proof.
  intros s l s' [Hp Hw] H. unfold tpath. destruct l; simpl in H.
  - destruct (running s); [|destruct ok]; inversion H; subst; auto.
  - destruct Hp as [E|E]; rewrite E in H; discriminate.
  - destruct Hp as [E|E]; rewrite E in H; discriminate.
  - destruct Hp as [E|E]; rewrite E in H.
    + left. destruct (listener s) as [i|]; [destruct (close_obj s i)|]; inversion H; subst s'; fields; auto.
    + rewrite Hw in H. simpl in H. inversion H; subst s'. right. auto.
  - destruct Hp as [E|E]; rewrite E in H; discriminate.
  - destruct Hp as [E|E]; rewrite E in H; discriminate.
  - destruct Hp as [E|E]; rewrite E in H; discriminate.
  - left. destruct (listener s) as [i|]; [destruct (close_obj s i)|]; inversion H; subst s'; fields; auto.
  - left. destruct (listener s) as [i|]; [destruct (lo_open _)|]; inversion H; subst s'; fields; auto.
  - left. destruct (conn_st s c); try discriminate; inversion H; subst s'; fields; auto.
  - left. change (lstep s (LHandlerExit c) = Some s') in H. apply handler_exit_inv in H.
    destruct H as [_ [_ E]]. subst s'. fields. rewrite Hw. auto.
Qed.
Print Assumptions tpath_step.

Theorem tpath_enabled : forall s, tpath s -> exists s', lstep s LServe = Some s' /\ rank (serve s') < rank (serve s).
Proof.
  intros s [[E|E] Hw]; simpl; rewrite E.
  - destruct (listener s) as [i|]; [destruct (close_obj s i)|]; eexists; split; try reflexivity; simpl; lia.
  - rewrite Hw. simpl. eexists; split; try reflexivity; simpl; lia.
Qed.
Print Assumptions tpath_enabled.

Theorem timeout_result : forall s s', crun s s' -> tpath s -> serve s' = SNone -> result s' = Some RTimeoutErr.
Proof.
  intros s s' H. induction H as [s|s l s1 s2 Hs Hok Hst Hc IH]; intros Hp Es.
  - destruct Hp as [[E|E] _]; congruence.
  - destruct (tpath_step _ _ _ Hp Hst) as [Hp1|[E1 Hr]].
    + auto.
    + inversion Hc; subst; [auto|congruence].
Qed.
Print Assumptions timeout_result.
