(* Proofs/ServiceProofsC.v — routing (HandleMessage) and slice safety. *)
From VL Require Import Bytes Lit Json Wire Service WireProofs ServiceProofsA.
Open Scope N_scope.

(* ---------- last_index_of ---------- *)

Lemma last_index_of_none : forall c s, last_index_of c s = None -> ~ In c s.
Proof.
  induction s as [|x s IH]; intros H Hin; [exact Hin|].
  cbn [last_index_of] in H.
  destruct (last_index_of c s) as [i|]; [discriminate|].
  destruct (x =? c) eqn:E; [discriminate|]. apply N.eqb_neq in E.
  destruct Hin as [Hx|Hin]; [exact (E Hx)|exact (IH eq_refl Hin)].
Qed.

Lemma last_index_of_some : forall c s r, last_index_of c s = Some r ->
  s = firstn r s ++ [c] ++ skipn (S r) s /\ ~ In c (skipn (S r) s) /\ (r < length s)%nat.
Proof.
  induction s as [|x s IH]; intros r H; cbn [last_index_of] in H; [discriminate|].
  destruct (last_index_of c s) as [i|] eqn:El.
  - inversion H; subst r. destruct (IH i eq_refl) as (Hs & Hn & Hl).
    cbn [firstn skipn length app]. split; [|split].
    + f_equal. exact Hs.
    + exact Hn.
    + lia.
  - destruct (x =? c) eqn:E; [|discriminate]. inversion H; subst r.
    apply N.eqb_eq in E. subst x. cbn [firstn skipn length app].
    split; [reflexivity|]. split; [exact (last_index_of_none _ _ El)|lia].
Qed.

Theorem slices_in_bounds : forall m r, last_index_of 46 m = Some r -> (r < length m)%nat.
Proof. intros m r H. exact (proj2 (proj2 (last_index_of_some _ _ _ H))). Qed.
Print Assumptions slices_in_bounds.

Lemma existsb_bytes_in : forall i l, existsb (bytes_eqb i) l = true <-> In i l.
Proof.
  intros i l. rewrite existsb_exists. split.
  - intros (x & Hin & He). apply bytes_eqb_eq in He. subst x. exact Hin.
  - intro Hin. exists i. split; [exact Hin|apply bytes_eqb_refl].
Qed.

(* ---------- route ---------- *)

Theorem route_spec : forall reg m, route reg m =
  match last_index_of 46 m with
  | None | Some O => RInvalidMethod
  | Some r => let i := firstn r m in let n := skipn (S r) m in
              if bytes_eqb i org_varlink_service then RBuiltin n
              else if existsb (bytes_eqb i) (r_names reg) then RDispatch i n else RNoInterface i
  end.
Proof. reflexivity. Qed.
Print Assumptions route_spec.

Theorem route_dispatch_iff : forall reg m i n, route reg m = RDispatch i n <->
  (exists r, last_index_of 46 m = Some (S r) /\ i = firstn (S r) m /\ n = skipn (S (S r)) m)
  /\ i <> org_varlink_service /\ In i (r_names reg).
Proof.
  intros reg m i n. rewrite route_spec.
  destruct (last_index_of 46 m) as [[|r]|]; cbv zeta.
  - split; [discriminate|]. intros ((r0 & H0 & _) & _). discriminate.
  - destruct (bytes_eqb (firstn (S r) m) org_varlink_service) eqn:Eb.
    + split; [discriminate|]. intros ((r0 & H0 & Hi & _) & Hne & _).
      inversion H0; subst r0. apply bytes_eqb_eq in Eb. congruence.
    + destruct (existsb (bytes_eqb (firstn (S r) m)) (r_names reg)) eqn:Ee.
      * split.
        -- intro H. inversion H; subst. split; [exists r; auto|].
           split; [apply bytes_eqb_neq; exact Eb|apply existsb_bytes_in; exact Ee].
        -- intros ((r0 & H0 & Hi & Hn) & _). inversion H0; subst. reflexivity.
      * split; [discriminate|]. intros ((r0 & H0 & Hi & _) & _ & Hin).
        inversion H0; subst r0. subst i. apply existsb_bytes_in in Hin. congruence.
  - split; [discriminate|]. intros ((r0 & H0 & _) & _). discriminate.
Qed.
Print Assumptions route_dispatch_iff.

Theorem route_splits_at_last_dot : forall reg m i n, route reg m = RDispatch i n ->
  m = i ++ [46%N] ++ n /\ ~ In 46%N n /\ i <> [].
Proof.
  intros reg m i n H. apply route_dispatch_iff in H.
  destruct H as ((r & Hl & Hi & Hn) & _ & _).
  destruct (last_index_of_some _ _ _ Hl) as (Hs & Hnot & Hlt). subst i n.
  split; [exact Hs|]. split; [exact Hnot|].
  destruct m as [|x m]; [cbn in Hlt; lia|]. cbn [firstn]. discriminate.
Qed.
Print Assumptions route_splits_at_last_dot.

(* ---------- the library's own error replies ---------- *)

Definition std_reply (k : stdkind) (arg : bytes) : bytes :=
  encode_reply (Some (std_params k arg)) false (std_name k).

Lemma run_std_error : forall c k arg w, c_oneway c = false -> w_left w = None ->
  run_hprog c (builtin_prog (BStd k arg)) w [] =
  (false, mkW (w_out w ++ frame (std_reply k arg)) None, [mkAtt (AStdError k arg) ResOk]).
Proof.
  intros c k arg w Ho Hl. cbn [builtin_prog]. rewrite run_hprog_do.
  cbn [do_action]. unfold send_message. rewrite Ho, Hl. cbn [fst snd].
  rewrite run_hprog_ret. reflexivity.
Qed.

(* exactly one reply, of the right kind; the handler table [hs] does not occur in the result *)
Theorem handle_call_error_replies : forall reg hs c w, c_oneway c = false -> w_left w = None ->
  match route reg (c_method c) with
  | RInvalidMethod => exists en,
      handle_call reg hs c w =
        (false, mkW (w_out w ++ frame (encode_reply (Some (std_params EInvalidParameter s_method))
                                                     false err_InvalidParameter)) None, en)
      /\ e_disp en = DInvalidMethod
      /\ e_attempts en = [mkAtt (AStdError EInvalidParameter s_method) ResOk]
  | RNoInterface i => exists en,
      handle_call reg hs c w =
        (false, mkW (w_out w ++ frame (encode_reply (Some (std_params EInterfaceNotFound i))
                                                     false err_InterfaceNotFound)) None, en)
      /\ e_disp en = DNoInterface i
      /\ e_attempts en = [mkAtt (AStdError EInterfaceNotFound i) ResOk]
  | _ => True
  end.
Proof.
  intros reg hs c w Ho Hl. unfold handle_call.
  destruct (route reg (c_method c)) as [|m|i m|i]; try exact I;
    (rewrite (run_std_error _ _ _ _ Ho Hl); eexists; split; [reflexivity|split; reflexivity]).
Qed.
Print Assumptions handle_call_error_replies.

Lemma builtin_unknown : forall reg c m,
  m <> m_GetInfo -> m <> m_GetInterfaceDescription -> builtin reg c m = BStd EMethodNotFound m.
Proof.
  intros reg c m H1 H2. unfold builtin.
  apply bytes_eqb_neq in H1. apply bytes_eqb_neq in H2. rewrite H1, H2. reflexivity.
Qed.

Theorem handle_call_method_not_found : forall reg hs c w m,
  c_oneway c = false -> w_left w = None ->
  route reg (c_method c) = RBuiltin m -> m <> m_GetInfo -> m <> m_GetInterfaceDescription ->
  exists en,
    handle_call reg hs c w =
      (false, mkW (w_out w ++ frame (encode_reply (Some (std_params EMethodNotFound m))
                                                   false err_MethodNotFound)) None, en)
    /\ e_disp en = DBuiltin m
    /\ e_attempts en = [mkAtt (AStdError EMethodNotFound m) ResOk].
Proof.
  intros reg hs c w m Ho Hl Hr H1 H2. unfold handle_call. rewrite Hr.
  rewrite (builtin_unknown _ _ _ H1 H2), (run_std_error _ _ _ _ Ho Hl).
  eexists; split; [reflexivity|split; reflexivity].
Qed.
Print Assumptions handle_call_method_not_found.

(* only RDispatch consults the handler table *)
Theorem handle_call_ignores_handlers : forall reg hs1 hs2 c w,
  (forall i n, route reg (c_method c) <> RDispatch i n) ->
  handle_call reg hs1 c w = handle_call reg hs2 c w.
Proof.
  intros reg hs1 hs2 c w H. unfold handle_call.
  destruct (route reg (c_method c)) as [|m|i m|i]; try reflexivity.
  exfalso. exact (H i m eq_refl).
Qed.
Print Assumptions handle_call_ignores_handlers.

Theorem dispatch_runs_that_handler : forall reg hs c w i n,
  route reg (c_method c) = RDispatch i n ->
  handle_call reg hs c w =
  (let '(e, w', atts) := run_hprog c (hs i n c) w [] in (e, w', mkEntry c (DHandler i n) atts e)).
Proof. intros reg hs c w i n H. unfold handle_call. rewrite H. reflexivity. Qed.
Print Assumptions dispatch_runs_that_handler.

Theorem frame_nonempty : forall cap d c r c', (1 <= cap)%nat -> chunks_ok c ->
  read_bytes cap d c = Some (RData r, c') -> r <> [].
Proof.
  intros cap d c r c' Hcap Hok H.
  destruct (read_bytes_spec cap d c Hcap Hok) as (r0 & c0 & Hr & _ & Hspec).
  rewrite Hr in H. inversion H; subst r0 c0.
  destruct (cut_at d (stream_of c)) as [[a rest]|] eqn:Ec.
  - destruct Hspec as [Hra _]. inversion Hra; subst a.
    destruct (cut_at_some_inv _ _ _ _ Ec) as [_ Hlen].
    intro Hn. subst r. cbn in Hlen. lia.
  - destruct Hspec as [Hra _]. discriminate.
Qed.
Print Assumptions frame_nonempty.

(* ---------- non-vacuity ---------- *)
Module ExC.
Import String.
Definition reg1 : registry :=
  fst (register (new_service (b "v"%string) (b "p"%string) (b "1"%string) (b "u"%string) [])
                (b "org.example.ping"%string) (b "interface org.example.ping"%string)).

Example exC_routes :
  route reg1 (b "org.example.ping.Ping"%string) = RDispatch (b "org.example.ping"%string) (b "Ping"%string)
  /\ route reg1 (b "org.varlink.service.GetInfo"%string) = RBuiltin (b "GetInfo"%string)
  /\ route reg1 (b "org.example.pong.Ping"%string) = RNoInterface (b "org.example.pong"%string)
  /\ route reg1 (b "Ping"%string) = RInvalidMethod
  /\ route reg1 (b ".Ping"%string) = RInvalidMethod
  /\ route reg1 (b "a.b."%string) = RNoInterface (b "a.b"%string).
Proof. vm_compute. repeat split. Qed.

Example exC_no_interface_reply :
  let c := mkCall (b "org.example.pong.Ping"%string) None false false false in
  let '(e, w', en) := handle_call reg1 (fun _ _ _ => Ret true) c (mkW [] None) in
  e = false /\
  w_out w' = frame (b "{""parameters"":{""interface"":""org.example.pong""},""error"":""org.varlink.service.InterfaceNotFound""}"%string).
Proof. vm_compute. split; reflexivity. Qed.
End ExC.
