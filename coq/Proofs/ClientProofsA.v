(* Proofs/ClientProofsA.v — client Send (C11): the flag rules, what is written,
   and that the service decodes exactly the flags and parameters requested. *)
From VL Require Import Bytes Lit Json Wire Service Client
  JsonRoundTripA JsonRoundTripB JsonRoundTripD.
Open Scope N_scope.

(* ================= the refusal rule ================= *)

Theorem send_refused_iff : forall f m p,
  (exists w, client_send f m p = SRefused w) <->
  (fl_more f && fl_oneway f) || (fl_more f && fl_upgrade f) = true.
Proof.
  intros f m p. unfold client_send.
  destruct (fl_more f && fl_oneway f) eqn:E1; cbn [orb].
  - split; [reflexivity|]. intros _. eexists. reflexivity.
  - destruct (fl_more f && fl_upgrade f) eqn:E2.
    + split; [reflexivity|]. intros _. eexists. reflexivity.
    + split; [|discriminate]. intros [w H].
      destruct (enc_params p); discriminate.
Qed.
Print Assumptions send_refused_iff.

(* which parameter name the refusal carries *)
Theorem send_refused_what : forall f m p w, client_send f m p = SRefused w ->
  (fl_more f && fl_oneway f = true /\ w = s_oneway) \/
  (fl_more f && fl_oneway f = false /\ fl_more f && fl_upgrade f = true /\ w = s_more).
Proof.
  intros f m p w. unfold client_send.
  destruct (fl_more f && fl_oneway f) eqn:E1.
  - intro H. injection H as <-. left. split; reflexivity.
  - destruct (fl_more f && fl_upgrade f) eqn:E2.
    + intro H. injection H as <-. right. repeat split; reflexivity.
    + destruct (enc_params p); discriminate.
Qed.
Print Assumptions send_refused_what.

(* by construction: SRefused carries no bytes *)
Theorem send_refused_writes_nothing : forall f m p w,
  client_send f m p = SRefused w -> forall msg, client_send f m p <> SSent msg.
Proof. intros f m p w H msg H2. rewrite H in H2. discriminate. Qed.
Print Assumptions send_refused_writes_nothing.

Theorem send_marshal_err_iff : forall f m p,
  client_send f m p = SMarshalErr <->
  (fl_more f && fl_oneway f) || (fl_more f && fl_upgrade f) = false /\ enc_params p = None.
Proof.
  intros f m p. unfold client_send.
  destruct (fl_more f && fl_oneway f); cbn [orb]; [split; [discriminate|intros [H _]; discriminate]|].
  destruct (fl_more f && fl_upgrade f); [split; [discriminate|intros [H _]; discriminate]|].
  destruct (enc_params p); split; try discriminate; try (intros [_ H]; discriminate).
  - intros _. split; reflexivity.
  - reflexivity.
Qed.
Print Assumptions send_marshal_err_iff.

(* ================= what is written ================= *)

Theorem send_carries_requested_flags : forall f m p msg, client_send f m p = SSent msg ->
  exists ps, enc_params p = Some ps /\
    msg = frame (encode_call m ps (fl_more f) (fl_oneway f) (fl_upgrade f)).
Proof.
  intros f m p msg. unfold client_send.
  destruct (fl_more f && fl_oneway f); [discriminate|].
  destruct (fl_more f && fl_upgrade f); [discriminate|].
  destruct (enc_params p) as [ps|]; [|discriminate].
  intro H. injection H as <-. exists ps. split; reflexivity.
Qed.
Print Assumptions send_carries_requested_flags.

(* a sent message never asks for more together with oneway or upgrade *)
Theorem sent_flags_consistent : forall f m p msg, client_send f m p = SSent msg ->
  fl_more f && fl_oneway f = false /\ fl_more f && fl_upgrade f = false.
Proof.
  intros f m p msg. unfold client_send.
  destruct (fl_more f && fl_oneway f); [discriminate|].
  destruct (fl_more f && fl_upgrade f); [discriminate|]. intros _. split; reflexivity.
Qed.
Print Assumptions sent_flags_consistent.

Lemma strip_last_frame : forall m, strip_last (frame m) = m.
Proof.
  intro m. unfold strip_last, frame. rewrite app_length. cbn [length].
  replace (length m + 1 - 1)%nat with (length m) by lia.
  rewrite firstn_app, Nat.sub_diag, firstn_all. cbn [firstn]. apply app_nil_r.
Qed.

(* ================= json.Marshal of a well-formed value tree ================= *)

Lemma wf_nums_ok : forall v, wf_value v = true -> nums_ok v = true.
Proof.
  induction v as [|b0|t|s|l IHl|m IHm] using jvalue_ind'; intro Hwf; try reflexivity.
  - cbn [nums_ok]. destruct t; [reflexivity|exact Hwf].
  - cbn [nums_ok wf_value] in Hwf |- *. rewrite forallb_forall in Hwf |- *.
    rewrite Forall_forall in IHl. intros x Hx. apply IHl; [exact Hx|apply Hwf; exact Hx].
  - cbn [nums_ok wf_value] in Hwf |- *. rewrite forallb_forall in Hwf |- *.
    rewrite Forall_forall in IHm. intros x Hx. apply IHm; [exact Hx|].
    specialize (Hwf x Hx). apply andb_true_iff in Hwf. exact (proj2 Hwf).
Qed.

Lemma wf_norm_id : forall v, wf_value v = true -> norm_nums v = v.
Proof.
  induction v as [|b0|t|s|l IHl|m IHm] using jvalue_ind'; intro Hwf; try reflexivity.
  - destruct t; [discriminate Hwf|reflexivity].
  - cbn [norm_nums wf_value] in Hwf |- *. f_equal. rewrite forallb_forall in Hwf.
    induction IHl as [|x l Hx _ IH]; [reflexivity|]. cbn [map].
    rewrite Hx by (apply Hwf; left; reflexivity).
    rewrite IH by (intros y Hy; apply Hwf; right; exact Hy). reflexivity.
  - cbn [norm_nums wf_value] in Hwf |- *. f_equal. rewrite forallb_forall in Hwf.
    induction IHm as [|x m Hx _ IH]; [reflexivity|]. cbn [map].
    assert (Hw : wf_value (snd x) = true).
    { specialize (Hwf x (or_introl eq_refl)). apply andb_true_iff in Hwf. exact (proj2 Hwf). }
    rewrite Hx by exact Hw.
    rewrite IH by (intros y Hy; apply Hwf; right; exact Hy). destruct x; reflexivity.
Qed.

Theorem marshal_wf : forall v, wf_value v = true -> marshal_value v = Some (encode_value v).
Proof.
  intros v Hwf. unfold marshal_value. rewrite (wf_nums_ok v Hwf), (wf_norm_id v Hwf). reflexivity.
Qed.
Print Assumptions marshal_wf.

(* ================= the service decodes exactly what was requested ================= *)

Theorem sent_call_decodes : forall f m v msg, utf8_valid m = true ->
  wf_value v = true -> v <> JNull -> depth v + 1 <= max_depth ->
  client_send f m (PJson v) = SSent msg ->
  decode_call (strip_last msg) =
    Some (mkCall m (Some (encode_value v)) (fl_more f) (fl_oneway f) (fl_upgrade f)).
Proof.
  intros f m v msg Hm Hwf Hn Hd Hs.
  destruct (send_carries_requested_flags f m (PJson v) msg Hs) as [ps [Hp ->]].
  cbn [enc_params] in Hp. rewrite (marshal_wf v Hwf) in Hp. cbn [option_map] in Hp.
  injection Hp as <-. rewrite strip_last_frame.
  apply decode_encode_call; [exact Hm|]. apply raw_ok_encode; assumption.
Qed.
Print Assumptions sent_call_decodes.

(* the same for any parameter whose encoding is raw_ok, and for omitted parameters *)
Theorem sent_call_decodes_gen : forall f m p msg, utf8_valid m = true ->
  client_send f m p = SSent msg ->
  match enc_params p with
  | Some (Some ps) => raw_ok ps ->
      decode_call (strip_last msg) = Some (mkCall m (Some ps) (fl_more f) (fl_oneway f) (fl_upgrade f))
  | Some None =>
      decode_call (strip_last msg) = Some (mkCall m None (fl_more f) (fl_oneway f) (fl_upgrade f))
  | None => False
  end.
Proof.
  intros f m p msg Hm Hs.
  destruct (send_carries_requested_flags f m p msg Hs) as [ps [Hp ->]]. rewrite Hp.
  rewrite strip_last_frame. destruct ps as [ps|].
  - intro Hr. apply decode_encode_call; assumption.
  - apply decode_encode_call_noparams; exact Hm.
Qed.
Print Assumptions sent_call_decodes_gen.

(* Connection.Call with nil parameters writes "parameters":null, which the service reads as absent *)
Theorem sent_nil_params_is_null : forall f m msg, utf8_valid m = true ->
  client_send f m (call_params PNone) = SSent msg ->
  msg = frame (encode_call m (Some lit_null) (fl_more f) (fl_oneway f) (fl_upgrade f)).
Proof.
  intros f m msg Hm Hs.
  destruct (send_carries_requested_flags f m _ msg Hs) as [ps [Hp ->]].
  cbn in Hp. injection Hp as <-. reflexivity.
Qed.
Print Assumptions sent_nil_params_is_null.

(* ---- "parameters":null is decoded as an absent member, whatever the method and flags ---- *)

Definition it_null (key : bytes) : item := (key, lit_null, fun v => v = VNull).

Lemma txt_ok_null : txt_ok lit_null (fun v => v = VNull).
Proof.
  unfold txt_ok. split; [exists 110; eexists; split; reflexivity|].
  intros k f Hk Hf. destruct f as [|f]; [simpl in Hf; lia|].
  eexists. split; reflexivity.
Qed.

Lemma dm_null_raw : forall sch rk s0 s1 r cur err key i,
  unquote rk = key -> find_field key sch = Some (i, KRaw) ->
  decode_members sch ((rk, VNull, s0, s1) :: r) cur err =
  decode_members sch r (set_nth i (FRaw None) cur) err.
Proof.
  intros sch rk s0 s1 r cur err key i Hu Hf. cbn [decode_members]. rewrite Hu, Hf.
  cbn [decode_field]. rewrite orb_false_r. reflexivity.
Qed.

Definition null_call_items (m : bytes) (mo ow up : bool) : list item :=
  [it_string s_method m; it_null s_parameters]
  ++ (if mo then [it_true s_more] else [])
  ++ (if ow then [it_true s_oneway] else [])
  ++ (if up then [it_true s_upgrade] else []).

Ltac inv_recs_n :=
  repeat match goal with
  | H : Forall2 item_rec (_ :: _) _ |- _ =>
    let rc := fresh "rc" in let rs := fresh "rs" in let H1 := fresh "Hrc" in let H2 := fresh "Hrs" in
    inversion H as [|? rc ? rs H1 H2]; subst; clear H;
    destruct rc as [[[? ?] ?] ?]; cbn [item_rec it_string it_true it_raw it_null] in H1;
    destruct H1 as [? [? ?]]; subst
  | H : Forall2 item_rec [] _ |- _ => inversion H; subst; clear H
  end.

Theorem decode_encode_call_null : forall m mo ow up, utf8_valid m = true ->
  decode_call (encode_call m (Some lit_null) mo ow up) = Some (mkCall m None mo ow up).
Proof.
  intros m mo ow up Hm.
  assert (E : encode_call m (Some lit_null) mo ow up =
              [123] ++ join_members (map item_txt (null_call_items m mo ow up)) ++ [125])
    by (destruct mo, ow, up; reflexivity).
  rewrite E.
  destruct (jparse_items (null_call_items m mo ow up)) as [recs [Hj HF]]; [discriminate| |].
  { unfold null_call_items. constructor; [apply txt_ok_string|]. constructor; [apply txt_ok_null|].
    apply Forall_app; split; [destruct mo; constructor; [apply txt_ok_true|constructor]|].
    apply Forall_app; split; [destruct ow; constructor; [apply txt_ok_true|constructor]|].
    destruct up; constructor; [apply txt_ok_true|constructor]. }
  unfold decode_call, decode_struct, decode_struct_full. rewrite Hj.
  destruct mo, ow, up; cbn [null_call_items app] in HF; inv_recs_n; dm_step.
  all: rewrite (dm_null_raw call_schema _ _ _ _ _ _ s_parameters 1%nat) by (vm_compute; reflexivity).
  all: repeat dm_step.
  all: cbn [decode_members map call_schema snd zero_of set_nth].
  all: rewrite unquote_enc_str by exact Hm.
  all: reflexivity.
Qed.
Print Assumptions decode_encode_call_null.

Theorem sent_nil_params_decodes : forall f m msg, utf8_valid m = true ->
  client_send f m (call_params PNone) = SSent msg ->
  decode_call (strip_last msg) = Some (mkCall m None (fl_more f) (fl_oneway f) (fl_upgrade f)).
Proof.
  intros f m msg Hm Hs. rewrite (sent_nil_params_is_null f m msg Hm Hs), strip_last_frame.
  apply decode_encode_call_null. exact Hm.
Qed.
Print Assumptions sent_nil_params_decodes.

(* ================= non-vacuity ================= *)

Example exA_refused_more_oneway : client_send 3 [97; 46; 98] PNone = SRefused s_oneway.
Proof. vm_compute. reflexivity. Qed.
Example exA_refused_more_upgrade : client_send 9 [97; 46; 98] PNone = SRefused s_more.
Proof. vm_compute. reflexivity. Qed.
Example exA_refused_all : client_send 11 [97; 46; 98] PNone = SRefused s_oneway.
Proof. vm_compute. reflexivity. Qed.
(* Continues (bit 2) is not a request flag: it is ignored by Send *)
Example exA_continues_ignored : client_send 4 [97; 46; 98] PNone = client_send 0 [97; 46; 98] PNone.
Proof. vm_compute. reflexivity. Qed.
Example exA_marshal_err : client_send 0 [97; 46; 98] (PJson (JNum [43])) = SMarshalErr.
Proof. vm_compute. reflexivity. Qed.
Example exA_sent_more :
  match client_send 1 [97; 46; 98] (PJson (JObj [([120], JNum [49])])) with
  | SSent msg => decode_call (strip_last msg)
  | _ => None
  end = Some (mkCall [97; 46; 98] (Some (encode_value (JObj [([120], JNum [49])]))) true false false).
Proof. vm_compute. reflexivity. Qed.
Example exA_get_info_request :
  match get_info_request with
  | SSent msg => decode_call (strip_last msg)
  | _ => None
  end = Some (mkCall (org_varlink_service ++ [46] ++ m_GetInfo) None false false false).
Proof. vm_compute. reflexivity. Qed.
Example exA_get_descr_request :
  match get_descr_request [97; 46; 98] with
  | SSent msg => decode_call (strip_last msg)
  | _ => None
  end = Some (mkCall (org_varlink_service ++ [46] ++ m_GetInterfaceDescription)
                     (Some ([123] ++ member s_interface (encode_string [97; 46; 98]) ++ [125])) false false false).
Proof. vm_compute. reflexivity. Qed.
