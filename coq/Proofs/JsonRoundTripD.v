(* Proofs/JsonRoundTripD.v — frames: what the client marshals as a call the
   service decodes to the same call, parameters byte for byte; the same for
   replies read by the client. *)
From VL Require Import Bytes Lit Json Wire Service Client JsonRoundTripA JsonRoundTripB.
Open Scope N_scope.

(* ================= objects made of "key":text members ================= *)

(* key, value text, what is known about the scanned value *)
Definition item := (bytes * bytes * (jv -> Prop))%type.
Definition item_txt (it : item) : bytes := match it with (key, txt, _) => member key txt end.

(* the value text starts with a non-blank byte and is read back whole at depth 1 *)
Definition txt_ok (txt : bytes) (Q : jv -> Prop) : Prop :=
  (exists c r, txt = c :: r /\ is_ws c = false) /\
  forall k f, follow_ok k -> (length txt < f)%nat ->
    exists x, Q x /\ scan_value f 1 (txt ++ k) = Some (x, k).
Definition item_ok (it : item) : Prop := match it with (_, txt, Q) => txt_ok txt Q end.

Definition item_rec (it : item) (rc : bytes * jv * bytes * bytes) : Prop :=
  match it, rc with
  | (key, txt, Q), (rk, v, s0, s1) =>
    rk = enc_str_f (length key) key /\ Q v /\ firstn (length s0 - length s1) s0 = txt
  end.

Lemma firstn_cut : forall (a c : bytes), firstn (length (a ++ c) - length c) (a ++ c) = a.
Proof.
  intros a c. rewrite app_length. replace (length a + length c - length c)%nat with (length a) by lia.
  rewrite firstn_app, Nat.sub_diag, firstn_all. simpl. apply app_nil_r.
Qed.

Lemma join_one : forall x, join_members [x] = x.
Proof. reflexivity. Qed.
Lemma join_more : forall x y r, join_members (x :: y :: r) = x ++ [44] ++ join_members (y :: r).
Proof. reflexivity. Qed.

Lemma join_items_start : forall it its, exists r2, join_members (map item_txt (it :: its)) = 34 :: r2.
Proof.
  intros [[key txt] Q] its. destruct its as [|y its]; cbn [map]; eexists;
    [rewrite join_one|rewrite join_more]; reflexivity.
Qed.

Lemma items_scan : forall items, items <> [] -> Forall item_ok items ->
  forall acc k f, (S (length (join_members (map item_txt items))) < f)%nat ->
  exists recs,
    scan_members f 1 acc (join_members (map item_txt items) ++ 125 :: k) = Some (VObj (rev acc ++ recs), k) /\
    Forall2 item_rec items recs.
Proof.
  induction items as [|[[key txt] Q] items IH]; intros Hne Hok acc k fuel Hf; [congruence|].
  inversion Hok as [|x0 l0 Hx Hl]; subst x0 l0. destruct Hx as [[c [r [E Hws]]] Hscan].
  destruct fuel as [|f]; [lia|].
  pose proof (enc_body_ok (length key) key) as Hbk.
  destruct items as [|y items'].
  - cbn [map] in Hf |- *. rewrite join_one in Hf |- *. unfold item_txt, member, encode_string in Hf |- *.
    rewrite !app_length in Hf. cbn [length] in Hf.
    rewrite <- !app_assoc. cbn [app].
    destruct (Hscan (125 :: k) f) as [x' [HQ Hs]]; [reflexivity|lia|].
    assert (Hcut : firstn (length (txt ++ 125 :: k) - length (125 :: k)) (txt ++ 125 :: k) = txt) by apply firstn_cut.
    rewrite E in Hs, Hcut |- *. cbn [app] in Hs, Hcut |- *.
    rewrite (sm_close f 1 acc _ c _ x' k Hbk Hws Hs).
    eexists [_]. split; [reflexivity|]. constructor; [|constructor].
    cbn [item_rec]. split; [reflexivity|]. split; [exact HQ|]. exact Hcut.
  - cbn [map] in Hf |- *. rewrite join_more in Hf |- *. unfold item_txt at 1, member, encode_string in Hf.
    unfold item_txt at 1, member, encode_string.
    rewrite !app_length in Hf. cbn [length] in Hf.
    rewrite <- !app_assoc. cbn [app].
    destruct (join_items_start y items') as [r2 E2]. cbn [map] in E2.
    destruct (Hscan (44 :: 34 :: r2 ++ 125 :: k) f) as [x' [HQ Hs]]; [reflexivity|lia|].
    assert (Hcut : firstn (length (txt ++ 44 :: 34 :: r2 ++ 125 :: k) - length (44 :: 34 :: r2 ++ 125 :: k)) (txt ++ 44 :: 34 :: r2 ++ 125 :: k) = txt) by apply firstn_cut.
    rewrite E2. rewrite E in Hs, Hcut |- *. cbn [app] in Hs, Hcut |- *.
    rewrite (sm_comma f 1 acc _ c _ x' _ Hbk Hws Hs).
    change (34 :: r2 ++ 125 :: k) with ((34 :: r2) ++ 125 :: k). rewrite <- E2.
    match goal with |- context [scan_members f 1 (?rc :: acc) _] =>
      destruct (IH ltac:(discriminate) Hl (rc :: acc) k f) as [recs [Hr HF]]; [cbn [map]; lia|] end.
    cbn [map] in Hr. rewrite Hr.
    eexists (_ :: recs). split; [simpl; rewrite <- app_assoc; reflexivity|].
    constructor; [|exact HF].
    cbn [item_rec]. split; [reflexivity|]. split; [exact HQ|].
    change (34 :: r2 ++ 125 :: k) with ((34 :: r2) ++ 125 :: k) in Hcut. rewrite <- E2 in Hcut.
    exact Hcut.
Qed.

(* the whole object text through jparse *)
Lemma jparse_items : forall items, items <> [] -> Forall item_ok items ->
  exists recs, jparse ([123] ++ join_members (map item_txt items) ++ [125]) = Some (VObj recs) /\
               Forall2 item_rec items recs.
Proof.
  intros items Hne Hok. unfold jparse. cbn [app].
  rewrite (skip_ws_nws 123) by reflexivity.
  destruct items as [|it its]; [congruence|].
  destruct (join_items_start it its) as [r2 E2].
  destruct (items_scan (it :: its) Hne Hok [] [] (length (123 :: join_members (map item_txt (it :: its)) ++ [125])))
    as [recs [Hs HF]]; [cbn [length]; rewrite app_length; cbn [length]; lia|].
  exists recs. split; [|exact HF].
  rewrite E2 in Hs |- *. cbn [app] in Hs |- *.
  rewrite sv_obj. change (max_depth <? 0 + 1) with false. cbv iota.
  change (0 + 1) with 1. rewrite Hs. reflexivity.
Qed.

(* ---- the three kinds of member values ---- *)

Lemma txt_ok_string : forall s,
  txt_ok (encode_string s) (fun v => v = VStr (enc_str_f (length s) s)).
Proof.
  intro s. unfold txt_ok, encode_string. split; [exists 34; eexists; split; reflexivity|].
  intros k f Hk Hf. destruct f as [|f]; [lia|].
  eexists. split; [reflexivity|]. rewrite <- !app_assoc. cbn [app].
  rewrite sv_str. rewrite scan_enc_str by (rewrite app_length; simpl; lia). reflexivity.
Qed.

Lemma txt_ok_true : txt_ok lit_true (fun v => v = VBool true).
Proof.
  unfold txt_ok. split; [exists 116; eexists; split; reflexivity|].
  intros k f Hk Hf. destruct f as [|f]; [simpl in Hf; lia|].
  eexists. split; reflexivity.
Qed.

(* p is a JSON value text without surrounding blanks, not the literal null, nested at most 9999 deep *)
Definition raw_ok (p : bytes) : Prop := txt_ok p (fun v => v <> VNull).

Lemma raw_ok_encode : forall v, wf_value v = true -> v <> JNull -> depth v + 1 <= max_depth ->
  raw_ok (encode_value v).
Proof.
  intros v Hwf Hn Hd. unfold raw_ok, txt_ok. split.
  - destruct (enc_start v Hwf) as [c [r [E Hc]]]. exists c, r. split; [exact E|apply starts_nws; exact Hc].
  - intros k f Hk Hf. destruct (scan_encode v k 1 f Hwf Hk) as [x [Hs Hx]]; [lia|exact Hf|].
    exists x. split; [|exact Hs]. intros ->. apply Hn. symmetry. exact Hx.
Qed.

(* ---- decoding one member ---- *)

Lemma dm_string : forall sch rk raw s0 s1 r cur err key i,
  unquote rk = key -> find_field key sch = Some (i, KString) ->
  decode_members sch ((rk, VStr raw, s0, s1) :: r) cur err =
  decode_members sch r (set_nth i (FString (unquote raw)) cur) err.
Proof.
  intros sch rk raw s0 s1 r cur err key i Hu Hf. cbn [decode_members]. rewrite Hu, Hf.
  cbn [decode_field]. rewrite orb_false_r. reflexivity.
Qed.

Lemma dm_bool : forall sch rk b0 s0 s1 r cur err key i,
  unquote rk = key -> find_field key sch = Some (i, KBool) ->
  decode_members sch ((rk, VBool b0, s0, s1) :: r) cur err =
  decode_members sch r (set_nth i (FBool b0) cur) err.
Proof.
  intros sch rk b0 s0 s1 r cur err key i Hu Hf. cbn [decode_members]. rewrite Hu, Hf.
  cbn [decode_field]. rewrite orb_false_r. reflexivity.
Qed.

Lemma dm_raw : forall sch rk v s0 s1 r cur err key i,
  unquote rk = key -> find_field key sch = Some (i, KRaw) -> v <> VNull ->
  decode_members sch ((rk, v, s0, s1) :: r) cur err =
  decode_members sch r (set_nth i (FRaw (Some (firstn (length s0 - length s1) s0))) cur) err.
Proof.
  intros sch rk v s0 s1 r cur err key i Hu Hf Hv. cbn [decode_members]. rewrite Hu, Hf.
  destruct v; try congruence; cbn [decode_field]; rewrite orb_false_r; reflexivity.
Qed.

(* ================= calls ================= *)

Definition it_string (key s : bytes) : item := (key, encode_string s, fun v => v = VStr (enc_str_f (length s) s)).
Definition it_true (key : bytes) : item := (key, lit_true, fun v => v = VBool true).
Definition it_raw (key p : bytes) : item := (key, p, fun v => v <> VNull).

Definition call_items (m : bytes) (params : option bytes) (mo ow up : bool) : list item :=
  [it_string s_method m]
  ++ (match params with Some p => [it_raw s_parameters p] | None => [] end)
  ++ (if mo then [it_true s_more] else [])
  ++ (if ow then [it_true s_oneway] else [])
  ++ (if up then [it_true s_upgrade] else []).

Lemma encode_call_items : forall m params mo ow up,
  encode_call m params mo ow up = [123] ++ join_members (map item_txt (call_items m params mo ow up)) ++ [125].
Proof. intros m [p|] [|] [|] [|]; reflexivity. Qed.

Lemma call_items_ok : forall m params mo ow up,
  match params with Some p => raw_ok p | None => True end ->
  Forall item_ok (call_items m params mo ow up).
Proof.
  intros m params mo ow up Hp. unfold call_items.
  apply Forall_app; split; [constructor; [apply txt_ok_string|constructor]|].
  apply Forall_app; split; [destruct params; constructor; [exact Hp|constructor]|].
  apply Forall_app; split; [destruct mo; constructor; [apply txt_ok_true|constructor]|].
  apply Forall_app; split; [destruct ow; constructor; [apply txt_ok_true|constructor]|].
  destruct up; constructor; [apply txt_ok_true|constructor].
Qed.

Ltac inv_recs :=
  repeat match goal with
  | H : Forall2 item_rec (_ :: _) _ |- _ =>
    let rc := fresh "rc" in let rs := fresh "rs" in let H1 := fresh "Hrc" in let H2 := fresh "Hrs" in
    inversion H as [|? rc ? rs H1 H2]; subst; clear H;
    destruct rc as [[[? ?] ?] ?]; cbn [item_rec it_string it_true it_raw] in H1;
    destruct H1 as [? [? ?]]; subst
  | H : Forall2 item_rec [] _ |- _ => inversion H; subst; clear H
  end.

Ltac dm_step :=
  match goal with
  | |- context [decode_members ?sch ((?rk, ?v, ?s0, ?s1) :: ?r) ?cur ?err] =>
    let key := eval vm_compute in (unquote rk) in
    let ff := eval vm_compute in (find_field key sch) in
    match ff with
    | Some (?i, KString) =>
      match v with VStr ?raw =>
        rewrite (dm_string sch rk raw s0 s1 r cur err key i) by (vm_compute; reflexivity) end
    | Some (?i, KBool) =>
      match v with VBool ?b0 =>
        rewrite (dm_bool sch rk b0 s0 s1 r cur err key i) by (vm_compute; reflexivity) end
    | Some (?i, KRaw) =>
      rewrite (dm_raw sch rk v s0 s1 r cur err key i) by first [assumption | vm_compute; reflexivity]
    end
  end.

Theorem decode_encode_call : forall m p mo ow up, utf8_valid m = true -> raw_ok p ->
  decode_call (encode_call m (Some p) mo ow up) = Some (mkCall m (Some p) mo ow up).
Proof.
  intros m p mo ow up Hm Hp. rewrite encode_call_items.
  destruct (jparse_items (call_items m (Some p) mo ow up)) as [recs [Hj HF]];
    [discriminate|apply call_items_ok; exact Hp|].
  unfold decode_call, decode_struct, decode_struct_full. rewrite Hj.
  destruct mo, ow, up; cbn [call_items app] in HF; inv_recs; repeat dm_step.
  all: cbn [decode_members map call_schema snd zero_of set_nth].
  all: rewrite unquote_enc_str by exact Hm.
  all: reflexivity.
Qed.

Theorem decode_encode_call_noparams : forall m mo ow up, utf8_valid m = true ->
  decode_call (encode_call m None mo ow up) = Some (mkCall m None mo ow up).
Proof.
  intros m mo ow up Hm. rewrite encode_call_items.
  destruct (jparse_items (call_items m None mo ow up)) as [recs [Hj HF]];
    [discriminate|apply call_items_ok; exact I|].
  unfold decode_call, decode_struct, decode_struct_full. rewrite Hj.
  destruct mo, ow, up; cbn [call_items app] in HF; inv_recs; repeat dm_step.
  all: cbn [decode_members map call_schema snd zero_of set_nth].
  all: rewrite unquote_enc_str by exact Hm.
  all: reflexivity.
Qed.

(* the handler sees the client's parameter bytes, and they parse back to the value marshalled *)
Corollary decode_encode_call_value : forall m v mo ow up, utf8_valid m = true ->
  wf_value v = true -> v <> JNull -> depth v + 1 <= 10000 ->
  decode_call (encode_call m (Some (encode_value v)) mo ow up) = Some (mkCall m (Some (encode_value v)) mo ow up)
  /\ parse (encode_value v) = Some v.
Proof.
  intros m v mo ow up Hm Hwf Hn Hd. split.
  - apply decode_encode_call; [exact Hm|apply raw_ok_encode; assumption].
  - apply parse_encode; [exact Hwf|lia].
Qed.

Print Assumptions decode_encode_call.
Print Assumptions decode_encode_call_noparams.
Print Assumptions decode_encode_call_value.

(* ================= replies ================= *)

Definition reply_items (params : option bytes) (cont : bool) (err : bytes) : list item :=
  (match params with Some p => [it_raw s_parameters p] | None => [] end)
  ++ (if cont then [it_true s_continues] else [])
  ++ (match err with [] => [] | _ => [it_string s_error err] end).

Lemma encode_reply_items : forall params cont err,
  encode_reply params cont err = [123] ++ join_members (map item_txt (reply_items params cont err)) ++ [125].
Proof. intros [p|] [|] [|e0 err]; reflexivity. Qed.

Lemma reply_items_ok : forall params cont err,
  match params with Some p => raw_ok p | None => True end ->
  Forall item_ok (reply_items params cont err).
Proof.
  intros params cont err Hp. unfold reply_items.
  apply Forall_app; split; [destruct params; constructor; [exact Hp|constructor]|].
  apply Forall_app; split; [destruct cont; constructor; [apply txt_ok_true|constructor]|].
  destruct err; constructor; [apply txt_ok_string|constructor].
Qed.

Theorem decode_encode_reply_gen : forall params cont err, utf8_valid err = true ->
  match params with Some p => raw_ok p | None => True end ->
  decode_struct reply_schema (encode_reply params cont err) = Some [FRaw params; FBool cont; FString err].
Proof.
  intros params cont err He Hp.
  destruct (reply_items params cont err) as [|it0 its0] eqn:Eits.
  { destruct params, cont, err; try discriminate Eits. reflexivity. }
  rewrite encode_reply_items.
  destruct (jparse_items (reply_items params cont err)) as [recs [Hj HF]];
    [rewrite Eits; discriminate|apply reply_items_ok; exact Hp|].
  clear Eits. unfold decode_struct, decode_struct_full. rewrite Hj.
  destruct params as [p|], cont, err as [|e0 err]; cbn [reply_items app] in HF; inv_recs; repeat dm_step.
  all: cbn [decode_members map reply_schema snd zero_of set_nth].
  all: rewrite ?unquote_enc_str by exact He.
  all: reflexivity.
Qed.

Theorem decode_encode_reply : forall p cont err, utf8_valid err = true -> raw_ok p ->
  decode_struct reply_schema (encode_reply (Some p) cont err) = Some [FRaw (Some p); FBool cont; FString err].
Proof. intros p cont err He Hp. apply (decode_encode_reply_gen (Some p) cont err He Hp). Qed.

Print Assumptions decode_encode_reply_gen.
Print Assumptions decode_encode_reply.

(* ================= why "not null" is needed ================= *)

(* a parameters member whose text is the literal null is decoded as an absent
   member (Go resets a *json.RawMessage to nil on null) *)
Example null_params_lost :
  decode_call (encode_call [97; 46; 98] (Some lit_null) false false false)
  = Some (mkCall [97; 46; 98] None false false false).
Proof. vm_compute. reflexivity. Qed.
Example null_reply_params_lost :
  decode_struct reply_schema (encode_reply (Some lit_null) false [])
  = Some [FRaw None; FBool false; FString []].
Proof. vm_compute. reflexivity. Qed.

(* ================= what json.Marshal of a value tree produces is raw_ok ================= *)

Fixpoint strs_ok (v : jvalue) : bool :=
  match v with
  | JStr s => utf8_valid s
  | JArr l => forallb strs_ok l
  | JObj m => forallb (fun kv => utf8_valid (fst kv) && strs_ok (snd kv)) m
  | _ => true
  end.

Lemma wf_norm : forall v, nums_ok v = true -> strs_ok v = true -> wf_value (norm_nums v) = true.
Proof.
  induction v as [|b0|t|s|l IHl|m IHm] using jvalue_ind'; intros Hn Hs; try reflexivity.
  - destruct t as [|c t]; [reflexivity|exact Hn].
  - exact Hs.
  - cbn [norm_nums wf_value]. cbn [nums_ok strs_ok] in Hn, Hs.
    rewrite forallb_forall in Hn, Hs. rewrite Forall_forall in IHl.
    apply forallb_forall. intros y Hy. apply in_map_iff in Hy. destruct Hy as [x [<- Hx]].
    apply IHl; [exact Hx|apply Hn; exact Hx|apply Hs; exact Hx].
  - cbn [norm_nums wf_value]. cbn [nums_ok strs_ok] in Hn, Hs.
    rewrite forallb_forall in Hn, Hs. rewrite Forall_forall in IHm.
    apply forallb_forall. intros y Hy. apply in_map_iff in Hy. destruct Hy as [x [<- Hx]].
    cbn [fst snd]. specialize (Hs x Hx). apply andb_true_iff in Hs. destruct Hs as [Hk Hs].
    rewrite Hk. cbn [andb]. apply IHm; [exact Hx|apply Hn; exact Hx|exact Hs].
Qed.

Lemma depth_norm : forall v, depth (norm_nums v) = depth v.
Proof.
  induction v as [|b0|t|s|l IHl|m IHm] using jvalue_ind'; try reflexivity.
  - destruct t; reflexivity.
  - cbn [norm_nums depth]. f_equal. induction IHl as [|x l Hx _ IH]; [reflexivity|].
    cbn [map fold_right]. rewrite Hx, IH. reflexivity.
  - cbn [norm_nums depth]. f_equal. induction IHm as [|x m Hx _ IH]; [reflexivity|].
    cbn [map fold_right snd]. rewrite Hx, IH. reflexivity.
Qed.

Theorem marshal_raw_ok : forall v p, marshal_value v = Some p -> strs_ok v = true ->
  v <> JNull -> depth v + 1 <= 10000 -> raw_ok p /\ parse p = Some (norm_nums v).
Proof.
  unfold marshal_value. intros v p H Hs Hn Hd. destruct (nums_ok v) eqn:En; [|discriminate].
  injection H as <-. pose proof (wf_norm v En Hs) as Hwf. split.
  - apply raw_ok_encode; [exact Hwf| |rewrite depth_norm; exact Hd].
    destruct v; try discriminate; [congruence|]. destruct tok; discriminate.
  - apply parse_encode; [exact Hwf|rewrite depth_norm; lia].
Qed.
Print Assumptions marshal_raw_ok.
