(* Proofs/JsonSafeC.v — Marshal of a json.RawMessage (compact with HTML
   escaping) writes no control byte: in a valid JSON text control bytes occur
   only as whitespace outside strings, and exactly that whitespace is dropped. *)
From VL Require Import Bytes Lit Json Wire Service Client JsonSafeA JsonSafeB.
Open Scope N_scope.

(* ---------- a string literal is compacted to printable bytes ---------- *)

Definition str_ok (s k : bytes) : Prop :=
  exists X, compact_f true false s = X ++ compact_f false false k /\ no_ctl X.

Lemma str_step : forall X s s' k,
  compact_f true false s = X ++ compact_f true false s' -> no_ctl X -> str_ok s' k -> str_ok s k.
Proof.
  intros X s s' k He HX [Y [HY1 HY2]]. exists (X ++ Y). split.
  - rewrite He, HY1, app_assoc. reflexivity.
  - apply no_ctl_app; assumption.
Qed.

Lemma scan_string_ord : forall fuel c r a k, c <> 34 -> c <> 92 ->
  scan_string fuel (c :: r) = Some (a, k) ->
  32 <= c /\ exists f' a', scan_string f' r = Some (a', k).
Proof.
  intros fuel c r a k H34 H92 H. destruct fuel as [|f]; [discriminate|].
  rewrite scan_string_cons in H.
  destruct (c =? 34) eqn:E1; [b2p; contradiction|].
  destruct (c =? 92) eqn:E2; [b2p; contradiction|].
  destruct (c <? 32) eqn:E3; [discriminate|].
  destruct (scan_string f r) as [[a' k']|] eqn:E4; [|discriminate].
  inversion H; subst. b2p. split; [lia|]. exists f, a'. exact E4.
Qed.

Lemma is_hex_range : forall h, is_hex h = true -> 48 <= h /\ h <= 102 /\ h <> 92 /\ h <> 60 /\ h <> 62.
Proof. intros h H. unfold is_hex, is_dig in H. b2p; lia. Qed.

Lemma outc_plain : forall c, c <> 60 -> c <> 62 -> c <> 38 -> outc c = [c].
Proof.
  intros c H1 H2 H3. unfold outc.
  destruct ((c =? 60) || (c =? 62) || (c =? 38)) eqn:E; [|reflexivity].
  b2p; contradiction.
Qed.

Lemma compact_tf_hex : forall h r, is_hex h = true ->
  compact_f true false (h :: r) = [h] ++ compact_f true false r.
Proof.
  intros h r H. apply is_hex_range in H. rewrite compact_tf_cons.
  destruct (h =? 92) eqn:E1; [b2p; lia|].
  destruct (h =? 34) eqn:E2; [b2p; lia|].
  destruct (h =? 226) eqn:E3; [b2p; lia|].
  rewrite outc_plain by lia. reflexivity.
Qed.

Lemma simple_esc_ge : forall e, is_simple_esc e = true -> 32 <= e.
Proof. intros e H. unfold is_simple_esc in H. b2p; lia. Qed.

Lemma scan_string_str_ok : forall n fuel s raw k, (length s <= n)%nat ->
  scan_string fuel s = Some (raw, k) -> str_ok s k.
Proof.
  induction n as [|n IH]; intros fuel s raw k Hlen H.
  { destruct s; [|cbn [length] in Hlen; lia]. rewrite scan_string_nil in H. discriminate. }
  destruct fuel as [|f]; [discriminate|].
  destruct s as [|c r]; [discriminate|]. cbn [length] in Hlen.
  destruct (N.eq_dec c 34) as [E34|N34].
  { (* closing quote *)
    subst c. rewrite scan_string_cons in H. cbn in H. inversion H; subst.
    exists (outc 34). split; [rewrite compact_tf_cons; reflexivity|].
    apply outc_no_ctl. lia. }
  destruct (N.eq_dec c 92) as [E92|N92].
  { (* escape *)
    subst c. rewrite scan_string_cons in H.
    change (92 =? 34) with false in H. change (92 =? 92) with true in H. cbv iota in H.
    destruct r as [|e r2]; [discriminate|]. cbn [length] in Hlen.
    assert (Hstep : compact_f true false (92 :: e :: r2)
                    = (outc 92 ++ outc e) ++ compact_f true false r2).
    { rewrite compact_tf_cons. change (92 =? 92) with true. cbv iota.
      rewrite compact_tt_cons, app_assoc. reflexivity. }
    destruct (is_simple_esc e) eqn:Ee.
    - destruct (scan_string f r2) as [[a k']|] eqn:Es; [|discriminate].
      inversion H; subst.
      apply (str_step _ _ _ _ Hstep).
      + apply no_ctl_app; apply outc_no_ctl; [lia | apply simple_esc_ge; exact Ee].
      + apply (IH f r2 a k); [lia | exact Es].
    - destruct (e =? 117) eqn:Eu; [|discriminate]. b2p. subst e.
      destruct r2 as [|h1 [|h2 [|h3 [|h4 r']]]]; try discriminate.
      destruct (is_hex h1) eqn:H1; [|discriminate].
      destruct (is_hex h2) eqn:H2; [|discriminate].
      destruct (is_hex h3) eqn:H3; [|discriminate].
      destruct (is_hex h4) eqn:H4; [|discriminate].
      cbn [andb] in H.
      destruct (scan_string f r') as [[a k']|] eqn:Es; [|discriminate].
      inversion H; subst. cbn [length] in Hlen.
      apply (str_step ((outc 92 ++ outc 117) ++ [h1; h2; h3; h4]) _ r').
      + rewrite Hstep. rewrite !compact_tf_hex by assumption.
        rewrite <- !app_assoc. reflexivity.
      + apply no_ctl_app; [apply no_ctl_app; apply outc_no_ctl; lia|].
        apply is_hex_range in H1, H2, H3, H4.
        repeat (apply no_ctl_cons; [lia|]). apply no_ctl_nil.
      + apply (IH f r' a k); [lia | exact Es]. }
  (* ordinary byte *)
  destruct (scan_string_ord _ _ _ _ _ N34 N92 H) as [Hc [f1 [a1 H1]]].
  assert (Hr : str_ok r k) by (apply (IH f1 r a1 k); [lia | exact H1]).
  assert (Hplain : compact_f true false (c :: r) = outc c ++ compact_f true false r ->
                   str_ok (c :: r) k).
  { intro He. apply (str_step (outc c) _ r); [exact He | apply outc_no_ctl; exact Hc | exact Hr]. }
  pose proof (compact_tf_cons c r) as Hc2.
  destruct (c =? 92) eqn:E92; [b2p; contradiction|].
  destruct (c =? 34) eqn:E34; [b2p; contradiction|].
  destruct (c =? 226) eqn:E226; [|apply Hplain; exact Hc2].
  destruct r as [|c1 [|x r']]; try (apply Hplain; exact Hc2).
  destruct (c1 =? 128) eqn:E128; [|apply Hplain; exact Hc2].
  destruct ((x =? 168) || (x =? 169)) eqn:Ex; [|apply Hplain; exact Hc2].
  (* U+2028 / U+2029: three bytes are replaced by one escape *)
  assert (Hx : x = 168 \/ x = 169) by (b2p; auto).
  clear Ex. b2p. subst c1. cbn [length] in Hlen.
  assert (N1 : 128 <> 34) by lia. assert (N2 : 128 <> 92) by lia.
  destruct (scan_string_ord _ _ _ _ _ N1 N2 H1) as [_ [f2 [a2 H2]]].
  assert (N3 : x <> 34) by (destruct Hx; lia). assert (N4 : x <> 92) by (destruct Hx; lia).
  destruct (scan_string_ord _ _ _ _ _ N3 N4 H2) as [_ [f3 [a3 H3]]].
  apply (str_step _ _ r' _ Hc2).
  - destruct (x =? 168); apply no_ctlb_sound; reflexivity.
  - apply (IH f3 r' a3 k); [lia | exact H3].
Qed.

(* ---------- outside strings ---------- *)

Definition cpt_ok (s k : bytes) : Prop :=
  exists X, compact_f false false s = X ++ compact_f false false k /\ no_ctl X.

Lemma cpt_refl : forall s, cpt_ok s s.
Proof. intro s. exists []. split; [reflexivity | apply no_ctl_nil]. Qed.

Lemma cpt_trans : forall a b c, cpt_ok a b -> cpt_ok b c -> cpt_ok a c.
Proof.
  intros a b0 c [X [HX1 HX2]] [Y [HY1 HY2]]. exists (X ++ Y). split.
  - rewrite HX1, HY1, app_assoc. reflexivity.
  - apply no_ctl_app; assumption.
Qed.

Lemma compact_skip_ws : forall s, compact_f false false (skip_ws s) = compact_f false false s.
Proof.
  unfold skip_ws. induction s as [|c r IH]; [reflexivity|].
  cbn [drop_while]. destruct (is_ws c) eqn:E; [|reflexivity].
  rewrite compact_ff_cons, E. exact IH.
Qed.

Lemma cpt_skip : forall s, cpt_ok s (skip_ws s).
Proof.
  intro s. exists []. split; [|apply no_ctl_nil].
  rewrite compact_skip_ws. reflexivity.
Qed.

Lemma cpt_char : forall c r, c <> 34 -> 32 <= c -> cpt_ok (c :: r) r.
Proof.
  intros c r H34 Hc. rewrite <- N.eqb_neq in H34.
  destruct (is_ws c) eqn:E.
  - exists []. split; [|apply no_ctl_nil]. rewrite compact_ff_cons, E. reflexivity.
  - exists (outc c). split; [|apply outc_no_ctl; exact Hc].
    rewrite compact_ff_cons, E, H34. reflexivity.
Qed.

(* whitespace, then one structural byte *)
Lemma cpt_ws_char : forall a c b0, skip_ws a = c :: b0 -> c <> 34 -> 32 <= c -> cpt_ok a b0.
Proof.
  intros a c b0 H H34 Hc. apply (cpt_trans _ (skip_ws a)); [apply cpt_skip|].
  rewrite H. apply cpt_char; assumption.
Qed.

Definition plainb (c : N) : bool := negb (c =? 34) && (32 <=? c).

Lemma cpt_plain : forall p k, forallb plainb p = true -> cpt_ok (p ++ k) k.
Proof.
  induction p as [|c p IH]; intros k H; [apply cpt_refl|].
  cbn [forallb] in H. apply andb_true_iff in H. destruct H as [H1 H2].
  unfold plainb in H1. apply andb_true_iff in H1. destruct H1 as [H1 H3].
  apply negb_true_iff in H1. b2p.
  cbn [app]. apply (cpt_trans _ (p ++ k)); [apply cpt_char; assumption | apply IH; exact H2].
Qed.

Lemma numch_plain : forall c, numch c = true -> plainb c = true.
Proof.
  intros c H. apply numch_ge in H. unfold plainb.
  apply andb_true_iff. split; [apply negb_true_iff; apply N.eqb_neq; lia | apply N.leb_le; lia].
Qed.

Lemma cpt_num : forall s tok k, scan_number s = Some (tok, k) -> cpt_ok s k.
Proof.
  intros s tok k H. apply scan_number_spec in H. destruct H as [H1 H2]. subst s.
  apply cpt_plain. unfold all_numch in H2. rewrite forallb_forall in H2.
  apply forallb_forall. intros c Hc. apply numch_plain. apply H2. exact Hc.
Qed.

Lemma cpt_str : forall fuel r raw k, scan_string fuel r = Some (raw, k) -> cpt_ok (34 :: r) k.
Proof.
  intros fuel r raw k H.
  destruct (scan_string_str_ok (length r) fuel r raw k (le_n _) H) as [X [HX1 HX2]].
  exists (outc 34 ++ X). split.
  - rewrite compact_ff_cons. change (is_ws 34) with false. change (34 =? 34) with true.
    cbv iota. rewrite HX1, app_assoc. reflexivity.
  - apply no_ctl_app; [apply outc_no_ctl; lia | exact HX2].
Qed.

(* ---------- the value scanner ---------- *)

Definition Pv (fuel : nat) : Prop :=
  forall d s v k, scan_value fuel d s = Some (v, k) -> cpt_ok s k.
Definition Pm (fuel : nat) : Prop :=
  forall d acc s v k, scan_members fuel d acc s = Some (v, k) -> cpt_ok s k.
Definition Pe (fuel : nat) : Prop :=
  forall d acc s v k, scan_elements fuel d acc s = Some (v, k) -> cpt_ok s k.

Lemma Pv_step : forall f, Pm f -> Pe f -> Pv (S f).
Proof.
  intros f IHm IHe d s v k H.
  destruct s as [|c r]; [rewrite scan_value_nil in H; discriminate|].
  rewrite scan_value_cons in H.
  destruct (c =? 123) eqn:E1.
  { b2p. subst c. rewrite sv_obj_eq in H.
    destruct (max_depth <? d + 1); [discriminate|].
    apply (cpt_trans _ r); [apply cpt_char; lia|].
    apply (cpt_trans _ (skip_ws r)); [apply cpt_skip|].
    destruct (skip_ws r) as [|c2 k2]; [apply (IHm _ _ _ _ _ H)|].
    destruct (c2 =? 125) eqn:E2; [|apply (IHm _ _ _ _ _ H)].
    b2p. subst c2. inversion H; subst. apply cpt_char; lia. }
  destruct (c =? 91) eqn:E2.
  { b2p. subst c. rewrite sv_arr_eq in H.
    destruct (max_depth <? d + 1); [discriminate|].
    apply (cpt_trans _ r); [apply cpt_char; lia|].
    apply (cpt_trans _ (skip_ws r)); [apply cpt_skip|].
    destruct (skip_ws r) as [|c2 k2]; [apply (IHe _ _ _ _ _ H)|].
    destruct (c2 =? 93) eqn:E3; [|apply (IHe _ _ _ _ _ H)].
    b2p. subst c2. inversion H; subst. apply cpt_char; lia. }
  destruct (c =? 34) eqn:E3.
  { b2p. subst c. unfold sv_str in H.
    destruct (scan_string (S (length r)) r) as [[raw k']|] eqn:Es; [|discriminate].
    inversion H; subst. apply (cpt_str _ _ _ _ Es). }
  destruct (c =? 116) eqn:E4.
  { b2p. subst c. apply kw_t_inv in H. subst r.
    apply (cpt_plain [116; 114; 117; 101]). reflexivity. }
  destruct (c =? 102) eqn:E5.
  { b2p. subst c. apply kw_f_inv in H. subst r.
    apply (cpt_plain [102; 97; 108; 115; 101]). reflexivity. }
  destruct (c =? 110) eqn:E6.
  { b2p. subst c. apply kw_n_inv in H. subst r.
    apply (cpt_plain [110; 117; 108; 108]). reflexivity. }
  unfold sv_num in H.
  destruct (scan_number (c :: r)) as [[tok k']|] eqn:En; [|discriminate].
  inversion H; subst. apply (cpt_num _ _ _ En).
Qed.

Lemma Pm_step : forall f, Pv f -> Pm f -> Pm (S f).
Proof.
  intros f IHv IHm d acc s v k H. rewrite scan_members_S in H.
  destruct s as [|c r]; [discriminate|].
  destruct (c =? 34) eqn:E1; [|discriminate]. b2p. subst c.
  unfold sm_key in H.
  destruct (scan_string (S (length r)) r) as [[key k1]|] eqn:Es; [|discriminate].
  apply (cpt_trans _ k1); [apply (cpt_str _ _ _ _ Es)|].
  rewrite sm_colon_eq in H.
  destruct (skip_ws k1) as [|c2 k2] eqn:Ew1; [discriminate|].
  destruct (c2 =? 58) eqn:E2; [|discriminate]. b2p. subst c2.
  apply (cpt_trans _ k2); [apply (cpt_ws_char _ _ _ Ew1); lia|].
  apply (cpt_trans _ (skip_ws k2)); [apply cpt_skip|].
  destruct (scan_value f d (skip_ws k2)) as [[v' k3]|] eqn:Ev; [|discriminate].
  apply (cpt_trans _ k3); [apply (IHv _ _ _ _ Ev)|].
  rewrite sm_tail_eq in H.
  destruct (skip_ws k3) as [|c4 k4] eqn:Ew3; [discriminate|].
  destruct (c4 =? 44) eqn:E3.
  { b2p. subst c4. apply (cpt_trans _ k4); [apply (cpt_ws_char _ _ _ Ew3); lia|].
    apply (cpt_trans _ (skip_ws k4)); [apply cpt_skip|]. apply (IHm _ _ _ _ _ H). }
  destruct (c4 =? 125) eqn:E4; [|discriminate].
  b2p. subst c4. inversion H; subst. apply (cpt_ws_char _ _ _ Ew3); lia.
Qed.

Lemma Pe_step : forall f, Pv f -> Pe f -> Pe (S f).
Proof.
  intros f IHv IHe d acc s v k H. rewrite scan_elements_S in H.
  destruct (scan_value f d s) as [[v' k1]|] eqn:Ev; [|discriminate].
  apply (cpt_trans _ k1); [apply (IHv _ _ _ _ Ev)|].
  rewrite se_tail_eq in H.
  destruct (skip_ws k1) as [|c2 k2] eqn:Ew; [discriminate|].
  destruct (c2 =? 44) eqn:E1.
  { b2p. subst c2. apply (cpt_trans _ k2); [apply (cpt_ws_char _ _ _ Ew); lia|].
    apply (cpt_trans _ (skip_ws k2)); [apply cpt_skip|]. apply (IHe _ _ _ _ _ H). }
  destruct (c2 =? 93) eqn:E2; [|discriminate].
  b2p. subst c2. inversion H; subst. apply (cpt_ws_char _ _ _ Ew); lia.
Qed.

Lemma scan_all_cpt : forall fuel, Pv fuel /\ Pm fuel /\ Pe fuel.
Proof.
  induction fuel as [|f [IHv [IHm IHe]]].
  - repeat split; intro; intros; discriminate.
  - split; [apply Pv_step; assumption|].
    split; [apply Pm_step; assumption | apply Pe_step; assumption].
Qed.

(* ---------- whole documents ---------- *)

Lemma jparse_cpt : forall raw v, jparse raw = Some v ->
  exists X, compact_f false false raw = X /\ no_ctl X.
Proof.
  intros raw v H. unfold jparse in H. cbv zeta in H.
  destruct (scan_value (S (length (skip_ws raw))) 0 (skip_ws raw)) as [[v' k]|] eqn:Ev;
    [|discriminate].
  destruct (skip_ws k) as [|x t] eqn:Ek; [|discriminate].
  destruct (scan_all_cpt (S (length (skip_ws raw)))) as [Hv _].
  assert (Hc : cpt_ok raw []).
  { apply (cpt_trans _ (skip_ws raw)); [apply cpt_skip|].
    apply (cpt_trans _ k); [apply (Hv _ _ _ _ Ev)|].
    rewrite <- Ek. apply cpt_skip. }
  destruct Hc as [X [HX1 HX2]]. exists X. split; [|exact HX2].
  rewrite HX1. cbn [compact_f]. apply app_nil_r.
Qed.

(* a RawMessage that Marshal accepts is written without control bytes *)
Theorem compact_raw_no_ctl : forall raw c, compact_raw raw = Some c -> no_ctl c.
Proof.
  intros raw c H. unfold compact_raw, valid in H.
  destruct (jparse raw) as [v|] eqn:Ej; [|discriminate].
  inversion H; subst.
  destruct (jparse_cpt raw v Ej) as [X [HX1 HX2]]. rewrite HX1. exact HX2.
Qed.
Print Assumptions compact_raw_no_ctl.

(* non-vacuity: whitespace (incl. tab, CR, LF) outside strings is dropped,
   '<' inside a string is escaped *)
Example compact_example :
  compact_raw [123; 10; 9; 34; 107; 34; 32; 58; 13; 34; 60; 34; 32; 125; 10]
  = Some [123; 34; 107; 34; 58; 34; 92; 117; 48; 48; 51; 99; 34; 125].
Proof. vm_compute. reflexivity. Qed.

(* a raw control byte inside a string literal is rejected, not written *)
Example compact_reject : compact_raw [34; 0; 34] = None.
Proof. vm_compute. reflexivity. Qed.
