(* Proofs/CtxioProofs.v — invariants and progress of the context-aware I/O model (Model/Ctxio.v).
   T1 join, T2 prompt return (and its refutation without deadlines), T3 no stale deadline,
   T4 byte accounting, soundness/completeness of [outcomes]. *)
From VL Require Import Bytes Ctxio.
Open Scope nat_scope.

(* ---------- generic machinery ---------- *)

Lemma creach_inv_ind : forall (P : cst -> Prop) s0,
  P s0 -> (forall s l s', P s -> cstep s l = Some s' -> P s') ->
  forall s, creach s0 s -> P s.
Proof.
  intros P s0 H0 Hs s Hr. induction Hr as [|s l s' Hr IH Hst]; eauto.
Qed.

Lemma creach_trans_run : forall s0 s ls s', creach s0 s -> crun s ls = Some s' -> creach s0 s'.
Proof.
  intros s0 s ls. revert s. induction ls as [|l r IH]; intros s s' Hr Hrun; cbn in Hrun.
  - inversion Hrun; subst; exact Hr.
  - destruct (cstep s l) as [s1|] eqn:E; [|discriminate].
    eapply IH; [eapply cr_step; eauto | exact Hrun].
Qed.

(* invert one step: split lazily on exactly what [cstep] matches on *)
Ltac cstep_inv H :=
  cbn [cstep upd] in H;
  repeat match type of H with
  | Some _ = Some _ => inversion H; subst; clear H
  | None = Some _ => discriminate H
  | context [match ?x with _ => _ end] => destruct x eqn:?
  end.

Ltac proj := unfold upd in *; cbn [pc helper chan deadline has_deadline expired cancelled avail peer_closed
                  honours delivered discarded sent] in *.

(* ---------- monotone / frozen fields ---------- *)

Lemma step_honours : forall s l s', cstep s l = Some s' -> honours s' = honours s.
Proof. intros s l s' H. destruct l; cstep_inv H; proj; auto. Qed.

Lemma step_cancelled_mono : forall s l s', cstep s l = Some s' -> cancelled s = true -> cancelled s' = true.
Proof. intros s l s' H. destruct l; cstep_inv H; proj; auto. Qed.

Lemma step_done_mono : forall s l s', cstep s l = Some s' -> done_ctx s = true -> done_ctx s' = true.
Proof.
  intros s l s' H. unfold done_ctx. destruct l; cstep_inv H; proj; auto using orb_true_r.
Qed.

Lemma step_internal_ctx : forall s l s', internal l = true -> cstep s l = Some s' ->
  has_deadline s' = has_deadline s /\ expired s' = expired s /\ cancelled s' = cancelled s.
Proof. intros s l s' Hi H. destruct l; try discriminate Hi; cstep_inv H; proj; auto. Qed.

Lemma step_internal_done : forall s l s', internal l = true -> cstep s l = Some s' -> done_ctx s' = done_ctx s.
Proof.
  intros s l s' Hi H. destruct (step_internal_ctx _ _ _ Hi H) as (A & B & C).
  unfold done_ctx. rewrite A, B, C. reflexivity.
Qed.

Lemma step_pret_stable : forall s l s' r, cstep s l = Some s' -> pc s = PRet r -> pc s' = PRet r.
Proof. intros s l s' r H Hp. destruct l; cstep_inv H; proj; congruence. Qed.

(* ---------- T1: shape invariant (caller pc / helper / channel) ---------- *)

(* the only combinations that occur; in particular the helper exists iff the caller is past
   PSpawn, the channel is full only after the helper has gone, and once the caller has
   received (PReset, PRet) the helper is gone and the channel is empty again: exactly one
   result is ever sent. *)
Definition shape (s : cst) : Prop :=
  match pc s, helper s, chan s with
  | (PStart | PSpawn), HNot, None => True
  | (PSelect | PForce | PJoin), (HBlocked | HDone _), None => True
  | (PSelect | PForce | PJoin), HGone, Some _ => True
  | (PReset | PRet _), HGone, None => True
  | _, _, _ => False
  end.

Lemma shape_step : forall s l s', shape s -> cstep s l = Some s' -> shape s'.
Proof.
  intros s l s' I H. unfold shape in *.
  destruct (pc s) eqn:Ep, (helper s) eqn:Eh, (chan s) eqn:Ec; try contradiction;
    destruct l; cstep_inv H; proj; try congruence;
    repeat match goal with
    | E : ?x = _ |- context [?x] => rewrite E
    end; auto.
Qed.

Lemma shape_init : forall left hasdl exp canc hon av, shape (c_init left hasdl exp canc hon av).
Proof. intros; exact I. Qed.

Lemma shape_reach : forall left hasdl exp canc hon av s,
  creach (c_init left hasdl exp canc hon av) s -> shape s.
Proof.
  intros left hasdl exp canc hon av s Hr.
  eapply creach_inv_ind with (P := shape); eauto using shape_step, shape_init.
Qed.

(* readable consequences of [shape] *)
Lemma shape_facts : forall s, shape s ->
  (helper s = HNot <-> (pc s = PStart \/ pc s = PSpawn)) /\
  (forall r, chan s = Some r -> helper s = HGone) /\
  (helper s = HGone -> chan s = None -> pc s = PReset \/ exists r, pc s = PRet r) /\
  (pc s = PReset \/ (exists r, pc s = PRet r) -> helper s = HGone /\ chan s = None).
Proof.
  intros s I. unfold shape in I.
  destruct (pc s) eqn:Ep, (helper s) eqn:Eh, (chan s) eqn:Ec; try contradiction;
    repeat split; intros;
    repeat match goal with
    | X : _ \/ _ |- _ => destruct X
    | X : exists _, _ |- _ => destruct X
    end; try congruence; auto; try (right; eexists; reflexivity).
Qed.

Theorem T1_join : forall left hasdl exp canc hon av s r,
  creach (c_init left hasdl exp canc hon av) s -> pc s = PRet r ->
  helper s = HGone /\ chan s = None.
Proof.
  intros left hasdl exp canc hon av s r Hr Hp.
  apply shape_reach in Hr. apply shape_facts in Hr. destruct Hr as (_ & _ & _ & H).
  apply H. right. eauto.
Qed.
Print Assumptions T1_join.

(* the supporting invariant in the form asked for *)
Theorem T1_helper_channel : forall left hasdl exp canc hon av s,
  creach (c_init left hasdl exp canc hon av) s ->
  (helper s <> HNot <-> (pc s <> PStart /\ pc s <> PSpawn)) /\
  (forall r, chan s = Some r -> helper s = HGone) /\
  (helper s = HGone -> chan s = None -> pc s = PReset \/ exists r, pc s = PRet r).
Proof.
  intros left hasdl exp canc hon av s Hr.
  apply shape_reach in Hr. apply shape_facts in Hr. destruct Hr as (A & B & C & _).
  split; [|split; assumption].
  split.
  - intros Hn. split; intros X; apply Hn, A; auto.
  - intros [X Y] Hn. apply A in Hn. destruct Hn; contradiction.
Qed.
Print Assumptions T1_helper_channel.

(* ---------- T2: prompt return on a transport that honours deadlines ---------- *)

Definition join_dl (s : cst) : Prop := pc s = PJoin -> deadline s = DPast.

Lemma join_dl_step : forall s l s', join_dl s -> cstep s l = Some s' -> join_dl s'.
Proof.
  intros s l s' I H. unfold join_dl in *.
  destruct l; cstep_inv H; proj; intros X; try discriminate X; auto;
    try (rewrite (I X) in *; congruence).
Qed.

Lemma join_dl_reach : forall left hasdl exp canc hon av s,
  creach (c_init left hasdl exp canc hon av) s -> join_dl s.
Proof.
  intros left hasdl exp canc hon av s Hr.
  eapply creach_inv_ind with (P := join_dl); eauto using join_dl_step.
  intros X; discriminate X.
Qed.

Definition pc_rank (p : cpc) : nat :=
  match p with PStart => 6 | PSpawn => 5 | PSelect => 4 | PForce => 3 | PJoin => 2 | PReset => 1 | PRet _ => 0 end.
Definition h_rank (h : hst) : nat :=
  match h with HNot => 2 | HBlocked => 2 | HDone _ => 1 | HGone => 0 end.
(* at most 8 *)
Definition mu (s : cst) : nat := pc_rank (pc s) + h_rank (helper s).

Lemma mu_le_8 : forall s, mu s <= 8.
Proof. intros s. unfold mu. destruct (pc s), (helper s); cbn; lia. Qed.

Lemma T2_progress_gen : forall s, shape s -> join_dl s ->
  honours s = true -> done_ctx s = true -> (forall r, pc s <> PRet r) ->
  exists l s', internal l = true /\ cstep s l = Some s'.
Proof.
  intros s Sh Jd Hh Hd Hn. unfold shape, join_dl in *.
  destruct (pc s) eqn:Ep.
  - exists LCaller. eexists. split; [reflexivity|]. cbn [cstep]. rewrite Ep. reflexivity.
  - exists LCaller. eexists. split; [reflexivity|]. cbn [cstep]. rewrite Ep. reflexivity.
  - exists LCaller. eexists. split; [reflexivity|]. cbn [cstep]. rewrite Ep, Hd. reflexivity.
  - exists LCaller. eexists. split; [reflexivity|]. cbn [cstep]. rewrite Ep. reflexivity.
  - specialize (Jd eq_refl).
    destruct (helper s) eqn:Eh, (chan s) eqn:Ec; try contradiction.
    + exists LHelperTimeout. eexists. split; [reflexivity|]. cbn [cstep]. rewrite Eh, Jd, Hh. reflexivity.
    + exists LHelperSend. eexists. split; [reflexivity|]. cbn [cstep]. rewrite Eh, Ec. reflexivity.
    + exists LCallerRecv. eexists. split; [reflexivity|]. cbn [cstep]. rewrite Ep, Ec. reflexivity.
  - exists LCaller. eexists. split; [reflexivity|]. cbn [cstep]. rewrite Ep. reflexivity.
  - exfalso. eapply Hn. reflexivity.
Qed.

Theorem T2_progress : forall left hasdl exp canc hon av s,
  creach (c_init left hasdl exp canc hon av) s ->
  honours s = true -> done_ctx s = true -> (forall r, pc s <> PRet r) ->
  exists l s', internal l = true /\ cstep s l = Some s'.
Proof.
  intros left hasdl exp canc hon av s Hr. apply T2_progress_gen.
  - eapply shape_reach; eauto.
  - eapply join_dl_reach; eauto.
Qed.
Print Assumptions T2_progress.

(* every internal step decreases the measure ([shape] is needed only at PSpawn: the helper
   has not started yet) *)
Lemma mu_step : forall s l s', shape s -> internal l = true -> cstep s l = Some s' -> mu s' < mu s.
Proof.
  intros s l s' Sh Hi H. unfold mu.
  destruct l; try discriminate Hi; cstep_inv H; proj;
    repeat match goal with E : ?x = _ |- context [?x] => rewrite E end; cbn.
  all: try lia.
  unfold shape in Sh.
  match goal with E : pc s = PSpawn |- _ => rewrite E in Sh end. destruct (helper s); try contradiction. cbn. lia.
Qed.

Theorem T2_measure : forall left hasdl exp canc hon av s l s',
  creach (c_init left hasdl exp canc hon av) s -> honours s = true -> done_ctx s = true ->
  internal l = true -> cstep s l = Some s' -> mu s' < mu s.
Proof. intros; eapply mu_step; eauto using shape_reach. Qed.
Print Assumptions T2_measure.

Lemma T2_prompt_gen : forall n s, mu s <= n -> shape s -> join_dl s ->
  honours s = true -> done_ctx s = true ->
  exists ls s' r, Forall (fun l => internal l = true) ls /\ crun s ls = Some s' /\
                  pc s' = PRet r /\ length ls <= mu s.
Proof.
  induction n as [|n IH]; intros s Hm Sh Jd Hh Hd.
  - (* mu s = 0 forces PRet *)
    unfold mu in Hm. destruct (pc s) eqn:Ep; cbn in Hm; try lia.
    exists [], s, r. repeat split; auto. cbn. lia.
  - destruct (pc s) eqn:Ep;
      try (assert (Hn : forall r, pc s <> PRet r) by (intros r0; rewrite Ep; discriminate);
           destruct (T2_progress_gen s Sh Jd Hh Hd Hn) as (l & s1 & Hi & Hs);
           pose proof (mu_step _ _ _ Sh Hi Hs) as Hlt;
           destruct (IH s1) as (ls & s' & r & Hf & Hrun & Hp & Hlen);
           [ lia | eapply shape_step; eauto | eapply join_dl_step; eauto
           | rewrite (step_honours _ _ _ Hs); exact Hh
           | rewrite (step_internal_done _ _ _ Hi Hs); exact Hd | ];
           exists (l :: ls), s', r; repeat split;
           [ constructor; assumption | cbn [crun]; rewrite Hs; exact Hrun | exact Hp
           | cbn [length]; lia ]).
    exists [], s, r. repeat split; auto. cbn. lia.
Qed.

Corollary T2_prompt : forall left hasdl exp canc hon av s,
  creach (c_init left hasdl exp canc hon av) s -> honours s = true -> done_ctx s = true ->
  exists ls s' r, Forall (fun l => internal l = true) ls /\ crun s ls = Some s' /\
                  pc s' = PRet r /\ length ls <= mu s.
Proof.
  intros left hasdl exp canc hon av s Hr. apply (T2_prompt_gen (mu s)); auto.
  - eapply shape_reach; eauto.
  - eapply join_dl_reach; eauto.
Qed.
Print Assumptions T2_prompt.

(* in particular within 8 internal steps *)
Corollary T2_prompt_8 : forall left hasdl exp canc hon av s,
  creach (c_init left hasdl exp canc hon av) s -> honours s = true -> done_ctx s = true ->
  exists ls s' r, Forall (fun l => internal l = true) ls /\ crun s ls = Some s' /\
                  pc s' = PRet r /\ length ls <= 8.
Proof.
  intros left hasdl exp canc hon av s Hr Hh Hd.
  destruct (T2_prompt _ _ _ _ _ _ _ Hr Hh Hd) as (ls & s' & r & A & B & C & D).
  exists ls, s', r. pose proof (mu_le_8 s). repeat split; auto. lia.
Qed.
Print Assumptions T2_prompt_8.

(* ---------- T4: byte accounting ---------- *)

Definition acct (s : cst) : Prop := delivered s + discarded s + in_flight s + avail s = sent s.

(* [shape] is needed only at PSpawn (the helper slot is overwritten) *)
Lemma acct_step : forall s l s', shape s -> acct s -> cstep s l = Some s' -> acct s'.
Proof.
  intros s l s' Sh I H. unfold acct, in_flight, shape in *.
  destruct l; cstep_inv H; proj;
    repeat match goal with
    | E : ?x = _ |- _ => rewrite E in *
    end;
    repeat match goal with
    | |- context [match ?r with HData _ => _ | HTimeout => _ | HEof => _ end] => destruct r
    | _ : context [match ?r with HData _ => _ | HTimeout => _ | HEof => _ end] |- _ => destruct r
    | _ : context [match ?h with HNot => _ | HBlocked => _ | HDone _ => _ | HGone => _ end] |- _ => destruct h
    | _ : context [match ?c with Some _ => _ | None => _ end] |- _ => destruct c
    end; try lia; try contradiction.
Qed.

Theorem T4_accounting : forall left hasdl exp canc hon av s,
  creach (c_init left hasdl exp canc hon av) s ->
  delivered s + discarded s + in_flight s + avail s = sent s.
Proof.
  intros left hasdl exp canc hon av s Hr.
  assert (H : shape s /\ acct s); [|exact (proj2 H)].
  eapply creach_inv_ind with (P := fun s => shape s /\ acct s); eauto.
  - split; [exact I|]. unfold acct, in_flight. cbn. lia.
  - intros s1 l s2 [A B] Hs. split; eauto using shape_step, acct_step.
Qed.
Print Assumptions T4_accounting.

(* ---------- what the results mean ---------- *)

Definition data_ok (s : cst) : Prop :=
  (forall n, helper s = HDone (HData n) -> 0 < n) /\
  (forall n, chan s = Some (HData n) -> 0 < n) /\
  (forall n, pc s = PRet (CData n) -> 0 < n) /\
  delivered s = match pc s with PRet (CData n) => n | _ => 0 end /\
  (helper s = HDone HEof -> peer_closed s = true) /\
  (chan s = Some HEof -> peer_closed s = true) /\
  (pc s = PRet CEof -> peer_closed s = true).

Lemma data_ok_step : forall s l s', data_ok s -> cstep s l = Some s' -> data_ok s'.
Proof.
  intros s l s' (A & B & C & D & E & F & G) H. unfold data_ok.
  destruct l; cstep_inv H; proj;
    repeat match goal with
    | X : ?x = _ |- _ => rewrite X in *
    end;
    repeat split; intros;
    repeat match goal with
    | X : HDone _ = HDone _ |- _ => inversion X; subst; clear X
    | X : Some _ = Some _ |- _ => inversion X; subst; clear X
    | X : PRet _ = PRet _ |- _ => inversion X; subst; clear X
    | X : Nat.eqb _ _ = false |- _ => apply Nat.eqb_neq in X
    | X : andb _ _ = true |- _ => apply andb_true_iff in X; destruct X
    end;
    try discriminate; try congruence; eauto; try lia.
  all: match goal with h : hres |- _ => destruct h end; cbn [to_cres] in *;
    try discriminate; try lia; auto.
  match goal with X : CData _ = CData _ |- _ => inversion X; subst end. auto.
Qed.

Lemma data_ok_reach : forall left hasdl exp canc hon av s,
  creach (c_init left hasdl exp canc hon av) s -> data_ok s.
Proof.
  intros left hasdl exp canc hon av s Hr.
  eapply creach_inv_ind with (P := data_ok); eauto using data_ok_step.
  unfold data_ok. cbn. repeat split; intros; discriminate.
Qed.

Theorem T2_result_when_nothing_arrives : forall left hasdl exp canc hon av s r,
  creach (c_init left hasdl exp canc hon av) s -> pc s = PRet r ->
  sent s = 0 -> peer_closed s = false -> r = CCtxErr \/ r = CTimeout.
Proof.
  intros left hasdl exp canc hon av s r Hr Hp Hs Hc.
  pose proof (T4_accounting _ _ _ _ _ _ _ Hr) as Ha.
  destruct (data_ok_reach _ _ _ _ _ _ _ Hr) as (_ & _ & C & D & _ & _ & G).
  destruct r as [n| | |]; auto.
  - specialize (C n Hp). rewrite Hp in D. lia.
  - specialize (G Hp). congruence.
Qed.
Print Assumptions T2_result_when_nothing_arrives.

(* a data result is exactly what was delivered, and it is never empty; EOF only after the peer closed *)
Theorem result_data : forall left hasdl exp canc hon av s n,
  creach (c_init left hasdl exp canc hon av) s -> pc s = PRet (CData n) -> 0 < n /\ delivered s = n.
Proof.
  intros left hasdl exp canc hon av s n Hr Hp.
  destruct (data_ok_reach _ _ _ _ _ _ _ Hr) as (_ & _ & C & D & _).
  rewrite Hp in D. auto.
Qed.
Print Assumptions result_data.

(* refutation on a transport that ignores deadlines *)
Definition stuck_run : list clabel := [LCaller; LCaller; LCancel; LCaller; LCaller].
Definition stuck_state : cst := mkC PJoin HBlocked None DPast false false true 0 false false 0 0 0.
Example stuck_run_ok : crun (c_init DNone false false false false 0) stuck_run = Some stuck_state.
Proof. vm_compute. reflexivity. Qed.

Theorem T2_refuted_without_deadlines :
  exists s, creach (c_init DNone false false false false 0) s /\ cancelled s = true /\
            (forall r, pc s <> PRet r) /\
            forall l, internal l = true -> cstep s l = None.
Proof.
  exists stuck_state. split; [|split; [reflexivity|split]].
  - eapply creach_trans_run; [apply cr_init | exact stuck_run_ok].
  - intros r X. discriminate X.
  - intros l Hi. destruct l; try discriminate Hi; reflexivity.
Qed.
Print Assumptions T2_refuted_without_deadlines.

(* ---------- T3: a left-over deadline never fails a live operation ---------- *)

(* what holds as long as the context is live (done_ctx = false); general in the context's
   own deadline: it may have one, provided it has not expired *)
Definition live (s : cst) : Prop :=
  (pc s = PStart -> helper s = HNot) /\
  (pc s <> PStart -> deadline s <> DPast) /\
  helper s <> HDone HTimeout /\ chan s <> Some HTimeout /\
  pc s <> PForce /\ pc s <> PJoin /\ pc s <> PReset /\
  (forall r, pc s = PRet r -> r <> CTimeout /\ r <> CCtxErr) /\
  discarded s = 0.

Lemma done_false_back : forall s l s', cstep s l = Some s' -> done_ctx s' = false -> done_ctx s = false.
Proof.
  intros s l s' H Hd. destruct (done_ctx s) eqn:E; auto.
  rewrite (step_done_mono _ _ _ H E) in Hd. discriminate.
Qed.

(* variant of [cstep_inv] for a state already split into its fields *)
Ltac cstep_inv_flat H :=
  cbn [cstep upd pc helper chan deadline has_deadline expired cancelled avail peer_closed
       honours delivered discarded sent] in H;
  repeat match type of H with
  | Some _ = Some _ => inversion H; subst; clear H
  | None = Some _ => discriminate H
  | context [match ?x with _ => _ end] => first [is_var x; destruct x | destruct x eqn:?]
  end.

Lemma live_step : forall s l s', live s -> cstep s l = Some s' -> done_ctx s' = false -> live s'.
Proof.
  intros s l s' (A & B & C & D & E & F & G & J & K) H Hd'.
  pose proof (done_false_back _ _ _ H Hd') as Hd.
  unfold live, done_ctx in *.
  destruct s as [p h c d hd ex ca av pcl ho de di se].
  destruct l; cstep_inv_flat H; proj;
    try discriminate; try congruence;
    repeat split; intros;
    repeat match goal with
    | X : PRet _ = PRet _ |- _ => inversion X; subst; clear X
    | X : ?a = ?a -> _ |- _ => specialize (X eq_refl)
    end;
    try discriminate; try congruence; eauto;
    try (apply (J _ eq_refl)).
  all: try (match goal with B : _ -> ?d <> DPast |- ?d <> DPast => apply B; congruence end).
  all: try (match goal with A : ?p = PStart -> _ = HNot, H : ?p = PStart |- _ =>
              specialize (A H); discriminate A end).
  all: try (match goal with J : forall r, ?p = PRet r -> _, H : ?p = PRet ?r |- _ =>
              destruct (J _ H); assumption end).
  all: try (match goal with h : hres |- to_cres ?h <> _ => destruct h; cbn; congruence end).
  all: try (destruct ca; discriminate).
  - destruct ca, hd, ex; cbn in *; congruence.
  - unfold done_ctx in *; proj. congruence.
  - exfalso. destruct p; try (specialize (A eq_refl); discriminate A); apply B; congruence.
Qed.

Lemma live_reach : forall left hasdl exp canc hon av s,
  creach (c_init left hasdl exp canc hon av) s -> done_ctx s = false -> live s.
Proof.
  intros left hasdl exp canc hon av s Hr.
  induction Hr as [|s l s' Hr IH Hst]; intros Hd.
  - unfold live. cbn. repeat split; intros; try discriminate; try congruence.
  - eapply live_step; eauto. apply IH. eapply done_false_back; eauto.
Qed.

(* general form: any context (with or without its own deadline) that is still live *)
Theorem T3_no_stale_deadline_gen : forall left hasdl exp canc hon av s,
  creach (c_init left hasdl exp canc hon av) s -> done_ctx s = false ->
  helper s <> HDone HTimeout /\ chan s <> Some HTimeout /\
  (forall r, pc s = PRet r -> r <> CTimeout /\ r <> CCtxErr).
Proof.
  intros left hasdl exp canc hon av s Hr Hd.
  destruct (live_reach _ _ _ _ _ _ _ Hr Hd) as (_ & _ & C & D & _ & _ & _ & J & _). auto.
Qed.
Print Assumptions T3_no_stale_deadline_gen.

(* a context without a deadline: has_deadline stays false, so live = not cancelled *)
Lemma no_deadline_reach : forall left canc hon av s,
  creach (c_init left false false canc hon av) s -> has_deadline s = false.
Proof.
  intros left canc hon av s Hr.
  refine (creach_inv_ind (fun s => has_deadline s = false) _ _ _ s Hr); [reflexivity|].
  intros s1 l s2 I H. destruct l; cstep_inv H; proj; congruence.
Qed.

Lemma no_deadline_live : forall left canc hon av s,
  creach (c_init left false false canc hon av) s -> cancelled s = false -> done_ctx s = false.
Proof.
  intros left canc hon av s Hr Hc. unfold done_ctx.
  rewrite (no_deadline_reach _ _ _ _ _ Hr), Hc. reflexivity.
Qed.

Theorem T3_no_stale_deadline : forall left av hon s,
  creach (c_init left false false false hon av) s -> cancelled s = false ->
  helper s <> HDone HTimeout /\ chan s <> Some HTimeout /\
  (forall r, pc s = PRet r -> r <> CTimeout /\ r <> CCtxErr).
Proof.
  intros left av hon s Hr Hc. eapply T3_no_stale_deadline_gen; eauto.
  eapply no_deadline_live; eauto.
Qed.
Print Assumptions T3_no_stale_deadline.

(* the deadline the context itself prescribes *)
Definition ctx_deadline (s : cst) : dline :=
  if has_deadline s then (if expired s then DPast else DFuture) else DNone.

(* after a cancelled operation the deadline is cleared; while waiting and after a normal
   return it is the context's own deadline *)
Definition dl_ok (s : cst) : Prop :=
  match pc s with
  | PRet CCtxErr => deadline s = DNone
  | PSpawn | PSelect | PRet _ => deadline s = ctx_deadline s
  | _ => True
  end.

Lemma dl_ok_step : forall s l s', dl_ok s -> cstep s l = Some s' -> dl_ok s'.
Proof.
  intros s l s' I H. unfold dl_ok, ctx_deadline in *.
  destruct s as [p h c d hd ex ca av pcl ho de di se].
  destruct l; cstep_inv_flat H; proj; auto; try congruence.
  all: try (match goal with r : hres |- _ => destruct r; cbn [to_cres]; assumption end).
  all: try (destruct p; auto; match goal with r : cres |- _ => destruct r end; auto).
  all: try (destruct ex, d; congruence).
  destruct p; auto; try (destruct ex; subst; reflexivity).
  match goal with r : cres |- _ => destruct r end; subst; auto; destruct ex; reflexivity.
Qed.

Lemma dl_ok_reach : forall left hasdl exp canc hon av s,
  creach (c_init left hasdl exp canc hon av) s -> dl_ok s.
Proof.
  intros left hasdl exp canc hon av s Hr.
  eapply creach_inv_ind with (P := dl_ok); eauto using dl_ok_step. exact I.
Qed.

Theorem T3_deadline_after_return : forall left hasdl exp canc hon av s r,
  creach (c_init left hasdl exp canc hon av) s -> pc s = PRet r ->
  (r = CCtxErr -> deadline s = DNone) /\
  (r <> CCtxErr -> deadline s = if has_deadline s then (if expired s then DPast else DFuture) else DNone).
Proof.
  intros left hasdl exp canc hon av s r Hr Hp.
  pose proof (dl_ok_reach _ _ _ _ _ _ _ Hr) as I. unfold dl_ok, ctx_deadline in I. rewrite Hp in I.
  split; intros X; destruct r; try discriminate X; try congruence.
Qed.
Print Assumptions T3_deadline_after_return.

Theorem T3_start_overwrites : forall s, pc s = PStart -> forall s', cstep s LCaller = Some s' ->
  deadline s' = (if has_deadline s then (if expired s then DPast else DFuture) else DNone) /\ pc s' = PSpawn.
Proof.
  intros s Hp s' H. cbn [cstep] in H. rewrite Hp in H. inversion H; subst. split; reflexivity.
Qed.
Print Assumptions T3_start_overwrites.

Theorem T4_live_context_loses_nothing_gen : forall left hasdl exp canc hon av s,
  creach (c_init left hasdl exp canc hon av) s -> done_ctx s = false -> discarded s = 0.
Proof.
  intros left hasdl exp canc hon av s Hr Hd.
  destruct (live_reach _ _ _ _ _ _ _ Hr Hd) as (_ & _ & _ & _ & _ & _ & _ & _ & K). exact K.
Qed.
Print Assumptions T4_live_context_loses_nothing_gen.

Theorem T4_live_context_loses_nothing : forall left av hon s,
  creach (c_init left false false false hon av) s -> cancelled s = false -> discarded s = 0.
Proof.
  intros left av hon s Hr Hc. eapply T4_live_context_loses_nothing_gen; eauto.
  eapply no_deadline_live; eauto.
Qed.
Print Assumptions T4_live_context_loses_nothing.

(* ---------- the exploration function ---------- *)

Definition nexts (s : cst) : list cst :=
  flat_map (fun l => match cstep s l with Some s' => [s'] | None => [] end) internal_labels.

Lemma nexts_spec : forall s s1, In s1 (nexts s) <-> exists l, internal l = true /\ cstep s l = Some s1.
Proof.
  intros s s1. unfold nexts. rewrite in_flat_map. split.
  - intros (l & Hl & Hin). exists l. destruct (cstep s l) as [s2|] eqn:E; [|contradiction].
    destruct Hin as [Hin|[]]; subst. split; [|reflexivity].
    unfold internal_labels in Hl. cbn in Hl.
    repeat (destruct Hl as [Hl|Hl]; [subst; reflexivity|]). contradiction.
  - intros (l & Hi & Hs). exists l. rewrite Hs. split; [|left; reflexivity].
    destruct l; try discriminate Hi; cbn; auto 10.
Qed.

Lemma outcomes_unfold : forall f s,
  outcomes (S f) s =
  match pc s with
  | PRet r => [Some r]
  | _ => match nexts s with [] => [None] | _ => flat_map (outcomes f) (nexts s) end
  end.
Proof. intros f s. cbn [outcomes]. unfold nexts. destruct (pc s); reflexivity. Qed.

Theorem outcomes_sound : forall fuel s o, In (Some o) (outcomes fuel s) ->
  exists ls s', Forall (fun l => internal l = true) ls /\ crun s ls = Some s' /\ pc s' = PRet o.
Proof.
  induction fuel as [|f IH]; intros s o Hin.
  - cbn in Hin. destruct Hin as [X|[]]; discriminate X.
  - rewrite outcomes_unfold in Hin.
    assert (Hcase : (exists r, pc s = PRet r /\ In (Some o) [Some r]) \/
                    In (Some o) (flat_map (outcomes f) (nexts s))).
    { destruct (pc s) eqn:Ep; try (right; destruct (nexts s); [destruct Hin as [X|[]]; discriminate X | exact Hin]).
      left. eauto. }
    destruct Hcase as [(r & Ep & [X|[]])|Hfm].
    + inversion X; subst. exists [], s. repeat split; auto.
    + apply in_flat_map in Hfm. destruct Hfm as (s1 & Hn & Ho).
      apply nexts_spec in Hn. destruct Hn as (l & Hi & Hs).
      destruct (IH _ _ Ho) as (ls & s' & Hf & Hrun & Hp).
      exists (l :: ls), s'. repeat split; auto. cbn [crun]. rewrite Hs. exact Hrun.
Qed.
Print Assumptions outcomes_sound.

(* ... and it lists all of them, given enough fuel *)
Theorem outcomes_complete : forall ls s s' o fuel,
  Forall (fun l => internal l = true) ls -> crun s ls = Some s' -> pc s' = PRet o ->
  length ls < fuel -> In (Some o) (outcomes fuel s).
Proof.
  induction ls as [|l ls IH]; intros s s' o fuel Hf Hrun Hp Hlen;
    (destruct fuel as [|f]; [cbn in Hlen; lia|]); rewrite outcomes_unfold.
  - cbn in Hrun. inversion Hrun; subst. rewrite Hp. left. reflexivity.
  - cbn [crun] in Hrun. destruct (cstep s l) as [s1|] eqn:Hs; [|discriminate].
    inversion Hf as [|? ? Hi Hf']; subst. cbn [length] in Hlen.
    destruct (pc s) eqn:Ep;
      try (assert (Hn : In s1 (nexts s)) by (apply nexts_spec; eauto);
           assert (Hfm : In (Some o) (flat_map (outcomes f) (nexts s)))
             by (apply in_flat_map; exists s1; split; [exact Hn | eapply IH; eauto; lia]);
           destruct (nexts s); [contradiction | exact Hfm]).
    (* already returned: the result cannot change any more *)
    assert (Hst : forall ks t t', crun t ks = Some t' -> pc t = PRet r -> pc t' = PRet r).
    { induction ks as [|k ks IHk]; intros t t' Hr Ht; cbn in Hr.
      - inversion Hr; subst; exact Ht.
      - destruct (cstep t k) as [t1|] eqn:Ek; [|discriminate].
        eapply IHk; eauto using step_pret_stable. }
    pose proof (Hst _ _ _ Hrun (step_pret_stable _ _ _ _ Hs Ep)) as Hp'.
    rewrite Hp in Hp'. inversion Hp'; subst. left. reflexivity.
Qed.
Print Assumptions outcomes_complete.

(* on an honouring transport with a done context the exploration with fuel 9 finds a result *)
Corollary outcomes_finds_result : forall left hasdl exp canc hon av s,
  creach (c_init left hasdl exp canc hon av) s -> honours s = true -> done_ctx s = true ->
  exists r, In (Some r) (outcomes 9 s).
Proof.
  intros left hasdl exp canc hon av s Hr Hh Hd.
  destruct (T2_prompt_8 _ _ _ _ _ _ _ Hr Hh Hd) as (ls & s' & r & A & B & C & D).
  exists r. eapply outcomes_complete; eauto. lia.
Qed.
Print Assumptions outcomes_finds_result.

(* ---------- examples ---------- *)

Definition cancelled_run : list clabel :=
  [LCaller; LCaller; LCancel; LCaller; LCaller; LHelperTimeout; LHelperSend; LCallerRecv; LCaller].

Example cancelled_run_honouring :
  crun (c_init DFuture false false false true 0) cancelled_run
  = Some (mkC (PRet CCtxErr) HGone None DNone false false true 0 false true 0 0 0).
Proof. vm_compute. reflexivity. Qed.

(* the same labels on a transport that ignores deadlines: the run is not even possible *)
Example cancelled_run_ignoring :
  crun (c_init DFuture false false false false 0) cancelled_run = None.
Proof. vm_compute. reflexivity. Qed.

(* data that arrived before the cancellation was noticed is discarded, not lost track of *)
Example cancelled_run_discards :
  crun (c_init DNone false false false true 3)
       [LCaller; LCaller; LCancel; LCaller; LHelperData; LCaller; LHelperSend; LCallerRecv; LCaller]
  = Some (mkC (PRet CCtxErr) HGone None DNone false false true 0 false true 0 3 3).
Proof. vm_compute. reflexivity. Qed.

(* deadline already expired at the start: the select may see ctx.Done() (CCtxErr) or the
   helper's timeout may win the race (CTimeout) *)
Example outcomes_expired :
  outcomes 12 (c_init DNone true true false true 0)
  = [Some CCtxErr; Some CCtxErr; Some CCtxErr; Some CCtxErr; Some CCtxErr; Some CCtxErr; Some CTimeout].
Proof. vm_compute. reflexivity. Qed.

Example outcomes_expired_both :
  In (Some CCtxErr) (outcomes 12 (c_init DNone true true false true 0)) /\
  In (Some CTimeout) (outcomes 12 (c_init DNone true true false true 0)) /\
  ~ In None (outcomes 12 (c_init DNone true true false true 0)).
Proof.
  rewrite outcomes_expired. cbn. repeat split; auto 10.
  intros X. repeat (destruct X as [X|X]; [discriminate X|]). exact X.
Qed.

Example outcomes_stuck_without_deadlines : outcomes 12 stuck_state = [None].
Proof. vm_compute. reflexivity. Qed.
