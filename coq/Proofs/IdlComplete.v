(* Proofs/IdlComplete.v — completeness of the IDL parser model (C05, model
   side): every description that conforms to the grammar of Spec/IdlGrammar.v,
   under every layout, is accepted by [parse] and yields the tree it denotes
   (documentation strings aside); and the documentation-block theorem for
   [advance].  Parts A-D hold the layout, type, member and interface-name
   lemmas. *)
From VL Require Import Bytes Lit Idl IdlGrammar IdlCursor.
From VL Require Import IdlCompleteA IdlCompleteB IdlCompleteC IdlCompleteD.
From Coq Require Import Lia ZArith.
Open Scope N_scope.

Lemma existsb_method_erase : forall ms,
  existsb is_method (map erase_member ms) = existsb is_method ms.
Proof.
  induction ms as [|m ms IH]; [reflexivity|]. cbn [map existsb]. rewrite IH.
  destruct m; reflexivity.
Qed.

Ltac len := rewrite ?app_length; cbn [length];
            change (length kw_interface) with 9%nat; lia.

Theorem parse_complete : forall (d : idl) (s : bytes),
  Renders d s -> wf_idl d = true ->
  exists d', parse s = POk d' /\ erase_docs d' = erase_docs d /\ i_descr d' = s.
Proof.
  intros d s HR Hwf. destruct HR as [d g0 g1 sm gend H0 H1 Hms Hgend].
  unfold wf_idl, wf_liberal in Hwf.
  apply andb_true_iff in Hwf. destruct Hwf as [Hname Hwf].
  apply andb_true_iff in Hwf. destruct Hwf as [Hwf _].
  apply andb_true_iff in Hwf. destruct Hwf as [Hnd Hmeth].
  unfold erase_docs at 2.
  remember (i_name d) as nm eqn:Enm. remember (i_members d) as ms eqn:Ems0.
  destruct (iface_shape nm Hname) as (Hends & c0 & r0 & Enm0 & Hc0).
  destruct (members_tail nm ms sm Hms gend Hgend) as [T1 _].
  specialize (T1 Hends).
  unfold parse. cbv zeta. unfold cur_init.
  match goal with |- context [mkCur [] ?x 0 0] => change (mkCur [] x 0 0) with (gc [] x) end.
  remember (S (S (length (g0 ++ kw_interface ++ g1 ++ nm ++ sm ++ gend)))) as F eqn:EF.
  assert (HF : (S (length g0 + (9 + (length g1 + (length nm + (length sm + length gend)))))
                < F)%nat) by (rewrite EF; len).
  destruct (advance_gap g0 H0 F [] (kw_interface ++ g1 ++ nm ++ sm ++ gend) [] eq_refl
              ltac:(len)) as [l1 E1].
  rewrite E1. cbn [bind]. unfold read_keyword.
  rewrite read_span_word; [|reflexivity|apply gap1_nolower, H1|len].
  cbn [bind]. rewrite bytes_eqb_refl.
  destruct (advance_gap g1 (proj1 H1) F (rev kw_interface ++ rev g0 ++ []) (nm ++ sm ++ gend) l1
              (iface_stop nm _ Hname) ltac:(len)) as [doc E3].
  rewrite E3. cbn [bind lc].
  rewrite (iface_read nm (sm ++ gend) _ doc Hname T1). cbn [bind].
  destruct nm as [|c1 r1]; [discriminate Enm0|].
  destruct (members_loop (c1 :: r1) ms sm Hms gend Hgend F F
              (rev (c1 :: r1) ++ rev g1 ++ rev kw_interface ++ rev g0 ++ []) doc [] []
              Hnd (fun _ _ => eq_refl) ltac:(len) ltac:(len)) as (ms' & l5 & Ems & E5).
  rewrite E5. cbn [bind rev app].
  assert (Hm' : existsb is_method ms' = true)
    by (rewrite <- existsb_method_erase, Ems, existsb_method_erase; exact Hmeth).
  rewrite Hm'. eexists. split; [reflexivity|]. split; [|reflexivity].
  unfold erase_docs. cbn [i_name i_members]. rewrite Ems. reflexivity.
Qed.

(* after a newline that is not part of a comment, a block of comment lines
   followed by blanks leaves exactly [doc_of lines] in the comment buffer,
   whatever it held before *)
Theorem advance_doc_block : forall lines ind k F lc0 bef0,
  block_ok lines -> forallb is_blank ind = true ->
  (match k with c :: _ => negb (is_blank c) && negb (c =? LF) && negb (c =? HASH) | [] => true end) = true ->
  (length (LF :: render_block lines ++ ind ++ k) < F)%nat ->
  exists b', advance F (mkPst (gc bef0 (LF :: render_block lines ++ ind ++ k)) lc0) = ROk tt (mkPst (gc b' k) (doc_of lines)).
Proof.
  intros lines ind k F lc0 bef0 Hb Hi Hk Hl.
  apply doc_block_core; [exact Hb|exact Hi| |exact Hl].
  destruct k as [|c k']; [reflexivity|]. cbn [stop]. unfold is_gapb.
  apply andb_true_iff in Hk. destruct Hk as [Hk H3].
  apply andb_true_iff in Hk. destruct Hk as [H1 H2].
  apply negb_true_iff in H1, H2, H3. rewrite H1, H2, H3. reflexivity.
Qed.

(* blanks alone never touch the comment buffer (IdlCompleteA), restated with
   the explicit side condition on k *)
Lemma advance_blanks_keep_comment' : forall g F b k l,
  forallb is_blank g = true ->
  (match k with c :: _ => negb (is_blank c) && negb (c =? LF) && negb (c =? HASH) | [] => true end) = true ->
  (length (g ++ k) < F)%nat ->
  advance F (mkPst (gc b (g ++ k)) l) = ROk tt (mkPst (gc (rev g ++ b) k) l).
Proof.
  intros g F b k l Hg Hk Hl. apply advance_blanks_keep_comment; [exact Hg| |exact Hl].
  destruct k as [|c k']; [reflexivity|]. cbn [stop]. unfold is_gapb.
  apply andb_true_iff in Hk. destruct Hk as [Hk H3].
  apply andb_true_iff in Hk. destruct Hk as [H1 H2].
  apply negb_true_iff in H1, H2, H3. rewrite H1, H2, H3. reflexivity.
Qed.

Print Assumptions parse_complete.
Print Assumptions advance_doc_block.
