(* Proofs/RaceProofsCtx.v — C16, the helper goroutines of ctxio. *)
From VL Require Import Bytes Ctxio CtxioProofs.
Open Scope nat_scope.

(* the helper goroutine of a context-aware operation is gone whenever the operation has returned:
   caller and helper never touch the connection / the buffered reader at the same time, the channel
   is the only shared object *)
Theorem ctxio_helper_joined : forall left hasdl exp canc hon av s r,
  creach (c_init left hasdl exp canc hon av) s -> pc s = PRet r -> helper s = HGone /\ chan s = None.
Proof. intros. eapply T1_join; eauto. Qed.
Print Assumptions ctxio_helper_joined.
