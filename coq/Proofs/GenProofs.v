(* Proofs/GenProofs.v — theorems about the model of the interface generator
   (Model/Gen.v): when it succeeds / crashes, the package name, the Go
   literals it emits for name and description, conversions, and that the text
   contains the name and description functions verbatim. *)
From Coq Require Import String.
From VL Require Import Bytes Lit Idl IdlGrammar Gen IdlTotal IdlSound.
Open Scope N_scope.

Local Notation cat := concat_bytes.

(* ---------- outcome of generate ---------- *)

(* generate is a total function; it succeeds exactly when the parser accepts
   the trimmed description AND no method has an enum as parameter list *)
Theorem generate_ok_iff : forall descr,
  (exists p t, generate descr = GOk p t) <->
  exists d, parse (trim_right_lf descr) = POk d /\ gen_panics d = false.
Proof.
  intro descr. unfold generate. split.
  - intros (p & t & H). destruct (parse (trim_right_lf descr)) as [d| | |]; try discriminate.
    exists d. split; [reflexivity|]. destruct (gen_panics d); [discriminate|reflexivity].
  - intros (d & H & Hp). rewrite H, Hp. eauto.
Qed.

(* it reports a parse error exactly when the parser rejects *)
Theorem generate_parse_err_iff : forall descr,
  generate descr = GParseErr <-> parse (trim_right_lf descr) = PErr.
Proof.
  intro descr. unfold generate.
  destruct (parse (trim_right_lf descr)) as [d| | |]; split; intro H; try discriminate; try reflexivity.
  destruct (gen_panics d); discriminate.
Qed.

(* the generator DOES crash (nil dereference in writeType): exactly on accepted
   descriptions with a method whose input or output is an enum *)
Theorem generate_panic_iff : forall descr,
  generate descr = GPanic <->
  exists d, parse (trim_right_lf descr) = POk d /\ gen_panics d = true.
Proof.
  intro descr. unfold generate.
  destruct (parse_total (trim_right_lf descr)) as [Hp Hf].
  destruct (parse (trim_right_lf descr)) as [d| | |] eqn:E; try contradiction.
  - destruct (gen_panics d) eqn:G; split; intro H; try discriminate.
    + exists d. auto.
    + reflexivity.
    + destruct H as (d' & H1 & H2). inversion H1; subst. congruence.
  - split; [discriminate|]. intros (d & H & _). discriminate.
Qed.

Example generator_crashes :
  generate (cat [b "interface a.b"; NL; b "method M(a, b) -> ()"; NL]) = GPanic.
Proof. vm_compute. reflexivity. Qed.

Lemma gen_panics_spec : forall d,
  gen_panics d = true <->
  exists n doc i o, In (MMethod n doc i o) (i_members d) /\
                    (enum_fields i = true \/ enum_fields o = true).
Proof.
  intro d. unfold gen_panics. rewrite existsb_exists. split.
  - intros (m & Hin & Hm). destruct m as [| n doc i o |]; try discriminate.
    exists n, doc, i, o. split; [assumption|]. apply orb_true_iff. exact Hm.
  - intros (n & doc & i & o & Hin & H). exists (MMethod n doc i o). split; [assumption|].
    apply orb_true_iff. exact H.
Qed.

(* ---------- package name ---------- *)

Theorem pkgname_spec : forall descr p t d,
  generate descr = GOk p t -> parse (trim_right_lf descr) = POk d -> p = pkgname_of (i_name d).
Proof.
  intros descr p t d H E. unfold generate in H. rewrite E in H.
  destruct (gen_panics d); [discriminate|]. inversion H. reflexivity.
Qed.

Theorem pkgname_chars : forall n c,
  In c (pkgname_of n) -> c <> 46 /\ c <> 45 /\ ~ (65 <= c <= 90).
Proof.
  intros n c H. unfold pkgname_of, to_lower in H.
  apply in_map_iff in H. destruct H as (x & Hx & Hin).
  apply filter_In in Hin. destruct Hin as [_ Hf].
  apply negb_true_iff, orb_false_iff in Hf. destruct Hf as [H46 H45].
  apply N.eqb_neq in H46. apply N.eqb_neq in H45.
  unfold to_lower_byte, is_upper in Hx.
  destruct ((65 <=? x) && (x <=? 90)) eqn:U.
  - apply andb_true_iff in U. destruct U as [U1 U2].
    apply N.leb_le in U1. apply N.leb_le in U2. lia.
  - subst c. repeat split; try assumption. intros [A B].
    apply N.leb_le in A. apply N.leb_le in B. rewrite A, B in U. discriminate.
Qed.

(* interface names are [A-Za-z0-9.-]+ : the package name is then [a-z0-9]* *)
Definition name_char (c : N) : bool := is_alnum c || (c =? 46) || (c =? 45).

Theorem pkgname_lowdig : forall n,
  forallb name_char n = true -> forallb is_lowdig (pkgname_of n) = true.
Proof.
  unfold pkgname_of, to_lower. induction n as [|c r IH]; simpl; intro H; [reflexivity|].
  apply andb_true_iff in H. destruct H as [Hc Hr].
  destruct ((c =? 46) || (c =? 45)) eqn:E; simpl; [auto|].
  rewrite (IH Hr), andb_true_r.
  unfold name_char in Hc. apply orb_false_iff in E. destruct E as [E1 E2].
  rewrite E1, E2, !orb_false_r in Hc.
  unfold is_alnum, is_alpha, is_lowdig, to_lower_byte, is_lower, is_upper, is_digit in *.
  destruct ((65 <=? c) && (c <=? 90)) eqn:U.
  - apply andb_true_iff in U. destruct U as [U1 U2].
    apply N.leb_le in U1. apply N.leb_le in U2.
    apply orb_true_iff. left. apply andb_true_iff. split; apply N.leb_le; lia.
  - rewrite orb_false_r in Hc. exact Hc.
Qed.

(* it starts with a lower-case letter when the name starts with a letter *)
Theorem pkgname_head : forall c r,
  is_alpha c = true -> exists c' r', pkgname_of (c :: r) = c' :: r' /\ is_lower c' = true.
Proof.
  intros c r H. unfold pkgname_of, to_lower. simpl.
  unfold is_alpha, is_lower, is_upper in H.
  assert (E : (c =? 46) || (c =? 45) = false).
  { apply orb_false_iff. split; apply N.eqb_neq; intro; subst c; vm_compute in H; discriminate. }
  rewrite E. simpl. eexists. eexists. split; [reflexivity|].
  unfold to_lower_byte, is_upper, is_lower.
  destruct ((65 <=? c) && (c <=? 90)) eqn:U.
  - apply andb_true_iff in U. destruct U as [U1 U2].
    apply N.leb_le in U1. apply N.leb_le in U2.
    apply andb_true_iff. split; apply N.leb_le; lia.
  - rewrite orb_false_r in H. exact H.
Qed.

(* ---------- Go literals ---------- *)

(* Evaluator for exactly the expression grammar the generator emits:
     RAW ( + Q BACKTICK Q + RAW | + Q BACKSLASH r Q + RAW )*
   where RAW is a backtick-quoted raw string and Q the double quote, with Go's
   semantics: inside backticks there are no escapes and carriage returns are
   discarded; the interpreted literals denote a backtick and a carriage
   return; + concatenates. *)
Inductive lstate :=
| InRaw                                   (* inside `...` *)
| Closed                                  (* after a closing backtick *)
| Esc                                     (* after space plus space quote: expects backtick or backslash-r *)
| Expect (pending : bytes) (next : lstate).  (* these exact bytes, then next *)

Fixpoint ev (s : bytes) (q : lstate) : option bytes :=
  match s with
  | [] => match q with Closed => Some [] | _ => None end
  | x :: r =>
    match q with
    | InRaw => if x =? 96 then ev r Closed
               else if x =? 13 then ev r InRaw
               else option_map (cons x) (ev r InRaw)
    | Closed => if x =? 32 then ev r (Expect [43; 32; 34] Esc) else None
    | Esc => if x =? 96 then option_map (cons 96) (ev r (Expect [34; 32; 43; 32; 96] InRaw))
             else if x =? 92 then option_map (cons 13) (ev r (Expect [114; 34; 32; 43; 32; 96] InRaw))
             else None
    | Expect [] _ => None
    | Expect (p :: ps) nxt =>
      if x =? p then ev r (match ps with [] => nxt | _ => Expect ps nxt end) else None
    end
  end.

Definition eval_description_literal (s : bytes) : option bytes :=
  match s with
  | x :: r => if x =? 96 then ev r InRaw else None
  | [] => None
  end.

Lemma splice_raw_bq : forall r,
  splice_raw (96 :: r) = [96; 32; 43; 32; 34; 96; 34; 32; 43; 32; 96] ++ splice_raw r.
Proof. intro r. cbn -[app]. cbn [concat_bytes]. rewrite app_nil_r. reflexivity. Qed.

Lemma splice_raw_cr : forall r,
  splice_raw (13 :: r) = [96; 32; 43; 32; 34; 92; 114; 34; 32; 43; 32; 96] ++ splice_raw r.
Proof. intro r. cbn -[app]. cbn [concat_bytes]. rewrite app_nil_r. reflexivity. Qed.

Lemma splice_raw_other : forall x r, x <> 96 -> x <> 13 ->
  splice_raw (x :: r) = x :: splice_raw r.
Proof.
  intros x r H1 H2. simpl.
  destruct (N.eqb_spec x 96); [contradiction|]. destruct (N.eqb_spec x 13); [contradiction|].
  reflexivity.
Qed.

(* evaluating the spliced text inside a raw literal yields the text itself *)
Lemma ev_splice : forall d tail,
  ev (splice_raw d ++ tail) InRaw = option_map (app d) (ev tail InRaw).
Proof.
  induction d as [|x r IH]; intro tail.
  - simpl. destruct (ev tail InRaw); reflexivity.
  - destruct (N.eq_dec x 96) as [E|N1]; [subst x|destruct (N.eq_dec x 13) as [E|N2]; [subst x|]].
    + rewrite splice_raw_bq. cbn -[splice_raw]. rewrite IH.
      destruct (ev tail InRaw); reflexivity.
    + rewrite splice_raw_cr. cbn -[splice_raw]. rewrite IH.
      destruct (ev tail InRaw); reflexivity.
    + rewrite splice_raw_other by assumption.
      change ((x :: splice_raw r) ++ tail) with (x :: (splice_raw r ++ tail)).
      cbn [ev]. destruct (N.eqb_spec x 96); [contradiction|].
      destruct (N.eqb_spec x 13); [contradiction|].
      rewrite IH. destruct (ev tail InRaw); reflexivity.
Qed.

(* Go evaluates the emitted expression to the description text plus one
   newline, for ANY bytes including backticks and carriage returns *)
Theorem description_roundtrip : forall descr,
  eval_description_literal (description_literal descr) = Some (descr ++ [10]).
Proof.
  intro descr. unfold description_literal.
  change (cat [BQ; splice_raw descr; NL; BQ]) with (96 :: (splice_raw descr ++ [10; 96])).
  - unfold eval_description_literal. rewrite N.eqb_refl. rewrite ev_splice. reflexivity.
Qed.

Lemma ev_plain : forall n, ~ In 96 n -> ~ In 13 n -> ev (n ++ [96]) InRaw = Some n.
Proof.
  induction n as [|x r IH]; intros H1 H2; [reflexivity|].
  simpl in H1, H2. change ((x :: r) ++ [96]) with (x :: (r ++ [96])). cbn [ev].
  destruct (N.eqb_spec x 96); [exfalso; auto|]. destruct (N.eqb_spec x 13); [exfalso; auto|].
  rewrite IH by auto. reflexivity.
Qed.

(* VarlinkGetName: a name without backtick and CR (every interface name) is
   reported unchanged *)
Theorem name_roundtrip : forall n, ~ In 96 n -> ~ In 13 n ->
  eval_description_literal (name_literal n) = Some n.
Proof.
  intros n H1 H2. unfold name_literal.
  change (cat [BQ; n; BQ]) with (96 :: (n ++ [96] ++ [])). rewrite app_nil_r.
  unfold eval_description_literal. rewrite N.eqb_refl. apply ev_plain; assumption.
Qed.

(* ---------- conversions ---------- *)

Lemma cat_length2 : forall a c d e : bytes,
  List.length (cat [a; c; d; e]) = (List.length a + List.length c + List.length d + List.length e)%nat.
Proof. intros. cbn [concat_bytes]. rewrite !app_length. simpl. lia. Qed.

(* the expression is left alone exactly for the kinds without conversion;
   otherwise it is wrapped: type(e), or (type)(e) for a pointer type *)
Theorem conversion_iff : forall t j i e,
  write_conversion t j i e = e <-> needs_conversion t = false.
Proof.
  intros t j i e. unfold write_conversion.
  destruct (needs_conversion t); split; intro H; try reflexivity; try discriminate.
  exfalso. apply (f_equal (@List.length N)) in H. rewrite cat_length2 in H.
  change (List.length (b "(")) with 1%nat in H. lia.
Qed.

Theorem conversion_shape : forall t j i e, needs_conversion t = true ->
  write_conversion t j i e =
    (if is_maybe t then b "(" ++ write_type t j i ++ b ")" else write_type t j i)
    ++ b "(" ++ e ++ b ")".
Proof.
  intros t j i e H. unfold write_conversion. rewrite H. cbn [concat_bytes].
  destruct (is_maybe t); rewrite ?app_nil_r; reflexivity.
Qed.

(* the tagged and the untagged rendering can differ only for the kinds that
   get a conversion (the converse fails: []int is converted although both
   renderings agree) *)
Theorem tagged_untagged_differ_only_when_needed : forall t i,
  needs_conversion t = false -> write_type t true i = write_type t false i.
Proof. intros t i H. destruct t; try discriminate; reflexivity. Qed.

(* ---------- the text contains the name and description functions ---------- *)

Lemma is_prefix_app : forall n r, is_prefix n (n ++ r) = true.
Proof. induction n as [|x n IH]; intro r; simpl; [reflexivity|]. rewrite N.eqb_refl, IH. reflexivity. Qed.

Lemma contains_mid : forall n a r, contains n (a ++ n ++ r) = true.
Proof.
  intros n a r. induction a as [|x a IH].
  - change ([] ++ n ++ r) with (n ++ r).
    destruct (n ++ r) eqn:E; cbn [contains]; rewrite <- E, is_prefix_app; reflexivity.
  - change ((x :: a) ++ n ++ r) with (x :: (a ++ n ++ r)). cbn [contains].
    destruct (is_prefix n (x :: a ++ n ++ r)); [reflexivity|exact IH].
Qed.

Lemma cat_in_split : forall x l, In x l -> exists u v, cat l = u ++ x ++ v.
Proof.
  intros x l. induction l as [|y l IH]; intro H; [destruct H|].
  destruct H as [H|H].
  - subst y. exists [], (cat l). reflexivity.
  - destruct (IH H) as (u & v & E). exists (y ++ u), v.
    cbn [concat_bytes]. rewrite E, app_assoc. reflexivity.
Qed.

Ltac find_in :=
  lazymatch goal with
  | |- In ?x (?x :: _) => left; reflexivity
  | |- In _ (_ :: _) => right; find_in
  end.

(* the import block directly follows the package clause; the rest follows it *)
Theorem gen_text_layout : forall d,
  gen_text d = gen_head d (pkgname_of (i_name d)) ++ imports_block d
               ++ gen_body d (pkgname_of (i_name d)).
Proof.
  intro d. unfold gen_text, ret_string. cbn [concat_bytes]. rewrite app_nil_r. reflexivity.
Qed.

Lemma gen_text_suffix : forall d,
  exists x, gen_text d = x ++ gen_body d (pkgname_of (i_name d)).
Proof.
  intro d. rewrite gen_text_layout. eexists. rewrite app_assoc. reflexivity.
Qed.

Definition descr_needle (descr : bytes) : bytes :=
  cat [b "VarlinkGetDescription() string {"; NL; TAB; b "return "; description_literal descr].
Definition name_needle (name : bytes) : bytes :=
  cat [b "VarlinkGetName() string {"; NL; TAB; b "return "; name_literal name].

Lemma descr_func_split : forall descr, exists u v,
  gen_descr_func descr = u ++ descr_needle descr ++ v.
Proof.
  intro descr. exists (b "func (s *VarlinkInterface) "), (cat [NL; b "}"; NL; NL]).
  unfold gen_descr_func, descr_needle.
  change (b "func (s *VarlinkInterface) VarlinkGetDescription() string {")
    with (b "func (s *VarlinkInterface) " ++ b "VarlinkGetDescription() string {").
  cbn [concat_bytes]. rewrite <- !app_assoc. reflexivity.
Qed.

Lemma name_func_split : forall name, exists u v,
  gen_name_func name = u ++ name_needle name ++ v.
Proof.
  intro name. exists (b "func (s *VarlinkInterface) "), (cat [NL; b "}"; NL; NL]).
  unfold gen_name_func, name_needle.
  change (b "func (s *VarlinkInterface) VarlinkGetName() string {")
    with (b "func (s *VarlinkInterface) " ++ b "VarlinkGetName() string {").
  cbn [concat_bytes]. rewrite <- !app_assoc. reflexivity.
Qed.

Lemma gen_text_verbatim : forall d,
  (exists u v, gen_text d = u ++ descr_needle (i_descr d) ++ v) /\
  (exists u v, gen_text d = u ++ name_needle (i_name d) ++ v).
Proof.
  intro d. destruct (gen_text_suffix d) as [x Hx]. rewrite Hx. split.
  - assert (Hin : exists u v, gen_body d (pkgname_of (i_name d)) = u ++ gen_descr_func (i_descr d) ++ v).
    { apply cat_in_split. find_in. }
    destruct Hin as (u & v & E). destruct (descr_func_split (i_descr d)) as (u' & v' & E').
    exists (x ++ u ++ u'), (v' ++ v). rewrite E, E', <- !app_assoc. reflexivity.
  - assert (Hin : exists u v, gen_body d (pkgname_of (i_name d)) = u ++ gen_name_func (i_name d) ++ v).
    { apply cat_in_split. find_in. }
    destruct Hin as (u & v & E). destruct (name_func_split (i_name d)) as (u' & v' & E').
    exists (x ++ u ++ u'), (v' ++ v). rewrite E, E', <- !app_assoc. reflexivity.
Qed.

(* the generated text contains the name and description functions verbatim *)
Theorem text_reports_name_and_description : forall descr p t d,
  generate descr = GOk p t -> parse (trim_right_lf descr) = POk d ->
  contains (cat [b "VarlinkGetDescription() string {"; NL; TAB; b "return ";
                 description_literal (i_descr d)]) t = true
  /\ contains (cat [b "VarlinkGetName() string {"; NL; TAB; b "return ";
                    name_literal (i_name d)]) t = true
  /\ i_descr d = trim_right_lf descr.
Proof.
  intros descr p t d H E. unfold generate in H. rewrite E in H.
  destruct (gen_panics d); [discriminate|]. inversion H; subst p t. clear H.
  destruct (gen_text_verbatim (norm_errors d)) as [(u & v & H1) (u' & v' & H2)].
  cbn [norm_errors i_name i_descr] in H1, H2.
  split; [|split].
  - rewrite H1. apply contains_mid.
  - rewrite H2. apply contains_mid.
  - apply (parse_sound _ _ E).
Qed.

(* end to end: the Go expression in VarlinkGetDescription evaluates to the
   trimmed input description followed by exactly one newline *)
Corollary reported_description : forall descr p t d,
  generate descr = GOk p t -> parse (trim_right_lf descr) = POk d ->
  eval_description_literal (description_literal (i_descr d)) = Some (trim_right_lf descr ++ [10]).
Proof.
  intros descr p t d H E. rewrite description_roundtrip.
  destruct (parse_sound _ _ E) as (_ & _ & Hd). rewrite Hd. reflexivity.
Qed.

(* ---------- the import block follows from the tree alone ---------- *)

Lemma filter_map_erase : forall (p : member -> bool) l,
  (forall m, p (erase_member m) = p m) ->
  filter p (map erase_member l) = map erase_member (filter p l).
Proof.
  intros p l H. induction l as [|m l IH]; [reflexivity|].
  simpl. rewrite H. destruct (p m); simpl; rewrite IH; reflexivity.
Qed.

Lemma existsb_map_erase : forall (f : member -> bool) l,
  (forall m, f (erase_member m) = f m) ->
  existsb f (map erase_member l) = existsb f l.
Proof.
  intros f l H. induction l as [|m l IH]; [reflexivity|]. simpl. rewrite H, IH. reflexivity.
Qed.

Lemma erased_lists : forall d,
  i_aliases (erase_docs d) = map erase_member (i_aliases d) /\
  i_methods (erase_docs d) = map erase_member (i_methods d) /\
  i_errors (erase_docs d) = map erase_member (i_errors d).
Proof.
  intro d. unfold i_aliases, i_methods, i_errors, erase_docs. cbn [i_members].
  repeat split; apply filter_map_erase; intros [| |]; reflexivity.
Qed.

Lemma need_json_erase : forall d, need_json (erase_docs d) = need_json d.
Proof.
  intro d. unfold need_json. destruct (erased_lists d) as (Ha & Hm & He).
  rewrite Ha, Hm, He.
  rewrite !existsb_map_erase by (intros [| |]; reflexivity).
  destruct (i_errors d); reflexivity.
Qed.

Lemma need_fmt_erase : forall d, need_fmt (erase_docs d) = need_fmt d.
Proof.
  intro d. unfold need_fmt. destruct (erased_lists d) as (_ & _ & He). rewrite He.
  apply existsb_map_erase. intros [| |]; reflexivity.
Qed.

Lemma imports_block_erase : forall d, imports_block (erase_docs d) = imports_block d.
Proof. intro d. unfold imports_block. rewrite need_json_erase, need_fmt_erase. reflexivity. Qed.

(* the defects are gone: documentation comments and the description text have
   no influence on the imports: two trees that agree up to docs and description
   get the same import block, and it always sits right after the package clause
   (gen_text_layout) *)
Theorem imports_independent_of_docs : forall d d',
  erase_docs d = erase_docs d' -> imports_block d = imports_block d'.
Proof.
  intros d d' H. rewrite <- (imports_block_erase d), <- (imports_block_erase d'), H. reflexivity.
Qed.

(* what is imported, exactly *)
Definition imp (s : bytes) : bytes := cat [QUOTE; s; QUOTE].
Theorem imports_block_spec : forall d,
  imports_block d =
    cat [b "import ("; NL;
         join (NL ++ TAB)
           ([imp (b "github.com/varlink/go/varlink"); imp (b "context")]
            ++ (if need_json d then [imp (b "encoding/json")] else [])
            ++ (if need_fmt d then [imp (b "fmt")] else []));
         NL; b ")"].
Proof. reflexivity. Qed.

(* encoding/json: needed by Dispatch_Error when there is an error, and by object types *)
Theorem need_json_iff : forall d,
  need_json d = true <->
  (exists m, In m (i_members d) /\ is_error m = true) \/
  (exists n doc t, In (MAlias n doc t) (i_members d) /\ uses_object t = true) \/
  (exists n doc i o, In (MMethod n doc i o) (i_members d) /\
                     (uses_object i = true \/ uses_object o = true)).
Proof.
  intro d. unfold need_json, i_errors, i_aliases, i_methods.
  rewrite !orb_true_iff, !existsb_exists. split.
  - intros [[H|H]|H].
    + left. destruct (filter is_error (i_members d)) as [|m l] eqn:E; [discriminate|].
      assert (Hin : In m (filter is_error (i_members d))) by (rewrite E; left; reflexivity).
      apply filter_In in Hin. exists m. exact Hin.
    + right. left. destruct H as (m & Hin & Hu). apply filter_In in Hin. destruct Hin as [Hin Hk].
      destruct m as [n doc t| |]; try discriminate. exists n, doc, t. auto.
    + right. right. destruct H as (m & Hin & Hu). apply filter_In in Hin. destruct Hin as [Hin Hk].
      destruct m as [|n doc i o|]; try discriminate. exists n, doc, i, o.
      split; [assumption|]. apply orb_true_iff. exact Hu.
  - intros [(m & Hin & He)|[(n & doc & t & Hin & Hu)|(n & doc & i & o & Hin & Hu)]].
    + left. left. assert (H : In m (filter is_error (i_members d))) by (apply filter_In; auto).
      destruct (filter is_error (i_members d)); [destruct H|reflexivity].
    + left. right. exists (MAlias n doc t). split; [apply filter_In; auto|exact Hu].
    + right. exists (MMethod n doc i o). split; [apply filter_In; auto|].
      apply orb_true_iff. exact Hu.
Qed.

(* fmt: needed by Error() of an error with parameters *)
Theorem need_fmt_iff : forall d,
  need_fmt d = true <->
  exists n doc t f fs, In (MError n doc (Some t)) (i_members d) /\ error_fields t = f :: fs.
Proof.
  intro d. unfold need_fmt, i_errors. rewrite existsb_exists. split.
  - intros (m & Hin & H). apply filter_In in Hin. destruct Hin as [Hin _].
    destruct m as [| |n doc [t|]]; try discriminate.
    unfold error_has_fields, error_type, error_fields in H.
    destruct (fields_of t) as [|f fs] eqn:E; [discriminate|].
    exists n, doc, t, f, fs. auto.
  - intros (n & doc & t & f & fs & Hin & E). exists (MError n doc (Some t)).
    split; [apply filter_In; auto|].
    unfold error_has_fields, error_type. rewrite E. reflexivity.
Qed.

(* ---------- uses_object is sound for the rendering ---------- *)

Section TyInd.
  Variable P : ty -> Prop.
  Hypothesis Hbool : P TBool.
  Hypothesis Hint : P TInt.
  Hypothesis Hfloat : P TFloat.
  Hypothesis Hstring : P TString.
  Hypothesis Hobject : P TObject.
  Hypothesis Harray : forall e, P e -> P (TArray e).
  Hypothesis Hmaybe : forall e, P e -> P (TMaybe e).
  Hypothesis Hmap : forall e, P e -> P (TMap e).
  Hypothesis Halias : forall n, P (TAlias n).
  Hypothesis Hstruct : forall fs, Forall (fun f => P (snd f)) fs -> P (TStruct fs).
  Hypothesis Henum : forall ns, P (TEnum ns).

  Fixpoint ty_ind_nested (t : ty) : P t :=
    match t with
    | TBool => Hbool | TInt => Hint | TFloat => Hfloat | TString => Hstring | TObject => Hobject
    | TArray e => Harray e (ty_ind_nested e)
    | TMaybe e => Hmaybe e (ty_ind_nested e)
    | TMap e => Hmap e (ty_ind_nested e)
    | TAlias n => Halias n
    | TStruct fs =>
      Hstruct fs ((fix go (l : list (bytes * ty)) : Forall (fun f => P (snd f)) l :=
                     match l with
                     | [] => Forall_nil _
                     | f :: r => Forall_cons f (ty_ind_nested (snd f)) (go r)
                     end) fs)
    | TEnum ns => Henum ns
    end.
End TyInd.

Lemma is_prefix_app_mono : forall n a c, is_prefix n a = true -> is_prefix n (a ++ c) = true.
Proof.
  induction n as [|x n IH]; intros a c H; [reflexivity|].
  destruct a as [|y a]; [discriminate|]. simpl in *.
  apply andb_true_iff in H. destruct H as [H1 H2]. rewrite H1, (IH _ _ H2). reflexivity.
Qed.

Lemma contains_unfold : forall n h,
  contains n h = if is_prefix n h then true
                 else match h with [] => false | _ :: r => contains n r end.
Proof. intros n h. destruct h; reflexivity. Qed.

Lemma contains_app_l : forall n a c, contains n a = true -> contains n (a ++ c) = true.
Proof.
  intros n a c. induction a as [|x a IH]; intro H.
  - rewrite contains_unfold in H. rewrite contains_unfold.
    destruct (is_prefix n []) eqn:E; [|discriminate].
    rewrite (is_prefix_app_mono n [] c E). reflexivity.
  - rewrite contains_unfold in H. change ((x :: a) ++ c) with (x :: (a ++ c)).
    rewrite contains_unfold.
    destruct (is_prefix n (x :: a)) eqn:E.
    + change (x :: a ++ c) with ((x :: a) ++ c). rewrite (is_prefix_app_mono _ _ c E). reflexivity.
    + destruct (is_prefix n (x :: a ++ c)); [reflexivity|]. apply IH. exact H.
Qed.

Lemma contains_app_r : forall n a c, contains n c = true -> contains n (a ++ c) = true.
Proof.
  intros n a c H. induction a as [|x a IH]; [exact H|].
  change ((x :: a) ++ c) with (x :: (a ++ c)). rewrite contains_unfold.
  destruct (is_prefix n (x :: a ++ c)); [reflexivity|exact IH].
Qed.

(* the field loop of writeType, named *)
Fixpoint fields_text (json : bool) (ident : nat) (l : list (bytes * ty)) : bytes :=
  match l with
  | [] => []
  | (n, ft) :: r =>
    cat [tabs (S ident); title n; b " "; write_type ft json (S ident);
         (if json
          then cat [b " `json:"; QUOTE; n; (if is_maybe ft then b ",omitempty" else []); QUOTE; BQ]
          else []);
         NL; fields_text json ident r]
  end.

Lemma write_type_struct : forall f r j i,
  write_type (TStruct (f :: r)) j i =
  cat [b "struct {"; NL; fields_text j i (f :: r); tabs i; b "}"].
Proof.
  intros f r j i. destruct f as [n0 ft0]. cbn [write_type]. do 4 f_equal.
  cbn [fields_text]. do 8 f_equal. clear n0 ft0.
  induction r as [|[n ft] r IH]; [reflexivity|].
  cbn [fields_text]. rewrite <- IH. reflexivity.
Qed.

Lemma uses_object_struct : forall fs,
  uses_object (TStruct fs) = existsb (fun f => uses_object (snd f)) fs.
Proof.
  induction fs as [|[n ft] r IH]; [reflexivity|].
  change (uses_object (TStruct ((n, ft) :: r))) with (uses_object ft || uses_object (TStruct r)).
  rewrite IH. reflexivity.
Qed.

Definition json_raw : bytes := b "json.RawMessage".

(* when usesObject says yes, the rendering does mention json.RawMessage *)
Theorem uses_object_sound : forall t j i,
  uses_object t = true -> contains json_raw (write_type t j i) = true.
Proof.
  intro t. induction t as [| | | | |e IHt|e IHt|e IHt|n|fs HF|ns] using ty_ind_nested;
    intros j i Hu; try discriminate.
  - vm_compute. reflexivity.
  - cbn [write_type]. apply contains_app_r. apply IHt. exact Hu.
  - cbn [write_type]. apply contains_app_r. apply IHt. exact Hu.
  - cbn [write_type]. apply contains_app_r. apply IHt. exact Hu.
  - rewrite uses_object_struct in Hu. destruct fs as [|f r]; [discriminate|].
    rewrite write_type_struct. cbn [concat_bytes].
    apply contains_app_r, contains_app_r, contains_app_l.
    revert HF Hu. generalize (f :: r). clear f r.
    induction l as [|[n ft] r IH]; intros HF Hu; [discriminate|].
    inversion HF as [|? ? Hft Hr]; subst. cbn [existsb snd] in Hu.
    cbn [fields_text concat_bytes].
    apply orb_true_iff in Hu. destruct Hu as [Hu|Hu].
    + apply contains_app_r, contains_app_r, contains_app_r, contains_app_l.
      apply (Hft j (S i) Hu).
    + do 6 apply contains_app_r. apply contains_app_l. apply IH; assumption.
Qed.

(* residual defect, made concrete: usesObject is also applied to a method
   parameter list that is not a struct; its fields are never rendered, so
   encoding/json is imported without being used (the file does not compile) *)
Example json_import_unused_for_non_struct_parameters :
  match generate (cat [b "interface a.b"; NL; b "method M object -> ()"; NL]) with
  | GOk _ t => contains (b "encoding/json") t && negb (contains (b "json.") t)
  | _ => false
  end = true.
Proof. vm_compute. reflexivity. Qed.

Print Assumptions generate_ok_iff.
Print Assumptions generate_parse_err_iff.
Print Assumptions generate_panic_iff.
Print Assumptions generator_crashes.
Print Assumptions gen_panics_spec.
Print Assumptions pkgname_spec.
Print Assumptions pkgname_chars.
Print Assumptions pkgname_lowdig.
Print Assumptions pkgname_head.
Print Assumptions description_roundtrip.
Print Assumptions name_roundtrip.
Print Assumptions conversion_iff.
Print Assumptions conversion_shape.
Print Assumptions tagged_untagged_differ_only_when_needed.
Print Assumptions gen_text_verbatim.
Print Assumptions text_reports_name_and_description.
Print Assumptions reported_description.
Print Assumptions gen_text_layout.
Print Assumptions imports_independent_of_docs.
Print Assumptions imports_block_spec.
Print Assumptions need_json_iff.
Print Assumptions need_fmt_iff.
Print Assumptions uses_object_sound.
Print Assumptions json_import_unused_for_non_struct_parameters.
