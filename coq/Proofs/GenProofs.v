(* Proofs/GenProofs.v — theorems about the model of the interface generator
   (Model/Gen.v): when it succeeds / crashes, the package name, the Go
   literals it emits for name and description, conversions, and that the text
   contains the name and description functions verbatim. *)
From Coq Require Import String.
From VL Require Import Bytes Lit Idl Gen IdlTotal IdlSound.
Open Scope N_scope.

Local Notation cat := concat_bytes.

(* ---------- outcome of generate ---------- *)

(* generate is a total function; it succeeds exactly when the parser accepts
   the trimmed description AND no method has an enum as parameter list *)
Theorem generate_ok_iff : forall descr,
  (exists p t, generate descr = GOk p t) <->
  exists d, parse (trim_right_lf descr) = POk d /\ gen_panics d = false.
Proof.
  intro descr. unfold generate. split.
  - intros (p & t & H). destruct (parse (trim_right_lf descr)) as [d| | |]; try discriminate.
    exists d. split; [reflexivity|]. destruct (gen_panics d); [discriminate|reflexivity].
  - intros (d & H & Hp). rewrite H, Hp. eauto.
Qed.

(* it reports a parse error exactly when the parser rejects *)
Theorem generate_parse_err_iff : forall descr,
  generate descr = GParseErr <-> parse (trim_right_lf descr) = PErr.
Proof.
  intro descr. unfold generate.
  destruct (parse (trim_right_lf descr)) as [d| | |]; split; intro H; try discriminate; try reflexivity.
  destruct (gen_panics d); discriminate.
Qed.

(* the generator DOES crash (nil dereference in writeType): exactly on accepted
   descriptions with a method whose input or output is an enum *)
Theorem generate_panic_iff : forall descr,
  generate descr = GPanic <->
  exists d, parse (trim_right_lf descr) = POk d /\ gen_panics d = true.
Proof.
  intro descr. unfold generate.
  destruct (parse_total (trim_right_lf descr)) as [Hp Hf].
  destruct (parse (trim_right_lf descr)) as [d| | |] eqn:E; try contradiction.
  - destruct (gen_panics d) eqn:G; split; intro H; try discriminate.
    + exists d. auto.
    + reflexivity.
    + destruct H as (d' & H1 & H2). inversion H1; subst. congruence.
  - split; [discriminate|]. intros (d & H & _). discriminate.
Qed.

Example generator_crashes :
  generate (cat [b "interface a.b"; NL; b "method M(a, b) -> ()"; NL]) = GPanic.
Proof. vm_compute. reflexivity. Qed.

Lemma gen_panics_spec : forall d,
  gen_panics d = true <->
  exists n doc i o, In (MMethod n doc i o) (i_members d) /\
                    (enum_fields i = true \/ enum_fields o = true).
Proof.
  intro d. unfold gen_panics. rewrite existsb_exists. split.
  - intros (m & Hin & Hm). destruct m as [| n doc i o |]; try discriminate.
    exists n, doc, i, o. split; [assumption|]. apply orb_true_iff. exact Hm.
  - intros (n & doc & i & o & Hin & H). exists (MMethod n doc i o). split; [assumption|].
    apply orb_true_iff. exact H.
Qed.

(* ---------- package name ---------- *)

Theorem pkgname_spec : forall descr p t d,
  generate descr = GOk p t -> parse (trim_right_lf descr) = POk d -> p = pkgname_of (i_name d).
Proof.
  intros descr p t d H E. unfold generate in H. rewrite E in H.
  destruct (gen_panics d); [discriminate|]. inversion H. reflexivity.
Qed.

Theorem pkgname_chars : forall n c,
  In c (pkgname_of n) -> c <> 46 /\ c <> 45 /\ ~ (65 <= c <= 90).
Proof.
  intros n c H. unfold pkgname_of, to_lower in H.
  apply in_map_iff in H. destruct H as (x & Hx & Hin).
  apply filter_In in Hin. destruct Hin as [_ Hf].
  apply negb_true_iff, orb_false_iff in Hf. destruct Hf as [H46 H45].
  apply N.eqb_neq in H46. apply N.eqb_neq in H45.
  unfold to_lower_byte, is_upper in Hx.
  destruct ((65 <=? x) && (x <=? 90)) eqn:U.
  - apply andb_true_iff in U. destruct U as [U1 U2].
    apply N.leb_le in U1. apply N.leb_le in U2. lia.
  - subst c. repeat split; try assumption. intros [A B].
    apply N.leb_le in A. apply N.leb_le in B. rewrite A, B in U. discriminate.
Qed.

(* interface names are [A-Za-z0-9.-]+ : the package name is then [a-z0-9]* *)
Definition name_char (c : N) : bool := is_alnum c || (c =? 46) || (c =? 45).

Theorem pkgname_lowdig : forall n,
  forallb name_char n = true -> forallb is_lowdig (pkgname_of n) = true.
Proof.
  unfold pkgname_of, to_lower. induction n as [|c r IH]; simpl; intro H; [reflexivity|].
  apply andb_true_iff in H. destruct H as [Hc Hr].
  destruct ((c =? 46) || (c =? 45)) eqn:E; simpl; [auto|].
  rewrite (IH Hr), andb_true_r.
  unfold name_char in Hc. apply orb_false_iff in E. destruct E as [E1 E2].
  rewrite E1, E2, !orb_false_r in Hc.
  unfold is_alnum, is_alpha, is_lowdig, to_lower_byte, is_lower, is_upper, is_digit in *.
  destruct ((65 <=? c) && (c <=? 90)) eqn:U.
  - apply andb_true_iff in U. destruct U as [U1 U2].
    apply N.leb_le in U1. apply N.leb_le in U2.
    apply orb_true_iff. left. apply andb_true_iff. split; apply N.leb_le; lia.
  - rewrite orb_false_r in Hc. exact Hc.
Qed.

(* it starts with a lower-case letter when the name starts with a letter *)
Theorem pkgname_head : forall c r,
  is_alpha c = true -> exists c' r', pkgname_of (c :: r) = c' :: r' /\ is_lower c' = true.
Proof.
  intros c r H. unfold pkgname_of, to_lower. simpl.
  unfold is_alpha, is_lower, is_upper in H.
  assert (E : (c =? 46) || (c =? 45) = false).
  { apply orb_false_iff. split; apply N.eqb_neq; intro; subst c; vm_compute in H; discriminate. }
  rewrite E. simpl. eexists. eexists. split; [reflexivity|].
  unfold to_lower_byte, is_upper, is_lower.
  destruct ((65 <=? c) && (c <=? 90)) eqn:U.
  - apply andb_true_iff in U. destruct U as [U1 U2].
    apply N.leb_le in U1. apply N.leb_le in U2.
    apply andb_true_iff. split; apply N.leb_le; lia.
  - rewrite orb_false_r in H. exact H.
Qed.

(* ---------- Go literals ---------- *)

(* Evaluator for exactly the expression grammar the generator emits:
     RAW ( + Q BACKTICK Q + RAW | + Q BACKSLASH r Q + RAW )*
   where RAW is a backtick-quoted raw string and Q the double quote, with Go's
   semantics: inside backticks there are no escapes and carriage returns are
   discarded; the interpreted literals denote a backtick and a carriage
   return; + concatenates. *)
Inductive lstate :=
| InRaw                                   (* inside `...` *)
| Closed                                  (* after a closing backtick *)
| Esc                                     (* after space plus space quote: expects backtick or backslash-r *)
| Expect (pending : bytes) (next : lstate).  (* these exact bytes, then next *)

Fixpoint ev (s : bytes) (q : lstate) : option bytes :=
  match s with
  | [] => match q with Closed => Some [] | _ => None end
  | x :: r =>
    match q with
    | InRaw => if x =? 96 then ev r Closed
               else if x =? 13 then ev r InRaw
               else option_map (cons x) (ev r InRaw)
    | Closed => if x =? 32 then ev r (Expect [43; 32; 34] Esc) else None
    | Esc => if x =? 96 then option_map (cons 96) (ev r (Expect [34; 32; 43; 32; 96] InRaw))
             else if x =? 92 then option_map (cons 13) (ev r (Expect [114; 34; 32; 43; 32; 96] InRaw))
             else None
    | Expect [] _ => None
    | Expect (p :: ps) nxt =>
      if x =? p then ev r (match ps with [] => nxt | _ => Expect ps nxt end) else None
    end
  end.

Definition eval_description_literal (s : bytes) : option bytes :=
  match s with
  | x :: r => if x =? 96 then ev r InRaw else None
  | [] => None
  end.

Lemma splice_raw_bq : forall r,
  splice_raw (96 :: r) = [96; 32; 43; 32; 34; 96; 34; 32; 43; 32; 96] ++ splice_raw r.
Proof. intro r. cbn -[app]. cbn [concat_bytes]. rewrite app_nil_r. reflexivity. Qed.

Lemma splice_raw_cr : forall r,
  splice_raw (13 :: r) = [96; 32; 43; 32; 34; 92; 114; 34; 32; 43; 32; 96] ++ splice_raw r.
Proof. intro r. cbn -[app]. cbn [concat_bytes]. rewrite app_nil_r. reflexivity. Qed.

Lemma splice_raw_other : forall x r, x <> 96 -> x <> 13 ->
  splice_raw (x :: r) = x :: splice_raw r.
Proof.
  intros x r H1 H2. simpl.
  destruct (N.eqb_spec x 96); [contradiction|]. destruct (N.eqb_spec x 13); [contradiction|].
  reflexivity.
Qed.

(* evaluating the spliced text inside a raw literal yields the text itself *)
Lemma ev_splice : forall d tail,
  ev (splice_raw d ++ tail) InRaw = option_map (app d) (ev tail InRaw).
Proof.
  induction d as [|x r IH]; intro tail.
  - simpl. destruct (ev tail InRaw); reflexivity.
  - destruct (N.eq_dec x 96) as [E|N1]; [subst x|destruct (N.eq_dec x 13) as [E|N2]; [subst x|]].
    + rewrite splice_raw_bq. cbn -[splice_raw]. rewrite IH.
      destruct (ev tail InRaw); reflexivity.
    + rewrite splice_raw_cr. cbn -[splice_raw]. rewrite IH.
      destruct (ev tail InRaw); reflexivity.
    + rewrite splice_raw_other by assumption.
      change ((x :: splice_raw r) ++ tail) with (x :: (splice_raw r ++ tail)).
      cbn [ev]. destruct (N.eqb_spec x 96); [contradiction|].
      destruct (N.eqb_spec x 13); [contradiction|].
      rewrite IH. destruct (ev tail InRaw); reflexivity.
Qed.

(* Go evaluates the emitted expression to the description text plus one
   newline, for ANY bytes including backticks and carriage returns *)
Theorem description_roundtrip : forall descr,
  eval_description_literal (description_literal descr) = Some (descr ++ [10]).
Proof.
  intro descr. unfold description_literal.
  change (cat [BQ; splice_raw descr; NL; BQ]) with (96 :: (splice_raw descr ++ [10; 96])).
  - unfold eval_description_literal. rewrite N.eqb_refl. rewrite ev_splice. reflexivity.
Qed.

Lemma ev_plain : forall n, ~ In 96 n -> ~ In 13 n -> ev (n ++ [96]) InRaw = Some n.
Proof.
  induction n as [|x r IH]; intros H1 H2; [reflexivity|].
  simpl in H1, H2. change ((x :: r) ++ [96]) with (x :: (r ++ [96])). cbn [ev].
  destruct (N.eqb_spec x 96); [exfalso; auto|]. destruct (N.eqb_spec x 13); [exfalso; auto|].
  rewrite IH by auto. reflexivity.
Qed.

(* VarlinkGetName: a name without backtick and CR (every interface name) is
   reported unchanged *)
Theorem name_roundtrip : forall n, ~ In 96 n -> ~ In 13 n ->
  eval_description_literal (name_literal n) = Some n.
Proof.
  intros n H1 H2. unfold name_literal.
  change (cat [BQ; n; BQ]) with (96 :: (n ++ [96] ++ [])). rewrite app_nil_r.
  unfold eval_description_literal. rewrite N.eqb_refl. apply ev_plain; assumption.
Qed.

(* ---------- conversions ---------- *)

Lemma cat_length2 : forall a c d e : bytes,
  List.length (cat [a; c; d; e]) = (List.length a + List.length c + List.length d + List.length e)%nat.
Proof. intros. cbn [concat_bytes]. rewrite !app_length. simpl. lia. Qed.

(* the expression is left alone exactly for the kinds without conversion;
   otherwise it is wrapped: type(e), or (type)(e) for a pointer type *)
Theorem conversion_iff : forall t j i e,
  write_conversion t j i e = e <-> needs_conversion t = false.
Proof.
  intros t j i e. unfold write_conversion.
  destruct (needs_conversion t); split; intro H; try reflexivity; try discriminate.
  exfalso. apply (f_equal (@List.length N)) in H. rewrite cat_length2 in H.
  change (List.length (b "(")) with 1%nat in H. lia.
Qed.

Theorem conversion_shape : forall t j i e, needs_conversion t = true ->
  write_conversion t j i e =
    (if is_maybe t then b "(" ++ write_type t j i ++ b ")" else write_type t j i)
    ++ b "(" ++ e ++ b ")".
Proof.
  intros t j i e H. unfold write_conversion. rewrite H. cbn [concat_bytes].
  destruct (is_maybe t); rewrite ?app_nil_r; reflexivity.
Qed.

(* the tagged and the untagged rendering can differ only for the kinds that
   get a conversion (the converse fails: []int is converted although both
   renderings agree) *)
Theorem tagged_untagged_differ_only_when_needed : forall t i,
  needs_conversion t = false -> write_type t true i = write_type t false i.
Proof. intros t i H. destruct t; try discriminate; reflexivity. Qed.

(* ---------- the text contains the name and description functions ---------- *)

Lemma is_prefix_app : forall n r, is_prefix n (n ++ r) = true.
Proof. induction n as [|x n IH]; intro r; simpl; [reflexivity|]. rewrite N.eqb_refl, IH. reflexivity. Qed.

Lemma contains_mid : forall n a r, contains n (a ++ n ++ r) = true.
Proof.
  intros n a r. induction a as [|x a IH].
  - change ([] ++ n ++ r) with (n ++ r).
    destruct (n ++ r) eqn:E; cbn [contains]; rewrite <- E, is_prefix_app; reflexivity.
  - change ((x :: a) ++ n ++ r) with (x :: (a ++ n ++ r)). cbn [contains].
    destruct (is_prefix n (x :: a ++ n ++ r)); [reflexivity|exact IH].
Qed.

Lemma skipn_app_le : forall (k : nat) (u v : bytes), (k <= List.length u)%nat ->
  skipn k (u ++ v) = skipn k u ++ v.
Proof.
  induction k as [|k IH]; intros u v H; [reflexivity|].
  destruct u as [|x u]; simpl in *; [lia|]. apply IH. lia.
Qed.

(* replacing the first occurrence of the marker cannot touch what follows a
   later (or the same) occurrence *)
Lemma replace_first_suffix : forall n rp a r,
  exists x, replace_first n rp (a ++ n ++ r) = x ++ r.
Proof.
  intros n rp a r. induction a as [|c a IH].
  - exists rp. destruct n as [|y n].
    + destruct r; reflexivity.
    + change ([] ++ (y :: n) ++ r) with (y :: (n ++ r)). cbn [replace_first].
      change (is_prefix (y :: n) (y :: n ++ r)) with (is_prefix (y :: n) ((y :: n) ++ r)).
      rewrite is_prefix_app.
      change (y :: n ++ r) with ((y :: n) ++ r).
      rewrite skipn_app_le by lia. rewrite skipn_all. reflexivity.
  - destruct IH as [x IH].
    change ((c :: a) ++ n ++ r) with (c :: (a ++ n ++ r)). cbn [replace_first].
    destruct (is_prefix n (c :: a ++ n ++ r)).
    + exists (rp ++ skipn (List.length n) (c :: a ++ n)).
      rewrite <- app_assoc. f_equal.
      change (c :: a ++ n ++ r) with ((c :: a) ++ n ++ r). rewrite app_assoc.
      rewrite skipn_app_le; [reflexivity|]. rewrite app_length. simpl. lia.
    + exists (c :: x). rewrite IH. reflexivity.
Qed.

Lemma cat_in_split : forall x l, In x l -> exists u v, cat l = u ++ x ++ v.
Proof.
  intros x l. induction l as [|y l IH]; intro H; [destruct H|].
  destruct H as [H|H].
  - subst y. exists [], (cat l). reflexivity.
  - destruct (IH H) as (u & v & E). exists (y ++ u), v.
    cbn [concat_bytes]. rewrite E, app_assoc. reflexivity.
Qed.

Ltac find_in :=
  lazymatch goal with
  | |- In ?x (?x :: _) => left; reflexivity
  | |- In _ (_ :: _) => right; find_in
  end.

(* whatever the imports replacement hits, the body written after the marker survives *)
Lemma gen_text_suffix : forall d,
  exists x, gen_text d = x ++ gen_body d (pkgname_of (i_name d)).
Proof.
  intro d. unfold gen_text, ret_string. cbn [concat_bytes]. rewrite app_nil_r.
  apply replace_first_suffix.
Qed.

Definition descr_needle (descr : bytes) : bytes :=
  cat [b "VarlinkGetDescription() string {"; NL; TAB; b "return "; description_literal descr].
Definition name_needle (name : bytes) : bytes :=
  cat [b "VarlinkGetName() string {"; NL; TAB; b "return "; name_literal name].

Lemma descr_func_split : forall descr, exists u v,
  gen_descr_func descr = u ++ descr_needle descr ++ v.
Proof.
  intro descr. exists (b "func (s *VarlinkInterface) "), (cat [NL; b "}"; NL; NL]).
  unfold gen_descr_func, descr_needle.
  change (b "func (s *VarlinkInterface) VarlinkGetDescription() string {")
    with (b "func (s *VarlinkInterface) " ++ b "VarlinkGetDescription() string {").
  cbn [concat_bytes]. rewrite <- !app_assoc. reflexivity.
Qed.

Lemma name_func_split : forall name, exists u v,
  gen_name_func name = u ++ name_needle name ++ v.
Proof.
  intro name. exists (b "func (s *VarlinkInterface) "), (cat [NL; b "}"; NL; NL]).
  unfold gen_name_func, name_needle.
  change (b "func (s *VarlinkInterface) VarlinkGetName() string {")
    with (b "func (s *VarlinkInterface) " ++ b "VarlinkGetName() string {").
  cbn [concat_bytes]. rewrite <- !app_assoc. reflexivity.
Qed.

Lemma gen_text_verbatim : forall d,
  (exists u v, gen_text d = u ++ descr_needle (i_descr d) ++ v) /\
  (exists u v, gen_text d = u ++ name_needle (i_name d) ++ v).
Proof.
  intro d. destruct (gen_text_suffix d) as [x Hx]. rewrite Hx. split.
  - assert (Hin : exists u v, gen_body d (pkgname_of (i_name d)) = u ++ gen_descr_func (i_descr d) ++ v).
    { apply cat_in_split. find_in. }
    destruct Hin as (u & v & E). destruct (descr_func_split (i_descr d)) as (u' & v' & E').
    exists (x ++ u ++ u'), (v' ++ v). rewrite E, E', <- !app_assoc. reflexivity.
  - assert (Hin : exists u v, gen_body d (pkgname_of (i_name d)) = u ++ gen_name_func (i_name d) ++ v).
    { apply cat_in_split. find_in. }
    destruct Hin as (u & v & E). destruct (name_func_split (i_name d)) as (u' & v' & E').
    exists (x ++ u ++ u'), (v' ++ v). rewrite E, E', <- !app_assoc. reflexivity.
Qed.

(* the generated text contains the name and description functions verbatim *)
Theorem text_reports_name_and_description : forall descr p t d,
  generate descr = GOk p t -> parse (trim_right_lf descr) = POk d ->
  contains (cat [b "VarlinkGetDescription() string {"; NL; TAB; b "return ";
                 description_literal (i_descr d)]) t = true
  /\ contains (cat [b "VarlinkGetName() string {"; NL; TAB; b "return ";
                    name_literal (i_name d)]) t = true
  /\ i_descr d = trim_right_lf descr.
Proof.
  intros descr p t d H E. unfold generate in H. rewrite E in H.
  destruct (gen_panics d); [discriminate|]. inversion H; subst p t. clear H.
  destruct (gen_text_verbatim d) as [(u & v & H1) (u' & v' & H2)].
  split; [|split].
  - rewrite H1. apply contains_mid.
  - rewrite H2. apply contains_mid.
  - apply (parse_sound _ _ E).
Qed.

(* end to end: the Go expression in VarlinkGetDescription evaluates to the
   trimmed input description followed by exactly one newline *)
Corollary reported_description : forall descr p t d,
  generate descr = GOk p t -> parse (trim_right_lf descr) = POk d ->
  eval_description_literal (description_literal (i_descr d)) = Some (trim_right_lf descr ++ [10]).
Proof.
  intros descr p t d H E. rewrite description_roundtrip.
  destruct (parse_sound _ _ E) as (_ & _ & Hd). rewrite Hd. reflexivity.
Qed.

(* a defect made concrete: a doc comment that mentions the marker receives the
   import block, and the real marker stays in the text (format.Source then fails) *)
Example imports_marker_in_doc :
  match generate (cat [b "# @IMPORTS@"; NL; b "interface a.b"; NL; b "method M() -> ()"; NL]) with
  | GOk _ t => contains (cat [NL; NL; b "@IMPORTS@"; NL; NL]) t
  | _ => false
  end = true.
Proof. vm_compute. reflexivity. Qed.

(* a defect made concrete: the imports are chosen by searching the whole text,
   which embeds the description: a comment is enough to import fmt (unused) *)
Example unused_import_from_comment :
  match generate (cat [b "interface a.b"; NL; b "method M() -> () # fmt.Sprintf"; NL]) with
  | GOk _ t => contains (cat [QUOTE; b "fmt"; QUOTE]) t
  | _ => false
  end = true.
Proof. vm_compute. reflexivity. Qed.

Print Assumptions generate_ok_iff.
Print Assumptions generate_parse_err_iff.
Print Assumptions generate_panic_iff.
Print Assumptions generator_crashes.
Print Assumptions gen_panics_spec.
Print Assumptions pkgname_spec.
Print Assumptions pkgname_chars.
Print Assumptions pkgname_lowdig.
Print Assumptions pkgname_head.
Print Assumptions description_roundtrip.
Print Assumptions name_roundtrip.
Print Assumptions conversion_iff.
Print Assumptions conversion_shape.
Print Assumptions tagged_untagged_differ_only_when_needed.
Print Assumptions gen_text_verbatim.
Print Assumptions text_reports_name_and_description.
Print Assumptions reported_description.
Print Assumptions imports_marker_in_doc.
Print Assumptions unused_import_from_comment.
