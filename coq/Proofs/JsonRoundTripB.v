(* Proofs/JsonRoundTripB.v — values: the scanner reads back exactly what
   encode_value wrote (scan_encode), hence parse (encode_value v) = Some v. *)
From VL Require Import Bytes Json JsonRoundTripA.
Open Scope N_scope.

(* ================= numbers ================= *)

(* k cannot continue a number literal *)
Definition num_char (c : N) : bool := is_dig c || (c =? 46) || (c =? 101) || (c =? 69).
Definition follow_ok (k : bytes) : Prop :=
  match k with [] => True | c :: _ => num_char c = false end.

Lemma follow_ok_dig : forall c k, follow_ok (c :: k) -> is_dig c = false.
Proof. unfold follow_ok, num_char. intros c k H. repeat (apply orb_false_iff in H; destruct H as [H _]). exact H. Qed.
Lemma follow_ok_dot : forall c k, follow_ok (c :: k) -> c =? 46 = false.
Proof. unfold follow_ok, num_char. intros c k H. apply orb_false_iff in H. destruct H as [H _].
  apply orb_false_iff in H. destruct H as [H _]. apply orb_false_iff in H. destruct H as [_ H]. exact H. Qed.
Lemma follow_ok_e : forall c k, follow_ok (c :: k) -> (c =? 101) || (c =? 69) = false.
Proof. unfold follow_ok, num_char. intros c k H. apply orb_false_iff in H. destruct H as [H H2].
  apply orb_false_iff in H. destruct H as [_ H]. rewrite H, H2. reflexivity. Qed.

Lemma tw_app : forall p s k,
  match drop_while p s ++ k with [] => True | c :: _ => p c = false end ->
  take_while p (s ++ k) = take_while p s /\ drop_while p (s ++ k) = drop_while p s ++ k.
Proof.
  intros p s k. induction s as [|x s IH]; simpl; intro H.
  - destruct k as [|c k]; simpl in *; [auto|]. rewrite H. auto.
  - destruct (p x) eqn:E.
    + destruct (IH H) as [H1 H2]. rewrite H1, H2. auto.
    + simpl. auto.
Qed.

Lemma dw_stops : forall p s k, (drop_while p s = [] -> match k with [] => True | c :: _ => p c = false end) ->
  match drop_while p s ++ k with [] => True | c :: _ => p c = false end.
Proof.
  intros p s k H. destruct (drop_while p s) as [|c r] eqn:E; simpl.
  - apply H. reflexivity.
  - apply (drop_while_head p s c r E).
Qed.

Lemma digits1_split : forall s d r, digits1 s = Some (d, r) -> s = d ++ r.
Proof.
  unfold digits1. intros s d r H. destruct (take_while is_dig s) eqn:E; [discriminate|].
  injection H as <- <-. rewrite <- E. symmetry. apply take_drop_while.
Qed.

Lemma digits1_app : forall s d r k, digits1 s = Some (d, r) -> (r = [] -> follow_ok k) ->
  digits1 (s ++ k) = Some (d, r ++ k).
Proof.
  unfold digits1. intros s d r k H Hk. destruct (take_while is_dig s) eqn:E; [discriminate|].
  injection H as <- <-.
  destruct (tw_app is_dig s k) as [H1 H2].
  { apply dw_stops. intro E0. specialize (Hk E0). destruct k as [|c k]; [exact I|].
    apply (follow_ok_dig c k Hk). }
  rewrite H1, H2, E. reflexivity.
Qed.

(* num_rest = fraction, then exponent; the numeral pattern replaced by a test *)
Definition frac (s : bytes) : option (bytes * bytes) :=
  match s with
  | c :: r => if c =? 46
              then match digits1 r with Some (d, k) => Some (46 :: d, k) | None => None end
              else Some ([], s)
  | [] => Some ([], s)
  end.
Definition expo (fr s2 : bytes) : option (bytes * bytes) :=
  match s2 with
  | c :: r =>
    if (c =? 101) || (c =? 69) then
      match r with
      | sg :: r' =>
        if (sg =? 43) || (sg =? 45)
        then match digits1 r' with Some (d, k) => Some (fr ++ c :: sg :: d, k) | None => None end
        else match digits1 r with Some (d, k) => Some (fr ++ c :: d, k) | None => None end
      | [] => None
      end
    else Some (fr, s2)
  | [] => Some (fr, s2)
  end.

Lemma num_rest_eq : forall s,
  num_rest s = match frac s with None => None | Some (fr, s2) => expo fr s2 end.
Proof.
  intro s. unfold num_rest, frac, expo. destruct s as [|c r]; [reflexivity|].
  destruct (N.eqb_spec c 46) as [->|Hn]; [reflexivity|].
  destruct c as [|p]; [reflexivity|].
  do 6 (try (destruct p as [p|p|]; try reflexivity)); congruence.
Qed.

Lemma frac_split : forall s fr r, frac s = Some (fr, r) -> s = fr ++ r.
Proof.
  unfold frac. intros s fr r H. destruct s as [|c s]; [injection H as <- <-; reflexivity|].
  destruct (N.eqb_spec c 46) as [->|Hn]; [|injection H as <- <-; reflexivity].
  destruct (digits1 s) as [[d k]|] eqn:E; [|discriminate]. injection H as <- <-.
  simpl. f_equal. apply digits1_split. exact E.
Qed.

Lemma frac_app : forall s fr r k, frac s = Some (fr, r) -> (r = [] -> follow_ok k) ->
  frac (s ++ k) = Some (fr, r ++ k).
Proof.
  unfold frac. intros s fr r k H Hk. destruct s as [|c s].
  - injection H as <- <-. specialize (Hk eq_refl). simpl. destruct k as [|c k]; [reflexivity|].
    rewrite (follow_ok_dot c k Hk). reflexivity.
  - cbn [app]. destruct (c =? 46).
    + destruct (digits1 s) as [[d k1]|] eqn:E; [|discriminate]. injection H as <- <-.
      rewrite (digits1_app s d k1 k E Hk). reflexivity.
    + injection H as <- <-. reflexivity.
Qed.

Lemma expo_split : forall fr s t r, expo fr s = Some (t, r) -> fr ++ s = t ++ r.
Proof.
  unfold expo. intros fr s t r H. destruct s as [|c s]; [injection H as <- <-; reflexivity|].
  destruct ((c =? 101) || (c =? 69)); [|injection H as <- <-; reflexivity].
  destruct s as [|sg s]; [discriminate|].
  destruct ((sg =? 43) || (sg =? 45)).
  - destruct (digits1 s) as [[d k]|] eqn:E; [|discriminate]. injection H as <- <-.
    rewrite (digits1_split s d k E). rewrite <- app_assoc. reflexivity.
  - destruct (digits1 (sg :: s)) as [[d k]|] eqn:E; [|discriminate]. injection H as <- <-.
    rewrite (digits1_split _ d k E). rewrite <- app_assoc. reflexivity.
Qed.

Lemma expo_app : forall fr s t r k, expo fr s = Some (t, r) -> (r = [] -> follow_ok k) ->
  expo fr (s ++ k) = Some (t, r ++ k).
Proof.
  unfold expo. intros fr s t r k H Hk. destruct s as [|c s].
  - injection H as <- <-. specialize (Hk eq_refl). simpl. destruct k as [|c k]; [reflexivity|].
    rewrite (follow_ok_e c k Hk). reflexivity.
  - cbn [app]. destruct ((c =? 101) || (c =? 69)); [|injection H as <- <-; reflexivity].
    destruct s as [|sg s]; [discriminate|]. cbn [app].
    destruct ((sg =? 43) || (sg =? 45)).
    + destruct (digits1 s) as [[d k1]|] eqn:E; [|discriminate]. injection H as <- <-.
      rewrite (digits1_app s d k1 k E Hk). reflexivity.
    + destruct (digits1 (sg :: s)) as [[d k1]|] eqn:E; [|discriminate]. injection H as <- <-.
      change (sg :: s ++ k) with ((sg :: s) ++ k).
      rewrite (digits1_app _ d k1 k E Hk). reflexivity.
Qed.

Lemma num_rest_split : forall s t r, num_rest s = Some (t, r) -> s = t ++ r.
Proof.
  intros s t r H. rewrite num_rest_eq in H. destruct (frac s) as [[fr s2]|] eqn:E; [|discriminate].
  rewrite (frac_split s fr s2 E). apply expo_split. exact H.
Qed.

Lemma num_rest_app : forall s t r k, num_rest s = Some (t, r) -> (r = [] -> follow_ok k) ->
  num_rest (s ++ k) = Some (t, r ++ k).
Proof.
  intros s t r k H Hk. rewrite num_rest_eq in H |- *.
  destruct (frac s) as [[fr s2]|] eqn:E; [|discriminate].
  rewrite (frac_app s fr s2 k E).
  - apply expo_app; assumption.
  - intros ->. apply Hk. unfold expo in H. injection H as _ <-. reflexivity.
Qed.

Definition num_body (sign s0 : bytes) : option (bytes * bytes) :=
  match s0 with
  | c :: r =>
    if c =? 48 then
      match num_rest r with Some (t, k) => Some (sign ++ 48 :: t, k) | None => None end
    else if (49 <=? c) && (c <=? 57) then
      match num_rest (drop_while is_dig r) with
      | Some (t, k) => Some (sign ++ c :: take_while is_dig r ++ t, k)
      | None => None
      end
    else None
  | [] => None
  end.

Lemma scan_number_eq : forall s,
  scan_number s = match s with
                  | c :: r => if c =? 45 then num_body [45] r else num_body [] s
                  | [] => None
                  end.
Proof.
  intro s. unfold scan_number. destruct s as [|c r]; [reflexivity|].
  destruct (N.eqb_spec c 45) as [->|Hn]; [reflexivity|].
  destruct c as [|p]; [reflexivity|].
  do 6 (try (destruct p as [p|p|]; try reflexivity)); congruence.
Qed.

Lemma num_body_split : forall sign s t r, num_body sign s = Some (t, r) -> sign ++ s = t ++ r.
Proof.
  unfold num_body. intros sign s t r H. destruct s as [|c s]; [discriminate|].
  destruct (N.eqb_spec c 48) as [->|Hn].
  - destruct (num_rest s) as [[t1 k1]|] eqn:E; [|discriminate]. injection H as <- <-.
    rewrite (num_rest_split s t1 k1 E). rewrite <- app_assoc. reflexivity.
  - destruct ((49 <=? c) && (c <=? 57)); [|discriminate].
    destruct (num_rest (drop_while is_dig s)) as [[t1 k1]|] eqn:E; [|discriminate]. injection H as <- <-.
    rewrite <- (take_drop_while is_dig s) at 1. rewrite (num_rest_split _ t1 k1 E).
    rewrite <- !app_assoc. simpl. rewrite <- app_assoc. reflexivity.
Qed.

Lemma num_body_app : forall sign s t r k, num_body sign s = Some (t, r) -> (r = [] -> follow_ok k) ->
  num_body sign (s ++ k) = Some (t, r ++ k).
Proof.
  unfold num_body. intros sign s t r k H Hk. destruct s as [|c s]; [discriminate|]. cbn [app].
  destruct (c =? 48).
  - destruct (num_rest s) as [[t1 k1]|] eqn:E; [|discriminate]. injection H as <- <-.
    rewrite (num_rest_app s t1 k1 k E Hk). reflexivity.
  - destruct ((49 <=? c) && (c <=? 57)); [|discriminate].
    destruct (num_rest (drop_while is_dig s)) as [[t1 k1]|] eqn:E; [|discriminate]. injection H as <- <-.
    destruct (tw_app is_dig s k) as [H1 H2].
    { apply dw_stops. intro E0. rewrite E0 in E. rewrite num_rest_eq in E. simpl in E. injection E as _ <-.
      specialize (Hk eq_refl). destruct k as [|x k]; [exact I|]. apply (follow_ok_dig x k Hk). }
    rewrite H1, H2. rewrite (num_rest_app _ t1 k1 k E Hk). reflexivity.
Qed.

Lemma scan_number_split : forall s t r, scan_number s = Some (t, r) -> s = t ++ r.
Proof.
  intros s t r H. rewrite scan_number_eq in H. destruct s as [|c s]; [discriminate|].
  destruct (N.eqb_spec c 45) as [->|Hn].
  - apply (num_body_split [45] s t r H).
  - apply (num_body_split [] (c :: s) t r H).
Qed.

Lemma scan_number_app : forall s t r k, scan_number s = Some (t, r) -> (r = [] -> follow_ok k) ->
  scan_number (s ++ k) = Some (t, r ++ k).
Proof.
  intros s t r k H Hk. rewrite scan_number_eq in H |- *. destruct s as [|c s]; [discriminate|]. cbn [app].
  destruct (c =? 45).
  - apply num_body_app; assumption.
  - apply (num_body_app [] (c :: s) t r k H Hk).
Qed.

(* a number token followed by something that cannot continue it is read back whole *)
Lemma scan_number_tok : forall tok k, num_ok tok = true -> follow_ok k ->
  scan_number (tok ++ k) = Some (tok, k).
Proof.
  unfold num_ok. intros tok k H Hk. destruct (scan_number tok) as [[t r]|] eqn:E; [|discriminate].
  destruct r; [|discriminate].
  pose proof (scan_number_split tok t [] E) as Hs. rewrite app_nil_r in Hs. subst t.
  apply (scan_number_app tok tok [] k E). intros _. exact Hk.
Qed.

(* first byte of a number token *)
Definition num_start (c : N) : bool := (c =? 45) || is_dig c.
Lemma num_ok_start : forall tok, num_ok tok = true -> exists c r, tok = c :: r /\ num_start c = true.
Proof.
  unfold num_ok. intros tok H. rewrite scan_number_eq in H. destruct tok as [|c r]; [discriminate|].
  exists c, r. split; [reflexivity|]. unfold num_start. destruct (c =? 45); [reflexivity|]. simpl.
  unfold num_body in H. unfold is_dig.
  destruct (N.eqb_spec c 48) as [->|Hn]; [reflexivity|].
  destruct ((49 <=? c) && (c <=? 57)) eqn:E; [|discriminate].
  apply andb_true_iff in E. destruct E as [E1 E2]. apply N.leb_le in E1, E2.
  apply andb_true_iff. split; apply N.leb_le; lia.
Qed.

(* ================= values: definitions ================= *)

(* strings and keys are valid UTF-8, number tokens are JSON numbers *)
Fixpoint wf_value (v : jvalue) : bool :=
  match v with
  | JNum t => num_ok t
  | JStr s => utf8_valid s
  | JArr l => forallb wf_value l
  | JObj m => forallb (fun kv => utf8_valid (fst kv) && wf_value (snd kv)) m
  | _ => true
  end.

(* nesting depth: scalars 0, a container one more than its deepest member *)
Fixpoint depth (v : jvalue) : N :=
  match v with
  | JArr l => 1 + fold_right (fun x a => N.max (depth x) a) 0 l
  | JObj m => 1 + fold_right (fun kv a => N.max (depth (snd kv)) a) 0 m
  | _ => 0
  end.

Definition enc_list : list jvalue -> bytes :=
  fix ea (l : list jvalue) : bytes :=
    match l with
    | [] => []
    | [x] => encode_value x
    | x :: r => encode_value x ++ [44] ++ ea r
    end.
Definition enc_obj : list (bytes * jvalue) -> bytes :=
  fix eo (l : list (bytes * jvalue)) : bytes :=
    match l with
    | [] => []
    | [(k, x)] => encode_string k ++ [58] ++ encode_value x
    | (k, x) :: r => encode_string k ++ [58] ++ encode_value x ++ [44] ++ eo r
    end.

Lemma encode_arr : forall l, encode_value (JArr l) = [91] ++ enc_list l ++ [93].
Proof. reflexivity. Qed.
Lemma encode_obj : forall m, encode_value (JObj m) = [123] ++ enc_obj m ++ [125].
Proof. reflexivity. Qed.
Lemma enc_list_one : forall x, enc_list [x] = encode_value x.
Proof. reflexivity. Qed.
Lemma enc_list_more : forall x y r, enc_list (x :: y :: r) = encode_value x ++ [44] ++ enc_list (y :: r).
Proof. reflexivity. Qed.
Lemma enc_obj_one : forall k x, enc_obj [(k, x)] = encode_string k ++ [58] ++ encode_value x.
Proof. reflexivity. Qed.
Lemma enc_obj_more : forall k x y r,
  enc_obj ((k, x) :: y :: r) = encode_string k ++ [58] ++ encode_value x ++ [44] ++ enc_obj (y :: r).
Proof. reflexivity. Qed.

Section JInd.
  Variable P : jvalue -> Prop.
  Hypothesis HNull : P JNull.
  Hypothesis HBool : forall b0, P (JBool b0).
  Hypothesis HNum : forall t, P (JNum t).
  Hypothesis HStr : forall s, P (JStr s).
  Hypothesis HArr : forall l, Forall P l -> P (JArr l).
  Hypothesis HObj : forall m, Forall (fun kv => P (snd kv)) m -> P (JObj m).
  Fixpoint jvalue_ind' (v : jvalue) : P v :=
    match v with
    | JNull => HNull | JBool b0 => HBool b0 | JNum t => HNum t | JStr s => HStr s
    | JArr l => HArr l ((fix go (l : list jvalue) : Forall P l :=
                           match l with
                           | [] => Forall_nil _
                           | x :: r => Forall_cons x (jvalue_ind' x) (go r)
                           end) l)
    | JObj m => HObj m ((fix go (m : list (bytes * jvalue)) : Forall (fun kv => P (snd kv)) m :=
                           match m with
                           | [] => Forall_nil _
                           | kv :: r => Forall_cons kv (jvalue_ind' (snd kv)) (go r)
                           end) m)
    end.
End JInd.

Lemma depth_arr_in : forall l x, In x l -> depth x + 1 <= depth (JArr l).
Proof.
  intros l x H. cbn [depth]. induction l as [|y l IH]; [destruct H|]. simpl fold_right.
  destruct H as [->|H]; [lia|]. specialize (IH H). lia.
Qed.
Lemma depth_obj_in : forall m kv, In kv m -> depth (snd kv) + 1 <= depth (JObj m).
Proof.
  intros m kv H. cbn [depth]. induction m as [|y m IH]; [destruct H|]. simpl fold_right.
  destruct H as [->|H]; [lia|]. specialize (IH H). lia.
Qed.

(* ================= scanner equations ================= *)

(* possible first bytes of an encoded value: n t f quote [ { - 0..9 *)
Definition starts : list N := [110; 116; 102; 34; 91; 123; 45; 48; 49; 50; 51; 52; 53; 54; 55; 56; 57].

Lemma skip_ws_nws : forall c r, is_ws c = false -> skip_ws (c :: r) = c :: r.
Proof. intros c r H. unfold skip_ws. simpl. rewrite H. reflexivity. Qed.

Lemma starts_nws : forall c, In c starts -> is_ws c = false.
Proof. intros c H. simpl in H. repeat (destruct H as [H|H]; [subst c; reflexivity|]). destruct H. Qed.

Lemma num_start_starts : forall c, num_start c = true -> In c starts.
Proof.
  unfold num_start, is_dig. intros c H. apply orb_true_iff in H. destruct H as [H|H].
  - apply N.eqb_eq in H. subst c. simpl. repeat ((left; reflexivity) || right).
  - apply andb_true_iff in H. destruct H as [H1 H2]. apply N.leb_le in H1, H2.
    assert (E : c = 48 \/ c = 49 \/ c = 50 \/ c = 51 \/ c = 52 \/ c = 53 \/ c = 54 \/ c = 55 \/ c = 56 \/ c = 57) by lia.
    repeat (destruct E as [E|E]; [subst c; simpl; repeat ((left; reflexivity) || right)|]).
    subst c; simpl; repeat ((left; reflexivity) || right).
Qed.

Lemma sv_0 : forall d s, scan_value 0 d s = None.
Proof. reflexivity. Qed.
Lemma sv_null : forall f d k, scan_value (S f) d (110 :: 117 :: 108 :: 108 :: k) = Some (VNull, k).
Proof. reflexivity. Qed.
Lemma sv_true : forall f d k, scan_value (S f) d (116 :: 114 :: 117 :: 101 :: k) = Some (VBool true, k).
Proof. reflexivity. Qed.
Lemma sv_false : forall f d k, scan_value (S f) d (102 :: 97 :: 108 :: 115 :: 101 :: k) = Some (VBool false, k).
Proof. reflexivity. Qed.
Lemma sv_str : forall f d r,
  scan_value (S f) d (34 :: r) =
  match scan_string (S (length r)) r with Some (raw, k) => Some (VStr raw, k) | None => None end.
Proof. reflexivity. Qed.
Lemma sv_num : forall f d c r, num_start c = true ->
  scan_value (S f) d (c :: r) =
  match scan_number (c :: r) with Some (tok, k) => Some (VNum tok, k) | None => None end.
Proof.
  intros f d c r H.
  assert (E : c = 45 \/ c = 48 \/ c = 49 \/ c = 50 \/ c = 51 \/ c = 52 \/ c = 53 \/ c = 54 \/ c = 55 \/ c = 56 \/ c = 57).
  { unfold num_start, is_dig in H. apply orb_true_iff in H. destruct H as [H|H].
    - apply N.eqb_eq in H. lia.
    - apply andb_true_iff in H. destruct H as [H1 H2]. apply N.leb_le in H1, H2. lia. }
  repeat (destruct E as [E|E]; [subst c; reflexivity|]). subst c; reflexivity.
Qed.

Lemma sv_arr_empty : forall f d k,
  scan_value (S f) d (91 :: 93 :: k) = if max_depth <? d + 1 then None else Some (VArr [], k).
Proof. reflexivity. Qed.
Lemma sv_obj_empty : forall f d k,
  scan_value (S f) d (123 :: 125 :: k) = if max_depth <? d + 1 then None else Some (VObj [], k).
Proof. reflexivity. Qed.
Lemma sv_arr : forall f d c r, In c starts ->
  scan_value (S f) d (91 :: c :: r) =
  if max_depth <? d + 1 then None else scan_elements f (d + 1) [] (c :: r).
Proof.
  intros f d c r H. simpl in H.
  repeat (destruct H as [H|H]; [subst c; reflexivity|]). destruct H.
Qed.
Lemma sv_obj : forall f d r,
  scan_value (S f) d (123 :: 34 :: r) =
  if max_depth <? d + 1 then None else scan_members f (d + 1) [] (34 :: r).
Proof. reflexivity. Qed.

Lemma se_eq : forall f d acc s,
  scan_elements (S f) d acc s =
  match scan_value f d s with
  | None => None
  | Some (v, k) =>
    match skip_ws k with
    | 44 :: k2 => scan_elements f d (v :: acc) (skip_ws k2)
    | 93 :: k2 => Some (VArr (rev (v :: acc)), k2)
    | _ => None
    end
  end.
Proof. reflexivity. Qed.

Lemma se_comma : forall f d acc s v c r, In c starts ->
  scan_value f d s = Some (v, 44 :: c :: r) ->
  scan_elements (S f) d acc s = scan_elements f d (v :: acc) (c :: r).
Proof.
  intros f d acc s v c r Hc H. rewrite se_eq, H.
  rewrite (skip_ws_nws 44) by reflexivity. cbv beta iota.
  rewrite (skip_ws_nws c) by (apply starts_nws; exact Hc). reflexivity.
Qed.

Lemma se_close : forall f d acc s v k,
  scan_value f d s = Some (v, 93 :: k) ->
  scan_elements (S f) d acc s = Some (VArr (rev (v :: acc)), k).
Proof.
  intros f d acc s v k H. rewrite se_eq, H.
  rewrite (skip_ws_nws 93) by reflexivity. reflexivity.
Qed.

Lemma sm_eq : forall f d acc r,
  scan_members (S f) d acc (34 :: r) =
  match scan_string (S (length r)) r with
  | None => None
  | Some (key, k1) =>
    match skip_ws k1 with
    | 58 :: k2 =>
      let vs := skip_ws k2 in
      match scan_value f d vs with
      | None => None
      | Some (v, k3) =>
        let acc' := (key, v, vs, k3) :: acc in
        match skip_ws k3 with
        | 44 :: k4 => scan_members f d acc' (skip_ws k4)
        | 125 :: k4 => Some (VObj (rev acc'), k4)
        | _ => None
        end
      end
    | _ => None
    end
  end.
Proof. reflexivity. Qed.

(* one member "key":value followed by a comma and the next key *)
Lemma sm_comma : forall f d acc rawk c r v r2, body_ok rawk -> is_ws c = false ->
  scan_value f d (c :: r) = Some (v, 44 :: 34 :: r2) ->
  scan_members (S f) d acc (34 :: rawk ++ 34 :: 58 :: c :: r) =
  scan_members f d ((rawk, v, c :: r, 44 :: 34 :: r2) :: acc) (34 :: r2).
Proof.
  intros f d acc rawk c r v r2 Hk Hc H. rewrite sm_eq.
  rewrite scan_body by (exact Hk || (rewrite app_length; simpl; lia)).
  rewrite (skip_ws_nws 58) by reflexivity. cbv beta iota zeta.
  rewrite (skip_ws_nws c) by exact Hc. rewrite H.
  rewrite (skip_ws_nws 44) by reflexivity. cbv beta iota.
  rewrite (skip_ws_nws 34) by reflexivity. reflexivity.
Qed.

Lemma sm_close : forall f d acc rawk c r v k, body_ok rawk -> is_ws c = false ->
  scan_value f d (c :: r) = Some (v, 125 :: k) ->
  scan_members (S f) d acc (34 :: rawk ++ 34 :: 58 :: c :: r) =
  Some (VObj (rev ((rawk, v, c :: r, 125 :: k) :: acc)), k).
Proof.
  intros f d acc rawk c r v k Hk Hc H. rewrite sm_eq.
  rewrite scan_body by (exact Hk || (rewrite app_length; simpl; lia)).
  rewrite (skip_ws_nws 58) by reflexivity. cbv beta iota zeta.
  rewrite (skip_ws_nws c) by exact Hc. rewrite H.
  rewrite (skip_ws_nws 125) by reflexivity. reflexivity.
Qed.

(* ================= the round trip ================= *)

Lemma enc_start : forall v, wf_value v = true -> exists c r, encode_value v = c :: r /\ In c starts.
Proof.
  intros v H. destruct v as [|b0|t|s|l|m].
  - exists 110. eexists. split; [reflexivity|]. simpl; tauto.
  - destruct b0; [exists 116|exists 102]; eexists; (split; [reflexivity|]); simpl; tauto.
  - simpl in H. destruct (num_ok_start t H) as [c [r [E Hc]]]. exists c, r. split; [exact E|].
    apply num_start_starts. exact Hc.
  - exists 34. eexists. split; [reflexivity|]. simpl; tauto.
  - exists 91. eexists. split; [reflexivity|]. simpl; tauto.
  - exists 123. eexists. split; [reflexivity|]. simpl; tauto.
Qed.

Definition scan_ok (v : jvalue) : Prop :=
  forall k d fuel, follow_ok k -> d + depth v <= max_depth -> (length (encode_value v) < fuel)%nat ->
  exists x, scan_value fuel d (encode_value v ++ k) = Some (x, k) /\ to_jvalue x = v.

Lemma enc_list_start : forall x l, wf_value x = true ->
  exists c r, enc_list (x :: l) = c :: r /\ In c starts.
Proof.
  intros x l H. destruct (enc_start x H) as [c [r [E Hc]]].
  destruct l as [|y l]; [exists c, r; auto|].
  rewrite enc_list_more, E. exists c. eexists. split; [reflexivity|exact Hc].
Qed.

Lemma elems_ok : forall l,
  Forall (fun v => wf_value v = true -> scan_ok v) l -> forallb wf_value l = true -> l <> [] ->
  forall acc k d fuel, (forall x, In x l -> d + depth x <= max_depth) ->
  (S (length (enc_list l)) < fuel)%nat ->
  exists xs, scan_elements fuel d acc (enc_list l ++ 93 :: k) = Some (VArr (rev acc ++ xs), k) /\
             map to_jvalue xs = l.
Proof.
  induction l as [|x l IH]; intros HP Hwf Hne acc k d fuel Hd Hf; [congruence|].
  inversion HP as [|x0 l0 HPx HPl]; subst x0 l0.
  simpl in Hwf. apply andb_true_iff in Hwf. destruct Hwf as [Hwx Hwl].
  destruct fuel as [|f]; [lia|].
  destruct l as [|y l'].
  - rewrite enc_list_one in Hf |- *.
    destruct (HPx Hwx (93 :: k) d f) as [x' [Hs Hx']];
      [reflexivity|apply Hd; left; reflexivity|lia|].
    exists [x']. split; [|simpl; rewrite Hx'; reflexivity].
    rewrite (se_close f d acc _ x' k Hs). reflexivity.
  - rewrite enc_list_more in Hf |- *. rewrite !app_length in Hf. cbn [length] in Hf.
    rewrite <- !app_assoc. cbn [app].
    assert (Hwy : wf_value y = true) by (simpl in Hwl; apply andb_true_iff in Hwl; tauto).
    destruct (enc_list_start y l' Hwy) as [c [r [E Hc]]].
    rewrite E. cbn [app]. 
    destruct (HPx Hwx (44 :: c :: r ++ 93 :: k) d f) as [x' [Hs Hx']];
      [reflexivity|apply Hd; left; reflexivity|lia|].
    rewrite (se_comma f d acc _ x' c _ Hc Hs).
    change (c :: r ++ 93 :: k) with ((c :: r) ++ 93 :: k). rewrite <- E.
    destruct (IH HPl Hwl ltac:(discriminate) (x' :: acc) k d f) as [xs [Hxs Hm]];
      [intros; apply Hd; right; assumption|lia|].
    exists (x' :: xs). split; [|simpl; rewrite Hx', Hm; reflexivity].
    rewrite Hxs. simpl. rewrite <- app_assoc. reflexivity.
Qed.

Definition rec_kv (x : bytes * jv * bytes * bytes) : bytes * jvalue :=
  match x with (k, v', _, _) => (unquote k, to_jvalue v') end.
Lemma to_jvalue_obj : forall m, to_jvalue (VObj m) = JObj (map rec_kv m).
Proof. reflexivity. Qed.

Lemma enc_obj_start : forall y l, exists r2, enc_obj (y :: l) = 34 :: r2.
Proof. intros [ky y] l. destruct l as [|z l]; eexists; [rewrite enc_obj_one|rewrite enc_obj_more]; reflexivity. Qed.

Lemma membs_ok : forall m,
  Forall (fun kv => wf_value (snd kv) = true -> scan_ok (snd kv)) m ->
  forallb (fun kv => utf8_valid (fst kv) && wf_value (snd kv)) m = true -> m <> [] ->
  forall acc k d fuel, (forall kv, In kv m -> d + depth (snd kv) <= max_depth) ->
  (S (length (enc_obj m)) < fuel)%nat ->
  exists recs, scan_members fuel d acc (enc_obj m ++ 125 :: k) = Some (VObj (rev acc ++ recs), k) /\
               map rec_kv recs = m.
Proof.
  induction m as [|[key x] m IH]; intros HP Hwf Hne acc k d fuel Hd Hf; [congruence|].
  inversion HP as [|x0 l0 HPx HPl]; subst x0 l0. cbn [snd] in HPx.
  simpl in Hwf. apply andb_true_iff in Hwf. destruct Hwf as [Hwx Hwl].
  apply andb_true_iff in Hwx. destruct Hwx as [Hkey Hwx].
  destruct fuel as [|f]; [lia|].
  destruct (enc_start x Hwx) as [c [r [E Hc]]].
  pose proof (starts_nws c Hc) as Hws.
  pose proof (enc_body_ok (length key) key) as Hbk.
  destruct m as [|y m'].
  - rewrite enc_obj_one in Hf |- *. unfold encode_string in Hf |- *.
    rewrite !app_length in Hf. cbn [length] in Hf.
    rewrite <- !app_assoc. cbn [app].
    destruct (HPx Hwx (125 :: k) d f) as [x' [Hs Hx']];
      [reflexivity|apply (Hd (key, x)); left; reflexivity|lia|].
    rewrite E in Hs |- *. cbn [app] in Hs |- *.
    rewrite (sm_close f d acc _ c _ x' k Hbk Hws Hs).
    eexists [_]. split; [reflexivity|]. simpl. rewrite Hx', unquote_enc_str by exact Hkey. reflexivity.
  - rewrite enc_obj_more in Hf |- *. unfold encode_string in Hf |- *.
    rewrite !app_length in Hf. cbn [length] in Hf.
    rewrite <- !app_assoc. cbn [app].
    destruct (enc_obj_start y m') as [r2 E2].
    destruct (HPx Hwx (44 :: 34 :: r2 ++ 125 :: k) d f) as [x' [Hs Hx']];
      [reflexivity|apply (Hd (key, x)); left; reflexivity|lia|].
    rewrite E2. rewrite E in Hs |- *. cbn [app] in Hs |- *.
    rewrite (sm_comma f d acc _ c _ x' _ Hbk Hws Hs).
    change (34 :: r2 ++ 125 :: k) with ((34 :: r2) ++ 125 :: k). rewrite <- E2.
    destruct (IH HPl Hwl ltac:(discriminate) ((enc_str_f (length key) key, x', c :: r ++ 44 :: enc_obj (y :: m') ++ 125 :: k, 44 :: enc_obj (y :: m') ++ 125 :: k) :: acc) k d f) as [recs [Hr Hm]];
      [intros; apply Hd; right; assumption|lia|].
    rewrite Hr.
    eexists (_ :: recs). split; [simpl; rewrite <- app_assoc; reflexivity|].
    simpl. rewrite Hx', Hm, unquote_enc_str by exact Hkey. reflexivity.
Qed.

Lemma depth_le : forall d n, d + (1 + n) <= max_depth -> max_depth <? d + 1 = false.
Proof. intros d n H. apply N.ltb_ge. lia. Qed.

Lemma scan_ok_all : forall v, wf_value v = true -> scan_ok v.
Proof.
  induction v as [|b0|t|s|l IHl|m IHm] using jvalue_ind'; intros Hwf k d fuel Hk Hd Hf;
    (destruct fuel as [|f]; [lia|]).
  - exists VNull. split; reflexivity.
  - destruct b0; [exists (VBool true)|exists (VBool false)]; split; reflexivity.
  - simpl in Hwf. cbn [encode_value].
    destruct (num_ok_start t Hwf) as [c [r [E Hc]]].
    exists (VNum t). split; [|reflexivity].
    pose proof (scan_number_tok t k Hwf Hk) as Hn.
    rewrite E in Hn |- *. cbn [app] in Hn |- *.
    rewrite sv_num by exact Hc. rewrite Hn. reflexivity.
  - simpl in Hwf. cbn [encode_value]. unfold encode_string. rewrite <- !app_assoc. cbn [app].
    exists (VStr (enc_str_f (length s) s)). split.
    + rewrite sv_str. rewrite scan_enc_str by (rewrite app_length; simpl; lia). reflexivity.
    + cbn [to_jvalue]. rewrite unquote_enc_str by exact Hwf. reflexivity.
  - rewrite encode_arr in Hf |- *. rewrite <- !app_assoc. cbn [app].
    rewrite !app_length in Hf. cbn [length] in Hf.
    cbn [depth] in Hd. simpl in Hwf.
    destruct l as [|x l'].
    + exists (VArr []). split; [|reflexivity]. cbn [enc_list app].
      rewrite sv_arr_empty, (depth_le d _ Hd). reflexivity.
    + destruct (enc_list_start x l' ltac:(simpl in Hwf; apply andb_true_iff in Hwf; tauto)) as [c [r [E Hc]]].
      destruct (elems_ok (x :: l')) with (acc := @nil jv) (k := k) (d := d + 1) (fuel := f) as [xs [Hs Hm]];
        [ apply Forall_forall; intros y Hy Hwy; rewrite Forall_forall in IHl; apply IHl; assumption
        | exact Hwf | discriminate
        | intros y Hy; pose proof (depth_arr_in (x :: l') y Hy) as Hle; cbn [depth] in Hle; lia
        | lia | ].
      rewrite E in Hs |- *. cbn [app] in Hs |- *.
      rewrite sv_arr by exact Hc. rewrite (depth_le d _ Hd), Hs.
      exists (VArr xs). split; [reflexivity|]. cbn [to_jvalue]. rewrite Hm. reflexivity.
  - rewrite encode_obj in Hf |- *. rewrite <- !app_assoc. cbn [app].
    rewrite !app_length in Hf. cbn [length] in Hf.
    cbn [depth] in Hd. simpl in Hwf.
    destruct m as [|y m'].
    + exists (VObj []). split; [|reflexivity]. cbn [enc_obj app].
      rewrite sv_obj_empty, (depth_le d _ Hd). reflexivity.
    + destruct (enc_obj_start y m') as [r2 E2].
      destruct (membs_ok (y :: m')) with (acc := @nil (bytes * jv * bytes * bytes)) (k := k) (d := d + 1) (fuel := f)
        as [recs [Hs Hm]];
        [ apply Forall_forall; intros z Hz Hwz; rewrite Forall_forall in IHm; apply IHm; assumption
        | exact Hwf | discriminate
        | intros z Hz; pose proof (depth_obj_in (y :: m') z Hz) as Hle; cbn [depth] in Hle; lia
        | lia | ].
      rewrite E2 in Hs |- *. cbn [app] in Hs |- *.
      rewrite sv_obj. rewrite (depth_le d _ Hd), Hs.
      exists (VObj recs). split; [reflexivity|]. rewrite to_jvalue_obj, Hm. reflexivity.
Qed.

(* B: the scanner reads back exactly the encoder's output and stops where it ends *)
Theorem scan_encode : forall v k d fuel, wf_value v = true -> follow_ok k ->
  d + depth v <= max_depth -> (length (encode_value v) < fuel)%nat ->
  exists x, scan_value fuel d (encode_value v ++ k) = Some (x, k) /\ to_jvalue x = v.
Proof. intros v k d fuel Hwf. apply scan_ok_all. exact Hwf. Qed.
Print Assumptions scan_encode.

(* ================= C: whole documents ================= *)

Lemma skip_ws_enc : forall v, wf_value v = true -> skip_ws (encode_value v) = encode_value v.
Proof.
  intros v H. destruct (enc_start v H) as [c [r [E Hc]]]. rewrite E.
  apply skip_ws_nws. apply starts_nws. exact Hc.
Qed.

(* jparse supplies enough fuel: one more than the length of the text *)
Theorem jparse_encode : forall v, wf_value v = true -> depth v <= max_depth ->
  exists x, jparse (encode_value v) = Some x /\ to_jvalue x = v.
Proof.
  intros v Hwf Hd. unfold jparse. rewrite skip_ws_enc by exact Hwf.
  destruct (scan_encode v [] 0 (S (length (encode_value v))) Hwf I) as [x [Hs Hx]]; [lia|lia|].
  rewrite app_nil_r in Hs. rewrite Hs. exists x. split; [reflexivity|exact Hx].
Qed.

Theorem parse_encode : forall v, wf_value v = true -> depth v <= 10000 ->
  parse (encode_value v) = Some v.
Proof.
  intros v Hwf Hd. unfold parse. destruct (jparse_encode v Hwf Hd) as [x [Hp Hx]].
  rewrite Hp. simpl. rewrite Hx. reflexivity.
Qed.

Theorem encode_valid : forall v, wf_value v = true -> depth v <= 10000 ->
  valid (encode_value v) = true.
Proof.
  intros v Hwf Hd. unfold valid. destruct (jparse_encode v Hwf Hd) as [x [Hp _]].
  rewrite Hp. reflexivity.
Qed.

Print Assumptions parse_encode.
Print Assumptions encode_valid.
