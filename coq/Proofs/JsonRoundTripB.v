(* Proofs/JsonRoundTripB.v — values: the scanner reads back exactly what
   encode_value wrote (scan_encode), hence parse (encode_value v) = Some v. *)
From VL Require Import Bytes Json JsonRoundTripA.
Open Scope N_scope.

(* ================= numbers ================= *)

(* k cannot continue a number literal *)
Definition num_char (c : N) : bool := is_dig c || (c =? 46) || (c =? 101) || (c =? 69).
Definition follow_ok (k : bytes) : Prop :=
  match k with [] => True | c :: _ => num_char c = false end.

Lemma follow_ok_dig : forall c k, follow_ok (c :: k) -> is_dig c = false.
Proof. unfold follow_ok, num_char. intros c k H. repeat (apply orb_false_iff in H; destruct H as [H _]). exact H. Qed.
Lemma follow_ok_dot : forall c k, follow_ok (c :: k) -> c =? 46 = false.
Proof. unfold follow_ok, num_char. intros c k H. apply orb_false_iff in H. destruct H as [H _].
  apply orb_false_iff in H. destruct H as [H _]. apply orb_false_iff in H. destruct H as [_ H]. exact H. Qed.
Lemma follow_ok_e : forall c k, follow_ok (c :: k) -> (c =? 101) || (c =? 69) = false.
Proof. unfold follow_ok, num_char. intros c k H. apply orb_false_iff in H. destruct H as [H H2].
  apply orb_false_iff in H. destruct H as [_ H]. rewrite H, H2. reflexivity. Qed.

Lemma tw_app : forall p s k,
  match drop_while p s ++ k with [] => True | c :: _ => p c = false end ->
  take_while p (s ++ k) = take_while p s /\ drop_while p (s ++ k) = drop_while p s ++ k.
Proof.
  intros p s k. induction s as [|x s IH]; simpl; intro H.
  - destruct k as [|c k]; simpl in *; [auto|]. rewrite H. auto.
  - destruct (p x) eqn:E.
    + destruct (IH H) as [H1 H2]. rewrite H1, H2. auto.
    + simpl. auto.
Qed.

Lemma dw_stops : forall p s k, (drop_while p s = [] -> match k with [] => True | c :: _ => p c = false end) ->
  match drop_while p s ++ k with [] => True | c :: _ => p c = false end.
Proof.
  intros p s k H. destruct (drop_while p s) as [|c r] eqn:E; simpl.
  - apply H. reflexivity.
  - apply (drop_while_head p s c r E).
Qed.

Lemma digits1_split : forall s d r, digits1 s = Some (d, r) -> s = d ++ r.
Proof.
  unfold digits1. intros s d r H. destruct (take_while is_dig s) eqn:E; [discriminate|].
  injection H as <- <-. rewrite <- E. symmetry. apply take_drop_while.
Qed.

Lemma digits1_app : forall s d r k, digits1 s = Some (d, r) -> (r = [] -> follow_ok k) ->
  digits1 (s ++ k) = Some (d, r ++ k).
Proof.
  unfold digits1. intros s d r k H Hk. destruct (take_while is_dig s) eqn:E; [discriminate|].
  injection H as <- <-.
  destruct (tw_app is_dig s k) as [H1 H2].
  { apply dw_stops. intro E0. specialize (Hk E0). destruct k as [|c k]; [exact I|].
    apply (follow_ok_dig c k Hk). }
  rewrite H1, H2, E. reflexivity.
Qed.
