(* Proofs/AddrProofsAct.v — C20: strconv.Atoi and socket activation (Model/Addr.v). *)
From Coq Require Import ZArith Lia.
From Coq Require String.
From VL Require Import Bytes Lit Addr.
Open Scope N_scope.

(* ---------- sign handling of atoi, with the literal match made explicit ---------- *)

Definition sign_split (s : bytes) : bool * bytes :=
  match s with
  | 45 :: r => (true, r)
  | 43 :: r => (false, r)
  | _ => (false, s)
  end.

Definition atoi_body (neg : bool) (body : bytes) : option Z :=
  match body with
  | [] => None
  | _ =>
    if forallb is_dig body then
      let v := digits_val 0 body in
      let v' := if neg then (- v)%Z else v in
      if (int64_min <=? v')%Z && (v' <=? int64_max)%Z then Some v' else None
    else None
  end.

Lemma atoi_unfold : forall s, atoi s = let '(neg, body) := sign_split s in atoi_body neg body.
Proof. reflexivity. Qed.

Lemma sign_split_cons : forall c r,
  sign_split (c :: r) = if c =? 45 then (true, r) else if c =? 43 then (false, r) else (false, c :: r).
Proof.
  intros c r. unfold sign_split.
  destruct c as [|q]; [reflexivity|].
  do 7 (try (destruct q as [q|q|]; try reflexivity)).
Qed.

(* the body expression used in the statement of atoi_rejects_nondigit *)
Definition sign_body (s : bytes) : bytes := match s with 45 :: r | 43 :: r => r | _ => s end.

Lemma sign_body_snd : forall s, sign_body s = snd (sign_split s).
Proof.
  intro s. destruct s as [|c r]; [reflexivity|]. unfold sign_body, sign_split.
  destruct c as [|q]; [reflexivity|].
  do 7 (try (destruct q as [q|q|]; try reflexivity)).
Qed.

Lemma is_dig_range : forall c, is_dig c = true <-> 48 <= c <= 57.
Proof.
  intro c. unfold is_dig. rewrite andb_true_iff, !N.leb_le. tauto.
Qed.

Lemma digits_val_ge : forall s acc, (0 <= acc)%Z -> (acc <= digits_val acc s)%Z.
Proof.
  induction s as [|c r IH]; intros acc Ha; simpl; [lia|].
  assert (H1 : (0 <= Z.of_N (c - 48))%Z) by lia.
  specialize (IH (acc * 10 + Z.of_N (c - 48))%Z). lia.
Qed.

Theorem atoi_empty : atoi [] = None.
Proof. reflexivity. Qed.
Print Assumptions atoi_empty.

Theorem atoi_digits : forall s, s <> [] -> forallb is_dig s = true ->
  (digits_val 0 s <= int64_max)%Z -> atoi s = Some (digits_val 0 s).
Proof.
  intros s Hne Hd Hmax. destruct s as [|c r]; [contradiction|].
  rewrite atoi_unfold, sign_split_cons.
  assert (Hc : 48 <= c <= 57).
  { simpl in Hd. apply andb_true_iff in Hd. apply is_dig_range. tauto. }
  assert (E1 : c =? 45 = false) by (apply N.eqb_neq; lia).
  assert (E2 : c =? 43 = false) by (apply N.eqb_neq; lia).
  rewrite E1, E2. unfold atoi_body. rewrite Hd. cbv zeta.
  assert (Hge : (0 <= digits_val 0 (c :: r))%Z) by (apply digits_val_ge; lia).
  assert (Hlo : (int64_min <=? digits_val 0 (c :: r))%Z = true)
    by (apply Z.leb_le; unfold int64_min; lia).
  assert (Hhi : (digits_val 0 (c :: r) <=? int64_max)%Z = true) by (apply Z.leb_le; exact Hmax).
  rewrite Hlo, Hhi. reflexivity.
Qed.
Print Assumptions atoi_digits.

Lemma forallb_false_of_in : forall (f : N -> bool) l c, In c l -> f c = false -> forallb f l = false.
Proof.
  induction l as [|x r IH]; intros c Hi Hf; [destruct Hi|]. simpl.
  destruct Hi as [Hx|Hi]; [subst; rewrite Hf; reflexivity|].
  rewrite (IH c Hi Hf). apply andb_false_r.
Qed.

Theorem atoi_rejects_nondigit : forall s,
  (exists c, In c (match s with 45 :: r | 43 :: r => r | _ => s end) /\ is_dig c = false) ->
  atoi s = None.
Proof.
  intros s [c [Hi Hc]]. change (In c (sign_body s)) in Hi.
  rewrite sign_body_snd in Hi. rewrite atoi_unfold.
  destruct (sign_split s) as [neg body]. cbn [snd] in Hi.
  unfold atoi_body. destruct body as [|x r]; [reflexivity|].
  rewrite (forallb_false_of_in is_dig (x :: r) c Hi Hc). reflexivity.
Qed.
Print Assumptions atoi_rejects_nondigit.

(* complete characterisation: sign, non-empty digits, range *)
Theorem atoi_some_iff : forall s v, atoi s = Some v <->
  exists neg body, sign_split s = (neg, body) /\ body <> [] /\ forallb is_dig body = true /\
    v = (if neg then - digits_val 0 body else digits_val 0 body)%Z /\
    (int64_min <= v <= int64_max)%Z.
Proof.
  intros s v. rewrite atoi_unfold. destruct (sign_split s) as [neg body]. unfold atoi_body. split.
  - intro H. destruct body as [|x r]; [discriminate|].
    destruct (forallb is_dig (x :: r)) eqn:Ed; [|discriminate]. cbv zeta in H.
    destruct ((int64_min <=? _)%Z && _) eqn:Er in H; [|discriminate].
    inversion H; subst v. apply andb_true_iff in Er. rewrite !Z.leb_le in Er.
    exists neg, (x :: r). repeat split; try tauto; discriminate.
  - intros [neg' [body' [Hs [Hne [Hd [Hv Hr]]]]]]. inversion Hs; subst neg' body'.
    destruct body as [|x r]; [contradiction|]. rewrite Hd. cbv zeta. rewrite <- Hv.
    destruct Hr as [Hlo Hhi]. apply Z.leb_le in Hlo, Hhi. rewrite Hlo, Hhi. reflexivity.
Qed.
Print Assumptions atoi_some_iff.

Module AtoiExamples.
Import String.
Local Open Scope string_scope.

Example atoi_examples :
  atoi (b "1") = Some 1%Z /\ atoi (b "+2") = Some 2%Z /\ atoi (b "02") = Some 2%Z /\
  atoi (b "-1") = Some (-1)%Z /\ atoi (b " 1") = None /\ atoi (b "1 ") = None /\
  atoi (b "foo") = None /\ atoi (b "") = None /\ atoi (b "99999999999999999999") = None /\
  atoi (b "9223372036854775807") = Some int64_max /\ atoi (b "9223372036854775808") = None /\
  atoi (b "-9223372036854775808") = Some int64_min /\ atoi (b "-") = None /\ atoi (b "+-1") = None.
Proof. vm_compute. repeat split. Qed.
End AtoiExamples.

(* ---------- first_index ---------- *)

Lemma first_index_gen : forall name l i0 i, first_index name l i0 = Some i ->
  (i0 <= i)%nat /\ nth (i - i0) l [] = name /\ (i - i0 < length l)%nat /\
  forall j, (j < i - i0)%nat -> nth j l [] <> name.
Proof.
  induction l as [|x r IH]; intros i0 i H; simpl in H; [discriminate|].
  destruct (bytes_eqb x name) eqn:E.
  - inversion H; subst i. apply bytes_eqb_eq in E. rewrite Nat.sub_diag. simpl.
    repeat split; try lia. exact E.
  - apply bytes_eqb_neq in E. destruct (IH (S i0) i H) as [Hle [Hn [Hlt Hf]]].
    assert (Hi : (i - i0 = S (i - S i0))%nat) by lia. rewrite Hi. simpl.
    repeat split; try lia; [exact Hn|].
    intros j Hj. destruct j as [|j]; [exact E|]. apply Hf. lia.
Qed.

Theorem first_index_is_first : forall name l i, first_index name l 0 = Some i ->
  nth i l [] = name /\ (i < length l)%nat /\ forall j, (j < i)%nat -> nth j l [] <> name.
Proof.
  intros name l i H. apply first_index_gen in H. rewrite Nat.sub_0_r in H. tauto.
Qed.
Print Assumptions first_index_is_first.

Lemma first_index_none : forall name l i0, first_index name l i0 = None <-> ~ In name l.
Proof.
  induction l as [|x r IH]; intro i0; simpl.
  - split; [intros _ []|reflexivity].
  - destruct (bytes_eqb x name) eqn:E.
    + apply bytes_eqb_eq in E. split; [discriminate|]. intro Hn. exfalso. apply Hn. left. exact E.
    + apply bytes_eqb_neq in E. rewrite IH. split; intro Hn; [intros [Hx|Hi]|]; tauto.
Qed.

(* ---------- the selected descriptor ---------- *)

Theorem activation_fd_spec : forall e fd, activation_fd e = Some fd <->
  exists pid n, atoi (getenv (e_listen_pid e)) = Some pid /\ pid = e_pid e /\
    atoi (getenv (e_listen_fds e)) = Some n /\ (1 <= n)%Z /\
    ((n = 1 /\ fd = 3)%Z \/
     ((1 < n)%Z /\ exists names i, e_fdnames e = Some names /\
        Z.of_nat (length (split_all 58 names)) = n /\
        first_index s_varlink (split_all 58 names) 0 = Some i /\ fd = (3 + Z.of_nat i)%Z)).
Proof.
  intros e fd. unfold activation_fd. split.
  - intro H.
    destruct (atoi (getenv (e_listen_pid e))) as [pid|]; [|discriminate].
    destruct (pid =? e_pid e)%Z eqn:Ep; [|discriminate]. cbn [negb] in H.
    apply Z.eqb_eq in Ep.
    destruct (atoi (getenv (e_listen_fds e))) as [n|]; [|discriminate].
    destruct (n <? 1)%Z eqn:E1; [discriminate|]. apply Z.ltb_ge in E1.
    exists pid, n. repeat split; try assumption.
    destruct (1 <? n)%Z eqn:E2.
    + apply Z.ltb_lt in E2. right. split; [exact E2|].
      destruct (e_fdnames e) as [names|]; [|discriminate].
      destruct (Z.of_nat (length (split_all 58%N names)) =? n)%Z eqn:El; [|discriminate].
      cbn [negb] in H. apply Z.eqb_eq in El.
      destruct (first_index s_varlink (split_all 58 names) 0) as [i|] eqn:Ei; [|discriminate].
      inversion H; subst fd. exists names, i. repeat split; assumption.
    + apply Z.ltb_ge in E2. inversion H; subst fd. left. lia.
  - intros [pid [n [Hp [Hpe [Hn [H1 Hc]]]]]]. rewrite Hp, Hn.
    assert (Ep : (pid =? e_pid e)%Z = true) by (apply Z.eqb_eq; exact Hpe).
    assert (E1 : (n <? 1)%Z = false) by (apply Z.ltb_ge; lia).
    rewrite Ep, E1. cbn [negb].
    destruct Hc as [[Hn1 Hfd]|[Hgt [names [i [Hnm [Hlen [Hi Hfd]]]]]]].
    + assert (E2 : (1 <? n)%Z = false) by (apply Z.ltb_ge; lia). rewrite E2. congruence.
    + assert (E2 : (1 <? n)%Z = true) by (apply Z.ltb_lt; lia). rewrite E2, Hnm. cbv zeta.
      assert (El : (Z.of_nat (length (split_all 58%N names)) =? n)%Z = true)
        by (apply Z.eqb_eq; exact Hlen).
      rewrite El, Hi. cbn [negb]. congruence.
Qed.
Print Assumptions activation_fd_spec.

Theorem activation_fd_range : forall e fd, activation_fd e = Some fd ->
  exists n, atoi (getenv (e_listen_fds e)) = Some n /\ (3 <= fd < 3 + n)%Z.
Proof.
  intros e fd H. apply activation_fd_spec in H.
  destruct H as [pid [n [_ [_ [Hn [H1 Hc]]]]]]. exists n. split; [exact Hn|].
  destruct Hc as [[Hn1 Hfd]|[Hgt [names [i [_ [Hlen [Hi Hfd]]]]]]]; [lia|].
  apply first_index_is_first in Hi. destruct Hi as [_ [Hlt _]]. lia.
Qed.
Print Assumptions activation_fd_range.

Theorem fallback_otherwise : forall e is_socket,
  (activation_fd e = None \/ (exists fd, activation_fd e = Some fd /\ is_socket fd = false)) ->
  choose_listener e is_socket = LBindAddress.
Proof.
  intros e is_socket [Hn|[fd [Hs Hf]]]; unfold choose_listener.
  - rewrite Hn. reflexivity.
  - rewrite Hs, Hf. reflexivity.
Qed.
Print Assumptions fallback_otherwise.

Theorem inherited_when_selected : forall e is_socket fd,
  activation_fd e = Some fd -> is_socket fd = true -> choose_listener e is_socket = LInherited fd.
Proof.
  intros e is_socket fd Hs Ht. unfold choose_listener. rewrite Hs, Ht. reflexivity.
Qed.
Print Assumptions inherited_when_selected.

(* the two theorems above are exhaustive *)
Theorem choose_listener_cases : forall e is_socket,
  (exists fd, activation_fd e = Some fd /\ is_socket fd = true /\
              choose_listener e is_socket = LInherited fd) \/
  choose_listener e is_socket = LBindAddress.
Proof.
  intros e is_socket. unfold choose_listener.
  destruct (activation_fd e) as [fd|]; [|right; reflexivity].
  destruct (is_socket fd) eqn:E; [left; exists fd; auto|right; reflexivity].
Qed.
Print Assumptions choose_listener_cases.

Theorem pid_mismatch_falls_back : forall e,
  (forall pid, atoi (getenv (e_listen_pid e)) = Some pid -> pid <> e_pid e) ->
  activation_fd e = None.
Proof.
  intros e H. unfold activation_fd.
  destruct (atoi (getenv (e_listen_pid e))) as [pid|]; [|reflexivity].
  specialize (H pid eq_refl). apply Z.eqb_neq in H. rewrite H. reflexivity.
Qed.
Print Assumptions pid_mismatch_falls_back.

Theorem nonpositive_count_falls_back : forall e n,
  atoi (getenv (e_listen_fds e)) = Some n -> (n < 1)%Z -> activation_fd e = None.
Proof.
  intros e n Hn Hlt. unfold activation_fd.
  destruct (atoi (getenv (e_listen_pid e))) as [pid|]; [|reflexivity].
  destruct (negb (pid =? e_pid e)%Z); [reflexivity|].
  rewrite Hn. apply Z.ltb_lt in Hlt. rewrite Hlt. reflexivity.
Qed.
Print Assumptions nonpositive_count_falls_back.

Theorem unset_is_empty : getenv None = [] /\ atoi (getenv None) = None.
Proof. split; reflexivity. Qed.
Print Assumptions unset_is_empty.

(* consequences: an unset LISTEN_PID or LISTEN_FDS means no activation *)
Corollary unset_pid_falls_back : forall e, e_listen_pid e = None -> activation_fd e = None.
Proof.
  intros e H. apply pid_mismatch_falls_back. intros pid Hp. rewrite H in Hp. discriminate.
Qed.
Corollary unset_fds_falls_back : forall e, e_listen_fds e = None -> activation_fd e = None.
Proof.
  intros e H. destruct (activation_fd e) as [fd|] eqn:E; [|reflexivity].
  apply activation_fd_range in E. destruct E as [n [Hn _]]. rewrite H in Hn. discriminate.
Qed.
Print Assumptions unset_pid_falls_back.
Print Assumptions unset_fds_falls_back.

(* ---------- examples ---------- *)
Module ActExamples.
Import String.
Local Open Scope string_scope.

Definition env_of (pid : Z) (lpid lfds names : option string) : env :=
  mkEnv pid (option_map b lpid) (option_map b lfds) (option_map b names).

(* LISTEN_FDS=3, LISTEN_FDNAMES="a:varlink:varlink" selects fd 4 (the FIRST "varlink") *)
Example act_three_named :
  activation_fd (env_of 77 (Some "77") (Some "3") (Some "a:varlink:varlink")) = Some 4%Z.
Proof. vm_compute. reflexivity. Qed.

Example act_three_named_choice :
  choose_listener (env_of 77 (Some "77") (Some "3") (Some "a:varlink:varlink")) (fun _ => true)
    = LInherited 4%Z /\
  choose_listener (env_of 77 (Some "77") (Some "3") (Some "a:varlink:varlink")) (fun _ => false)
    = LBindAddress.
Proof. vm_compute. split; reflexivity. Qed.

Example act_more :
  (* a single descriptor needs no names *)
  activation_fd (env_of 77 (Some "77") (Some "1") None) = Some 3%Z /\
  (* foreign pid, unset pid, zero / negative / non-numeric count *)
  activation_fd (env_of 77 (Some "78") (Some "1") None) = None /\
  activation_fd (env_of 77 None (Some "1") None) = None /\
  activation_fd (env_of 77 (Some "77") (Some "0") None) = None /\
  activation_fd (env_of 77 (Some "77") (Some "-2") None) = None /\
  activation_fd (env_of 77 (Some "77") (Some "x") None) = None /\
  activation_fd (env_of 77 (Some "77") None None) = None /\
  (* several descriptors: names required, count must match, "varlink" must occur *)
  activation_fd (env_of 77 (Some "77") (Some "2") None) = None /\
  activation_fd (env_of 77 (Some "77") (Some "2") (Some "a:varlink:varlink")) = None /\
  activation_fd (env_of 77 (Some "77") (Some "2") (Some "a:b")) = None /\
  activation_fd (env_of 77 (Some "77") (Some "2") (Some "varlink:b")) = Some 3%Z /\
  activation_fd (env_of 77 (Some "77") (Some "3") (Some "::varlink")) = Some 5%Z.
Proof. vm_compute. repeat split. Qed.
End ActExamples.
