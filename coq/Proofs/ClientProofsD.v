(* Proofs/ClientProofsD.v — registry and introspection (C13): RegisterInterface,
   the names list, GetInfo / GetInterfaceDescription and the client helpers. *)
From VL Require Import Bytes Lit Json Wire Service Client
  JsonRoundTripA JsonRoundTripB JsonRoundTripD ServiceProofsC ClientProofsA ClientProofsC.
Open Scope N_scope.

(* ================= registry operations ================= *)

Inductive regop := ORegister (name descr : bytes) | OListen | OShutdown.

Definition apply_regop (reg : registry) (o : regop) : registry :=
  match o with
  | ORegister n d => fst (register reg n d)
  | OListen => set_running reg true
  | OShutdown => set_running reg false
  end.

Definition reg_inv (reg : registry) : Prop :=
  NoDup (r_names reg) /\ map fst (r_descr reg) = r_names reg /\
  hd_error (r_names reg) = Some org_varlink_service.

Lemma registered_iff : forall reg n, registered reg n = true <-> In n (r_names reg).
Proof. intros reg n. unfold registered. apply existsb_bytes_in. Qed.

Lemma registered_false : forall reg n, registered reg n = false <-> ~ In n (r_names reg).
Proof.
  intros reg n. rewrite <- registered_iff. destruct (registered reg n); split; intro H; congruence.
Qed.

Theorem register_refused_iff : forall reg n d,
  snd (register reg n d) = true <-> (In n (r_names reg) \/ r_running reg = true).
Proof.
  intros reg n d. unfold register. destruct (registered reg n) eqn:E.
  - cbn [snd]. split; [intros _; left; apply registered_iff; exact E|reflexivity].
  - apply registered_false in E. destruct (r_running reg); cbn [snd].
    + split; [intros _; right; reflexivity|reflexivity].
    + split; [discriminate|]. intros [H|H]; [contradiction|discriminate].
Qed.
Print Assumptions register_refused_iff.

Theorem register_refused_is_noop : forall reg n d,
  snd (register reg n d) = true -> fst (register reg n d) = reg.
Proof.
  intros reg n d. unfold register. destruct (registered reg n); [reflexivity|].
  destruct (r_running reg); [reflexivity|]. discriminate.
Qed.
Print Assumptions register_refused_is_noop.

Theorem register_accepted_appends : forall reg n d, snd (register reg n d) = false ->
  r_names (fst (register reg n d)) = r_names reg ++ [n] /\
  r_descr (fst (register reg n d)) = r_descr reg ++ [(n, d)] /\
  r_vendor (fst (register reg n d)) = r_vendor reg /\
  r_product (fst (register reg n d)) = r_product reg /\
  r_version (fst (register reg n d)) = r_version reg /\
  r_url (fst (register reg n d)) = r_url reg /\
  r_running (fst (register reg n d)) = r_running reg.
Proof.
  intros reg n d. unfold register. destruct (registered reg n); [discriminate|].
  destruct (r_running reg); [discriminate|]. intros _. repeat split; reflexivity.
Qed.
Print Assumptions register_accepted_appends.

(* ================= the invariant ================= *)

Lemma NoDup_snoc : forall (A : Type) (l : list A) x, NoDup l -> ~ In x l -> NoDup (l ++ [x]).
Proof.
  induction l as [|y l IH]; intros x Hnd Hni; cbn [app].
  - constructor; [intros []|constructor].
  - inversion Hnd as [|? ? Hy Hl]; subst. constructor.
    + intro Hin. apply in_app_or in Hin. destruct Hin as [Hin|[->|[]]]; [contradiction|].
      apply Hni. left. reflexivity.
    + apply IH; [exact Hl|]. intro Hin. apply Hni. right. exact Hin.
Qed.

Theorem reg_inv_init : forall v p ver u d, reg_inv (new_service v p ver u d).
Proof.
  intros v p ver u d. unfold reg_inv, new_service. cbn [r_names r_descr map fst hd_error].
  split; [constructor; [intros []|constructor]|]. split; reflexivity.
Qed.
Print Assumptions reg_inv_init.

Theorem reg_inv_step : forall reg o, reg_inv reg -> reg_inv (apply_regop reg o).
Proof.
  intros reg o (Hnd & Hmap & Hhd). destruct o as [n d| |]; cbn [apply_regop];
    [|split; [exact Hnd|split; [exact Hmap|exact Hhd]]..].
  destruct (snd (register reg n d)) eqn:E.
  - rewrite (register_refused_is_noop reg n d E). split; [exact Hnd|split; [exact Hmap|exact Hhd]].
  - destruct (register_accepted_appends reg n d E) as (Hn & Hd & _).
    assert (Hni : ~ In n (r_names reg)).
    { intro Hin. assert (Ht : snd (register reg n d) = true) by (apply register_refused_iff; left; exact Hin).
      congruence. }
    unfold reg_inv. rewrite Hn, Hd. split; [apply NoDup_snoc; assumption|]. split.
    + rewrite map_app, Hmap. reflexivity.
    + destruct (r_names reg); [discriminate Hhd|exact Hhd].
Qed.
Print Assumptions reg_inv_step.

Theorem reg_inv_reachable : forall v p ver u d ops,
  reg_inv (fold_left apply_regop ops (new_service v p ver u d)).
Proof.
  intros v p ver u d ops. generalize (new_service v p ver u d) (reg_inv_init v p ver u d).
  induction ops as [|o ops IH]; intros reg Hinv; [exact Hinv|].
  cbn [fold_left]. apply IH. apply reg_inv_step. exact Hinv.
Qed.
Print Assumptions reg_inv_reachable.

(* ================= names = org.varlink.service, then the successful registrations in order ================= *)

(* replay of the refusal rule: a registration succeeds iff the name is new and the service is not running *)
Fixpoint successful_from (names : list bytes) (running : bool) (ops : list regop) : list bytes :=
  match ops with
  | [] => []
  | ORegister n _ :: r =>
    if existsb (bytes_eqb n) names || running then successful_from names running r
    else n :: successful_from (names ++ [n]) running r
  | OListen :: r => successful_from names true r
  | OShutdown :: r => successful_from names false r
  end.
Definition successful (ops : list regop) : list bytes := successful_from [org_varlink_service] false ops.

Lemma names_from : forall ops reg,
  r_names (fold_left apply_regop ops reg) = r_names reg ++ successful_from (r_names reg) (r_running reg) ops.
Proof.
  induction ops as [|o ops IH]; intro reg; [cbn; rewrite app_nil_r; reflexivity|].
  cbn [fold_left]. rewrite IH. destruct o as [n d| |]; cbn [apply_regop successful_from set_running r_names r_running];
    [|reflexivity..].
  unfold register. fold (registered reg n). destruct (registered reg n); cbn [orb fst]; [reflexivity|].
  destruct (r_running reg) eqn:Er; cbn [fst r_names r_running]; rewrite ?Er; [reflexivity|].
  rewrite <- app_assoc. reflexivity.
Qed.

Theorem names_are_successful_registrations : forall v p ver u d ops,
  r_names (fold_left apply_regop ops (new_service v p ver u d)) = org_varlink_service :: successful ops.
Proof. intros v p ver u d ops. rewrite names_from. reflexivity. Qed.
Print Assumptions names_are_successful_registrations.

(* every name listed was registered by some operation *)
Lemma successful_from_in : forall ops names running n,
  In n (successful_from names running ops) -> exists d, In (ORegister n d) ops.
Proof.
  induction ops as [|o ops IH]; intros names running n H; [destruct H|].
  destruct o as [m d| |]; cbn [successful_from] in H.
  - destruct (existsb (bytes_eqb m) names || running).
    + destruct (IH _ _ _ H) as [d' Hd]. exists d'. right. exact Hd.
    + destruct H as [->|H]; [exists d; left; reflexivity|].
      destruct (IH _ _ _ H) as [d' Hd]. exists d'. right. exact Hd.
  - destruct (IH _ _ _ H) as [d' Hd]. exists d'. right. exact Hd.
  - destruct (IH _ _ _ H) as [d' Hd]. exists d'. right. exact Hd.
Qed.

Theorem listed_names_were_registered : forall v p ver u d ops n,
  In n (r_names (fold_left apply_regop ops (new_service v p ver u d))) ->
  n = org_varlink_service \/ exists d', In (ORegister n d') ops.
Proof.
  intros v p ver u d ops n. rewrite names_are_successful_registrations. intros [<-|H]; [left; reflexivity|].
  right. exact (successful_from_in _ _ _ _ H).
Qed.
Print Assumptions listed_names_were_registered.

(* ================= descriptions ================= *)

Lemma lookup_in_keys : forall n m, (exists d, lookup n m = Some d) <-> In n (map fst m).
Proof.
  intros n m. induction m as [|[k v] m IH]; cbn [lookup map fst In].
  - split; [intros [d H]; discriminate|intros []].
  - destruct (bytes_eqb n k) eqn:E.
    + apply bytes_eqb_eq in E. subst k. split; [intros _; left; reflexivity|intros _; exists v; reflexivity].
    + apply bytes_eqb_neq in E. rewrite IH. split; [intro H; right; exact H|].
      intros [H|H]; [congruence|exact H].
Qed.

Theorem lookup_registered : forall reg n, reg_inv reg ->
  (In n (r_names reg) <-> exists d, lookup n (r_descr reg) = Some d).
Proof. intros reg n (_ & Hmap & _). rewrite lookup_in_keys, Hmap. reflexivity. Qed.
Print Assumptions lookup_registered.

Lemma lookup_app_notin : forall n m m', ~ In n (map fst m) -> lookup n (m ++ m') = lookup n m'.
Proof.
  intros n m m'. induction m as [|[k v] m IH]; intro H; [reflexivity|]. cbn [app lookup].
  cbn [map fst In] in H. destruct (bytes_eqb n k) eqn:E.
  - apply bytes_eqb_eq in E. subst k. exfalso. apply H. left. reflexivity.
  - apply IH. intro Hin. apply H. right. exact Hin.
Qed.

Lemma lookup_app_in : forall n m m' d, lookup n m = Some d -> lookup n (m ++ m') = Some d.
Proof.
  intros n m m' d. induction m as [|[k v] m IH]; [discriminate|]. cbn [app lookup].
  destruct (bytes_eqb n k); [intro H; exact H|exact IH].
Qed.

(* an accepted registration makes exactly that description retrievable, and changes no other *)
Theorem register_accepted_lookup : forall reg n d, reg_inv reg -> snd (register reg n d) = false ->
  lookup n (r_descr (fst (register reg n d))) = Some d /\
  forall n', n' <> n -> lookup n' (r_descr (fst (register reg n d))) = lookup n' (r_descr reg).
Proof.
  intros reg n d (_ & Hmap & _) E. destruct (register_accepted_appends reg n d E) as (_ & -> & _).
  assert (Hni : ~ In n (r_names reg)).
  { intro Hin. assert (Ht : snd (register reg n d) = true) by (apply register_refused_iff; left; exact Hin).
    congruence. }
  split.
  - rewrite lookup_app_notin by (rewrite Hmap; exact Hni). cbn [lookup]. rewrite bytes_eqb_refl. reflexivity.
  - intros n' Hne. destruct (lookup n' (r_descr reg)) as [d'|] eqn:El.
    + apply lookup_app_in. exact El.
    + rewrite lookup_app_notin.
      * cbn [lookup]. apply bytes_eqb_neq in Hne. rewrite Hne. reflexivity.
      * intro Hin. apply lookup_in_keys in Hin. destruct Hin as [d' Hd]. congruence.
Qed.
Print Assumptions register_accepted_lookup.

(* ================= the built-in methods ================= *)

Theorem get_info_reply : forall reg c, builtin reg c m_GetInfo = BReply (info_params reg).
Proof. intros reg c. reflexivity. Qed.
Print Assumptions get_info_reply.

Lemma s_interface_utf8 : utf8_valid s_interface = true.
Proof. vm_compute. reflexivity. Qed.

(* parameters = {"interface": name} as the client helper sends them *)
Theorem get_description_reply : forall reg c name, utf8_valid name = true ->
  c_params c = Some ([123] ++ member s_interface (encode_string name) ++ [125]) ->
  builtin reg c m_GetInterfaceDescription =
    match name with
    | [] => BStd EInvalidParameter s_interface
    | _ => match lookup name (r_descr reg) with
           | Some d => BReply (descr_params d)
           | None => BStd EInvalidParameter s_interface
           end
    end.
Proof.
  intros reg c name Hu Hp. unfold builtin.
  change (bytes_eqb m_GetInterfaceDescription m_GetInfo) with false.
  change (bytes_eqb m_GetInterfaceDescription m_GetInterfaceDescription) with true.
  cbv iota. rewrite Hp. unfold iface_schema.
  rewrite (obj1_decode s_interface name s_interface_utf8 Hu). reflexivity.
Qed.
Print Assumptions get_description_reply.

(* with the invariant: a registered name gets its description, anything else InvalidParameter("interface") *)
Corollary get_description_registered_iff : forall reg c name, reg_inv reg -> utf8_valid name = true ->
  c_params c = Some ([123] ++ member s_interface (encode_string name) ++ [125]) ->
  ((exists d, builtin reg c m_GetInterfaceDescription = BReply (descr_params d) /\ lookup name (r_descr reg) = Some d)
   <-> (name <> [] /\ In name (r_names reg))) /\
  (builtin reg c m_GetInterfaceDescription = BStd EInvalidParameter s_interface
   <-> (name = [] \/ ~ In name (r_names reg))).
Proof.
  intros reg c name Hinv Hu Hp. rewrite (get_description_reply reg c name Hu Hp).
  pose proof (lookup_registered reg name Hinv) as Hl.
  destruct name as [|n0 name].
  - split; split.
    + intros [d [H _]]; discriminate.
    + intros [H _]. congruence.
    + intros _. left. reflexivity.
    + reflexivity.
  - destruct (lookup (n0 :: name) (r_descr reg)) as [d|] eqn:El; split; split.
    + intros _. split; [discriminate|]. apply Hl. exists d. reflexivity.
    + intros _. exists d. split; reflexivity.
    + discriminate.
    + intros [H|H]; [discriminate|]. exfalso. apply H. apply Hl. exists d. reflexivity.
    + intros [d [H _]]; discriminate.
    + intros [_ H]. apply Hl in H. destruct H as [d H]. discriminate.
    + intros _. right. intro H. apply Hl in H. destruct H as [d H]. discriminate.
    + reflexivity.
Qed.
Print Assumptions get_description_registered_iff.

(* ================= the client helpers ================= *)

Lemma decode_struct_full_of : forall sch data vals,
  decode_struct sch data = Some vals -> decode_struct_full sch data = Some (vals, false).
Proof.
  intros sch data vals. unfold decode_struct.
  destruct (decode_struct_full sch data) as [[vs [|]]|]; try discriminate.
  intro H. injection H as <-. reflexivity.
Qed.

Lemma s_description_utf8 : utf8_valid s_description = true.
Proof. vm_compute. reflexivity. Qed.

(* the description comes back field for field (an empty description travels as an omitted member) *)
Theorem client_get_description_roundtrip : forall d, utf8_valid d = true ->
  fill descr_schema (Some (descr_params d)) = [FString d].
Proof.
  intros d Hu. unfold fill, descr_params, descr_schema. destruct d as [|d0 d]; [vm_compute; reflexivity|].
  cbn [opt_member]. rewrite join_one.
  rewrite (decode_struct_full_of _ _ _ (obj1_decode s_description (d0 :: d) s_description_utf8 Hu)).
  reflexivity.
Qed.
Print Assumptions client_get_description_roundtrip.

(* the reply the service frames for GetInterfaceDescription decodes on the client to that description *)
Theorem get_description_end_to_end : forall d, utf8_valid d = true ->
  decode_struct reply_schema (encode_reply (Some (descr_params d)) false [])
    = Some [FRaw (Some (descr_params d)); FBool false; FString []]
  /\ helper_of descr_schema (RvReply (Some (descr_params d)) false) = HOk [FString d].
Proof.
  intros d Hu. split.
  - apply decode_encode_reply; [reflexivity|]. unfold descr_params. destruct d as [|d0 d].
    + change ([123] ++ join_members (opt_member s_description []) ++ [125]) with (encode_value (JObj [])).
      apply raw_ok_encode; [reflexivity|discriminate|vm_compute; discriminate].
    + cbn [opt_member]. rewrite join_one. apply obj1_raw_ok; [apply s_description_utf8|exact Hu].
  - cbn [helper_of]. rewrite (client_get_description_roundtrip d Hu). reflexivity.
Qed.
Print Assumptions get_description_end_to_end.

(* ================= GetInfo: string lists ================= *)

Lemma enc_strlist_value : forall ns, enc_strlist ns = encode_value (JArr (map JStr ns)).
Proof.
  intro ns. rewrite encode_arr. unfold enc_strlist. f_equal. f_equal.
  induction ns as [|x r IH]; [reflexivity|]. destruct r as [|y r]; [reflexivity|].
  cbn [map] in IH |- *. rewrite join_more, enc_list_more, IH. reflexivity.
Qed.

Lemma strlist_wf : forall ns, forallb utf8_valid ns = true -> wf_value (JArr (map JStr ns)) = true.
Proof.
  intros ns H. cbn [wf_value]. induction ns as [|x r IH]; [reflexivity|].
  cbn [forallb map] in H |- *. apply andb_true_iff in H. destruct H as [Hx Hr].
  cbn [wf_value]. rewrite Hx, (IH Hr). reflexivity.
Qed.

Lemma strlist_depth : forall ns, depth (JArr (map JStr ns)) = 1.
Proof.
  intro ns. cbn [depth]. induction ns as [|x r IH]; [reflexivity|].
  cbn [map fold_right depth]. rewrite N.max_0_l. exact IH.
Qed.

Definition it_strlist (key : bytes) (ns : list bytes) : item :=
  (key, enc_strlist ns, fun v => to_jvalue v = JArr (map JStr ns)).

Lemma txt_ok_strlist : forall ns, forallb utf8_valid ns = true ->
  txt_ok (enc_strlist ns) (fun v => to_jvalue v = JArr (map JStr ns)).
Proof.
  intros ns H. unfold txt_ok. split; [exists 91; eexists; split; reflexivity|].
  intros k f Hk Hf. rewrite enc_strlist_value in Hf |- *.
  destruct (scan_encode (JArr (map JStr ns)) k 1 f (strlist_wf ns H) Hk) as [x [Hs Hx]];
    [rewrite strlist_depth; vm_compute; discriminate|exact Hf|].
  exists x. split; [exact Hx|exact Hs].
Qed.

Lemma strlist_elems : forall l ns, map to_jvalue l = map JStr ns ->
  map (fun e => match e with VStr raw => (unquote raw, false) | VNull => ([], false) | _ => ([], true) end) l
  = map (fun s => (s, false)) ns.
Proof.
  induction l as [|e l IH]; intros [|s ns] H; try discriminate; [reflexivity|].
  cbn [map] in H |- *. injection H as He Hl. rewrite (IH ns Hl).
  destruct e; try discriminate He. cbn [to_jvalue] in He. injection He as <-. reflexivity.
Qed.

Lemma existsb_snd_false : forall (A : Type) (ns : list A),
  existsb snd (map (fun s => (s, false)) ns) = false.
Proof. induction ns as [|x ns IH]; [reflexivity|]. cbn [map existsb snd orb]. exact IH. Qed.

Lemma dm_strlist : forall sch rk v s0 s1 r cur err key i ns,
  unquote rk = key -> find_field key sch = Some (i, KStrList) ->
  to_jvalue v = JArr (map JStr ns) ->
  decode_members sch ((rk, v, s0, s1) :: r) cur err =
  decode_members sch r (set_nth i (FStrList (Some ns)) cur) err.
Proof.
  intros sch rk v s0 s1 r cur err key i ns Hu Hf Hv. cbn [decode_members]. rewrite Hu, Hf.
  destruct v as [| | | |l|]; try discriminate Hv. cbn [to_jvalue] in Hv. injection Hv as Hl.
  cbn [decode_field]. rewrite (strlist_elems l ns Hl).
  rewrite map_map. cbn [fst]. rewrite map_id.
  cbv beta iota. rewrite existsb_snd_false, orb_false_r. reflexivity.
Qed.

Definition opt_item (key s : bytes) : list item :=
  match s with [] => [] | _ => [it_string key s] end.

Definition info_items (v p ver u : bytes) (ns : list bytes) : list item :=
  opt_item s_vendor v ++ opt_item s_product p ++ opt_item s_version ver ++ opt_item s_url u
  ++ (match ns with [] => [] | _ => [it_strlist s_interfaces ns] end).

Lemma info_params_items : forall v p ver u ns ds run,
  info_params (mkReg v p ver u ns ds run)
  = [123] ++ join_members (map item_txt (info_items v p ver u ns)) ++ [125].
Proof. intros [|? ?] [|? ?] [|? ?] [|? ?] [|? ?] ds run; reflexivity. Qed.

Lemma opt_item_ok : forall key s, Forall item_ok (opt_item key s).
Proof. intros key [|c s]; constructor; [apply txt_ok_string|constructor]. Qed.

Lemma info_items_ok : forall v p ver u ns, forallb utf8_valid ns = true ->
  Forall item_ok (info_items v p ver u ns).
Proof.
  intros v p ver u ns H. unfold info_items.
  apply Forall_app; split; [apply opt_item_ok|].
  apply Forall_app; split; [apply opt_item_ok|].
  apply Forall_app; split; [apply opt_item_ok|].
  apply Forall_app; split; [apply opt_item_ok|].
  destruct ns; constructor; [apply txt_ok_strlist; exact H|constructor].
Qed.

Ltac inv_recs_l :=
  repeat match goal with
  | H : Forall2 item_rec (_ :: _) _ |- _ =>
    let rc := fresh "rc" in let rs := fresh "rs" in let H1 := fresh "Hrc" in let H2 := fresh "Hrs" in
    inversion H as [|? rc ? rs H1 H2]; subst; clear H;
    destruct rc as [[[? ?] ?] ?]; cbn [item_rec it_string it_strlist] in H1;
    destruct H1 as [? [? ?]]; subst
  | H : Forall2 item_rec [] _ |- _ => inversion H; subst; clear H
  end.

Ltac dm_list_step :=
  match goal with
  | Hq : to_jvalue ?v = JArr (map JStr ?ns) |- context [decode_members ?sch ((?rk, ?v, ?s0, ?s1) :: ?r) ?cur ?err] =>
    rewrite (dm_strlist sch rk v s0 s1 r cur err s_interfaces 4%nat ns)
      by first [exact Hq | vm_compute; reflexivity]
  end.

Lemma info_fill : forall v p ver u ns ds run,
  utf8_valid v = true -> utf8_valid p = true -> utf8_valid ver = true -> utf8_valid u = true ->
  forallb utf8_valid ns = true -> ns <> [] ->
  fill info_schema (Some (info_params (mkReg v p ver u ns ds run)))
  = [FString v; FString p; FString ver; FString u; FStrList (Some ns)].
Proof.
  intros v p ver u ns ds run Hv Hp Hver Hu Hns Hne. unfold fill.
  rewrite info_params_items.
  destruct (jparse_items (info_items v p ver u ns)) as [recs [Hj HF]].
  { unfold info_items. destruct ns; [congruence|]. intro E. apply app_eq_nil in E. destruct E as [_ E].
    apply app_eq_nil in E. destruct E as [_ E]. apply app_eq_nil in E. destruct E as [_ E].
    apply app_eq_nil in E. destruct E as [_ E]. discriminate E. }
  { apply info_items_ok. exact Hns. }
  unfold decode_struct_full. rewrite Hj. clear Hj.
  destruct ns as [|n0 ns]; [congruence|].
  destruct v as [|v0 v], p as [|p0 p], ver as [|w0 ver], u as [|u0 u];
    cbn [info_items opt_item app] in HF; inv_recs_l; repeat first [dm_step | dm_list_step].
  all: cbn [decode_members map info_schema snd zero_of set_nth].
  all: rewrite ?unquote_enc_str by assumption.
  all: reflexivity.
Qed.

(* the client's GetInfo returns the registered identity strings and the names, field for field;
   r_names is non-empty by reg_inv; empty identity strings travel as omitted members and come back as [] *)
Theorem client_get_info_roundtrip : forall reg,
  utf8_valid (r_vendor reg) = true -> utf8_valid (r_product reg) = true ->
  utf8_valid (r_version reg) = true -> utf8_valid (r_url reg) = true ->
  forallb utf8_valid (r_names reg) = true -> r_names reg <> [] ->
  fill info_schema (Some (info_params reg))
  = [FString (r_vendor reg); FString (r_product reg); FString (r_version reg); FString (r_url reg);
     FStrList (Some (r_names reg))].
Proof. intros [v p ver u ns ds run]. cbn [r_vendor r_product r_version r_url r_names]. apply info_fill. Qed.
Print Assumptions client_get_info_roundtrip.

Corollary client_get_info_roundtrip_inv : forall reg, reg_inv reg ->
  utf8_valid (r_vendor reg) = true -> utf8_valid (r_product reg) = true ->
  utf8_valid (r_version reg) = true -> utf8_valid (r_url reg) = true ->
  forallb utf8_valid (r_names reg) = true ->
  helper_of info_schema (RvReply (Some (info_params reg)) false)
  = HOk [FString (r_vendor reg); FString (r_product reg); FString (r_version reg); FString (r_url reg);
         FStrList (Some (r_names reg))].
Proof.
  intros reg (_ & _ & Hhd) Hv Hp Hver Hu Hns. cbn [helper_of]. f_equal.
  apply client_get_info_roundtrip; try assumption. intro E. rewrite E in Hhd. discriminate Hhd.
Qed.
Print Assumptions client_get_info_roundtrip_inv.

(* ---- the GetInfo parameters as a value tree, hence raw_ok: they survive the reply frame byte for byte ---- *)

Definition opt_kv (key s : bytes) : list (bytes * jvalue) :=
  match s with [] => [] | _ => [(key, JStr s)] end.
Definition info_value (v p ver u : bytes) (ns : list bytes) : jvalue :=
  JObj (opt_kv s_vendor v ++ opt_kv s_product p ++ opt_kv s_version ver ++ opt_kv s_url u
        ++ [(s_interfaces, JArr (map JStr ns))]).

Lemma info_params_value : forall v p ver u ns ds run, ns <> [] ->
  info_params (mkReg v p ver u ns ds run) = encode_value (info_value v p ver u ns).
Proof.
  intros v p ver u ns ds run Hne. destruct ns as [|n0 ns]; [congruence|].
  unfold info_params, info_value. cbn [r_vendor r_product r_version r_url r_names].
  rewrite enc_strlist_value. generalize (JArr (map JStr (n0 :: ns))). intro arr.
  destruct v as [|v0 v], p as [|p0 p], ver as [|w0 ver], u as [|u0 u];
    cbn [opt_member app]; rewrite ?join_more, ?join_one; unfold member;
    cbn [opt_kv app]; rewrite encode_obj, ?enc_obj_more, ?enc_obj_one;
    cbn [encode_value]; repeat (progress (rewrite <- ?app_assoc; cbn [app])); reflexivity.
Qed.

Lemma opt_kv_wf : forall key s, utf8_valid key = true -> utf8_valid s = true ->
  forallb (fun kv => utf8_valid (fst kv) && wf_value (snd kv)) (opt_kv key s) = true.
Proof.
  intros key [|c s] Hk Hs; [reflexivity|]. cbn [opt_kv forallb fst snd wf_value]. rewrite Hk, Hs. reflexivity.
Qed.

Lemma info_value_wf : forall v p ver u ns,
  utf8_valid v = true -> utf8_valid p = true -> utf8_valid ver = true -> utf8_valid u = true ->
  forallb utf8_valid ns = true -> wf_value (info_value v p ver u ns) = true.
Proof.
  intros v p ver u ns Hv Hp Hver Hu Hns. unfold info_value. cbn [wf_value]. rewrite !forallb_app.
  rewrite !opt_kv_wf by first [assumption | vm_compute; reflexivity].
  cbn [forallb fst snd andb]. change (utf8_valid s_interfaces) with true. cbn [andb].
  rewrite (strlist_wf ns Hns). reflexivity.
Qed.

Lemma info_value_depth : forall v p ver u ns, depth (info_value v p ver u ns) + 1 <= max_depth.
Proof.
  intros v p ver u ns. unfold info_value. pose proof (strlist_depth ns) as Hd.
  set (arr := JArr (map JStr ns)) in *. clearbody arr.
  destruct v, p, ver, u; cbn [opt_kv app depth fold_right snd]; rewrite Hd; vm_compute; discriminate.
Qed.

Theorem info_params_raw_ok : forall reg,
  utf8_valid (r_vendor reg) = true -> utf8_valid (r_product reg) = true ->
  utf8_valid (r_version reg) = true -> utf8_valid (r_url reg) = true ->
  forallb utf8_valid (r_names reg) = true -> r_names reg <> [] ->
  raw_ok (info_params reg).
Proof.
  intros [v p ver u ns ds run]. cbn [r_vendor r_product r_version r_url r_names].
  intros Hv Hp Hver Hu Hns Hne. rewrite (info_params_value v p ver u ns ds run Hne).
  apply raw_ok_encode; [apply info_value_wf; assumption|discriminate|apply info_value_depth].
Qed.
Print Assumptions info_params_raw_ok.

(* GetInfo end to end: the reply frame carries info_params verbatim and the helper returns the registry's fields *)
Theorem get_info_end_to_end : forall reg c, reg_inv reg ->
  utf8_valid (r_vendor reg) = true -> utf8_valid (r_product reg) = true ->
  utf8_valid (r_version reg) = true -> utf8_valid (r_url reg) = true ->
  forallb utf8_valid (r_names reg) = true ->
  exists params, builtin reg c m_GetInfo = BReply params /\
    decode_struct reply_schema (encode_reply (Some params) false [])
      = Some [FRaw (Some params); FBool false; FString []] /\
    helper_of info_schema (RvReply (Some params) false)
      = HOk [FString (r_vendor reg); FString (r_product reg); FString (r_version reg); FString (r_url reg);
             FStrList (Some (r_names reg))].
Proof.
  intros reg c Hinv Hv Hp Hver Hu Hns. exists (info_params reg). split; [apply get_info_reply|].
  assert (Hne : r_names reg <> []).
  { destruct Hinv as (_ & _ & Hhd). intro E. rewrite E in Hhd. discriminate Hhd. }
  split.
  - apply decode_encode_reply; [reflexivity|apply info_params_raw_ok; assumption].
  - apply client_get_info_roundtrip_inv; assumption.
Qed.
Print Assumptions get_info_end_to_end.

(* ================= examples ================= *)

Definition exD_a : bytes := [111; 114; 103; 46; 97].   (* org.a *)
Definition exD_b : bytes := [111; 114; 103; 46; 98].   (* org.b *)
Definition exD_init : registry := new_service [86] [] [49] [] [35; 115; 118; 99].   (* vendor "V", version "1" *)
Definition exD_ops : list regop :=
  [ORegister exD_a [35; 97]; ORegister exD_a [35; 120]; OListen; ORegister exD_b [35; 98]; OShutdown; ORegister exD_b [35; 98]].
Definition exD_reg : registry := fold_left apply_regop exD_ops exD_init.

(* the duplicate and the registration while running are refused; the one after shutdown succeeds *)
Example exD_names : r_names exD_reg = [org_varlink_service; exD_a; exD_b] /\ successful exD_ops = [exD_a; exD_b].
Proof. split; vm_compute; reflexivity. Qed.
Example exD_descr_first_wins : lookup exD_a (r_descr exD_reg) = Some [35; 97].
Proof. vm_compute. reflexivity. Qed.

Example exD_get_info :
  match builtin exD_reg (mkCall [] None false false false) m_GetInfo with
  | BReply p => helper_of info_schema (RvReply (Some p) false)
  | BStd _ _ => HErr RvDecodeErr
  end = HOk [FString [86]; FString []; FString [49]; FString []; FStrList (Some [org_varlink_service; exD_a; exD_b])].
Proof. vm_compute. reflexivity. Qed.

(* the request the client helper sends, decoded and answered by the service, decoded by the helper *)
Example exD_get_description :
  match get_descr_request exD_b with
  | SSent msg =>
    match decode_call (strip_last msg) with
    | Some c =>
      match route exD_reg (c_method c) with
      | RBuiltin m =>
        match builtin exD_reg c m with
        | BReply p => helper_of descr_schema (RvReply (Some p) false)
        | BStd k a => HErr (RvStdError k a)
        end
      | _ => HErr RvDecodeErr
      end
    | None => HErr RvDecodeErr
    end
  | _ => HErr RvDecodeErr
  end = HOk [FString [35; 98]].
Proof. vm_compute. reflexivity. Qed.

Example exD_get_description_unknown :
  builtin exD_reg (mkCall [] (Some ([123] ++ member s_interface (encode_string [120]) ++ [125])) false false false)
          m_GetInterfaceDescription = BStd EInvalidParameter s_interface.
Proof. vm_compute. reflexivity. Qed.

(* why r_names <> [] is needed in client_get_info_roundtrip: an empty list is omitted and comes back as nil *)
Example exD_empty_names_come_back_nil :
  fill info_schema (Some (info_params (mkReg [86] [] [] [] [] [] false)))
  = [FString [86]; FString []; FString []; FString []; FStrList None].
Proof. vm_compute. reflexivity. Qed.

(* why utf8_valid is needed: an invalid byte in the vendor string comes back as U+FFFD *)
Example exD_invalid_utf8_vendor :
  fill info_schema (Some (info_params (mkReg [255] [] [] [] [org_varlink_service] [] false)))
  = [FString [239; 191; 189]; FString []; FString []; FString []; FStrList (Some [org_varlink_service])].
Proof. vm_compute. reflexivity. Qed.
