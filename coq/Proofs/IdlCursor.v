(* Proofs/IdlCursor.v — shared lemmas about the cursor-faithful IDL parser
   model (Model/Idl.v): canonical good cursors, exact characterisation of
   next / backup / scan_while / slice on them, total specifications of the
   token-level readers (advance, read_span, read_field_name,
   read_interface_name), one-step unfolding equations of the fuelled
   fixpoints, and the elementary facts about strip.

   Nothing here changes the model; everything is proved, no axioms. *)
From VL Require Import Bytes Lit Idl.
From Coq Require Import Lia ZArith.
Open Scope N_scope.

(* ------------------------------------------------------------------ *)
(** * Pattern matches on byte numerals *)

(* [match x with 41 => a | _ => d end] is compiled to a tree of matches on the
   bits of x; the lemmas below turn it back into a boolean test. *)
Ltac bits p := destruct p as [p|p|]; try reflexivity.
Ltac split_byte x :=
  let p := fresh "p" in
  destruct x as [|p]; [reflexivity|];
  try reflexivity; bits p; bits p; bits p; bits p; bits p; bits p; bits p; bits p.

Lemma m40 : forall (A : Type) (a d : A) (x : N),
  match x with 40 => a | _ => d end = if x =? 40 then a else d.
Proof. intros A a d x. split_byte x. Qed.
Lemma m41 : forall (A : Type) (a d : A) (x : N),
  match x with 41 => a | _ => d end = if x =? 41 then a else d.
Proof. intros A a d x. split_byte x. Qed.
Lemma m45 : forall (A : Type) (a d : A) (x : N),
  match x with 45 => a | _ => d end = if x =? 45 then a else d.
Proof. intros A a d x. split_byte x. Qed.
Lemma m46 : forall (A : Type) (a d : A) (x : N),
  match x with 46 => a | _ => d end = if x =? 46 then a else d.
Proof. intros A a d x. split_byte x. Qed.
Lemma m58 : forall (A : Type) (a d : A) (x : N),
  match x with 58 => a | _ => d end = if x =? 58 then a else d.
Proof. intros A a d x. split_byte x. Qed.
Lemma m62 : forall (A : Type) (a d : A) (x : N),
  match x with 62 => a | _ => d end = if x =? 62 then a else d.
Proof. intros A a d x. split_byte x. Qed.
Lemma m93 : forall (A : Type) (a d : A) (x : N),
  match x with 93 => a | _ => d end = if x =? 93 then a else d.
Proof. intros A a d x. split_byte x. Qed.
Lemma m110 : forall (A : Type) (a d : A) (x : N),
  match x with 110 => a | _ => d end = if x =? 110 then a else d.
Proof. intros A a d x. split_byte x. Qed.
Lemma m120 : forall (A : Type) (a d : A) (x : N),
  match x with 120 => a | _ => d end = if x =? 120 then a else d.
Proof. intros A a d x. split_byte x. Qed.
Lemma m63_91 : forall (A : Type) (a b d : A) (x : N),
  match x with 63 => a | 91 => b | _ => d end
  = if x =? 63 then a else if x =? 91 then b else d.
Proof. intros A a b d x. split_byte x. Qed.
Lemma m44_41 : forall (A : Type) (a b d : A) (x : N),
  match x with 44 => a | 41 => b | _ => d end
  = if x =? 44 then a else if x =? 41 then b else d.
Proof. intros A a b d x. split_byte x. Qed.

(* ------------------------------------------------------------------ *)
(** * Canonical cursors *)

(* the invariant of the task statement *)
Definition good (c : cur) : Prop :=
  over c = 0%nat /\ pos c = N.of_nat (length (bef c)).

(* a good cursor is determined by its two halves *)
Definition gc (b r : bytes) : cur := mkCur b r (N.of_nat (length b)) 0.
(* the transient state after [next] at the end of the input *)
Definition oc (b : bytes) : cur := mkCur b [] (N.of_nat (length b) + 1) 1.

Lemma good_iff_gc : forall c, good c <-> c = gc (bef c) (rest c).
Proof.
  intros [b r p o]. unfold good, gc. cbn [over pos bef rest]. split.
  - intros [Ho Hp]. subst. reflexivity.
  - intro H. inversion H as [[Hp Ho]]. rewrite <- Hp. split; reflexivity.
Qed.

Lemma good_gc : forall b r, good (gc b r).
Proof. intros b r. split; reflexivity. Qed.

Lemma pos_gc : forall b r, pos (gc b r) = N.of_nat (length b).
Proof. reflexivity. Qed.
Lemma rest_gc : forall b r, rest (gc b r) = r.
Proof. reflexivity. Qed.
Lemma suffix_gc : forall b r, suffix (gc b r) = Some r.
Proof. reflexivity. Qed.
Lemma has_more_gc : forall b r,
  has_more (gc b r) = match r with [] => false | _ => true end.
Proof. reflexivity. Qed.

Lemma next_gc_cons : forall b x r, next (gc b (x :: r)) = (Some x, gc (x :: b) r).
Proof.
  intros b x r. unfold next, gc. cbn [rest bef pos over length].
  f_equal. f_equal. lia.
Qed.

Lemma next_gc_nil : forall b, next (gc b []) = (None, oc b).
Proof. reflexivity. Qed.

Lemma backup_gc_cons : forall b x r, backup (gc (x :: b) r) = gc b (x :: r).
Proof.
  intros b x r. unfold backup, gc. cbn [rest bef pos over length].
  f_equal. lia.
Qed.

Lemma backup_oc : forall b, backup (oc b) = gc b [].
Proof.
  intros b. unfold backup, oc, gc. cbn [rest bef pos over].
  f_equal. lia.
Qed.

(* on a good cursor, backup undoes next (the property the Go code relies on) *)
Lemma backup_next_good : forall c, good c -> backup (snd (next c)) = c.
Proof.
  intros c G. apply good_iff_gc in G. rewrite G.
  destruct (rest c) as [|x r].
  - rewrite next_gc_nil. apply backup_oc.
  - rewrite next_gc_cons. apply backup_gc_cons.
Qed.

(* ------------------------------------------------------------------ *)
(** * scan_while and slice *)

Lemma scan_while_S : forall p f c, scan_while p (S f) c =
  let (ch, c1) := next c in
  match ch with
  | Some x => if p x then scan_while p f c1 else Some (backup c1)
  | None => Some (backup c1)
  end.
Proof. reflexivity. Qed.

Lemma scan_while_gc : forall p fuel b r, (length r < fuel)%nat ->
  scan_while p fuel (gc b r)
  = Some (gc (rev (take_while p r) ++ b) (drop_while p r)).
Proof.
  intros p fuel. induction fuel as [|f IH]; intros b r Hl; [lia|].
  rewrite scan_while_S. destruct r as [|x r1].
  - rewrite next_gc_nil. cbv beta iota. rewrite backup_oc. reflexivity.
  - rewrite next_gc_cons. cbv beta iota. cbn [length] in Hl.
    cbn [take_while drop_while]. destruct (p x) eqn:Ep.
    + rewrite IH by lia. cbn [rev]. rewrite <- app_assoc. reflexivity.
    + rewrite backup_gc_cons. reflexivity.
Qed.

Lemma slice_gc : forall b w r,
  slice (N.of_nat (length b)) (gc (rev w ++ b) r) = Some w.
Proof.
  intros b w r. unfold slice, gc. cbn [over pos bef].
  destruct (N.leb_spec (N.of_nat (length b)) (N.of_nat (length (rev w ++ b)))) as [Hle|Hgt].
  - f_equal.
    replace (N.to_nat (N.of_nat (length (rev w ++ b)) - N.of_nat (length b)))
      with (length (rev w) + 0)%nat
      by (rewrite app_length; lia).
    rewrite firstn_app_2. cbn [firstn]. rewrite app_nil_r. apply rev_involutive.
  - rewrite app_length in Hgt. lia.
Qed.

(* ------------------------------------------------------------------ *)
(** * Result combinators *)

Definition post {A : Type} (r : res A) (Q : A -> pst -> Prop) : Prop :=
  match r with
  | ROk a s => Q a s
  | RNil => True
  | RPanic => False
  | RFuel => False
  end.

Lemma post_bind : forall (A B : Type) (r : res A) (k : A -> pst -> res B)
    (Q : A -> pst -> Prop) (Q' : B -> pst -> Prop),
  post r Q -> (forall a s, Q a s -> post (k a s) Q') -> post (bind r k) Q'.
Proof.
  intros A B r k Q Q' Hr Hk. destruct r as [a s| | |]; cbn [bind post] in *;
    [apply Hk; exact Hr|exact I|contradiction|contradiction].
Qed.

Lemma post_mono : forall (A : Type) (r : res A) (Q Q' : A -> pst -> Prop),
  post r Q -> (forall a s, Q a s -> Q' a s) -> post r Q'.
Proof.
  intros A r Q Q' Hr HQ. destruct r as [a s| | |]; cbn [post] in *;
    [apply HQ; exact Hr|exact I|contradiction|contradiction].
Qed.

Lemma post_and : forall (A : Type) (r : res A) (Q Q' : A -> pst -> Prop),
  post r Q -> post r Q' -> post r (fun a s => Q a s /\ Q' a s).
Proof.
  intros A r Q Q' H1 H2. destruct r as [a s| | |]; cbn [post] in *;
    [split; assumption|exact I|contradiction|contradiction].
Qed.

Lemma post_ok : forall (A : Type) (r : res A) (Q : A -> pst -> Prop) a s,
  post r Q -> r = ROk a s -> Q a s.
Proof. intros A r Q a s H E. rewrite E in H. exact H. Qed.

(* the shape of every state between two readers: a good cursor with at most
   n bytes left *)
Definition gq (n : nat) (s : pst) : Prop :=
  exists b r l, s = mkPst (gc b r) l /\ (length r <= n)%nat.

Lemma gq_intro : forall n b r l, (length r <= n)%nat -> gq n (mkPst (gc b r) l).
Proof. intros n b r l H. exists b, r, l. split; [reflexivity|exact H]. Qed.

Lemma gq_mono : forall n m s, gq n s -> (n <= m)%nat -> gq m s.
Proof.
  intros n m s (b & r & l & E & L) H. exists b, r, l. split; [exact E|lia].
Qed.

Lemma gq_good : forall n s, gq n s -> good (cu s).
Proof. intros n s (b & r & l & E & L). subst s. apply good_gc. Qed.

(* ------------------------------------------------------------------ *)
(** * strip *)

(* bytes that strip keeps when outside a comment *)
Definition tokch (x : N) : bool :=
  negb ((x =? HASH) || (x =? SP) || (x =? TAB) || (x =? CR) || (x =? LF)).
Definition clean (w : bytes) : Prop := forallb tokch w = true.

Lemma tokch_ge45 : forall x, 45 <= x -> tokch x = true.
Proof.
  intros x H. unfold tokch, HASH, SP, TAB, CR, LF.
  destruct (N.eqb_spec x 35); [lia|]. destruct (N.eqb_spec x 32); [lia|].
  destruct (N.eqb_spec x 9); [lia|]. destruct (N.eqb_spec x 13); [lia|].
  destruct (N.eqb_spec x 10); [lia|]. reflexivity.
Qed.

Lemma is_field_char_ge : forall x, is_field_char x = true -> 48 <= x.
Proof.
  intros x H. unfold is_field_char, is_alnum, is_alpha, is_lower, is_upper, is_digit in H.
  rewrite !orb_true_iff, !andb_true_iff, !N.leb_le, N.eqb_eq in H. lia.
Qed.

Lemma is_lower_field : forall x, is_lower x = true -> is_field_char x = true.
Proof.
  intros x H. unfold is_field_char, is_alnum, is_alpha. rewrite H. reflexivity.
Qed.
Lemma is_alnum_field : forall x, is_alnum x = true -> is_field_char x = true.
Proof. intros x H. unfold is_field_char. rewrite H. reflexivity. Qed.
Lemma is_alpha_field : forall x, is_alpha x = true -> is_field_char x = true.
Proof. intros x H. unfold is_field_char, is_alnum. rewrite H. reflexivity. Qed.
Lemma is_lowdig_field : forall x, is_lowdig x = true -> is_field_char x = true.
Proof.
  intros x H. unfold is_lowdig in H. unfold is_field_char, is_alnum, is_alpha.
  apply orb_true_iff in H. destruct H as [H|H]; rewrite H.
  - reflexivity.
  - rewrite !orb_true_r. reflexivity.
Qed.

Lemma tokch_field : forall x, is_field_char x = true -> tokch x = true.
Proof. intros x H. apply is_field_char_ge in H. apply tokch_ge45. lia. Qed.
Lemma tokch_lower : forall x, is_lower x = true -> tokch x = true.
Proof. intros x H. apply tokch_field, is_lower_field, H. Qed.
Lemma tokch_alnum : forall x, is_alnum x = true -> tokch x = true.
Proof. intros x H. apply tokch_field, is_alnum_field, H. Qed.
Lemma tokch_alpha : forall x, is_alpha x = true -> tokch x = true.
Proof. intros x H. apply tokch_field, is_alpha_field, H. Qed.
Lemma tokch_lowdig : forall x, is_lowdig x = true -> tokch x = true.
Proof. intros x H. apply tokch_field, is_lowdig_field, H. Qed.

Lemma clean_nil : clean [].
Proof. reflexivity. Qed.

Lemma clean_cons : forall x w, tokch x = true -> clean w -> clean (x :: w).
Proof. intros x w Hx Hw. unfold clean in *. cbn [forallb]. rewrite Hx, Hw. reflexivity. Qed.

Lemma clean_app : forall u v, clean u -> clean v -> clean (u ++ v).
Proof.
  intros u v Hu Hv. unfold clean in *. rewrite forallb_app, Hu, Hv. reflexivity.
Qed.

Lemma clean_take_while : forall p r,
  (forall c, p c = true -> tokch c = true) -> clean (take_while p r).
Proof.
  intros p r Hp. induction r as [|x r IH]; cbn [take_while]; [reflexivity|].
  destruct (p x) eqn:E; [|reflexivity]. apply clean_cons; [apply Hp, E|exact IH].
Qed.

Lemma strip_tokch : forall x r, tokch x = true -> strip (x :: r) = x :: strip r.
Proof.
  intros x r H. unfold tokch in H. apply negb_true_iff in H.
  rewrite !orb_false_iff in H. destruct H as ((((H1 & H2) & H3) & H4) & H5).
  unfold strip. cbn [strip_from]. rewrite H1, H2, H3, H4, H5. reflexivity.
Qed.

Lemma strip_clean_app : forall w r, clean w -> strip (w ++ r) = w ++ strip r.
Proof.
  induction w as [|x w IH]; intros r H; [reflexivity|].
  unfold clean in H. cbn [forallb] in H. apply andb_true_iff in H. destruct H as [Hx Hw].
  cbn [app]. rewrite strip_tokch by exact Hx. rewrite IH by exact Hw. reflexivity.
Qed.

Lemma strip_clean : forall w, clean w -> strip w = w.
Proof.
  intros w H. rewrite <- (app_nil_r w) at 1. rewrite strip_clean_app by exact H.
  cbn. apply app_nil_r.
Qed.

Lemma strip_from_clean : forall s inc, clean (strip_from inc s).
Proof.
  induction s as [|x s IH]; intros inc; [reflexivity|].
  cbn [strip_from]. destruct inc.
  - destruct (x =? LF); apply IH.
  - destruct (x =? HASH) eqn:E1; [apply IH|].
    destruct ((x =? SP) || (x =? TAB) || (x =? CR) || (x =? LF)) eqn:E2; [apply IH|].
    apply clean_cons; [|apply IH].
    unfold tokch. rewrite !orb_false_iff in E2. destruct E2 as (((E2 & E3) & E4) & E5).
    rewrite E1, E2, E3, E4, E5. reflexivity.
Qed.

Lemma strip_idem : forall s, strip (strip s) = strip s.
Proof. intro s. apply strip_clean. apply strip_from_clean. Qed.

Lemma strip_lf : forall x r, (x =? LF) = true -> strip (x :: r) = strip r.
Proof. intros x r H. apply N.eqb_eq in H. subst x. reflexivity. Qed.

Lemma strip_blank : forall x r,
  (x =? SP) || (x =? TAB) || (x =? CR) = true -> strip (x :: r) = strip r.
Proof.
  intros x r H. rewrite !orb_true_iff, !N.eqb_eq in H.
  destruct H as [[H|H]|H]; subst x; reflexivity.
Qed.

Lemma strip_hash : forall x r, (x =? HASH) = true -> strip (x :: r) = strip_from true r.
Proof. intros x r H. apply N.eqb_eq in H. subst x. reflexivity. Qed.

Lemma strip_comment_body : forall w r,
  forallb not_lf w = true -> strip_from true (w ++ r) = strip_from true r.
Proof.
  induction w as [|x w IH]; intros r H; [reflexivity|].
  cbn [forallb] in H. apply andb_true_iff in H. destruct H as [Hx Hw].
  cbn [app strip_from]. unfold not_lf in Hx. apply negb_true_iff in Hx. rewrite Hx.
  apply IH, Hw.
Qed.

(* ------------------------------------------------------------------ *)
(** * advance *)

Lemma advance_S : forall f s, advance (S f) s =
    let (ch, c1) := next (cu s) in
    match ch with
    | Some x =>
      if x =? LF then advance f (mkPst c1 [])
      else if (x =? SP) || (x =? TAB) || (x =? CR) then advance f (mkPst c1 (lc s))
      else if x =? HASH then
        let (ch2, c2) := next c1 in
        let c3 := match ch2 with
                  | Some y => if y =? SP then c2 else backup c2
                  | None => backup c2
                  end in
        let start := pos c3 in
        match scan_while not_lf (S f) c3 with
        | None => RFuel
        | Some c4 =>
          match slice start c4 with
          | None => RPanic
          | Some txt =>
            let c5 := if has_more c4 then snd (next c4) else c4 in
            advance f (mkPst c5 (lc_append (lc s) txt))
          end
        end
      else ROk tt (mkPst (backup c1) (lc s))
    | None => ROk tt (mkPst (backup c1) (lc s))
    end.
Proof. reflexivity. Qed.

(* the comment scanner: from just after '#' (and the optional blank) to just
   after the line end *)
Lemma comment_scan : forall fuel b3 r3, (length r3 < fuel)%nat ->
  exists c4 txt b5 r5,
    scan_while not_lf fuel (gc b3 r3) = Some c4
    /\ slice (N.of_nat (length b3)) c4 = Some txt
    /\ (if has_more c4 then snd (next c4) else c4) = gc b5 r5
    /\ (length r5 <= length r3)%nat
    /\ strip_from true r3 = strip r5.
Proof.
  intros fuel b3 r3 Hl.
  pose proof (take_drop_while not_lf r3) as Htd.
  pose proof (take_while_all not_lf r3) as Hall.
  pose proof (drop_while_length not_lf r3) as Hdl.
  destruct (drop_while not_lf r3) as [|z r4] eqn:Ed.
  - exists (gc (rev (take_while not_lf r3) ++ b3) []), (take_while not_lf r3),
      (rev (take_while not_lf r3) ++ b3), [].
    split; [rewrite scan_while_gc by exact Hl; rewrite Ed; reflexivity|].
    split; [apply slice_gc|]. split; [reflexivity|]. split; [cbn; lia|].
    rewrite <- Htd. rewrite strip_comment_body by exact Hall. reflexivity.
  - exists (gc (rev (take_while not_lf r3) ++ b3) (z :: r4)), (take_while not_lf r3),
      (z :: rev (take_while not_lf r3) ++ b3), r4.
    split; [rewrite scan_while_gc by exact Hl; rewrite Ed; reflexivity|].
    split; [apply slice_gc|].
    split; [rewrite has_more_gc, next_gc_cons; reflexivity|].
    split; [cbn [length] in Hdl; lia|].
    rewrite <- Htd. rewrite strip_comment_body by exact Hall.
    apply drop_while_head in Ed. unfold not_lf in Ed. apply negb_false_iff in Ed.
    cbn [strip_from]. rewrite Ed. reflexivity.
Qed.

Lemma advance_gc : forall fuel b r l, (length r < fuel)%nat ->
  exists b' r' l',
    advance fuel (mkPst (gc b r) l) = ROk tt (mkPst (gc b' r') l')
    /\ (length r' <= length r)%nat
    /\ strip r = strip r'.
Proof.
  induction fuel as [|f IH]; intros b r l Hl; [lia|].
  rewrite advance_S. cbn [cu lc].
  destruct r as [|x r1].
  - rewrite next_gc_nil. cbv beta iota. rewrite backup_oc.
    exists b, [], l. split; [reflexivity|]. split; [lia|reflexivity].
  - rewrite next_gc_cons. cbv beta iota. cbn [length] in Hl.
    destruct (x =? LF) eqn:ELF.
    { destruct (IH (x :: b) r1 [] ltac:(lia)) as (b' & r' & l' & E & L & St).
      exists b', r', l'. split; [exact E|]. split; [cbn [length]; lia|].
      rewrite strip_lf by exact ELF. exact St. }
    destruct ((x =? SP) || (x =? TAB) || (x =? CR)) eqn:EB.
    { destruct (IH (x :: b) r1 l ltac:(lia)) as (b' & r' & l' & E & L & St).
      exists b', r', l'. split; [exact E|]. split; [cbn [length]; lia|].
      rewrite strip_blank by exact EB. exact St. }
    destruct (x =? HASH) eqn:EH.
    { rewrite (strip_hash x r1 EH).
      assert (Htail : forall b3 r3, (length r3 <= length r1)%nat ->
                strip_from true r1 = strip_from true r3 ->
                exists b' r' l',
                  (let c3 := gc b3 r3 in
                   let start := pos c3 in
                   match scan_while not_lf (S f) c3 with
                   | None => RFuel
                   | Some c4 =>
                     match slice start c4 with
                     | None => RPanic
                     | Some txt =>
                       let c5 := if has_more c4 then snd (next c4) else c4 in
                       advance f (mkPst c5 (lc_append l txt))
                     end
                   end) = ROk tt (mkPst (gc b' r') l')
                  /\ (length r' <= length (x :: r1))%nat
                  /\ strip_from true r1 = strip r').
      { intros b3 r3 L3 S3. cbv zeta. rewrite pos_gc.
        destruct (comment_scan (S f) b3 r3 ltac:(lia))
          as (c4 & txt & b5 & r5 & E1 & E2 & E3 & L5 & S5).
        rewrite E1, E2, E3.
        destruct (IH b5 r5 (lc_append l txt) ltac:(lia)) as (b' & r' & l' & E & L & St).
        exists b', r', l'. split; [exact E|]. split; [cbn [length]; lia|].
        rewrite S3, S5. exact St. }
      destruct r1 as [|y r2].
      - rewrite next_gc_nil. cbv beta iota. rewrite backup_oc.
        apply Htail; [lia|reflexivity].
      - rewrite next_gc_cons. cbv beta iota.
        destruct (y =? SP) eqn:ESP.
        + apply Htail; [cbn [length]; lia|].
          cbn [strip_from]. apply N.eqb_eq in ESP. subst y. reflexivity.
        + rewrite backup_gc_cons. apply Htail; [lia|reflexivity]. }
    rewrite backup_gc_cons. exists b, (x :: r1), l.
    split; [reflexivity|]. split; [lia|reflexivity].
Qed.

(* ------------------------------------------------------------------ *)
(** * read_span, read_field_name *)

Lemma read_span_gc : forall p fuel b r l, (length r < fuel)%nat ->
  read_span p fuel (mkPst (gc b r) l)
  = ROk (take_while p r)
        (mkPst (gc (rev (take_while p r) ++ b) (drop_while p r)) l).
Proof.
  intros p fuel b r l Hl. unfold read_span. cbn [cu lc].
  rewrite scan_while_gc by exact Hl. rewrite pos_gc, slice_gc. reflexivity.
Qed.

(* common shape of the four word readers: the word is a prefix of the
   remaining input, the cursor moves exactly past it, and the word contains
   no layout byte *)
Definition word_result (r : res bytes) (b rr l : bytes) : Prop :=
  exists w r', r = ROk w (mkPst (gc (rev w ++ b) r') l)
    /\ rr = w ++ r' /\ clean w /\ length rr = (length w + length r')%nat.

Lemma read_span_ex : forall p fuel b r l,
  (forall c, p c = true -> tokch c = true) -> (length r < fuel)%nat ->
  word_result (read_span p fuel (mkPst (gc b r) l)) b r l.
Proof.
  intros p fuel b r l Hp Hl. exists (take_while p r), (drop_while p r).
  split; [apply read_span_gc; exact Hl|].
  split; [symmetry; apply take_drop_while|].
  split; [apply clean_take_while; exact Hp|].
  rewrite <- app_length, take_drop_while. reflexivity.
Qed.

Lemma read_keyword_ex : forall fuel b r l, (length r < fuel)%nat ->
  word_result (read_keyword fuel (mkPst (gc b r) l)) b r l.
Proof. intros. apply read_span_ex; [exact tokch_lower|assumption]. Qed.

Lemma read_type_name_ex : forall fuel b r l, (length r < fuel)%nat ->
  word_result (read_type_name fuel (mkPst (gc b r) l)) b r l.
Proof. intros. apply read_span_ex; [exact tokch_alnum|assumption]. Qed.

Lemma read_field_name_ex : forall fuel b r l, (length r < fuel)%nat ->
  word_result (read_field_name fuel (mkPst (gc b r) l)) b r l.
Proof.
  intros fuel b r l Hl. unfold read_field_name, word_result. cbn [cu lc].
  destruct r as [|x r1].
  - rewrite next_gc_nil. cbv beta iota zeta. rewrite backup_oc.
    exists [], []. split; [reflexivity|]. split; [reflexivity|]. split; reflexivity.
  - rewrite next_gc_cons. cbv beta iota zeta. cbn [length] in Hl.
    destruct (is_lower x) eqn:El.
    + rewrite scan_while_gc by lia. rewrite pos_gc.
      replace (rev (take_while is_field_char r1) ++ x :: b)
        with (rev (x :: take_while is_field_char r1) ++ b)
        by (cbn [rev]; rewrite <- app_assoc; reflexivity).
      rewrite slice_gc.
      exists (x :: take_while is_field_char r1), (drop_while is_field_char r1).
      split; [reflexivity|].
      split; [cbn [app]; f_equal; symmetry; apply take_drop_while|].
      split; [apply clean_cons; [apply tokch_lower, El|apply clean_take_while, tokch_field]|].
      cbn [length]. rewrite <- (take_drop_while is_field_char r1) at 1.
      rewrite app_length. reflexivity.
    + rewrite backup_gc_cons. exists [], (x :: r1).
      split; [reflexivity|]. split; [reflexivity|]. split; reflexivity.
Qed.

(* ------------------------------------------------------------------ *)
(** * read_interface_name *)

Lemma plus_spec : forall p s w r,
  (forall c, p c = true -> tokch c = true) ->
  plus p s = Some (w, r) -> s = w ++ r /\ clean w.
Proof.
  intros p s w r Hp H. unfold plus in H.
  pose proof (take_drop_while p s) as Htd. pose proof (clean_take_while p s Hp) as Hc.
  destruct (take_while p s) as [|a t]; [discriminate|].
  inversion H; subst. split; [symmetry; exact Htd|exact Hc].
Qed.

Lemma rx_dashes_spec : forall p, (forall c, p c = true -> tokch c = true) ->
  forall fuel s m r, rx_dashes p fuel s = (m, r) -> s = m ++ r /\ clean m.
Proof.
  intros p Hp. induction fuel as [|f IH]; intros s m r H.
  - cbn [rx_dashes] in H. inversion H; subst. split; reflexivity.
  - cbn [rx_dashes] in H. destruct s as [|x s1].
    { inversion H; subst. split; reflexivity. }
    rewrite m45 in H. destruct (N.eqb_spec x 45) as [->|Hne].
    + destruct (plus p s1) as [[w r']|] eqn:Ep.
      * destruct (rx_dashes p f r') as [m' r''] eqn:Er.
        inversion H; subst.
        apply plus_spec in Ep; [|exact Hp]. destruct Ep as [-> Cw].
        apply IH in Er. destruct Er as [-> Cm].
        split; [cbn [app]; rewrite <- app_assoc; reflexivity|].
        apply clean_cons; [reflexivity|]. apply clean_app; assumption.
      * inversion H; subst. split; reflexivity.
    + inversion H; subst. split; reflexivity.
Qed.

Lemma rx_dots_spec : forall p, (forall c, p c = true -> tokch c = true) ->
  forall fuel s m r, rx_dots p fuel s = (m, r) -> s = m ++ r /\ clean m.
Proof.
  intros p Hp. induction fuel as [|f IH]; intros s m r H.
  - cbn [rx_dots] in H. inversion H; subst. split; reflexivity.
  - cbn [rx_dots] in H. destruct s as [|x s1].
    { inversion H; subst. split; reflexivity. }
    rewrite m46 in H. destruct (N.eqb_spec x 46) as [->|Hne].
    + destruct (plus p s1) as [[w r']|] eqn:Ep.
      * destruct (rx_dashes p (S f) r') as [d r2] eqn:Ed.
        destruct (rx_dots p f r2) as [m' r3] eqn:Er.
        inversion H; subst.
        apply plus_spec in Ep; [|exact Hp]. destruct Ep as [-> Cw].
        apply rx_dashes_spec in Ed; [|exact Hp]. destruct Ed as [-> Cd].
        apply IH in Er. destruct Er as [-> Cm].
        split; [cbn [app]; rewrite <- !app_assoc; reflexivity|].
        apply clean_cons; [reflexivity|]. apply clean_app; [assumption|].
        apply clean_app; assumption.
      * inversion H; subst. split; reflexivity.
    + inversion H; subst. split; reflexivity.
Qed.

Lemma rx_name1_spec : forall s,
  exists r3, s = rx_name1 s ++ r3 /\ clean (rx_name1 s).
Proof.
  intro s. unfold rx_name1.
  destruct (plus is_alpha s) as [[w r]|] eqn:Ep; [|exists s; split; reflexivity].
  destruct (rx_dots is_alnum (S (length r)) r) as [m r3] eqn:Ed.
  destruct m as [|a m]; [exists s; split; reflexivity|].
  apply plus_spec in Ep; [|exact tokch_alpha]. destruct Ep as [-> Cw].
  apply rx_dots_spec in Ed; [|exact tokch_alnum]. destruct Ed as [-> Cm].
  exists r3. split; [rewrite <- app_assoc; reflexivity|apply clean_app; assumption].
Qed.

Lemma rx_name2_spec : forall s,
  exists r3, s = rx_name2 s ++ r3 /\ clean (rx_name2 s).
Proof.
  intro s.
  assert (Hnil : rx_name2 s = [] -> exists r3, s = rx_name2 s ++ r3 /\ clean (rx_name2 s)).
  { intro E. rewrite E. exists s. split; reflexivity. }
  destruct s as [|x1 s]; [apply Hnil; reflexivity|].
  destruct (N.eqb_spec x1 120) as [->|N1];
    [|apply Hnil; unfold rx_name2; rewrite m120;
      destruct (N.eqb_spec x1 120); [contradiction|reflexivity]].
  destruct s as [|x2 s]; [apply Hnil; reflexivity|].
  destruct (N.eqb_spec x2 110) as [->|N2];
    [|apply Hnil; unfold rx_name2; rewrite m110;
      destruct (N.eqb_spec x2 110); [contradiction|reflexivity]].
  destruct s as [|x3 s]; [apply Hnil; reflexivity|].
  destruct (N.eqb_spec x3 45) as [->|N3];
    [|apply Hnil; unfold rx_name2; rewrite m45;
      destruct (N.eqb_spec x3 45); [contradiction|reflexivity]].
  destruct s as [|x4 s]; [apply Hnil; reflexivity|].
  destruct (N.eqb_spec x4 45) as [->|N4];
    [|apply Hnil; unfold rx_name2; rewrite m45;
      destruct (N.eqb_spec x4 45); [contradiction|reflexivity]].
  unfold rx_name2.
  destruct (plus is_lowdig s) as [[w r]|] eqn:Ep;
    [|exists (120 :: 110 :: 45 :: 45 :: s); split; reflexivity].
  destruct (rx_dots is_lowdig (S (length r)) r) as [m r3] eqn:Ed.
  destruct m as [|a m]; [exists (120 :: 110 :: 45 :: 45 :: s); split; reflexivity|].
  apply plus_spec in Ep; [|exact tokch_lowdig]. destruct Ep as [-> Cw].
  apply rx_dots_spec in Ed; [|exact tokch_lowdig]. destruct Ed as [-> Cm].
  exists r3. split; [cbn [app]; rewrite <- app_assoc; reflexivity|].
  apply (clean_app [120; 110; 45; 45]); [reflexivity|]. apply clean_app; assumption.
Qed.

Lemma skip_n_gc : forall n b r, skip_n (length n) (gc b (n ++ r)) = gc (rev n ++ b) r.
Proof.
  induction n as [|x n IH]; intros b r; [reflexivity|].
  cbn [length skip_n app]. rewrite next_gc_cons. cbn [snd]. rewrite IH.
  cbn [rev]. rewrite <- app_assoc. reflexivity.
Qed.

Lemma read_interface_name_ex : forall b r l,
  word_result (read_interface_name (mkPst (gc b r) l)) b r l.
Proof.
  intros b r l. unfold read_interface_name, word_result. cbn [cu lc].
  rewrite suffix_gc. cbv zeta.
  assert (Hnil : exists w r',
            ROk (A:=bytes) [] (mkPst (gc b r) l) = ROk w (mkPst (gc (rev w ++ b) r') l)
            /\ r = w ++ r' /\ clean w /\ length r = (length w + length r')%nat).
  { exists [], r. split; [reflexivity|]. split; [reflexivity|]. split; reflexivity. }
  assert (Hname : forall n r3, r = n ++ r3 -> clean n ->
            exists w r',
              ROk n (mkPst (skip_n (length n) (gc b r)) l)
              = ROk w (mkPst (gc (rev w ++ b) r') l)
              /\ r = w ++ r' /\ clean w /\ length r = (length w + length r')%nat).
  { intros n r3 E C. exists n, r3. pose proof (skip_n_gc n b r3) as SK.
    rewrite <- E in SK. rewrite SK. split; [reflexivity|]. split; [exact E|].
    split; [exact C|]. rewrite E, app_length. reflexivity. }
  destruct (rx_name1_spec r) as (r3 & E1 & C1).
  destruct (rx_name1 r) as [|a n1].
  - destruct (rx_name2_spec r) as (r4 & E2 & C2).
    destruct (rx_name2 r) as [|a2 n2]; [exact Hnil|].
    destruct (255 <? N.of_nat (length (a2 :: n2))); [exact Hnil|].
    apply (Hname _ r4); assumption.
  - destruct (255 <? N.of_nat (length (a :: n1))); [exact Hnil|].
    apply (Hname _ r3); assumption.
Qed.

(* ------------------------------------------------------------------ *)
(** * One-step unfolding of the fuelled readers *)

Lemma read_type_S : forall f F s, read_type (S f) F s =
    let (ch, c1) := next (cu s) in
    let s1 := mkPst c1 (lc s) in
    match ch with
    | Some 63 (* ? *) =>
      do (e, s2) <- read_type f F s1;
      if is_maybe e then RNil else ROk (TMaybe e) s2
    | Some 91 (* [ *) =>
      do (kw, s2) <- read_keyword F s1;
      let mk := if bytes_eqb kw kw_string then Some TMap
                else match kw with [] => Some TArray | _ => None end in
      match mk with
      | None => RNil
      | Some con =>
        let (ch2, c3) := next (cu s2) in
        match ch2 with
        | Some 93 (* ] *) =>
          do (e, s4) <- read_type f F (mkPst c3 (lc s2));
          ROk (con e) s4
        | _ => RNil
        end
      end
    | _ =>
      let s0 := mkPst (backup c1) (lc s) in
      do (kw, s2) <- read_keyword F s0;
      match kw with
      | _ :: _ => match builtin_of kw with Some t => ROk t s2 | None => RNil end
      | [] =>
        do (nm, s3) <- read_type_name F s2;
        match nm with
        | _ :: _ => ROk (TAlias nm) s3
        | [] =>
          let (ch3, c4) := next (cu s3) in
          match ch3 with
          | Some 40 (* ( *) =>
            do (_, s5) <- advance F (mkPst c4 (lc s3));
            let (ch4, c6) := next (cu s5) in
            match ch4 with
            | Some 41 (* ) *) => ROk (TStruct []) (mkPst c6 (lc s5))
            | _ => read_fields f F LNone [] [] (mkPst (backup c6) (lc s5))
            end
          | _ => RNil
          end
        end
      end
    end.
Proof. reflexivity. Qed.

(* the local function [after_field] of read_fields, as a definition *)
Definition after_field (f F : nat) (m' : lmode) (tf' : list (bytes * ty)) (ef' : list bytes)
    (s5 : pst) : res ty :=
  do (_, s6) <- advance F s5;
  let (ch7, c7) := next (cu s6) in
  match ch7 with
  | Some 44 (* , *) => read_fields f F m' tf' ef' (mkPst c7 (lc s6))
  | Some 41 (* ) *) => ROk (finish_list m' tf' ef') (mkPst c7 (lc s6))
  | _ => RNil
  end.

Lemma read_fields_S : forall f F m tf ef s, read_fields (S f) F m tf ef s =
    do (_, s1) <- advance F s;
    do (name, s2) <- read_field_name F s1;
    match name with
    | [] => RNil
    | _ :: _ =>
      do (_, s3) <- advance F s2;
      let (ch, c4) := next (cu s3) in
      match ch with
      | Some 58 (* : *) =>
        match m with
        | LBare => RNil
        | _ =>
          do (_, s5) <- advance F (mkPst c4 (lc s3));
          do (ft, s6) <- read_type f F s5;
          after_field f F LTyped ((name, ft) :: tf) ef s6
        end
      | _ =>
        match m with
        | LTyped => RNil
        | _ => after_field f F LBare tf (name :: ef) (mkPst (backup c4) (lc s3))
        end
      end
    end.
Proof. reflexivity. Qed.

Lemma read_members_S : forall f F seen acc s, read_members (S f) F seen acc s =
    do (_, s1) <- advance F s;
    if has_more (cu s1) then
      do (kw, s2) <- read_keyword F s1;
      let rd := if bytes_eqb kw kw_type then Some read_alias
                else if bytes_eqb kw kw_method then Some read_method
                else if bytes_eqb kw kw_error then Some read_error
                else None in
      match rd with
      | None => RNil
      | Some reader =>
        do (m, s3) <- reader F s2;
        if existsb (bytes_eqb (member_name m)) seen then RNil
        else read_members f F (member_name m :: seen) (m :: acc) s3
      end
    else ROk (rev acc) s1.
Proof. reflexivity. Qed.
