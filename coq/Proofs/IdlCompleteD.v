(* Proofs/IdlCompleteD.v — completeness of the IDL parser model, part D:
   the interface name (the two greedy regular-expression matchers). *)
From VL Require Import Bytes Lit Idl IdlGrammar IdlCursor IdlCompleteA IdlCompleteB IdlCompleteC.
From Coq Require Import Lia ZArith.
Open Scope N_scope.

(* K is empty or starts with a byte that no matcher step can consume *)
Definition sepK (p : N -> bool) (K : bytes) : Prop :=
  match K with [] => True | c :: _ => p c = false /\ c <> 45 /\ c <> 46 end.

Section Matchers.
Variable p : N -> bool.
Variable K : bytes.
Hypothesis HK : sepK p K.
Hypothesis Hp : forall c, p c = true -> tokch c = true.

Lemma tw_app_sep : forall s,
  take_while p (s ++ K) = take_while p s /\ drop_while p (s ++ K) = drop_while p s ++ K.
Proof.
  induction s as [|x s [IH1 IH2]].
  - cbn [app take_while drop_while]. destruct K as [|c K']; [split; reflexivity|].
    destruct HK as [Hc _]. cbn [take_while drop_while]. rewrite Hc. split; reflexivity.
  - cbn [app take_while drop_while]. destruct (p x); [|split; reflexivity].
    rewrite IH1, IH2. split; reflexivity.
Qed.

Lemma plus_app_sep : forall s,
  plus p (s ++ K) = match plus p s with Some (w, r) => Some (w, r ++ K) | None => None end.
Proof.
  intro s. unfold plus. destruct (tw_app_sep s) as [E1 E2]. rewrite E1, E2.
  destruct (take_while p s); reflexivity.
Qed.

Lemma plus_len : forall s w r, plus p s = Some (w, r) -> (length r <= length s)%nat.
Proof.
  intros s w r H. unfold plus in H. destruct (take_while p s); [discriminate|].
  inversion H; subst. apply drop_while_length.
Qed.

Lemma dashes_app_sep : forall fuel s,
  rx_dashes p fuel (s ++ K) = let (m, r) := rx_dashes p fuel s in (m, r ++ K).
Proof.
  induction fuel as [|f IH]; intro s; [reflexivity|].
  destruct s as [|x s1].
  - cbn [app]. change (rx_dashes p (S f) []) with (@nil N, @nil N). cbn [app].
    destruct K as [|c K']; [reflexivity|]. destruct HK as (_ & H45 & _).
    cbn [rx_dashes]. rewrite m45. destruct (N.eqb_spec c 45); [contradiction|reflexivity].
  - cbn [app rx_dashes]. rewrite !m45. destruct (x =? 45); [|reflexivity].
    rewrite plus_app_sep. destruct (plus p s1) as [[w r']|]; [|reflexivity].
    rewrite IH. destruct (rx_dashes p f r') as [m r'']. reflexivity.
Qed.

Lemma dashes_fuel : forall f1 f2 s, (length s < f1)%nat -> (length s < f2)%nat ->
  rx_dashes p f1 s = rx_dashes p f2 s.
Proof.
  induction f1 as [|f1 IH]; intros f2 s H1 H2; [lia|]. destruct f2 as [|f2]; [lia|].
  cbn [rx_dashes]. destruct s as [|x s1]; [reflexivity|]. rewrite !m45.
  destruct (x =? 45); [|reflexivity].
  destruct (plus p s1) as [[w r']|] eqn:Ep; [|reflexivity].
  apply plus_len in Ep. cbn [length] in H1, H2. rewrite (IH f2 r') by lia. reflexivity.
Qed.

Lemma dots_app_sep : forall fuel s,
  rx_dots p fuel (s ++ K) = let (m, r) := rx_dots p fuel s in (m, r ++ K).
Proof.
  induction fuel as [|f IH]; intro s; [reflexivity|].
  destruct s as [|x s1].
  - cbn [app]. change (rx_dots p (S f) []) with (@nil N, @nil N). cbn [app].
    destruct K as [|c K']; [reflexivity|]. destruct HK as (_ & _ & H46).
    cbn [rx_dots]. rewrite m46. destruct (N.eqb_spec c 46); [contradiction|reflexivity].
  - cbn [app rx_dots]. rewrite !m46. destruct (x =? 46); [|reflexivity].
    rewrite plus_app_sep. destruct (plus p s1) as [[w r']|]; [|reflexivity].
    rewrite dashes_app_sep. destruct (rx_dashes p (S f) r') as [d r2].
    rewrite IH. destruct (rx_dots p f r2) as [m r3]. reflexivity.
Qed.

Lemma dots_fuel : forall f1 f2 s, (length s < f1)%nat -> (length s < f2)%nat ->
  rx_dots p f1 s = rx_dots p f2 s.
Proof.
  induction f1 as [|f1 IH]; intros f2 s H1 H2; [lia|]. destruct f2 as [|f2]; [lia|].
  cbn [rx_dots]. destruct s as [|x s1]; [reflexivity|]. rewrite !m46.
  destruct (x =? 46); [|reflexivity].
  destruct (plus p s1) as [[w r']|] eqn:Ep; [|reflexivity].
  apply plus_len in Ep. cbn [length] in H1, H2.
  rewrite (dashes_fuel (S f1) (S f2) r') by lia.
  destruct (rx_dashes p (S f2) r') as [d r2] eqn:Ed.
  apply (rx_dashes_spec p Hp) in Ed. destruct Ed as [Ed _].
  apply (f_equal (@length N)) in Ed. rewrite app_length in Ed.
  rewrite (IH f2 r2) by lia. reflexivity.
Qed.
End Matchers.

(* ---- what a match ends with ---- *)
Definition lastok (p : N -> bool) (m : bytes) : bool :=
  match rev m with [] => false | c :: _ => p c end.
Definition okz (p : N -> bool) (m : bytes) : Prop := m = [] \/ lastok p m = true.

Lemma lastok_app : forall p a b, lastok p b = true -> lastok p (a ++ b) = true.
Proof.
  intros p a b H. unfold lastok in *. rewrite rev_app_distr.
  destruct (rev b); [discriminate|exact H].
Qed.

Lemma lastok_app_okz : forall p a b, lastok p a = true -> okz p b -> lastok p (a ++ b) = true.
Proof.
  intros p a b Ha [->|Hb]; [rewrite app_nil_r; exact Ha|apply lastok_app, Hb].
Qed.

Lemma lastok_all : forall p w, forallb p w = true -> w <> [] -> lastok p w = true.
Proof.
  intros p w Hw Hne. unfold lastok. destruct (rev w) as [|c r] eqn:E.
  - apply (f_equal (@rev N)) in E. rewrite rev_involutive in E. contradiction.
  - rewrite forallb_forall in Hw. apply Hw, in_rev. rewrite E. left. reflexivity.
Qed.

Lemma plus_all : forall p s w r, plus p s = Some (w, r) -> forallb p w = true /\ w <> [].
Proof.
  intros p s w r H. unfold plus in H. pose proof (take_while_all p s) as A.
  destruct (take_while p s) as [|a t]; [discriminate|]. inversion H; subst.
  split; [exact A|discriminate].
Qed.

Lemma dashes_okz : forall p fuel s, okz p (fst (rx_dashes p fuel s)).
Proof.
  intros p. induction fuel as [|f IH]; intro s; [left; reflexivity|].
  cbn [rx_dashes]. destruct s as [|x s1]; [left; reflexivity|]. rewrite m45.
  destruct (x =? 45); [|left; reflexivity].
  destruct (plus p s1) as [[w r']|] eqn:Ep; [|left; reflexivity].
  specialize (IH r'). destruct (rx_dashes p f r') as [m r'']. cbn [fst] in *.
  right. destruct (plus_all p s1 w r' Ep) as [Hw Hne].
  apply (lastok_app p [45]). apply lastok_app_okz; [apply lastok_all; assumption|exact IH].
Qed.

Lemma dots_okz : forall p fuel s, okz p (fst (rx_dots p fuel s)).
Proof.
  intros p. induction fuel as [|f IH]; intro s; [left; reflexivity|].
  cbn [rx_dots]. destruct s as [|x s1]; [left; reflexivity|]. rewrite m46.
  destruct (x =? 46); [|left; reflexivity].
  destruct (plus p s1) as [[w r']|] eqn:Ep; [|left; reflexivity].
  pose proof (dashes_okz p (S f) r') as Hd.
  destruct (rx_dashes p (S f) r') as [d r2]. specialize (IH r2).
  destruct (rx_dots p f r2) as [m r3]. cbn [fst] in *.
  right. destruct (plus_all p s1 w r' Ep) as [Hw Hne].
  apply (lastok_app p [46]). apply lastok_app_okz; [apply lastok_all; assumption|].
  destruct Hd as [->|Hd]; [exact IH|]. right. apply lastok_app_okz; assumption.
Qed.

Lemma lastok_ends : forall p m, (forall c, p c = true -> is_alnum c = true) ->
  lastok p m = true -> ends_word m = true.
Proof.
  intros p m Hp H. unfold lastok, ends_word in *. destruct (rev m) as [|c r]; [discriminate|].
  rewrite (Hp c H). reflexivity.
Qed.

Lemma lowdig_alnum : forall c, is_lowdig c = true -> is_alnum c = true.
Proof.
  intros c H. unfold is_lowdig in H. unfold is_alnum, is_alpha.
  apply orb_true_iff in H. destruct H as [H|H]; rewrite H; [reflexivity|apply orb_true_r].
Qed.

Lemma alpha_alnum : forall c, is_alpha c = true -> is_alnum c = true.
Proof. intros c H. unfold is_alnum. rewrite H. reflexivity. Qed.

Lemma goe_sep : forall p K, gap_or_end K = true ->
  (forall c, p c = true -> is_field_char c = true) -> sepK p K.
Proof.
  intros p [|c K'] H Hp; [exact I|]. cbn [gap_or_end sepK] in *. split.
  - destruct (p c) eqn:E; [|reflexivity]. specialize (Hp c E).
    rewrite (gapb_not_field c H) in Hp. discriminate.
  - destruct (gapb_cases c H) as [E|[E|[E|[E|E]]]]; rewrite E; split; discriminate.
Qed.

Lemma rx_name1_app : forall s K, gap_or_end K = true -> rx_name1 (s ++ K) = rx_name1 s.
Proof.
  intros s K HK. unfold rx_name1.
  rewrite (plus_app_sep is_alpha K (goe_sep _ K HK is_alpha_field)).
  destruct (plus is_alpha s) as [[w r]|]; [|reflexivity].
  rewrite (dots_app_sep is_alnum K (goe_sep _ K HK is_alnum_field)).
  rewrite (dots_fuel is_alnum tokch_alnum (S (length (r ++ K))) (S (length r)) r)
    by (rewrite ?app_length; lia).
  destruct (rx_dots is_alnum (S (length r)) r) as [m r3]. destruct m; reflexivity.
Qed.

Lemma rx_name1_shape : forall s, rx_name1 s <> [] ->
  ends_word (rx_name1 s) = true
  /\ exists c r, rx_name1 s = c :: r /\ is_alpha c = true.
Proof.
  intros s Hne. unfold rx_name1 in *.
  destruct (plus is_alpha s) as [[w r]|] eqn:Ep; [|contradiction].
  pose proof (dots_okz is_alnum (S (length r)) r) as Hd.
  destruct (rx_dots is_alnum (S (length r)) r) as [m r3]. cbn [fst] in Hd.
  destruct m as [|c m']; [contradiction|].
  destruct Hd as [Hd|Hd]; [discriminate|].
  destruct (plus_all is_alpha s w r Ep) as [Hw Hwne].
  split; [apply (lastok_ends is_alnum); [auto|apply lastok_app, Hd]|].
  destruct w as [|a w']; [contradiction|]. cbn [forallb] in Hw.
  apply andb_true_iff in Hw. destruct Hw as [Ha _]. exists a, (w' ++ c :: m').
  split; [reflexivity|exact Ha].
Qed.

Lemma rx_name2_shape : forall s, rx_name2 s <> [] ->
  exists r0, s = 120 :: 110 :: 45 :: 45 :: r0 /\ ends_word (rx_name2 s) = true.
Proof.
  intros s Hne.
  destruct s as [|x1 s]; [contradiction|].
  destruct (N.eqb_spec x1 120) as [->|N1];
    [|exfalso; apply Hne; unfold rx_name2; rewrite m120;
      destruct (N.eqb_spec x1 120); [contradiction|reflexivity]].
  destruct s as [|x2 s]; [contradiction|].
  destruct (N.eqb_spec x2 110) as [->|N2];
    [|exfalso; apply Hne; unfold rx_name2; rewrite m110;
      destruct (N.eqb_spec x2 110); [contradiction|reflexivity]].
  destruct s as [|x3 s]; [contradiction|].
  destruct (N.eqb_spec x3 45) as [->|N3];
    [|exfalso; apply Hne; unfold rx_name2; rewrite m45;
      destruct (N.eqb_spec x3 45); [contradiction|reflexivity]].
  destruct s as [|x4 s]; [contradiction|].
  destruct (N.eqb_spec x4 45) as [->|N4];
    [|exfalso; apply Hne; unfold rx_name2; rewrite m45;
      destruct (N.eqb_spec x4 45); [contradiction|reflexivity]].
  exists s. split; [reflexivity|]. unfold rx_name2 in *.
  destruct (plus is_lowdig s) as [[w r]|] eqn:Ep; [|contradiction].
  pose proof (dots_okz is_lowdig (S (length r)) r) as Hd.
  destruct (rx_dots is_lowdig (S (length r)) r) as [m r3]. cbn [fst] in Hd.
  destruct m as [|c m']; [contradiction|].
  destruct Hd as [Hd|Hd]; [discriminate|].
  apply (lastok_ends is_lowdig); [exact lowdig_alnum|].
  apply (lastok_app is_lowdig [120; 110; 45; 45]). apply lastok_app, Hd.
Qed.

Lemma rx_name2_app : forall r0 K, gap_or_end K = true ->
  rx_name2 ((120 :: 110 :: 45 :: 45 :: r0) ++ K) = rx_name2 (120 :: 110 :: 45 :: 45 :: r0).
Proof.
  intros r0 K HK. cbn [app]. unfold rx_name2.
  rewrite (plus_app_sep is_lowdig K (goe_sep _ K HK is_lowdig_field)).
  destruct (plus is_lowdig r0) as [[w r]|]; [|reflexivity].
  rewrite (dots_app_sep is_lowdig K (goe_sep _ K HK is_lowdig_field)).
  rewrite (dots_fuel is_lowdig tokch_lowdig (S (length (r ++ K))) (S (length r)) r)
    by (rewrite ?app_length; lia).
  destruct (rx_dots is_lowdig (S (length r)) r) as [m r3]. destruct m; reflexivity.
Qed.

Lemma iface_cases : forall n, iface_name_ok n = true ->
  n <> [] /\ (255 <? N.of_nat (length n)) = false
  /\ (rx_name1 n = n \/ (rx_name1 n = [] /\ rx_name2 n = n)).
Proof.
  intros n H. unfold iface_name_ok in H.
  apply andb_true_iff in H. destruct H as [H Hne].
  apply andb_true_iff in H. destruct H as [H Hlen].
  apply negb_true_iff in Hlen.
  split; [destruct n; [discriminate|discriminate]|]. split; [exact Hlen|].
  apply orb_true_iff in H. destruct H as [H|H].
  - left. apply bytes_eqb_eq, H.
  - right. destruct (rx_name1 n); [|discriminate]. split; [reflexivity|apply bytes_eqb_eq, H].
Qed.

Lemma iface_shape : forall n, iface_name_ok n = true ->
  ends_word n = true /\ exists c r, n = c :: r /\ is_alpha c = true.
Proof.
  intros n H. destruct (iface_cases n H) as (Hne & _ & [E|[E1 E2]]).
  - assert (Hne1 : rx_name1 n <> []) by (rewrite E; exact Hne).
    destruct (rx_name1_shape n Hne1) as [He Hc]. rewrite E in He, Hc. split; assumption.
  - assert (Hne2 : rx_name2 n <> []) by (rewrite E2; exact Hne).
    destruct (rx_name2_shape n Hne2) as (r0 & En & He). rewrite E2 in He.
    split; [exact He|]. exists 120, (110 :: 45 :: 45 :: r0). split; [exact En|reflexivity].
Qed.

Lemma iface_stop : forall n X, iface_name_ok n = true -> stop (n ++ X) = true.
Proof.
  intros n X H. destruct (iface_shape n H) as (_ & c & r & -> & Hc).
  apply stop_field, is_alpha_field, Hc.
Qed.

Lemma iface_read : forall n K b l, iface_name_ok n = true -> gap_or_end K = true ->
  read_interface_name (mkPst (gc b (n ++ K)) l) = ROk n (mkPst (gc (rev n ++ b) K) l).
Proof.
  intros n K b l H HK. unfold read_interface_name. cbn [cu lc]. rewrite suffix_gc. cbv zeta.
  rewrite (rx_name1_app n K HK).
  destruct (iface_cases n H) as (Hne & Hlen & [E|[E1 E2]]).
  - rewrite E. destruct n as [|a n']; [contradiction|]. rewrite Hlen.
    rewrite skip_n_gc. reflexivity.
  - rewrite E1.
    assert (Hne2 : rx_name2 n <> []) by (rewrite E2; exact Hne).
    destruct (rx_name2_shape n Hne2) as (r0 & En & _).
    assert (E3 : rx_name2 (n ++ K) = n).
    { rewrite En. rewrite rx_name2_app by exact HK. rewrite <- En. exact E2. }
    rewrite E3. destruct n as [|a n']; [contradiction|]. rewrite Hlen.
    rewrite skip_n_gc. reflexivity.
Qed.
