(* Proofs/IdlCompleteC.v — completeness of the IDL parser model, part C:
   members (read_alias / read_method / read_error) and read_members. *)
From VL Require Import Bytes Lit Idl IdlGrammar IdlCursor IdlCompleteA IdlCompleteB.
From Coq Require Import Lia ZArith.
Open Scope N_scope.

(* K is empty or starts with a layout byte *)
Definition gap_or_end (K : bytes) : bool :=
  match K with [] => true | c :: _ => is_gapb c end.

Lemma goe_follow : forall K, gap_or_end K = true -> follow_ok K = true.
Proof.
  intros [|c K] H; [reflexivity|]. cbn [gap_or_end follow_ok nostart] in *.
  rewrite (gapb_not_alnum c H). reflexivity.
Qed.

Lemma goe_gap : forall g K, gap g -> g <> [] -> gap_or_end (g ++ K) = true.
Proof.
  intros g K Hg Hne. apply gap_head in Hg. destruct g as [|c g']; [contradiction|exact Hg].
Qed.

Lemma goe_final : forall g, final_gap g -> gap_or_end g = true.
Proof.
  intros g H. destruct H as [g Hg|g txt Hg Ht].
  - apply gap_head in Hg. destruct g; [reflexivity|exact Hg].
  - apply gap_head in Hg. destruct g; [reflexivity|exact Hg].
Qed.

Lemma goe_nolower : forall K, gap_or_end K = true -> nostart is_lower K = true.
Proof. intros K H. apply follow_nolower, goe_follow, H. Qed.

Lemma read_type_name_word : forall F b n k l,
  type_name_ok n = true -> follow_ok k = true -> (length (n ++ k) < F)%nat ->
  read_type_name F (mkPst (gc b (n ++ k)) l) = ROk n (mkPst (gc (rev n ++ b) k) l).
Proof.
  intros F b n k l Hn Hk Hl. unfold read_type_name. apply read_span_word; [|exact Hk|exact Hl].
  destruct n as [|c r]; [discriminate|]. cbn [type_name_ok] in Hn.
  apply andb_true_iff in Hn. destruct Hn as [Hc Hr]. cbn [forallb].
  rewrite (upper_alnum c Hc), Hr. reflexivity.
Qed.

Lemma type_name_stop : forall n X, type_name_ok n = true -> stop (n ++ X) = true.
Proof.
  intros [|c r] X H; [discriminate|]. cbn [type_name_ok] in H.
  apply andb_true_iff in H. destruct H as [H _]. apply stop_upper, H.
Qed.

Lemma type_name_len : forall n, type_name_ok n = true -> (1 <= length n)%nat.
Proof. intros [|c r] H; [discriminate|]. cbn [length]. lia. Qed.

(* what read_type does on something that is not a type *)
Lemma read_type_nil_end : forall f F b l, (0 < F)%nat ->
  read_type (S f) F (mkPst (gc b []) l) = RNil.
Proof.
  intros f F b l HF. rewrite read_type_S. cbn [cu lc]. rewrite next_gc_nil.
  cbv beta iota zeta. rewrite backup_oc.
  unfold read_keyword, read_type_name. rewrite read_span_none; [|reflexivity|exact HF].
  cbn [bind]. rewrite read_span_none; [|reflexivity|exact HF].
  cbn [bind cu lc]. rewrite next_gc_nil. reflexivity.
Qed.

Lemma read_type_nil_kw : forall w k f F b l,
  forallb is_lower w = true -> w <> [] -> builtin_of w = None ->
  nostart is_lower k = true -> (length (w ++ k) < F)%nat ->
  read_type (S f) F (mkPst (gc b (w ++ k)) l) = RNil.
Proof.
  intros w k f F b l Hw Hne Hb Hk HF. rewrite read_type_S. cbn [cu lc].
  destruct w as [|x w']; [contradiction|]. cbn [app]. rewrite next_gc_cons.
  cbv beta iota zeta. rewrite m63_91.
  pose proof Hw as Hw0. cbn [forallb] in Hw0. apply andb_true_iff in Hw0. destruct Hw0 as [Hx _].
  destruct (lower_not_63_91 x Hx) as [E1 E2]. rewrite E1, E2. rewrite backup_gc_cons.
  change (x :: w' ++ k) with ((x :: w') ++ k). unfold read_keyword.
  rewrite read_span_word; [|exact Hw|exact Hk|exact HF].
  cbn [bind]. rewrite Hb. reflexivity.
Qed.

Lemma ty_after_gap_follow : forall g2 t st X, gap g2 -> RTy t st ->
  (starts_alnum st = true -> g2 <> []) -> follow_ok (g2 ++ st ++ X) = true.
Proof.
  intros g2 t st X Hg Ht Hne. destruct g2 as [|c g'].
  - destruct (RTy_head t st Ht) as (c & r & -> & _ & Hal). cbn [app follow_ok nostart].
    cbn [starts_alnum] in Hne, Hal. destruct (is_alnum c) eqn:E; [|reflexivity].
    exfalso. apply (Hne eq_refl). reflexivity.
  - apply gap_head in Hg. cbn [app follow_ok nostart].
    rewrite (gapb_not_alnum c Hg). reflexivity.
Qed.

(* the common beginning of the three member readers: gap, then the name *)
Lemma name_step : forall g1 n X F b l, gap1 g1 -> type_name_ok n = true ->
  follow_ok X = true -> (length (g1 ++ n ++ X) < F)%nat ->
  exists doc, advance F (mkPst (gc b (g1 ++ n ++ X)) l)
                = ROk tt (mkPst (gc (rev g1 ++ b) (n ++ X)) doc)
    /\ read_type_name F (mkPst (gc (rev g1 ++ b) (n ++ X)) doc)
       = ROk n (mkPst (gc (rev n ++ rev g1 ++ b) X) doc).
Proof.
  intros g1 n X F b l [Hg _] Hn HX HF.
  destruct (advance_gap g1 Hg F b (n ++ X) l (type_name_stop n X Hn) HF) as [doc E].
  exists doc. split; [exact E|]. rewrite app_length in HF.
  apply read_type_name_word; [exact Hn|exact HX|lia].
Qed.

Lemma alias_complete : forall n t g1 g2 st K F b l,
  type_name_ok n = true -> gap1 g1 -> RTy t st -> gap_before g2 st ->
  (ends_word st = true -> follow_ok K = true) ->
  (length (g1 ++ n ++ g2 ++ st ++ K) < F)%nat ->
  exists doc' l', read_alias F (mkPst (gc b (g1 ++ n ++ g2 ++ st ++ K)) l)
    = ROk (MAlias n doc' t) (mkPst (gc (rev st ++ rev g2 ++ rev n ++ rev g1 ++ b) K) l').
Proof.
  intros n t g1 g2 st K F b l Hn H1 Ht [H2 H2ne] HK HF. unfold read_alias.
  destruct (name_step g1 n (g2 ++ st ++ K) F b l H1 Hn
              (ty_after_gap_follow g2 t st K H2 Ht H2ne) HF) as (doc & E1 & E2).
  rewrite E1. cbn [bind lc]. rewrite E2. cbn [bind].
  pose proof (type_name_len n Hn) as Ln. destruct n as [|n0 n']; [discriminate|].
  rewrite !app_length in HF.
  destruct (advance_gap g2 H2 F (rev (n0 :: n') ++ rev g1 ++ b) (st ++ K) doc
              (RTy_stop t st K Ht) ltac:(rewrite !app_length; lia)) as [l3 E3].
  rewrite E3. cbn [bind].
  destruct (read_type_complete t st Ht F F (rev g2 ++ rev (n0 :: n') ++ rev g1 ++ b) K l3 HK
              ltac:(rewrite !app_length; lia) ltac:(rewrite !app_length; lia)) as [l4 E4].
  rewrite E4. cbn [bind]. exists doc, l4. reflexivity.
Qed.

Lemma struct_not_alnum : forall t s, RTy t s -> is_struct t = true -> starts_alnum s = false.
Proof. intros t s H Hs. destruct H; try discriminate Hs; reflexivity. Qed.

Lemma struct_ends : forall t s, RTy t s -> is_struct t = true -> ends_word s = false.
Proof.
  intros t s H Hs. destruct H; try discriminate Hs; unfold ends_word; norm_list; reflexivity.
Qed.

Lemma method_complete : forall n i o g1 g2 g3 g4 si so K F b l,
  type_name_ok n = true -> gap1 g1 -> is_struct i = true -> is_struct o = true ->
  RTy i si -> RTy o so -> gap g2 -> gap g3 -> gap g4 ->
  (length (g1 ++ n ++ g2 ++ si ++ g3 ++ 45%N :: 62%N :: g4 ++ so ++ K) < F)%nat ->
  exists doc' l',
    read_method F (mkPst (gc b (g1 ++ n ++ g2 ++ si ++ g3 ++ 45 :: 62 :: g4 ++ so ++ K)) l)
    = ROk (MMethod n doc' i o)
        (mkPst (gc (rev so ++ rev g4 ++ 62 :: 45 :: rev g3 ++ rev si ++ rev g2 ++ rev n
                    ++ rev g1 ++ b) K) l').
Proof.
  intros n i o g1 g2 g3 g4 si so K F b l Hn H1 Hi Ho Hsi Hso H2 H3 H4 HF.
  unfold read_method.
  destruct (name_step g1 n (g2 ++ si ++ g3 ++ 45 :: 62 :: g4 ++ so ++ K) F b l H1 Hn
              (ty_after_gap_follow g2 i si _ H2 Hsi
                 ltac:(rewrite (struct_not_alnum i si Hsi Hi); discriminate)) HF)
    as (doc & E1 & E2).
  rewrite E1. cbn [bind lc]. rewrite E2. cbn [bind].
  pose proof (type_name_len n Hn) as Ln. destruct n as [|n0 n']; [discriminate|].
  set (nn := n0 :: n') in *.
  rewrite !app_length in HF. cbn [length] in HF. rewrite !app_length in HF.
  destruct (advance_gap g2 H2 F (rev nn ++ rev g1 ++ b) (si ++ g3 ++ 45 :: 62 :: g4 ++ so ++ K)
              doc (RTy_stop i si _ Hsi)
              ltac:(rewrite !app_length; cbn [length]; rewrite !app_length; lia)) as [l3 E3].
  rewrite E3. cbn [bind].
  destruct (read_type_complete i si Hsi F F (rev g2 ++ rev nn ++ rev g1 ++ b)
              (g3 ++ 45 :: 62 :: g4 ++ so ++ K) l3
              ltac:(rewrite (struct_ends i si Hsi Hi); discriminate)
              ltac:(rewrite !app_length; cbn [length]; rewrite !app_length; lia)
              ltac:(rewrite !app_length; cbn [length]; rewrite !app_length; lia)) as [l4 E4].
  rewrite E4. cbn [bind].
  destruct (advance_gap g3 H3 F (rev si ++ rev g2 ++ rev nn ++ rev g1 ++ b)
              (45 :: 62 :: g4 ++ so ++ K) l4 eq_refl
              ltac:(rewrite !app_length; cbn [length]; rewrite !app_length; lia)) as [l5 E5].
  rewrite E5. cbn [bind cu lc]. rewrite !next_gc_cons. cbv beta iota.
  destruct (advance_gap g4 H4 F (62 :: 45 :: rev g3 ++ rev si ++ rev g2 ++ rev nn ++ rev g1 ++ b)
              (so ++ K) l5 (RTy_stop o so K Hso)
              ltac:(rewrite !app_length; lia)) as [l6 E6].
  rewrite E6. cbn [bind].
  destruct (read_type_complete o so Hso F F
              (rev g4 ++ 62 :: 45 :: rev g3 ++ rev si ++ rev g2 ++ rev nn ++ rev g1 ++ b) K l6
              ltac:(rewrite (struct_ends o so Hso Ho); discriminate)
              ltac:(rewrite !app_length; lia) ltac:(rewrite !app_length; lia)) as [l7 E7].
  rewrite E7. cbn [bind]. exists doc, l7. reflexivity.
Qed.

(* after layout, no type can be read from K *)
Definition no_type_next (K : bytes) : Prop :=
  forall F b l, (S (length K) < F)%nat ->
    exists b1 r1 l1, advance F (mkPst (gc b K) l) = ROk tt (mkPst (gc b1 r1) l1)
      /\ read_type F F (mkPst (gc b1 r1) l1) = RNil.

Lemma error0_complete : forall n g1 K F b l,
  type_name_ok n = true -> gap1 g1 -> follow_ok K = true -> no_type_next K ->
  (S (length (g1 ++ n ++ K)) < F)%nat ->
  exists doc' l', read_error F (mkPst (gc b (g1 ++ n ++ K)) l)
    = ROk (MError n doc' None) (mkPst (gc (rev n ++ rev g1 ++ b) K) l').
Proof.
  intros n g1 K F b l Hn H1 HK HN HF. unfold read_error.
  destruct (name_step g1 n K F b l H1 Hn HK ltac:(lia)) as (doc & E1 & E2).
  rewrite E1. cbn [bind lc]. rewrite E2. cbn [bind].
  pose proof (type_name_len n Hn) as Ln. destruct n as [|n0 n']; [discriminate|].
  rewrite !app_length in HF.
  destruct (HN F (rev (n0 :: n') ++ rev g1 ++ b) doc ltac:(lia)) as (b1 & r1 & l1 & E3 & E4).
  rewrite E3, E4. exists doc, doc. reflexivity.
Qed.

Lemma error_complete : forall n t g1 g2 st K F b l,
  type_name_ok n = true -> gap1 g1 -> is_struct t = true -> RTy t st -> gap g2 ->
  (length (g1 ++ n ++ g2 ++ st ++ K) < F)%nat ->
  exists doc' l', read_error F (mkPst (gc b (g1 ++ n ++ g2 ++ st ++ K)) l)
    = ROk (MError n doc' (Some t))
        (mkPst (gc (rev st ++ rev g2 ++ rev n ++ rev g1 ++ b) K) l').
Proof.
  intros n t g1 g2 st K F b l Hn H1 Hs Ht H2 HF. unfold read_error.
  destruct (name_step g1 n (g2 ++ st ++ K) F b l H1 Hn
              (ty_after_gap_follow g2 t st K H2 Ht
                 ltac:(rewrite (struct_not_alnum t st Ht Hs); discriminate)) HF)
    as (doc & E1 & E2).
  rewrite E1. cbn [bind lc]. rewrite E2. cbn [bind].
  pose proof (type_name_len n Hn) as Ln. destruct n as [|n0 n']; [discriminate|].
  rewrite !app_length in HF.
  destruct (advance_gap g2 H2 F (rev (n0 :: n') ++ rev g1 ++ b) (st ++ K) doc
              (RTy_stop t st K Ht) ltac:(rewrite !app_length; lia)) as [l3 E3].
  rewrite E3.
  destruct (read_type_complete t st Ht F F (rev g2 ++ rev (n0 :: n') ++ rev g1 ++ b) K l3
              ltac:(rewrite (struct_ends t st Ht Hs); discriminate)
              ltac:(rewrite !app_length; lia) ltac:(rewrite !app_length; lia)) as [l4 E4].
  rewrite E4. exists doc, l4. reflexivity.
Qed.

(* ---- one iteration of read_members: keyword, then the reader ---- *)
Definition read_one (F : nat) (s1 : pst) : res member :=
  do (kw, s2) <- read_keyword F s1;
  let rd := if bytes_eqb kw kw_type then Some read_alias
            else if bytes_eqb kw kw_method then Some read_method
            else if bytes_eqb kw kw_error then Some read_error
            else None in
  match rd with
  | None => RNil
  | Some reader => reader F s2
  end.

Lemma read_members_one : forall f F seen acc s, read_members (S f) F seen acc s =
  do (_, s1) <- advance F s;
  if has_more (cu s1) then
    do (m, s3) <- read_one F s1;
    if existsb (bytes_eqb (member_name m)) seen then RNil
    else read_members f F (member_name m :: seen) (m :: acc) s3
  else ROk (rev acc) s1.
Proof.
  intros f F seen acc s. rewrite read_members_S.
  destruct (advance F s) as [u s1| | |]; cbn [bind]; try reflexivity.
  destruct (has_more (cu s1)); [|reflexivity]. unfold read_one.
  destruct (read_keyword F s1) as [kw s2| | |]; cbn [bind]; try reflexivity.
  cbv zeta.
  destruct (bytes_eqb kw kw_type); [reflexivity|].
  destruct (bytes_eqb kw kw_method); [reflexivity|].
  destruct (bytes_eqb kw kw_error); reflexivity.
Qed.

Lemma gap1_nolower : forall g X, gap1 g -> nostart is_lower (g ++ X) = true.
Proof.
  intros g X [Hg Hne]. apply goe_nolower, goe_gap; assumption.
Qed.

Lemma type_name_ends : forall p n, type_name_ok n = true -> ends_word (p ++ n) = true.
Proof.
  intros p n Hn. apply ends_word_app, ends_word_alnum.
  - destruct n as [|c r]; [discriminate|]. cbn [type_name_ok] in Hn.
    apply andb_true_iff in Hn. destruct Hn as [Hc Hr]. cbn [forallb].
    rewrite (upper_alnum c Hc), Hr. reflexivity.
  - destruct n; [discriminate Hn|discriminate].
Qed.

Lemma RMember_step : forall m sm, RMember m sm -> forall K F b l,
  (ends_word sm = true -> gap_or_end K = true) -> no_type_next K ->
  (S (length (sm ++ K)) < F)%nat ->
  exists m' l', erase_member m' = erase_member m
    /\ read_one F (mkPst (gc b (sm ++ K)) l) = ROk m' (mkPst (gc (rev sm ++ b) K) l').
Proof.
  intros m sm H K F b l HK HN HF. unfold read_one, read_keyword.
  destruct H as [n doc t g1 g2 st Hn H1 Ht H2
                |n doc i o g1 g2 g3 g4 si so Hn H1 Hi Ho Hsi Hso H2 H3 H4
                |n doc g1 Hn H1
                |n doc t g1 g2 st Hn H1 Hs Ht H2].
  - replace ((kw_type ++ g1 ++ n ++ g2 ++ st) ++ K)
      with (kw_type ++ g1 ++ n ++ g2 ++ st ++ K) in * by (rewrite <- !app_assoc; reflexivity).
    rewrite read_span_word; [|reflexivity|apply gap1_nolower, H1|lia].
    cbn [bind]. rewrite bytes_eqb_refl. cbv zeta iota.
    rewrite app_length in HF.
    destruct (alias_complete n t g1 g2 st K F (rev kw_type ++ b) l Hn H1 Ht H2) as (d' & l' & E).
    + intro E. apply goe_follow, HK.
      replace (kw_type ++ g1 ++ n ++ g2 ++ st) with ((kw_type ++ g1 ++ n ++ g2) ++ st)
        by (rewrite <- !app_assoc; reflexivity).
      apply ends_word_app, E.
    + lia.
    + rewrite E. exists (MAlias n d' t), l'. split; [reflexivity|].
      f_equal. f_equal. f_equal. rewrite !rev_app_distr, <- !app_assoc. reflexivity.
  - replace ((kw_method ++ g1 ++ n ++ g2 ++ si ++ g3 ++ [45; 62] ++ g4 ++ so) ++ K)
      with (kw_method ++ g1 ++ n ++ g2 ++ si ++ g3 ++ 45 :: 62 :: g4 ++ so ++ K) in *
      by (rewrite <- !app_assoc; reflexivity).
    rewrite read_span_word; [|reflexivity|apply gap1_nolower, H1|lia].
    cbn [bind]. change (bytes_eqb kw_method kw_type) with false. rewrite bytes_eqb_refl.
    cbv zeta iota. rewrite app_length in HF.
    destruct (method_complete n i o g1 g2 g3 g4 si so K F (rev kw_method ++ b) l
                Hn H1 Hi Ho Hsi Hso H2 H3 H4 ltac:(lia)) as (d' & l' & E).
    rewrite E. exists (MMethod n d' i o), l'. split; [reflexivity|].
    f_equal. f_equal. f_equal. rewrite !rev_app_distr, <- !app_assoc. reflexivity.
  - replace ((kw_error ++ g1 ++ n) ++ K) with (kw_error ++ g1 ++ n ++ K) in *
      by (rewrite <- !app_assoc; reflexivity).
    rewrite read_span_word; [|reflexivity|apply gap1_nolower, H1|lia].
    cbn [bind]. change (bytes_eqb kw_error kw_type) with false.
    change (bytes_eqb kw_error kw_method) with false. rewrite bytes_eqb_refl.
    cbv zeta iota. rewrite app_length in HF.
    destruct (error0_complete n g1 K F (rev kw_error ++ b) l Hn H1) as (d' & l' & E).
    + apply goe_follow, HK.
      replace (kw_error ++ g1 ++ n) with ((kw_error ++ g1) ++ n)
        by (rewrite <- !app_assoc; reflexivity).
      apply type_name_ends, Hn.
    + exact HN.
    + change (length kw_error) with 5%nat in HF. lia.
    + rewrite E. exists (MError n d' None), l'. split; [reflexivity|].
      f_equal. f_equal. f_equal. rewrite !rev_app_distr, <- !app_assoc. reflexivity.
  - replace ((kw_error ++ g1 ++ n ++ g2 ++ st) ++ K)
      with (kw_error ++ g1 ++ n ++ g2 ++ st ++ K) in * by (rewrite <- !app_assoc; reflexivity).
    rewrite read_span_word; [|reflexivity|apply gap1_nolower, H1|lia].
    cbn [bind]. change (bytes_eqb kw_error kw_type) with false.
    change (bytes_eqb kw_error kw_method) with false. rewrite bytes_eqb_refl.
    cbv zeta iota. rewrite app_length in HF.
    destruct (error_complete n t g1 g2 st K F (rev kw_error ++ b) l Hn H1 Hs Ht H2 ltac:(lia))
      as (d' & l' & E).
    rewrite E. exists (MError n d' (Some t)), l'. split; [reflexivity|].
    f_equal. f_equal. f_equal. rewrite !rev_app_distr, <- !app_assoc. reflexivity.
Qed.

Lemma member_kw : forall m sm, RMember m sm ->
  exists w r, sm = w ++ r /\ forallb is_lower w = true /\ w <> [] /\ builtin_of w = None
    /\ forall X, nostart is_lower (r ++ X) = true.
Proof.
  intros m sm H.
  destruct H as [n doc t g1 g2 st Hn H1 Ht H2
                |n doc i o g1 g2 g3 g4 si so Hn H1 Hi Ho Hsi Hso H2 H3 H4
                |n doc g1 Hn H1
                |n doc t g1 g2 st Hn H1 Hs Ht H2].
  - exists kw_type, (g1 ++ n ++ g2 ++ st). repeat split; try reflexivity; try discriminate.
    intro X. rewrite <- app_assoc. apply gap1_nolower, H1.
  - exists kw_method, (g1 ++ n ++ g2 ++ si ++ g3 ++ [45; 62] ++ g4 ++ so).
    repeat split; try reflexivity; try discriminate.
    intro X. rewrite <- app_assoc. apply gap1_nolower, H1.
  - exists kw_error, (g1 ++ n). repeat split; try reflexivity; try discriminate.
    intro X. rewrite <- app_assoc. apply gap1_nolower, H1.
  - exists kw_error, (g1 ++ n ++ g2 ++ st). repeat split; try reflexivity; try discriminate.
    intro X. rewrite <- app_assoc. apply gap1_nolower, H1.
Qed.

Lemma no_type_final : forall gend, final_gap gend -> no_type_next gend.
Proof.
  intros gend Hg F b l HF.
  destruct (advance_final_gap gend Hg F b l HF) as [l' E].
  exists (rev gend ++ b), [], l'. split; [exact E|].
  destruct F as [|f]; [lia|]. apply read_type_nil_end. lia.
Qed.

Lemma no_type_member : forall g m sm X, gap g -> RMember m sm -> no_type_next (g ++ sm ++ X).
Proof.
  intros g m sm X Hg Hm F b l HF.
  destruct (member_kw m sm Hm) as (w & r & -> & Hw & Hne & Hb & Hr).
  assert (Hstop : stop ((w ++ r) ++ X) = true).
  { destruct w as [|c w']; [contradiction|]. cbn [forallb] in Hw.
    apply andb_true_iff in Hw. destruct Hw as [Hc _]. apply stop_lower, Hc. }
  destruct (advance_gap g Hg F b ((w ++ r) ++ X) l Hstop ltac:(lia)) as [l' E].
  exists (rev g ++ b), ((w ++ r) ++ X), l'. split; [exact E|].
  destruct F as [|f]; [lia|]. rewrite <- app_assoc.
  apply read_type_nil_kw; [exact Hw|exact Hne|exact Hb|apply Hr|].
  rewrite app_length in HF. rewrite <- app_assoc in HF. lia.
Qed.

Lemma members_tail : forall prev ms s, RMembers prev ms s -> forall gend, final_gap gend ->
  (ends_word prev = true -> gap_or_end (s ++ gend) = true) /\ no_type_next (s ++ gend).
Proof.
  intros prev ms s H gend Hg. destruct H as [prev|prev g m sm ms s Hgap Hne Hm Hms].
  - cbn [app]. split; [intros _; apply goe_final, Hg|apply no_type_final, Hg].
  - split.
    + intro E. rewrite <- app_assoc. apply goe_gap; [exact Hgap|apply Hne, E].
    + rewrite <- !app_assoc. apply (no_type_member g m sm (s ++ gend) Hgap Hm).
Qed.

Lemma erase_name : forall m' m, erase_member m' = erase_member m -> member_name m' = member_name m.
Proof. intros [n d t|n d i o|n d t] [n2 d2 t2|n2 d2 i2 o2|n2 d2 t2] H; inversion H; reflexivity. Qed.

Lemma existsb_false_in : forall (A : Type) (f : A -> bool) l y,
  existsb f l = false -> In y l -> f y = false.
Proof.
  intros A f l y H Hin. induction l as [|x l IH]; [contradiction|].
  cbn [existsb] in H. apply orb_false_iff in H. destruct H as [Hx Hl].
  destruct Hin as [->|Hin]; [exact Hx|apply IH; assumption].
Qed.

Lemma bytes_eqb_sym : forall x y, bytes_eqb x y = bytes_eqb y x.
Proof.
  intros x y. destruct (bytes_eqb x y) eqn:E.
  - apply bytes_eqb_eq in E. subst. symmetry. apply bytes_eqb_refl.
  - symmetry. apply bytes_eqb_neq. apply bytes_eqb_neq in E. congruence.
Qed.

Lemma member_stop : forall m sm X, RMember m sm -> stop (sm ++ X) = true /\ (1 <= length sm)%nat.
Proof.
  intros m sm X Hm. destruct (member_kw m sm Hm) as (w & r & -> & Hw & Hne & _).
  destruct w as [|c w']; [contradiction|]. cbn [forallb] in Hw.
  apply andb_true_iff in Hw. destruct Hw as [Hc _]. split; [apply stop_lower, Hc|].
  cbn [app length]. lia.
Qed.

Lemma members_loop : forall prev ms s, RMembers prev ms s ->
  forall gend, final_gap gend -> forall fuel F b l seen acc,
  nodup_bytes (map member_name ms) = true ->
  (forall x, In x ms -> existsb (bytes_eqb (member_name x)) seen = false) ->
  (length (s ++ gend) < fuel)%nat -> (S (length (s ++ gend)) < F)%nat ->
  exists ms' l', map erase_member ms' = map erase_member ms /\
    read_members fuel F seen acc (mkPst (gc b (s ++ gend)) l)
    = ROk (rev acc ++ ms') (mkPst (gc (rev (s ++ gend) ++ b) []) l').
Proof.
  intros prev ms s H gend Hgend.
  induction H as [prev|prev g m sm ms s Hgap Hne Hm Hms IH];
    intros fuel F b l seen acc Hnd Hfresh Hf HF.
  - destruct fuel as [|f]; [lia|]. rewrite read_members_one. cbn [app] in *.
    destruct (advance_final_gap gend Hgend F b l HF) as [l' E]. rewrite E.
    cbn [bind cu]. rewrite has_more_gc. exists [], l'. split; [reflexivity|].
    rewrite app_nil_r. reflexivity.
  - destruct fuel as [|f]; [lia|]. rewrite read_members_one.
    replace ((g ++ sm ++ s) ++ gend) with (g ++ sm ++ s ++ gend) in *
      by (rewrite <- !app_assoc; reflexivity).
    destruct (member_stop m sm (s ++ gend) Hm) as [Hstop Lsm].
    destruct (advance_gap g Hgap F b (sm ++ s ++ gend) l Hstop ltac:(lia)) as [l1 E1].
    rewrite E1. cbn [bind cu]. rewrite has_more_gc.
    assert (Hmore : (match sm ++ s ++ gend with [] => false | _ :: _ => true end) = true).
    { destruct sm as [|z zs]; [cbn [length] in Lsm; lia|reflexivity]. }
    rewrite Hmore.
    destruct (members_tail sm ms s Hms gend Hgend) as [T1 T2].
    rewrite app_length in Hf, HF.
    destruct (RMember_step m sm Hm (s ++ gend) F (rev g ++ b) l1 T1 T2 ltac:(lia))
      as (m' & l2 & Em & E2).
    rewrite E2. cbn [bind]. pose proof (erase_name m' m Em) as En. rewrite En.
    rewrite (Hfresh m (or_introl eq_refl)).
    cbn [map nodup_bytes] in Hnd. apply andb_true_iff in Hnd. destruct Hnd as [Hnd1 Hnd2].
    apply negb_true_iff in Hnd1. rewrite app_length in Hf, HF.
    destruct (IH f F (rev sm ++ rev g ++ b) l2 (member_name m :: seen) (m' :: acc) Hnd2)
      as (ms' & l3 & Ems & E3).
    + intros x Hx. cbn [existsb]. rewrite (Hfresh x (or_intror Hx)), orb_false_r.
      rewrite bytes_eqb_sym.
      apply (existsb_false_in _ _ _ (member_name x) Hnd1). apply in_map, Hx.
    + lia.
    + lia.
    + rewrite E3. exists (m' :: ms'), l3. split; [cbn [map]; rewrite Em, Ems; reflexivity|].
      cbn [rev]. rewrite <- !app_assoc. cbn [app].
      rewrite !rev_app_distr, <- !app_assoc. reflexivity.
Qed.
