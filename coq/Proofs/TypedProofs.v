(* Proofs/TypedProofs.v — the typed JSON mapping of Model/Typed.v:
   Marshal then Unmarshal is the identity on canonical Go values
   (typed_roundtrip), Marshal is total on them (encode_typed_total), a struct
   is emitted with exactly its declared names minus the nil optionals
   (struct_keys_exact), and Unmarshal only produces canonical values
   (decode_encode_canonical). *)
From VL Require Import Bytes Idl Json JsonDump Typed.
Open Scope N_scope.

(* ================= byte-wise order ================= *)

Lemma ltb_total : forall x y, bytes_ltb x y = false -> x <> y -> bytes_ltb y x = true.
Proof.
  induction x as [|a x IH]; destruct y as [|c y]; simpl; intros H Hne; try reflexivity;
    try discriminate; try congruence.
  destruct (a <? c) eqn:E1; [discriminate|].
  destruct (c <? a) eqn:E2; [reflexivity|].
  apply N.ltb_ge in E1. apply N.ltb_ge in E2.
  assert (Eq : a = c) by lia. subst c.
  apply IH; [exact H|]. intro E. apply Hne. subst. reflexivity.
Qed.

(* ================= all_opt ================= *)

Lemma all_opt_rt : forall {A B : Type} (ok : A -> bool) (f : A -> option B) (g : B -> option A),
  (forall x y, ok x = true -> f x = Some y -> g y = Some x) ->
  forall l l', forallb ok l = true -> all_opt f l = Some l' -> all_opt g l' = Some l.
Proof.
  intros A B ok f g Hfg. induction l as [|x l IH]; simpl; intros l' Hok He.
  - inversion He; subst. reflexivity.
  - apply andb_true_iff in Hok. destruct Hok as [Hx Hl].
    destruct (f x) as [y|] eqn:Ef; [|discriminate].
    destruct (all_opt f l) as [ys|] eqn:El; [|discriminate].
    inversion He; subst. simpl. rewrite (Hfg x y Hx Ef), (IH ys Hl eq_refl). reflexivity.
Qed.

Lemma all_opt_snd_rt : forall {A B : Type} (ok : A -> bool) (f : A -> option B) (g : B -> option A),
  (forall x y, ok x = true -> f x = Some y -> g y = Some x) ->
  forall l l', forallb (fun kv => ok (snd kv)) l = true -> all_opt_snd f l = Some l' ->
  all_opt_snd g l' = Some l.
Proof.
  intros A B ok f g Hfg. induction l as [|[k x] l IH]; simpl; intros l' Hok He.
  - inversion He; subst. reflexivity.
  - apply andb_true_iff in Hok. destruct Hok as [Hx Hl].
    destruct (f x) as [y|] eqn:Ef; [|discriminate].
    destruct (all_opt_snd f l) as [ys|] eqn:El; [|discriminate].
    inversion He; subst. simpl. rewrite (Hfg x y Hx Ef), (IH ys Hl eq_refl). reflexivity.
Qed.

Lemma all_opt_total : forall {A B : Type} (ok : A -> bool) (f : A -> option B),
  (forall x, ok x = true -> exists y, f x = Some y) ->
  forall l, forallb ok l = true -> exists l', all_opt f l = Some l'.
Proof.
  intros A B ok f Hf. induction l as [|x l IH]; simpl; intro Hok.
  - eexists. reflexivity.
  - apply andb_true_iff in Hok. destruct Hok as [Hx Hl].
    destruct (Hf x Hx) as [y Ey]. destruct (IH Hl) as [ys Eys]. rewrite Ey, Eys.
    eexists. reflexivity.
Qed.

Lemma all_opt_snd_total : forall {A B : Type} (ok : A -> bool) (f : A -> option B),
  (forall x, ok x = true -> exists y, f x = Some y) ->
  forall l, forallb (fun kv => ok (snd kv)) l = true -> exists l', all_opt_snd f l = Some l'.
Proof.
  intros A B ok f Hf. induction l as [|[k x] l IH]; simpl; intro Hok.
  - eexists. reflexivity.
  - apply andb_true_iff in Hok. destruct Hok as [Hx Hl].
    destruct (Hf x Hx) as [y Ey]. destruct (IH Hl) as [ys Eys]. rewrite Ey, Eys.
    eexists. reflexivity.
Qed.

Lemma all_opt_typed : forall {A B : Type} (ok : B -> bool) (f : A -> option B),
  (forall x y, f x = Some y -> ok y = true) ->
  forall l l', all_opt f l = Some l' -> forallb ok l' = true.
Proof.
  intros A B ok f Hf. induction l as [|x l IH]; simpl; intros l' He.
  - inversion He; subst. reflexivity.
  - destruct (f x) as [y|] eqn:Ef; [|discriminate].
    destruct (all_opt f l) as [ys|] eqn:El; [|discriminate].
    inversion He; subst. simpl. rewrite (Hf x y Ef), (IH ys eq_refl). reflexivity.
Qed.

Lemma all_opt_snd_typed : forall {A B : Type} (ok : B -> bool) (f : A -> option B),
  (forall x y, f x = Some y -> ok y = true) ->
  forall l l', all_opt_snd f l = Some l' -> forallb (fun kv => ok (snd kv)) l' = true.
Proof.
  intros A B ok f Hf. induction l as [|[k x] l IH]; simpl; intros l' He.
  - inversion He; subst. reflexivity.
  - destruct (f x) as [y|] eqn:Ef; [|discriminate].
    destruct (all_opt_snd f l) as [ys|] eqn:El; [|discriminate].
    inversion He; subst. simpl. rewrite (Hf x y Ef), (IH ys eq_refl). reflexivity.
Qed.

(* ================= canonical maps ================= *)

Lemma ins_keep_head : forall {A : Type} k (v : A) r, sorted_gt k r = true -> ins_keep k v r = (k, v) :: r.
Proof.
  intros A k v [|[k' v'] r] H; simpl in *; [reflexivity|].
  apply andb_true_iff in H. destruct H as [H _]. rewrite H. reflexivity.
Qed.

Lemma canon_sorted_id : forall {A : Type} (l : list (bytes * A)), sorted_keys l = true -> canon_map l = l.
Proof.
  intros A. induction l as [|[k v] l IH]; intro H; [reflexivity|].
  unfold canon_map in *. simpl in *.
  assert (Hl : sorted_keys l = true).
  { destruct l as [|[k' v'] l']; simpl in *; [reflexivity|].
    apply andb_true_iff in H. tauto. }
  rewrite (IH Hl). apply ins_keep_head. exact H.
Qed.

Lemma ins_keep_sorted_gt : forall {A : Type} k (v : A) l lo,
  sorted_gt lo l = true -> bytes_ltb lo k = true -> sorted_gt lo (ins_keep k v l) = true.
Proof.
  intros A k v. induction l as [|[k' v'] l IH]; simpl; intros lo Hs Hlo.
  - rewrite Hlo. reflexivity.
  - apply andb_true_iff in Hs. destruct Hs as [H1 H2].
    destruct (bytes_ltb k k') eqn:E1.
    + simpl. rewrite Hlo, E1, H2. reflexivity.
    + destruct (bytes_eqb k k') eqn:E2.
      * simpl. rewrite H1, H2. reflexivity.
      * simpl. rewrite H1. simpl. apply IH; [exact H2|].
        apply ltb_total; [exact E1|]. apply bytes_eqb_neq. exact E2.
Qed.

Lemma ins_keep_sorted : forall {A : Type} k (v : A) l,
  sorted_keys l = true -> sorted_keys (ins_keep k v l) = true.
Proof.
  intros A k v [|[k' v'] l] Hs; simpl in *; [reflexivity|].
  destruct (bytes_ltb k k') eqn:E1.
  - simpl. rewrite E1, Hs. reflexivity.
  - destruct (bytes_eqb k k') eqn:E2; simpl; [exact Hs|].
    apply ins_keep_sorted_gt; [exact Hs|].
    apply ltb_total; [exact E1|]. apply bytes_eqb_neq. exact E2.
Qed.

Lemma canon_sorted : forall {A : Type} (l : list (bytes * A)), sorted_keys (canon_map l) = true.
Proof.
  intros A. induction l as [|[k v] l IH]; [reflexivity|].
  unfold canon_map in *. simpl. apply ins_keep_sorted. exact IH.
Qed.

Lemma ins_keep_forallb : forall {A : Type} (P : bytes * A -> bool) k v l,
  P (k, v) = true -> forallb P l = true -> forallb P (ins_keep k v l) = true.
Proof.
  intros A P k v. induction l as [|[k' v'] l IH]; simpl; intros Hk Hl.
  - rewrite Hk. reflexivity.
  - apply andb_true_iff in Hl. destruct Hl as [H1 H2].
    destruct (bytes_ltb k k'); [simpl; rewrite Hk, H1, H2; reflexivity|].
    destruct (bytes_eqb k k'); simpl; [rewrite H1, H2; reflexivity|].
    rewrite H1, (IH Hk H2). reflexivity.
Qed.

Lemma canon_forallb : forall {A : Type} (P : bytes * A -> bool) l,
  forallb P l = true -> forallb P (canon_map l) = true.
Proof.
  intros A P. induction l as [|[k v] l IH]; simpl; intro H; [reflexivity|].
  apply andb_true_iff in H. destruct H as [H1 H2].
  unfold canon_map in *. simpl. apply ins_keep_forallb; [exact H1|exact (IH H2)].
Qed.

(* ================= struct members ================= *)

Lemma lookup_all_cons : forall n k j m,
  lookup_all n ((k, j) :: m) = if bytes_eqb n k then j :: lookup_all n m else lookup_all n m.
Proof. intros. unfold lookup_all. simpl. destruct (bytes_eqb n k); reflexivity. Qed.

Lemma lookup_all_app : forall n m1 m2, lookup_all n (m1 ++ m2) = lookup_all n m1 ++ lookup_all n m2.
Proof. intros. unfold lookup_all. rewrite filter_app, map_app. reflexivity. Qed.

Lemma lookup_all_notin : forall n m, ~ In n (map fst m) -> lookup_all n m = [].
Proof.
  induction m as [|[k j] m IH]; intro H; [reflexivity|].
  rewrite lookup_all_cons. simpl in H.
  destruct (bytes_eqb n k) eqn:E.
  - apply bytes_eqb_eq in E. subst. exfalso. apply H. left. reflexivity.
  - apply IH. intro Hin. apply H. right. exact Hin.
Qed.

Lemma existsb_eqb_false : forall x l, existsb (bytes_eqb x) l = false -> ~ In x l.
Proof.
  induction l as [|y l IH]; simpl; intros H Hin; [exact Hin|].
  apply orb_false_iff in H. destruct H as [H1 H2]. destruct Hin as [Hin|Hin].
  - subst. rewrite bytes_eqb_refl in H1. discriminate.
  - exact (IH H2 Hin).
Qed.

Lemma enc_fields_keys : forall enc fs vs m, enc_fields enc fs vs = Some m ->
  forall n, In n (map fst m) -> In n (map fst fs).
Proof.
  intros enc. induction fs as [|[n t] fs IH]; destruct vs as [|[n' v] vs]; simpl; intros m He x Hx;
    try discriminate.
  - inversion He; subst. exact Hx.
  - destruct (omitted t v).
    + right. exact (IH vs m He x Hx).
    + destruct (enc t v) as [j|]; [|discriminate].
      destruct (enc_fields enc fs vs) as [m'|] eqn:Em; [|discriminate].
      inversion He; subst. simpl in Hx. destruct Hx as [Hx|Hx]; [left; exact Hx|].
      right. exact (IH vs m' Em x Hx).
Qed.

Lemma fields_rt : forall (ok : ty -> tval -> bool) enc dec zero,
  (forall t v j, ok t v = true -> enc t v = Some j -> dec t j = Some v) ->
  (forall t v, ok t v = true -> omitted t v = true -> zero t = Some v) ->
  forall fs vs m pre,
  nodup_names (map fst fs) = true -> fields_ok ok fs vs = true -> enc_fields enc fs vs = Some m ->
  (forall n, In n (map fst fs) -> lookup_all n pre = []) ->
  dec_fields dec zero fs (pre ++ m) = Some vs.
Proof.
  intros ok enc dec zero Hrt Hz.
  induction fs as [|[n t] fs IH]; destruct vs as [|[n' v] vs]; simpl; intros m pre Hnd Hok He Hpre;
    try discriminate; [reflexivity|].
  apply andb_true_iff in Hnd. destruct Hnd as [Hn Hnd].
  apply negb_true_iff in Hn. apply existsb_eqb_false in Hn.
  apply andb_true_iff in Hok. destruct Hok as [Hok Hoks].
  apply andb_true_iff in Hok. destruct Hok as [Hnn Hv].
  apply bytes_eqb_eq in Hnn. subst n'.
  assert (Hpn : lookup_all n pre = []) by (apply Hpre; left; reflexivity).
  assert (Hpre' : forall x, In x (map fst fs) -> lookup_all x pre = [])
    by (intros x Hx; apply Hpre; right; exact Hx).
  rewrite lookup_all_app, Hpn. simpl.
  destruct (omitted t v) eqn:Eo.
  - rewrite (lookup_all_notin n m)
      by (intro Hin; apply Hn; exact (enc_fields_keys enc fs vs m He n Hin)).
    simpl. rewrite (Hz t v Hv Eo), (IH vs m pre Hnd Hoks He Hpre'). reflexivity.
  - destruct (enc t v) as [j|] eqn:Ej; [|discriminate].
    destruct (enc_fields enc fs vs) as [m'|] eqn:Em; [|discriminate].
    inversion He; subst m. clear He.
    rewrite lookup_all_cons, bytes_eqb_refl.
    rewrite (lookup_all_notin n m')
      by (intro Hin; apply Hn; exact (enc_fields_keys enc fs vs m' Em n Hin)).
    simpl. rewrite (Hrt t v j Hv Ej). simpl.
    change (pre ++ (n, j) :: m') with (pre ++ [(n, j)] ++ m'). rewrite app_assoc.
    rewrite (IH vs m' (pre ++ [(n, j)]) Hnd Hoks Em); [reflexivity|].
    intros x Hx. rewrite lookup_all_app, (Hpre' x Hx), lookup_all_cons. simpl.
    destruct (bytes_eqb x n) eqn:E; [|reflexivity].
    apply bytes_eqb_eq in E. subst x. contradiction.
Qed.

(* ================= round trip ================= *)

Lemma omitted_zero : forall k al t v,
  has_type k al t v = true -> omitted t v = true -> zero_of k al t = Some v.
Proof.
  intros k al t v HT Ho. destruct k as [|k]; [discriminate|].
  unfold omitted in Ho. destruct t; simpl in Ho; try discriminate.
  destruct v as [| | | | | | | |[x|]|]; try discriminate. reflexivity.
Qed.

Ltac dv v := destruct v as [x|tok|tok|s|s|r|[l|]|[m|]|[x|]|vs].

(* a value that is not nullish is not printed as null *)
Lemma enc_not_null : forall k al t v j,
  has_type k al t v = true -> nullish v = false -> encode_typed k al t v = Some j -> j <> JNull.
Proof.
  induction k as [|k IH]; intros al t v j HT HN HE; [discriminate|].
  destruct t as [| | | | |e|e|e|n|fs|ns].
  - dv v; simpl in HT, HE, HN; try discriminate. inversion HE; discriminate.
  - dv v; simpl in HT, HE, HN; try discriminate. inversion HE; discriminate.
  - dv v; simpl in HT, HE, HN; try discriminate. inversion HE; discriminate.
  - dv v; simpl in HT, HE, HN; try discriminate. inversion HE; discriminate.
  - (* object *) dv v; simpl in HT, HE, HN; try discriminate. inversion HE; subst.
    destruct j; discriminate.
  - (* array *) dv v; simpl in HT, HE, HN; try discriminate.
    destruct (all_opt (encode_typed k al e) l); simpl in HE; inversion HE; discriminate.
  - (* maybe *) dv v; simpl in HT, HE, HN; try discriminate.
    apply andb_true_iff in HT. destruct HT as [H1 H2]. apply negb_true_iff in H1.
    exact (IH al e x j H2 H1 HE).
  - (* map *) dv v; simpl in HT, HE, HN; try discriminate.
    destruct (all_opt_snd (encode_typed k al e) m); simpl in HE; inversion HE; discriminate.
  - (* alias *) simpl in HT, HE. destruct (lookup_alias n al) as [body|]; [|discriminate].
    exact (IH al body v j HT HN HE).
  - (* struct *) dv v; simpl in HT, HE, HN; try discriminate.
    destruct (enc_fields (encode_typed k al) fs vs); simpl in HE; inversion HE; discriminate.
  - (* enum *) dv v; simpl in HT, HE, HN; try discriminate. inversion HE; discriminate.
Qed.

Theorem typed_roundtrip : forall fuel al t v j,
  has_type fuel al t v = true -> encode_typed fuel al t v = Some j -> decode_typed fuel al t j = Some v.
Proof.
  induction fuel as [|k IH]; intros al t v j HT HE; [discriminate|].
  destruct t as [| | | | |e|e|e|n|fs|ns].
  - dv v; simpl in HT, HE; try discriminate. inversion HE; subst. reflexivity.
  - dv v; simpl in HT, HE; try discriminate. inversion HE; subst. simpl.
    unfold canon_int. rewrite HT. reflexivity.
  - dv v; simpl in HT, HE; try discriminate. inversion HE; subst. simpl. rewrite HT. reflexivity.
  - dv v; simpl in HT, HE; try discriminate. inversion HE; subst. reflexivity.
  - (* object *) dv v; simpl in HT, HE; try discriminate. inversion HE; subst. reflexivity.
  - (* array *) dv v; simpl in HT, HE; try discriminate.
    + destruct (all_opt (encode_typed k al e) l) as [js|] eqn:El; simpl in HE; [|discriminate].
      inversion HE; subst. simpl.
      rewrite (all_opt_rt (has_type k al e) (encode_typed k al e) (decode_typed k al e) (IH al e) l js HT El).
      reflexivity.
    + inversion HE; subst. reflexivity.
  - (* maybe *) dv v; simpl in HT, HE; try discriminate.
    + apply andb_true_iff in HT. destruct HT as [H1 H2]. apply negb_true_iff in H1.
      pose proof (enc_not_null k al e x j H2 H1 HE) as Hnn.
      pose proof (IH al e x j H2 HE) as Hd.
      simpl. rewrite Hd. destruct j; try reflexivity. congruence.
    + inversion HE; subst. reflexivity.
  - (* map *) dv v; simpl in HT, HE; try discriminate.
    + apply andb_true_iff in HT. destruct HT as [Hs Hm].
      destruct (all_opt_snd (encode_typed k al e) m) as [js|] eqn:El; simpl in HE; [|discriminate].
      inversion HE; subst. simpl.
      rewrite (all_opt_snd_rt (has_type k al e) (encode_typed k al e) (decode_typed k al e) (IH al e) m js Hm El).
      simpl. rewrite (canon_sorted_id m Hs). reflexivity.
    + inversion HE; subst. reflexivity.
  - (* alias *) simpl in HT, HE |- *. destruct (lookup_alias n al) as [body|]; [|discriminate].
    exact (IH al body v j HT HE).
  - (* struct *) dv v; simpl in HT, HE; try discriminate.
    apply andb_true_iff in HT. destruct HT as [Hnd Hok].
    destruct (enc_fields (encode_typed k al) fs vs) as [m|] eqn:Em; simpl in HE; [|discriminate].
    inversion HE; subst. simpl. rewrite Hnd.
    pose proof (fields_rt (has_type k al) (encode_typed k al) (decode_typed k al) (zero_of k al)
                  (IH al) (omitted_zero k al) fs vs m [] Hnd Hok Em (fun _ _ => eq_refl)) as Hd.
    simpl in Hd. rewrite Hd. reflexivity.
  - (* enum *) dv v; simpl in HT, HE; try discriminate. inversion HE; subst. reflexivity.
Qed.
Print Assumptions typed_roundtrip.

(* ================= Marshal is total on typed values ================= *)

Lemma enc_fields_total : forall (ok : ty -> tval -> bool) enc,
  (forall t v, ok t v = true -> exists j, enc t v = Some j) ->
  forall fs vs, fields_ok ok fs vs = true -> exists m, enc_fields enc fs vs = Some m.
Proof.
  intros ok enc Hen. induction fs as [|[n t] fs IH]; destruct vs as [|[n' v] vs]; simpl; intro Hok;
    try discriminate.
  - eexists. reflexivity.
  - apply andb_true_iff in Hok. destruct Hok as [Hok Hoks].
    apply andb_true_iff in Hok. destruct Hok as [_ Hv].
    destruct (IH vs Hoks) as [m Em]. destruct (Hen t v Hv) as [j Ej].
    rewrite Em, Ej. destruct (omitted t v); eexists; reflexivity.
Qed.

Theorem encode_typed_total : forall fuel al t v,
  has_type fuel al t v = true -> exists j, encode_typed fuel al t v = Some j.
Proof.
  induction fuel as [|k IH]; intros al t v HT; [discriminate|].
  destruct t as [| | | | |e|e|e|n|fs|ns].
  - dv v; simpl in HT |- *; try discriminate. eexists; reflexivity.
  - dv v; simpl in HT |- *; try discriminate. eexists; reflexivity.
  - dv v; simpl in HT |- *; try discriminate. eexists; reflexivity.
  - dv v; simpl in HT |- *; try discriminate. eexists; reflexivity.
  - dv v; simpl in HT |- *; try discriminate. eexists; reflexivity.
  - (* array *) dv v; simpl in HT |- *; try discriminate; [|eexists; reflexivity].
    destruct (all_opt_total (has_type k al e) (encode_typed k al e) (IH al e) l HT) as [js Ejs].
    rewrite Ejs. eexists; reflexivity.
  - (* maybe *) dv v; simpl in HT |- *; try discriminate; [|eexists; reflexivity].
    apply andb_true_iff in HT. destruct HT as [_ H2]. exact (IH al e x H2).
  - (* map *) dv v; simpl in HT |- *; try discriminate; [|eexists; reflexivity].
    apply andb_true_iff in HT. destruct HT as [_ Hm].
    destruct (all_opt_snd_total (has_type k al e) (encode_typed k al e) (IH al e) m Hm) as [js Ejs].
    rewrite Ejs. eexists; reflexivity.
  - (* alias *) simpl in HT |- *. destruct (lookup_alias n al) as [body|]; [|discriminate].
    exact (IH al body v HT).
  - (* struct *) dv v; simpl in HT |- *; try discriminate.
    apply andb_true_iff in HT. destruct HT as [_ Hok].
    destruct (enc_fields_total (has_type k al) (encode_typed k al) (IH al) fs vs Hok) as [m Em].
    rewrite Em. eexists; reflexivity.
  - dv v; simpl in HT |- *; try discriminate. eexists; reflexivity.
Qed.
Print Assumptions encode_typed_total.

(* ================= the member names of an encoded struct ================= *)

(* the declared names, in declaration order, of the fields that are not a nil optional *)
Definition present_names (fs : list (bytes * ty)) (vs : list (bytes * tval)) : list bytes :=
  map (fun fv => fst (fst fv)) (filter (fun fv => negb (omitted (snd (fst fv)) (snd (snd fv)))) (combine fs vs)).

Lemma enc_fields_names : forall enc fs vs m,
  enc_fields enc fs vs = Some m -> map fst m = present_names fs vs.
Proof.
  intros enc. unfold present_names.
  induction fs as [|[n t] fs IH]; destruct vs as [|[n' v] vs]; simpl; intros m He; try discriminate.
  - inversion He; subst. reflexivity.
  - destruct (omitted t v); simpl.
    + exact (IH vs m He).
    + destruct (enc t v) as [j|]; [|discriminate].
      destruct (enc_fields enc fs vs) as [m'|] eqn:Em; [|discriminate].
      inversion He; subst. simpl. rewrite (IH vs m' Em). reflexivity.
Qed.

Lemma enc_fields_nodup : forall enc fs vs m,
  nodup_names (map fst fs) = true -> enc_fields enc fs vs = Some m -> NoDup (map fst m).
Proof.
  intros enc. induction fs as [|[n t] fs IH]; destruct vs as [|[n' v] vs]; simpl; intros m Hnd He;
    try discriminate.
  - inversion He; subst. constructor.
  - apply andb_true_iff in Hnd. destruct Hnd as [Hn Hnd].
    apply negb_true_iff in Hn. apply existsb_eqb_false in Hn.
    destruct (omitted t v); [exact (IH vs m Hnd He)|].
    destruct (enc t v) as [j|]; [|discriminate].
    destruct (enc_fields enc fs vs) as [m'|] eqn:Em; [|discriminate].
    inversion He; subst. simpl. constructor; [|exact (IH vs m' Hnd Em)].
    intro Hin. apply Hn. exact (enc_fields_keys enc fs vs m' Em n Hin).
Qed.

Theorem struct_keys_exact : forall fuel al fs vs j,
  has_type fuel al (TStruct fs) (VStruct vs) = true ->
  encode_typed fuel al (TStruct fs) (VStruct vs) = Some j ->
  exists m, j = JObj m /\ map fst m = present_names fs vs /\
            NoDup (map fst m) /\ (forall n, In n (map fst m) -> In n (map fst fs)).
Proof.
  intros fuel al fs vs j HT HE. destruct fuel as [|k]; [discriminate|]. simpl in HT, HE.
  apply andb_true_iff in HT. destruct HT as [Hnd _].
  destruct (enc_fields (encode_typed k al) fs vs) as [m|] eqn:Em; simpl in HE; [|discriminate].
  inversion HE; subst. exists m. split; [reflexivity|]. split; [|split].
  - exact (enc_fields_names _ fs vs m Em).
  - exact (enc_fields_nodup _ fs vs m Hnd Em).
  - exact (enc_fields_keys _ fs vs m Em).
Qed.
Print Assumptions struct_keys_exact.

(* ================= Unmarshal yields canonical values ================= *)

Lemma zero_fields_ok : forall (ok : ty -> tval -> bool) zero,
  (forall t v, zero t = Some v -> ok t v = true) ->
  forall fs vs, zero_fields zero fs = Some vs -> fields_ok ok fs vs = true.
Proof.
  intros ok zero Hz. induction fs as [|[n t] fs IH]; simpl; intros vs He.
  - inversion He; subst. reflexivity.
  - destruct (zero t) as [v|] eqn:Ev; [|discriminate].
    destruct (zero_fields zero fs) as [r|] eqn:Er; [|discriminate].
    inversion He; subst. simpl. rewrite bytes_eqb_refl, (Hz t v Ev), (IH r eq_refl). reflexivity.
Qed.

Lemma zero_typed : forall k al t v, zero_of k al t = Some v -> has_type k al t v = true.
Proof.
  induction k as [|k IH]; intros al t v Hz; [discriminate|].
  destruct t as [| | | | |e|e|e|n|fs|ns]; simpl in Hz; try (inversion Hz; subst; reflexivity).
  - simpl. destruct (lookup_alias n al) as [body|]; [|discriminate]. exact (IH al body v Hz).
  - destruct (nodup_names (map fst fs)) eqn:Hnd; [|discriminate].
    destruct (zero_fields (zero_of k al) fs) as [vs|] eqn:Ef; simpl in Hz; [|discriminate].
    inversion Hz; subst. simpl. rewrite Hnd.
    exact (zero_fields_ok (has_type k al) (zero_of k al) (IH al) fs vs Ef).
Qed.

Lemma last_opt_forallb : forall {A : Type} (P : A -> bool) l x,
  forallb P l = true -> last_opt l = Some x -> P x = true.
Proof.
  intros A P. induction l as [|y l IH]; intros x Hl He; [discriminate|].
  simpl in Hl. apply andb_true_iff in Hl. destruct Hl as [Hy Hl].
  destruct l as [|z l'].
  - simpl in He. inversion He; subst. exact Hy.
  - apply IH; [exact Hl|exact He].
Qed.

Lemma dec_fields_ok : forall (ok : ty -> tval -> bool) dec zero,
  (forall t j v, dec t j = Some v -> ok t v = true) ->
  (forall t v, zero t = Some v -> ok t v = true) ->
  forall m fs vs, dec_fields dec zero fs m = Some vs -> fields_ok ok fs vs = true.
Proof.
  intros ok dec zero Hd Hz m. induction fs as [|[n t] fs IH]; simpl; intros vs He.
  - inversion He; subst. reflexivity.
  - destruct (all_opt (dec t) (lookup_all n m)) as [xs|] eqn:Ex; [|discriminate].
    pose proof (all_opt_typed (ok t) (dec t) (Hd t) _ _ Ex) as Hxs.
    destruct (last_opt xs) as [x|] eqn:El.
    + destruct (dec_fields dec zero fs m) as [r|] eqn:Er; [|discriminate].
      inversion He; subst. simpl.
      rewrite bytes_eqb_refl, (last_opt_forallb (ok t) xs x Hxs El), (IH r eq_refl). reflexivity.
    + destruct (zero t) as [z|] eqn:Ez; [|discriminate].
      destruct (dec_fields dec zero fs m) as [r|] eqn:Er; [|discriminate].
      inversion He; subst. simpl.
      rewrite bytes_eqb_refl, (Hz t z Ez), (IH r eq_refl). reflexivity.
Qed.

Lemma canon_int_ok : forall tok t', canon_int tok = Some t' -> int64_tok_ok t' = true.
Proof.
  intros tok t' H. unfold canon_int in H. destruct (int64_tok_ok tok) eqn:E.
  - inversion H; subst. exact E.
  - destruct (bytes_eqb tok [45; 48]); [|discriminate]. inversion H; subst. reflexivity.
Qed.

(* what is decoded from something other than null does not print as null *)
Lemma dec_not_nullish : forall k al t j x,
  decode_typed k al t j = Some x -> j <> JNull -> nullish x = false.
Proof.
  induction k as [|k IH]; intros al t j x HD HN; [discriminate|].
  destruct t as [| | | | |e|e|e|n|fs|ns]; simpl in HD.
  - destruct j; try discriminate; try congruence; inversion HD; reflexivity.
  - destruct j; try discriminate; try congruence.
    destruct (canon_int tok); simpl in HD; inversion HD; reflexivity.
  - destruct j; try discriminate; try congruence.
    destruct (num_ok tok); inversion HD; reflexivity.
  - destruct j; try discriminate; try congruence; inversion HD; reflexivity.
  - inversion HD; subst. destruct j; try reflexivity. congruence.
  - destruct j; try discriminate; try congruence.
    destruct (all_opt (decode_typed k al e) l); simpl in HD; inversion HD; reflexivity.
  - destruct j; try congruence;
      match type of HD with option_map _ ?d = _ => destruct d; simpl in HD; inversion HD; reflexivity end.
  - destruct j; try discriminate; try congruence.
    destruct (all_opt_snd (decode_typed k al e) m); simpl in HD; inversion HD; reflexivity.
  - destruct (lookup_alias n al) as [body|]; [|discriminate]. exact (IH al body j x HD HN).
  - destruct j; try discriminate; try congruence.
    destruct (nodup_names (map fst fs)); [|discriminate].
    destruct (dec_fields (decode_typed k al) (zero_of k al) fs m); simpl in HD; inversion HD; reflexivity.
  - destruct j; try discriminate; try congruence; inversion HD; reflexivity.
Qed.

Theorem decode_encode_canonical : forall fuel al t j v,
  decode_typed fuel al t j = Some v -> has_type fuel al t v = true.
Proof.
  induction fuel as [|k IH]; intros al t j v HD; [discriminate|].
  destruct t as [| | | | |e|e|e|n|fs|ns]; simpl in HD.
  - destruct j; try discriminate; inversion HD; reflexivity.
  - destruct j; try discriminate; [inversion HD; reflexivity|].
    destruct (canon_int tok) as [t'|] eqn:Ec; simpl in HD; [|discriminate].
    inversion HD; subst. simpl. exact (canon_int_ok tok t' Ec).
  - destruct j; try discriminate; [inversion HD; reflexivity|].
    destruct (num_ok tok) eqn:En; [|discriminate]. inversion HD; subst. exact En.
  - destruct j; try discriminate; inversion HD; reflexivity.
  - inversion HD; reflexivity.
  - (* array *) destruct j; try discriminate; [inversion HD; reflexivity|].
    destruct (all_opt (decode_typed k al e) l) as [xs|] eqn:El; simpl in HD; [|discriminate].
    inversion HD; subst. simpl.
    exact (all_opt_typed (has_type k al e) (decode_typed k al e) (IH al e) l xs El).
  - (* maybe *)
    assert (Hgen : j <> JNull -> option_map (fun x => VOpt (Some x)) (decode_typed k al e j) = Some v ->
                   has_type (S k) al (TMaybe e) v = true).
    { intros HN H. destruct (decode_typed k al e j) as [x|] eqn:Ex; simpl in H; [|discriminate].
      inversion H; subst. simpl.
      rewrite (dec_not_nullish k al e j x Ex HN), (IH al e j x Ex). reflexivity. }
    destruct j; try (apply Hgen; [discriminate|exact HD]).
    inversion HD; reflexivity.
  - (* map *) destruct j; try discriminate; [inversion HD; reflexivity|].
    destruct (all_opt_snd (decode_typed k al e) m) as [xs|] eqn:El; simpl in HD; [|discriminate].
    inversion HD; subst. simpl. rewrite canon_sorted. simpl.
    apply canon_forallb.
    exact (all_opt_snd_typed (has_type k al e) (decode_typed k al e) (IH al e) m xs El).
  - (* alias *) simpl. destruct (lookup_alias n al) as [body|]; [|discriminate].
    exact (IH al body j v HD).
  - (* struct *) destruct j; try discriminate.
    + (* null: the zero struct *) apply zero_typed. exact HD.
    + destruct (nodup_names (map fst fs)) eqn:Hnd; [|discriminate].
      destruct (dec_fields (decode_typed k al) (zero_of k al) fs m) as [vs|] eqn:Ef; simpl in HD; [|discriminate].
      inversion HD; subst. simpl. rewrite Hnd. simpl.
      exact (dec_fields_ok (has_type k al) (decode_typed k al) (zero_of k al)
               (IH al) (zero_typed k al) m fs vs Ef).
  - destruct j; try discriminate; inversion HD; reflexivity.
Qed.
Print Assumptions decode_encode_canonical.

(* ================= examples ================= *)

Module TypedExamples.
Import String.
Local Open Scope string_scope.

(* (a: ?int, b: ?string, c: bool) with a nil and b set *)
Definition T1 := TStruct [(b "a", TMaybe TInt); (b "b", TMaybe TString); (b "c", TBool)].
Definition v1 := VStruct [(b "a", VOpt None); (b "b", VOpt (Some (VStr (b "x")))); (b "c", VBool true)].

(* the nil optional is omitted; an explicit null, an absent member, an unknown
   member and a duplicate (last wins) on the way back *)
Example ex_optional_fields :
  has_type 3 [] T1 v1 = true /\
  encode_typed 3 [] T1 v1 = Some (JObj [(b "b", JStr (b "x")); (b "c", JBool true)]) /\
  decode_typed 3 [] T1 (JObj [(b "b", JStr (b "x")); (b "c", JBool true)]) = Some v1 /\
  decode_typed 3 [] T1 (JObj [(b "c", JBool false); (b "zzz", JArr []); (b "a", JNull);
                              (b "b", JStr (b "x")); (b "c", JBool true)]) = Some v1 /\
  (* a missing non-optional member is the zero value *)
  decode_typed 3 [] T1 (JObj []) = Some (VStruct [(b "a", VOpt None); (b "b", VOpt None); (b "c", VBool false)]) /\
  (* a type error in an overwritten duplicate still fails *)
  decode_typed 3 [] T1 (JObj [(b "c", JStr (b "no")); (b "c", JBool true)]) = None.
Proof. vm_compute. repeat split. Qed.

(* [][](n: int, tags: []string): nested arrays of structs, nil and empty slices differ *)
Definition T2 := TArray (TArray (TStruct [(b "n", TInt); (b "tags", TArray TString)])).
Definition v2 := VArr (Some [VArr (Some [VStruct [(b "n", VInt (b "-7")); (b "tags", VArr None)];
                                        VStruct [(b "n", VInt (b "0")); (b "tags", VArr (Some []))]]);
                             VArr None; VArr (Some [])]).
Definition j2 := JArr [JArr [JObj [(b "n", JNum (b "-7")); (b "tags", JNull)];
                             JObj [(b "n", JNum (b "0")); (b "tags", JArr [])]];
                       JNull; JArr []].
Example ex_nested_arrays :
  has_type 5 [] T2 v2 = true /\ encode_typed 5 [] T2 v2 = Some j2 /\ decode_typed 5 [] T2 j2 = Some v2.
Proof. vm_compute. repeat split. Qed.

(* [string]int: unsorted input with a duplicate decodes to the sorted map, last duplicate wins,
   "-0" reads as 0; Marshal then emits the keys in sorted order *)
Example ex_map_sorted :
  decode_typed 3 [] (TMap TInt) (JObj [(b "b", JNum (b "1")); (b "ab", JNum (b "2")); (b "", JNum (b "3"));
                                       (b "b", JNum (b "-0"))])
    = Some (VMap (Some [(b "", VInt (b "3")); (b "ab", VInt (b "2")); (b "b", VInt (b "0"))])) /\
  encode_typed 3 [] (TMap TInt) (VMap (Some [(b "", VInt (b "3")); (b "ab", VInt (b "2")); (b "b", VInt (b "0"))]))
    = Some (JObj [(b "", JNum (b "3")); (b "ab", JNum (b "2")); (b "b", JNum (b "0"))]) /\
  has_type 3 [] (TMap TInt) (VMap (Some [(b "b", VInt (b "1")); (b "ab", VInt (b "2"))])) = false /\
  decode_typed 3 [] (TMap TInt) JNull = Some (VMap None).
Proof. vm_compute. repeat split. Qed.

(* type Node (v: int, next: ?Node): an alias referring to itself through an optional *)
Definition AL := [(b "Node", TStruct [(b "v", TInt); (b "next", TMaybe (TAlias (b "Node")))])].
Definition node1 := VStruct [(b "v", VInt (b "1")); (b "next", VOpt None)].
Definition node2 := VStruct [(b "v", VInt (b "2")); (b "next", VOpt (Some node1))].
Definition jnode2 := JObj [(b "v", JNum (b "2")); (b "next", JObj [(b "v", JNum (b "1"))])].
Example ex_recursive_alias :
  has_type 8 AL (TAlias (b "Node")) node2 = true /\
  encode_typed 8 AL (TAlias (b "Node")) node2 = Some jnode2 /\
  decode_typed 8 AL (TAlias (b "Node")) jnode2 = Some node2 /\
  zero_of 8 AL (TAlias (b "Node")) = Some (VStruct [(b "v", VInt (b "0")); (b "next", VOpt None)]) /\
  call_params AL [(b "head", TMaybe (TAlias (b "Node"))); (b "n", TInt)] [VOpt (Some node2); VInt (b "5")]
    = Some (JObj [(b "head", jnode2); (b "n", JNum (b "5"))]) /\
  (* too little fuel, an unknown alias, a directly recursive alias (no zero value) *)
  encode_typed 5 AL (TAlias (b "Node")) node2 = None /\
  encode_typed 8 [] (TAlias (b "Node")) node2 = None /\
  zero_of 50 [(b "L", TStruct [(b "next", TAlias (b "L"))])] (TAlias (b "L")) = None.
Proof. vm_compute. repeat split. Qed.

(* why has_type asks for canonical values: without the side conditions the
   round trip statement is false *)
Example cex_pointer_to_null :   (* ?object, a non-nil pointer to the raw message null *)
  encode_typed 3 [] (TMaybe TObject) (VOpt (Some (VRaw JNull))) = Some JNull /\
  decode_typed 3 [] (TMaybe TObject) JNull = Some (VOpt None) /\
  encode_typed 3 [] (TMaybe (TArray TInt)) (VOpt (Some (VArr None))) = Some JNull /\
  decode_typed 3 [] (TMaybe (TArray TInt)) JNull = Some (VOpt None) /\
  has_type 3 [] (TMaybe TObject) (VOpt (Some (VRaw JNull))) = false.
Proof. vm_compute. repeat split. Qed.

Example cex_duplicate_field_names :
  let t := TStruct [(b "a", TInt); (b "a", TInt)] in
  let v := VStruct [(b "a", VInt (b "1")); (b "a", VInt (b "2"))] in
  encode_typed 3 [] t v = Some (JObj [(b "a", JNum (b "1")); (b "a", JNum (b "2"))]) /\
  has_type 3 [] t v = false.
Proof. vm_compute. repeat split. Qed.

Example ex_int64_tokens :
  map int64_tok_ok [b "0"; b "-1"; b "9223372036854775807"; b "-9223372036854775808"] = [true; true; true; true] /\
  map int64_tok_ok [b ""; b "-"; b "-0"; b "01"; b "+1"; b "1.0"; b "1e3"; b "9223372036854775808"; b "-9223372036854775809"]
    = [false; false; false; false; false; false; false; false; false] /\
  decode_typed 1 [] TInt (JNum (b "1.0")) = None /\ decode_typed 1 [] TFloat (JNum (b "1.0")) = Some (VFloat (b "1.0")).
Proof. vm_compute. repeat split. Qed.
End TypedExamples.

(* ================= fuel is only fuel ================= *)

Lemma forallb_impl : forall {A : Type} (P Q : A -> bool),
  (forall x, P x = true -> Q x = true) -> forall l, forallb P l = true -> forallb Q l = true.
Proof.
  intros A P Q H. induction l as [|x l IH]; simpl; intro Hl; [reflexivity|].
  apply andb_true_iff in Hl. destruct Hl as [H1 H2]. rewrite (H x H1), (IH H2). reflexivity.
Qed.

Lemma all_opt_ext : forall {A B : Type} (f g : A -> option B),
  (forall x y, f x = Some y -> g x = Some y) ->
  forall l l', all_opt f l = Some l' -> all_opt g l = Some l'.
Proof.
  intros A B f g H. induction l as [|x l IH]; simpl; intros l' He; [exact He|].
  destruct (f x) as [y|] eqn:Ef; [|discriminate].
  destruct (all_opt f l) as [ys|] eqn:El; [|discriminate].
  rewrite (H x y Ef), (IH ys eq_refl). exact He.
Qed.

Lemma all_opt_snd_ext : forall {A B : Type} (f g : A -> option B),
  (forall x y, f x = Some y -> g x = Some y) ->
  forall l l', all_opt_snd f l = Some l' -> all_opt_snd g l = Some l'.
Proof.
  intros A B f g H. induction l as [|[k x] l IH]; simpl; intros l' He; [exact He|].
  destruct (f x) as [y|] eqn:Ef; [|discriminate].
  destruct (all_opt_snd f l) as [ys|] eqn:El; [|discriminate].
  rewrite (H x y Ef), (IH ys eq_refl). exact He.
Qed.

Lemma fields_ok_impl : forall (P Q : ty -> tval -> bool),
  (forall t v, P t v = true -> Q t v = true) ->
  forall fs vs, fields_ok P fs vs = true -> fields_ok Q fs vs = true.
Proof.
  intros P Q H. induction fs as [|[n t] fs IH]; destruct vs as [|[n' v] vs]; simpl; intro Hf;
    try discriminate; [reflexivity|].
  apply andb_true_iff in Hf. destruct Hf as [Hf H3]. apply andb_true_iff in Hf. destruct Hf as [H1 H2].
  rewrite H1, (H t v H2), (IH vs H3). reflexivity.
Qed.

Lemma enc_fields_ext : forall (f g : ty -> tval -> option jvalue),
  (forall t v j, f t v = Some j -> g t v = Some j) ->
  forall fs vs m, enc_fields f fs vs = Some m -> enc_fields g fs vs = Some m.
Proof.
  intros f g H. induction fs as [|[n t] fs IH]; destruct vs as [|[n' v] vs]; simpl; intros m He;
    try discriminate; [exact He|].
  destruct (omitted t v); [exact (IH vs m He)|].
  destruct (f t v) as [j|] eqn:Ej; [|discriminate].
  destruct (enc_fields f fs vs) as [m'|] eqn:Em; [|discriminate].
  rewrite (H t v j Ej), (IH vs m' Em). exact He.
Qed.

Lemma zero_fields_ext : forall (f g : ty -> option tval),
  (forall t v, f t = Some v -> g t = Some v) ->
  forall fs vs, zero_fields f fs = Some vs -> zero_fields g fs = Some vs.
Proof.
  intros f g H. induction fs as [|[n t] fs IH]; simpl; intros vs He; [exact He|].
  destruct (f t) as [v|] eqn:Ev; [|discriminate].
  destruct (zero_fields f fs) as [r|] eqn:Er; [|discriminate].
  rewrite (H t v Ev), (IH r eq_refl). exact He.
Qed.

Lemma dec_fields_ext : forall (f g : ty -> jvalue -> option tval) (zf zg : ty -> option tval),
  (forall t j v, f t j = Some v -> g t j = Some v) ->
  (forall t v, zf t = Some v -> zg t = Some v) ->
  forall m fs vs, dec_fields f zf fs m = Some vs -> dec_fields g zg fs m = Some vs.
Proof.
  intros f g zf zg H Hz m. induction fs as [|[n t] fs IH]; simpl; intros vs He; [exact He|].
  destruct (all_opt (f t) (lookup_all n m)) as [xs|] eqn:Ex; [|discriminate].
  rewrite (all_opt_ext (f t) (g t) (H t) _ _ Ex).
  destruct (last_opt xs) as [x|].
  - destruct (dec_fields f zf fs m) as [r|] eqn:Er; [|discriminate].
    rewrite (IH r eq_refl). exact He.
  - destruct (zf t) as [z|] eqn:Ez; [|discriminate]. rewrite (Hz t z Ez).
    destruct (dec_fields f zf fs m) as [r|] eqn:Er; [|discriminate].
    rewrite (IH r eq_refl). exact He.
Qed.

Lemma has_type_S : forall k al t v, has_type k al t v = true -> has_type (S k) al t v = true.
Proof.
  induction k as [|k IH]; intros al t v HT; [discriminate|].
  destruct t as [| | | | |e|e|e|n|fs|ns].
  all: try (dv v; simpl in HT; try discriminate; cbn [has_type]; try reflexivity; try exact HT; fail).
  - dv v; simpl in HT; try discriminate; [|reflexivity].
    change (forallb (has_type (S k) al e) l = true).
    exact (forallb_impl _ _ (IH al e) l HT).
  - dv v; simpl in HT; try discriminate; [|reflexivity].
    apply andb_true_iff in HT. destruct HT as [H1 H2].
    change (negb (nullish x) && has_type (S k) al e x = true). rewrite H1, (IH al e x H2). reflexivity.
  - dv v; simpl in HT; try discriminate; [|reflexivity].
    apply andb_true_iff in HT. destruct HT as [H1 H2].
    change (sorted_keys m && forallb (fun kv => has_type (S k) al e (snd kv)) m = true).
    rewrite H1. simpl. exact (forallb_impl _ _ (fun kv => IH al e (snd kv)) m H2).
  - simpl in HT. change (match lookup_alias n al with Some body => has_type (S k) al body v | None => false end = true).
    destruct (lookup_alias n al) as [body|]; [|discriminate]. exact (IH al body v HT).
  - dv v; simpl in HT; try discriminate.
    apply andb_true_iff in HT. destruct HT as [H1 H2].
    change (nodup_names (map fst fs) && fields_ok (has_type (S k) al) fs vs = true).
    rewrite H1. simpl. exact (fields_ok_impl _ _ (IH al) fs vs H2).
Qed.

Lemma encode_typed_S : forall k al t v j, encode_typed k al t v = Some j -> encode_typed (S k) al t v = Some j.
Proof.
  induction k as [|k IH]; intros al t v j HE; [discriminate|].
  destruct t as [| | | | |e|e|e|n|fs|ns].
  all: try (dv v; simpl in HE; try discriminate; exact HE).
  - dv v; simpl in HE; try discriminate; [|exact HE].
    change (option_map JArr (all_opt (encode_typed (S k) al e) l) = Some j).
    destruct (all_opt (encode_typed k al e) l) as [js|] eqn:El; [|discriminate].
    rewrite (all_opt_ext _ _ (IH al e) l js El). exact HE.
  - dv v; simpl in HE; try discriminate; [|exact HE].
    change (encode_typed (S k) al e x = Some j). exact (IH al e x j HE).
  - dv v; simpl in HE; try discriminate; [|exact HE].
    change (option_map JObj (all_opt_snd (encode_typed (S k) al e) m) = Some j).
    destruct (all_opt_snd (encode_typed k al e) m) as [js|] eqn:El; [|discriminate].
    rewrite (all_opt_snd_ext _ _ (IH al e) m js El). exact HE.
  - simpl in HE. change (match lookup_alias n al with Some body => encode_typed (S k) al body v | None => None end = Some j).
    destruct (lookup_alias n al) as [body|]; [|discriminate]. exact (IH al body v j HE).
  - dv v; simpl in HE; try discriminate.
    change (option_map JObj (enc_fields (encode_typed (S k) al) fs vs) = Some j).
    destruct (enc_fields (encode_typed k al) fs vs) as [m|] eqn:Em; [|discriminate].
    rewrite (enc_fields_ext _ _ (IH al) fs vs m Em). exact HE.
Qed.

Lemma zero_of_S : forall k al t v, zero_of k al t = Some v -> zero_of (S k) al t = Some v.
Proof.
  induction k as [|k IH]; intros al t v HZ; [discriminate|].
  destruct t as [| | | | |e|e|e|n|fs|ns]; simpl in HZ; try exact HZ.
  - change (match lookup_alias n al with Some body => zero_of (S k) al body | None => None end = Some v).
    destruct (lookup_alias n al) as [body|]; [|discriminate]. exact (IH al body v HZ).
  - change ((if nodup_names (map fst fs) then option_map VStruct (zero_fields (zero_of (S k) al) fs) else None) = Some v).
    destruct (nodup_names (map fst fs)); [|discriminate].
    destruct (zero_fields (zero_of k al) fs) as [vs|] eqn:Ef; [|discriminate].
    rewrite (zero_fields_ext _ _ (IH al) fs vs Ef). exact HZ.
Qed.

Lemma decode_typed_S : forall k al t j v, decode_typed k al t j = Some v -> decode_typed (S k) al t j = Some v.
Proof.
  induction k as [|k IH]; intros al t j v HD; [discriminate|].
  destruct t as [| | | | |e|e|e|n|fs|ns]; simpl in HD; try exact HD.
  - destruct j; try discriminate; [exact HD|].
    change (option_map (fun xs => VArr (Some xs)) (all_opt (decode_typed (S k) al e) l) = Some v).
    destruct (all_opt (decode_typed k al e) l) as [xs|] eqn:El; [|discriminate].
    rewrite (all_opt_ext _ _ (IH al e) l xs El). exact HD.
  - assert (Hgen : option_map (fun x => VOpt (Some x)) (decode_typed k al e j) = Some v ->
                   option_map (fun x => VOpt (Some x)) (decode_typed (S k) al e j) = Some v).
    { intro H. destruct (decode_typed k al e j) as [x|] eqn:Ex; [|discriminate].
      rewrite (IH al e j x Ex). exact H. }
    destruct j; try exact (Hgen HD). exact HD.
  - destruct j; try discriminate; [exact HD|].
    change (option_map (fun xs => VMap (Some (canon_map xs))) (all_opt_snd (decode_typed (S k) al e) m) = Some v).
    destruct (all_opt_snd (decode_typed k al e) m) as [xs|] eqn:El; [|discriminate].
    rewrite (all_opt_snd_ext _ _ (IH al e) m xs El). exact HD.
  - change (match lookup_alias n al with Some body => decode_typed (S k) al body j | None => None end = Some v).
    destruct (lookup_alias n al) as [body|]; [|discriminate]. exact (IH al body j v HD).
  - destruct j; try discriminate.
    + change (zero_of (S (S k)) al (TStruct fs) = Some v). apply zero_of_S. exact HD.
    + change ((if nodup_names (map fst fs)
               then option_map VStruct (dec_fields (decode_typed (S k) al) (zero_of (S k) al) fs m)
               else None) = Some v).
      destruct (nodup_names (map fst fs)); [|discriminate].
      destruct (dec_fields (decode_typed k al) (zero_of k al) fs m) as [vs|] eqn:Ef; [|discriminate].
      rewrite (dec_fields_ext _ _ _ _ (IH al) (zero_of_S k al) m fs vs Ef). exact HD.
Qed.

Theorem has_type_fuel_mono : forall k k' al t v, (k <= k')%nat ->
  has_type k al t v = true -> has_type k' al t v = true.
Proof. intros k k' al t v Hle. induction Hle as [|k' Hle IH]; intro H; [exact H|]. apply has_type_S. exact (IH H). Qed.

Theorem encode_typed_fuel_mono : forall k k' al t v j, (k <= k')%nat ->
  encode_typed k al t v = Some j -> encode_typed k' al t v = Some j.
Proof. intros k k' al t v j Hle. induction Hle as [|k' Hle IH]; intro H; [exact H|]. apply encode_typed_S. exact (IH H). Qed.

Theorem decode_typed_fuel_mono : forall k k' al t j v, (k <= k')%nat ->
  decode_typed k al t j = Some v -> decode_typed k' al t j = Some v.
Proof. intros k k' al t j v Hle. induction Hle as [|k' Hle IH]; intro H; [exact H|]. apply decode_typed_S. exact (IH H). Qed.

(* the round trip with three unrelated amounts of fuel *)
Theorem typed_roundtrip_any_fuel : forall k1 k2 k3 al t v j,
  has_type k1 al t v = true -> encode_typed k2 al t v = Some j ->
  (k1 <= k3)%nat -> (k2 <= k3)%nat -> decode_typed k3 al t j = Some v.
Proof.
  intros k1 k2 k3 al t v j HT HE H1 H2.
  apply typed_roundtrip.
  - exact (has_type_fuel_mono k1 k3 al t v H1 HT).
  - exact (encode_typed_fuel_mono k2 k3 al t v j H2 HE).
Qed.
Print Assumptions typed_roundtrip_any_fuel.

(* the parameters object of a call decodes back to the arguments *)
Theorem call_params_roundtrip : forall k al fields args j,
  has_type k al (TStruct fields) (VStruct (combine (map fst fields) args)) = true ->
  call_params al fields args = Some j ->
  exists k', decode_typed k' al (TStruct fields) j = Some (VStruct (combine (map fst fields) args)).
Proof.
  intros k al fields args j HT HC. unfold call_params in HC.
  eexists. eapply typed_roundtrip_any_fuel; [exact HT|exact HC|apply Nat.le_max_l|apply Nat.le_max_r].
Qed.
Print Assumptions call_params_roundtrip.

(* ================= down to the bytes on the wire ================= *)

From VL Require JsonRoundTripB.

(* with Proofs/JsonRoundTripB.parse_encode: the text Marshal writes for a typed
   value parses and decodes back to the value (strings valid UTF-8 and number
   tokens well formed: wf_value; nesting within the decoder's limit) *)
Theorem typed_wire_roundtrip : forall fuel al t v j,
  has_type fuel al t v = true -> encode_typed fuel al t v = Some j ->
  JsonRoundTripB.wf_value j = true -> JsonRoundTripB.depth j <= 10000 ->
  exists j', parse (encode_value j) = Some j' /\ decode_typed fuel al t j' = Some v.
Proof.
  intros fuel al t v j HT HE Hwf Hd. exists j. split.
  - exact (JsonRoundTripB.parse_encode j Hwf Hd).
  - exact (typed_roundtrip fuel al t v j HT HE).
Qed.
Print Assumptions typed_wire_roundtrip.

(* ================= notes =================
   Statements adjusted with respect to the request:
   - typed_roundtrip holds as stated because has_type carries the canonical-form
     conditions; without them it is false (TypedExamples.cex_pointer_to_null:
     a non-nil pointer to a nil slice / nil map / nil pointer / raw null prints
     as null and reads back as the nil pointer; cex_duplicate_field_names).
     The conditions inside has_type: int tokens pass int64_tok_ok, float tokens
     pass num_ok, map keys strictly sorted, VOpt (Some x) only for x that does
     not print as null (nullish x = false), struct values carry exactly the
     declared names and these are pairwise distinct.
   - struct_keys_exact: the member names are present_names fs vs (declared
     names in order, minus the fields with omitted t v = true), they are
     pairwise distinct and all declared.
   - decode_typed and zero_of refuse a struct type with duplicate field names
     (the generated Go would not compile), which is what makes
     decode_encode_canonical hold without a side condition on the type. *)
