(* Proofs/ClientProofsC.v — errors end to end (C12): what the service writes for
   a standard error / an accepted ReplyError is what the client returns. *)
From VL Require Import Bytes Lit Json Wire Service Client
  JsonRoundTripA JsonRoundTripB JsonRoundTripD JsonSafeA WireProofs ServiceProofsA
  ClientProofsA ClientProofsB.
Open Scope N_scope.

(* ================= objects with one string member ================= *)

Lemma obj1_is_value : forall key s,
  [123] ++ member key (encode_string s) ++ [125] = encode_value (JObj [(key, JStr s)]).
Proof. reflexivity. Qed.

Lemma obj1_raw_ok : forall key s, utf8_valid key = true -> utf8_valid s = true ->
  raw_ok ([123] ++ member key (encode_string s) ++ [125]).
Proof.
  intros key s Hk Hs. rewrite obj1_is_value. apply raw_ok_encode.
  - cbn [wf_value forallb fst snd]. rewrite Hk, Hs. reflexivity.
  - discriminate.
  - vm_compute. discriminate.
Qed.

Lemma obj1_decode : forall key s, utf8_valid key = true -> utf8_valid s = true ->
  decode_struct [(key, KString)] ([123] ++ member key (encode_string s) ++ [125]) = Some [FString s].
Proof.
  intros key s Hk Hs.
  destruct (jparse_items [it_string key s]) as [recs [Hj HF]];
    [discriminate|constructor; [apply txt_ok_string|constructor]|].
  cbn [map item_txt it_string] in Hj. rewrite join_one in Hj.
  unfold decode_struct, decode_struct_full. rewrite Hj.
  inversion HF as [|? rc ? rs Hrc Hrs]; subst. inversion Hrs; subst.
  destruct rc as [[[rk v] s0] s1]. cbn [item_rec it_string] in Hrc. destruct Hrc as [-> [-> _]].
  rewrite (dm_string _ _ _ _ _ _ _ _ key 0%nat).
  - cbn [decode_members map snd zero_of set_nth]. rewrite (unquote_enc_str s Hs). reflexivity.
  - apply unquote_enc_str. exact Hk.
  - cbn [find_field]. rewrite bytes_eqb_refl. reflexivity.
Qed.

Lemma std_field_utf8 : forall k, utf8_valid (std_field k) = true.
Proof. intros []; vm_compute; reflexivity. Qed.
Lemma std_name_utf8 : forall k, utf8_valid (std_name k) = true.
Proof. intros []; vm_compute; reflexivity. Qed.
Lemma std_name_nonempty : forall k, std_name k <> [].
Proof. intros []; discriminate. Qed.

Theorem std_params_raw_ok : forall k arg, utf8_valid arg = true -> raw_ok (std_params k arg).
Proof. intros k arg H. apply obj1_raw_ok; [apply std_field_utf8|exact H]. Qed.
Print Assumptions std_params_raw_ok.

Theorem std_params_decode : forall k arg, utf8_valid arg = true ->
  decode_struct [(std_field k, KString)] (std_params k arg) = Some [FString arg].
Proof. intros k arg H. apply obj1_decode; [apply std_field_utf8|exact H]. Qed.
Print Assumptions std_params_decode.

(* ================= standard errors ================= *)

(* a standard error written by the service is received as the typed error carrying the same string *)
Theorem std_error_end_to_end : forall k arg, utf8_valid arg = true ->
  decode_struct reply_schema (encode_reply (Some (std_params k arg)) false (std_name k))
    = Some [FRaw (Some (std_params k arg)); FBool false; FString (std_name k)]
  /\ dispatch_error (std_name k) (Some (std_params k arg)) = RvStdError k arg.
Proof.
  intros k arg H. split.
  - apply decode_encode_reply; [apply std_name_utf8|apply std_params_raw_ok; exact H].
  - unfold dispatch_error. rewrite std_of_name_std, (std_params_decode k arg H). reflexivity.
Qed.
Print Assumptions std_error_end_to_end.

(* ================= ReplyError ================= *)

Lemma error_name_ok_nonempty : forall name, error_name_ok name = true -> name <> [].
Proof. intros name H ->. discriminate H. Qed.

(* an accepted ReplyError reaches the client with exactly that name and byte-identical parameters *)
Theorem reply_error_end_to_end : forall name v, error_name_ok name = true -> utf8_valid name = true ->
  wf_value v = true -> v <> JNull -> depth v + 1 <= max_depth ->
  let fr := encode_reply (Some (encode_value v)) false name in
  decode_struct reply_schema fr = Some [FRaw (Some (encode_value v)); FBool false; FString name]
  /\ dispatch_error name (Some (encode_value v)) = RvError name (Some (encode_value v)).
Proof.
  intros name v Hn Hu Hwf Hnn Hd fr. subst fr. split.
  - apply decode_encode_reply; [exact Hu|apply raw_ok_encode; assumption].
  - apply dispatch_accepted_error. exact Hn.
Qed.
Print Assumptions reply_error_end_to_end.

Theorem reply_error_no_params_end_to_end : forall name, error_name_ok name = true -> utf8_valid name = true ->
  decode_struct reply_schema (encode_reply None false name) = Some [FRaw None; FBool false; FString name]
  /\ name <> [] /\ dispatch_error name None = RvError name None.
Proof.
  intros name Hn Hu. split; [apply (decode_encode_reply_gen None false name Hu I)|].
  split; [apply error_name_ok_nonempty; exact Hn|apply dispatch_accepted_error; exact Hn].
Qed.
Print Assumptions reply_error_no_params_end_to_end.

(* ================= over the wire: do_action on one side, client_receive on the other ================= *)

(* whatever the service frames (no control bytes in the body) is cut out whole by the client *)
Theorem receive_written : forall cap c body rest, (1 <= cap)%nat -> chunks_ok c ->
  no_ctl body -> stream_of c = frame body ++ rest ->
  exists c', client_receive cap c =
      (match decode_struct reply_schema body with
       | Some [FRaw p; FBool cont; FString e] =>
         match e with [] => RvReply p cont | _ => dispatch_error e p end
       | _ => RvDecodeErr
       end, c') /\ stream_of c' = rest /\ chunks_ok c'.
Proof.
  intros cap c body rest Hcap Hok Hnc E.
  destruct (receive_spec_ok cap c Hcap Hok) as (r & c' & Hr & Hok' & Hs).
  rewrite E, (frame_one_nul body rest Hnc) in Hs. destruct Hs as [Hs ->].
  exists c'. unfold reply_of_frame in Hr. rewrite strip_last_frame in Hr.
  split; [exact Hr|]. split; [exact Hs|exact Hok'].
Qed.
Print Assumptions receive_written.

Lemma do_std_error_writes : forall c k arg w, c_oneway c = false -> w_left w = None ->
  do_action c (AStdError k arg) w =
  (ResOk, mkW (w_out w ++ frame (encode_reply (Some (std_params k arg)) false (std_name k))) None).
Proof.
  intros c k arg w Ho Hl. cbn [do_action]. unfold send_message. rewrite Ho, Hl. reflexivity.
Qed.

(* the bytes the service appends for a standard error, delivered in any segmentation,
   make the client return that typed error with the same argument *)
Theorem std_error_over_the_wire : forall cap cl k arg w w' r conn rest,
  (1 <= cap)%nat -> chunks_ok conn -> utf8_valid arg = true ->
  c_oneway cl = false -> w_left w = None ->
  do_action cl (AStdError k arg) w = (r, w') ->
  stream_of conn = skipn (length (w_out w)) (w_out w') ++ rest ->
  r = ResOk /\ exists conn', client_receive cap conn = (RvStdError k arg, conn') /\ stream_of conn' = rest.
Proof.
  intros cap cl k arg w w' r conn rest Hcap Hok Hu Ho Hl Hd Hs.
  rewrite (do_std_error_writes cl k arg w Ho Hl) in Hd. injection Hd as <- <-. split; [reflexivity|].
  cbn [w_out] in Hs. rewrite skipn_length_app in Hs.
  assert (Hnc : no_ctl (encode_reply (Some (std_params k arg)) false (std_name k))).
  { apply encode_reply_no_ctl. intros p Hp. injection Hp as <-. apply std_params_no_ctl. }
  destruct (receive_written cap conn _ rest Hcap Hok Hnc Hs) as (conn' & Hr & Hs' & _).
  destruct (std_error_end_to_end k arg Hu) as [Hdec Hdisp]. rewrite Hdec in Hr.
  exists conn'. split; [|exact Hs'].
  destruct (std_name k) eqn:En; [exfalso; exact (std_name_nonempty k En)|]. rewrite Hr, Hdisp. reflexivity.
Qed.
Print Assumptions std_error_over_the_wire.

Lemma do_reply_error_writes : forall c name v w, c_oneway c = false -> w_left w = None ->
  error_name_ok name = true -> wf_value v = true ->
  do_action c (AReplyError name (PJson v)) w =
  (ResOk, mkW (w_out w ++ frame (encode_reply (Some (encode_value v)) false name)) None).
Proof.
  intros c name v w Ho Hl Hn Hwf. cbn [do_action enc_params]. rewrite Hn, (marshal_wf v Hwf).
  cbn [option_map]. unfold send_message. rewrite Ho, Hl. reflexivity.
Qed.

(* an accepted ReplyError, delivered in any segmentation, is returned by the client
   with exactly that name and byte-identical parameters *)
Theorem reply_error_over_the_wire : forall cap cl name v w w' r conn rest,
  (1 <= cap)%nat -> chunks_ok conn ->
  error_name_ok name = true -> utf8_valid name = true ->
  wf_value v = true -> v <> JNull -> depth v + 1 <= max_depth ->
  c_oneway cl = false -> w_left w = None ->
  do_action cl (AReplyError name (PJson v)) w = (r, w') ->
  stream_of conn = skipn (length (w_out w)) (w_out w') ++ rest ->
  r = ResOk /\ exists conn',
    client_receive cap conn = (RvError name (Some (encode_value v)), conn') /\ stream_of conn' = rest.
Proof.
  intros cap cl name v w w' r conn rest Hcap Hok Hn Hu Hwf Hnn Hdp Ho Hl Hd Hs.
  rewrite (do_reply_error_writes cl name v w Ho Hl Hn Hwf) in Hd. injection Hd as <- <-.
  split; [reflexivity|]. cbn [w_out] in Hs. rewrite skipn_length_app in Hs.
  assert (Hnc : no_ctl (encode_reply (Some (encode_value v)) false name)).
  { apply encode_reply_no_ctl. intros p Hp. injection Hp as <-.
    apply (marshal_value_no_ctl v). apply marshal_wf. exact Hwf. }
  destruct (receive_written cap conn _ rest Hcap Hok Hnc Hs) as (conn' & Hr & Hs' & _).
  destruct (reply_error_end_to_end name v Hn Hu Hwf Hnn Hdp) as [Hdec Hdisp]. rewrite Hdec in Hr.
  exists conn'. split; [|exact Hs'].
  destruct name as [|n0 name]; [discriminate Hn|]. rewrite Hr, Hdisp. reflexivity.
Qed.
Print Assumptions reply_error_over_the_wire.

(* a refused ReplyError (a name the library reserves or without an interface part) writes nothing *)
Theorem refused_reply_error_writes_nothing : forall c name p w,
  error_name_ok name = false -> do_action c (AReplyError name p) w = (ResRefused, w).
Proof. intros c name p w H. cbn [do_action]. rewrite H. reflexivity. Qed.
Print Assumptions refused_reply_error_writes_nothing.

(* ================= examples ================= *)

Definition exC_name : bytes := [111; 114; 103; 46; 120; 46; 69].   (* org.x.E *)
Definition exC_val : jvalue := JObj [([119; 104; 121], JStr [60; 98; 62])].   (* {"why":"<b>"} *)
Definition exC_call : call := mkCall [111; 114; 103; 46; 120; 46; 77] None false false false.

Example exC_reply_error :
  let '(r, w') := do_action exC_call (AReplyError exC_name (PJson exC_val)) (mkW [] None) in
  (r, fst (client_receive 7 (mkConn [] [firstn 10 (w_out w'); skipn 10 (w_out w')])))
  = (ResOk, RvError exC_name (Some (encode_value exC_val))).
Proof. vm_compute. reflexivity. Qed.

Example exC_std_error :
  let '(r, w') := do_action exC_call (AStdError EInvalidParameter [120; 34; 121]) (mkW [] None) in
  (r, fst (client_receive 4096 (mkConn [] [w_out w'])))
  = (ResOk, RvStdError EInvalidParameter [120; 34; 121]).
Proof. vm_compute. reflexivity. Qed.

(* a ReplyError in the library's own namespace is refused by the service *)
Example exC_refused :
  do_action exC_call (AReplyError (std_name EMethodNotFound) PNone) (mkW [] None) = (ResRefused, mkW [] None).
Proof. vm_compute. reflexivity. Qed.

(* invalid UTF-8 in the argument does not survive: why utf8_valid is required *)
Example exC_invalid_utf8_changes :
  dispatch_error (std_name EMethodNotFound) (Some (std_params EMethodNotFound [255]))
  = RvStdError EMethodNotFound [239; 191; 189].
Proof. vm_compute. reflexivity. Qed.
