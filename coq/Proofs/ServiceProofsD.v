(* Proofs/ServiceProofsD.v — N connections are isolated; incremental
   processing of one connection equals batch processing of its stream. *)
From VL Require Import Bytes Lit Json Wire Service WireProofs ServiceProofsA ServiceProofsB.
Open Scope N_scope.

(* ---------- sys_get / sys_set ---------- *)

Lemma sys_get_set_same : forall i c s, sys_get i (sys_set i c s) = Some c.
Proof.
  intros i c s. induction s as [|[j c'] s IH]; cbn [sys_set sys_get].
  - rewrite Nat.eqb_refl. reflexivity.
  - destruct (Nat.eqb i j) eqn:E; cbn [sys_get].
    + rewrite Nat.eqb_refl. reflexivity.
    + rewrite E. exact IH.
Qed.

Lemma sys_get_set_other : forall i j c s, i <> j -> sys_get i (sys_set j c s) = sys_get i s.
Proof.
  intros i j c s Hne. induction s as [|[k c'] s IH]; cbn [sys_set sys_get].
  - apply Nat.eqb_neq in Hne. rewrite Hne. reflexivity.
  - destruct (Nat.eqb j k) eqn:E; cbn [sys_get].
    + apply Nat.eqb_eq in E. subst k. apply Nat.eqb_neq in Hne. rewrite Hne. reflexivity.
    + destruct (Nat.eqb i k); [reflexivity|exact IH].
Qed.

(* ---------- isolation ---------- *)

Definition view (wl : nat -> option nat) (i : nat) (s : sysstate) : cstate :=
  match sys_get i s with Some c => c | None => cs_init (wl i) end.

Lemma view_set_same : forall wl i c s, view wl i (sys_set i c s) = c.
Proof. intros. unfold view. rewrite sys_get_set_same. reflexivity. Qed.

Lemma view_set_other : forall wl i j c s, i <> j -> view wl i (sys_set j c s) = view wl i s.
Proof. intros wl i j c s H. unfold view. rewrite (sys_get_set_other _ _ _ _ H). reflexivity. Qed.

Lemma sys_step_eq : forall reg hs wl s j ev,
  sys_step reg hs wl s (j, ev) = sys_set j (step_conn reg (hs j) (view wl j s) ev) s.
Proof. reflexivity. Qed.

Lemma events_of_cons : forall i j ev tr,
  events_of i ((j, ev) :: tr) = if Nat.eqb j i then ev :: events_of i tr else events_of i tr.
Proof.
  intros i j ev tr. unfold events_of. cbn [filter fst].
  destruct (Nat.eqb j i); reflexivity.
Qed.

Lemma isolation_gen : forall reg hs wl tr i s,
  sys_get i (fold_left (sys_step reg hs wl) tr s) =
  match events_of i tr with
  | [] => sys_get i s
  | evs => Some (fold_left (step_conn reg (hs i)) evs (view wl i s))
  end.
Proof.
  intros reg hs wl. induction tr as [|[j ev] tr IH]; intros i s.
  - reflexivity.
  - cbn [fold_left]. rewrite IH, sys_step_eq, events_of_cons.
    destruct (Nat.eqb j i) eqn:E.
    + apply Nat.eqb_eq in E. subst j. cbn [fold_left].
      rewrite view_set_same, sys_get_set_same.
      destruct (events_of i tr); reflexivity.
    + apply Nat.eqb_neq in E.
      assert (Hne : i <> j) by congruence.
      rewrite (view_set_other _ _ _ _ _ Hne), (sys_get_set_other _ _ _ _ Hne). reflexivity.
Qed.

Theorem isolation : forall reg hs wl tr i,
  sys_get i (run_system reg hs wl tr) =
    match events_of i tr with [] => None | evs => Some (run_conn reg (hs i) (wl i) evs) end.
Proof.
  intros reg hs wl tr i. unfold run_system, run_conn. rewrite isolation_gen. reflexivity.
Qed.
Print Assumptions isolation.

(* ---------- incremental = batch ---------- *)

Lemma drain_S : forall f reg hs s,
  drain (S f) reg hs s =
  match cs_closed s with
  | Some _ => s
  | None =>
    match cut_at 0 (cs_pending s) with
    | None => s
    | Some (fr, rest) =>
      match decode_call (strip_last fr) with
      | None => mkCs rest (cs_w s) (cs_log s) (Some CDecode)
      | Some cl =>
        let '(e, w', en) := handle_call reg hs cl (cs_w s) in
        if e then mkCs rest w' (en :: cs_log s) (Some CHandlerErr)
        else drain f reg hs (mkCs rest w' (en :: cs_log s) None)
      end
    end
  end.
Proof. reflexivity. Qed.

(* what the connection's final outcome will be if [rest] is everything still to arrive *)
Definition result_of (reg : registry) (hs : handlers) (s : cstate) (rest : bytes) : conn_out :=
  match cs_closed s with
  | Some r => mkOut (w_out (cs_w s)) (rev (cs_log s)) r
  | None => serve_frames reg hs (fst (split_frames 0 (cs_pending s ++ rest))) (cs_w s) (cs_log s)
  end.

Lemma drain_result : forall reg hs rest fuel s,
  result_of reg hs (drain fuel reg hs s) rest = result_of reg hs s rest.
Proof.
  intros reg hs rest. induction fuel as [|f IH]; intro s; [reflexivity|].
  rewrite drain_S. destruct (cs_closed s) as [r|] eqn:Ecl; [reflexivity|].
  destruct (cut_at 0 (cs_pending s)) as [[fr rest0]|] eqn:Ec; [|reflexivity].
  unfold result_of at 2. rewrite Ecl.
  rewrite (split_frames_fst_some _ _ _ _ (cut_at_some_app _ _ _ _ rest Ec)), serve_frames_cons.
  destruct (decode_call (strip_last fr)) as [cl|]; [|reflexivity].
  destruct (handle_call reg hs cl (cs_w s)) as [[e w'] en].
  destruct e; [reflexivity|]. rewrite IH. reflexivity.
Qed.

(* an open state after a sufficiently fuelled drain holds no complete frame *)
Definition drained (s : cstate) : Prop := cs_closed s = None -> cut_at 0 (cs_pending s) = None.

Lemma drain_drained : forall reg hs fuel s, (length (cs_pending s) < fuel)%nat ->
  drained (drain fuel reg hs s).
Proof.
  intros reg hs. induction fuel as [|f IH]; intros s Hlt; [lia|].
  rewrite drain_S. destruct (cs_closed s) as [r|] eqn:Ecl.
  - intro H. congruence.
  - destruct (cut_at 0 (cs_pending s)) as [[fr rest0]|] eqn:Ec; [|intros _; exact Ec].
    pose proof (cut_at_rest_shorter _ _ _ _ Ec) as Hsh.
    destruct (decode_call (strip_last fr)) as [cl|]; [|intro H; discriminate].
    destruct (handle_call reg hs cl (cs_w s)) as [[e w'] en].
    destruct e; [intro H; discriminate|]. apply IH. cbn [cs_pending]. lia.
Qed.

Lemma step_data_result : forall reg hs s ch rest,
  result_of reg hs (step_conn reg hs s (EvData ch)) rest = result_of reg hs s (ch ++ rest).
Proof.
  intros reg hs s ch rest. unfold step_conn.
  destruct (cs_closed s) as [r|] eqn:Ecl.
  - unfold result_of. rewrite Ecl. reflexivity.
  - rewrite drain_result. unfold result_of. cbn [cs_closed cs_pending cs_w cs_log].
    rewrite Ecl, app_assoc. reflexivity.
Qed.

Lemma step_data_drained : forall reg hs s ch, drained s -> drained (step_conn reg hs s (EvData ch)).
Proof.
  intros reg hs s ch Hd. unfold step_conn.
  destruct (cs_closed s) as [r|] eqn:Ecl; [exact Hd|].
  apply drain_drained. lia.
Qed.

Lemma run_data_result : forall reg hs chunks s rest,
  result_of reg hs (fold_left (step_conn reg hs) (map EvData chunks) s) rest =
  result_of reg hs s (concat_bytes chunks ++ rest).
Proof.
  intros reg hs. induction chunks as [|ch chunks IH]; intros s rest; [reflexivity|].
  cbn [map fold_left concat_bytes]. rewrite IH, step_data_result, app_assoc. reflexivity.
Qed.

Lemma run_data_drained : forall reg hs chunks s, drained s ->
  drained (fold_left (step_conn reg hs) (map EvData chunks) s).
Proof.
  intros reg hs. induction chunks as [|ch chunks IH]; intros s Hd; [exact Hd|].
  cbn [map fold_left]. apply IH, step_data_drained, Hd.
Qed.

Lemma step_eof_result : forall reg hs s, drained s ->
  let s' := step_conn reg hs s EvEof in
  mkOut (w_out (cs_w s')) (rev (cs_log s'))
        (match cs_closed s' with Some r => r | None => CFuel end) = result_of reg hs s [].
Proof.
  intros reg hs s Hd. cbv zeta. unfold step_conn, result_of.
  destruct (cs_closed s) as [r|] eqn:Ecl.
  - rewrite Ecl. reflexivity.
  - cbn [cs_w cs_log cs_closed]. rewrite app_nil_r.
    rewrite (split_frames_fst_none _ _ (Hd Ecl)), serve_frames_nil. reflexivity.
Qed.

Theorem run_conn_is_spec_full : forall reg hs wl chunks,
  let s := run_conn reg hs wl (map EvData chunks ++ [EvEof]) in
  let o := spec_conn reg hs wl (concat_bytes chunks) in
  w_out (cs_w s) = o_written o /\ rev (cs_log s) = o_log o /\ cs_closed s = Some (o_closed o).
Proof.
  intros reg hs wl chunks. cbv zeta. unfold run_conn. rewrite fold_left_app. cbn [fold_left].
  set (sn := fold_left (step_conn reg hs) (map EvData chunks) (cs_init wl)).
  assert (Hd : drained sn).
  { apply run_data_drained. intros _. reflexivity. }
  pose proof (step_eof_result reg hs sn Hd) as He. cbv zeta in He.
  assert (Hr : result_of reg hs sn [] = spec_conn reg hs wl (concat_bytes chunks)).
  { unfold sn. rewrite run_data_result. unfold result_of, cs_init, spec_conn.
    cbn [cs_closed cs_pending cs_w cs_log app]. rewrite app_nil_r. reflexivity. }
  rewrite Hr in He. rewrite <- He. cbn [o_written o_log o_closed].
  split; [reflexivity|]. split; [reflexivity|].
  unfold step_conn. destruct (cs_closed sn) as [r|] eqn:Ecl.
  - rewrite Ecl. reflexivity.
  - reflexivity.
Qed.
Print Assumptions run_conn_is_spec_full.

Theorem run_conn_is_spec : forall reg hs wl chunks,
  let s := run_conn reg hs wl (map EvData chunks ++ [EvEof]) in
  let o := spec_conn reg hs wl (concat_bytes chunks) in
  w_out (cs_w s) = o_written o /\ rev (cs_log s) = o_log o.
Proof.
  intros reg hs wl chunks. cbv zeta.
  destruct (run_conn_is_spec_full reg hs wl chunks) as (H1 & H2 & _). auto.
Qed.
Print Assumptions run_conn_is_spec.

(* the two together: each connection of the system behaves as the batch specification
   of its own byte stream, whatever the interleaving *)
Corollary system_conn_is_spec : forall reg hs wl tr i chunks,
  events_of i tr = map EvData chunks ++ [EvEof] ->
  exists s, sys_get i (run_system reg hs wl tr) = Some s /\
    let o := spec_conn reg (hs i) (wl i) (concat_bytes chunks) in
    w_out (cs_w s) = o_written o /\ rev (cs_log s) = o_log o /\ cs_closed s = Some (o_closed o).
Proof.
  intros reg hs wl tr i chunks He. rewrite isolation, He.
  destruct (map EvData chunks ++ [EvEof]) as [|e l] eqn:E.
  - destruct (map EvData chunks); discriminate.
  - rewrite <- E. eexists. split; [reflexivity|]. apply run_conn_is_spec_full.
Qed.
Print Assumptions system_conn_is_spec.

(* ---------- non-vacuity ---------- *)
Module ExD.
Import ExB.
(* two connections, interleaved chunk delivery cutting frames in the middle *)
Definition tr1 : list (nat * event) :=
  [(1%nat, EvData (firstn 10 stream12)); (2%nat, EvData (firstn 5 (frame req1)));
   (1%nat, EvData (skipn 10 stream12)); (2%nat, EvData (skipn 5 (frame req1)));
   (2%nat, EvEof); (1%nat, EvEof)].

Example exD_interleaved :
  let sys := run_system reg1 (fun _ => hs1) (fun _ => None) tr1 in
  option_map (fun s => (w_out (cs_w s), List.length (cs_log s), cs_closed s)) (sys_get 1%nat sys)
    = Some (o_written (spec_conn reg1 hs1 None stream12), 2%nat, Some CEof) /\
  option_map (fun s => (w_out (cs_w s), List.length (cs_log s), cs_closed s)) (sys_get 2%nat sys)
    = Some (o_written (spec_conn reg1 hs1 None (frame req1)), 1%nat, Some CEof) /\
  sys_get 3%nat sys = None.
Proof. vm_compute. repeat split. Qed.
End ExD.
