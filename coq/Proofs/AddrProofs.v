(* Proofs/AddrProofs.v — C19: address strings (Model/Addr.v). *)
From Coq Require Import ZArith Lia.
From VL Require Import Bytes Lit Addr.
Open Scope N_scope.

(* ---------- split2 ---------- *)

Lemma split2_none : forall (c : N) (s : list N), ~ In c s -> split2 c s = (s, None).
Proof.
  induction s as [|x r IH]; intro Hn; simpl; [reflexivity|].
  destruct (x =? c) eqn:E.
  - apply N.eqb_eq in E. exfalso. apply Hn. left. exact E.
  - rewrite IH; [reflexivity|]. intro Hi. apply Hn. right. exact Hi.
Qed.

Lemma split2_none_inv : forall (c : N) (s a : list N), split2 c s = (a, None) -> a = s /\ ~ In c s.
Proof.
  induction s as [|x r IH]; intros a H; simpl in H.
  - inversion H; subst. split; [reflexivity|]. intros [].
  - destruct (x =? c) eqn:E; [discriminate|].
    destruct (split2 c r) as [a' o] eqn:Er. inversion H; subst.
    destruct (IH a' eq_refl) as [Ha Hn]. subst. split; [reflexivity|].
    intros [Hx|Hi]; [|exact (Hn Hi)]. apply N.eqb_neq in E. exact (E Hx).
Qed.

Lemma split2_some : forall (c : N) (p rest : list N), ~ In c p -> split2 c (p ++ [c] ++ rest) = (p, Some rest).
Proof.
  induction p as [|x p IH]; intros rest Hn; simpl.
  - rewrite N.eqb_refl. reflexivity.
  - destruct (x =? c) eqn:E.
    + apply N.eqb_eq in E. exfalso. apply Hn. left. exact E.
    + simpl in IH. rewrite IH; [reflexivity|]. intro Hi. apply Hn. right. exact Hi.
Qed.

Lemma split2_some_inv : forall (c : N) (s p rest : list N), split2 c s = (p, Some rest) ->
  s = p ++ [c] ++ rest /\ ~ In c p.
Proof.
  induction s as [|x r IH]; intros p rest H; simpl in H; [discriminate|].
  destruct (x =? c) eqn:E.
  - inversion H; subst. apply N.eqb_eq in E. subst. split; [reflexivity|]. intros [].
  - destruct (split2 c r) as [a' o] eqn:Er. inversion H; subst.
    destruct (IH a' rest eq_refl) as [Hs Hn]. subst r. split; [reflexivity|].
    intros [Hx|Hi]; [|exact (Hn Hi)]. apply N.eqb_neq in E. exact (E Hx).
Qed.

Lemma unix_neq_tcp : s_unix <> s_tcp.
Proof. discriminate. Qed.

Lemma unix_eqb_tcp : bytes_eqb s_tcp s_unix = false.
Proof. reflexivity. Qed.

(* ---------- totality ---------- *)

Theorem svc_parse_total : forall s, svc_parse s <> APanic.
Proof.
  intro s. unfold svc_parse. destruct (split_addr s) as [[p a]|]; [|discriminate].
  destruct (bytes_eqb p s_unix); [destruct a; discriminate|].
  destruct (bytes_eqb p s_tcp); discriminate.
Qed.
Print Assumptions svc_parse_total.

Theorem client_parse_total : forall s, client_parse s <> APanic.
Proof.
  intro s. unfold client_parse. destruct (split_addr s) as [[p a]|]; discriminate.
Qed.
Print Assumptions client_parse_total.

Theorem bind_total : forall ok s st w, fst (fst (svc_bind ok s st w)) <> OPanic.
Proof.
  intros ok s st w. unfold svc_bind.
  destruct (sv_running st); [discriminate|].
  pose proof (svc_parse_total s) as Ht.
  destruct (svc_parse s) as [p a| |]; [|discriminate|congruence].
  destruct (os_listen ok (endpoint_of p a) w); discriminate.
Qed.
Print Assumptions bind_total.

(* ---------- the three refusals ---------- *)

Theorem refuses_without_colon : forall s, ~ In 58 s -> svc_parse s = AErr.
Proof.
  intros s Hn. unfold svc_parse, split_addr. rewrite (split2_none 58 s Hn). reflexivity.
Qed.
Print Assumptions refuses_without_colon.

Theorem refuses_other_protocol : forall s p a,
  split_addr s = Some (p, a) -> p <> s_unix -> p <> s_tcp -> svc_parse s = AErr.
Proof.
  intros s p a Hs Hu Ht. unfold svc_parse. rewrite Hs.
  apply bytes_eqb_neq in Hu. apply bytes_eqb_neq in Ht. rewrite Hu, Ht. reflexivity.
Qed.
Print Assumptions refuses_other_protocol.

Theorem refuses_empty_unix_path : forall s a,
  split_addr s = Some (s_unix, a) -> a = [] -> svc_parse s = AErr.
Proof.
  intros s a Hs Ha. unfold svc_parse. rewrite Hs, Ha. reflexivity.
Qed.
Print Assumptions refuses_empty_unix_path.

Theorem svc_parse_ok_iff : forall s p a,
  svc_parse s = AOk p a <->
  split_addr s = Some (p, a) /\ ((p = s_unix /\ a <> []) \/ p = s_tcp).
Proof.
  intros s p a. unfold svc_parse. split.
  - intro H. destruct (split_addr s) as [[p0 a0]|]; [|discriminate].
    destruct (bytes_eqb p0 s_unix) eqn:Eu.
    + apply bytes_eqb_eq in Eu. destruct a0 as [|x r]; [discriminate|].
      inversion H; subst. split; [reflexivity|]. left. split; [reflexivity|discriminate].
    + destruct (bytes_eqb p0 s_tcp) eqn:Et; [|discriminate].
      apply bytes_eqb_eq in Et. inversion H; subst. split; [reflexivity|]. right. reflexivity.
  - intros [Hs [[Hp Ha]|Hp]]; rewrite Hs; subst p.
    + rewrite bytes_eqb_refl. destruct a; [contradiction|reflexivity].
    + rewrite unix_eqb_tcp, bytes_eqb_refl. reflexivity.
Qed.
Print Assumptions svc_parse_ok_iff.

(* ---------- what split_addr is ---------- *)

Theorem split_addr_spec : forall s p a, split_addr s = Some (p, a) <->
  exists rest, s = p ++ [58] ++ rest /\ ~ In 58 p /\ a = fst (split2 59 rest).
Proof.
  intros s p a. unfold split_addr. split.
  - intro H. destruct (split2 58 s) as [p0 [rest|]] eqn:E; [|discriminate].
    inversion H; subst. apply split2_some_inv in E. destruct E as [Hs Hn].
    exists rest. split; [exact Hs|]. split; [exact Hn|reflexivity].
  - intros [rest [Hs [Hn Ha]]]. subst s a. rewrite (split2_some 58 p rest Hn). reflexivity.
Qed.
Print Assumptions split_addr_spec.

Theorem tail_ignored : forall p a t, ~ In 58 p -> ~ In 59 a ->
  split_addr (p ++ [58] ++ a ++ [59] ++ t) = Some (p, a) /\
  split_addr (p ++ [58] ++ a) = Some (p, a).
Proof.
  intros p a t Hp Ha. unfold split_addr. split.
  - rewrite (split2_some 58 p _ Hp). rewrite (split2_some 59 a t Ha). reflexivity.
  - rewrite (split2_some 58 p _ Hp). rewrite (split2_none 59 a Ha). reflexivity.
Qed.
Print Assumptions tail_ignored.

Theorem both_sides_agree : forall s p a, svc_parse s = AOk p a -> client_parse s = AOk p a.
Proof.
  intros s p a H. apply svc_parse_ok_iff in H. destruct H as [Hs _].
  unfold client_parse. rewrite Hs. reflexivity.
Qed.
Print Assumptions both_sides_agree.

(* case analysis on "is the byte 64" without unfolding the positive match by hand *)
Lemma is_abstract_cons : forall c r, is_abstract (c :: r) = (c =? 64).
Proof.
  intros c r. unfold is_abstract.
  destruct c as [|q]; [reflexivity|].
  do 7 (try (destruct q as [q|q|]; try reflexivity)).
Qed.

Theorem abstract_iff_at : forall a, is_abstract a = true <-> exists n, a = 64 :: n.
Proof.
  intro a. split.
  - intro H. destruct a as [|c r]; [discriminate|].
    rewrite is_abstract_cons in H. apply N.eqb_eq in H. subst c. exists r. reflexivity.
  - intros [n Hn]. subst a. reflexivity.
Qed.
Print Assumptions abstract_iff_at.

Lemma endpoint_of_unix_file : forall a, is_abstract a = false -> endpoint_of s_unix a = EFile a.
Proof.
  intros a H. unfold endpoint_of. rewrite bytes_eqb_refl.
  destruct a as [|c r]; [reflexivity|].
  rewrite is_abstract_cons in H.
  destruct c as [|q]; [reflexivity|].
  do 7 (try (destruct q as [q|q|]; try reflexivity)). discriminate.
Qed.

Lemma endpoint_of_unix_abstract : forall n, endpoint_of s_unix (64 :: n) = EAbstract n.
Proof. reflexivity. Qed.

Lemma endpoint_of_tcp : forall a, endpoint_of s_tcp a = ETcp a.
Proof. reflexivity. Qed.

(* ---------- refusals leave everything unchanged ---------- *)

Theorem failed_bind_changes_nothing : forall ok s st w,
  fst (fst (svc_bind ok s st w)) = OErr -> svc_bind ok s st w = (OErr, st, w).
Proof.
  intros ok s st w. unfold svc_bind.
  destruct (sv_running st); [reflexivity|].
  destruct (svc_parse s) as [p a| |]; simpl; [|reflexivity|discriminate].
  destruct (os_listen ok (endpoint_of p a) w); simpl; [discriminate|reflexivity].
Qed.
Print Assumptions failed_bind_changes_nothing.

Theorem bind_after_failure : forall ok1 s1 s2 st w p a, sv_running st = false ->
  fst (fst (svc_bind ok1 s1 st w)) = OErr -> svc_parse s2 = AOk p a ->
  os_listen true (endpoint_of p a) w <> None ->
  let '(_, st1, w1) := svc_bind ok1 s1 st w in fst (fst (svc_bind true s2 st1 w1)) = OOk.
Proof.
  intros ok1 s1 s2 st w p a Hr Hf Hp Hl.
  rewrite (failed_bind_changes_nothing ok1 s1 st w Hf).
  unfold svc_bind. rewrite Hr, Hp.
  destruct (os_listen true (endpoint_of p a) w); [reflexivity|congruence].
Qed.
Print Assumptions bind_after_failure.

(* ---------- filesystem effects ---------- *)

Definition bytes_eq_dec : forall x y : bytes, {x = y} + {x <> y} := list_eq_dec N.eq_dec.

Lemma remove_file_not_in : forall p l, ~ In p (remove_file p l).
Proof.
  intros p l Hi. unfold remove_file in Hi. apply filter_In in Hi. destruct Hi as [_ Hb].
  rewrite bytes_eqb_refl in Hb. discriminate.
Qed.

Lemma remove_file_other : forall p q l, q <> p -> In q l -> In q (remove_file p l).
Proof.
  intros p q l Hne Hi. unfold remove_file. apply filter_In. split; [exact Hi|].
  assert (Hb : bytes_eqb p q = false) by (apply bytes_eqb_neq; congruence).
  rewrite Hb. reflexivity.
Qed.

Lemma os_listen_file : forall path w,
  os_listen true (EFile path) w =
  Some (mkWorld (path :: remove_file path (w_files w))
                (EFile path :: remove_open (EFile path) (w_open w))).
Proof. reflexivity. Qed.

Theorem fs_bind_creates_and_replaces : forall s st w path,
  sv_running st = false -> svc_parse s = AOk s_unix path -> is_abstract path = false ->
  let '(r, st', w') := svc_bind true s st w in
  r = OOk /\ In path (w_files w') /\ sv_listener st' = Some (EFile path)
  /\ count_occ bytes_eq_dec (w_files w') path = 1%nat.
Proof.
  intros s st w path Hr Hp Ha. unfold svc_bind. rewrite Hr, Hp.
  rewrite (endpoint_of_unix_file path Ha), os_listen_file.
  split; [reflexivity|]. split; [left; reflexivity|]. split; [reflexivity|].
  cbn [w_files]. rewrite count_occ_cons_eq by reflexivity.
  f_equal. apply count_occ_not_In. apply remove_file_not_in.
Qed.
Print Assumptions fs_bind_creates_and_replaces.

(* other socket files are untouched by the replacement *)
Theorem fs_bind_keeps_others : forall s st w path q,
  sv_running st = false -> svc_parse s = AOk s_unix path -> is_abstract path = false ->
  q <> path -> (In q (w_files (snd (svc_bind true s st w))) <-> In q (w_files w)).
Proof.
  intros s st w path q Hr Hp Ha Hne. unfold svc_bind. rewrite Hr, Hp.
  rewrite (endpoint_of_unix_file path Ha), os_listen_file. cbn [snd w_files]. split.
  - intros [He|Hi]; [congruence|]. unfold remove_file in Hi. apply filter_In in Hi. tauto.
  - intro Hi. right. apply remove_file_other; assumption.
Qed.
Print Assumptions fs_bind_keeps_others.

Theorem shutdown_removes_socket : forall st w path,
  sv_listener st = Some (EFile path) -> ~ In path (w_files (snd (svc_stop st w))).
Proof.
  intros st w path Hl. unfold svc_stop. rewrite Hl. cbn [snd os_close w_files].
  apply remove_file_not_in.
Qed.
Print Assumptions shutdown_removes_socket.

(* ---------- reachability ---------- *)

Lemma endpoint_eqb_refl : forall e, endpoint_eqb e e = true.
Proof. destruct e; simpl; apply bytes_eqb_refl. Qed.

Lemma endpoint_eqb_eq : forall e f, endpoint_eqb e f = true <-> e = f.
Proof.
  intros e f. split.
  - destruct e, f; simpl; intro H; try discriminate; apply bytes_eqb_eq in H; congruence.
  - intro H. subst. apply endpoint_eqb_refl.
Qed.

Theorem served_endpoint_reachable : forall s st w p a,
  svc_parse s = AOk p a -> sv_running st = true ->
  sv_listener st = Some (endpoint_of p a) ->
  (match endpoint_of p a with ETcp hp => ends_with_port0 hp = false | _ => True end) ->
  client_connect s st w = OOk.
Proof.
  intros s st w p a Hp Hr Hl H0. unfold client_connect.
  rewrite (both_sides_agree s p a Hp), Hr, Hl, endpoint_eqb_refl.
  apply svc_parse_ok_iff in Hp. destruct Hp as [_ Hpa].
  assert (Hpr : bytes_eqb p s_unix || bytes_eqb p s_tcp = true).
  { destruct Hpa as [[Hu _]|Ht]; subst p; rewrite bytes_eqb_refl;
      [reflexivity|apply orb_true_r]. }
  rewrite Hpr. cbn [andb].
  destruct (endpoint_of p a) as [f|n|hp]; try reflexivity.
  rewrite H0. reflexivity.
Qed.
Print Assumptions served_endpoint_reachable.

(* converse direction: a client only gets through to the endpoint being served *)
Theorem connect_ok_inv : forall s st w, client_connect s st w = OOk ->
  exists p a, client_parse s = AOk p a /\ (p = s_unix \/ p = s_tcp) /\
    sv_running st = true /\ sv_listener st = Some (endpoint_of p a).
Proof.
  intros s st w H. unfold client_connect in H.
  destruct (client_parse s) as [p a| |]; try discriminate.
  exists p, a. split; [reflexivity|].
  destruct ((bytes_eqb p s_unix || bytes_eqb p s_tcp) && sv_running st) eqn:E1;
    [|discriminate].
  apply andb_true_iff in E1. destruct E1 as [Hp Hr].
  cbn [andb] in H. destruct (sv_listener st) as [e|]; [|discriminate].
  destruct (endpoint_eqb e (endpoint_of p a)) eqn:Ee; [|discriminate].
  apply endpoint_eqb_eq in Ee. subst e.
  split; [|split; [exact Hr|reflexivity]].
  apply orb_true_iff in Hp. destruct Hp as [Hp|Hp]; apply bytes_eqb_eq in Hp; tauto.
Qed.
Print Assumptions connect_ok_inv.

(* ---------- the pre-fix behaviour is refuted ---------- *)

Definition ex_unix_colon : bytes := [117; 110; 105; 120; 58].            (* "unix:" *)
Definition ex_garbage : bytes := [103; 97; 114; 98; 97; 103; 101].       (* "garbage" *)
Definition ex_path : bytes := [47; 114; 117; 110; 47; 120].              (* "/run/x" *)

Theorem unchecked_parse_can_panic : exists s p a, svc_parse_unchecked s p a = APanic.
Proof. exists ex_unix_colon, [], []. vm_compute. reflexivity. Qed.
Print Assumptions unchecked_parse_can_panic.

(* "unix:" panics whatever was bound before; the fixed parser refuses it *)
Theorem unchecked_unix_colon_always_panics : forall p a,
  svc_parse_unchecked ex_unix_colon p a = APanic /\ svc_parse ex_unix_colon = AErr.
Proof. intros p a. split; reflexivity. Qed.
Print Assumptions unchecked_unix_colon_always_panics.

Theorem unchecked_parse_reuses_stale :
  exists s p a, svc_parse_unchecked s p a = AOk p a /\ svc_parse s = AErr.
Proof. exists ex_garbage, s_unix, ex_path. split; vm_compute; reflexivity. Qed.
Print Assumptions unchecked_parse_reuses_stale.

(* in general: any colon-free string is accepted with the previous (non-degenerate) pair *)
Theorem unchecked_reuses_any_stale : forall s p a, ~ In 58 s -> a <> [] ->
  svc_parse_unchecked s p a = AOk p a /\ svc_parse s = AErr.
Proof.
  intros s p a Hn Ha. split; [|apply refuses_without_colon; exact Hn].
  unfold svc_parse_unchecked, split_addr. rewrite (split2_none 58 s Hn).
  destruct (bytes_eqb p s_unix); [destruct a; [contradiction|reflexivity]|reflexivity].
Qed.
Print Assumptions unchecked_reuses_any_stale.

(* ---------- a concrete run ---------- *)
Definition ex_addr : bytes := [117; 110; 105; 120; 58] ++ ex_path.                 (* "unix:/run/x" *)
Definition ex_addr_mode : bytes := ex_addr ++ [59; 109; 111; 100; 101; 61; 48].   (* "unix:/run/x;mode=0" *)
Definition ex_world : world := mkWorld [ex_path] [].                               (* a stale socket file *)

Example run_bind_serve_connect_stop :
  let '(r1, st1, w1) := svc_bind true ex_garbage svc_init ex_world in
  let '(r2, st2, w2) := svc_bind true ex_addr_mode st1 w1 in
  let '(r3, st3) := svc_start st2 in
  let c := client_connect ex_addr st3 w2 in
  let '(st4, w4) := svc_stop st3 w2 in
  (r1, r2, r3, c) = (OErr, OOk, OOk, OOk) /\ w_files w2 = [ex_path] /\ w_files w4 = []
  /\ st4 = svc_init.
Proof. vm_compute. repeat split. Qed.
