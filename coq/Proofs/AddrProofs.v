(* Proofs/AddrProofs.v — C19: address strings (Model/Addr.v). *)
From Coq Require Import ZArith Lia.
From VL Require Import Bytes Lit Addr.
Open Scope N_scope.

(* ---------- split2 ---------- *)

Lemma split2_none : forall (c : N) (s : list N), ~ In c s -> split2 c s = (s, None).
Proof.
  induction s as [|x r IH]; intro Hn; simpl; [reflexivity|].
  destruct (x =? c) eqn:E.
  - apply N.eqb_eq in E. exfalso. apply Hn. left. exact E.
  - rewrite IH; [reflexivity|]. intro Hi. apply Hn. right. exact Hi.
Qed.

Lemma split2_none_inv : forall (c : N) (s a : list N), split2 c s = (a, None) -> a = s /\ ~ In c s.
Proof.
  induction s as [|x r IH]; intros a H; simpl in H.
  - inversion H; subst. split; [reflexivity|]. intros [].
  - destruct (x =? c) eqn:E; [discriminate|].
    destruct (split2 c r) as [a' o] eqn:Er. inversion H; subst.
    destruct (IH a' eq_refl) as [Ha Hn]. subst. split; [reflexivity|].
    intros [Hx|Hi]; [|exact (Hn Hi)]. apply N.eqb_neq in E. exact (E Hx).
Qed.

Lemma split2_some : forall (c : N) (p rest : list N), ~ In c p -> split2 c (p ++ [c] ++ rest) = (p, Some rest).
Proof.
  induction p as [|x p IH]; intros rest Hn; simpl.
  - rewrite N.eqb_refl. reflexivity.
  - destruct (x =? c) eqn:E.
    + apply N.eqb_eq in E. exfalso. apply Hn. left. exact E.
    + simpl in IH. rewrite IH; [reflexivity|]. intro Hi. apply Hn. right. exact Hi.
Qed.

Lemma split2_some_inv : forall (c : N) (s p rest : list N), split2 c s = (p, Some rest) ->
  s = p ++ [c] ++ rest /\ ~ In c p.
Proof.
  induction s as [|x r IH]; intros p rest H; simpl in H; [discriminate|].
  destruct (x =? c) eqn:E.
  - inversion H; subst. apply N.eqb_eq in E. subst. split; [reflexivity|]. intros [].
  - destruct (split2 c r) as [a' o] eqn:Er. inversion H; subst.
    destruct (IH a' rest eq_refl) as [Hs Hn]. subst r. split; [reflexivity|].
    intros [Hx|Hi]; [|exact (Hn Hi)]. apply N.eqb_neq in E. exact (E Hx).
Qed.

Lemma unix_neq_tcp : s_unix <> s_tcp.
Proof. discriminate. Qed.

Lemma unix_eqb_tcp : bytes_eqb s_tcp s_unix = false.
Proof. reflexivity. Qed.

(* ---------- totality ---------- *)

Theorem svc_parse_total : forall s, svc_parse s <> APanic.
Proof.
  intro s. unfold svc_parse. destruct (split_addr s) as [[p a]|]; [|discriminate].
  destruct (bytes_eqb p s_unix); [destruct a; discriminate|].
  destruct (bytes_eqb p s_tcp); discriminate.
Qed.
Print Assumptions svc_parse_total.

Theorem client_parse_total : forall s, client_parse s <> APanic.
Proof.
  intro s. unfold client_parse. destruct (split_addr s) as [[p a]|]; discriminate.
Qed.
Print Assumptions client_parse_total.

Theorem bind_total : forall ok s st w, fst (fst (svc_bind ok s st w)) <> OPanic.
Proof.
  intros ok s st w. unfold svc_bind.
  destruct (sv_running st); [discriminate|].
  pose proof (svc_parse_total s) as Ht.
  destruct (svc_parse s) as [p a| |]; [|discriminate|congruence].
  destruct (os_listen ok (endpoint_of p a) w); discriminate.
Qed.
Print Assumptions bind_total.

(* ---------- the three refusals ---------- *)

Theorem refuses_without_colon : forall s, ~ In 58 s -> svc_parse s = AErr.
Proof.
  intros s Hn. unfold svc_parse, split_addr. rewrite (split2_none 58 s Hn). reflexivity.
Qed.
Print Assumptions refuses_without_colon.

Theorem refuses_other_protocol : forall s p a,
  split_addr s = Some (p, a) -> p <> s_unix -> p <> s_tcp -> svc_parse s = AErr.
Proof.
  intros s p a Hs Hu Ht. unfold svc_parse. rewrite Hs.
  apply bytes_eqb_neq in Hu. apply bytes_eqb_neq in Ht. rewrite Hu, Ht. reflexivity.
Qed.
Print Assumptions refuses_other_protocol.

Theorem refuses_empty_unix_path : forall s a,
  split_addr s = Some (s_unix, a) -> a = [] -> svc_parse s = AErr.
Proof.
  intros s a Hs Ha. unfold svc_parse. rewrite Hs, Ha. reflexivity.
Qed.
Print Assumptions refuses_empty_unix_path.

Theorem svc_parse_ok_iff : forall s p a,
  svc_parse s = AOk p a <->
  split_addr s = Some (p, a) /\ ((p = s_unix /\ a <> []) \/ p = s_tcp).
Proof.
  intros s p a. unfold svc_parse. split.
  - intro H. destruct (split_addr s) as [[p0 a0]|]; [|discriminate].
    destruct (bytes_eqb p0 s_unix) eqn:Eu.
    + apply bytes_eqb_eq in Eu. destruct a0 as [|x r]; [discriminate|].
      inversion H; subst. split; [reflexivity|]. left. split; [reflexivity|discriminate].
    + destruct (bytes_eqb p0 s_tcp) eqn:Et; [|discriminate].
      apply bytes_eqb_eq in Et. inversion H; subst. split; [reflexivity|]. right. reflexivity.
  - intros [Hs [[Hp Ha]|Hp]]; rewrite Hs; subst p.
    + rewrite bytes_eqb_refl. destruct a; [contradiction|reflexivity].
    + rewrite unix_eqb_tcp, bytes_eqb_refl. reflexivity.
Qed.
Print Assumptions svc_parse_ok_iff.

(* ---------- what split_addr is ---------- *)

Theorem split_addr_spec : forall s p a, split_addr s = Some (p, a) <->
  exists rest, s = p ++ [58] ++ rest /\ ~ In 58 p /\ a = fst (split2 59 rest).
Proof.
  intros s p a. unfold split_addr. split.
  - intro H. destruct (split2 58 s) as [p0 [rest|]] eqn:E; [|discriminate].
    inversion H; subst. apply split2_some_inv in E. destruct E as [Hs Hn].
    exists rest. split; [exact Hs|]. split; [exact Hn|reflexivity].
  - intros [rest [Hs [Hn Ha]]]. subst s a. rewrite (split2_some 58 p rest Hn). reflexivity.
Qed.
Print Assumptions split_addr_spec.

Theorem tail_ignored : forall p a t, ~ In 58 p -> ~ In 59 a ->
  split_addr (p ++ [58] ++ a ++ [59] ++ t) = Some (p, a) /\
  split_addr (p ++ [58] ++ a) = Some (p, a).
Proof.
  intros p a t Hp Ha. unfold split_addr. split.
  - rewrite (split2_some 58 p _ Hp). rewrite (split2_some 59 a t Ha). reflexivity.
  - rewrite (split2_some 58 p _ Hp). rewrite (split2_none 59 a Ha). reflexivity.
Qed.
Print Assumptions tail_ignored.

Theorem both_sides_agree : forall s p a, svc_parse s = AOk p a -> client_parse s = AOk p a.
Proof.
  intros s p a H. apply svc_parse_ok_iff in H. destruct H as [Hs _].
  unfold client_parse. rewrite Hs. reflexivity.
Qed.
Print Assumptions both_sides_agree.

(* case analysis on "is the byte 64" without unfolding the positive match by hand *)
Lemma is_abstract_cons : forall c r, is_abstract (c :: r) = (c =? 64).
Proof.
  intros c r. unfold is_abstract.
  destruct c as [|q]; [reflexivity|].
  do 7 (try (destruct q as [q|q|]; try reflexivity)).
Qed.

Theorem abstract_iff_at : forall a, is_abstract a = true <-> exists n, a = 64 :: n.
Proof.
  intro a. split.
  - intro H. destruct a as [|c r]; [discriminate|].
    rewrite is_abstract_cons in H. apply N.eqb_eq in H. subst c. exists r. reflexivity.
  - intros [n Hn]. subst a. reflexivity.
Qed.
Print Assumptions abstract_iff_at.

Lemma endpoint_of_unix_file : forall a, is_abstract a = false -> endpoint_of s_unix a = EFile a.
Proof.
  intros a H. unfold endpoint_of. rewrite bytes_eqb_refl.
  destruct a as [|c r]; [reflexivity|].
  rewrite is_abstract_cons in H.
  destruct c as [|q]; [reflexivity|].
  do 7 (try (destruct q as [q|q|]; try reflexivity)). discriminate.
Qed.

Lemma endpoint_of_unix_abstract : forall n, endpoint_of s_unix (64 :: n) = EAbstract n.
Proof. reflexivity. Qed.

Lemma endpoint_of_tcp : forall a, endpoint_of s_tcp a = ETcp a.
Proof. reflexivity. Qed.
