(* Proofs/CtxFactsProofs.v — the facts the translator reads off ctxio/conn.go, when they satisfy the discipline
   [ctxio_facts_ok], instantiate Model/Duplex.v with exactly the parameters for which non-interference is proved:
   every operation moves only its own direction's deadline, and no completion channel is shared. *)
From Coq Require Import List Bool Arith Lia.
From VL Require Import Bytes Ctxio Duplex CtxFacts CtxioProofs DuplexProofs.
Import ListNotations.
Open Scope nat_scope.

Lemma dir_eqb_eq : forall a c, dir_eqb a c = true <-> a = c.
Proof. intros [] []; simpl; split; intro H; try reflexivity; try discriminate. Qed.

Lemma dir_eqb_refl : forall a, dir_eqb a a = true.
Proof. intros []; reflexivity. Qed.

Lemma hits_own_only : forall st d, hits st d = true -> hits st (flip d) = false -> forall o, hits st o = dir_eqb d o.
Proof. intros [] [] H1 H2 []; simpl in *; try reflexivity; try discriminate. Qed.

Lemma cfact_ok_setters : forall f, cfact_ok f = true ->
  cf_setters f <> [] /\ forall st, In st (cf_setters f) -> forall o, hits st o = dir_eqb (cf_dir f) o.
Proof.
  intros f H. unfold cfact_ok in H.
  repeat (apply andb_true_iff in H; destruct H as [H ?]).
  split.
  - destruct (cf_setters f); [discriminate|]. discriminate.
  - intros st Hin o. rewrite forallb_forall in H. specialize (H st Hin).
    apply andb_true_iff in H. destruct H as [Ha Hb]. apply negb_true_iff in Hb.
    apply hits_own_only; assumption.
Qed.

(* the scope read off the source is the one of Duplex.v's non-interference theorems *)
Theorem facts_give_own_scope : forall fs, ctxio_facts_ok fs = true ->
  forall who other, facts_scope fs who other = own_scope who other.
Proof.
  intros fs H who other. unfold ctxio_facts_ok in H.
  apply andb_true_iff in H. destruct H as [H Hw]. apply andb_true_iff in H. destruct H as [Hall Hr].
  rewrite forallb_forall in Hall. unfold own_scope, facts_scope.
  destruct (dir_eqb who other) eqn:E.
  - apply dir_eqb_eq in E. subst other.
    assert (Hd : has_dir fs who = true) by (destruct who; assumption).
    unfold has_dir in Hd. apply existsb_exists in Hd. destruct Hd as (f & Hin & Hf).
    apply existsb_exists. exists f. split; [exact Hin|]. rewrite Hf. cbn [andb].
    destruct (cfact_ok_setters f (Hall f Hin)) as [Hne Hs].
    destruct (cf_setters f) as [|st r] eqn:Es; [contradiction|].
    cbn [existsb]. rewrite (Hs st (or_introl eq_refl)). apply dir_eqb_eq in Hf. rewrite Hf, dir_eqb_refl. reflexivity.
  - apply not_true_iff_false. intro Hex. apply existsb_exists in Hex. destruct Hex as (f & Hin & Hf).
    apply andb_true_iff in Hf. destruct Hf as [Hd Hs]. apply existsb_exists in Hs. destruct Hs as (st & Hst & Hh).
    destruct (cfact_ok_setters f (Hall f Hin)) as [_ Hown]. rewrite (Hown st Hst) in Hh.
    apply dir_eqb_eq in Hd. rewrite Hd in Hh. congruence.
Qed.

Theorem facts_give_own_channels : forall fs, ctxio_facts_ok fs = true -> facts_shared_chan fs = false.
Proof.
  intros fs H. unfold ctxio_facts_ok in H.
  apply andb_true_iff in H. destruct H as [H _]. apply andb_true_iff in H. destruct H as [Hall _].
  unfold facts_shared_chan. apply negb_false_iff. rewrite forallb_forall in *. intros f Hin.
  specialize (Hall f Hin). unfold cfact_ok in Hall.
  repeat (apply andb_true_iff in Hall; destruct Hall as [Hall ?]). assumption.
Qed.

(* one step of the duplex model under the facts' own parameters is a step under (own_scope, false) *)
Lemma dstep_ext : forall sc1 sc2 b s who l, (forall a c, sc1 a c = sc2 a c) -> dstep sc1 b s who l = dstep sc2 b s who l.
Proof. intros sc1 sc2 b s who l E. unfold dstep. rewrite E. reflexivity. Qed.

Theorem facts_reach_is_own_reach : forall fs, ctxio_facts_ok fs = true -> forall s0 s,
  dreach (facts_scope fs) (facts_shared_chan fs) s0 s <-> dreach own_scope false s0 s.
Proof.
  intros fs H s0 s. rewrite (facts_give_own_channels fs H).
  split; intro R; induction R as [|s1 w l s2 R IH St].
  - constructor.
  - econstructor; [exact IH|]. rewrite <- St. symmetry. apply dstep_ext. apply facts_give_own_scope. exact H.
  - constructor.
  - econstructor; [exact IH|]. rewrite <- St. apply dstep_ext. apply facts_give_own_scope. exact H.
Qed.

(* hence: with the discipline read off the source, a read and a write on one connection do not interfere *)
Corollary facts_noninterference : forall fs, ctxio_facts_ok fs = true -> forall r0 w0 s,
  dreach (facts_scope fs) (facts_shared_chan fs) (mkD r0 w0) s <-> creach r0 (d_rd s) /\ creach w0 (d_wr s).
Proof.
  intros fs H r0 w0 s. rewrite (facts_reach_is_own_reach fs H). apply own_reach_iff.
Qed.

(* the discipline is satisfiable (conn.go as it is) and not trivial (one SetDeadline for both directions fails it) *)
Example conn_go_facts_ok :
  ctxio_facts_ok [mkCF Wr [SetWrite] true true 1; mkCF Rd [SetRead] true true 1; mkCF Rd [SetRead] true true 1] = true.
Proof. reflexivity. Qed.

Example shared_setter_fails :
  ctxio_facts_ok [mkCF Wr [SetBoth] true true 1; mkCF Rd [SetBoth] true true 1] = false.
Proof. reflexivity. Qed.

Example shared_channel_fails :
  ctxio_facts_ok [mkCF Wr [SetWrite] false true 1; mkCF Rd [SetRead] false true 1] = false.
Proof. reflexivity. Qed.

Print Assumptions facts_give_own_scope.
Print Assumptions facts_give_own_channels.
Print Assumptions facts_reach_is_own_reach.
Print Assumptions facts_noninterference.
