(* Proofs/ClientProofsB.v — client receive (C11): one ReadBytes, one Unmarshal;
   the result depends on the byte stream only; DispatchError. *)
From VL Require Import Bytes Lit Json Wire Service Client WireProofs ServiceProofsA.
Open Scope N_scope.

(* what the receive closure makes of one complete frame (NUL included) *)
Definition reply_of_frame (fr : bytes) : recv_res :=
  match decode_struct reply_schema (strip_last fr) with
  | Some [FRaw p; FBool cont; FString e] =>
    match e with [] => RvReply p cont | _ => dispatch_error e p end
  | _ => RvDecodeErr
  end.

Lemma client_receive_data : forall cap c fr c',
  read_bytes cap 0 c = Some (RData fr, c') -> client_receive cap c = (reply_of_frame fr, c').
Proof.
  intros cap c fr c' H. unfold client_receive, reply_of_frame. rewrite H.
  destruct (decode_struct reply_schema (strip_last fr)) as [l|]; [|reflexivity].
  destruct l as [|[| |p|] l]; try reflexivity.
  destruct l as [|[|cont| |] l]; try reflexivity.
  destruct l as [|[e| | |] l]; try reflexivity.
  destruct l; [|reflexivity]. destruct e; reflexivity.
Qed.

Lemma client_receive_eof : forall cap c d c',
  read_bytes cap 0 c = Some (REof d, c') -> client_receive cap c = (RvEOF, c').
Proof. intros cap c d c' H. unfold client_receive. rewrite H. reflexivity. Qed.

(* receive returns the decoding of exactly the next complete frame; the stream
   advances past it; EOF before a NUL gives RvEOF *)
Theorem receive_spec_ok : forall cap c, (1 <= cap)%nat -> chunks_ok c ->
  exists r c', client_receive cap c = (r, c') /\ chunks_ok c' /\
    match cut_at 0 (stream_of c) with
    | None => r = RvEOF /\ stream_of c' = []
    | Some (fr, rest) => stream_of c' = rest /\ r = reply_of_frame fr
    end.
Proof.
  intros cap c Hcap Hok.
  destruct (read_bytes_spec cap 0 c Hcap Hok) as (r & c' & Hr & Hok' & Hspec).
  destruct (cut_at 0 (stream_of c)) as [[fr rest]|].
  - destruct Hspec as [-> Hs]. exists (reply_of_frame fr), c'.
    split; [apply client_receive_data; exact Hr|]. split; [exact Hok'|]. split; [exact Hs|reflexivity].
  - destruct Hspec as [-> Hs]. exists RvEOF, c'.
    split; [apply (client_receive_eof _ _ _ _ Hr)|]. split; [exact Hok'|]. split; [reflexivity|exact Hs].
Qed.
Print Assumptions receive_spec_ok.

Theorem receive_spec : forall cap c, (1 <= cap)%nat -> chunks_ok c ->
  exists r c', client_receive cap c = (r, c') /\
    match cut_at 0 (stream_of c) with
    | None => r = RvEOF /\ stream_of c' = []
    | Some (fr, rest) => stream_of c' = rest /\
        r = match decode_struct reply_schema (strip_last fr) with
            | Some [FRaw p; FBool cont; FString e] =>
              match e with [] => RvReply p cont | _ => dispatch_error e p end
            | _ => RvDecodeErr
            end
    end.
Proof.
  intros cap c Hcap Hok.
  destruct (receive_spec_ok cap c Hcap Hok) as (r & c' & Hr & _ & Hs).
  exists r, c'. split; [exact Hr|]. exact Hs.
Qed.
Print Assumptions receive_spec.

Corollary receive_segmentation_irrelevant : forall cap c1 c2, (1 <= cap)%nat ->
  chunks_ok c1 -> chunks_ok c2 -> stream_of c1 = stream_of c2 ->
  fst (client_receive cap c1) = fst (client_receive cap c2).
Proof.
  intros cap c1 c2 Hcap H1 H2 E.
  destruct (receive_spec_ok cap c1 Hcap H1) as (r1 & c1' & Hr1 & _ & Hs1).
  destruct (receive_spec_ok cap c2 Hcap H2) as (r2 & c2' & Hr2 & _ & Hs2).
  rewrite Hr1, Hr2. cbn [fst]. rewrite E in Hs1.
  destruct (cut_at 0 (stream_of c2)) as [[fr rest]|].
  - destruct Hs1 as [_ ->]. destruct Hs2 as [_ ->]. reflexivity.
  - destruct Hs1 as [-> _]. destruct Hs2 as [-> _]. reflexivity.
Qed.
Print Assumptions receive_segmentation_irrelevant.

(* also the remaining stream is the same, so a whole sequence of receives is segmentation independent *)
Corollary receive_segmentation_irrelevant_rest : forall cap c1 c2, (1 <= cap)%nat ->
  chunks_ok c1 -> chunks_ok c2 -> stream_of c1 = stream_of c2 ->
  stream_of (snd (client_receive cap c1)) = stream_of (snd (client_receive cap c2)).
Proof.
  intros cap c1 c2 Hcap H1 H2 E.
  destruct (receive_spec_ok cap c1 Hcap H1) as (r1 & c1' & Hr1 & _ & Hs1).
  destruct (receive_spec_ok cap c2 Hcap H2) as (r2 & c2' & Hr2 & _ & Hs2).
  rewrite Hr1, Hr2. cbn [snd]. rewrite E in Hs1.
  destruct (cut_at 0 (stream_of c2)) as [[fr rest]|].
  - destruct Hs1 as [-> _]. destruct Hs2 as [-> _]. reflexivity.
  - destruct Hs1 as [_ ->]. destruct Hs2 as [_ ->]. reflexivity.
Qed.
Print Assumptions receive_segmentation_irrelevant_rest.

(* ================= DispatchError ================= *)

Theorem dispatch_error_shape : forall name p,
  (exists k a, dispatch_error name p = RvStdError k a) \/ dispatch_error name p = RvError name p.
Proof.
  intros name p. unfold dispatch_error.
  destruct (std_of_name name) as [k|]; [|right; reflexivity].
  destruct p as [raw|]; [|left; exists k, []; reflexivity].
  destruct (decode_struct [(std_field k, KString)] raw) as [l|]; [|right; reflexivity].
  destruct l as [|[a| | |] l]; try (right; reflexivity).
  destruct l; [|right; reflexivity]. left. exists k, a. reflexivity.
Qed.
Print Assumptions dispatch_error_shape.

Theorem std_of_name_std : forall k, std_of_name (std_name k) = Some k.
Proof. intros []; vm_compute; reflexivity. Qed.
Print Assumptions std_of_name_std.

Theorem std_of_name_some : forall name k, std_of_name name = Some k -> name = std_name k.
Proof.
  intros name k. unfold std_of_name.
  destruct (bytes_eqb name err_InterfaceNotFound) eqn:E1;
    [intro H; injection H as <-; apply bytes_eqb_eq; exact E1|].
  destruct (bytes_eqb name err_MethodNotFound) eqn:E2;
    [intro H; injection H as <-; apply bytes_eqb_eq; exact E2|].
  destruct (bytes_eqb name err_MethodNotImplemented) eqn:E3;
    [intro H; injection H as <-; apply bytes_eqb_eq; exact E3|].
  destruct (bytes_eqb name err_InvalidParameter) eqn:E4;
    [intro H; injection H as <-; apply bytes_eqb_eq; exact E4|]. discriminate.
Qed.

Theorem std_of_name_iff : forall name k, std_of_name name = Some k <-> name = std_name k.
Proof.
  intros name k. split; [apply std_of_name_some|]. intros ->. apply std_of_name_std.
Qed.
Print Assumptions std_of_name_iff.

Lemma std_name_not_accepted : forall k, error_name_ok (std_name k) = false.
Proof. intros []; vm_compute; reflexivity. Qed.

(* the names ReplyError accepts are disjoint from the four typed errors *)
Theorem accepted_error_names_are_not_standard : forall name,
  error_name_ok name = true -> std_of_name name = None.
Proof.
  intros name H. destruct (std_of_name name) as [k|] eqn:E; [|reflexivity].
  apply std_of_name_some in E. subst name. rewrite std_name_not_accepted in H. discriminate.
Qed.
Print Assumptions accepted_error_names_are_not_standard.

(* hence an accepted ReplyError is always delivered as the untyped error, parameters untouched *)
Corollary dispatch_accepted_error : forall name p, error_name_ok name = true ->
  dispatch_error name p = RvError name p.
Proof.
  intros name p H. unfold dispatch_error.
  rewrite (accepted_error_names_are_not_standard name H). reflexivity.
Qed.
Print Assumptions dispatch_accepted_error.

Lemma reply_of_frame_not_fuel : forall fr, reply_of_frame fr <> RvFuel.
Proof.
  intro fr. unfold reply_of_frame.
  destruct (decode_struct reply_schema (strip_last fr)) as [l|]; [|discriminate].
  destruct l as [|[| |p|] l]; try discriminate.
  destruct l as [|[|cont| |] l]; try discriminate.
  destruct l as [|[e| | |] l]; try discriminate.
  destruct l; [|discriminate]. destruct e as [|e0 e]; [discriminate|].
  destruct (dispatch_error_shape (e0 :: e) p) as [[k [a ->]]| ->]; discriminate.
Qed.

Theorem receive_never_fuel : forall cap c, (1 <= cap)%nat -> chunks_ok c ->
  fst (client_receive cap c) <> RvFuel.
Proof.
  intros cap c Hcap Hok.
  destruct (receive_spec_ok cap c Hcap Hok) as (r & c' & Hr & _ & Hs). rewrite Hr. cbn [fst].
  destruct (cut_at 0 (stream_of c)) as [[fr rest]|].
  - destruct Hs as [_ ->]. apply reply_of_frame_not_fuel.
  - destruct Hs as [-> _]. discriminate.
Qed.
Print Assumptions receive_never_fuel.

(* a frame written by frame(...) arrives as that message *)
Theorem receive_framed : forall cap c body rest, (1 <= cap)%nat -> chunks_ok c ->
  ~ In 0 body -> stream_of c = frame body ++ rest ->
  exists c', client_receive cap c = (reply_of_frame (frame body), c') /\ stream_of c' = rest /\ chunks_ok c'.
Proof.
  intros cap c body rest Hcap Hok Hnz E.
  destruct (receive_spec_ok cap c Hcap Hok) as (r & c' & Hr & Hok' & Hs).
  rewrite E in Hs. unfold frame in Hs.
  pose proof (cut_at_frame 0 body rest Hnz) as Hc. unfold byte in Hc. rewrite Hc in Hs.
  destruct Hs as [Hs ->]. exists c'. split; [exact Hr|]. split; [exact Hs|exact Hok'].
Qed.
Print Assumptions receive_framed.

(* ================= examples ================= *)

(* the frame "null": json.Unmarshal leaves the zero reply, which the client takes for an empty reply *)
Example receive_null_is_empty_reply :
  fst (client_receive 4096 (mkConn [] [[110; 117; 108; 108; 0]])) = RvReply None false.
Proof. vm_compute. reflexivity. Qed.

Example receive_eof_partial :
  fst (client_receive 4096 (mkConn [] [[123; 125]])) = RvEOF.
Proof. vm_compute. reflexivity. Qed.

Example receive_garbage :
  fst (client_receive 4096 (mkConn [] [[123; 0]])) = RvDecodeErr.
Proof. vm_compute. reflexivity. Qed.

(* a reply {"parameters":{"a":1},"continues":true} split over three segments, cap 4 *)
Definition exB_reply : bytes := encode_reply (Some (encode_value (JObj [([97], JNum [49])]))) true [].
Example receive_split :
  fst (client_receive 4 (mkConn [] [firstn 5 (frame exB_reply); firstn 9 (skipn 5 (frame exB_reply));
                                     skipn 14 (frame exB_reply) ++ [123]]))
  = RvReply (Some (encode_value (JObj [([97], JNum [49])]))) true.
Proof. vm_compute. reflexivity. Qed.

(* a standard error frame as the service writes it *)
Example receive_std_error :
  fst (client_receive 4096 (mkConn []
        [frame (encode_reply (Some (std_params EMethodNotFound [70; 111; 111])) false (std_name EMethodNotFound))]))
  = RvStdError EMethodNotFound [70; 111; 111].
Proof. vm_compute. reflexivity. Qed.

(* a standard error name with parameters of the wrong shape falls back to the untyped error *)
Example receive_std_error_bad_params :
  dispatch_error (std_name EMethodNotFound) (Some [91; 93]) = RvError (std_name EMethodNotFound) (Some [91; 93]).
Proof. vm_compute. reflexivity. Qed.

(* an error frame without parameters for a standard name: typed error with the empty string *)
Example receive_std_error_no_params :
  fst (client_receive 4096 (mkConn [] [frame (encode_reply None false (std_name EInvalidParameter))]))
  = RvStdError EInvalidParameter [].
Proof. vm_compute. reflexivity. Qed.
