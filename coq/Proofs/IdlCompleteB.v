(* Proofs/IdlCompleteB.v — completeness of the IDL parser model, part B:
   word tokens and types (read_type / read_fields on RTy / RFields / RNames). *)
From VL Require Import Bytes Lit Idl IdlGrammar IdlCursor IdlCompleteA.
From Coq Require Import Lia ZArith.
Open Scope N_scope.

Ltac norm_list :=
  repeat (progress (rewrite ?rev_app_distr, <- ?app_assoc; cbn [rev app])).

(* k does not start with a byte of class p *)
Definition nostart (p : N -> bool) (k : bytes) : bool :=
  match k with [] => true | c :: _ => negb (p c) end.
Definition follow_ok (k : bytes) : bool := nostart is_alnum k.

Lemma tw_word : forall p w k, forallb p w = true -> nostart p k = true ->
  take_while p (w ++ k) = w /\ drop_while p (w ++ k) = k.
Proof.
  intros p w k Hw Hk. induction w as [|x w IH].
  - cbn [app]. destruct k as [|c k']; [split; reflexivity|].
    cbn [nostart] in Hk. apply negb_true_iff in Hk.
    cbn [take_while drop_while]. rewrite Hk. split; reflexivity.
  - cbn [forallb] in Hw. apply andb_true_iff in Hw. destruct Hw as [Hx Hw].
    destruct (IH Hw) as [E1 E2]. cbn [app take_while drop_while].
    rewrite Hx, E1, E2. split; reflexivity.
Qed.

Lemma read_span_word : forall p F b w k l,
  forallb p w = true -> nostart p k = true -> (length (w ++ k) < F)%nat ->
  read_span p F (mkPst (gc b (w ++ k)) l) = ROk w (mkPst (gc (rev w ++ b) k) l).
Proof.
  intros p F b w k l Hw Hk Hl. rewrite read_span_gc by exact Hl.
  destruct (tw_word p w k Hw Hk) as [E1 E2]. rewrite E1, E2. reflexivity.
Qed.

Lemma read_span_none : forall p F b k l,
  nostart p k = true -> (length k < F)%nat ->
  read_span p F (mkPst (gc b k) l) = ROk [] (mkPst (gc b k) l).
Proof.
  intros p F b k l Hk Hl. apply (read_span_word p F b [] k l eq_refl Hk Hl).
Qed.

(* character classes *)
Ltac bool_lia :=
  repeat match goal with
  | H : _ && _ = true |- _ => apply andb_true_iff in H; destruct H
  | H : _ || _ = false |- _ => apply orb_false_iff in H; destruct H
  | H : (_ <=? _) = true |- _ => apply N.leb_le in H
  | H : (_ <=? _) = false |- _ => apply N.leb_gt in H
  | H : (_ =? _) = true |- _ => apply N.eqb_eq in H
  | H : (_ =? _) = false |- _ => apply N.eqb_neq in H
  end.

Lemma lower_range : forall c, is_lower c = true <-> 97 <= c <= 122.
Proof.
  intro c. unfold is_lower. rewrite andb_true_iff, !N.leb_le. reflexivity.
Qed.
Lemma upper_range : forall c, is_upper c = true <-> 65 <= c <= 90.
Proof.
  intro c. unfold is_upper. rewrite andb_true_iff, !N.leb_le. reflexivity.
Qed.

Lemma lower_alnum : forall c, is_lower c = true -> is_alnum c = true.
Proof. intros c H. unfold is_alnum, is_alpha. rewrite H. reflexivity. Qed.
Lemma upper_alnum : forall c, is_upper c = true -> is_alnum c = true.
Proof. intros c H. unfold is_alnum, is_alpha. rewrite H, orb_true_r. reflexivity. Qed.
Lemma upper_not_lower : forall c, is_upper c = true -> is_lower c = false.
Proof.
  intros c H. apply upper_range in H. destruct (is_lower c) eqn:E; [|reflexivity].
  apply lower_range in E. lia.
Qed.
Lemma not_alnum_not_lower : forall c, is_alnum c = false -> is_lower c = false.
Proof.
  intros c H. destruct (is_lower c) eqn:E; [|reflexivity].
  rewrite (lower_alnum c E) in H. discriminate.
Qed.

Lemma follow_nolower : forall k, follow_ok k = true -> nostart is_lower k = true.
Proof.
  intros [|c k] H; [reflexivity|]. cbn [follow_ok nostart] in *.
  apply negb_true_iff in H. rewrite (not_alnum_not_lower c H). reflexivity.
Qed.

(* a gap byte belongs to no word class *)
Lemma gapb_cases : forall c, is_gapb c = true ->
  c = LF \/ c = SP \/ c = TAB \/ c = CR \/ c = HASH.
Proof.
  intros c H. unfold is_gapb, is_blank in H.
  destruct (N.eqb_spec c LF); [tauto|]. destruct (N.eqb_spec c SP); [tauto|].
  destruct (N.eqb_spec c TAB); [tauto|]. destruct (N.eqb_spec c CR); [tauto|].
  destruct (N.eqb_spec c HASH); [tauto|]. discriminate.
Qed.

Lemma gapb_not_field : forall c, is_gapb c = true -> is_field_char c = false.
Proof.
  intros c H. destruct (gapb_cases c H) as [E|[E|[E|[E|E]]]]; rewrite E; reflexivity.
Qed.
Lemma not_field_not_alnum : forall c, is_field_char c = false -> is_alnum c = false.
Proof. intros c H. unfold is_field_char in H. apply orb_false_iff in H. tauto. Qed.
Lemma gapb_not_alnum : forall c, is_gapb c = true -> is_alnum c = false.
Proof. intros c H. apply not_field_not_alnum, gapb_not_field, H. Qed.

Lemma gap_nostart : forall p g k, gap g ->
  (forall c, is_gapb c = true -> p c = false) ->
  nostart p k = true -> nostart p (g ++ k) = true.
Proof.
  intros p g k Hg Hp Hk. apply gap_head in Hg. destruct g as [|c g']; [exact Hk|].
  cbn [app nostart]. rewrite (Hp c Hg). reflexivity.
Qed.

Lemma gap_follow : forall g k, gap g -> follow_ok k = true -> follow_ok (g ++ k) = true.
Proof. intros g k Hg Hk. apply gap_nostart; [exact Hg|exact gapb_not_alnum|exact Hk]. Qed.

Lemma gap_nofield : forall g k, gap g -> nostart is_field_char k = true ->
  nostart is_field_char (g ++ k) = true.
Proof. intros g k Hg Hk. apply gap_nostart; [exact Hg|exact gapb_not_field|exact Hk]. Qed.

Lemma stop_field : forall c k, is_field_char c = true -> stop (c :: k) = true.
Proof.
  intros c k H. cbn [stop]. destruct (is_gapb c) eqn:E; [|reflexivity].
  rewrite (gapb_not_field c E) in H. discriminate.
Qed.
Lemma stop_lower : forall c k, is_lower c = true -> stop (c :: k) = true.
Proof. intros c k H. apply stop_field, is_lower_field, H. Qed.
Lemma stop_upper : forall c k, is_upper c = true -> stop (c :: k) = true.
Proof. intros c k H. apply stop_field, is_alnum_field, upper_alnum, H. Qed.

Lemma read_field_name_word : forall F b n k l,
  field_name_ok n = true -> nostart is_field_char k = true ->
  (length (n ++ k) < F)%nat ->
  read_field_name F (mkPst (gc b (n ++ k)) l) = ROk n (mkPst (gc (rev n ++ b) k) l).
Proof.
  intros F b n k l Hn Hk Hl. destruct n as [|c r]; [discriminate|].
  cbn [field_name_ok] in Hn. apply andb_true_iff in Hn. destruct Hn as [Hc Hr].
  unfold read_field_name. cbn [cu lc app]. rewrite next_gc_cons. cbv beta iota zeta.
  rewrite Hc. cbn [app length] in Hl. rewrite scan_while_gc by lia.
  destruct (tw_word is_field_char r k Hr Hk) as [E1 E2]. rewrite E1, E2, pos_gc.
  replace (rev r ++ c :: b) with (rev (c :: r) ++ b)
    by (cbn [rev]; rewrite <- app_assoc; reflexivity).
  rewrite slice_gc. reflexivity.
Qed.

(* the first byte of a rendered type *)
Lemma RTy_head : forall t s, RTy t s ->
  exists c r, s = c :: r /\ is_gapb c = false /\ (starts_alnum s = false -> is_alnum c = false).
Proof.
  intros t s H. destruct H as [| | | | |n Hn|e s H|e s H|e s H Hm|g Hg|g fs s Hg Hne H|g ns s Hg Hne H];
    try (eexists; eexists; split; [reflexivity|split; [reflexivity|intro E; try discriminate E; reflexivity]]).
  destruct n as [|c r]; [discriminate|]. cbn [type_name_ok] in Hn.
  apply andb_true_iff in Hn. destruct Hn as [Hc Hr]. exists c, r. split; [reflexivity|].
  split; [|cbn [starts_alnum]; tauto].
  pose proof (stop_upper c [] Hc) as S. cbn [stop] in S. apply negb_true_iff in S. exact S.
Qed.

Lemma RTy_stop : forall t s X, RTy t s -> stop (s ++ X) = true.
Proof.
  intros t s X H. destruct (RTy_head t s H) as (c & r & -> & G & _).
  cbn [app stop]. rewrite G. reflexivity.
Qed.

Lemma RTy_len : forall t s, RTy t s -> (1 <= length s)%nat.
Proof.
  intros t s H. destruct (RTy_head t s H) as (c & r & -> & _). cbn [length]. lia.
Qed.

(* ---- read_fields, after the leading advance ---- *)
Definition fields_body (f F : nat) (m : lmode) (tf : list (bytes * ty)) (ef : list bytes)
    (s1 : pst) : res ty :=
  do (name, s2) <- read_field_name F s1;
  match name with
  | [] => RNil
  | _ :: _ =>
    do (_, s3) <- advance F s2;
    let (ch, c4) := next (cu s3) in
    match ch with
    | Some 58 =>
      match m with
      | LBare => RNil
      | _ =>
        do (_, s5) <- advance F (mkPst c4 (lc s3));
        do (ft, s6) <- read_type f F s5;
        after_field f F LTyped ((name, ft) :: tf) ef s6
      end
    | _ =>
      match m with
      | LTyped => RNil
      | _ => after_field f F LBare tf (name :: ef) (mkPst (backup c4) (lc s3))
      end
    end
  end.

Lemma read_fields_body : forall f F m tf ef s,
  read_fields (S f) F m tf ef s = do (_, s1) <- advance F s; fields_body f F m tf ef s1.
Proof. reflexivity. Qed.

(* read_fields started anywhere in the gap before a field *)
Lemma read_fields_gap : forall g f F m tf ef b r l, gap g -> stop r = true ->
  (length (g ++ r) < F)%nat ->
  exists l', read_fields (S f) F m tf ef (mkPst (gc b (g ++ r)) l)
             = fields_body f F m tf ef (mkPst (gc (rev g ++ b) r) l').
Proof.
  intros g f F m tf ef b r l Hg Hr Hl. rewrite read_fields_body.
  destruct (advance_gap g Hg F b r l Hr Hl) as [l' E]. rewrite E. exists l'. reflexivity.
Qed.

Lemma after_field_close : forall g f F m tf ef b k l, gap g ->
  (length (g ++ 41%N :: k) < F)%nat ->
  exists l', after_field f F m tf ef (mkPst (gc b (g ++ 41 :: k)) l)
             = ROk (finish_list m tf ef) (mkPst (gc (41 :: rev g ++ b) k) l').
Proof.
  intros g f F m tf ef b k l Hg Hl. unfold after_field.
  destruct (advance_gap g Hg F b (41 :: k) l eq_refl Hl) as [l' E]. rewrite E.
  cbn [bind cu lc]. rewrite next_gc_cons. cbv beta iota. exists l'. reflexivity.
Qed.

Lemma after_field_comma : forall g f F m tf ef b k l, gap g ->
  (length (g ++ 44%N :: k) < F)%nat ->
  exists l', after_field f F m tf ef (mkPst (gc b (g ++ 44 :: k)) l)
             = read_fields f F m tf ef (mkPst (gc (44 :: rev g ++ b) k) l').
Proof.
  intros g f F m tf ef b k l Hg Hl. unfold after_field.
  destruct (advance_gap g Hg F b (44 :: k) l eq_refl Hl) as [l' E]. rewrite E.
  cbn [bind cu lc]. rewrite next_gc_cons. cbv beta iota. exists l'. reflexivity.
Qed.

(* a bare name (enum member) up to the separator c = ',' or ')' *)
Lemma name_prefix : forall n g2 c R f F m tf ef b l,
  field_name_ok n = true -> gap g2 -> c = 41 \/ c = 44 -> m <> LTyped ->
  (length (n ++ g2 ++ c :: R) < F)%nat ->
  exists l', fields_body f F m tf ef (mkPst (gc b (n ++ g2 ++ c :: R)) l)
    = after_field f F LBare tf (n :: ef) (mkPst (gc (rev g2 ++ rev n ++ b) (c :: R)) l').
Proof.
  intros n g2 c R f F m tf ef b l Hn Hg Hc Hm Hl. unfold fields_body.
  assert (Hc1 : nostart is_field_char (c :: R) = true /\ stop (c :: R) = true /\ (c =? 58) = false)
    by (destruct Hc as [-> | ->]; repeat split; reflexivity).
  destruct Hc1 as (N1 & N2 & N3).
  rewrite read_field_name_word; [|exact Hn|apply gap_nofield; assumption|exact Hl].
  cbn [bind]. destruct n as [|n0 n']; [discriminate|]. rewrite app_length in Hl.
  destruct (advance_gap g2 Hg F (rev (n0 :: n') ++ b) (c :: R) l N2 ltac:(lia)) as [l' E].
  rewrite E. cbn [bind cu lc]. rewrite next_gc_cons. cbv beta iota. rewrite m58, N3.
  rewrite backup_gc_cons. exists l'. destruct m; [reflexivity|contradiction|reflexivity].
Qed.

Lemma ends_word_app : forall p s, ends_word s = true -> ends_word (p ++ s) = true.
Proof.
  intros p s H. unfold ends_word in *. rewrite rev_app_distr.
  destruct (rev s) as [|c r]; [discriminate|]. exact H.
Qed.

Lemma ends_word_alnum : forall w, forallb is_alnum w = true -> w <> [] -> ends_word w = true.
Proof.
  intros w Hw Hne. unfold ends_word. destruct (rev w) as [|c r] eqn:E.
  - apply (f_equal (@rev N)) in E. rewrite rev_involutive in E. contradiction.
  - rewrite forallb_forall in Hw. rewrite (Hw c); [reflexivity|].
    apply in_rev. rewrite E. left. reflexivity.
Qed.

Lemma lower_all_alnum : forall w, forallb is_lower w = true -> forallb is_alnum w = true.
Proof.
  intros w H. rewrite forallb_forall in *. intros x Hx. apply lower_alnum, H, Hx.
Qed.

(* the follow condition is only needed when the type ends in a word *)
Definition P_ty (t : ty) (s : bytes) : Prop :=
  forall fuel F b k l, (ends_word s = true -> follow_ok k = true) ->
    (length (s ++ k) < fuel)%nat -> (length (s ++ k) < F)%nat ->
    exists l', read_type fuel F (mkPst (gc b (s ++ k)) l)
               = ROk t (mkPst (gc (rev s ++ b) k) l').

(* a typed field up to (not including) the gap before the separator *)
Lemma field_prefix : forall n t g2 g3 st R f F m tf ef b l,
  field_name_ok n = true -> gap g2 -> gap g3 -> RTy t st -> P_ty t st ->
  follow_ok R = true -> m <> LBare ->
  (length (n ++ g2 ++ 58%N :: g3 ++ st ++ R) <= f)%nat ->
  (length (n ++ g2 ++ 58%N :: g3 ++ st ++ R) < F)%nat ->
  exists l', fields_body f F m tf ef (mkPst (gc b (n ++ g2 ++ 58 :: g3 ++ st ++ R)) l)
    = after_field f F LTyped ((n, t) :: tf) ef
        (mkPst (gc (rev st ++ rev g3 ++ 58 :: rev g2 ++ rev n ++ b) R) l').
Proof.
  intros n t g2 g3 st R f F m tf ef b l Hn Hg2 Hg3 Ht PT HR Hm Hf HF. unfold fields_body.
  rewrite read_field_name_word; [|exact Hn|apply gap_nofield; [exact Hg2|reflexivity]|exact HF].
  cbn [bind]. destruct n as [|n0 n']; [discriminate|].
  rewrite app_length in Hf, HF. cbn [length] in Hf, HF.
  destruct (advance_gap g2 Hg2 F (rev (n0 :: n') ++ b) (58 :: g3 ++ st ++ R) l eq_refl ltac:(lia))
    as [l1 E1].
  rewrite E1. cbn [bind cu lc]. rewrite next_gc_cons. cbv beta iota.
  rewrite app_length in Hf, HF. cbn [length] in Hf, HF.
  destruct (advance_gap g3 Hg3 F (58 :: rev g2 ++ rev (n0 :: n') ++ b) (st ++ R) l1
              (RTy_stop t st R Ht) ltac:(lia)) as [l2 E2].
  rewrite app_length in Hf, HF.
  destruct (PT f F (rev g3 ++ 58 :: rev g2 ++ rev (n0 :: n') ++ b) R l2 (fun _ => HR) ltac:(lia) ltac:(lia))
    as [l3 E3].
  exists l3. destruct m; [|rewrite E2; cbn [bind]; rewrite E3; reflexivity|contradiction].
  rewrite E2. cbn [bind]. rewrite E3. reflexivity.
Qed.

(* ---- read_type, case by case ---- *)
Lemma lower_not_63_91 : forall x, is_lower x = true -> (x =? 63) = false /\ (x =? 91) = false.
Proof. intros x H. apply lower_range in H. split; apply N.eqb_neq; lia. Qed.
Lemma upper_not_63_91 : forall x, is_upper x = true -> (x =? 63) = false /\ (x =? 91) = false.
Proof. intros x H. apply upper_range in H. split; apply N.eqb_neq; lia. Qed.

Lemma P_builtin : forall w t, builtin_of w = Some t -> forallb is_lower w = true -> P_ty t w.
Proof.
  intros w t Hb Hw fuel F b k l Hk0 Hf HF.
  destruct fuel as [|f]; [lia|]. rewrite read_type_S. cbn [cu lc].
  destruct w as [|x w']; [discriminate|].
  pose proof (Hk0 (ends_word_alnum _ (lower_all_alnum _ Hw) ltac:(discriminate))) as Hk. cbn [app]. rewrite next_gc_cons.
  cbv beta iota zeta. rewrite m63_91.
  pose proof Hw as Hw0. cbn [forallb] in Hw0. apply andb_true_iff in Hw0. destruct Hw0 as [Hx _].
  destruct (lower_not_63_91 x Hx) as [E1 E2]. rewrite E1, E2. rewrite backup_gc_cons.
  change (x :: w' ++ k) with ((x :: w') ++ k). unfold read_keyword.
  rewrite read_span_word; [|exact Hw|apply follow_nolower, Hk|exact HF].
  cbn [bind]. rewrite Hb. exists l. reflexivity.
Qed.

Lemma P_alias : forall n, type_name_ok n = true -> P_ty (TAlias n) n.
Proof.
  intros n Hn fuel F b k l Hk0 Hf HF.
  destruct fuel as [|f]; [lia|]. rewrite read_type_S. cbn [cu lc].
  destruct n as [|x r]; [discriminate|]. cbn [type_name_ok] in Hn.
  apply andb_true_iff in Hn. destruct Hn as [Hx Hr].
  assert (Hk : follow_ok k = true).
  { apply Hk0, ends_word_alnum; [|discriminate].
    cbn [forallb]. rewrite (upper_alnum x Hx), Hr. reflexivity. }
  cbn [app]. rewrite next_gc_cons. cbv beta iota zeta. rewrite m63_91.
  destruct (upper_not_63_91 x Hx) as [E1 E2]. rewrite E1, E2. rewrite backup_gc_cons.
  unfold read_keyword. rewrite read_span_none;
    [|cbn [nostart]; rewrite (upper_not_lower x Hx); reflexivity|exact HF].
  cbn [bind]. unfold read_type_name. change (x :: r ++ k) with ((x :: r) ++ k).
  rewrite read_span_word; [|cbn [forallb]; rewrite (upper_alnum x Hx), Hr; reflexivity|exact Hk|exact HF].
  cbn [bind]. exists l. reflexivity.
Qed.

Lemma P_maybe : forall e s, P_ty e s -> is_maybe e = false -> P_ty (TMaybe e) ([63] ++ s).
Proof.
  intros e s PE Hm fuel F b k l Hk Hf HF.
  destruct fuel as [|f]; [lia|]. rewrite read_type_S. cbn [cu lc app].
  rewrite next_gc_cons. cbv beta iota zeta. cbn [app length] in Hf, HF.
  destruct (PE f F (63 :: b) k l (fun E => Hk (ends_word_app _ _ E)) ltac:(lia) ltac:(lia))
    as [l' E]. rewrite E.
  cbn [bind]. rewrite Hm. exists l'. norm_list. reflexivity.
Qed.

Lemma P_array : forall e s, P_ty e s -> P_ty (TArray e) ([91; 93] ++ s).
Proof.
  intros e s PE fuel F b k l Hk Hf HF.
  destruct fuel as [|f]; [lia|]. rewrite read_type_S. cbn [cu lc app].
  rewrite next_gc_cons. cbv beta iota zeta. cbn [app length] in Hf, HF.
  unfold read_keyword. rewrite read_span_none; [|reflexivity|cbn [length]; lia].
  cbn [bind cu lc]. change (bytes_eqb [] kw_string) with false. cbv beta iota.
  rewrite next_gc_cons. cbv beta iota.
  destruct (PE f F (93 :: 91 :: b) k l (fun E => Hk (ends_word_app _ _ E)) ltac:(lia) ltac:(lia))
    as [l' E]. rewrite E.
  cbn [bind]. exists l'. norm_list. reflexivity.
Qed.

Lemma P_map : forall e s, P_ty e s -> P_ty (TMap e) ([91] ++ kw_string ++ [93] ++ s).
Proof.
  intros e s PE fuel F b k l Hk Hf HF.
  destruct fuel as [|f]; [lia|]. rewrite read_type_S. cbn [cu lc].
  change (([91] ++ kw_string ++ [93] ++ s) ++ k) with (91 :: kw_string ++ 93 :: s ++ k) in *.
  rewrite next_gc_cons. cbv beta iota zeta. cbn [length] in Hf, HF.
  unfold read_keyword. rewrite read_span_word; [|reflexivity|reflexivity|lia].
  cbn [bind cu lc]. rewrite bytes_eqb_refl. cbv beta iota.
  rewrite next_gc_cons. cbv beta iota. rewrite app_length in Hf, HF. cbn [length] in Hf, HF.
  destruct (PE f F (93 :: rev kw_string ++ 91 :: b) k l
              (fun E => Hk (ends_word_app ([91] ++ kw_string ++ [93]) s E)) ltac:(lia) ltac:(lia))
    as [l' E].
  rewrite E. cbn [bind]. exists l'. f_equal. f_equal. f_equal.
  unfold kw_string. norm_list. reflexivity.
Qed.

(* the common prefix of every "(": keyword and type name are both empty *)
Lemma read_type_paren : forall f F b r l, (length (40%N :: r) < F)%nat ->
  read_type (S f) F (mkPst (gc b (40 :: r)) l) =
    do (_, s5) <- advance F (mkPst (gc (40 :: b) r) l);
    let (ch4, c6) := next (cu s5) in
    match ch4 with
    | Some 41 => ROk (TStruct []) (mkPst c6 (lc s5))
    | _ => read_fields f F LNone [] [] (mkPst (backup c6) (lc s5))
    end.
Proof.
  intros f F b r l HF. rewrite read_type_S. cbn [cu lc]. rewrite next_gc_cons.
  cbv beta iota zeta. rewrite backup_gc_cons.
  unfold read_keyword. rewrite read_span_none; [|reflexivity|exact HF].
  cbn [bind]. unfold read_type_name. rewrite read_span_none; [|reflexivity|exact HF].
  cbn [bind cu lc]. rewrite next_gc_cons. cbv beta iota. reflexivity.
Qed.

Lemma P_struct0 : forall g, gap g -> P_ty (TStruct []) ([40] ++ g ++ [41]).
Proof.
  intros g Hg fuel F b k l Hk Hf HF.
  destruct fuel as [|f]; [lia|].
  change (([40] ++ g ++ [41]) ++ k) with (40 :: (g ++ [41]) ++ k) in *.
  rewrite <- app_assoc in *. cbn [app] in *.
  rewrite read_type_paren by exact HF. cbn [length] in HF.
  destruct (advance_gap g Hg F (40 :: b) (41 :: k) l eq_refl ltac:(lia)) as [l' E].
  rewrite E. cbn [bind cu lc]. rewrite next_gc_cons. cbv beta iota.
  exists l'. norm_list. reflexivity.
Qed.

(* "(" gap, then a field list whose first name starts at s1 *)
Lemma read_type_open : forall g g1 c r X f F b l,
  gap g -> gap g1 -> is_lower c = true ->
  (length (40%N :: g ++ g1 ++ (c :: r) ++ X) < F)%nat ->
  exists l', read_type (S (S f)) F (mkPst (gc b (40 :: g ++ g1 ++ (c :: r) ++ X)) l)
    = fields_body f F LNone [] [] (mkPst (gc (rev g1 ++ rev g ++ 40 :: b) ((c :: r) ++ X)) l').
Proof.
  intros g g1 c r X f F b l Hg Hg1 Hc HF.
  rewrite read_type_paren by exact HF. cbn [length] in HF.
  pose proof (gap_app g g1 Hg Hg1) as Hgg. rewrite app_assoc in HF |- *.
  destruct (advance_gap (g ++ g1) Hgg F (40 :: b) ((c :: r) ++ X) l
              (stop_lower c _ Hc) ltac:(lia)) as [l1 E1].
  rewrite E1. cbn [bind cu lc app]. rewrite next_gc_cons. cbv beta iota. rewrite m41.
  assert (E41 : (c =? 41) = false) by (apply lower_range in Hc; apply N.eqb_neq; lia).
  rewrite E41, backup_gc_cons.
  rewrite app_length in HF.
  destruct (read_fields_gap [] f F LNone [] [] (rev (g ++ g1) ++ 40 :: b) (c :: r ++ X) l1
              gap_nil (stop_lower c _ Hc) ltac:(cbn [app]; cbn [app] in HF; lia)) as [l2 E2].
  cbn [app rev] in E2. rewrite E2. exists l2. norm_list. reflexivity.
Qed.

Definition starts_lower (s : bytes) : bool :=
  match s with c :: _ => is_lower c | [] => false end.

Lemma field_starts_lower : forall n X, field_name_ok n = true -> starts_lower (n ++ X) = true.
Proof.
  intros [|c r] X H; [discriminate|]. cbn [field_name_ok] in H.
  apply andb_true_iff in H. destruct H as [H _]. exact H.
Qed.

Lemma starts_lower_stop : forall s, starts_lower s = true -> stop s = true.
Proof. intros [|c r] H; [discriminate|]. apply stop_lower. exact H. Qed.

Lemma starts_lower_stop_app : forall s X, starts_lower s = true -> stop (s ++ X) = true.
Proof. intros [|c r] X H; [discriminate|]. apply stop_lower. exact H. Qed.

Lemma read_type_open' : forall g g1 s1 X f F b l,
  gap g -> gap g1 -> starts_lower s1 = true ->
  (length (40%N :: g ++ g1 ++ s1 ++ X) < F)%nat ->
  exists l', read_type (S (S f)) F (mkPst (gc b (40 :: g ++ g1 ++ s1 ++ X)) l)
    = fields_body f F LNone [] [] (mkPst (gc (rev g1 ++ rev g ++ 40 :: b) (s1 ++ X)) l').
Proof.
  intros g g1 [|c r] X f F b l Hg Hg1 Hs HF; [discriminate|].
  apply read_type_open; assumption.
Qed.

Lemma typed_field_close : forall n t g2 g3 g4 st k f F m tf ef b l,
  field_name_ok n = true -> gap g2 -> gap g3 -> gap g4 -> RTy t st -> P_ty t st ->
  m <> LBare ->
  (length (n ++ g2 ++ 58%N :: g3 ++ st ++ g4 ++ 41%N :: k) <= f)%nat ->
  (length (n ++ g2 ++ 58%N :: g3 ++ st ++ g4 ++ 41%N :: k) < F)%nat ->
  exists l', fields_body f F m tf ef
      (mkPst (gc b (n ++ g2 ++ 58 :: g3 ++ st ++ g4 ++ 41 :: k)) l)
    = ROk (TStruct (rev tf ++ [(n, t)]))
        (mkPst (gc (41 :: rev g4 ++ rev st ++ rev g3 ++ 58 :: rev g2 ++ rev n ++ b) k) l').
Proof.
  intros n t g2 g3 g4 st k f F m tf ef b l Hn H2 H3 H4 Ht PT Hm Hf HF.
  destruct (field_prefix n t g2 g3 st (g4 ++ 41 :: k) f F m tf ef b l Hn H2 H3 Ht PT
              (gap_follow g4 (41 :: k) H4 eq_refl) Hm Hf HF) as [l1 E1].
  rewrite E1.
  rewrite !app_length in HF. cbn [length] in HF. rewrite !app_length in HF.
  destruct (after_field_close g4 f F LTyped ((n, t) :: tf) ef
              (rev st ++ rev g3 ++ 58 :: rev g2 ++ rev n ++ b) k l1 H4
              ltac:(rewrite app_length; lia)) as [l2 E2].
  rewrite E2. exists l2. reflexivity.
Qed.

Lemma typed_field_comma : forall n t g2 g3 g4 st X f F m tf ef b l,
  field_name_ok n = true -> gap g2 -> gap g3 -> gap g4 -> RTy t st -> P_ty t st ->
  m <> LBare ->
  (length (n ++ g2 ++ 58%N :: g3 ++ st ++ g4 ++ 44%N :: X) <= f)%nat ->
  (length (n ++ g2 ++ 58%N :: g3 ++ st ++ g4 ++ 44%N :: X) < F)%nat ->
  exists l', fields_body f F m tf ef
      (mkPst (gc b (n ++ g2 ++ 58 :: g3 ++ st ++ g4 ++ 44 :: X)) l)
    = read_fields f F LTyped ((n, t) :: tf) ef
        (mkPst (gc (44 :: rev g4 ++ rev st ++ rev g3 ++ 58 :: rev g2 ++ rev n ++ b) X) l').
Proof.
  intros n t g2 g3 g4 st X f F m tf ef b l Hn H2 H3 H4 Ht PT Hm Hf HF.
  destruct (field_prefix n t g2 g3 st (g4 ++ 44 :: X) f F m tf ef b l Hn H2 H3 Ht PT
              (gap_follow g4 (44 :: X) H4 eq_refl) Hm Hf HF) as [l1 E1].
  rewrite E1.
  rewrite !app_length in HF. cbn [length] in HF. rewrite !app_length in HF.
  destruct (after_field_comma g4 f F LTyped ((n, t) :: tf) ef
              (rev st ++ rev g3 ++ 58 :: rev g2 ++ rev n ++ b) X l1 H4
              ltac:(rewrite app_length; lia)) as [l2 E2].
  rewrite E2. exists l2. reflexivity.
Qed.

Lemma name_close : forall n g2 k f F m tf ef b l,
  field_name_ok n = true -> gap g2 -> m <> LTyped ->
  (length (n ++ g2 ++ 41%N :: k) < F)%nat ->
  exists l', fields_body f F m tf ef (mkPst (gc b (n ++ g2 ++ 41 :: k)) l)
    = ROk (TEnum (rev ef ++ [n])) (mkPst (gc (41 :: rev g2 ++ rev n ++ b) k) l').
Proof.
  intros n g2 k f F m tf ef b l Hn H2 Hm HF.
  destruct (name_prefix n g2 41 k f F m tf ef b l Hn H2 (or_introl eq_refl) Hm HF) as [l1 E1].
  rewrite E1. rewrite !app_length in HF.
  destruct (after_field_close [] f F LBare tf (n :: ef) (rev g2 ++ rev n ++ b) k l1 gap_nil
              ltac:(cbn [app]; lia)) as [l2 E2].
  cbn [app rev] in E2. rewrite E2. exists l2. reflexivity.
Qed.

Lemma name_comma : forall n g2 X f F m tf ef b l,
  field_name_ok n = true -> gap g2 -> m <> LTyped ->
  (length (n ++ g2 ++ 44%N :: X) < F)%nat ->
  exists l', fields_body f F m tf ef (mkPst (gc b (n ++ g2 ++ 44 :: X)) l)
    = read_fields f F LBare tf (n :: ef) (mkPst (gc (44 :: rev g2 ++ rev n ++ b) X) l').
Proof.
  intros n g2 X f F m tf ef b l Hn H2 Hm HF.
  destruct (name_prefix n g2 44 X f F m tf ef b l Hn H2 (or_intror eq_refl) Hm HF) as [l1 E1].
  rewrite E1. rewrite !app_length in HF.
  destruct (after_field_comma [] f F LBare tf (n :: ef) (rev g2 ++ rev n ++ b) X l1 gap_nil
              ltac:(cbn [app]; lia)) as [l2 E2].
  cbn [app rev] in E2. rewrite E2. exists l2. reflexivity.
Qed.

(* ---- the induction predicates for field lists ---- *)
Definition P_fields (fs : list (bytes * ty)) (s : bytes) : Prop :=
  exists g1 s1, s = g1 ++ s1 /\ gap g1 /\ starts_lower s1 = true /\
    forall f F b k l m tf ef, m <> LBare ->
      (length (s1 ++ 41%N :: k) <= f)%nat -> (length (s1 ++ 41%N :: k) < F)%nat ->
      exists l', fields_body f F m tf ef (mkPst (gc b (s1 ++ 41 :: k)) l)
        = ROk (TStruct (rev tf ++ fs)) (mkPst (gc (41 :: rev s1 ++ b) k) l').

Definition P_names (ns : list bytes) (s : bytes) : Prop :=
  exists g1 s1, s = g1 ++ s1 /\ gap g1 /\ starts_lower s1 = true /\
    forall f F b k l m tf ef, m <> LTyped ->
      (length (s1 ++ 41%N :: k) <= f)%nat -> (length (s1 ++ 41%N :: k) < F)%nat ->
      exists l', fields_body f F m tf ef (mkPst (gc b (s1 ++ 41 :: k)) l)
        = ROk (TEnum (rev ef ++ ns)) (mkPst (gc (41 :: rev s1 ++ b) k) l').

Lemma P_fields_one : forall n t g1 g2 g3 g4 st,
  field_name_ok n = true -> gap g1 -> gap g2 -> gap g3 -> gap g4 -> RTy t st -> P_ty t st ->
  P_fields [(n, t)] (g1 ++ n ++ g2 ++ [58] ++ g3 ++ st ++ g4).
Proof.
  intros n t g1 g2 g3 g4 st Hn H1 H2 H3 H4 Ht PT.
  exists g1, (n ++ g2 ++ [58] ++ g3 ++ st ++ g4).
  split; [reflexivity|]. split; [exact H1|]. split; [apply field_starts_lower, Hn|].
  intros f F b k l m tf ef Hm Hf HF.
  replace ((n ++ g2 ++ [58] ++ g3 ++ st ++ g4) ++ 41 :: k)
    with (n ++ g2 ++ 58 :: g3 ++ st ++ g4 ++ 41 :: k) in * by (norm_list; reflexivity).
  destruct (typed_field_close n t g2 g3 g4 st k f F m tf ef b l Hn H2 H3 H4 Ht PT Hm Hf HF)
    as [l' E].
  rewrite E. exists l'. norm_list. reflexivity.
Qed.

Lemma P_fields_cons : forall n t g1 g2 g3 g4 st fs s,
  field_name_ok n = true -> gap g1 -> gap g2 -> gap g3 -> gap g4 -> RTy t st -> P_ty t st ->
  P_fields fs s ->
  P_fields ((n, t) :: fs) (g1 ++ n ++ g2 ++ [58] ++ g3 ++ st ++ g4 ++ [44] ++ s).
Proof.
  intros n t g1 g2 g3 g4 st fs s Hn H1 H2 H3 H4 Ht PT (g1' & s1' & -> & H1' & Hs1' & IH).
  exists g1, (n ++ g2 ++ [58] ++ g3 ++ st ++ g4 ++ [44] ++ g1' ++ s1').
  split; [reflexivity|]. split; [exact H1|]. split; [apply field_starts_lower, Hn|].
  intros f F b k l m tf ef Hm Hf HF.
  replace ((n ++ g2 ++ [58] ++ g3 ++ st ++ g4 ++ [44] ++ g1' ++ s1') ++ 41 :: k)
    with (n ++ g2 ++ 58 :: g3 ++ st ++ g4 ++ 44 :: g1' ++ s1' ++ 41 :: k) in *
    by (norm_list; reflexivity).
  destruct (typed_field_comma n t g2 g3 g4 st (g1' ++ s1' ++ 41 :: k) f F m tf ef b l
              Hn H2 H3 H4 Ht PT Hm Hf HF) as [l1 E1].
  rewrite E1.
  pose proof (RTy_len t st Ht) as Lst.
  assert (Ln : (1 <= length n)%nat) by (destruct n; [discriminate|cbn [length]; lia]).
  rewrite !app_length in Hf, HF. cbn [length] in Hf, HF.
  rewrite !app_length in Hf, HF. cbn [length] in Hf, HF.
  rewrite !app_length in Hf, HF. cbn [length] in Hf, HF.
  destruct f as [|f']; [lia|].
  destruct (read_fields_gap g1' f' F LTyped ((n, t) :: tf) ef
              (44 :: rev g4 ++ rev st ++ rev g3 ++ 58 :: rev g2 ++ rev n ++ b)
              (s1' ++ 41 :: k) l1 H1'
              (starts_lower_stop_app s1' (41 :: k) Hs1')
              ltac:(rewrite !app_length; cbn [length]; lia)) as [l2 E2].
  rewrite E2.
  destruct (IH f' F (rev g1' ++ 44 :: rev g4 ++ rev st ++ rev g3 ++ 58 :: rev g2 ++ rev n ++ b)
              k l2 LTyped ((n, t) :: tf) ef ltac:(discriminate)
              ltac:(rewrite app_length; cbn [length]; lia)
              ltac:(rewrite app_length; cbn [length]; lia)) as [l3 E3].
  rewrite E3. exists l3. norm_list. reflexivity.
Qed.

Lemma P_names_one : forall n g1 g2,
  field_name_ok n = true -> gap g1 -> gap g2 -> P_names [n] (g1 ++ n ++ g2).
Proof.
  intros n g1 g2 Hn H1 H2. exists g1, (n ++ g2).
  split; [reflexivity|]. split; [exact H1|]. split; [apply field_starts_lower, Hn|].
  intros f F b k l m tf ef Hm Hf HF. rewrite <- app_assoc in *.
  destruct (name_close n g2 k f F m tf ef b l Hn H2 Hm HF) as [l' E].
  rewrite E. exists l'. norm_list. reflexivity.
Qed.

Lemma P_names_cons : forall n g1 g2 ns s,
  field_name_ok n = true -> gap g1 -> gap g2 -> P_names ns s ->
  P_names (n :: ns) (g1 ++ n ++ g2 ++ [44] ++ s).
Proof.
  intros n g1 g2 ns s Hn H1 H2 (g1' & s1' & -> & H1' & Hs1' & IH).
  exists g1, (n ++ g2 ++ [44] ++ g1' ++ s1').
  split; [reflexivity|]. split; [exact H1|]. split; [apply field_starts_lower, Hn|].
  intros f F b k l m tf ef Hm Hf HF.
  replace ((n ++ g2 ++ [44] ++ g1' ++ s1') ++ 41 :: k)
    with (n ++ g2 ++ 44 :: g1' ++ s1' ++ 41 :: k) in * by (norm_list; reflexivity).
  destruct (name_comma n g2 (g1' ++ s1' ++ 41 :: k) f F m tf ef b l Hn H2 Hm HF) as [l1 E1].
  rewrite E1.
  assert (Ln : (1 <= length n)%nat) by (destruct n; [discriminate|cbn [length]; lia]).
  rewrite !app_length in Hf, HF. cbn [length] in Hf, HF.
  rewrite !app_length in Hf, HF. cbn [length] in Hf, HF.
  destruct f as [|f']; [lia|].
  destruct (read_fields_gap g1' f' F LBare tf (n :: ef) (44 :: rev g2 ++ rev n ++ b)
              (s1' ++ 41 :: k) l1 H1'
              (starts_lower_stop_app s1' (41 :: k) Hs1')
              ltac:(rewrite !app_length; cbn [length]; lia)) as [l2 E2].
  rewrite E2.
  destruct (IH f' F (rev g1' ++ 44 :: rev g2 ++ rev n ++ b) k l2 LBare tf (n :: ef)
              ltac:(discriminate)
              ltac:(rewrite app_length; cbn [length]; lia)
              ltac:(rewrite app_length; cbn [length]; lia)) as [l3 E3].
  rewrite E3. exists l3. norm_list. reflexivity.
Qed.

Lemma P_struct : forall g fs s, gap g -> P_fields fs s ->
  P_ty (TStruct fs) ([40] ++ g ++ s ++ [41]).
Proof.
  intros g fs s Hg (g1 & s1 & -> & H1 & Hs1 & IH) fuel F b k l Hk Hf HF.
  replace (([40] ++ g ++ (g1 ++ s1) ++ [41]) ++ k)
    with (40 :: g ++ g1 ++ s1 ++ 41 :: k) in * by (norm_list; reflexivity).
  destruct fuel as [|[|f]]; [lia|cbn [length] in Hf; lia|].
  destruct (read_type_open' g g1 s1 (41 :: k) f F b l Hg H1 Hs1 HF) as [l1 E1].
  rewrite E1. cbn [length] in Hf, HF. rewrite !app_length in Hf, HF.
  destruct (IH f F (rev g1 ++ rev g ++ 40 :: b) k l1 LNone [] [] ltac:(discriminate)
              ltac:(rewrite app_length; lia) ltac:(rewrite app_length; lia)) as [l2 E2].
  rewrite E2. exists l2. cbn [rev app]. f_equal. f_equal. f_equal. norm_list. reflexivity.
Qed.

Lemma P_enum : forall g ns s, gap g -> P_names ns s ->
  P_ty (TEnum ns) ([40] ++ g ++ s ++ [41]).
Proof.
  intros g ns s Hg (g1 & s1 & -> & H1 & Hs1 & IH) fuel F b k l Hk Hf HF.
  replace (([40] ++ g ++ (g1 ++ s1) ++ [41]) ++ k)
    with (40 :: g ++ g1 ++ s1 ++ 41 :: k) in * by (norm_list; reflexivity).
  destruct fuel as [|[|f]]; [lia|cbn [length] in Hf; lia|].
  destruct (read_type_open' g g1 s1 (41 :: k) f F b l Hg H1 Hs1 HF) as [l1 E1].
  rewrite E1. cbn [length] in Hf, HF. rewrite !app_length in Hf, HF.
  destruct (IH f F (rev g1 ++ rev g ++ 40 :: b) k l1 LNone [] [] ltac:(discriminate)
              ltac:(rewrite app_length; lia) ltac:(rewrite app_length; lia)) as [l2 E2].
  rewrite E2. exists l2. cbn [rev app]. f_equal. f_equal. f_equal. norm_list. reflexivity.
Qed.

Scheme RTy_min := Minimality for RTy Sort Prop
  with RFields_min := Minimality for RFields Sort Prop
  with RNames_min := Minimality for RNames Sort Prop.
Combined Scheme RTy_mutmin from RTy_min, RFields_min, RNames_min.

Lemma types_complete :
  (forall t s, RTy t s -> P_ty t s) /\
  (forall fs s, RFields fs s -> P_fields fs s) /\
  (forall ns s, RNames ns s -> P_names ns s).
Proof.
  apply RTy_mutmin.
  - apply P_builtin; reflexivity.
  - apply P_builtin; reflexivity.
  - apply P_builtin; reflexivity.
  - apply P_builtin; reflexivity.
  - apply P_builtin; reflexivity.
  - exact P_alias.
  - intros e s _ PE. apply P_array, PE.
  - intros e s _ PE. apply P_map, PE.
  - intros e s _ PE Hm. apply P_maybe; assumption.
  - exact P_struct0.
  - intros g fs s Hg _ _ PF. apply P_struct; assumption.
  - intros g ns s Hg _ _ PN. apply P_enum; assumption.
  - intros n t g1 g2 g3 g4 st Hn H1 H2 H3 H4 Ht PT. apply P_fields_one; assumption.
  - intros n t g1 g2 g3 g4 st fs s Hn H1 H2 H3 H4 Ht PT _ _ PF.
    apply P_fields_cons; assumption.
  - intros n g1 g2 Hn H1 H2. apply P_names_one; assumption.
  - intros n g1 g2 ns s Hn H1 H2 _ _ PN. apply P_names_cons; assumption.
Qed.

Theorem read_type_complete : forall t s, RTy t s ->
  forall fuel F b k l, (ends_word s = true -> follow_ok k = true) ->
    (length (s ++ k) < fuel)%nat -> (length (s ++ k) < F)%nat ->
    exists l', read_type fuel F (mkPst (gc b (s ++ k)) l)
               = ROk t (mkPst (gc (rev s ++ b) k) l').
Proof. intros t s H. exact (proj1 types_complete t s H). Qed.

Print Assumptions read_type_complete.
