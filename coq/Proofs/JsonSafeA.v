(* Proofs/JsonSafeA.v — no control byte (in particular no NUL) in anything the
   JSON encoder writes: strings, numbers, value trees, replies, calls. *)
From VL Require Import Bytes Lit Json Wire Service Client.
Open Scope N_scope.

Definition no_ctl (s : bytes) : Prop := forall c, In c s -> 32 <= c.

Definition no_ctlb (s : bytes) : bool := forallb (fun c => 32 <=? c) s.

Lemma no_ctlb_sound : forall s, no_ctlb s = true -> no_ctl s.
Proof.
  intros s H c Hin. unfold no_ctlb in H. rewrite forallb_forall in H.
  apply H in Hin. apply N.leb_le in Hin. exact Hin.
Qed.

Lemma no_ctl_nil : no_ctl [].
Proof. intros c H. destruct H. Qed.

Lemma no_ctl_cons : forall c s, 32 <= c -> no_ctl s -> no_ctl (c :: s).
Proof. intros c s Hc Hs x [Hx|Hx]; [subst; exact Hc | apply Hs; exact Hx]. Qed.

Lemma no_ctl_app : forall s t, no_ctl s -> no_ctl t -> no_ctl (s ++ t).
Proof.
  intros s t Hs Ht c Hin. apply in_app_or in Hin.
  destruct Hin as [Hin|Hin]; [apply Hs | apply Ht]; exact Hin.
Qed.

Lemma no_ctl_app_l : forall s t, no_ctl (s ++ t) -> no_ctl s.
Proof. intros s t H c Hin. apply H. apply in_or_app. left. exact Hin. Qed.

Lemma no_ctl_app_r : forall s t, no_ctl (s ++ t) -> no_ctl t.
Proof. intros s t H c Hin. apply H. apply in_or_app. right. exact Hin. Qed.

Lemma no_ctl_cons_inv : forall c s, no_ctl (c :: s) -> 32 <= c /\ no_ctl s.
Proof.
  intros c s H. split; [apply H; left; reflexivity|].
  intros x Hx. apply H. right. exact Hx.
Qed.

Lemma no_ctl_one : forall c, 32 <= c -> no_ctl [c].
Proof. intros c H. apply no_ctl_cons; [exact H | apply no_ctl_nil]. Qed.

Lemma no_ctl_firstn : forall n s, no_ctl s -> no_ctl (firstn n s).
Proof.
  intros n s H. rewrite <- (firstn_skipn n s) in H. apply no_ctl_app_l in H. exact H.
Qed.

(* ---------- strings ---------- *)

Lemma hexd_ge : forall n, 32 <= hexd n.
Proof. intro n. unfold hexd. destruct (n <? 10); lia. Qed.

Lemma u00_no_ctl : forall c, no_ctl (u00 c).
Proof.
  intro c. unfold u00.
  repeat (apply no_ctl_cons; [first [apply hexd_ge | lia]|]). apply no_ctl_nil.
Qed.

Lemma REPL_no_ctl : no_ctl REPL.
Proof. apply no_ctlb_sound. reflexivity. Qed.

Ltac b2p :=
  repeat match goal with
  | H : (_ && _) = true |- _ => apply andb_true_iff in H; destruct H
  | H : (_ || _) = true |- _ => apply orb_true_iff in H; destruct H
  | H : (_ || _) = false |- _ => apply orb_false_iff in H; destruct H
  | H : (_ <=? _) = true |- _ => apply N.leb_le in H
  | H : (_ <=? _) = false |- _ => apply N.leb_gt in H
  | H : (_ <? _) = true |- _ => apply N.ltb_lt in H
  | H : (_ <? _) = false |- _ => apply N.ltb_ge in H
  | H : (_ =? _) = true |- _ => apply N.eqb_eq in H
  | H : (_ =? _) = false |- _ => apply N.eqb_neq in H
  end.

Lemma is_cont_ge : forall c, is_cont c = true -> 32 <= c.
Proof. intros c H. unfold is_cont in H. b2p. lia. Qed.

Lemma utf8_firstn_no_ctl : forall c r, 128 <= c ->
  no_ctl (firstn (utf8_width (c :: r)) (c :: r)).
Proof.
  intros c r Hc. unfold utf8_width.
  destruct (c <? 128) eqn:E0; [b2p; lia|].
  destruct ((194 <=? c) && (c <=? 223)) eqn:E1.
  { destruct r as [|c1 r]; [apply no_ctl_nil|].
    destruct (is_cont c1) eqn:E2; [|apply no_ctl_nil].
    cbn [firstn]. apply is_cont_ge in E2.
    apply no_ctl_cons; [lia|]. apply no_ctl_one. exact E2. }
  destruct ((224 <=? c) && (c <=? 239)) eqn:E2.
  { destruct r as [|c1 [|c2 r]]; try apply no_ctl_nil.
    cbv zeta.
    destruct (((if c =? 224 then 160 else 128) <=? c1)
              && (c1 <=? (if c =? 237 then 159 else 191)) && is_cont c2) eqn:E3;
      [|apply no_ctl_nil].
    cbn [firstn]. apply andb_true_iff in E3. destruct E3 as [E3 E4].
    apply andb_true_iff in E3. destruct E3 as [E3 E5].
    apply is_cont_ge in E4. apply N.leb_le in E3.
    apply no_ctl_cons; [lia|]. apply no_ctl_cons; [destruct (c =? 224); lia|].
    apply no_ctl_one. exact E4. }
  destruct ((240 <=? c) && (c <=? 244)) eqn:E3; [|apply no_ctl_nil].
  destruct r as [|c1 [|c2 [|c3 r]]]; try apply no_ctl_nil.
  cbv zeta.
  destruct (((if c =? 240 then 144 else 128) <=? c1)
            && (c1 <=? (if c =? 244 then 143 else 191)) && is_cont c2 && is_cont c3) eqn:E4;
    [|apply no_ctl_nil].
  cbn [firstn]. apply andb_true_iff in E4. destruct E4 as [E4 E7].
  apply andb_true_iff in E4. destruct E4 as [E4 E6].
  apply andb_true_iff in E4. destruct E4 as [E4 E5].
  apply is_cont_ge in E6. apply is_cont_ge in E7. apply N.leb_le in E4.
  apply no_ctl_cons; [lia|]. apply no_ctl_cons; [destruct (c =? 240); lia|].
  apply no_ctl_cons; [exact E6|]. apply no_ctl_one. exact E7.
Qed.

Lemma enc_str_f_no_ctl : forall fuel s, no_ctl (enc_str_f fuel s).
Proof.
  induction fuel as [|f IH]; intro s; [apply no_ctl_nil|].
  destruct s as [|c r]; [apply no_ctl_nil|].
  cbn [enc_str_f].
  destruct (c <? 128) eqn:E0.
  - apply no_ctl_app; [|apply IH].
    destruct ((c =? 34) || (c =? 92)) eqn:E1.
    { apply no_ctl_cons; [lia|]. apply no_ctl_one. b2p; lia. }
    destruct (c =? 8); [apply no_ctlb_sound; reflexivity|].
    destruct (c =? 12); [apply no_ctlb_sound; reflexivity|].
    destruct (c =? 10); [apply no_ctlb_sound; reflexivity|].
    destruct (c =? 13); [apply no_ctlb_sound; reflexivity|].
    destruct (c =? 9); [apply no_ctlb_sound; reflexivity|].
    destruct ((c <? 32) || (c =? 60) || (c =? 62) || (c =? 38)) eqn:E2; [apply u00_no_ctl|].
    apply no_ctl_one. b2p. lia.
  - pose proof (utf8_firstn_no_ctl c r) as Hu.
    destruct (utf8_width (c :: r)) as [|w] eqn:Ew.
    + apply no_ctl_app; [apply REPL_no_ctl | apply IH].
    + cbv zeta. apply no_ctl_app; [|apply IH].
      destruct (bytes_eqb _ [226; 128; 168]); [apply no_ctlb_sound; reflexivity|].
      destruct (bytes_eqb _ [226; 128; 169]); [apply no_ctlb_sound; reflexivity|].
      apply Hu. b2p. lia.
Qed.

Theorem encode_string_no_ctl : forall s, no_ctl (encode_string s).
Proof.
  intro s. unfold encode_string.
  apply no_ctl_app; [apply no_ctl_one; lia|].
  apply no_ctl_app; [apply enc_str_f_no_ctl | apply no_ctl_one; lia].
Qed.
Print Assumptions encode_string_no_ctl.

(* ---------- numbers ---------- *)

(* case analysis on a byte down to 8 bits: decides every numeral pattern < 256 *)
Ltac deep c :=
  destruct c as [|c]; [| do 8 (try destruct c as [c|c|]) ].

Definition numch (c : N) : bool :=
  is_dig c || (c =? 45) || (c =? 43) || (c =? 46) || (c =? 101) || (c =? 69).

Definition frac_part (s : bytes) : option (bytes * bytes) :=
  match s with
  | 46 :: r => match digits1 r with Some (d, k) => Some (46 :: d, k) | None => None end
  | _ => Some ([], s)
  end.

Lemma frac_part_eq : forall s, frac_part s =
  match s with
  | [] => Some ([], [])
  | c :: r => if c =? 46
              then match digits1 r with Some (d, k) => Some (46 :: d, k) | None => None end
              else Some ([], c :: r)
  end.
Proof. intros [|c r]; [reflexivity|]. deep c; reflexivity. Qed.

Definition all_numch (t : bytes) : Prop := forallb numch t = true.

Lemma all_numch_app : forall s t, all_numch s -> all_numch t -> all_numch (s ++ t).
Proof. intros s t Hs Ht. unfold all_numch in *. rewrite forallb_app, Hs, Ht. reflexivity. Qed.

Lemma all_numch_cons : forall c t, numch c = true -> all_numch t -> all_numch (c :: t).
Proof. intros c t Hc Ht. unfold all_numch in *. cbn [forallb]. rewrite Hc, Ht. reflexivity. Qed.

Lemma all_numch_nil : all_numch [].
Proof. reflexivity. Qed.

Lemma dig_numch : forall c, is_dig c = true -> numch c = true.
Proof. intros c H. unfold numch. rewrite H. reflexivity. Qed.

Lemma take_while_dig_numch : forall s, all_numch (take_while is_dig s).
Proof.
  induction s as [|x r IH]; [reflexivity|]. cbn [take_while].
  destruct (is_dig x) eqn:E; [|reflexivity].
  apply all_numch_cons; [apply dig_numch; exact E | exact IH].
Qed.

Lemma digits1_spec : forall s d k, digits1 s = Some (d, k) -> s = d ++ k /\ all_numch d.
Proof.
  intros s d k H. unfold digits1 in H.
  pose proof (take_drop_while is_dig s) as Htd.
  pose proof (take_while_dig_numch s) as Hn.
  destruct (take_while is_dig s) as [|x t]; [discriminate|].
  inversion H; subst. split; [symmetry; exact Htd | exact Hn].
Qed.

Lemma frac_part_spec : forall s fr k, frac_part s = Some (fr, k) -> s = fr ++ k /\ all_numch fr.
Proof.
  intros s fr k H. rewrite frac_part_eq in H.
  destruct s as [|c r]; [inversion H; subst; split; reflexivity|].
  destruct (c =? 46) eqn:E.
  - b2p. subst c. destruct (digits1 r) as [[d k']|] eqn:Ed; [|discriminate].
    inversion H; subst. apply digits1_spec in Ed. destruct Ed as [Ed1 Ed2].
    subst r. split; [reflexivity|]. apply all_numch_cons; [reflexivity | exact Ed2].
  - inversion H; subst. split; reflexivity.
Qed.

Lemma num_rest_unfold : forall s, num_rest s =
  match frac_part s with
  | None => None
  | Some (fr, s2) =>
    match s2 with
    | c :: r =>
      if (c =? 101) || (c =? 69) then
        match r with
        | sg :: r' =>
          if (sg =? 43) || (sg =? 45)
          then match digits1 r' with Some (d, k) => Some (fr ++ c :: sg :: d, k) | None => None end
          else match digits1 r with Some (d, k) => Some (fr ++ c :: d, k) | None => None end
        | [] => None
        end
      else Some (fr, s2)
    | [] => Some (fr, s2)
    end
  end.
Proof. reflexivity. Qed.

Lemma num_rest_spec : forall s t k, num_rest s = Some (t, k) -> s = t ++ k /\ all_numch t.
Proof.
  intros s t k H. rewrite num_rest_unfold in H.
  destruct (frac_part s) as [[fr s2]|] eqn:Ef; [|discriminate].
  apply frac_part_spec in Ef. destruct Ef as [Ef1 Ef2]. subst s.
  destruct s2 as [|c r]; [inversion H; subst; split; [reflexivity | exact Ef2]|].
  destruct ((c =? 101) || (c =? 69)) eqn:Ee;
    [|inversion H; subst; split; [reflexivity | exact Ef2]].
  assert (Hc : numch c = true).
  { unfold numch. b2p; subst c; reflexivity. }
  destruct r as [|sg r']; [discriminate|].
  destruct ((sg =? 43) || (sg =? 45)) eqn:Es.
  - assert (Hsg : numch sg = true).
    { unfold numch. b2p; subst sg; reflexivity. }
    destruct (digits1 r') as [[d k']|] eqn:Ed; [|discriminate].
    inversion H; subst. apply digits1_spec in Ed. destruct Ed as [Ed1 Ed2]. subst r'.
    split; [rewrite <- app_assoc; reflexivity|].
    apply all_numch_app; [exact Ef2|].
    apply all_numch_cons; [exact Hc|]. apply all_numch_cons; [exact Hsg | exact Ed2].
  - destruct (digits1 (sg :: r')) as [[d k']|] eqn:Ed; [|discriminate].
    inversion H; subst. apply digits1_spec in Ed. destruct Ed as [Ed1 Ed2]. rewrite Ed1.
    split; [rewrite <- app_assoc; reflexivity|].
    apply all_numch_app; [exact Ef2|]. apply all_numch_cons; [exact Hc | exact Ed2].
Qed.

Definition sign_part (s : bytes) : bytes * bytes :=
  match s with 45 :: r => ([45], r) | _ => ([], s) end.

Lemma sign_part_eq : forall s, sign_part s =
  match s with
  | [] => ([], [])
  | c :: r => if c =? 45 then ([45], r) else ([], c :: r)
  end.
Proof. intros [|c r]; [reflexivity|]. deep c; reflexivity. Qed.

Lemma sign_part_spec : forall s sg s0, sign_part s = (sg, s0) -> s = sg ++ s0 /\ all_numch sg.
Proof.
  intros s sg s0 H. rewrite sign_part_eq in H.
  destruct s as [|c r]; [inversion H; subst; split; reflexivity|].
  destruct (c =? 45) eqn:E; inversion H; subst; b2p; subst; split; reflexivity.
Qed.

Lemma scan_number_unfold : forall s, scan_number s =
  let '(sign, s0) := sign_part s in
  match s0 with
  | c :: r =>
    if c =? 48 then
      match num_rest r with Some (t, k) => Some (sign ++ 48 :: t, k) | None => None end
    else if (49 <=? c) && (c <=? 57) then
      match num_rest (drop_while is_dig r) with
      | Some (t, k) => Some (sign ++ c :: take_while is_dig r ++ t, k)
      | None => None
      end
    else None
  | [] => None
  end.
Proof. reflexivity. Qed.

Lemma scan_number_spec : forall s tok k,
  scan_number s = Some (tok, k) -> s = tok ++ k /\ all_numch tok.
Proof.
  intros s tok k H. rewrite scan_number_unfold in H.
  destruct (sign_part s) as [sg s0] eqn:Es.
  apply sign_part_spec in Es. destruct Es as [Es1 Es2]. subst s.
  destruct s0 as [|c r]; [discriminate|].
  destruct (c =? 48) eqn:E0.
  - b2p. subst c. destruct (num_rest r) as [[t k']|] eqn:En; [|discriminate].
    inversion H; subst. apply num_rest_spec in En. destruct En as [En1 En2]. subst r.
    split; [rewrite <- app_assoc; reflexivity|].
    apply all_numch_app; [exact Es2|]. apply all_numch_cons; [reflexivity | exact En2].
  - destruct ((49 <=? c) && (c <=? 57)) eqn:E1; [|discriminate].
    destruct (num_rest (drop_while is_dig r)) as [[t k']|] eqn:En; [|discriminate].
    inversion H; subst. apply num_rest_spec in En. destruct En as [En1 En2].
    split.
    + rewrite <- app_assoc. cbn [app]. rewrite <- app_assoc. rewrite <- En1.
      rewrite take_drop_while. reflexivity.
    + apply all_numch_app; [exact Es2|]. apply all_numch_cons.
      * apply dig_numch. unfold is_dig. b2p.
        apply andb_true_iff. split; apply N.leb_le; lia.
      * apply all_numch_app; [apply take_while_dig_numch | exact En2].
Qed.

Lemma numch_ge : forall c, numch c = true -> 43 <= c.
Proof. intros c H. unfold numch, is_dig in H. b2p; lia. Qed.

Lemma all_numch_no_ctl : forall t, all_numch t -> no_ctl t.
Proof.
  intros t H c Hin. unfold all_numch in H. rewrite forallb_forall in H.
  apply H in Hin. apply numch_ge in Hin. lia.
Qed.

Lemma num_ok_scan : forall t, num_ok t = true -> scan_number t = Some (t, []).
Proof.
  intros t H. unfold num_ok in H.
  destruct (scan_number t) as [[tok k]|] eqn:E; [|discriminate].
  destruct k; [|discriminate].
  apply scan_number_spec in E. destruct E as [E _]. rewrite app_nil_r in E.
  subst tok. reflexivity.
Qed.

Theorem num_ok_no_ctl : forall t, num_ok t = true -> no_ctl t.
Proof.
  intros t H. apply num_ok_scan in H. apply scan_number_spec in H.
  destruct H as [_ H]. apply all_numch_no_ctl. exact H.
Qed.
Print Assumptions num_ok_no_ctl.

(* ---------- value trees ---------- *)

Section jvalue_ind2.
  Variable P : jvalue -> Prop.
  Hypothesis Hnull : P JNull.
  Hypothesis Hbool : forall b0, P (JBool b0).
  Hypothesis Hnum : forall t, P (JNum t).
  Hypothesis Hstr : forall s, P (JStr s).
  Hypothesis Harr : forall l, Forall P l -> P (JArr l).
  Hypothesis Hobj : forall m, Forall (fun kv => P (snd kv)) m -> P (JObj m).

  Fixpoint jvalue_ind2 (v : jvalue) : P v :=
    match v with
    | JNull => Hnull
    | JBool b0 => Hbool b0
    | JNum t => Hnum t
    | JStr s => Hstr s
    | JArr l =>
      Harr l ((fix go (l : list jvalue) : Forall P l :=
                 match l with
                 | [] => Forall_nil P
                 | x :: r => Forall_cons x (jvalue_ind2 x) (go r)
                 end) l)
    | JObj m =>
      Hobj m ((fix go (m : list (bytes * jvalue)) : Forall (fun kv => P (snd kv)) m :=
                 match m with
                 | [] => Forall_nil _
                 | kv :: r => Forall_cons kv (jvalue_ind2 (snd kv)) (go r)
                 end) m)
    end.
End jvalue_ind2.

Definition enc_arr (l : list jvalue) : bytes :=
  (fix ea (l : list jvalue) : bytes :=
     match l with
     | [] => []
     | [x] => encode_value x
     | x :: r => encode_value x ++ [44] ++ ea r
     end) l.

Definition enc_obj (m : list (bytes * jvalue)) : bytes :=
  (fix eo (l : list (bytes * jvalue)) : bytes :=
     match l with
     | [] => []
     | [(k, x)] => encode_string k ++ [58] ++ encode_value x
     | (k, x) :: r => encode_string k ++ [58] ++ encode_value x ++ [44] ++ eo r
     end) m.

Lemma encode_arr_eq : forall l, encode_value (JArr l) = [91] ++ enc_arr l ++ [93].
Proof. reflexivity. Qed.
Lemma encode_obj_eq : forall m, encode_value (JObj m) = [123] ++ enc_obj m ++ [125].
Proof. reflexivity. Qed.

Lemma enc_arr_cons : forall x r, enc_arr (x :: r) =
  match r with [] => encode_value x | _ => encode_value x ++ [44] ++ enc_arr r end.
Proof. intros x [|y r]; reflexivity. Qed.

Lemma enc_obj_cons : forall k x r, enc_obj ((k, x) :: r) =
  match r with
  | [] => encode_string k ++ [58] ++ encode_value x
  | _ => encode_string k ++ [58] ++ encode_value x ++ [44] ++ enc_obj r
  end.
Proof. intros k x [|y r]; reflexivity. Qed.

Lemma enc_arr_no_ctl : forall l, Forall (fun x => no_ctl (encode_value x)) l -> no_ctl (enc_arr l).
Proof.
  induction l as [|x r IH]; intro H; [apply no_ctl_nil|].
  inversion H as [|x' r' Hx Hr]; subst. rewrite enc_arr_cons.
  destruct r as [|y r]; [exact Hx|].
  apply no_ctl_app; [exact Hx|]. apply no_ctl_app; [apply no_ctl_one; lia|].
  apply IH. exact Hr.
Qed.

Lemma enc_obj_no_ctl : forall m,
  Forall (fun kv => no_ctl (encode_value (snd kv))) m -> no_ctl (enc_obj m).
Proof.
  induction m as [|[k x] r IH]; intro H; [apply no_ctl_nil|].
  inversion H as [|x' r' Hx Hr]; subst. cbn [snd] in Hx. rewrite enc_obj_cons.
  assert (H1 : no_ctl (encode_string k ++ [58] ++ encode_value x)).
  { apply no_ctl_app; [apply encode_string_no_ctl|].
    apply no_ctl_app; [apply no_ctl_one; lia | exact Hx]. }
  destruct r as [|y r]; [exact H1|].
  replace (encode_string k ++ [58] ++ encode_value x ++ [44] ++ enc_obj (y :: r))
    with ((encode_string k ++ [58] ++ encode_value x) ++ [44] ++ enc_obj (y :: r))
    by (rewrite <- !app_assoc; reflexivity).
  apply no_ctl_app; [exact H1|]. apply no_ctl_app; [apply no_ctl_one; lia|].
  apply IH. exact Hr.
Qed.

Lemma encode_norm_no_ctl : forall v, nums_ok v = true -> no_ctl (encode_value (norm_nums v)).
Proof.
  induction v as [| b0 | t | s | l IH | m IH] using jvalue_ind2; intro Hok.
  - apply no_ctlb_sound. reflexivity.
  - destruct b0; apply no_ctlb_sound; reflexivity.
  - destruct t as [|c r]; [apply no_ctlb_sound; reflexivity|].
    change (no_ctl (c :: r)). apply num_ok_no_ctl. exact Hok.
  - apply encode_string_no_ctl.
  - change (norm_nums (JArr l)) with (JArr (map norm_nums l)).
    rewrite encode_arr_eq.
    apply no_ctl_app; [apply no_ctl_one; lia|].
    apply no_ctl_app; [|apply no_ctl_one; lia].
    apply enc_arr_no_ctl. change (forallb nums_ok l = true) in Hok.
    induction IH as [|x r Hx Hr IHr]; [constructor|].
    cbn [forallb] in Hok. apply andb_true_iff in Hok. destruct Hok as [Hok1 Hok2].
    cbn [map]. constructor; [apply Hx; exact Hok1 | apply IHr; exact Hok2].
  - change (norm_nums (JObj m))
      with (JObj (map (fun kv => (fst kv, norm_nums (snd kv))) m)).
    rewrite encode_obj_eq.
    apply no_ctl_app; [apply no_ctl_one; lia|].
    apply no_ctl_app; [|apply no_ctl_one; lia].
    apply enc_obj_no_ctl. change (forallb (fun kv => nums_ok (snd kv)) m = true) in Hok.
    induction IH as [|x r Hx Hr IHr]; [constructor|].
    cbn [forallb] in Hok. apply andb_true_iff in Hok. destruct Hok as [Hok1 Hok2].
    cbn [map]. constructor; [cbn [snd]; apply Hx; exact Hok1 | apply IHr; exact Hok2].
Qed.

(* every value Marshal accepts is written without any control byte *)
Theorem marshal_value_no_ctl : forall v b, marshal_value v = Some b -> no_ctl b.
Proof.
  intros v b0 H. unfold marshal_value in H.
  destruct (nums_ok v) eqn:E; [|discriminate].
  inversion H; subst. apply encode_norm_no_ctl. exact E.
Qed.
Print Assumptions marshal_value_no_ctl.

(* ---------- replies, calls, frames ---------- *)

Lemma member_no_ctl : forall n v, no_ctl v -> no_ctl (member n v).
Proof.
  intros n v H. unfold member. apply no_ctl_app; [apply encode_string_no_ctl|].
  apply no_ctl_app; [apply no_ctl_one; lia | exact H].
Qed.

Lemma join_members_no_ctl : forall l, Forall no_ctl l -> no_ctl (join_members l).
Proof.
  induction l as [|x r IH]; intro H; [apply no_ctl_nil|].
  inversion H as [|x' r' Hx Hr]; subst.
  destruct r as [|y r]; [exact Hx|].
  change (join_members (x :: y :: r)) with (x ++ [44] ++ join_members (y :: r)).
  apply no_ctl_app; [exact Hx|]. apply no_ctl_app; [apply no_ctl_one; lia|].
  apply IH. exact Hr.
Qed.

Lemma lit_true_no_ctl : no_ctl lit_true.
Proof. apply no_ctlb_sound. reflexivity. Qed.

Lemma Forall_app_intro : forall (A : Type) (P : A -> Prop) l1 l2,
  Forall P l1 -> Forall P l2 -> Forall P (l1 ++ l2).
Proof. intros A P l1 l2 H1 H2. apply Forall_app. split; assumption. Qed.

Lemma flag_members_no_ctl : forall (fl : bool) n,
  Forall no_ctl (if fl then [member n lit_true] else []).
Proof.
  intros [|] n; constructor; [|constructor].
  apply member_no_ctl. apply lit_true_no_ctl.
Qed.

Lemma param_members_no_ctl : forall ps : option bytes,
  (forall p, ps = Some p -> no_ctl p) ->
  Forall no_ctl (match ps with Some p => [member s_parameters p] | None => [] end).
Proof.
  intros [p|] H; constructor; [|constructor].
  apply member_no_ctl. apply H. reflexivity.
Qed.

Theorem encode_reply_no_ctl : forall ps cont err,
  (forall p, ps = Some p -> no_ctl p) -> no_ctl (encode_reply ps cont err).
Proof.
  intros ps cont err H. unfold encode_reply.
  apply no_ctl_app; [apply no_ctl_one; lia|].
  apply no_ctl_app; [|apply no_ctl_one; lia].
  apply join_members_no_ctl.
  apply Forall_app_intro; [apply param_members_no_ctl; exact H|].
  apply Forall_app_intro; [apply flag_members_no_ctl|].
  destruct err as [|e0 er]; constructor; [|constructor].
  apply member_no_ctl. apply encode_string_no_ctl.
Qed.
Print Assumptions encode_reply_no_ctl.

Theorem encode_call_no_ctl : forall m ps mo ow up,
  (forall p, ps = Some p -> no_ctl p) -> no_ctl (encode_call m ps mo ow up).
Proof.
  intros m ps mo ow up H. unfold encode_call.
  apply no_ctl_app; [apply no_ctl_one; lia|].
  apply no_ctl_app; [|apply no_ctl_one; lia].
  apply join_members_no_ctl.
  apply Forall_app_intro.
  { constructor; [|constructor]. apply member_no_ctl. apply encode_string_no_ctl. }
  apply Forall_app_intro; [apply param_members_no_ctl; exact H|].
  apply Forall_app_intro; [apply flag_members_no_ctl|].
  apply Forall_app_intro; apply flag_members_no_ctl.
Qed.
Print Assumptions encode_call_no_ctl.

Theorem std_params_no_ctl : forall k arg, no_ctl (std_params k arg).
Proof.
  intros k arg. unfold std_params.
  apply no_ctl_app; [apply no_ctl_one; lia|].
  apply no_ctl_app; [|apply no_ctl_one; lia].
  apply member_no_ctl. apply encode_string_no_ctl.
Qed.
Print Assumptions std_params_no_ctl.

(* a written frame contains exactly one NUL, its last byte: ReadBytes(0) on
   the peer cuts exactly the frame *)
Theorem frame_one_nul : forall b0 k, no_ctl b0 ->
  cut_at 0 (frame b0 ++ k) = Some (frame b0, k).
Proof.
  unfold frame. induction b0 as [|c r IH]; intros k H; [reflexivity|].
  apply no_ctl_cons_inv in H. destruct H as [Hc Hr].
  cbn [app cut_at].
  destruct (c =? 0) eqn:E; [b2p; lia|].
  rewrite (IH k Hr). reflexivity.
Qed.
Print Assumptions frame_one_nul.

(* non-vacuity: a string member holding NUL, a quote and a newline *)
Example marshal_example :
  marshal_value (JObj [([107], JStr [0; 34; 10])])
  = Some [123; 34; 107; 34; 58; 34; 92; 117; 48; 48; 48; 48; 92; 34; 92; 110; 34; 125]
  /\ no_ctlb [123; 34; 107; 34; 58; 34; 92; 117; 48; 48; 48; 48; 92; 34; 92; 110; 34; 125] = true.
Proof. split; vm_compute; reflexivity. Qed.
