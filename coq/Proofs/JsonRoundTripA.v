(* Proofs/JsonRoundTripA.v — strings: the scanner reads back what appendString
   wrote, and unquote decodes it to the original (valid UTF-8) string. *)
From VL Require Import Bytes Json.
Open Scope N_scope.

(* ---------- one-step equations for scan_string ---------- *)

Lemma scan_string_0 : forall s, scan_string 0 s = None.
Proof. reflexivity. Qed.

Lemma scan_string_quote : forall f r, scan_string (S f) (34 :: r) = Some ([], r).
Proof. reflexivity. Qed.

Definition esc1 (e : N) : bool :=
  (e =? 34) || (e =? 92) || (e =? 47) || (e =? 98) || (e =? 102) || (e =? 110) || (e =? 114) || (e =? 116).

Lemma scan_string_bs : forall f e r,
  scan_string (S f) (92 :: e :: r) =
  if esc1 e then
    match scan_string f r with Some (a, k) => Some (92 :: e :: a, k) | None => None end
  else if e =? 117 then
    match r with
    | h1 :: h2 :: h3 :: h4 :: r' =>
      if is_hex h1 && is_hex h2 && is_hex h3 && is_hex h4 then
        match scan_string f r' with Some (a, k) => Some (92 :: 117 :: h1 :: h2 :: h3 :: h4 :: a, k) | None => None end
      else None
    | _ => None
    end
  else None.
Proof. reflexivity. Qed.

Lemma scan_string_plain : forall f c r, c <> 34 -> c <> 92 ->
  scan_string (S f) (c :: r) =
  if c <? 32 then None
  else match scan_string f r with Some (a, k) => Some (c :: a, k) | None => None end.
Proof.
  intros f c r H34 H92.
  destruct c as [|p]; [reflexivity|].
  do 7 (try (destruct p as [p|p|]; try reflexivity)); congruence.
Qed.

(* ---------- string bodies the scanner accepts ---------- *)

Inductive body_ok : bytes -> Prop :=
| bo_nil : body_ok []
| bo_plain : forall c r, 32 <= c -> c <> 34 -> c <> 92 -> body_ok r -> body_ok (c :: r)
| bo_esc : forall e r, esc1 e = true -> body_ok r -> body_ok (92 :: e :: r)
| bo_u : forall h1 h2 h3 h4 r,
    is_hex h1 && is_hex h2 && is_hex h3 && is_hex h4 = true -> body_ok r ->
    body_ok (92 :: 117 :: h1 :: h2 :: h3 :: h4 :: r).

Lemma body_ok_app : forall a c, body_ok a -> body_ok c -> body_ok (a ++ c).
Proof.
  intros a c Ha Hc. induction Ha as [|x r H1 H2 H3 Ha IH|e r He Ha IH|h1 h2 h3 h4 r Hh Ha IH]; simpl.
  - exact Hc.
  - apply bo_plain; assumption.
  - apply bo_esc; assumption.
  - apply bo_u; assumption.
Qed.

(* the scanner reads a well-formed body up to the closing quote *)
Lemma scan_body : forall e, body_ok e -> forall f k, (length e < f)%nat ->
  scan_string f (e ++ 34 :: k) = Some (e, k).
Proof.
  intros e He. induction He as [|c r H1 H2 H3 He IH|x r Hx He IH|h1 h2 h3 h4 r Hh He IH];
    intros f k Hf; (destruct f as [|f]; [simpl in Hf; lia|]); simpl app.
  - apply scan_string_quote.
  - rewrite scan_string_plain by assumption.
    replace (c <? 32) with false by (symmetry; apply N.ltb_ge; exact H1).
    rewrite IH by (simpl in Hf; lia). reflexivity.
  - rewrite scan_string_bs, Hx. rewrite IH by (simpl in Hf; lia). reflexivity.
  - rewrite scan_string_bs. change (esc1 117) with false. cbv iota. rewrite N.eqb_refl, Hh.
    rewrite IH by (simpl in Hf; lia). reflexivity.
Qed.

(* ---------- UTF-8 sequences ---------- *)

Lemma is_cont_ge : forall c, is_cont c = true -> 128 <= c.
Proof. unfold is_cont. intros c H. apply andb_true_iff in H. destruct H as [H _]. apply N.leb_le in H. exact H. Qed.

Lemma utf8_width_ascii : forall c r, c <? 128 = true -> utf8_width (c :: r) = 1%nat.
Proof. intros c r H. unfold utf8_width. rewrite H. reflexivity. Qed.

(* a multi-byte sequence: its bytes are all >= 128, it is present in full, and
   its width depends on these bytes only *)
Lemma utf8_width_multi : forall c0 r w, c0 <? 128 = false -> utf8_width (c0 :: r) = S w ->
  length (firstn (S w) (c0 :: r)) = S w /\
  Forall (fun c => 128 <= c) (firstn (S w) (c0 :: r)) /\
  (forall t, utf8_width (firstn (S w) (c0 :: r) ++ t) = S w).
Proof.
  intros c0 r w E0 H. assert (G0 : 128 <= c0) by (apply N.ltb_ge; exact E0).
  unfold utf8_width in H. rewrite E0 in H.
  destruct ((194 <=? c0) && (c0 <=? 223)) eqn:E1.
  { destruct r as [|c1 r]; [discriminate|]. destruct (is_cont c1) eqn:Ec1; [|discriminate].
    injection H as <-. split; [reflexivity|]. split.
    - simpl. repeat constructor; [exact G0|apply is_cont_ge; exact Ec1].
    - intro t. simpl. rewrite E0, E1, Ec1. reflexivity. }
  destruct ((224 <=? c0) && (c0 <=? 239)) eqn:E2.
  { destruct r as [|c1 [|c2 r]]; try discriminate. cbv zeta in H.
    destruct (((if c0 =? 224 then 160 else 128) <=? c1) && (c1 <=? (if c0 =? 237 then 159 else 191)) && is_cont c2) eqn:Ec; [|discriminate].
    injection H as <-. split; [reflexivity|]. split.
    - apply andb_true_iff in Ec. destruct Ec as [Ec Ec2]. apply andb_true_iff in Ec. destruct Ec as [Ec1 _].
      apply N.leb_le in Ec1. simpl. repeat constructor; [exact G0| |apply is_cont_ge; exact Ec2].
      destruct (c0 =? 224); lia.
    - intro t. simpl. rewrite E0, E1, E2, Ec. reflexivity. }
  destruct ((240 <=? c0) && (c0 <=? 244)) eqn:E3; [|discriminate].
  destruct r as [|c1 [|c2 [|c3 r]]]; try discriminate. cbv zeta in H.
  destruct (((if c0 =? 240 then 144 else 128) <=? c1) && (c1 <=? (if c0 =? 244 then 143 else 191)) && is_cont c2 && is_cont c3) eqn:Ec; [|discriminate].
  injection H as <-. split; [reflexivity|]. split.
  - apply andb_true_iff in Ec. destruct Ec as [Ec Ec3]. apply andb_true_iff in Ec. destruct Ec as [Ec Ec2].
    apply andb_true_iff in Ec. destruct Ec as [Ec1 _]. apply N.leb_le in Ec1.
    simpl. repeat constructor; [exact G0| |apply is_cont_ge; exact Ec2|apply is_cont_ge; exact Ec3].
    destruct (c0 =? 240); lia.
  - intro t. simpl. rewrite E0, E1, E2, E3, Ec. reflexivity.
Qed.

Lemma body_ok_high : forall l, Forall (fun c => 128 <= c) l -> body_ok l.
Proof.
  intros l H. induction H as [|c l Hc H IH]; [constructor|].
  apply bo_plain; [lia|lia|lia|exact IH].
Qed.

(* ---------- finite enumeration below 128 ---------- *)

Lemma below128 : forall (P : N -> bool),
  forallb P (map N.of_nat (seq 0 128)) = true -> forall c, c < 128 -> P c = true.
Proof.
  intros P H c Hc. rewrite forallb_forall in H. apply H.
  apply in_map_iff. exists (N.to_nat c). split; [apply N2Nat.id|].
  apply in_seq. lia.
Qed.

Lemma u00_hex : forall c, c < 128 ->
  is_hex 48 && is_hex 48 && is_hex (hexd (c / 16)) && is_hex (hexd (c mod 16)) = true.
Proof. apply (below128 (fun c => is_hex 48 && is_hex 48 && is_hex (hexd (c / 16)) && is_hex (hexd (c mod 16)))). vm_compute. reflexivity. Qed.

Lemma u00_val : forall c, c < 128 -> hex4 48 48 (hexd (c / 16)) (hexd (c mod 16)) = c.
Proof.
  intros c Hc. apply N.eqb_eq.
  revert c Hc. apply (below128 (fun c => hex4 48 48 (hexd (c / 16)) (hexd (c mod 16)) =? c)). vm_compute. reflexivity.
Qed.

(* ---------- the encoder ---------- *)

Definition enc_ascii (c : N) : bytes :=
  if (c =? 34) || (c =? 92) then [92; c]
  else if c =? 8 then [92; 98]
  else if c =? 12 then [92; 102]
  else if c =? 10 then [92; 110]
  else if c =? 13 then [92; 114]
  else if c =? 9 then [92; 116]
  else if (c <? 32) || (c =? 60) || (c =? 62) || (c =? 38) then u00 c
  else [c].

Definition enc_multi (ch : bytes) : bytes :=
  if bytes_eqb ch [226; 128; 168] then [92; 117; 50; 48; 50; 56]
  else if bytes_eqb ch [226; 128; 169] then [92; 117; 50; 48; 50; 57]
  else ch.

Lemma enc_str_f_0 : forall s, enc_str_f 0 s = [].
Proof. reflexivity. Qed.
Lemma enc_str_f_nil : forall f, enc_str_f f [] = [].
Proof. destruct f; reflexivity. Qed.
Lemma enc_str_f_cons : forall f c r,
  enc_str_f (S f) (c :: r) =
  if c <? 128 then enc_ascii c ++ enc_str_f f r
  else match utf8_width (c :: r) with
       | O => REPL ++ enc_str_f f r
       | S w => enc_multi (firstn (S w) (c :: r)) ++ enc_str_f f (skipn (S w) (c :: r))
       end.
Proof. reflexivity. Qed.

Lemma enc_ascii_ok : forall c, c < 128 -> body_ok (enc_ascii c).
Proof.
  intros c Hc. unfold enc_ascii.
  destruct ((c =? 34) || (c =? 92)) eqn:E1.
  { apply bo_esc; [|constructor]. unfold esc1.
    apply orb_true_iff in E1. destruct E1 as [E|E]; rewrite E; rewrite ?orb_true_r; reflexivity. }
  apply orb_false_iff in E1. destruct E1 as [E34 E92]. apply N.eqb_neq in E34, E92.
  destruct (c =? 8); [apply bo_esc; [reflexivity|constructor]|].
  destruct (c =? 12); [apply bo_esc; [reflexivity|constructor]|].
  destruct (c =? 10); [apply bo_esc; [reflexivity|constructor]|].
  destruct (c =? 13); [apply bo_esc; [reflexivity|constructor]|].
  destruct (c =? 9); [apply bo_esc; [reflexivity|constructor]|].
  destruct ((c <? 32) || (c =? 60) || (c =? 62) || (c =? 38)) eqn:E2.
  { unfold u00. apply bo_u; [apply u00_hex; exact Hc|constructor]. }
  repeat (apply orb_false_iff in E2; destruct E2 as [E2 _]). apply N.ltb_ge in E2.
  apply bo_plain; [exact E2|exact E34|exact E92|constructor].
Qed.

Lemma enc_multi_ok : forall ch, Forall (fun c => 128 <= c) ch -> body_ok (enc_multi ch).
Proof.
  intros ch H. unfold enc_multi.
  destruct (bytes_eqb ch [226; 128; 168]); [apply bo_u; [reflexivity|constructor]|].
  destruct (bytes_eqb ch [226; 128; 169]); [apply bo_u; [reflexivity|constructor]|].
  apply body_ok_high; exact H.
Qed.

Theorem enc_body_ok : forall f s, body_ok (enc_str_f f s).
Proof.
  induction f as [|f IH]; intro s; [constructor|].
  destruct s as [|c r]; [constructor|]. rewrite enc_str_f_cons.
  destruct (c <? 128) eqn:E0.
  - apply body_ok_app; [apply enc_ascii_ok; apply N.ltb_lt; exact E0|apply IH].
  - destruct (utf8_width (c :: r)) as [|w] eqn:Ew.
    + apply body_ok_app; [apply bo_u; [reflexivity|constructor]|apply IH].
    + destruct (utf8_width_multi c r w E0 Ew) as [_ [Hhi _]].
      apply body_ok_app; [apply enc_multi_ok; exact Hhi|apply IH].
Qed.

(* A1: the scanner reads back exactly the encoder's output, whatever the input bytes *)
Theorem scan_enc_str : forall n s fuel k, (length (enc_str_f n s) < fuel)%nat ->
  scan_string fuel (enc_str_f n s ++ 34 :: k) = Some (enc_str_f n s, k).
Proof. intros n s fuel k H. apply scan_body; [apply enc_body_ok|exact H]. Qed.

(* ---------- one-step equations for unquote_f ---------- *)

Lemma unquote_f_nil : forall f, unquote_f f [] = [].
Proof. destruct f; reflexivity. Qed.

Lemma unquote_f_u : forall f a b c d r,
  unquote_f (S f) (92 :: 117 :: a :: b :: c :: d :: r) =
  let r1 := hex4 a b c d in
  if is_surr r1 then
    match r with
    | 92 :: 117 :: a2 :: b2 :: c2 :: d2 :: r' =>
      let r2 := hex4 a2 b2 c2 d2 in
      if (r1 <? 56320) && (56320 <=? r2) && (r2 <? 57344)
      then utf8_encode (65536 + (r1 - 55296) * 1024 + (r2 - 56320)) ++ unquote_f f r'
      else REPL_UTF8 ++ unquote_f f r
    | _ => REPL_UTF8 ++ unquote_f f r
    end
  else utf8_encode r1 ++ unquote_f f r.
Proof. reflexivity. Qed.

Definition unesc1 (e : N) : N :=
  if e =? 98 then 8 else if e =? 102 then 12 else if e =? 110 then 10
  else if e =? 114 then 13 else if e =? 116 then 9 else e.

Lemma unquote_f_esc : forall f e r, esc1 e = true ->
  unquote_f (S f) (92 :: e :: r) = unesc1 e :: unquote_f f r.
Proof.
  intros f e r H. unfold esc1 in H.
  repeat (apply orb_true_iff in H; destruct H as [H|H]); apply N.eqb_eq in H; subst e; reflexivity.
Qed.

Lemma unquote_f_plain : forall f c r, c <> 92 ->
  unquote_f (S f) (c :: r) =
  if c <? 128 then c :: unquote_f f r
  else match utf8_width (c :: r) with
       | O => REPL_UTF8 ++ unquote_f f r
       | S w => firstn (S w) (c :: r) ++ unquote_f f (skipn (S w) (c :: r))
       end.
Proof.
  intros f c r H92.
  destruct c as [|p]; [reflexivity|].
  do 7 (try (destruct p as [p|p|]; try reflexivity)); congruence.
Qed.

(* ---------- decoding the encoder's segments ---------- *)

Lemma unq_ascii : forall f c t, c < 128 ->
  unquote_f (S f) (enc_ascii c ++ t) = c :: unquote_f f t.
Proof.
  intros f c t Hc. unfold enc_ascii.
  destruct ((c =? 34) || (c =? 92)) eqn:E1.
  { apply orb_true_iff in E1. destruct E1 as [E|E]; apply N.eqb_eq in E; subst c; reflexivity. }
  apply orb_false_iff in E1. destruct E1 as [_ E92]. apply N.eqb_neq in E92.
  destruct (c =? 8) eqn:E; [apply N.eqb_eq in E; subst c; reflexivity|clear E].
  destruct (c =? 12) eqn:E; [apply N.eqb_eq in E; subst c; reflexivity|clear E].
  destruct (c =? 10) eqn:E; [apply N.eqb_eq in E; subst c; reflexivity|clear E].
  destruct (c =? 13) eqn:E; [apply N.eqb_eq in E; subst c; reflexivity|clear E].
  destruct (c =? 9) eqn:E; [apply N.eqb_eq in E; subst c; reflexivity|clear E].
  destruct ((c <? 32) || (c =? 60) || (c =? 62) || (c =? 38)).
  - unfold u00. simpl app. rewrite unquote_f_u. cbv zeta. rewrite u00_val by exact Hc.
    replace (is_surr c) with false
      by (symmetry; unfold is_surr; apply andb_false_iff; left; apply N.leb_gt; lia).
    unfold utf8_encode. replace (c <? 128) with true by (symmetry; apply N.ltb_lt; exact Hc).
    reflexivity.
  - simpl app. rewrite unquote_f_plain by exact E92.
    replace (c <? 128) with true by (symmetry; apply N.ltb_lt; exact Hc). reflexivity.
Qed.

Lemma unq_high : forall f c r w t, c <? 128 = false -> utf8_width (c :: r) = S w ->
  unquote_f (S f) (firstn (S w) (c :: r) ++ t) = firstn (S w) (c :: r) ++ unquote_f f t.
Proof.
  intros f c r w t E0 Ew.
  destruct (utf8_width_multi c r w E0 Ew) as [Hlen [_ Hw]].
  specialize (Hw t). remember (firstn (S w) (c :: r)) as ch eqn:Ech.
  assert (Hhd : exists ch', ch = c :: ch') by (subst ch; simpl; eexists; reflexivity).
  destruct Hhd as [ch' Hch']. rewrite Hch' in Hw |- *. simpl app in Hw |- *.
  rewrite unquote_f_plain by (apply N.ltb_ge in E0; lia).
  rewrite E0, Hw. cbv beta iota.
  change (c :: ch' ++ t) with ((c :: ch') ++ t). rewrite <- Hch'.
  rewrite <- Hlen. rewrite firstn_app, skipn_app, Nat.sub_diag, firstn_all, skipn_all.
  simpl. rewrite app_nil_r. rewrite Hch'. reflexivity.
Qed.

Lemma unq_multi : forall f c r w t, c <? 128 = false -> utf8_width (c :: r) = S w ->
  unquote_f (S f) (enc_multi (firstn (S w) (c :: r)) ++ t) = firstn (S w) (c :: r) ++ unquote_f f t.
Proof.
  intros f c r w t E0 Ew. unfold enc_multi.
  destruct (bytes_eqb _ [226; 128; 168]) eqn:E1; [apply bytes_eqb_eq in E1; rewrite E1; reflexivity|].
  destruct (bytes_eqb _ [226; 128; 169]) eqn:E2; [apply bytes_eqb_eq in E2; rewrite E2; reflexivity|].
  apply unq_high; assumption.
Qed.

Lemma enc_ascii_len : forall c, (1 <= length (enc_ascii c))%nat.
Proof.
  intro c. unfold enc_ascii, u00.
  repeat match goal with |- context [if ?b then _ else _] => destruct b end; simpl; lia.
Qed.

Lemma enc_multi_len : forall ch, (1 <= length ch)%nat -> (1 <= length (enc_multi ch))%nat.
Proof.
  intros ch H. unfold enc_multi.
  repeat match goal with |- context [if ?b then _ else _] => destruct b end; simpl; lia.
Qed.

Lemma utf8_valid_f_cons : forall n c r,
  utf8_valid_f (S n) (c :: r) =
  match utf8_width (c :: r) with O => false | S w => utf8_valid_f n (skipn (S w) (c :: r)) end.
Proof. reflexivity. Qed.

Lemma unquote_enc_f : forall n s f, utf8_valid_f n s = true ->
  (length (enc_str_f n s) <= f)%nat -> unquote_f f (enc_str_f n s) = s.
Proof.
  induction n as [|n IH]; intros s f Hv Hf.
  { destruct s; [|discriminate]. apply unquote_f_nil. }
  destruct s as [|c r]; [apply unquote_f_nil|].
  rewrite utf8_valid_f_cons in Hv. rewrite enc_str_f_cons in Hf |- *.
  destruct (c <? 128) eqn:E0.
  - rewrite utf8_width_ascii in Hv by exact E0. simpl skipn in Hv.
    rewrite app_length in Hf. pose proof (enc_ascii_len c) as Hl.
    destruct f as [|f]; [lia|].
    rewrite unq_ascii by (apply N.ltb_lt; exact E0).
    rewrite IH by (assumption || lia). reflexivity.
  - destruct (utf8_width (c :: r)) as [|w] eqn:Ew; [discriminate|].
    destruct (utf8_width_multi c r w E0 Ew) as [Hlen _].
    rewrite app_length in Hf.
    pose proof (enc_multi_len (firstn (S w) (c :: r))) as Hl. rewrite Hlen in Hl.
    destruct f as [|f]; [lia|].
    rewrite unq_multi by assumption.
    rewrite IH by (assumption || lia). apply firstn_skipn.
Qed.

(* A2: what appendString wrote for a valid UTF-8 string decodes to that string *)
Theorem unquote_enc_str : forall s, utf8_valid s = true ->
  unquote (enc_str_f (length s) s) = s.
Proof. intros s H. unfold unquote. apply unquote_enc_f; [exact H|lia]. Qed.

(* the same through the scanner: the string literal is read back and decoded *)
Theorem scan_encode_string : forall s k, utf8_valid s = true ->
  exists raw, scan_string (S (length (enc_str_f (length s) s ++ 34 :: k))) (enc_str_f (length s) s ++ 34 :: k)
              = Some (raw, k) /\ unquote raw = s.
Proof.
  intros s k H. exists (enc_str_f (length s) s). split; [|apply unquote_enc_str; exact H].
  apply scan_enc_str. rewrite app_length. simpl. lia.
Qed.

Print Assumptions scan_enc_str.
Print Assumptions unquote_enc_str.
Print Assumptions scan_encode_string.

(* ---------- without the UTF-8 hypothesis: invalid bytes come back as U+FFFD ---------- *)

Fixpoint sanitize_f (n : nat) (s : bytes) : bytes :=
  match n with
  | O => []
  | S n' =>
    match s with
    | [] => []
    | c :: r =>
      if c <? 128 then c :: sanitize_f n' r
      else match utf8_width s with
           | O => REPL_UTF8 ++ sanitize_f n' r
           | S w => firstn (S w) s ++ sanitize_f n' (skipn (S w) s)
           end
    end
  end.
(* strings.ToValidUTF8(s, "�") with one replacement per invalid byte *)
Definition sanitize (s : bytes) : bytes := sanitize_f (length s) s.

Lemma sanitize_f_cons : forall n c r,
  sanitize_f (S n) (c :: r) =
  if c <? 128 then c :: sanitize_f n r
  else match utf8_width (c :: r) with
       | O => REPL_UTF8 ++ sanitize_f n r
       | S w => firstn (S w) (c :: r) ++ sanitize_f n (skipn (S w) (c :: r))
       end.
Proof. reflexivity. Qed.

Lemma unquote_enc_f_any : forall n s f,
  (length (enc_str_f n s) <= f)%nat -> unquote_f f (enc_str_f n s) = sanitize_f n s.
Proof.
  induction n as [|n IH]; intros s f Hf; [apply unquote_f_nil|].
  destruct s as [|c r]; [apply unquote_f_nil|].
  rewrite enc_str_f_cons in Hf |- *. rewrite sanitize_f_cons.
  destruct (c <? 128) eqn:E0.
  - rewrite app_length in Hf. pose proof (enc_ascii_len c) as Hl.
    destruct f as [|f]; [lia|].
    rewrite unq_ascii by (apply N.ltb_lt; exact E0).
    rewrite IH by lia. reflexivity.
  - destruct (utf8_width (c :: r)) as [|w] eqn:Ew.
    + destruct f as [|f]; [simpl in Hf; lia|].
      change (REPL ++ enc_str_f n r) with (92 :: 117 :: 102 :: 102 :: 102 :: 100 :: enc_str_f n r).
      rewrite unquote_f_u. change (hex4 102 102 102 100) with 65533. cbv zeta.
      change (is_surr 65533) with false. cbv iota.
      change (utf8_encode 65533) with REPL_UTF8.
      rewrite IH by (simpl in Hf; lia). reflexivity.
    + destruct (utf8_width_multi c r w E0 Ew) as [Hlen _].
      rewrite app_length in Hf.
      pose proof (enc_multi_len (firstn (S w) (c :: r))) as Hl. rewrite Hlen in Hl.
      destruct f as [|f]; [lia|].
      rewrite unq_multi by assumption.
      rewrite IH by lia. reflexivity.
Qed.

Theorem unquote_enc_str_any : forall s, unquote (enc_str_f (length s) s) = sanitize s.
Proof. intro s. unfold unquote, sanitize. apply unquote_enc_f_any. lia. Qed.

Print Assumptions unquote_enc_str_any.
