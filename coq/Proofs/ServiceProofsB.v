(* Proofs/ServiceProofsB.v — the connection loop: refinement of the stream
   specification, output/log structure, closing behaviour. *)
From VL Require Import Bytes Lit Json Wire Service WireProofs ServiceProofsA.
Open Scope N_scope.

(* ---------- unfolding lemmas ---------- *)

Lemma serve_frames_nil : forall reg hs w log,
  serve_frames reg hs [] w log = mkOut (w_out w) (rev log) CEof.
Proof. reflexivity. Qed.

Lemma serve_frames_cons : forall reg hs f r w log,
  serve_frames reg hs (f :: r) w log =
  match decode_call (strip_last f) with
  | None => mkOut (w_out w) (rev log) CDecode
  | Some c =>
    let '(e, w', en) := handle_call reg hs c w in
    if e then mkOut (w_out w') (rev (en :: log)) CHandlerErr
    else serve_frames reg hs r w' (en :: log)
  end.
Proof. reflexivity. Qed.

Lemma serve_loop_S : forall f cap reg hs c w log,
  serve_loop (S f) cap reg hs c w log =
  match read_bytes cap 0 c with
  | None => mkOut (w_out w) (rev log) CFuel
  | Some (REof _, _) => mkOut (w_out w) (rev log) CEof
  | Some (RData fr, c') =>
    match decode_call (strip_last fr) with
    | None => mkOut (w_out w) (rev log) CDecode
    | Some cl =>
      let '(e, w', en) := handle_call reg hs cl w in
      if e then mkOut (w_out w') (rev (en :: log)) CHandlerErr
      else serve_loop f cap reg hs c' w' (en :: log)
    end
  end.
Proof. reflexivity. Qed.

Lemma split_frames_f_S : forall f d s,
  split_frames_f (S f) d s =
  match cut_at d s with
  | Some (a, rest) => let (fs, tail) := split_frames_f f d rest in (a :: fs, tail)
  | None => ([], s)
  end.
Proof. reflexivity. Qed.

(* ---------- split_frames: fuel independence and its equation ---------- *)

Lemma cut_at_rest_shorter : forall d s a rest,
  cut_at d s = Some (a, rest) -> (length rest < length s)%nat.
Proof.
  intros d s a rest H. destruct (cut_at_some_inv _ _ _ _ H) as [Hs Hl].
  subst s. rewrite app_length. lia.
Qed.

Lemma split_frames_f_enough : forall d f1 f2 s,
  (length s < f1)%nat -> (length s < f2)%nat ->
  split_frames_f f1 d s = split_frames_f f2 d s.
Proof.
  intros d. induction f1 as [|f1 IH]; intros f2 s H1 H2; [lia|].
  destruct f2 as [|f2]; [lia|]. rewrite !split_frames_f_S.
  destruct (cut_at d s) as [[a rest]|] eqn:Ec; [|reflexivity].
  pose proof (cut_at_rest_shorter _ _ _ _ Ec) as Hlt.
  rewrite (IH f2 rest); [reflexivity|lia|lia].
Qed.

Lemma split_frames_eq : forall d s,
  split_frames d s =
  match cut_at d s with
  | Some (a, rest) => let (fs, tail) := split_frames d rest in (a :: fs, tail)
  | None => ([], s)
  end.
Proof.
  intros d s. unfold split_frames. rewrite split_frames_f_S.
  destruct (cut_at d s) as [[a rest]|] eqn:Ec; [|reflexivity].
  pose proof (cut_at_rest_shorter _ _ _ _ Ec) as Hlt.
  rewrite (split_frames_f_enough d (length s) (S (length rest)) rest); [reflexivity|lia|lia].
Qed.

Lemma split_frames_fst_some : forall d s a rest, cut_at d s = Some (a, rest) ->
  fst (split_frames d s) = a :: fst (split_frames d rest).
Proof.
  intros d s a rest H. rewrite (split_frames_eq d s), H.
  destruct (split_frames d rest) as [fs tail]. reflexivity.
Qed.

Lemma split_frames_fst_none : forall d s, cut_at d s = None -> fst (split_frames d s) = [].
Proof. intros d s H. rewrite (split_frames_eq d s), H. reflexivity. Qed.

(* ---------- the buffered loop refines the stream specification ---------- *)

Lemma serve_loop_spec : forall fuel cap reg hs c w log,
  (1 <= cap)%nat -> chunks_ok c -> (length (stream_of c) < fuel)%nat ->
  serve_loop fuel cap reg hs c w log =
  serve_frames reg hs (fst (split_frames 0 (stream_of c))) w log.
Proof.
  induction fuel as [|f IH]; intros cap reg hs c w log Hcap Hok Hlt; [lia|].
  rewrite serve_loop_S.
  destruct (read_bytes_spec cap 0 c Hcap Hok) as (r & c1 & Hr & Hok1 & Hspec).
  rewrite Hr.
  destruct (cut_at 0 (stream_of c)) as [[a rest]|] eqn:Ec.
  - destruct Hspec as [Hra Hs1]. subst r.
    rewrite (split_frames_fst_some _ _ _ _ Ec), serve_frames_cons.
    destruct (decode_call (strip_last a)) as [cl|]; [|reflexivity].
    destruct (handle_call reg hs cl w) as [[e w'] en].
    destruct e; [reflexivity|].
    pose proof (cut_at_rest_shorter _ _ _ _ Ec) as Hsh.
    rewrite (IH cap reg hs c1 w' (en :: log) Hcap Hok1); [rewrite Hs1; reflexivity|].
    rewrite Hs1. lia.
  - destruct Hspec as [Hra _]. subst r.
    rewrite (split_frames_fst_none _ _ Ec), serve_frames_nil. reflexivity.
Qed.

Theorem serve_conn_refines_spec : forall cap reg hs wl c, (1 <= cap)%nat -> chunks_ok c ->
  serve_conn cap reg hs wl c = spec_conn reg hs wl (stream_of c).
Proof.
  intros cap reg hs wl c Hcap Hok. unfold serve_conn, spec_conn.
  apply serve_loop_spec; [exact Hcap|exact Hok|lia].
Qed.
Print Assumptions serve_conn_refines_spec.

Corollary segmentation_irrelevant : forall cap reg hs wl c1 c2,
  (1 <= cap)%nat -> chunks_ok c1 -> chunks_ok c2 ->
  stream_of c1 = stream_of c2 -> serve_conn cap reg hs wl c1 = serve_conn cap reg hs wl c2.
Proof.
  intros cap reg hs wl c1 c2 Hcap H1 H2 Hs.
  rewrite (serve_conn_refines_spec _ _ _ _ _ Hcap H1),
          (serve_conn_refines_spec _ _ _ _ _ Hcap H2), Hs. reflexivity.
Qed.
Print Assumptions segmentation_irrelevant.

(* the fuel artefact never shows *)
Corollary serve_conn_never_out_of_fuel : forall cap reg hs wl c, (1 <= cap)%nat -> chunks_ok c ->
  o_closed (serve_conn cap reg hs wl c) <> CFuel.
Proof.
  intros cap reg hs wl c Hcap Hok. rewrite (serve_conn_refines_spec _ _ _ _ _ Hcap Hok).
  unfold spec_conn. generalize (fst (split_frames 0 (stream_of c))) (mkW [] wl) (@nil entry).
  intro fr. induction fr as [|f r IH]; intros w log.
  - rewrite serve_frames_nil. cbn. discriminate.
  - rewrite serve_frames_cons. destruct (decode_call (strip_last f)) as [cl|]; [|cbn; discriminate].
    destruct (handle_call reg hs cl w) as [[e w'] en]. destruct e; [cbn; discriminate|apply IH].
Qed.
Print Assumptions serve_conn_never_out_of_fuel.

(* ---------- structure of the log and the output ---------- *)

Definition entry_bytes (e : entry) : bytes :=
  concat_bytes (map (attempt_bytes (e_call e)) (e_attempts e)).

Definition dec_frame (f : bytes) : option call := decode_call (strip_last f).

Lemma handle_call_out : forall reg hs c w e w' en,
  handle_call reg hs c w = (e, w', en) ->
  w_out w' = w_out w ++ entry_bytes en /\ e_call en = c /\ e_err en = e.
Proof.
  intros reg hs c w e w' en H.
  destruct (handle_call_inv _ _ _ _ _ _ _ H) as (Hc & He & _ & Hr).
  unfold entry_bytes. rewrite Hc. split; [|auto].
  exact (run_hprog_output_nil _ _ _ _ _ _ Hr).
Qed.

Lemma serve_frames_inv : forall reg hs frames w log,
  exists news,
    o_log (serve_frames reg hs frames w log) = rev log ++ news /\
    o_written (serve_frames reg hs frames w log) = w_out w ++ concat_bytes (map entry_bytes news) /\
    (forall l1 e l2, news = l1 ++ e :: l2 -> e_err e = true -> l2 = []) /\
    map (fun e => Some (e_call e)) news = firstn (length news) (map dec_frame frames).
Proof.
  intros reg hs. induction frames as [|f r IH]; intros w log.
  - exists []. rewrite serve_frames_nil. cbn [o_log o_written map concat_bytes length firstn].
    rewrite !app_nil_r. repeat split. intros [|x l1] e l2 H; discriminate.
  - rewrite serve_frames_cons. cbn [map]. unfold dec_frame at 1.
    destruct (decode_call (strip_last f)) as [c|] eqn:Ed.
    + destruct (handle_call reg hs c w) as [[e w'] en] eqn:Eh.
      destruct (handle_call_out _ _ _ _ _ _ _ Eh) as (Hout & Hc & He).
      destruct e.
      * exists [en]. cbn [o_log o_written rev map concat_bytes length firstn].
        rewrite app_nil_r, Hc. repeat split; [exact Hout|].
        intros [|x [|y l1]] e0 l2 H; inversion H; reflexivity.
      * destruct (IH w' (en :: log)) as (news & Hl & Hw & Herr & Hpre).
        exists (en :: news). cbn [rev] in Hl. rewrite <- app_assoc in Hl. cbn [app] in Hl.
        split; [exact Hl|]. split; [|split].
        -- rewrite Hw, Hout. cbn [map concat_bytes]. rewrite app_assoc. reflexivity.
        -- intros [|x l1] e0 l2 H He0; inversion H; subst.
           ++ congruence.
           ++ exact (Herr l1 e0 l2 eq_refl He0).
        -- cbn [map length firstn]. rewrite Hc, Hpre. reflexivity.
    + exists []. cbn [o_log o_written map concat_bytes length firstn].
      rewrite !app_nil_r. repeat split. intros [|x l1] e l2 H; discriminate.
Qed.

(* output = the per-call outputs in arrival order, nothing else *)
Theorem output_is_log_in_order_gen : forall reg hs frames w,
  let o := serve_frames reg hs frames w [] in
  o_written o = w_out w ++ concat_bytes (map entry_bytes (o_log o)).
Proof.
  intros reg hs frames w. cbv zeta.
  destruct (serve_frames_inv reg hs frames w []) as (news & Hl & Hw & _ & _).
  cbn [rev app] in Hl. rewrite Hl. exact Hw.
Qed.

Theorem output_is_log_in_order : forall reg hs frames,
  let o := serve_frames reg hs frames (mkW [] None) [] in
  o_written o = concat_bytes (map entry_bytes (o_log o)).
Proof. intros reg hs frames. exact (output_is_log_in_order_gen reg hs frames (mkW [] None)). Qed.
Print Assumptions output_is_log_in_order.

Theorem no_dispatch_after_handler_error : forall reg hs frames w l1 e l2,
  o_log (serve_frames reg hs frames w []) = l1 ++ e :: l2 -> e_err e = true -> l2 = [].
Proof.
  intros reg hs frames w l1 e l2 H He.
  destruct (serve_frames_inv reg hs frames w []) as (news & Hl & _ & Herr & _).
  cbn [rev app] in Hl. rewrite Hl in H. exact (Herr l1 e l2 H He).
Qed.
Print Assumptions no_dispatch_after_handler_error.

Theorem bad_frame_closes_silently : forall reg hs f r w log, decode_call (strip_last f) = None ->
  serve_frames reg hs (f :: r) w log = mkOut (w_out w) (rev log) CDecode.
Proof. intros reg hs f r w log H. rewrite serve_frames_cons, H. reflexivity. Qed.
Print Assumptions bad_frame_closes_silently.

Theorem log_is_prefix_of_frames : forall reg hs frames w,
  let o := serve_frames reg hs frames w [] in
  map (fun e => Some (e_call e)) (o_log o) =
  firstn (length (o_log o)) (map (fun f => decode_call (strip_last f)) frames).
Proof.
  intros reg hs frames w. cbv zeta.
  destruct (serve_frames_inv reg hs frames w []) as (news & Hl & _ & _ & Hpre).
  cbn [rev app] in Hl. rewrite Hl. exact Hpre.
Qed.
Print Assumptions log_is_prefix_of_frames.

(* ---------- a trailing partial frame is never dispatched ---------- *)

Lemma cut_at_ends_delim : forall (d : N) (s' : list N), exists a rest, cut_at d (s' ++ [d]) = Some (a, rest).
Proof.
  intros d s'. destruct (cut_at d (s' ++ [d])) as [[a rest]|] eqn:E; [eauto|].
  exfalso. apply (cut_at_none_notin _ _ E). apply in_or_app. right. left. reflexivity.
Qed.

Lemma suffix_ends_delim : forall (d : N) a rest s',
  a ++ rest = s' ++ [d] -> rest = [] \/ exists r', rest = r' ++ [d].
Proof.
  intros d a rest s' H. destruct rest as [|y rest0]; [left; reflexivity|]. right.
  destruct (@exists_last _ (y :: rest0)) as (r' & x & Hr); [discriminate|].
  rewrite Hr in *. rewrite app_assoc in H. apply app_inj_tail in H.
  destruct H as [_ Hx]. subst x. exists r'. reflexivity.
Qed.

Lemma split_frames_partial_tail : forall n s tail, (length s <= n)%nat ->
  ~ In 0%N tail -> (s = [] \/ exists s', s = s' ++ [0%N]) ->
  fst (split_frames 0 (s ++ tail)) = fst (split_frames 0 s).
Proof.
  induction n as [|n IH]; intros s tail Hn Ht Hs.
  - destruct s; [|cbn in Hn; lia]. cbn [app].
    rewrite (split_frames_fst_none _ _ (cut_at_notin _ _ Ht)). reflexivity.
  - destruct Hs as [Hs|(s' & Hs)].
    + subst s. cbn [app]. rewrite (split_frames_fst_none _ _ (cut_at_notin _ _ Ht)). reflexivity.
    + destruct (cut_at_ends_delim 0 s') as (a & rest & Ec). rewrite <- Hs in Ec.
      rewrite (split_frames_fst_some _ _ _ _ (cut_at_some_app _ _ _ _ tail Ec)),
              (split_frames_fst_some _ _ _ _ Ec).
      f_equal. apply IH; [|exact Ht|].
      * pose proof (cut_at_rest_shorter _ _ _ _ Ec). lia.
      * destruct (cut_at_some_inv _ _ _ _ Ec) as [Hsa _]. rewrite Hs in Hsa.
        exact (suffix_ends_delim 0 a rest s' (eq_sym Hsa)).
Qed.

Theorem partial_frame_never_dispatched : forall reg hs wl s tail, ~ In 0%N tail ->
  (s = [] \/ exists s', s = s' ++ [0%N]) ->
  spec_conn reg hs wl (s ++ tail) = spec_conn reg hs wl s.
Proof.
  intros reg hs wl s tail Ht Hs. unfold spec_conn.
  rewrite (split_frames_partial_tail (length s) s tail (le_n _) Ht Hs). reflexivity.
Qed.
Print Assumptions partial_frame_never_dispatched.

(* ---------- non-vacuity ---------- *)
Module ExB.
Import String.
Definition reg1 : registry :=
  fst (register (new_service (b "v"%string) (b "p"%string) (b "1"%string) (b "u"%string) [])
                (b "org.example.ping"%string) (b "interface org.example.ping"%string)).
(* every handler replies once with {} *)
Definition hs1 : handlers := fun _ _ _ => Do (AReply false (PEnc (b "{}"%string))) (fun r => Ret (is_error r)).
Definition req1 : bytes := b "{""method"":""org.example.ping.Ping""}"%string.
Definition req2 : bytes := b "{""method"":""org.example.ping.Ping"",""oneway"":true}"%string.
Definition stream12 : bytes := frame req1 ++ frame req2.

(* two calls, the second oneway: both dispatched, exactly one frame written *)
Example exB_two_calls_one_frame :
  let o := spec_conn reg1 hs1 None stream12 in
  o_written o = frame (b "{""parameters"":{}}"%string) /\
  map e_disp (o_log o) = [DHandler (b "org.example.ping"%string) (b "Ping"%string);
                          DHandler (b "org.example.ping"%string) (b "Ping"%string)] /\
  map (fun e => c_oneway (e_call e)) (o_log o) = [false; true] /\
  o_closed o = CEof.
Proof. vm_compute. repeat split. Qed.

(* the same stream delivered byte-wise through a 3-byte buffer *)
Example exB_bytewise :
  serve_conn 3 reg1 hs1 None (mkConn [] (map (fun x => [x]) stream12)) = spec_conn reg1 hs1 None stream12.
Proof. vm_compute. reflexivity. Qed.

(* a trailing partial frame and a bad frame *)
Example exB_partial_and_bad :
  spec_conn reg1 hs1 None (stream12 ++ req1) = spec_conn reg1 hs1 None stream12 /\
  o_closed (spec_conn reg1 hs1 None (frame req1 ++ frame (b "nonsense"%string) ++ frame req1)) = CDecode /\
  List.length (o_log (spec_conn reg1 hs1 None (frame req1 ++ frame (b "nonsense"%string) ++ frame req1))) = 1%nat.
Proof. vm_compute. repeat split. Qed.

(* a failing write stops the loop: the second call is not dispatched *)
Example exB_write_failure_stops :
  let o := spec_conn reg1 hs1 (Some 0%nat) (frame req1 ++ frame req1) in
  o_written o = [] /\ List.length (o_log o) = 1%nat /\ o_closed o = CHandlerErr.
Proof. vm_compute. repeat split. Qed.
End ExB.
