(* Proofs/LifeProofsA.v — invariants of the life-cycle model (Model/Lifecycle.v)
   for well-sequenced reachable states. *)
From VL Require Import Bytes Lifecycle.
Open Scope nat_scope.
Arguments count_live : simpl never.

(* ---------- scope ---------- *)
Definition ok_label (s : lstate) (l : label) : Prop :=
  match l with LBind _ => serve s = SNone \/ running s = true | _ => True end.

Inductive wreach : lstate -> Prop :=
| wr_init : wreach l_init
| wr_step : forall s l s', wreach s -> ok_label s l -> lstep s l = Some s' -> wreach s'.

Lemma wreach_reach : forall s, wreach s -> reach s.
Proof.
  intros s H. induction H as [|s l s' Hw IH Hok Hs].
  - apply reach_init.
  - eapply reach_step; eauto.
Qed.

(* ---------- set_nth ---------- *)
Lemma length_set_nth : forall A (l : list A) i x, length (set_nth i x l) = length l.
Proof.
  intros A l. induction l as [|a l IH]; intros i x; destruct i; simpl; auto.
Qed.

Lemma nth_set_nth_eq : forall A (l : list A) i x d, i < length l -> nth i (set_nth i x l) d = x.
Proof.
  intros A l. induction l as [|a l IH]; intros i x d Hi; simpl in Hi; [lia|].
  destruct i; simpl; auto. apply IH. lia.
Qed.

Lemma nth_set_nth_neq : forall A (l : list A) i j x d, i <> j -> nth j (set_nth i x l) d = nth j l d.
Proof.
  intros A l. induction l as [|a l IH]; intros i j x d Hij; destruct i, j; simpl; auto; try lia.
Qed.

Lemma set_nth_ge : forall A (l : list A) i x, length l <= i -> set_nth i x l = l.
Proof.
  intros A l. induction l as [|a l IH]; intros i x Hi; destruct i; simpl in *; auto; try lia.
  f_equal. apply IH. lia.
Qed.

Lemma nth_set_nth : forall A (l : list A) i j x d,
  nth j (set_nth i x l) d = if Nat.eqb i j then (if Nat.ltb i (length l) then x else nth j l d) else nth j l d.
Proof.
  intros A l i j x d. destruct (Nat.eqb_spec i j) as [E|E].
  - subst j. destruct (Nat.ltb_spec i (length l)) as [L|L].
    + apply nth_set_nth_eq; auto.
    + rewrite set_nth_ge; auto.
  - apply nth_set_nth_neq; auto.
Qed.

(* ---------- count_live ---------- *)
Definition b2n (b : bool) : nat := if b then 1 else 0.

Definition holder (p : spc) : option nat :=
  match p with SGot c | SAdd c | SSpawn c => Some c | _ => None end.

Lemma count_live_nil : forall p i, count_live p i [] = 0.
Proof. reflexivity. Qed.
Lemma count_live_cons : forall p i st r,
  count_live p i (st :: r) = b2n (live_handler p i st) + count_live p (S i) r.
Proof. reflexivity. Qed.

Lemma live_handler_holder : forall p p' i st, holder p = holder p' -> live_handler p i st = live_handler p' i st.
Proof.
  intros p p' i st H. destruct st; simpl; auto.
  destruct p, p'; simpl in H; try discriminate; auto; inversion H; subst; auto.
Qed.

Lemma count_live_holder : forall p p', holder p = holder p' ->
  forall l i, count_live p i l = count_live p' i l.
Proof.
  intros p p' H l. induction l as [|st r IH]; intro i.
  - reflexivity.
  - rewrite !count_live_cons. rewrite IH. rewrite (live_handler_holder p p' i st H). reflexivity.
Qed.

Lemma count_live_app : forall p l i x,
  count_live p i (l ++ [x]) = count_live p i l + b2n (live_handler p (i + length l) x).
Proof.
  intros p l. induction l as [|st r IH]; intros i x; simpl app.
  - rewrite count_live_cons, !count_live_nil. simpl length. replace (i + 0) with i by lia. lia.
  - rewrite !count_live_cons, IH. simpl length. replace (S i + length r) with (i + S (length r)) by lia. lia.
Qed.

Lemma count_live_set : forall p x l c i, c < length l ->
  count_live p i (set_nth c x l) + b2n (live_handler p (i + c) (nth c l CRefused))
  = count_live p i l + b2n (live_handler p (i + c) x).
Proof.
  intros p x l. induction l as [|st r IH]; intros c i Hc; simpl in Hc; [lia|].
  destruct c as [|c]; simpl set_nth; simpl nth; rewrite !count_live_cons.
  - replace (i + 0) with i by lia. lia.
  - specialize (IH c (S i)). replace (S i + c) with (i + S c) in IH by lia. lia.
Qed.

Definition is_ended (st : cst) : bool := match st with CEnded => true | _ => false end.

(* releasing the held connection: a held CEnded entry becomes a live handler *)
Lemma count_live_release : forall p c, holder p = Some c -> forall l i,
  count_live SNone i l
  = count_live p i l + (if Nat.leb i c then b2n (is_ended (nth (c - i) l CRefused)) else 0).
Proof.
  intros p c Hp l. induction l as [|st r IH]; intro i.
  - rewrite !count_live_nil. destruct (Nat.leb i c); auto. destruct (c - i); reflexivity.
  - rewrite !count_live_cons, IH.
    assert (Hh : live_handler SNone i st = if is_ended st then true else live_handler p i st).
    { destruct st; simpl; auto. }
    assert (He : is_ended st = true -> live_handler p i st = negb (Nat.eqb i c)).
    { destruct st; simpl; try discriminate. intros _.
      destruct p; simpl in Hp; try discriminate; inversion Hp; subst; reflexivity. }
    destruct (Nat.leb_spec i c) as [L|L]; destruct (Nat.leb_spec (S i) c) as [L'|L']; try lia.
    + replace (c - i) with (S (c - S i)) by lia. simpl nth.
      rewrite Hh. destruct (is_ended st) eqn:E; [|simpl; lia].
      rewrite (He eq_refl). destruct (Nat.eqb_spec i c); [lia|]. simpl. lia.
    + assert (i = c) by lia. subst i. rewrite Nat.sub_diag. simpl nth.
      rewrite Hh. destruct (is_ended st) eqn:E; simpl; [|lia].
      rewrite (He eq_refl). rewrite Nat.eqb_refl. simpl. lia.
    + rewrite Hh. destruct (is_ended st) eqn:E; [|simpl; lia].
      rewrite (He eq_refl). destruct (Nat.eqb_spec i c); [lia|]. simpl. lia.
Qed.

Lemma count_live_pos : forall p l i, 0 < count_live p i l ->
  exists k, k < length l /\ live_handler p (i + k) (nth k l CRefused) = true.
Proof.
  intros p l. induction l as [|st r IH]; intros i H.
  - rewrite count_live_nil in H. lia.
  - rewrite count_live_cons in H. destruct (live_handler p i st) eqn:E.
    + exists 0. simpl. rewrite Nat.add_0_r. split; [lia|auto].
    + simpl in H. destruct (IH _ H) as [k [Hk Hl]]. exists (S k). simpl. split; [lia|].
      replace (i + S k) with (S i + k) by lia. exact Hl.
Qed.

Lemma count_live_zero : forall p l i, count_live p i l = 0 ->
  forall k, k < length l -> live_handler p (i + k) (nth k l CRefused) = false.
Proof.
  intros p l. induction l as [|st r IH]; intros i H k Hk; simpl in Hk; [lia|].
  rewrite count_live_cons in H. destruct k as [|k]; simpl nth.
  - rewrite Nat.add_0_r. destruct (live_handler p i st); simpl in H; [lia|auto].
  - replace (i + S k) with (S i + k) by lia. apply IH; [|lia].
    destruct (live_handler p i st); simpl in H; lia.
Qed.

(* ---------- dropping a backlog ---------- *)
Definition drop_all (q : list nat) (cs : list cst) : list cst :=
  fold_left (fun cs c => set_nth c CDropped cs) q cs.

Lemma length_drop_all : forall q cs, length (drop_all q cs) = length cs.
Proof.
  intro q. induction q as [|a q IH]; intro cs; simpl; auto.
  unfold drop_all in *. simpl. rewrite IH. apply length_set_nth.
Qed.

Lemma nth_drop_all_notin : forall q cs c d, ~ In c q -> nth c (drop_all q cs) d = nth c cs d.
Proof.
  intro q. induction q as [|a q IH]; intros cs c d Hn; simpl; auto.
  unfold drop_all in *. simpl. rewrite IH.
  - apply nth_set_nth_neq. intro E. apply Hn. left. auto.
  - intro Hi. apply Hn. right. auto.
Qed.

Lemma nth_drop_all_in : forall q cs c d, In c q -> c < length cs -> nth c (drop_all q cs) d = CDropped.
Proof.
  intro q. induction q as [|a q IH]; intros cs c d Hi Hc; simpl in Hi; [contradiction|].
  unfold drop_all in *. simpl.
  destruct (in_dec Nat.eq_dec c q) as [Hq|Hq].
  - apply IH; auto. rewrite length_set_nth. auto.
  - fold (drop_all q (set_nth a CDropped cs)). rewrite nth_drop_all_notin by auto.
    destruct Hi as [E|Hi]; [|contradiction]. subst a. apply nth_set_nth_eq. auto.
Qed.

Lemma count_live_drop_all : forall p q cs i,
  (forall c, In c q -> nth c cs CRefused = CQueued \/ nth c cs CRefused = CDropped) ->
  count_live p i (drop_all q cs) = count_live p i cs.
Proof.
  intros p q. induction q as [|a q IH]; intros cs i H; [reflexivity|].
  unfold drop_all in *. simpl. rewrite IH.
  - destruct (Nat.lt_ge_cases a (length cs)) as [L|L].
    + pose proof (count_live_set p CDropped cs a i L) as E.
      destruct (H a (or_introl eq_refl)) as [Ha|Ha]; rewrite Ha in E; simpl in E; lia.
    + rewrite set_nth_ge; auto.
  - intros c Hc. rewrite nth_set_nth. destruct (Nat.eqb a c); [|apply H; right; auto].
    destruct (Nat.ltb a (length cs)); [right; auto|apply H; right; auto].
Qed.

(* ---------- the backlog invariant, on the raw components ---------- *)
Definition dobj : lobj := mkLobj false [].
Definition qof (os : list lobj) (i : nat) : list nat := lo_queue (nth i os dobj).
Definition oopen (os : list lobj) (i : nat) : bool := lo_open (nth i os dobj).

Record qinv (os : list lobj) (cs : list cst) : Prop := mkQinv {
  q_st : forall i c, In c (qof os i) -> nth c cs CRefused = CQueued;
  q_nodup : forall i, NoDup (qof os i);
  q_disj : forall i j c, In c (qof os i) -> In c (qof os j) -> i = j;
  q_closed : forall i, oopen os i = false -> qof os i = [];
  q_ex : forall c, nth c cs CRefused = CQueued -> exists i, In c (qof os i) }.

Lemma nth_lt_of_ne_default : forall A (l : list A) c d, nth c l d <> d -> c < length l.
Proof.
  intros A l c d H. destruct (Nat.lt_ge_cases c (length l)) as [L|L]; auto.
  rewrite nth_overflow in H by auto. congruence.
Qed.

Lemma queued_lt : forall cs c, nth c cs CRefused = CQueued -> c < length cs.
Proof. intros cs c H. apply nth_lt_of_ne_default with (d := CRefused). congruence. Qed.

Lemma oopen_lt : forall os i, oopen os i = true -> i < length os.
Proof.
  intros os i H. unfold oopen in H. destruct (Nat.lt_ge_cases i (length os)) as [L|L]; auto.
  rewrite nth_overflow in H by auto. discriminate.
Qed.

Lemma qof_set : forall os i o j,
  qof (set_nth i o os) j = if Nat.eqb i j then (if Nat.ltb i (length os) then lo_queue o else qof os j) else qof os j.
Proof.
  intros os i o j. unfold qof. rewrite nth_set_nth.
  destruct (Nat.eqb i j); auto. destruct (Nat.ltb i (length os)); auto.
Qed.

Lemma oopen_set : forall os i o j,
  oopen (set_nth i o os) j = if Nat.eqb i j then (if Nat.ltb i (length os) then lo_open o else oopen os j) else oopen os j.
Proof.
  intros os i o j. unfold oopen. rewrite nth_set_nth.
  destruct (Nat.eqb i j); auto. destruct (Nat.ltb i (length os)); auto.
Qed.

Lemma nth_app_new : forall A (l : list A) x d j,
  nth j (l ++ [x]) d = if Nat.ltb j (length l) then nth j l d else if Nat.eqb j (length l) then x else d.
Proof.
  intros A l x d j. destruct (Nat.ltb_spec j (length l)) as [L|L].
  - apply app_nth1. auto.
  - rewrite app_nth2 by auto. destruct (Nat.eqb_spec j (length l)) as [E|E].
    + rewrite E, Nat.sub_diag. reflexivity.
    + destruct (j - length l) as [|k] eqn:K; [lia|]. simpl. destruct k; reflexivity.
Qed.

Lemma qof_new : forall os i, qof (os ++ [mkLobj true []]) i = qof os i.
Proof.
  intros os i. unfold qof. rewrite nth_app_new.
  destruct (Nat.ltb_spec i (length os)) as [L|L]; auto.
  rewrite (nth_overflow os) by auto. destruct (Nat.eqb i (length os)); reflexivity.
Qed.

Lemma oopen_new : forall os i,
  oopen (os ++ [mkLobj true []]) i = if Nat.eqb i (length os) then true else oopen os i.
Proof.
  intros os i. unfold oopen. rewrite nth_app_new.
  destruct (Nat.ltb_spec i (length os)) as [L|L].
  - destruct (Nat.eqb_spec i (length os)); [lia|auto].
  - rewrite (nth_overflow os) by auto. destruct (Nat.eqb i (length os)); reflexivity.
Qed.

Lemma qinv_new : forall os cs, qinv os cs -> qinv (os ++ [mkLobj true []]) cs.
Proof.
  intros os cs [H1 H2 H3 H4 H5]. constructor.
  - intros i c. rewrite qof_new. apply H1.
  - intro i. rewrite qof_new. apply H2.
  - intros i j c. rewrite !qof_new. apply H3.
  - intros i. rewrite qof_new, oopen_new. destruct (Nat.eqb_spec i (length os)) as [E|E]; [discriminate|apply H4].
  - intros c Hc. destruct (H5 c Hc) as [i Hi]. exists i. rewrite qof_new. auto.
Qed.

Lemma nth_app_refused : forall cs c, nth c (cs ++ [CRefused]) CRefused = nth c cs CRefused.
Proof.
  intros cs c. rewrite nth_app_new. destruct (Nat.ltb_spec c (length cs)) as [L|L]; auto.
  rewrite nth_overflow by auto. destruct (Nat.eqb c (length cs)); reflexivity.
Qed.

Lemma qinv_refused : forall os cs, qinv os cs -> qinv os (cs ++ [CRefused]).
Proof.
  intros os cs [H1 H2 H3 H4 H5]. constructor; auto.
  - intros i c Hc. rewrite nth_app_refused. eauto.
  - intros c Hc. rewrite nth_app_refused in Hc. auto.
Qed.

Lemma qinv_set : forall os cs c x, qinv os cs -> nth c cs CRefused <> CQueued -> x <> CQueued ->
  qinv os (set_nth c x cs).
Proof.
  intros os cs c x [H1 H2 H3 H4 H5] Hc Hx. constructor; auto.
  - intros i c' Hi. rewrite nth_set_nth_neq; eauto. intro E. subst c'. apply Hc. eauto.
  - intros c' Hc'. rewrite nth_set_nth in Hc'. destruct (Nat.eqb_spec c c') as [E|E]; auto.
    subst c'. destruct (Nat.ltb c (length cs)); auto. congruence.
Qed.

Lemma qinv_close : forall os cs i, qinv os cs -> qinv (set_nth i dobj os) (drop_all (qof os i) cs).
Proof.
  intros os cs i [H1 H2 H3 H4 H5].
  assert (Q : forall j, qof (set_nth i dobj os) j = if Nat.eqb i j then [] else qof os j).
  { intro j. rewrite qof_set. destruct (Nat.eqb_spec i j) as [E|E]; auto. subst j.
    destruct (Nat.ltb_spec i (length os)) as [L|L]; auto.
    unfold qof. rewrite nth_overflow by auto. reflexivity. }
  constructor.
  - intros j c. rewrite Q. destruct (Nat.eqb_spec i j) as [E|E]; [intros []|]. intro Hc.
    rewrite nth_drop_all_notin; [eauto|]. intro Hi. apply E. eapply H3; eauto.
  - intro j. rewrite Q. destruct (Nat.eqb i j); [constructor|apply H2].
  - intros j k c. rewrite !Q. destruct (Nat.eqb i j); [intros []|]. destruct (Nat.eqb i k); [intros _ []|]. apply H3.
  - intros j. rewrite Q, oopen_set. destruct (Nat.eqb i j); auto.
  - intros c Hc. destruct (in_dec Nat.eq_dec c (qof os i)) as [Hi|Hi].
    + rewrite nth_drop_all_in in Hc; auto; [discriminate|]. apply queued_lt. eauto.
    + rewrite nth_drop_all_notin in Hc by auto. destruct (H5 c Hc) as [j Hj]. exists j.
      rewrite Q. destruct (Nat.eqb_spec i j) as [E|E]; auto. subst j. contradiction.
Qed.

Lemma qinv_accept : forall os cs i c q x, qinv os cs ->
  oopen os i = true -> qof os i = c :: q -> x <> CQueued ->
  qinv (set_nth i (mkLobj true q) os) (set_nth c x cs).
Proof.
  intros os cs i c q x [H1 H2 H3 H4 H5] Ho Hq Hx.
  pose proof (oopen_lt _ _ Ho) as Li. apply Nat.ltb_lt in Li.
  assert (Q : forall j, qof (set_nth i (mkLobj true q) os) j = if Nat.eqb i j then q else qof os j).
  { intro j. rewrite qof_set, Li. reflexivity. }
  assert (Hnd : NoDup (c :: q)) by (rewrite <- Hq; apply H2).
  assert (Hcq : ~ In c q) by (inversion Hnd; auto).
  assert (Hsub : forall j c', In c' (if Nat.eqb i j then q else qof os j) -> In c' (qof os j) /\ c' <> c).
  { intros j c'. destruct (Nat.eqb_spec i j) as [E|E]; intro Hc'.
    - subst j. rewrite Hq. split; [right; auto|]. intro; subst; contradiction.
    - split; auto. intro; subst c'. apply E. apply (H3 i j c); auto. rewrite Hq. left; auto. }
  constructor.
  - intros j c'. rewrite Q. intro Hc'. destruct (Hsub _ _ Hc') as [Ha Hb].
    rewrite nth_set_nth_neq by auto. eauto.
  - intro j. rewrite Q. destruct (Nat.eqb i j); [inversion Hnd; auto|apply H2].
  - intros j k c'. rewrite !Q. intros Hj Hk. apply Hsub in Hj. apply Hsub in Hk. eapply H3; [apply Hj|apply Hk].
  - intros j. rewrite Q, oopen_set, Li. destruct (Nat.eqb i j); [discriminate|apply H4].
  - intros c' Hc'. rewrite nth_set_nth in Hc'. destruct (Nat.eqb_spec c c') as [E|E].
    + subst c'. assert (L : c < length cs). { apply queued_lt. apply (H1 i). rewrite Hq. left; auto. }
      apply Nat.ltb_lt in L. rewrite L in Hc'. congruence.
    + destruct (H5 c' Hc') as [j Hj]. exists j. rewrite Q. destruct (Nat.eqb_spec i j) as [E'|E']; auto.
      subst j. rewrite Hq in Hj. destruct Hj; [congruence|auto].
Qed.

Lemma NoDup_snoc : forall (l : list nat) n, NoDup l -> ~ In n l -> NoDup (l ++ [n]).
Proof.
  intros l n. induction l as [|a l IH]; intros Hd Hn; simpl.
  - constructor; [intros []|constructor].
  - inversion Hd as [|a' l' Ha Hl]; subst. constructor.
    + intro Hi. apply in_app_or in Hi. destruct Hi as [Hi|[Hi|[]]]; auto. subst. apply Hn. left; auto.
    + apply IH; auto. intro Hi. apply Hn. right; auto.
Qed.

Lemma qinv_connect : forall os cs i, qinv os cs -> oopen os i = true ->
  qinv (set_nth i (mkLobj true (qof os i ++ [length cs])) os) (cs ++ [CQueued]).
Proof.
  intros os cs i [H1 H2 H3 H4 H5] Ho.
  pose proof (oopen_lt _ _ Ho) as Li. apply Nat.ltb_lt in Li.
  set (n := length cs).
  assert (Q : forall j, qof (set_nth i (mkLobj true (qof os i ++ [n])) os) j
                        = if Nat.eqb i j then qof os i ++ [n] else qof os j).
  { intro j. rewrite qof_set, Li. reflexivity. }
  assert (Hn : forall j, ~ In n (qof os j)).
  { intros j Hj. apply H1 in Hj. apply queued_lt in Hj. unfold n in Hj. lia. }
  assert (Hsub : forall j c, In c (if Nat.eqb i j then qof os i ++ [n] else qof os j) ->
                 In c (qof os j) \/ (c = n /\ j = i)).
  { intros j c. destruct (Nat.eqb_spec i j) as [E|E]; auto. subst j. intro Hc.
    apply in_app_or in Hc. destruct Hc as [Hc|[Hc|[]]]; auto. }
  constructor.
  - intros j c. rewrite Q. intro Hc. apply Hsub in Hc. rewrite nth_app_new. destruct Hc as [Hc|[Hc _]].
    + pose proof (H1 _ _ Hc) as Hq. pose proof (queued_lt _ _ Hq) as L. apply Nat.ltb_lt in L. rewrite L. auto.
    + subst c. fold n. rewrite Nat.ltb_irrefl, Nat.eqb_refl. reflexivity.
  - intro j. rewrite Q. destruct (Nat.eqb i j); [|apply H2].
    apply NoDup_snoc; auto.
  - intros j k c. rewrite !Q. intros Hj Hk. apply Hsub in Hj. apply Hsub in Hk.
    destruct Hj as [Hj|[Hj Ej]], Hk as [Hk|[Hk Ek]]; subst; eauto; exfalso; eapply Hn; eauto.
  - intro j. rewrite Q, oopen_set, Li. destruct (Nat.eqb i j); [discriminate|apply H4].
  - intros c Hc. rewrite nth_app_new in Hc. fold n in Hc. destruct (Nat.ltb c n) eqn:L.
    + destruct (H5 c Hc) as [j Hj]. exists j. rewrite Q. destruct (Nat.eqb_spec i j); auto.
      subst j. apply in_or_app. auto.
    + destruct (Nat.eqb_spec c n) as [E|E]; [|discriminate]. exists i. rewrite Q, Nat.eqb_refl.
      apply in_or_app. right. left. auto.
Qed.

(* ---------- the "connection in hand" invariant ---------- *)
Record hinv (p : spc) (cs : list cst) : Prop := mkHinv {
  h_held : forall c, holder p = Some c -> nth c cs CRefused = CHeld \/ nth c cs CRefused = CEnded;
  h_only : forall c, nth c cs CRefused = CHeld -> holder p = Some c }.

Lemma hinv_pc : forall p p' cs, holder p = holder p' -> hinv p cs -> hinv p' cs.
Proof. intros p p' cs E [H1 H2]. constructor; rewrite <- E; auto. Qed.

Lemma hinv_app : forall p cs x, hinv p cs -> x <> CHeld -> hinv p (cs ++ [x]).
Proof.
  intros p cs x [H1 H2] Hx. constructor.
  - intros c Hc. specialize (H1 c Hc). rewrite nth_app_new.
    assert (L : c < length cs). { apply nth_lt_of_ne_default with (d := CRefused). destruct H1 as [E|E]; rewrite E; discriminate. }
    apply Nat.ltb_lt in L. rewrite L. auto.
  - intros c Hc. rewrite nth_app_new in Hc. destruct (Nat.ltb c (length cs)); auto.
    destruct (Nat.eqb c (length cs)); [congruence|discriminate].
Qed.

Lemma hinv_accept : forall p cs c, holder p = None -> hinv p cs -> c < length cs ->
  hinv (SGot c) (set_nth c CHeld cs).
Proof.
  intros p cs c Hp [H1 H2] L. constructor.
  - simpl. intros c' E. inversion E; subst. left. apply nth_set_nth_eq. auto.
  - simpl. intros c' Hc'. rewrite nth_set_nth in Hc'. destruct (Nat.eqb_spec c c'); [congruence|].
    apply H2 in Hc'. congruence.
Qed.

Lemma hinv_spawn : forall p p' cs c x, holder p = Some c -> holder p' = None -> hinv p cs ->
  x <> CHeld -> hinv p' (set_nth c x cs).
Proof.
  intros p p' cs c x Hp Hp' [H1 H2] Hx. constructor.
  - rewrite Hp'. discriminate.
  - intros c' Hc'. exfalso. rewrite nth_set_nth in Hc'. destruct (Nat.eqb_spec c c') as [E|E].
    + subst c'. destruct (Nat.ltb_spec c (length cs)) as [L|L]; [congruence|].
      destruct (H1 c Hp) as [E|E]; rewrite nth_overflow in E by auto; discriminate.
    + apply H2 in Hc'. congruence.
Qed.

Lemma hinv_set : forall p cs c x, hinv p cs -> x <> CHeld ->
  (holder p <> Some c \/ x = CEnded) -> hinv p (set_nth c x cs).
Proof.
  intros p cs c x [H1 H2] Hx Hc. constructor.
  - intros c' Hc'. rewrite nth_set_nth. destruct (Nat.eqb_spec c c') as [E|E]; auto.
    subst c'. destruct Hc as [Hc|Hc]; [congruence|]. destruct (Nat.ltb c (length cs)); auto.
  - intros c' Hc'. rewrite nth_set_nth in Hc'. destruct (Nat.eqb_spec c c') as [E|E]; auto.
    destruct (Nat.ltb c (length cs)); [congruence|auto].
Qed.

Lemma hinv_drop_all : forall p cs q, hinv p cs -> (forall c, In c q -> nth c cs CRefused = CQueued) ->
  hinv p (drop_all q cs).
Proof.
  intros p cs q [H1 H2] Hq. constructor.
  - intros c Hc. rewrite nth_drop_all_notin; auto. intro Hi. apply Hq in Hi.
    destruct (H1 c Hc) as [E|E]; congruence.
  - intros c Hc. destruct (in_dec Nat.eq_dec c q) as [Hi|Hi].
    + rewrite nth_drop_all_in in Hc; auto; [discriminate|]. apply queued_lt. auto.
    + rewrite nth_drop_all_notin in Hc; auto.
Qed.

(* ---------- the bundled invariant ---------- *)
Definition is_nolis (r : ret) : bool := match r with RNoListener => true | _ => false end.
Definition may_run (p : spc) : bool :=
  match p with
  | SLoopHead | SRefresh | SAccept | STimeout | SAcceptErr | SGot _ | SAdd _ | SSpawn _ => true
  | STeardown r => negb (is_nolis r)
  | _ => false
  end.
Definition needs_lis (p : spc) : bool :=
  match p with SSetRunning => true | _ => may_run p end.
Definition no_lis (p : spc) : bool :=
  match p with SWait _ => true | STeardown r => is_nolis r | _ => false end.

(* the current listener object, if any, is closed *)
Definition no_open_cur (s : lstate) : Prop :=
  forall i, listener s = Some i -> oopen (objs s) i = false.

Record Inv (s : lstate) : Prop := mkInv {
  i_q : qinv (objs s) (conns s);
  i_h : hinv (serve s) (conns s);
  i_lt : forall i, listener s = Some i -> i < length (objs s);
  i_run : running s = true -> may_run (serve s) = true;
  i_lis : needs_lis (serve s) = true -> listener s <> None;
  i_nolis : no_lis (serve s) = true -> listener s = None;
  i_shut : shut s = true -> no_open_cur s;
  i_len : length (late s) = length (conns s);
  i_late : forall c, nth c (late s) false = true -> nth c (conns s) CRefused = CRefused;
  i_cnt : conncounter s = live s + inflight_counter (serve s);
  i_wg : wg s = live s + inflight_wg (serve s);
  i_idle : serve s = SNone -> live s = 0 }.

Ltac fields := cbn [running listener objs conncounter wg serve tmo conns late shut result accepted_idle].
Ltac fields_in H := cbn [running listener objs conncounter wg serve tmo conns late shut result accepted_idle] in H.

Lemma Inv_init : Inv l_init.
Proof.
  constructor; unfold l_init, live, no_open_cur; fields; try discriminate; auto.
  - constructor; unfold qof, oopen; intros.
    + destruct i; simpl in *; contradiction.
    + destruct i; simpl; constructor.
    + destruct i; simpl in *; contradiction.
    + destruct i; reflexivity.
    + destruct c; simpl in *; discriminate.
  - constructor; simpl; intros c; [discriminate|destruct c; simpl; discriminate].
  - intros c. destruct c; simpl; discriminate.
Qed.

Lemma no_open_new : forall os, oopen (os ++ [mkLobj true []]) (length os) = true.
Proof. intro os. rewrite oopen_new, Nat.eqb_refl. reflexivity. Qed.

Lemma Inv_bind : forall s ok s', Inv s -> ok_label s (LBind ok) -> lstep s (LBind ok) = Some s' -> Inv s'.
Proof.
  intros s ok s' HI Hok H. simpl in H, Hok.
  destruct (running s) eqn:Er; [inversion H; subst; auto|].
  destruct ok; [|inversion H; subst; auto].
  destruct Hok as [Es|Hx]; [|discriminate].
  destruct HI as [Hq Hh Hlt Hrun Hlis Hnolis Hshut Hlen Hlate Hcnt Hwg Hidle].
  inversion H; subst s'; clear H. constructor; unfold live, no_open_cur in *; fields; auto.
  - apply qinv_new; auto.
  - intros i E. inversion E; subst. rewrite app_length. simpl. lia.
  - discriminate.
  - discriminate.
  - rewrite Es. discriminate.
  - discriminate.
Qed.

Lemma Inv_startdo : forall s t s', Inv s -> lstep s (LStartDoListen t) = Some s' -> Inv s'.
Proof.
  intros s t s' HI H. simpl in H. destruct (serve s) eqn:Es; try discriminate.
  destruct HI as [Hq Hh Hlt Hrun Hlis Hnolis Hshut Hlen Hlate Hcnt Hwg Hidle].
  unfold live, no_open_cur in *. rewrite Es in *.
  inversion H; subst s'; clear H. constructor; unfold live, no_open_cur in *; fields; auto; try discriminate.
  - eapply hinv_pc; [|exact Hh]. reflexivity.
  - rewrite (count_live_holder SEnter SNone) by reflexivity. exact Hcnt.
  - rewrite (count_live_holder SEnter SNone) by reflexivity. exact Hwg.
Qed.

Lemma Inv_startlisten : forall s ok t s', Inv s -> lstep s (LStartListen ok t) = Some s' -> Inv s'.
Proof.
  intros s ok t s' HI H. simpl in H. destruct (serve s) eqn:Es; try discriminate.
  destruct HI as [Hq Hh Hlt Hrun Hlis Hnolis Hshut Hlen Hlate Hcnt Hwg Hidle].
  unfold live, no_open_cur in *. rewrite Es in *.
  destruct (running s) eqn:Er; [specialize (Hrun eq_refl); discriminate|].
  destruct ok; inversion H; subst s'; clear H; constructor; unfold live, no_open_cur in *; fields;
    try rewrite Es; try rewrite Er; auto; try discriminate.
  - apply qinv_new; auto.
  - eapply hinv_pc; [|exact Hh]. reflexivity.
  - intros i E. inversion E; subst. rewrite app_length. simpl. lia.
  - rewrite (count_live_holder SSetRunning SNone) by reflexivity. exact Hcnt.
  - rewrite (count_live_holder SSetRunning SNone) by reflexivity. exact Hwg.
Qed.

Lemma late_app : forall (lt : list bool) cs b x, length lt = length cs ->
  (forall c, nth c lt false = true -> nth c cs CRefused = CRefused) ->
  (b = true -> x = CRefused) ->
  forall c, nth c (lt ++ [b]) false = true -> nth c (cs ++ [x]) CRefused = CRefused.
Proof.
  intros lt cs b x Hl H Hb c Hc. rewrite nth_app_new in *. rewrite <- Hl.
  destruct (Nat.ltb c (length lt)); auto. destruct (Nat.eqb c (length lt)); auto.
Qed.

Lemma late_mono : forall (lt : list bool) cs cs',
  (forall c, nth c lt false = true -> nth c cs CRefused = CRefused) ->
  (forall c, nth c cs CRefused = CRefused -> nth c cs' CRefused = CRefused) ->
  forall c, nth c lt false = true -> nth c cs' CRefused = CRefused.
Proof. intros; auto. Qed.

Lemma refused_set : forall cs c x, nth c cs CRefused <> CRefused ->
  forall c', nth c' cs CRefused = CRefused -> nth c' (set_nth c x cs) CRefused = CRefused.
Proof.
  intros cs c x Hc c' Hc'. rewrite nth_set_nth_neq; auto. intro; subst; contradiction.
Qed.

Lemma refused_drop_all : forall cs q, (forall c, In c q -> nth c cs CRefused = CQueued) ->
  forall c', nth c' cs CRefused = CRefused -> nth c' (drop_all q cs) CRefused = CRefused.
Proof.
  intros cs q Hq c' Hc'. rewrite nth_drop_all_notin; auto. intro Hi. apply Hq in Hi. congruence.
Qed.

Lemma Inv_connect : forall s s', Inv s -> lstep s LConnect = Some s' -> Inv s'.
Proof.
  intros s s' HI H. simpl in H.
  destruct HI as [Hq Hh Hlt Hrun Hlis Hnolis Hshut Hlen Hlate Hcnt Hwg Hidle].
  unfold live, no_open_cur in *.
  assert (Hrefused : Inv (mkL (running s) (listener s) (objs s) (conncounter s) (wg s) (serve s) (tmo s)
            (conns s ++ [CRefused]) (late s ++ [shut s]) (shut s) (result s) (accepted_idle s))).
  { constructor; unfold live, no_open_cur; fields; auto.
    - apply qinv_refused; auto.
    - apply hinv_app; auto. discriminate.
    - rewrite !app_length, Hlen. reflexivity.
    - apply late_app; auto.
    - rewrite count_live_app. simpl. lia.
    - rewrite count_live_app. simpl. lia.
    - intro E. rewrite count_live_app. simpl. rewrite (Hidle E). reflexivity. }
  destruct (listener s) as [i|] eqn:El; [|inversion H; subst; exact Hrefused].
  destruct (lo_open (get_obj s i)) eqn:Eo; [|inversion H; subst; exact Hrefused].
  clear Hrefused. change (oopen (objs s) i = true) in Eo.
  change (lo_queue (get_obj s i)) with (qof (objs s) i) in H.
  inversion H; subst s'; clear H. constructor; unfold live, no_open_cur; fields; auto.
  - apply qinv_connect; auto.
  - apply hinv_app; auto. discriminate.
  - intros j E. rewrite length_set_nth. auto.
  - intros Hs j E. rewrite (Hshut Hs i eq_refl) in Eo. discriminate.
  - rewrite !app_length, Hlen. reflexivity.
  - apply late_app; auto. intro Hs. rewrite (Hshut Hs i eq_refl) in Eo. discriminate.
  - rewrite count_live_app. simpl. lia.
  - rewrite count_live_app. simpl. lia.
  - intro E. rewrite count_live_app. simpl. rewrite (Hidle E). reflexivity.
Qed.

Lemma live_ended_free : forall p c, holder p <> Some c -> live_handler p c CEnded = true.
Proof.
  intros p c H. destruct p; simpl in *; auto; destruct (Nat.eqb_spec c c0); auto; subst; congruence.
Qed.
Lemma live_ended_held : forall p c, holder p = Some c -> live_handler p c CEnded = false.
Proof.
  intros p c H. destruct p; simpl in *; try discriminate; inversion H; subst; rewrite Nat.eqb_refl; auto.
Qed.

Lemma Inv_end : forall s c s', Inv s -> lstep s (LEnd c) = Some s' -> Inv s'.
Proof.
  intros s c s' HI H. simpl in H. unfold conn_st in H.
  destruct HI as [Hq Hh Hlt Hrun Hlis Hnolis Hshut Hlen Hlate Hcnt Hwg Hidle].
  unfold live, no_open_cur in *.
  assert (Hold : nth c (conns s) CRefused = CServed \/ nth c (conns s) CRefused = CHeld).
  { destruct (nth c (conns s) CRefused); try discriminate; auto. }
  assert (Hs' : s' = mkL (running s) (listener s) (objs s) (conncounter s) (wg s) (serve s) (tmo s)
                  (set_nth c CEnded (conns s)) (late s) (shut s) (result s) (accepted_idle s)).
  { destruct Hold as [E|E]; rewrite E in H; inversion H; reflexivity. }
  clear H. subst s'.
  assert (L : c < length (conns s)).
  { apply nth_lt_of_ne_default with (d := CRefused). destruct Hold as [E|E]; rewrite E; discriminate. }
  assert (Hc : count_live (serve s) 0 (set_nth c CEnded (conns s)) = count_live (serve s) 0 (conns s)).
  { pose proof (count_live_set (serve s) CEnded (conns s) c 0 L) as E. change (0 + c) with c in E.
    destruct Hold as [E1|E1]; rewrite E1 in E.
    - change (live_handler (serve s) c CServed) with true in E.
      rewrite live_ended_free in E; [simpl in E; lia|]. intro Hp.
      destruct (h_held _ _ Hh c Hp); congruence.
    - change (live_handler (serve s) c CHeld) with false in E.
      rewrite live_ended_held in E; [simpl in E; lia|]. apply (h_only _ _ Hh). auto. }
  constructor; unfold live, no_open_cur; fields; auto; try rewrite Hc; auto.
  - apply qinv_set; auto; [|discriminate]. destruct Hold as [E|E]; rewrite E; discriminate.
  - apply hinv_set; auto. discriminate.
  - rewrite length_set_nth. auto.
  - eapply late_mono; [exact Hlate|]. apply refused_set. destruct Hold as [E|E]; rewrite E; discriminate.
Qed.

Lemma handler_exit_inv : forall s c s', lstep s (LHandlerExit c) = Some s' ->
  conn_st s c = CEnded /\ holder (serve s) <> Some c /\
  s' = mkL (running s) (listener s) (objs s) (pred (conncounter s)) (pred (wg s)) (serve s) (tmo s)
           (set_nth c CGone (conns s)) (late s) (shut s) (result s) (accepted_idle s).
Proof.
  intros s c s' H. simpl in H. destruct (conn_st s c); try discriminate.
  split; auto.
  destruct (serve s) eqn:Es; simpl;
    try (split; [discriminate|inversion H; reflexivity]);
    destruct (Nat.eqb_spec c c0); try discriminate;
    (split; [congruence|inversion H; reflexivity]).
Qed.

Lemma Inv_exit : forall s c s', Inv s -> lstep s (LHandlerExit c) = Some s' -> Inv s'.
Proof.
  intros s c s' HI H. apply handler_exit_inv in H. destruct H as [Hold [Hp Hs']]. subst s'.
  unfold conn_st in Hold.
  destruct HI as [Hq Hh Hlt Hrun Hlis Hnolis Hshut Hlen Hlate Hcnt Hwg Hidle].
  unfold live, no_open_cur in *.
  assert (L : c < length (conns s)).
  { apply nth_lt_of_ne_default with (d := CRefused). rewrite Hold; discriminate. }
  assert (Hc : count_live (serve s) 0 (set_nth c CGone (conns s)) + 1 = count_live (serve s) 0 (conns s)).
  { pose proof (count_live_set (serve s) CGone (conns s) c 0 L) as E. change (0 + c) with c in E.
    rewrite Hold in E. rewrite live_ended_free in E by auto.
    change (live_handler (serve s) c CGone) with false in E. simpl in E. lia. }
  constructor; unfold live, no_open_cur; fields; auto.
  - apply qinv_set; auto; [|discriminate]. rewrite Hold; discriminate.
  - apply hinv_set; auto. discriminate.
  - rewrite length_set_nth. auto.
  - eapply late_mono; [exact Hlate|]. apply refused_set. rewrite Hold; discriminate.
  - lia.
  - lia.
  - intro E. specialize (Hidle E). lia.
Qed.

(* steps that only move the program counter and the counters (same connection in hand) *)
Lemma Inv_pc : forall s rn cc w p t res ai, Inv s -> holder p = holder (serve s) ->
  (rn = true -> may_run p = true) ->
  (needs_lis p = true -> listener s <> None) ->
  (no_lis p = true -> listener s = None) ->
  cc = live s + inflight_counter p ->
  w = live s + inflight_wg p ->
  (p = SNone -> live s = 0) ->
  Inv (mkL rn (listener s) (objs s) cc w p t (conns s) (late s) (shut s) res ai).
Proof.
  intros s rn cc w p t res ai HI Hp H1 H2 H3 H4 H5 H6.
  destruct HI as [Hq Hh Hlt Hrun Hlis Hnolis Hshut Hlen Hlate Hcnt Hwg Hidle].
  unfold live, no_open_cur in *.
  constructor; unfold live, no_open_cur; fields; auto.
  - eapply hinv_pc; [|exact Hh]. auto.
  - rewrite (count_live_holder p (serve s)) by auto. lia.
  - rewrite (count_live_holder p (serve s)) by auto. lia.
  - intro E. rewrite (count_live_holder p (serve s)) by auto. auto.
Qed.

Lemma Inv_shutdown : forall s s', Inv s -> lstep s LShutdown = Some s' -> Inv s'.
Proof.
  intros s s' HI H. simpl in H.
  destruct HI as [Hq Hh Hlt Hrun Hlis Hnolis Hshut Hlen Hlate Hcnt Hwg Hidle].
  unfold live, no_open_cur in *.
  destruct (listener s) as [i|] eqn:El.
  - change (close_obj s i) with (set_nth i dobj (objs s), drop_all (qof (objs s) i) (conns s)) in H.
    cbv beta iota in H. inversion H; subst s'; clear H.
    assert (Hqs : forall c, In c (qof (objs s) i) -> nth c (conns s) CRefused = CQueued).
    { intros c Hc. eapply q_st; eauto. }
    constructor; unfold live, no_open_cur; fields; auto; try discriminate.
    + apply qinv_close; auto.
    + apply hinv_drop_all; auto.
    + intros j E. rewrite length_set_nth. auto.
    + intros _ j E. inversion E; subst j. rewrite oopen_set, Nat.eqb_refl.
      pose proof (Hlt i eq_refl) as L. apply Nat.ltb_lt in L. rewrite L. reflexivity.
    + rewrite length_drop_all. auto.
    + eapply late_mono; [exact Hlate|]. apply refused_drop_all. auto.
    + rewrite count_live_drop_all; auto.
    + rewrite count_live_drop_all; auto.
    + intro E. rewrite count_live_drop_all; auto.
  - inversion H; subst s'; clear H.
    constructor; unfold live, no_open_cur; fields; auto; try discriminate.
Qed.

Lemma Inv_acceptconn : forall s s', Inv s -> lstep s LAcceptConn = Some s' -> Inv s'.
Proof.
  intros s s' HI H. simpl in H.
  destruct (serve s) eqn:Es; try discriminate.
  destruct (listener s) as [i|] eqn:El; try discriminate.
  destruct (lo_open (get_obj s i)) eqn:Eo; try discriminate.
  destruct (lo_queue (get_obj s i)) as [|c q] eqn:Eq; try discriminate.
  change (oopen (objs s) i = true) in Eo. change (qof (objs s) i = c :: q) in Eq.
  destruct HI as [Hq Hh Hlt Hrun Hlis Hnolis Hshut Hlen Hlate Hcnt Hwg Hidle].
  unfold live, no_open_cur in *. rewrite Es, El in *.
  assert (Hc : nth c (conns s) CRefused = CQueued).
  { apply (q_st _ _ Hq i). rewrite Eq. left; auto. }
  pose proof (queued_lt _ _ Hc) as L.
  inversion H; subst s'; clear H.
  assert (Hcl : count_live (SGot c) 0 (set_nth c CHeld (conns s)) = count_live SAccept 0 (conns s)).
  { pose proof (count_live_release (SGot c) c eq_refl (set_nth c CHeld (conns s)) 0) as E.
    simpl Nat.leb in E. rewrite Nat.sub_0_r, nth_set_nth_eq in E by auto. simpl in E.
    rewrite (count_live_holder SNone SAccept) in E by reflexivity.
    pose proof (count_live_set SAccept CHeld (conns s) c 0 L) as E2. rewrite Hc in E2. simpl in E2. lia. }
  constructor; unfold live, no_open_cur; fields; auto; try discriminate; try rewrite Hcl; auto.
  - apply qinv_accept; auto. discriminate.
  - apply hinv_accept with (p := SAccept); auto.
  - intros j E. rewrite length_set_nth. auto.
  - intros Hs j E. rewrite (Hshut Hs i eq_refl) in Eo. discriminate.
  - rewrite length_set_nth. auto.
  - eapply late_mono; [exact Hlate|]. apply refused_set. rewrite Hc. discriminate.
Qed.

Lemma Inv_acceptclosed : forall s s', Inv s -> lstep s LAcceptClosed = Some s' -> Inv s'.
Proof.
  intros s s' HI H. simpl in H. destruct (serve s) eqn:Es; try discriminate.
  assert (Hs' : s' = upd_serve s SAcceptErr).
  { destruct (cur_obj s) as [o|]; [destruct (lo_open o); [discriminate|]|]; inversion H; reflexivity. }
  subst s'. unfold upd_serve. pose proof HI as HI'. destruct HI' as [_ _ _ _ Hlis _ _ _ _ Hcnt Hwg _].
  rewrite Es in *. apply Inv_pc; auto; rewrite ?Es; simpl; auto; try discriminate.
Qed.

Lemma Inv_expire : forall s s', Inv s -> lstep s LExpire = Some s' -> Inv s'.
Proof.
  intros s s' HI H. simpl in H. destruct (serve s) eqn:Es; try discriminate.
  assert (Hs' : s' = upd_serve s STimeout).
  { destruct (cur_obj s) as [o|]; [|discriminate]. destruct (tmo s && lo_open o); inversion H; reflexivity. }
  subst s'. unfold upd_serve. pose proof HI as HI'. destruct HI' as [_ _ _ _ Hlis _ _ _ _ Hcnt Hwg _].
  rewrite Es in *. apply Inv_pc; auto; rewrite ?Es; simpl; auto; try discriminate.
Qed.

Lemma Inv_spawn : forall s c, Inv s -> serve s = SSpawn c ->
  Inv (mkL (running s) (listener s) (objs s) (conncounter s) (wg s) SLoopHead (tmo s)
           (set_nth c (match conn_st s c with CEnded => CEnded | _ => CServed end) (conns s))
           (late s) (shut s) (result s) (accepted_idle s)).
Proof.
  intros s c HI Es. unfold conn_st.
  destruct HI as [Hq Hh Hlt Hrun Hlis Hnolis Hshut Hlen Hlate Hcnt Hwg Hidle].
  unfold live, no_open_cur in *. rewrite Es in *.
  set (x := match nth c (conns s) CRefused with CEnded => CEnded | _ => CServed end).
  assert (Hold : nth c (conns s) CRefused = CHeld \/ nth c (conns s) CRefused = CEnded).
  { apply (h_held _ _ Hh). reflexivity. }
  assert (L : c < length (conns s)).
  { apply nth_lt_of_ne_default with (d := CRefused). destruct Hold as [E|E]; rewrite E; discriminate. }
  assert (Hx : x <> CQueued /\ x <> CHeld).
  { unfold x. destruct (nth c (conns s) CRefused); split; discriminate. }
  assert (Hc : count_live SLoopHead 0 (set_nth c x (conns s)) = count_live (SSpawn c) 0 (conns s) + 1).
  { pose proof (count_live_set SLoopHead x (conns s) c 0 L) as E. change (0 + c) with c in E.
    rewrite (count_live_holder SLoopHead SNone (eq_refl) (conns s)) in E.
    pose proof (count_live_release (SSpawn c) c eq_refl (conns s) 0) as E2.
    simpl Nat.leb in E2. rewrite Nat.sub_0_r in E2.
    unfold x in *. destruct Hold as [E1|E1]; rewrite E1 in *; simpl in E, E2; lia. }
  constructor; unfold live, no_open_cur; fields; auto; try discriminate; try (rewrite Hc; simpl in *; lia).
  - apply qinv_set; auto; [|apply Hx]. destruct Hold as [E|E]; rewrite E; discriminate.
  - eapply hinv_spawn with (p := SSpawn c); eauto. apply Hx.
  - rewrite length_set_nth. auto.
  - eapply late_mono; [exact Hlate|]. apply refused_set. destruct Hold as [E|E]; rewrite E; discriminate.
Qed.

Lemma Inv_teardown : forall s r i, Inv s -> serve s = STeardown r -> listener s = Some i ->
  Inv (mkL false None (set_nth i dobj (objs s)) (conncounter s) (wg s) (SWait r) (tmo s)
           (drop_all (qof (objs s) i) (conns s)) (late s) (shut s) (result s) (accepted_idle s)).
Proof.
  intros s r i HI Es El.
  destruct HI as [Hq Hh Hlt Hrun Hlis Hnolis Hshut Hlen Hlate Hcnt Hwg Hidle].
  unfold live, no_open_cur in *. rewrite Es in *.
  assert (Hqs : forall c, In c (qof (objs s) i) -> nth c (conns s) CRefused = CQueued).
  { intros c Hc. eapply q_st; eauto. }
  constructor; unfold live, no_open_cur; fields; auto; try discriminate.
  - apply qinv_close; auto.
  - apply hinv_drop_all; auto. eapply hinv_pc; [|exact Hh]. reflexivity.
  - rewrite length_drop_all. auto.
  - eapply late_mono; [exact Hlate|]. apply refused_drop_all. auto.
  - rewrite count_live_drop_all; auto. rewrite (count_live_holder (SWait r) (STeardown r)) by reflexivity. exact Hcnt.
  - rewrite count_live_drop_all; auto. rewrite (count_live_holder (SWait r) (STeardown r)) by reflexivity. exact Hwg.
Qed.

Ltac pc_step HI Es :=
  unfold upd_serve;
  let Hlis := fresh "Hlis" in let Hcnt := fresh "Hcnt" in let Hwg := fresh "Hwg" in
  let Hrun := fresh "Hrun" in let Hnolis := fresh "Hnolis" in
  pose proof (i_lis _ HI) as Hlis; pose proof (i_cnt _ HI) as Hcnt; pose proof (i_wg _ HI) as Hwg;
  pose proof (i_run _ HI) as Hrun; pose proof (i_nolis _ HI) as Hnolis;
  rewrite Es in Hlis, Hcnt, Hwg, Hrun, Hnolis; simpl in Hlis, Hcnt, Hwg, Hrun, Hnolis;
  apply Inv_pc; auto; rewrite ?Es; simpl; auto; try discriminate; try lia.

Lemma Inv_serve : forall s s', Inv s -> lstep s LServe = Some s' -> Inv s'.
Proof.
  intros s s' HI H. simpl in H. destruct (serve s) eqn:Es; try discriminate.
  - (* SEnter *)
    destruct (listener s) as [i|] eqn:El; inversion H; subst s'; clear H; try rewrite <- El.
    + pc_step HI Es. congruence.
    + pc_step HI Es.
  - (* SSetRunning *)
    inversion H; subst s'; clear H. pc_step HI Es.
  - (* SLoopHead *)
    destruct (running s) eqn:Er; inversion H; subst s'; clear H; try rewrite <- Er.
    + destruct (tmo s); pc_step HI Es.
    + pc_step HI Es.
  - (* SRefresh *)
    unfold cur_obj in H. destruct (listener s) as [i|] eqn:El.
    + destruct (lo_open (get_obj s i)); inversion H; subst s'; clear H; try rewrite <- El; pc_step HI Es.
    + inversion H; subst s'; clear H; try rewrite <- El; pc_step HI Es.
  - (* STimeout *)
    destruct (Nat.eqb (conncounter s) 0); inversion H; subst s'; clear H; pc_step HI Es.
  - (* SAcceptErr *)
    destruct (running s) eqn:Er; inversion H; subst s'; clear H; try rewrite <- Er; pc_step HI Es.
  - (* SGot *)
    inversion H; subst s'; clear H. pc_step HI Es.
  - (* SAdd *)
    inversion H; subst s'; clear H. pc_step HI Es.
  - (* SSpawn *)
    inversion H; subst s'; clear H. apply Inv_spawn; auto.
  - (* STeardown *)
    destruct (listener s) as [i|] eqn:El.
    + change (close_obj s i) with (set_nth i dobj (objs s), drop_all (qof (objs s) i) (conns s)) in H.
      cbv beta iota in H. inversion H; subst s'; clear H. apply Inv_teardown; auto.
    + inversion H; subst s'; clear H. try rewrite <- El. pc_step HI Es.
  - (* SWait *)
    destruct (Nat.eqb_spec (wg s) 0) as [E|E]; [|discriminate].
    inversion H; subst s'; clear H. pc_step HI Es.
Qed.

Lemma Inv_step : forall s l s', Inv s -> ok_label s l -> lstep s l = Some s' -> Inv s'.
Proof.
  intros s l s' HI Hok H. destruct l.
  - eapply Inv_bind; eauto.
  - eapply Inv_startdo; eauto.
  - eapply Inv_startlisten; eauto.
  - eapply Inv_serve; eauto.
  - eapply Inv_acceptconn; eauto.
  - eapply Inv_acceptclosed; eauto.
  - eapply Inv_expire; eauto.
  - eapply Inv_shutdown; eauto.
  - eapply Inv_connect; eauto.
  - eapply Inv_end; eauto.
  - eapply Inv_exit; eauto.
Qed.

Theorem wreach_Inv : forall s, wreach s -> Inv s.
Proof.
  intros s H. induction H as [|s l s' Hw IH Hok Hs].
  - apply Inv_init.
  - eapply Inv_step; eauto.
Qed.
Print Assumptions wreach_Inv.

(* ================= the invariants, as stated ================= *)

(* I1: every accepted connection is accounted for exactly once *)
Theorem I1_counter : forall s, wreach s -> conncounter s = live s + inflight_counter (serve s).
Proof. intros s H. apply i_cnt. apply wreach_Inv. auto. Qed.
Print Assumptions I1_counter.

Theorem I1_wg : forall s, wreach s -> wg s = live s + inflight_wg (serve s).
Proof. intros s H. apply i_wg. apply wreach_Inv. auto. Qed.
Print Assumptions I1_wg.

(* a connection that was refused, dropped, or whose handler exited never moves again
   (no hypothesis on s needed) *)
Definition final_cst (st : cst) : bool :=
  match st with CRefused | CDropped | CGone => true | _ => false end.

Lemma drop_all_final : forall q cs c, final_cst (nth c cs CRefused) = true ->
  final_cst (nth c (drop_all q cs) CRefused) = true.
Proof.
  intro q. induction q as [|a q IH]; intros cs c H; [exact H|].
  unfold drop_all in *. simpl. apply IH. rewrite nth_set_nth.
  destruct (Nat.eqb a c); auto. destruct (Nat.ltb a (length cs)); auto.
Qed.

(* how one step changes the connection table *)
Definition conns_change (s s' : lstate) : Prop :=
  conns s' = conns s
  \/ (exists x, conns s' = conns s ++ [x])
  \/ (exists c x, conns s' = set_nth c x (conns s) /\ final_cst (conn_st s c) = false)
  \/ (exists i, conns s' = drop_all (qof (objs s) i) (conns s)).

Lemma conns_step : forall s l s', Inv s -> lstep s l = Some s' -> conns_change s s'.
Proof.
  intros s l s' HI H. unfold conns_change. destruct l; simpl in H.
  - destruct (running s); [|destruct ok]; inversion H; subst; auto.
  - destruct (serve s); inversion H; subst; auto.
  - destruct (serve s); try discriminate. destruct (running s); [|destruct ok]; inversion H; subst; auto.
  - destruct (serve s) eqn:Es; try discriminate; unfold upd_serve, cur_obj in H.
    + destruct (listener s); inversion H; subst; auto.
    + inversion H; subst; auto.
    + destruct (running s); inversion H; subst; auto.
    + destruct (listener s); [destruct (lo_open _)|]; inversion H; subst; auto.
    + destruct (Nat.eqb _ _); inversion H; subst; auto.
    + destruct (running s); inversion H; subst; auto.
    + inversion H; subst; auto.
    + inversion H; subst; auto.
    + inversion H; subst; fields. right. right. left. eexists. eexists. split; [reflexivity|].
      pose proof (h_held _ _ (i_h _ HI) c) as Hc. rewrite Es in Hc. unfold conn_st.
      destruct (Hc eq_refl) as [E|E]; rewrite E; reflexivity.
    + destruct (listener s) as [i|].
      * change (close_obj s i) with (set_nth i dobj (objs s), drop_all (qof (objs s) i) (conns s)) in H.
        cbv beta iota in H. inversion H; subst; fields. right. right. right. exists i. reflexivity.
      * inversion H; subst; auto.
    + destruct (Nat.eqb _ _); inversion H; subst; auto.
  - destruct (serve s); try discriminate. destruct (listener s) as [i|] eqn:El; try discriminate.
    destruct (lo_open (get_obj s i)) eqn:Eo; try discriminate.
    destruct (lo_queue (get_obj s i)) as [|c q] eqn:Eq; try discriminate.
    inversion H; subst; fields. right. right. left. exists c, CHeld. split; auto.
    unfold conn_st. rewrite (q_st _ _ (i_q _ HI) i c); auto.
    change (qof (objs s) i) with (lo_queue (get_obj s i)). rewrite Eq. left; auto.
  - destruct (serve s); try discriminate. unfold upd_serve in H.
    destruct (cur_obj s) as [o|]; [destruct (lo_open o); [discriminate|]|]; inversion H; subst; auto.
  - destruct (serve s); try discriminate. unfold upd_serve in H.
    destruct (cur_obj s) as [o|]; [|discriminate]. destruct (tmo s && lo_open o); inversion H; subst; auto.
  - destruct (listener s) as [i|].
    + change (close_obj s i) with (set_nth i dobj (objs s), drop_all (qof (objs s) i) (conns s)) in H.
      cbv beta iota in H. inversion H; subst; fields. right. right. right. exists i. reflexivity.
    + inversion H; subst; auto.
  - destruct (listener s) as [i|]; [destruct (lo_open _)|]; inversion H; subst; fields; right; left; eauto.
  - destruct (conn_st s c) eqn:E; try discriminate; inversion H; subst; fields;
      right; right; left; exists c, CEnded; rewrite E; auto.
  - apply handler_exit_inv in H. destruct H as [E [_ Hs']]. subst s'. fields.
    right. right. left. exists c, CGone. rewrite E. auto.
Qed.

(* each handler exits exactly once: a refused / dropped / gone connection never moves again *)
Theorem final_stable : forall s l s' c, wreach s -> lstep s l = Some s' ->
  c < length (conns s) -> final_cst (conn_st s c) = true -> conn_st s' c = conn_st s c.
Proof.
  intros s l s' c Hw H Lc Hf. pose proof (wreach_Inv _ Hw) as HI.
  destruct (conns_step _ _ _ HI H) as [E|[[x E]|[[c' [x [E Hc']]]|[i E]]]]; unfold conn_st in *; rewrite E.
  - reflexivity.
  - apply app_nth1. auto.
  - apply nth_set_nth_neq. intro; subst c'. congruence.
  - apply nth_drop_all_notin. intro Hi. apply (q_st _ _ (i_q _ HI)) in Hi. rewrite Hi in Hf. discriminate.
Qed.
Print Assumptions final_stable.

Theorem listener_in_range : forall s i, wreach s -> listener s = Some i -> i < length (objs s).
Proof. intros s i H. apply i_lt. apply wreach_Inv. auto. Qed.
Print Assumptions listener_in_range.

(* a backlog entry is a CQueued connection; backlogs are duplicate-free and pairwise disjoint *)
Theorem queue_sound : forall s i c, wreach s -> In c (lo_queue (get_obj s i)) ->
  conn_st s c = CQueued /\ lo_open (get_obj s i) = true /\ NoDup (lo_queue (get_obj s i)) /\
  (forall j, In c (lo_queue (get_obj s j)) -> j = i).
Proof.
  intros s i c Hw Hc. pose proof (i_q _ (wreach_Inv _ Hw)) as Hq. repeat split.
  - apply (q_st _ _ Hq i c Hc).
  - destruct (lo_open (get_obj s i)) eqn:E; auto.
    pose proof (q_closed _ _ Hq i E) as E2. change (qof (objs s) i) with (lo_queue (get_obj s i)) in E2.
    rewrite E2 in Hc. contradiction.
  - apply (q_nodup _ _ Hq i).
  - intros j Hj. apply (q_disj _ _ Hq j i c Hj Hc).
Qed.
Print Assumptions queue_sound.

(* a CQueued connection is in the backlog of exactly one listener object, and that object is open *)
Theorem queued_in_open : forall s c, wreach s -> conn_st s c = CQueued ->
  exists i, In c (lo_queue (get_obj s i)) /\ lo_open (get_obj s i) = true /\
            forall j, In c (lo_queue (get_obj s j)) -> j = i.
Proof.
  intros s c Hw Hc. destruct (q_ex _ _ (i_q _ (wreach_Inv _ Hw)) c Hc) as [i Hi].
  exists i. destruct (queue_sound s i c Hw Hi) as [_ [Ho [_ Hu]]]. auto.
Qed.
Print Assumptions queued_in_open.

Theorem closed_queue_empty : forall s i, wreach s -> lo_open (get_obj s i) = false -> lo_queue (get_obj s i) = [].
Proof. intros s i Hw. apply (q_closed _ _ (i_q _ (wreach_Inv _ Hw)) i). Qed.
Print Assumptions closed_queue_empty.

(* the connection the serving call has in hand *)
Theorem in_hand : forall s c, wreach s ->
  (holder (serve s) = Some c -> conn_st s c = CHeld \/ conn_st s c = CEnded) /\
  (conn_st s c = CHeld -> holder (serve s) = Some c).
Proof.
  intros s c Hw. pose proof (i_h _ (wreach_Inv _ Hw)) as Hh. split.
  - apply (h_held _ _ Hh).
  - apply (h_only _ _ Hh).
Qed.
Print Assumptions in_hand.

Lemma may_run_not_none : forall p, may_run p = true -> p <> SNone /\ needs_lis p = true.
Proof. intros p H. destruct p; simpl in *; try discriminate; split; auto; discriminate. Qed.

(* running implies a serving call in its loop (or about to tear down) on a bound listener *)
Theorem running_serving : forall s, wreach s -> running s = true ->
  may_run (serve s) = true /\ serve s <> SNone /\ exists i, listener s = Some i.
Proof.
  intros s Hw Hr. pose proof (wreach_Inv _ Hw) as HI. pose proof (i_run _ HI Hr) as Hm.
  destruct (may_run_not_none _ Hm) as [Hn Hl]. repeat split; auto.
  pose proof (i_lis _ HI Hl) as E. destruct (listener s) as [i|]; [eauto|congruence].
Qed.
Print Assumptions running_serving.

Theorem idle_not_running : forall s, wreach s -> serve s = SNone -> running s = false.
Proof.
  intros s Hw Es. destruct (running s) eqn:Er; auto.
  destruct (running_serving s Hw Er) as [_ [Hn _]]. congruence.
Qed.
Print Assumptions idle_not_running.

(* the serving call keeps its listener: between SSetRunning and the teardown s.listener is set *)
Theorem serving_has_listener : forall s, wreach s -> needs_lis (serve s) = true -> exists i, listener s = Some i.
Proof.
  intros s Hw Hl. pose proof (i_lis _ (wreach_Inv _ Hw) Hl) as E.
  destruct (listener s) as [i|]; [eauto|congruence].
Qed.
Print Assumptions serving_has_listener.

Theorem shut_closed : forall s, wreach s -> shut s = true ->
  match cur_obj s with Some o => lo_open o = false | None => True end.
Proof.
  intros s Hw Hs. pose proof (i_shut _ (wreach_Inv _ Hw) Hs) as H. unfold no_open_cur, cur_obj in *.
  destruct (listener s) as [i|]; auto. apply (H i eq_refl).
Qed.
Print Assumptions shut_closed.

Theorem no_late_service : forall s c, wreach s -> nth c (late s) false = true ->
  match conn_st s c with CRefused => True | _ => False end.
Proof.
  intros s c Hw H. unfold conn_st. rewrite (i_late _ (wreach_Inv _ Hw) c H). exact I.
Qed.
Print Assumptions no_late_service.

Theorem late_length : forall s, wreach s -> length (late s) = length (conns s).
Proof. intros s Hw. apply i_len. apply wreach_Inv. auto. Qed.

Theorem idle_no_handlers : forall s, wreach s -> serve s = SNone -> live s = 0.
Proof. intros s Hw. apply i_idle. apply wreach_Inv. auto. Qed.
Print Assumptions idle_no_handlers.

(* ---------- executable well-sequenced runs (to exhibit reachable states) ---------- *)
Definition is_none_pc (p : spc) : bool := match p with SNone => true | _ => false end.
Definition ok_labelb (s : lstate) (l : label) : bool :=
  match l with LBind _ => is_none_pc (serve s) || running s | _ => true end.

Lemma ok_labelb_ok : forall s l, ok_labelb s l = true -> ok_label s l.
Proof.
  intros s l H. destruct l; simpl in *; auto. apply orb_true_iff in H. destruct H as [H|H]; auto.
  left. destruct (serve s); simpl in H; try discriminate; auto.
Qed.

Fixpoint wrun (s : lstate) (ls : list label) : option lstate :=
  match ls with
  | [] => Some s
  | l :: r => if ok_labelb s l then match lstep s l with Some s' => wrun s' r | None => None end else None
  end.

Lemma wrun_run : forall ls s s', wrun s ls = Some s' -> run s ls = Some s'.
Proof.
  intro ls. induction ls as [|l r IH]; intros s s' H; simpl in *; auto.
  destruct (ok_labelb s l); try discriminate. destruct (lstep s l); try discriminate. auto.
Qed.

Lemma wrun_wreach : forall ls s s', wreach s -> wrun s ls = Some s' -> wreach s'.
Proof.
  intro ls. induction ls as [|l r IH]; intros s s' Hw H; simpl in H.
  - inversion H; subst; auto.
  - destruct (ok_labelb s l) eqn:Eo; try discriminate. destruct (lstep s l) as [s1|] eqn:E1; try discriminate.
    apply (IH s1); auto. eapply wr_step; eauto. apply ok_labelb_ok; auto.
Qed.

(* bind, start, connect, accept, spawn, shutdown, end, exit, return *)
Definition demo_trace : list label :=
  [LBind true; LStartDoListen false; LServe; LServe; LServe; LConnect; LAcceptConn; LServe; LServe; LServe;
   LServe; LShutdown; LAcceptClosed; LServe; LServe; LEnd 0; LHandlerExit 0; LServe].

Example demo_run :
  wrun l_init demo_trace
  = Some (mkL false None [mkLobj false []] 0 0 SNone false [CGone] [false] true (Some RNilRet) true).
Proof. vm_compute. reflexivity. Qed.

Example demo_mid : (* after the spawn: one live handler, counters 1/1 *)
  option_map (fun s => (serve s, conncounter s, wg s, live s, conns s)) (wrun l_init (firstn 10 demo_trace))
  = Some (SLoopHead, 1, 1, 1, [CServed]).
Proof. vm_compute. reflexivity. Qed.

Example demo_reach : exists s, wreach s /\ serve s = SNone /\ result s = Some RNilRet /\ shut s = true.
Proof.
  eexists. split; [eapply wrun_wreach; [apply wr_init|apply demo_run]|]. simpl. auto.
Qed.

(* a late connection is refused *)
Example demo_late :
  option_map (fun s => (conns s, late s)) (wrun l_init [LBind true; LStartDoListen false; LServe; LServe; LServe; LShutdown; LConnect])
  = Some ([CRefused], [true]).
Proof. vm_compute. reflexivity. Qed.
