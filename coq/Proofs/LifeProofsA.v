(* Proofs/LifeProofsA.v — invariants of the life-cycle model (Model/Lifecycle.v)
   for well-sequenced reachable states. *)
From VL Require Import Bytes Lifecycle.
Open Scope nat_scope.
Arguments count_live : simpl never.

(* ---------- scope ---------- *)
Definition ok_label (s : lstate) (l : label) : Prop :=
  match l with LBind _ => serve s = SNone \/ running s = true | _ => True end.

Inductive wreach : lstate -> Prop :=
| wr_init : wreach l_init
| wr_step : forall s l s', wreach s -> ok_label s l -> lstep s l = Some s' -> wreach s'.

Lemma wreach_reach : forall s, wreach s -> reach s.
Proof.
  intros s H. induction H as [|s l s' Hw IH Hok Hs].
  - apply reach_init.
  - eapply reach_step; eauto.
Qed.

(* ---------- set_nth ---------- *)
Lemma length_set_nth : forall A (l : list A) i x, length (set_nth i x l) = length l.
Proof.
  intros A l. induction l as [|a l IH]; intros i x; destruct i; simpl; auto.
Qed.

Lemma nth_set_nth_eq : forall A (l : list A) i x d, i < length l -> nth i (set_nth i x l) d = x.
Proof.
  intros A l. induction l as [|a l IH]; intros i x d Hi; simpl in Hi; [lia|].
  destruct i; simpl; auto. apply IH. lia.
Qed.

Lemma nth_set_nth_neq : forall A (l : list A) i j x d, i <> j -> nth j (set_nth i x l) d = nth j l d.
Proof.
  intros A l. induction l as [|a l IH]; intros i j x d Hij; destruct i, j; simpl; auto; try lia.
Qed.

Lemma set_nth_ge : forall A (l : list A) i x, length l <= i -> set_nth i x l = l.
Proof.
  intros A l. induction l as [|a l IH]; intros i x Hi; destruct i; simpl in *; auto; try lia.
  f_equal. apply IH. lia.
Qed.

Lemma nth_set_nth : forall A (l : list A) i j x d,
  nth j (set_nth i x l) d = if Nat.eqb i j then (if Nat.ltb i (length l) then x else nth j l d) else nth j l d.
Proof.
  intros A l i j x d. destruct (Nat.eqb_spec i j) as [E|E].
  - subst j. destruct (Nat.ltb_spec i (length l)) as [L|L].
    + apply nth_set_nth_eq; auto.
    + rewrite set_nth_ge; auto.
  - apply nth_set_nth_neq; auto.
Qed.

(* ---------- count_live ---------- *)
Definition b2n (b : bool) : nat := if b then 1 else 0.

Definition holder (p : spc) : option nat :=
  match p with SGot c | SAdd c | SSpawn c => Some c | _ => None end.

Lemma count_live_nil : forall p i, count_live p i [] = 0.
Proof. reflexivity. Qed.
Lemma count_live_cons : forall p i st r,
  count_live p i (st :: r) = b2n (live_handler p i st) + count_live p (S i) r.
Proof. reflexivity. Qed.

Lemma live_handler_holder : forall p p' i st, holder p = holder p' -> live_handler p i st = live_handler p' i st.
Proof.
  intros p p' i st H. destruct st; simpl; auto.
  destruct p, p'; simpl in H; try discriminate; auto; inversion H; subst; auto.
Qed.

Lemma count_live_holder : forall p p', holder p = holder p' ->
  forall l i, count_live p i l = count_live p' i l.
Proof.
  intros p p' H l. induction l as [|st r IH]; intro i.
  - reflexivity.
  - rewrite !count_live_cons. rewrite IH. rewrite (live_handler_holder p p' i st H). reflexivity.
Qed.

Lemma count_live_app : forall p l i x,
  count_live p i (l ++ [x]) = count_live p i l + b2n (live_handler p (i + length l) x).
Proof.
  intros p l. induction l as [|st r IH]; intros i x; simpl app.
  - rewrite count_live_cons, !count_live_nil. simpl length. replace (i + 0) with i by lia. lia.
  - rewrite !count_live_cons, IH. simpl length. replace (S i + length r) with (i + S (length r)) by lia. lia.
Qed.

Lemma count_live_set : forall p x l c i, c < length l ->
  count_live p i (set_nth c x l) + b2n (live_handler p (i + c) (nth c l CRefused))
  = count_live p i l + b2n (live_handler p (i + c) x).
Proof.
  intros p x l. induction l as [|st r IH]; intros c i Hc; simpl in Hc; [lia|].
  destruct c as [|c]; simpl set_nth; simpl nth; rewrite !count_live_cons.
  - replace (i + 0) with i by lia. lia.
  - specialize (IH c (S i)). replace (S i + c) with (i + S c) in IH by lia. lia.
Qed.
