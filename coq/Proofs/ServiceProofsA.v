(* Proofs/ServiceProofsA.v — reply discipline per call (Model/Service.v). *)
From VL Require Import Bytes Lit Json Wire Service.
Open Scope N_scope.

(* ---------- what one accepted attempt puts on the wire ---------- *)

(* the message body an action marshals (None = json.Marshal fails) *)
Definition action_body (a : action) : option bytes :=
  match a with
  | AReply cont p => option_map (fun ps => encode_reply ps cont []) (enc_params p)
  | AReplyError name p => option_map (fun ps => encode_reply ps false name) (enc_params p)
  | AStdError k arg => Some (encode_reply (Some (std_params k arg)) false (std_name k))
  end.

Definition attempt_bytes (c : call) (at : attempt) : bytes :=
  if c_oneway c then []
  else match at_result at with
       | ResOk => match action_body (at_action at) with Some bd => frame bd | None => [] end
       | _ => []
       end.

Lemma concat_bytes_app : forall l1 l2,
  concat_bytes (l1 ++ l2) = concat_bytes l1 ++ concat_bytes l2.
Proof.
  induction l1 as [|x l1 IH]; intro l2; cbn [concat_bytes app]; [reflexivity|].
  rewrite IH, app_assoc. reflexivity.
Qed.

(* ---------- send_message ---------- *)

Lemma send_message_out : forall c body w r w',
  send_message c body w = (r, w') ->
  w_out w' = w_out w ++
    (if c_oneway c then []
     else match r with ResOk => match body with Some bd => frame bd | None => [] end | _ => [] end).
Proof.
  intros c body w r w' H. unfold send_message in H.
  destruct (c_oneway c).
  - inversion H; subst. rewrite app_nil_r. reflexivity.
  - destruct body as [bd|].
    + destruct (w_left w) as [[|k]|]; inversion H; subst; cbn [w_out];
        try reflexivity; rewrite app_nil_r; reflexivity.
    + inversion H; subst. rewrite app_nil_r. reflexivity.
Qed.

Lemma send_message_left_none : forall c body w r w',
  w_left w = None -> send_message c body w = (r, w') -> w_left w' = None.
Proof.
  intros c body w r w' Hl H. unfold send_message in H.
  destruct (c_oneway c); [inversion H; subst; exact Hl|].
  destruct body as [bd|]; [|inversion H; subst; exact Hl].
  rewrite Hl in H. inversion H; subst. reflexivity.
Qed.

Lemma send_message_fail : forall c body w,
  fst (send_message c body w) <> ResOk -> snd (send_message c body w) = w.
Proof.
  intros c body w H. unfold send_message in *.
  destruct (c_oneway c); [reflexivity|].
  destruct body as [bd|]; [|reflexivity].
  destruct (w_left w) as [[|k]|]; cbn [fst snd] in *; try reflexivity; congruence.
Qed.

Lemma send_message_not_refused : forall c body w,
  fst (send_message c body w) <> ResRefused.
Proof.
  intros c body w. unfold send_message.
  destruct (c_oneway c); [cbn; discriminate|].
  destruct body as [bd|]; [|cbn; discriminate].
  destruct (w_left w) as [[|k]|]; cbn; discriminate.
Qed.

(* ---------- do_action ---------- *)

Lemma do_action_out : forall c a w r w',
  do_action c a w = (r, w') -> w_out w' = w_out w ++ attempt_bytes c (mkAtt a r).
Proof.
  intros c a w r w' H. unfold attempt_bytes. cbn [at_result at_action].
  destruct a as [cont p|name p|k arg]; cbn [do_action action_body] in *.
  - destruct cont.
    + destruct (c_more c).
      * exact (send_message_out _ _ _ _ _ H).
      * inversion H; subst. destruct (c_oneway c); rewrite app_nil_r; reflexivity.
    + exact (send_message_out _ _ _ _ _ H).
  - destruct (error_name_ok name).
    + exact (send_message_out _ _ _ _ _ H).
    + inversion H; subst. destruct (c_oneway c); rewrite app_nil_r; reflexivity.
  - exact (send_message_out _ _ _ _ _ H).
Qed.

Lemma do_action_left_none : forall c a w r w',
  w_left w = None -> do_action c a w = (r, w') -> w_left w' = None.
Proof.
  intros c a w r w' Hl H.
  destruct a as [cont p|name p|k arg]; cbn [do_action] in H.
  - destruct cont; [destruct (c_more c)|].
    + exact (send_message_left_none _ _ _ _ _ Hl H).
    + inversion H; subst; exact Hl.
    + exact (send_message_left_none _ _ _ _ _ Hl H).
  - destruct (error_name_ok name).
    + exact (send_message_left_none _ _ _ _ _ Hl H).
    + inversion H; subst; exact Hl.
  - exact (send_message_left_none _ _ _ _ _ Hl H).
Qed.
