(* Proofs/ServiceProofsA.v — reply discipline per call (Model/Service.v). *)
From VL Require Import Bytes Lit Json Wire Service.
Open Scope N_scope.

(* ---------- what one accepted attempt puts on the wire ---------- *)

(* the message body an action marshals (None = json.Marshal fails) *)
Definition action_body (a : action) : option bytes :=
  match a with
  | AReply cont p => option_map (fun ps => encode_reply ps cont []) (enc_params p)
  | AReplyError name p => option_map (fun ps => encode_reply ps false name) (enc_params p)
  | AStdError k arg => Some (encode_reply (Some (std_params k arg)) false (std_name k))
  end.

Definition attempt_bytes (c : call) (att : attempt) : bytes :=
  if c_oneway c then []
  else match at_result att with
       | ResOk => match action_body (at_action att) with Some bd => frame bd | None => [] end
       | _ => []
       end.

Lemma concat_bytes_app : forall l1 l2,
  concat_bytes (l1 ++ l2) = concat_bytes l1 ++ concat_bytes l2.
Proof.
  induction l1 as [|x l1 IH]; intro l2; cbn [concat_bytes app]; [reflexivity|].
  rewrite IH, app_assoc. reflexivity.
Qed.

(* ---------- send_message ---------- *)

Lemma send_message_out : forall c body w r w',
  send_message c body w = (r, w') ->
  w_out w' = w_out w ++
    (if c_oneway c then []
     else match r with ResOk => match body with Some bd => frame bd | None => [] end | _ => [] end).
Proof.
  intros c body w r w' H. unfold send_message in H.
  destruct (c_oneway c).
  - inversion H; subst. rewrite app_nil_r. reflexivity.
  - destruct body as [bd|].
    + destruct (w_left w) as [[|k]|]; inversion H; subst; cbn [w_out];
        try reflexivity; rewrite app_nil_r; reflexivity.
    + inversion H; subst. rewrite app_nil_r. reflexivity.
Qed.

Lemma send_message_left_none : forall c body w r w',
  w_left w = None -> send_message c body w = (r, w') -> w_left w' = None.
Proof.
  intros c body w r w' Hl H. unfold send_message in H.
  destruct (c_oneway c); [inversion H; subst; exact Hl|].
  destruct body as [bd|]; [|inversion H; subst; exact Hl].
  rewrite Hl in H. inversion H; subst. reflexivity.
Qed.

Lemma send_message_fail : forall c body w,
  fst (send_message c body w) <> ResOk -> snd (send_message c body w) = w.
Proof.
  intros c body w H. unfold send_message in *.
  destruct (c_oneway c); [reflexivity|].
  destruct body as [bd|]; [|reflexivity].
  destruct (w_left w) as [[|k]|]; cbn [fst snd] in *; try reflexivity; congruence.
Qed.

Lemma send_message_not_refused : forall c body w,
  fst (send_message c body w) <> ResRefused.
Proof.
  intros c body w. unfold send_message.
  destruct (c_oneway c); [cbn; discriminate|].
  destruct body as [bd|]; [|cbn; discriminate].
  destruct (w_left w) as [[|k]|]; cbn; discriminate.
Qed.

(* ---------- do_action ---------- *)

Lemma do_action_out : forall c a w r w',
  do_action c a w = (r, w') -> w_out w' = w_out w ++ attempt_bytes c (mkAtt a r).
Proof.
  intros c a w r w' H. unfold attempt_bytes. cbn [at_result at_action].
  destruct a as [cont p|name p|k arg]; cbn [do_action action_body] in *.
  - destruct cont.
    + destruct (c_more c).
      * exact (send_message_out _ _ _ _ _ H).
      * inversion H; subst. destruct (c_oneway c); rewrite app_nil_r; reflexivity.
    + exact (send_message_out _ _ _ _ _ H).
  - destruct (error_name_ok name).
    + exact (send_message_out _ _ _ _ _ H).
    + inversion H; subst. destruct (c_oneway c); rewrite app_nil_r; reflexivity.
  - exact (send_message_out _ _ _ _ _ H).
Qed.

Lemma do_action_left_none : forall c a w r w',
  w_left w = None -> do_action c a w = (r, w') -> w_left w' = None.
Proof.
  intros c a w r w' Hl H.
  destruct a as [cont p|name p|k arg]; cbn [do_action] in H.
  - destruct cont; [destruct (c_more c)|].
    + exact (send_message_left_none _ _ _ _ _ Hl H).
    + inversion H; subst; exact Hl.
    + exact (send_message_left_none _ _ _ _ _ Hl H).
  - destruct (error_name_ok name).
    + exact (send_message_left_none _ _ _ _ _ Hl H).
    + inversion H; subst; exact Hl.
  - exact (send_message_left_none _ _ _ _ _ Hl H).
Qed.

(* ---------- run_hprog ---------- *)

Lemma run_hprog_ret : forall c e w log, run_hprog c (Ret e) w log = (e, w, rev log).
Proof. reflexivity. Qed.

Lemma run_hprog_do : forall c a k w log,
  run_hprog c (Do a k) w log =
  run_hprog c (k (fst (do_action c a w))) (snd (do_action c a w))
            (mkAtt a (fst (do_action c a w)) :: log).
Proof.
  intros c a k w log. cbn [run_hprog].
  destruct (do_action c a w) as [r w']. reflexivity.
Qed.

Lemma run_hprog_inv : forall c h w log e w' atts,
  run_hprog c h w log = (e, w', atts) ->
  exists news, atts = rev log ++ news /\
    w_out w' = w_out w ++ concat_bytes (map (attempt_bytes c) news) /\
    (w_left w = None -> w_left w' = None).
Proof.
  intros c h. induction h as [err|a k IH]; intros w log e w' atts H.
  - rewrite run_hprog_ret in H. inversion H; subst.
    exists []. cbn [map concat_bytes]. rewrite !app_nil_r. auto.
  - rewrite run_hprog_do in H.
    destruct (do_action c a w) as [r w1] eqn:Ea. cbn [fst snd] in H.
    destruct (IH r w1 _ e w' atts H) as (news & Hat & Hout & Hl).
    exists (mkAtt a r :: news). split; [|split].
    + rewrite Hat. cbn [rev]. rewrite <- app_assoc. reflexivity.
    + rewrite Hout, (do_action_out _ _ _ _ _ Ea). cbn [map concat_bytes].
      rewrite <- app_assoc. reflexivity.
    + intro Hw. apply Hl. exact (do_action_left_none _ _ _ _ _ Hw Ea).
Qed.

Lemma skipn_length_app : forall (A : Type) (l1 l2 : list A), skipn (length l1) (l1 ++ l2) = l2.
Proof. induction l1 as [|x l1 IH]; intro l2; cbn [length skipn app]; auto. Qed.

(* the hypothesis on w_left is not needed: a failed write is a non-ResOk attempt *)
Theorem run_hprog_output_gen : forall c h w log,
  let '(e, w', atts) := run_hprog c h w log in
  w_out w' = w_out w ++ concat_bytes (map (attempt_bytes c) (skipn (length log) atts)).
Proof.
  intros c h w log. destruct (run_hprog c h w log) as [[e w'] atts] eqn:E.
  destruct (run_hprog_inv _ _ _ _ _ _ _ E) as (news & Hat & Hout & _).
  rewrite Hat, <- rev_length, skipn_length_app. exact Hout.
Qed.
Print Assumptions run_hprog_output_gen.

Theorem run_hprog_output : forall c h w log, w_left w = None ->
  let '(e, w', atts) := run_hprog c h w log in
  w_out w' = w_out w ++ concat_bytes (map (attempt_bytes c) (skipn (length log) atts)).
Proof. intros c h w log _. exact (run_hprog_output_gen c h w log). Qed.
Print Assumptions run_hprog_output.

Corollary run_hprog_output_nil : forall c h w e w' atts,
  run_hprog c h w [] = (e, w', atts) ->
  w_out w' = w_out w ++ concat_bytes (map (attempt_bytes c) atts).
Proof.
  intros c h w e w' atts H. pose proof (run_hprog_output_gen c h w []) as G.
  rewrite H in G. exact G.
Qed.

Lemma run_hprog_left_none : forall c h w log e w' atts,
  w_left w = None -> run_hprog c h w log = (e, w', atts) -> w_left w' = None.
Proof.
  intros c h w log e w' atts Hl H.
  destruct (run_hprog_inv _ _ _ _ _ _ _ H) as (_ & _ & _ & G). exact (G Hl).
Qed.

(* ---------- handle_call ---------- *)

Definition prog_of (reg : registry) (hs : handlers) (c : call) : disp * hprog :=
  match route reg (c_method c) with
  | RInvalidMethod => (DInvalidMethod, builtin_prog (BStd EInvalidParameter s_method))
  | RBuiltin m => (DBuiltin m, builtin_prog (builtin reg c m))
  | RNoInterface i => (DNoInterface i, builtin_prog (BStd EInterfaceNotFound i))
  | RDispatch i m => (DHandler i m, hs i m c)
  end.

Lemma handle_call_eq : forall reg hs c w,
  handle_call reg hs c w =
  (let '(e, w', atts) := run_hprog c (snd (prog_of reg hs c)) w [] in
   (e, w', mkEntry c (fst (prog_of reg hs c)) atts e)).
Proof.
  intros reg hs c w. unfold handle_call, prog_of.
  destruct (route reg (c_method c)); reflexivity.
Qed.

Lemma handle_call_inv : forall reg hs c w e w' en,
  handle_call reg hs c w = (e, w', en) ->
  e_call en = c /\ e_err en = e /\ e_disp en = fst (prog_of reg hs c) /\
  run_hprog c (snd (prog_of reg hs c)) w [] = (e, w', e_attempts en).
Proof.
  intros reg hs c w e w' en H. rewrite handle_call_eq in H.
  destruct (run_hprog c (snd (prog_of reg hs c)) w []) as [[e0 w0] atts] eqn:E.
  inversion H; subst. cbn. auto.
Qed.

Lemma oneway_attempt_bytes : forall c atts, c_oneway c = true ->
  concat_bytes (map (attempt_bytes c) atts) = [].
Proof.
  intros c atts H. induction atts as [|a atts IH]; cbn [map concat_bytes]; [reflexivity|].
  rewrite IH. unfold attempt_bytes. rewrite H. reflexivity.
Qed.

Theorem oneway_silent : forall reg hs c w, c_oneway c = true ->
  let '(e, w', en) := handle_call reg hs c w in w_out w' = w_out w.
Proof.
  intros reg hs c w Ho. destruct (handle_call reg hs c w) as [[e w'] en] eqn:E.
  destruct (handle_call_inv _ _ _ _ _ _ _ E) as (_ & _ & _ & Hr).
  rewrite (run_hprog_output_nil _ _ _ _ _ _ Hr), (oneway_attempt_bytes _ _ Ho).
  apply app_nil_r.
Qed.
Print Assumptions oneway_silent.

(* ---------- the remaining per-action facts ---------- *)

Theorem continues_needs_more : forall c p w, c_more c = false ->
  do_action c (AReply true p) w = (ResRefused, w).
Proof. intros c p w H. cbn [do_action]. rewrite H. reflexivity. Qed.
Print Assumptions continues_needs_more.

Theorem failed_attempt_writes_nothing : forall c a w,
  fst (do_action c a w) <> ResOk -> snd (do_action c a w) = w.
Proof.
  intros c a w H.
  destruct a as [cont p|name p|k arg]; cbn [do_action] in *.
  - destruct cont; [destruct (c_more c)|]; try reflexivity;
      apply send_message_fail; exact H.
  - destruct (error_name_ok name); [|reflexivity]. apply send_message_fail; exact H.
  - apply send_message_fail; exact H.
Qed.
Print Assumptions failed_attempt_writes_nothing.

Theorem reply_error_accept_iff : forall c name p w,
  fst (do_action c (AReplyError name p) w) = ResRefused <-> error_name_ok name = false.
Proof.
  intros c name p w. cbn [do_action].
  destruct (error_name_ok name); split; intro H; try reflexivity; try discriminate.
  exfalso. exact (send_message_not_refused _ _ _ H).
Qed.
Print Assumptions reply_error_accept_iff.

Theorem error_name_ok_iff : forall name,
  error_name_ok name = true <->
  exists r, last_index_of 46 name = Some (S r) /\ firstn (S r) name <> org_varlink_service.
Proof.
  intro name. unfold error_name_ok.
  destruct (last_index_of 46 name) as [[|r]|]; split; intro H;
    try discriminate; try (destruct H as (r0 & H0 & _); discriminate).
  - exists r. split; [reflexivity|].
    apply negb_true_iff, bytes_eqb_neq in H. exact H.
  - destruct H as (r0 & H0 & Hn). inversion H0; subst r0.
    apply negb_true_iff, bytes_eqb_neq. exact Hn.
Qed.
Print Assumptions error_name_ok_iff.

(* a refused or failed attempt contributes no bytes; an accepted one exactly one frame *)
Lemma attempt_bytes_ok_frame : forall c a w w',
  c_oneway c = false -> do_action c a w = (ResOk, w') ->
  exists bd, action_body a = Some bd /\ attempt_bytes c (mkAtt a ResOk) = frame bd.
Proof.
  intros c a w w' Ho H. unfold attempt_bytes. rewrite Ho. cbn [at_result at_action].
  assert (G : forall body, send_message c body w = (ResOk, w') -> exists bd, body = Some bd).
  { intros body Hs. unfold send_message in Hs. rewrite Ho in Hs.
    destruct body as [bd|]; [exists bd; reflexivity|discriminate]. }
  destruct a as [cont p|name p|k arg]; cbn [do_action action_body] in *.
  - destruct cont; [destruct (c_more c); [|discriminate]|];
      destruct (G _ H) as (bd & Hb); rewrite Hb; exists bd; auto.
  - destruct (error_name_ok name); [|discriminate].
    destruct (G _ H) as (bd & Hb); rewrite Hb; exists bd; auto.
  - eexists; split; reflexivity.
Qed.

(* ---------- non-vacuity ---------- *)
Module ExA.
Import String.
Definition exA_call (ow mo : bool) : call := mkCall (b "org.example.ping.Ping"%string) None mo ow false.
Definition exA_prog : hprog :=
  Do (AReply true PNone) (fun r1 =>
  Do (AReplyError (b "org.varlink.service.Nope"%string) PNone) (fun r2 =>
  Do (AReply false (PEnc (b "{}"%string))) (fun r3 => Ret (is_error r3)))).

Example exA_refusals_then_one_frame :
  run_hprog (exA_call false false) exA_prog (mkW [] None) [] =
  (false, mkW (frame (b "{""parameters"":{}}"%string)) None,
   [mkAtt (AReply true PNone) ResRefused;
    mkAtt (AReplyError (b "org.varlink.service.Nope"%string) PNone) ResRefused;
    mkAtt (AReply false (PEnc (b "{}"%string))) ResOk]).
Proof. vm_compute. reflexivity. Qed.

Example exA_oneway_writes_nothing :
  let '(e, w', atts) := run_hprog (exA_call true true) exA_prog (mkW [] None) [] in
  w_out w' = [] /\ map at_result atts = [ResOk; ResRefused; ResOk].
Proof. vm_compute. split; reflexivity. Qed.

Example exA_write_failure :
  run_hprog (exA_call false true) exA_prog (mkW [] (Some 1%nat)) [] =
  (true, mkW (frame (b "{""continues"":true}"%string)) (Some 0%nat),
   [mkAtt (AReply true PNone) ResOk;
    mkAtt (AReplyError (b "org.varlink.service.Nope"%string) PNone) ResRefused;
    mkAtt (AReply false (PEnc (b "{}"%string))) ResWriteFailed]).
Proof. vm_compute. reflexivity. Qed.
End ExA.
