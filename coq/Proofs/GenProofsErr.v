(* Proofs/GenProofsErr.v — theorems about peel_error (Model/Gen.v), the model of the
   generator's errorType: the type declared for `error E t` is never a Go pointer type,
   the fuel error_type_fuel is never exhausted, and a type that is not a pointer type is
   left alone (or replaced by the empty struct on an alias cycle). *)
From VL Require Import Bytes Lit Idl Gen.
From Coq Require Import List Lia Bool Arith.
Import ListNotations.
Open Scope N_scope.

(* the Go type declared for t is a pointer type: an optional, possibly behind aliases
   (least fixed point: alias cycles without an optional are not pointers) *)
Inductive Ptr (ms : list member) : ty -> Prop :=
| Ptr_maybe : forall e, Ptr ms (TMaybe e)
| Ptr_alias : forall n a, lookup_alias n ms = Some a -> Ptr ms a -> Ptr ms (TAlias n).

(* ---------- lookup_alias ---------- *)

Lemma lookup_alias_snoc : forall n ms m,
  lookup_alias n (ms ++ [m]) =
  match m with
  | MAlias n' _ t => if bytes_eqb n' n then Some t else lookup_alias n ms
  | _ => lookup_alias n ms
  end.
Proof.
  intros n ms m. unfold lookup_alias. rewrite fold_left_app. simpl.
  destruct m; reflexivity.
Qed.

Lemma lookup_alias_In : forall n ms a,
  lookup_alias n ms = Some a -> exists doc, In (MAlias n doc a) ms.
Proof.
  intros n ms. induction ms as [|m ms IH] using rev_ind; intros a H.
  - discriminate H.
  - rewrite lookup_alias_snoc in H.
    assert (Hrec : lookup_alias n ms = Some a -> exists doc, In (MAlias n doc a) (ms ++ [m])).
    { intro H'. destruct (IH a H') as [doc Hd]. exists doc. apply in_or_app. left. exact Hd. }
    destruct m as [n' doc' t'|n' doc' i o|n' doc' t']; try (apply Hrec; exact H).
    destruct (bytes_eqb n' n) eqn:E.
    + apply bytes_eqb_eq in E. subst n'. injection H as H. subst t'.
      exists doc'. apply in_or_app. right. left. reflexivity.
    + apply Hrec; exact H.
Qed.

(* ---------- the measure ---------- *)

(* what the alias declarations not yet visited can still contribute *)
Definition remaining (seen : list bytes) (ms : list member) : nat :=
  fold_right (fun m acc =>
    match m with
    | MAlias n _ t => if existsb (bytes_eqb n) seen then acc else (S (maybe_depth t) + acc)%nat
    | _ => acc
    end) O ms.

Lemma remaining_nil : forall ms, remaining [] ms = alias_depths ms.
Proof.
  induction ms as [|m ms IH]; [reflexivity|].
  unfold remaining, alias_depths in *. simpl. destruct m; simpl; rewrite ?IH; reflexivity.
Qed.

Lemma remaining_mono : forall n seen ms, (remaining (n :: seen) ms <= remaining seen ms)%nat.
Proof.
  intros n seen ms. induction ms as [|m ms IH]; [apply le_n|].
  unfold remaining in *. simpl. destruct m as [n' doc' t'| |]; try exact IH.
  destruct (bytes_eqb n' n); simpl; destruct (existsb (bytes_eqb n') seen); lia.
Qed.

Lemma remaining_step : forall n doc a seen ms,
  In (MAlias n doc a) ms -> existsb (bytes_eqb n) seen = false ->
  (S (maybe_depth a) + remaining (n :: seen) ms <= remaining seen ms)%nat.
Proof.
  intros n doc a seen ms. induction ms as [|m ms IH]; intros Hin Hs; [destruct Hin|].
  destruct Hin as [Heq|Hin].
  - subst m. pose proof (remaining_mono n seen ms) as Hm.
    unfold remaining in *. simpl. rewrite bytes_eqb_refl. simpl. rewrite Hs. lia.
  - specialize (IH Hin Hs). unfold remaining in *. simpl.
    destruct m as [n' doc' t'| |]; try exact IH.
    destruct (bytes_eqb n' n); simpl; destruct (existsb (bytes_eqb n') seen); lia.
Qed.

Definition mu (ms : list member) (seen : list bytes) (u : ty) : nat :=
  (maybe_depth u + remaining seen ms)%nat.

Lemma mu_maybe : forall ms seen e, (mu ms seen e < mu ms seen (TMaybe e))%nat.
Proof. intros. unfold mu. simpl. lia. Qed.

Lemma mu_alias : forall ms seen n a,
  existsb (bytes_eqb n) seen = false -> lookup_alias n ms = Some a ->
  (mu ms (n :: seen) a < mu ms seen (TAlias n))%nat.
Proof.
  intros ms seen n a Hs Hl. destruct (lookup_alias_In _ _ _ Hl) as [doc Hin].
  pose proof (remaining_step n doc a seen ms Hin Hs). unfold mu. simpl. lia.
Qed.

Lemma mu_fuel : forall ms t, (mu ms [] t < error_type_fuel ms t)%nat.
Proof. intros. unfold mu, error_type_fuel. rewrite remaining_nil. lia. Qed.
