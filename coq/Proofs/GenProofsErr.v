(* Proofs/GenProofsErr.v — theorems about peel_error (Model/Gen.v), the model of the
   generator's errorType: the type declared for `error E t` is never a Go pointer type,
   the fuel error_type_fuel is never exhausted, and a type that is not a pointer type is
   left alone (or replaced by the empty struct on an alias cycle). *)
From VL Require Import Bytes Lit Idl Gen.
From Coq Require Import List Lia Bool Arith.
Import ListNotations.
Open Scope N_scope.

(* the Go type declared for t is a pointer type: an optional, possibly behind aliases
   (least fixed point: alias cycles without an optional are not pointers) *)
Inductive Ptr (ms : list member) : ty -> Prop :=
| Ptr_maybe : forall e, Ptr ms (TMaybe e)
| Ptr_alias : forall n a, lookup_alias n ms = Some a -> Ptr ms a -> Ptr ms (TAlias n).

(* ---------- lookup_alias ---------- *)

Lemma lookup_alias_snoc : forall n ms m,
  lookup_alias n (ms ++ [m]) =
  match m with
  | MAlias n' _ t => if bytes_eqb n' n then Some t else lookup_alias n ms
  | _ => lookup_alias n ms
  end.
Proof.
  intros n ms m. unfold lookup_alias. rewrite fold_left_app. simpl.
  destruct m; reflexivity.
Qed.

Lemma lookup_alias_In : forall n ms a,
  lookup_alias n ms = Some a -> exists doc, In (MAlias n doc a) ms.
Proof.
  intros n ms. induction ms as [|m ms IH] using rev_ind; intros a H.
  - discriminate H.
  - rewrite lookup_alias_snoc in H.
    assert (Hrec : lookup_alias n ms = Some a -> exists doc, In (MAlias n doc a) (ms ++ [m])).
    { intro H'. destruct (IH a H') as [doc Hd]. exists doc. apply in_or_app. left. exact Hd. }
    destruct m as [n' doc' t'|n' doc' i o|n' doc' t']; try (apply Hrec; exact H).
    destruct (bytes_eqb n' n) eqn:E.
    + apply bytes_eqb_eq in E. subst n'. injection H as H. subst t'.
      exists doc'. apply in_or_app. right. left. reflexivity.
    + apply Hrec; exact H.
Qed.

(* ---------- the measure ---------- *)

(* what the alias declarations not yet visited can still contribute *)
Definition remaining (seen : list bytes) (ms : list member) : nat :=
  fold_right (fun m acc =>
    match m with
    | MAlias n _ t => if existsb (bytes_eqb n) seen then acc else (S (maybe_depth t) + acc)%nat
    | _ => acc
    end) O ms.

Lemma remaining_cons : forall seen m ms,
  remaining seen (m :: ms) =
  match m with
  | MAlias n _ t => if existsb (bytes_eqb n) seen then remaining seen ms
                    else (S (maybe_depth t) + remaining seen ms)%nat
  | _ => remaining seen ms
  end.
Proof. intros. destruct m; reflexivity. Qed.

Lemma remaining_nil : forall ms, remaining [] ms = alias_depths ms.
Proof.
  induction ms as [|m ms IH]; [reflexivity|].
  rewrite remaining_cons. unfold alias_depths in *. simpl.
  destruct m; simpl; rewrite ?IH; reflexivity.
Qed.

Lemma remaining_mono : forall n seen ms, (remaining (n :: seen) ms <= remaining seen ms)%nat.
Proof.
  intros n seen ms. induction ms as [|m ms IH]; [apply le_n|].
  rewrite !remaining_cons. destruct m as [n' doc' t'| |]; try exact IH.
  simpl existsb.
  destruct (bytes_eqb n' n); simpl; destruct (existsb (bytes_eqb n') seen); lia.
Qed.

Lemma remaining_step : forall n doc a seen ms,
  In (MAlias n doc a) ms -> existsb (bytes_eqb n) seen = false ->
  (S (maybe_depth a) + remaining (n :: seen) ms <= remaining seen ms)%nat.
Proof.
  intros n doc a seen ms. induction ms as [|m ms IH]; intros Hin Hs; [destruct Hin|].
  destruct Hin as [Heq|Hin].
  - subst m. pose proof (remaining_mono n seen ms) as Hm.
    rewrite !remaining_cons. simpl existsb. rewrite bytes_eqb_refl. simpl. rewrite Hs. lia.
  - specialize (IH Hin Hs). rewrite !remaining_cons.
    destruct m as [n' doc' t'| |]; try exact IH.
    simpl existsb.
    destruct (bytes_eqb n' n); simpl; destruct (existsb (bytes_eqb n') seen); lia.
Qed.

Definition mu (ms : list member) (seen : list bytes) (u : ty) : nat :=
  (maybe_depth u + remaining seen ms)%nat.

Lemma mu_maybe : forall ms seen e, (mu ms seen e < mu ms seen (TMaybe e))%nat.
Proof. intros. unfold mu. simpl. lia. Qed.

Lemma mu_alias : forall ms seen n a,
  existsb (bytes_eqb n) seen = false -> lookup_alias n ms = Some a ->
  (mu ms (n :: seen) a < mu ms seen (TAlias n))%nat.
Proof.
  intros ms seen n a Hs Hl. destruct (lookup_alias_In _ _ _ Hl) as [doc Hin].
  pose proof (remaining_step n doc a seen ms Hin Hs). unfold mu. simpl. lia.
Qed.

Lemma mu_fuel : forall ms t, (mu ms [] t < error_type_fuel ms t)%nat.
Proof. intros. unfold mu, error_type_fuel. rewrite remaining_nil. lia. Qed.

(* ---------- 1. the fuel is never exhausted ---------- *)

Lemma peel_error_stable : forall ms fuel seen t u k,
  (mu ms seen u < fuel)%nat ->
  peel_error (fuel + k) ms seen t u = peel_error fuel ms seen t u.
Proof.
  intros ms fuel. induction fuel as [|f IH]; intros seen t u k Hmu; [lia|].
  simpl. destruct u as [| | | | |e|e|e|n|fs|ns]; try reflexivity.
  - apply IH. pose proof (mu_maybe ms seen e). lia.
  - destruct (existsb (bytes_eqb n) seen) eqn:Hs; [reflexivity|].
    destruct (lookup_alias n ms) as [a|] eqn:Hl; [|reflexivity].
    apply IH. pose proof (mu_alias ms seen n a Hs Hl). lia.
Qed.

Theorem peel_error_fuel_enough : forall ms t k,
  peel_error (error_type_fuel ms t + k) ms [] t t = peel_error (error_type_fuel ms t) ms [] t t.
Proof. intros ms t k. apply peel_error_stable. apply mu_fuel. Qed.

(* ---------- 2. the declared type is never a pointer type ---------- *)

Lemma peel_error_not_pointer_gen : forall ms fuel seen t u,
  (mu ms seen u < fuel)%nat -> (Ptr ms t -> Ptr ms u) ->
  ~ Ptr ms (peel_error fuel ms seen t u).
Proof.
  intros ms fuel. induction fuel as [|f IH]; intros seen t u Hmu Hinv; [lia|].
  simpl. destruct u as [| | | | |e|e|e|n|fs|ns];
    try (intro Hp; apply Hinv in Hp; inversion Hp; fail).
  - apply IH; [|tauto]. pose proof (mu_maybe ms seen e). lia.
  - destruct (existsb (bytes_eqb n) seen) eqn:Hs; [intro Hp; inversion Hp|].
    destruct (lookup_alias n ms) as [a|] eqn:Hl.
    + apply IH.
      * pose proof (mu_alias ms seen n a Hs Hl). lia.
      * intro Hp. apply Hinv in Hp. inversion Hp as [|n' a' Hl' Hpa]. subst n'.
        rewrite Hl in Hl'. injection Hl' as Hl'. subst a'. exact Hpa.
    + intro Hp. apply Hinv in Hp. inversion Hp as [|n' a' Hl' Hpa]. subst n'.
      rewrite Hl in Hl'. discriminate Hl'.
Qed.

Theorem peel_error_not_pointer : forall ms t,
  ~ Ptr ms (peel_error (error_type_fuel ms t) ms [] t t).
Proof. intros ms t. apply peel_error_not_pointer_gen; [apply mu_fuel|tauto]. Qed.

(* ---------- 3. a type that is not a pointer type is left alone ---------- *)

Lemma peel_error_id_gen : forall ms fuel seen t u,
  ~ Ptr ms u ->
  peel_error fuel ms seen t u = t \/ peel_error fuel ms seen t u = TStruct [].
Proof.
  intros ms fuel. induction fuel as [|f IH]; intros seen t u Hnp; [left; reflexivity|].
  simpl. destruct u as [| | | | |e|e|e|n|fs|ns]; try (left; reflexivity).
  - exfalso. apply Hnp. constructor.
  - destruct (existsb (bytes_eqb n) seen) eqn:Hs; [right; reflexivity|].
    destruct (lookup_alias n ms) as [a|] eqn:Hl; [|left; reflexivity].
    apply IH. intro Hp. apply Hnp. exact (Ptr_alias ms n a Hl Hp).
Qed.

Theorem peel_error_id : forall ms t, ~ Ptr ms t ->
  peel_error (error_type_fuel ms t) ms [] t t = t \/ peel_error (error_type_fuel ms t) ms [] t t = TStruct [].
Proof. intros ms t Hnp. apply peel_error_id_gen. exact Hnp. Qed.

(* ---------- 3'. exactly when the empty struct is substituted ---------- *)

(* walking from u through alias bodies comes back to an alias already visited *)
Inductive Revisits (ms : list member) : list bytes -> ty -> Prop :=
| Rev_hit : forall seen n, In n seen -> Revisits ms seen (TAlias n)
| Rev_step : forall seen n a, ~ In n seen -> lookup_alias n ms = Some a ->
    Revisits ms (n :: seen) a -> Revisits ms seen (TAlias n).

Lemma existsb_bytes_In : forall n seen, existsb (bytes_eqb n) seen = true <-> In n seen.
Proof.
  intros n seen. rewrite existsb_exists. split.
  - intros (x & Hin & E). apply bytes_eqb_eq in E. subst x. exact Hin.
  - intro Hin. exists n. split; [exact Hin|apply bytes_eqb_refl].
Qed.

Lemma existsb_bytes_notIn : forall n seen, existsb (bytes_eqb n) seen = false <-> ~ In n seen.
Proof.
  intros n seen. rewrite <- existsb_bytes_In. destruct (existsb (bytes_eqb n) seen); split; intro H;
    try reflexivity; try discriminate; try (intro H'; discriminate H').
  exfalso. apply H. reflexivity.
Qed.

Lemma peel_error_id_sharp_gen : forall ms fuel seen t u,
  (mu ms seen u < fuel)%nat -> ~ Ptr ms u ->
  (Revisits ms seen u -> peel_error fuel ms seen t u = TStruct []) /\
  (~ Revisits ms seen u -> peel_error fuel ms seen t u = t).
Proof.
  intros ms fuel. induction fuel as [|f IH]; intros seen t u Hmu Hnp; [lia|].
  simpl. destruct u as [| | | | |e|e|e|n|fs|ns];
    try (split; [intro Hr; inversion Hr|intros _; reflexivity]).
  - exfalso. apply Hnp. constructor.
  - destruct (existsb (bytes_eqb n) seen) eqn:Hs.
    + split; [reflexivity|]. intro Hnr. exfalso. apply Hnr. apply Rev_hit.
      apply existsb_bytes_In. exact Hs.
    + assert (Hnin : ~ In n seen) by (apply existsb_bytes_notIn; exact Hs).
      destruct (lookup_alias n ms) as [a|] eqn:Hl.
      * assert (Hmu' : (mu ms (n :: seen) a < f)%nat)
          by (pose proof (mu_alias ms seen n a Hs Hl); lia).
        assert (Hnp' : ~ Ptr ms a)
          by (intro Hp; apply Hnp; exact (Ptr_alias ms n a Hl Hp)).
        destruct (IH (n :: seen) t a Hmu' Hnp') as [IH1 IH2]. split.
        -- intro Hr. apply IH1. inversion Hr as [s' n' Hin|s' n' a' _ Hl' Hr']; subst.
           ++ contradiction.
           ++ rewrite Hl in Hl'. injection Hl' as Hl'. subst a'. exact Hr'.
        -- intro Hnr. apply IH2. intro Hr'. apply Hnr. exact (Rev_step ms seen n a Hnin Hl Hr').
      * split; [|intros _; reflexivity].
        intro Hr. inversion Hr as [s' n' Hin|s' n' a' _ Hl' Hr']; subst.
        -- contradiction.
        -- rewrite Hl in Hl'. discriminate Hl'.
Qed.

(* a non-pointer type becomes the empty struct exactly when the walk from it revisits an
   alias (type T U; type U T; error E T), and is otherwise declared as it stands *)
Theorem peel_error_id_sharp : forall ms t, ~ Ptr ms t ->
  (Revisits ms [] t -> peel_error (error_type_fuel ms t) ms [] t t = TStruct []) /\
  (~ Revisits ms [] t -> peel_error (error_type_fuel ms t) ms [] t t = t).
Proof. intros ms t Hnp. apply peel_error_id_sharp_gen; [apply mu_fuel|exact Hnp]. Qed.

Print Assumptions peel_error_fuel_enough.
Print Assumptions peel_error_not_pointer.
Print Assumptions peel_error_id.
Print Assumptions peel_error_id_sharp.
