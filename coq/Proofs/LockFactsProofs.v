(* Proofs/LockFactsProofs.v — what the computed check lock_facts_ok says about the regenerated table of calls. *)
From Coq Require Import List Bool.
From VL Require Import Bytes Access LockFacts.
Import ListNotations.

(* no call that runs a handler or may block on a peer is made with the service mutex held, and the handler dispatch is among the calls seen *)
Theorem lock_facts_sound : forall l, lock_facts_ok l = true ->
  (forall a, In a l -> a_locked a = false) /\ exists a, In a l /\ a_field a = f_VarlinkDispatch.
Proof.
  intros l H. unfold lock_facts_ok in H. apply andb_true_iff in H. destruct H as [Hc Hd]. split.
  - intros a Hin. unfold callouts_ok in Hc. rewrite forallb_forall in Hc. specialize (Hc a Hin).
    apply negb_true_iff in Hc. exact Hc.
  - unfold dispatch_seen in Hd. apply existsb_exists in Hd. destruct Hd as (a & Hin & He).
    exists a. split; [exact Hin|]. apply bytes_eqb_eq. exact He.
Qed.

Theorem handler_writes_sound : forall t, handler_writes_ok t = true ->
  forall a, In a t -> handler_write a = true -> a_locked a = true.
Proof.
  intros t H a Hin Hw. unfold handler_writes_ok in H. rewrite forallb_forall in H. specialize (H a Hin).
  rewrite Hw in H. exact H.
Qed.
Print Assumptions handler_writes_sound.

(* satisfiable, and not trivially so *)
Example lock_facts_example_ok :
  lock_facts_ok [mkAcc [72]%N f_VarlinkDispatch AR false; mkAcc [72]%N [82]%N AR false] = true.
Proof. reflexivity. Qed.
Example lock_facts_example_locked_dispatch :
  lock_facts_ok [mkAcc [72]%N f_VarlinkDispatch AR true] = false.
Proof. reflexivity. Qed.

Print Assumptions lock_facts_sound.
