(* Proofs/IdlTotal.v — the cursor-faithful parser model never reaches a Go
   slice panic and never runs out of fuel (C09, model side).

   Every reader, started on a good cursor (over = 0, pos = |bef|) whose
   remaining input is shorter than the fuel(s) it is given, either fails
   cleanly (RNil) or returns a good cursor whose remaining input is not
   longer than before.  RPanic and RFuel are unreachable. *)
From VL Require Import Bytes Lit Idl IdlCursor.
From Coq Require Import Lia ZArith.
Open Scope N_scope.

(* the postcondition of every reader: a good cursor, at most n bytes left *)
Definition left_le {A : Type} (n : nat) : A -> pst -> Prop := fun _ s' => gq n s'.

Lemma post_left_mono : forall (A : Type) (r : res A) n m,
  post r (left_le n) -> (n <= m)%nat -> post r (left_le m).
Proof.
  intros A r n m H Hle. eapply post_mono; [exact H|].
  intros a s G. unfold left_le in *. eapply gq_mono; [exact G|exact Hle].
Qed.

(* ------------------------------------------------------------------ *)
(** * read_type / read_fields *)

Definition T_type (fuel : nat) : Prop :=
  forall F b r l, (length r < fuel)%nat -> (length r < F)%nat ->
    post (read_type fuel F (mkPst (gc b r) l)) (left_le (length r)).

Definition T_fields (fuel : nat) : Prop :=
  forall F m tf ef b r l, (length r < fuel)%nat -> (length r < F)%nat ->
    post (read_fields fuel F m tf ef (mkPst (gc b r) l)) (left_le (length r)).

Lemma after_field_total : forall f, T_fields f ->
  forall F m' tf' ef' b r l n,
    (length r <= f)%nat -> (length r < F)%nat -> (length r <= n)%nat ->
    post (after_field f F m' tf' ef' (mkPst (gc b r) l)) (left_le n).
Proof.
  intros f HT F m' tf' ef' b r l n Hf HF Hn. unfold after_field.
  destruct (advance_gc F b r l HF) as (b6 & r6 & l6 & E6 & L6 & _).
  rewrite E6. cbn [bind cu lc].
  destruct r6 as [|x r7]; [rewrite next_gc_nil; exact I|].
  rewrite next_gc_cons. cbv beta iota. rewrite m44_41. cbn [length] in L6.
  destruct (N.eqb_spec x 44) as [->|N44].
  - eapply post_left_mono; [apply HT; lia|lia].
  - destruct (N.eqb_spec x 41) as [->|N41]; [|exact I].
    cbn [post]. apply gq_intro. lia.
Qed.

Lemma types_total : forall fuel, T_type fuel /\ T_fields fuel.
Proof.
  induction fuel as [|f [IHt IHf]].
  { split; [intros F b r l H; lia|intros F m tf ef b r l H; lia]. }
  split.
  - (* read_type *)
    intros F b r l Hf HF. rewrite read_type_S. cbn [cu lc].
    destruct r as [|x r1].
    + (* end of input *)
      rewrite next_gc_nil. cbv beta iota zeta. rewrite backup_oc.
      unfold read_keyword, read_type_name. rewrite read_span_gc by exact HF.
      cbn [take_while drop_while rev app bind].
      rewrite read_span_gc by exact HF.
      cbn [take_while drop_while rev app bind cu lc].
      rewrite next_gc_nil. exact I.
    + rewrite next_gc_cons. cbv beta iota zeta. rewrite m63_91. cbn [length] in Hf, HF.
      destruct (N.eqb_spec x 63) as [->|N63]; [|destruct (N.eqb_spec x 91) as [->|N91]].
      * (* ?T *)
        eapply post_bind; [apply IHt; lia|].
        intros e s2 G. destruct (is_maybe e); [exact I|]. cbn [post].
        eapply gq_mono; [exact G|cbn [length]; lia].
      * (* [...]T *)
        destruct (read_keyword_ex F (91 :: b) r1 l ltac:(lia)) as (w & r2 & E & Er & C & Len).
        rewrite E. cbn [bind cu lc].
        match goal with
        | |- post (match ?mk with Some _ => _ | None => _ end) _ => destruct mk as [con|]
        end; [|exact I].
        destruct r2 as [|y r3]; [rewrite next_gc_nil; exact I|].
        rewrite next_gc_cons. cbv beta iota. rewrite m93. cbn [length] in Len.
        destruct (N.eqb_spec y 93) as [->|N93]; [|exact I].
        eapply post_bind; [apply IHt; lia|].
        intros e s4 G. cbn [post]. eapply gq_mono; [exact G|cbn [length]; lia].
      * (* keyword, alias or struct *)
        cbv beta iota. rewrite backup_gc_cons.
        destruct (read_keyword_ex F b (x :: r1) l ltac:(cbn [length]; lia))
          as (w & r2 & E & Er & C & Len).
        rewrite E. cbn [bind cu lc]. cbn [length] in Len.
        destruct w as [|w0 w'].
        -- cbn [app] in Er. subst r2. cbn [rev app].
           destruct (read_type_name_ex F b (x :: r1) l ltac:(cbn [length]; lia))
             as (w2 & r3 & E2 & Er2 & C2 & Len2).
           rewrite E2. cbn [bind cu lc]. cbn [length] in Len2.
           destruct w2 as [|n0 n'].
           ++ cbn [app] in Er2. subst r3. cbn [rev app].
              rewrite next_gc_cons. cbv beta iota. rewrite m40.
              destruct (N.eqb_spec x 40) as [->|N40]; [|exact I].
              destruct (advance_gc F (40 :: b) r1 l ltac:(lia)) as (b5 & r5 & l5 & E5 & L5 & _).
              rewrite E5. cbn [bind cu lc].
              destruct r5 as [|y r6].
              ** rewrite next_gc_nil. cbv beta iota. rewrite backup_oc.
                 eapply post_left_mono; [apply IHf; cbn [length]; lia|cbn [length]; lia].
              ** rewrite next_gc_cons. cbv beta iota. rewrite m41. cbn [length] in L5.
                 destruct (N.eqb_spec y 41) as [->|N41].
                 --- cbn [post]. apply gq_intro. cbn [length]. lia.
                 --- rewrite backup_gc_cons.
                     eapply post_left_mono; [apply IHf; cbn [length]; lia|cbn [length]; lia].
           ++ cbn [post]. apply gq_intro. cbn [length] in *. lia.
        -- destruct (builtin_of (w0 :: w')); [|exact I].
           cbn [post]. apply gq_intro. cbn [length] in *. lia.
  - (* read_fields *)
    intros F m tf ef b r l Hf HF. rewrite read_fields_S.
    destruct (advance_gc F b r l HF) as (b1 & r1 & l1 & E1 & L1 & _).
    rewrite E1. cbn [bind].
    destruct (read_field_name_ex F b1 r1 l1 ltac:(lia)) as (w & r2 & E2 & Er2 & C2 & Len2).
    rewrite E2. cbn [bind].
    destruct w as [|w0 w']; [exact I|]. cbn [length] in Len2.
    destruct (advance_gc F (rev (w0 :: w') ++ b1) r2 l1 ltac:(lia))
      as (b3 & r3 & l3 & E3 & L3 & _).
    rewrite E3. cbn [bind cu lc].
    destruct r3 as [|y r4].
    + rewrite next_gc_nil. cbv beta iota. rewrite backup_oc.
      destruct m; [|exact I|];
        (apply after_field_total; [exact IHf|cbn [length]; lia|cbn [length]; lia|cbn [length]; lia]).
    + rewrite next_gc_cons. cbv beta iota. rewrite m58. cbn [length] in L3.
      destruct (N.eqb_spec y 58) as [->|N58].
      * assert (K : post (do (_, s5) <- advance F (mkPst (gc (58 :: b3) r4) l3);
                          do (ft, s6) <- read_type f F s5;
                          after_field f F LTyped ((w0 :: w', ft) :: tf) ef s6)
                         (left_le (length r))).
        { destruct (advance_gc F (58 :: b3) r4 l3 ltac:(lia)) as (b5 & r5 & l5 & E5 & L5 & _).
          rewrite E5. cbn [bind].
          eapply post_bind; [apply IHt; lia|].
          intros ft s6 (b6 & r6 & l6 & -> & L6).
          apply after_field_total; [exact IHf|lia|lia|lia]. }
        destruct m; [exact K|exact K|exact I].
      * rewrite backup_gc_cons.
        destruct m; [|exact I|];
          (apply after_field_total; [exact IHf|cbn [length]; lia|cbn [length]; lia|cbn [length]; lia]).
Qed.

Lemma read_type_total : forall F b r l, (length r < F)%nat ->
  post (read_type F F (mkPst (gc b r) l)) (left_le (length r)).
Proof. intros F b r l H. apply (proj1 (types_total F)); exact H. Qed.

(* ------------------------------------------------------------------ *)
(** * members *)

Definition member_reader_total (reader : nat -> pst -> res member) (F : nat) : Prop :=
  forall b r l, (length r < F)%nat ->
    post (reader F (mkPst (gc b r) l)) (left_le (length r)).

Lemma read_alias_total : forall F, member_reader_total read_alias F.
Proof.
  intros F b r l HF. unfold read_alias.
  destruct (advance_gc F b r l HF) as (b1 & r1 & l1 & E1 & L1 & _).
  rewrite E1. cbn [bind lc].
  destruct (read_type_name_ex F b1 r1 l1 ltac:(lia)) as (w & r2 & E2 & Er2 & C2 & Len2).
  rewrite E2. cbn [bind].
  destruct w as [|w0 w']; [exact I|].
  destruct (advance_gc F (rev (w0 :: w') ++ b1) r2 l1 ltac:(lia))
    as (b3 & r3 & l3 & E3 & L3 & _).
  rewrite E3. cbn [bind].
  eapply post_bind; [apply read_type_total; lia|].
  intros t s4 G. cbn [post]. eapply gq_mono; [exact G|lia].
Qed.

Lemma read_method_total : forall F, member_reader_total read_method F.
Proof.
  intros F b r l HF. unfold read_method.
  destruct (advance_gc F b r l HF) as (b1 & r1 & l1 & E1 & L1 & _).
  rewrite E1. cbn [bind lc].
  destruct (read_type_name_ex F b1 r1 l1 ltac:(lia)) as (w & r2 & E2 & Er2 & C2 & Len2).
  rewrite E2. cbn [bind].
  destruct w as [|w0 w']; [exact I|].
  destruct (advance_gc F (rev (w0 :: w') ++ b1) r2 l1 ltac:(lia))
    as (b3 & r3 & l3 & E3 & L3 & _).
  rewrite E3. cbn [bind].
  eapply post_bind; [apply read_type_total; lia|].
  intros tin s4 (b4 & r4 & l4 & -> & L4).
  destruct (advance_gc F b4 r4 l4 ltac:(lia)) as (b5 & r5 & l5 & E5 & L5 & _).
  rewrite E5. cbn [bind cu lc].
  destruct r5 as [|y r6].
  { rewrite next_gc_nil. destruct (next (oc b5)) as [two c7]. exact I. }
  rewrite next_gc_cons.
  destruct r6 as [|z r7].
  { rewrite next_gc_nil. cbv beta iota. rewrite m45. destruct (y =? 45); exact I. }
  rewrite next_gc_cons. cbv beta iota. rewrite m45.
  destruct (N.eqb_spec y 45) as [->|N45]; [|exact I].
  rewrite m62. destruct (N.eqb_spec z 62) as [->|N62]; [|exact I].
  cbn [length] in L5.
  destruct (advance_gc F (62 :: 45 :: b5) r7 l5 ltac:(lia)) as (b8 & r8 & l8 & E8 & L8 & _).
  rewrite E8. cbn [bind].
  eapply post_bind; [apply read_type_total; lia|].
  intros tout s9 G. cbn [post]. eapply gq_mono; [exact G|lia].
Qed.

Lemma read_error_total : forall F, member_reader_total read_error F.
Proof.
  intros F b r l HF. unfold read_error.
  destruct (advance_gc F b r l HF) as (b1 & r1 & l1 & E1 & L1 & _).
  rewrite E1. cbn [bind lc].
  destruct (read_type_name_ex F b1 r1 l1 ltac:(lia)) as (w & r2 & E2 & Er2 & C2 & Len2).
  rewrite E2. cbn [bind].
  destruct w as [|w0 w']; [exact I|].
  destruct (advance_gc F (rev (w0 :: w') ++ b1) r2 l1 ltac:(lia))
    as (b3 & r3 & l3 & E3 & L3 & _).
  rewrite E3.
  pose proof (read_type_total F b3 r3 l3 ltac:(lia)) as T.
  destruct (read_type F F (mkPst (gc b3 r3) l3)) as [t s4| | |]; cbn [post] in T |- *.
  - eapply gq_mono; [exact T|lia].
  - apply gq_intro. lia.
  - contradiction.
  - contradiction.
Qed.

Lemma read_members_total : forall fuel F seen acc b r l,
  (length r < fuel)%nat -> (length r < F)%nat ->
  post (read_members fuel F seen acc (mkPst (gc b r) l)) (left_le (length r)).
Proof.
  induction fuel as [|f IH]; intros F seen acc b r l Hf HF; [lia|].
  rewrite read_members_S.
  destruct (advance_gc F b r l HF) as (b1 & r1 & l1 & E1 & L1 & _).
  rewrite E1. cbn [bind cu]. rewrite has_more_gc.
  destruct r1 as [|x r1']; [cbn [post]; apply gq_intro; cbn [length]; lia|].
  destruct (read_keyword_ex F b1 (x :: r1') l1 ltac:(lia)) as (w & r2 & E2 & Er2 & C2 & Len2).
  rewrite E2. cbn [bind].
  destruct w as [|w0 w']; [exact I|]. cbn [length] in Len2, L1.
  assert (K : forall reader, member_reader_total reader F ->
            post (do (m, s3) <- reader F (mkPst (gc (rev (w0 :: w') ++ b1) r2) l1);
                  if existsb (bytes_eqb (member_name m)) seen then RNil
                  else read_members f F (member_name m :: seen) (m :: acc) s3)
                 (left_le (length r))).
  { intros reader HR. eapply post_bind; [apply HR; lia|].
    intros m s3 (b3 & r3 & l3 & -> & L3).
    destruct (existsb (bytes_eqb (member_name m)) seen); [exact I|].
    eapply post_left_mono; [apply IH; lia|lia]. }
  destruct (bytes_eqb (w0 :: w') kw_type); [apply K, read_alias_total|].
  destruct (bytes_eqb (w0 :: w') kw_method); [apply K, read_method_total|].
  destruct (bytes_eqb (w0 :: w') kw_error); [apply K, read_error_total|].
  exact I.
Qed.

(* ------------------------------------------------------------------ *)
(** * parse *)

Lemma presult_of_post : forall (r : res idl) (Q : idl -> pst -> Prop),
  post r Q ->
  match r with ROk t _ => POk t | RNil => PErr | RPanic => PPanic | RFuel => PFuel end <> PPanic
  /\ match r with ROk t _ => POk t | RNil => PErr | RPanic => PPanic | RFuel => PFuel end <> PFuel.
Proof.
  intros r Q H. destruct r as [t s| | |]; cbn [post] in H;
    [split; discriminate|split; discriminate|contradiction|contradiction].
Qed.

Theorem parse_total : forall s : bytes, parse s <> PPanic /\ parse s <> PFuel.
Proof.
  intro s. unfold parse. cbv zeta.
  apply (presult_of_post _ (fun _ _ => True)).
  unfold cur_init.
  change (mkCur [] s 0 0) with (gc [] s).
  set (F := S (S (length s))).
  assert (HF : (length s < F)%nat) by (unfold F; lia).
  destruct (advance_gc F [] s [] HF) as (b1 & r1 & l1 & E1 & L1 & _).
  rewrite E1. cbn [bind].
  destruct (read_keyword_ex F b1 r1 l1 ltac:(lia)) as (w & r2 & E2 & Er2 & C2 & Len2).
  rewrite E2. cbn [bind].
  destruct (bytes_eqb w kw_interface); [|exact I].
  destruct (advance_gc F (rev w ++ b1) r2 l1 ltac:(lia)) as (b3 & r3 & l3 & E3 & L3 & _).
  rewrite E3. cbn [bind lc].
  destruct (read_interface_name_ex b3 r3 l3) as (n & r4 & E4 & Er4 & C4 & Len4).
  rewrite E4. cbn [bind].
  destruct n as [|n0 n']; [exact I|].
  eapply post_bind; [apply (read_members_total F F); lia|].
  intros ms s5 _. destruct (existsb is_method ms); exact I.
Qed.

Print Assumptions parse_total.
