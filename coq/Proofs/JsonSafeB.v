(* Proofs/JsonSafeB.v — Marshal of a json.RawMessage (compact with HTML
   escaping) writes no control byte: in a valid JSON text control bytes occur
   only as whitespace outside strings, and exactly that whitespace is dropped. *)
From VL Require Import Bytes Lit Json Wire Service Client JsonSafeA.
Open Scope N_scope.

(* ---------- compact_f, one step ---------- *)

Definition outc (c : N) : bytes := if (c =? 60) || (c =? 62) || (c =? 38) then u00 c else [c].

Lemma outc_no_ctl : forall c, 32 <= c -> no_ctl (outc c).
Proof.
  intros c H. unfold outc.
  destruct ((c =? 60) || (c =? 62) || (c =? 38)); [apply u00_no_ctl | apply no_ctl_one; exact H].
Qed.

Lemma compact_ff_cons : forall c r, compact_f false false (c :: r) =
  if is_ws c then compact_f false false r
  else if c =? 34 then outc c ++ compact_f true false r
  else outc c ++ compact_f false false r.
Proof. reflexivity. Qed.

Lemma compact_tt_cons : forall c r, compact_f true true (c :: r) = outc c ++ compact_f true false r.
Proof. reflexivity. Qed.

Lemma compact_tf_cons : forall c r, compact_f true false (c :: r) =
  if c =? 92 then outc c ++ compact_f true true r
  else if c =? 34 then outc c ++ compact_f false false r
  else if c =? 226 then
    match r with
    | c1 :: x :: r' =>
      if (c1 =? 128) && ((x =? 168) || (x =? 169))
      then [92; 117; 50; 48; 50; if x =? 168 then 56 else 57] ++ compact_f true false r'
      else outc c ++ compact_f true false r
    | _ => outc c ++ compact_f true false r
    end
  else outc c ++ compact_f true false r.
Proof.
  intros c r. Time (deep c; try reflexivity).
  destruct r as [|c1 r]; [reflexivity|].
  destruct r as [|x r]; [deep c1; reflexivity|].
  Time (deep c1; try reflexivity).
Qed.
