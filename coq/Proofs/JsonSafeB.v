(* Proofs/JsonSafeB.v — Marshal of a json.RawMessage (compact with HTML
   escaping) writes no control byte: in a valid JSON text control bytes occur
   only as whitespace outside strings, and exactly that whitespace is dropped. *)
From VL Require Import Bytes Lit Json Wire Service Client JsonSafeA.
Open Scope N_scope.

(* ---------- compact_f, one step ---------- *)

Definition outc (c : N) : bytes := if (c =? 60) || (c =? 62) || (c =? 38) then u00 c else [c].

Lemma outc_no_ctl : forall c, 32 <= c -> no_ctl (outc c).
Proof.
  intros c H. unfold outc.
  destruct ((c =? 60) || (c =? 62) || (c =? 38)); [apply u00_no_ctl | apply no_ctl_one; exact H].
Qed.

Lemma compact_ff_cons : forall c r, compact_f false false (c :: r) =
  if is_ws c then compact_f false false r
  else if c =? 34 then outc c ++ compact_f true false r
  else outc c ++ compact_f false false r.
Proof. reflexivity. Qed.

Lemma compact_tt_cons : forall c r, compact_f true true (c :: r) = outc c ++ compact_f true false r.
Proof. reflexivity. Qed.

Lemma compact_tf_cons0 : forall c r, compact_f true false (c :: r) =
  if c =? 92 then outc c ++ compact_f true true r
  else if c =? 34 then outc c ++ compact_f false false r
  else if c =? 226 then
    match r with
    | 128 :: x :: r' =>
      if (x =? 168) || (x =? 169)
      then [92; 117; 50; 48; 50; if x =? 168 then 56 else 57] ++ compact_f true false r'
      else outc c ++ compact_f true false r
    | _ => outc c ++ compact_f true false r
    end
  else outc c ++ compact_f true false r.
Proof. intros c r. deep c; reflexivity. Qed.

Lemma case_128 : forall (A : Type) (r : bytes) (a : N -> bytes -> A) (d : A),
  match r with 128 :: x :: r' => a x r' | _ => d end =
  match r with c1 :: x :: r' => if c1 =? 128 then a x r' else d | _ => d end.
Proof.
  intros A r a d. destruct r as [|c1 r]; [reflexivity|].
  destruct r as [|x r]; [deep c1; reflexivity|]. deep c1; reflexivity.
Qed.

Lemma compact_tf_cons : forall c r, compact_f true false (c :: r) =
  if c =? 92 then outc c ++ compact_f true true r
  else if c =? 34 then outc c ++ compact_f false false r
  else if c =? 226 then
    match r with
    | c1 :: x :: r' =>
      if c1 =? 128 then
        if (x =? 168) || (x =? 169)
        then [92; 117; 50; 48; 50; if x =? 168 then 56 else 57] ++ compact_f true false r'
        else outc c ++ compact_f true false r
      else outc c ++ compact_f true false r
    | _ => outc c ++ compact_f true false r
    end
  else outc c ++ compact_f true false r.
Proof.
  intros c r. rewrite compact_tf_cons0.
  destruct (c =? 92); [reflexivity|]. destruct (c =? 34); [reflexivity|].
  destruct (c =? 226); [|reflexivity].
  exact (case_128 bytes r
    (fun x r' => if (x =? 168) || (x =? 169)
       then [92; 117; 50; 48; 50; if x =? 168 then 56 else 57] ++ compact_f true false r'
       else outc c ++ compact_f true false r)
    (outc c ++ compact_f true false r)).
Qed.

(* ---------- scan_string, one step ---------- *)

Definition is_simple_esc (e : N) : bool :=
  (e =? 34) || (e =? 92) || (e =? 47) || (e =? 98) || (e =? 102) || (e =? 110) || (e =? 114) || (e =? 116).

Lemma scan_string_O : forall s, scan_string O s = None.
Proof. reflexivity. Qed.

Lemma scan_string_nil : forall f, scan_string f [] = None.
Proof. destruct f; reflexivity. Qed.

Lemma scan_string_cons : forall f c r, scan_string (S f) (c :: r) =
  if c =? 34 then Some ([], r)
  else if c =? 92 then
    match r with
    | [] => None
    | e :: r2 =>
      if is_simple_esc e then
        match scan_string f r2 with Some (a, k) => Some (92 :: e :: a, k) | None => None end
      else if e =? 117 then
        match r2 with
        | h1 :: h2 :: h3 :: h4 :: r' =>
          if is_hex h1 && is_hex h2 && is_hex h3 && is_hex h4 then
            match scan_string f r' with
            | Some (a, k) => Some (92 :: 117 :: h1 :: h2 :: h3 :: h4 :: a, k)
            | None => None
            end
          else None
        | _ => None
        end
      else None
    end
  else if c <? 32 then None
  else match scan_string f r with Some (a, k) => Some (c :: a, k) | None => None end.
Proof.
  intros f c r. deep c; try reflexivity.
  destruct r; reflexivity.
Qed.
