(* Proofs/JsonSafeB.v — one-step unfolding equations for compact_f and the
   JSON scanner, with the numeral patterns replaced by boolean tests
   (used by JsonSafeC.v). *)
From VL Require Import Bytes Lit Json Wire Service Client JsonSafeA.
Open Scope N_scope.

(* ---------- compact_f, one step ---------- *)

Definition outc (c : N) : bytes := if (c =? 60) || (c =? 62) || (c =? 38) then u00 c else [c].

Lemma outc_no_ctl : forall c, 32 <= c -> no_ctl (outc c).
Proof.
  intros c H. unfold outc.
  destruct ((c =? 60) || (c =? 62) || (c =? 38)); [apply u00_no_ctl | apply no_ctl_one; exact H].
Qed.

Lemma compact_ff_cons : forall c r, compact_f false false (c :: r) =
  if is_ws c then compact_f false false r
  else if c =? 34 then outc c ++ compact_f true false r
  else outc c ++ compact_f false false r.
Proof. reflexivity. Qed.

Lemma compact_tt_cons : forall c r, compact_f true true (c :: r) = outc c ++ compact_f true false r.
Proof. reflexivity. Qed.

Lemma compact_tf_cons0 : forall c r, compact_f true false (c :: r) =
  if c =? 92 then outc c ++ compact_f true true r
  else if c =? 34 then outc c ++ compact_f false false r
  else if c =? 226 then
    match r with
    | 128 :: x :: r' =>
      if (x =? 168) || (x =? 169)
      then [92; 117; 50; 48; 50; if x =? 168 then 56 else 57] ++ compact_f true false r'
      else outc c ++ compact_f true false r
    | _ => outc c ++ compact_f true false r
    end
  else outc c ++ compact_f true false r.
Proof. intros c r. deep c; reflexivity. Qed.

Lemma case_128 : forall (A : Type) (r : bytes) (a : N -> bytes -> A) (d : A),
  match r with 128 :: x :: r' => a x r' | _ => d end =
  match r with c1 :: x :: r' => if c1 =? 128 then a x r' else d | _ => d end.
Proof.
  intros A r a d. destruct r as [|c1 r]; [reflexivity|].
  destruct r as [|x r]; [deep c1; reflexivity|]. deep c1; reflexivity.
Qed.

Lemma compact_tf_cons : forall c r, compact_f true false (c :: r) =
  if c =? 92 then outc c ++ compact_f true true r
  else if c =? 34 then outc c ++ compact_f false false r
  else if c =? 226 then
    match r with
    | c1 :: x :: r' =>
      if c1 =? 128 then
        if (x =? 168) || (x =? 169)
        then [92; 117; 50; 48; 50; if x =? 168 then 56 else 57] ++ compact_f true false r'
        else outc c ++ compact_f true false r
      else outc c ++ compact_f true false r
    | _ => outc c ++ compact_f true false r
    end
  else outc c ++ compact_f true false r.
Proof.
  intros c r. rewrite compact_tf_cons0.
  destruct (c =? 92); [reflexivity|]. destruct (c =? 34); [reflexivity|].
  destruct (c =? 226); [|reflexivity].
  exact (case_128 bytes r
    (fun x r' => if (x =? 168) || (x =? 169)
       then [92; 117; 50; 48; 50; if x =? 168 then 56 else 57] ++ compact_f true false r'
       else outc c ++ compact_f true false r)
    (outc c ++ compact_f true false r)).
Qed.

(* ---------- scan_string, one step ---------- *)

Definition is_simple_esc (e : N) : bool :=
  (e =? 34) || (e =? 92) || (e =? 47) || (e =? 98) || (e =? 102) || (e =? 110) || (e =? 114) || (e =? 116).

Lemma scan_string_O : forall s, scan_string O s = None.
Proof. reflexivity. Qed.

Lemma scan_string_nil : forall f, scan_string f [] = None.
Proof. destruct f; reflexivity. Qed.

Lemma scan_string_cons : forall f c r, scan_string (S f) (c :: r) =
  if c =? 34 then Some ([], r)
  else if c =? 92 then
    match r with
    | [] => None
    | e :: r2 =>
      if is_simple_esc e then
        match scan_string f r2 with Some (a, k) => Some (92 :: e :: a, k) | None => None end
      else if e =? 117 then
        match r2 with
        | h1 :: h2 :: h3 :: h4 :: r' =>
          if is_hex h1 && is_hex h2 && is_hex h3 && is_hex h4 then
            match scan_string f r' with
            | Some (a, k) => Some (92 :: 117 :: h1 :: h2 :: h3 :: h4 :: a, k)
            | None => None
            end
          else None
        | _ => None
        end
      else None
    end
  else if c <? 32 then None
  else match scan_string f r with Some (a, k) => Some (c :: a, k) | None => None end.
Proof.
  intros f c r. deep c; reflexivity.
Qed.


(* ---------- scan_value, one step ---------- *)

Definition sv_num (s : bytes) : option (jv * bytes) :=
  match scan_number s with Some (tok, k) => Some (VNum tok, k) | None => None end.
Definition sv_str (r : bytes) : option (jv * bytes) :=
  match scan_string (S (length r)) r with Some (raw, k) => Some (VStr raw, k) | None => None end.
Definition sv_obj (f : nat) (d : N) (r : bytes) : option (jv * bytes) :=
  if max_depth <? d + 1 then None else
  match skip_ws r with
  | 125 :: k => Some (VObj [], k)
  | r1 => scan_members f (d + 1) [] r1
  end.
Definition sv_arr (f : nat) (d : N) (r : bytes) : option (jv * bytes) :=
  if max_depth <? d + 1 then None else
  match skip_ws r with
  | 93 :: k => Some (VArr [], k)
  | r1 => scan_elements f (d + 1) [] r1
  end.
Definition kw_t (r : bytes) : option (jv * bytes) :=
  match r with 114 :: 117 :: 101 :: k => Some (VBool true, k) | _ => None end.
Definition kw_f (r : bytes) : option (jv * bytes) :=
  match r with 97 :: 108 :: 115 :: 101 :: k => Some (VBool false, k) | _ => None end.
Definition kw_n (r : bytes) : option (jv * bytes) :=
  match r with 117 :: 108 :: 108 :: k => Some (VNull, k) | _ => None end.

Lemma scan_value_O : forall d s, scan_value O d s = None.
Proof. reflexivity. Qed.
Lemma scan_value_nil : forall f d, scan_value f d [] = None.
Proof. destruct f; reflexivity. Qed.

Lemma scan_value_cons : forall f d c r, scan_value (S f) d (c :: r) =
  if c =? 123 then sv_obj f d r
  else if c =? 91 then sv_arr f d r
  else if c =? 34 then sv_str r
  else if c =? 116 then kw_t r
  else if c =? 102 then kw_f r
  else if c =? 110 then kw_n r
  else sv_num (c :: r).
Proof. intros f d c r. deep c; reflexivity. Qed.

Lemma sv_obj_eq : forall f d r, sv_obj f d r =
  if max_depth <? d + 1 then None else
  match skip_ws r with
  | [] => scan_members f (d + 1) [] []
  | c :: k => if c =? 125 then Some (VObj [], k) else scan_members f (d + 1) [] (c :: k)
  end.
Proof.
  intros f d r. unfold sv_obj. destruct (max_depth <? d + 1); [reflexivity|].
  destruct (skip_ws r) as [|c k]; [reflexivity|]. deep c; reflexivity.
Qed.

Lemma sv_arr_eq : forall f d r, sv_arr f d r =
  if max_depth <? d + 1 then None else
  match skip_ws r with
  | [] => scan_elements f (d + 1) [] []
  | c :: k => if c =? 93 then Some (VArr [], k) else scan_elements f (d + 1) [] (c :: k)
  end.
Proof.
  intros f d r. unfold sv_arr. destruct (max_depth <? d + 1); [reflexivity|].
  destruct (skip_ws r) as [|c k]; [reflexivity|]. deep c; reflexivity.
Qed.

Lemma kw_t_inv : forall r v k, kw_t r = Some (v, k) -> r = 114 :: 117 :: 101 :: k.
Proof.
  intros r v k H. unfold kw_t in H.
  destruct r as [|c1 r]; [discriminate|]. deep c1; try discriminate.
  destruct r as [|c2 r]; [discriminate|]. deep c2; try discriminate.
  destruct r as [|c3 r]; [discriminate|]. deep c3; try discriminate.
  inversion H; subst. reflexivity.
Qed.

Lemma kw_n_inv : forall r v k, kw_n r = Some (v, k) -> r = 117 :: 108 :: 108 :: k.
Proof.
  intros r v k H. unfold kw_n in H.
  destruct r as [|c1 r]; [discriminate|]. deep c1; try discriminate.
  destruct r as [|c2 r]; [discriminate|]. deep c2; try discriminate.
  destruct r as [|c3 r]; [discriminate|]. deep c3; try discriminate.
  inversion H; subst. reflexivity.
Qed.

Lemma kw_f_inv : forall r v k, kw_f r = Some (v, k) -> r = 97 :: 108 :: 115 :: 101 :: k.
Proof.
  intros r v k H. unfold kw_f in H.
  destruct r as [|c1 r]; [discriminate|]. deep c1; try discriminate.
  destruct r as [|c2 r]; [discriminate|]. deep c2; try discriminate.
  destruct r as [|c3 r]; [discriminate|]. deep c3; try discriminate.
  destruct r as [|c4 r]; [discriminate|]. deep c4; try discriminate.
  inversion H; subst. reflexivity.
Qed.

(* ---------- scan_members / scan_elements, one step ---------- *)

Definition sm_tail (f : nat) (d : N) (acc' : list (bytes * jv * bytes * bytes)) (k3 : bytes)
  : option (jv * bytes) :=
  match skip_ws k3 with
  | 44 :: k4 => scan_members f d acc' (skip_ws k4)
  | 125 :: k4 => Some (VObj (rev acc'), k4)
  | _ => None
  end.

Definition sm_colon (f : nat) (d : N) (acc : list (bytes * jv * bytes * bytes)) (key k1 : bytes)
  : option (jv * bytes) :=
  match skip_ws k1 with
  | 58 :: k2 =>
    match scan_value f d (skip_ws k2) with
    | None => None
    | Some (v, k3) => sm_tail f d ((key, v, skip_ws k2, k3) :: acc) k3
    end
  | _ => None
  end.

Definition sm_key (f : nat) (d : N) (acc : list (bytes * jv * bytes * bytes)) (r : bytes)
  : option (jv * bytes) :=
  match scan_string (S (length r)) r with
  | None => None
  | Some (key, k1) => sm_colon f d acc key k1
  end.

Lemma scan_members_O : forall d acc s, scan_members O d acc s = None.
Proof. reflexivity. Qed.

Lemma scan_members_S : forall f d acc s, scan_members (S f) d acc s =
  match s with
  | [] => None
  | c :: r => if c =? 34 then sm_key f d acc r else None
  end.
Proof. intros f d acc [|c r]; [reflexivity|]. deep c; reflexivity. Qed.

Lemma sm_colon_eq : forall f d acc key k1, sm_colon f d acc key k1 =
  match skip_ws k1 with
  | [] => None
  | c :: k2 =>
    if c =? 58 then
      match scan_value f d (skip_ws k2) with
      | None => None
      | Some (v, k3) => sm_tail f d ((key, v, skip_ws k2, k3) :: acc) k3
      end
    else None
  end.
Proof.
  intros f d acc key k1. unfold sm_colon.
  destruct (skip_ws k1) as [|c k2]; [reflexivity|]. deep c; reflexivity.
Qed.

Lemma sm_tail_eq : forall f d acc' k3, sm_tail f d acc' k3 =
  match skip_ws k3 with
  | [] => None
  | c :: k4 =>
    if c =? 44 then scan_members f d acc' (skip_ws k4)
    else if c =? 125 then Some (VObj (rev acc'), k4)
    else None
  end.
Proof.
  intros f d acc' k3. unfold sm_tail.
  destruct (skip_ws k3) as [|c k4]; [reflexivity|]. deep c; reflexivity.
Qed.

Definition se_tail (f : nat) (d : N) (acc : list jv) (v : jv) (k : bytes) : option (jv * bytes) :=
  match skip_ws k with
  | 44 :: k2 => scan_elements f d (v :: acc) (skip_ws k2)
  | 93 :: k2 => Some (VArr (rev (v :: acc)), k2)
  | _ => None
  end.

Lemma scan_elements_O : forall d acc s, scan_elements O d acc s = None.
Proof. reflexivity. Qed.

Lemma scan_elements_S : forall f d acc s, scan_elements (S f) d acc s =
  match scan_value f d s with
  | None => None
  | Some (v, k) => se_tail f d acc v k
  end.
Proof. reflexivity. Qed.

Lemma se_tail_eq : forall f d acc v k, se_tail f d acc v k =
  match skip_ws k with
  | [] => None
  | c :: k2 =>
    if c =? 44 then scan_elements f d (v :: acc) (skip_ws k2)
    else if c =? 93 then Some (VArr (rev (v :: acc)), k2)
    else None
  end.
Proof.
  intros f d acc v k. unfold se_tail.
  destruct (skip_ws k) as [|c k2]; [reflexivity|]. deep c; reflexivity.
Qed.
