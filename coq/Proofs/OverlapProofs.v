(* Proofs/OverlapProofs.v — proofs about Model/Overlap.v: what an overlapping serving call waits for before it returns.
   Own WaitGroup (shared_wg = false): a call's return depends on its own connections only, and it can always drain and return.
   Shared WaitGroup (shared_wg = true): refuted by a concrete run. *)
From Coq Require Import List Bool Arith Lia Permutation.
From VL Require Import Bytes Overlap.
Import ListNotations.

Definition conns_of (s : ost) : list nat := flat_map sc_conns (o_calls s).

(* ---------- list helpers ---------- *)

Lemma set_nth_split : forall A (l1 : list A) c l2 x, set_nth (length l1) x (l1 ++ c :: l2) = l1 ++ x :: l2.
Proof. induction l1 as [|a l1 IH]; intros c l2 x; simpl; [reflexivity | now rewrite IH]. Qed.

Lemma nth_split : forall A (l : list A) k c, nth_error l k = Some c ->
  exists l1 l2, l = l1 ++ c :: l2 /\ length l1 = k.
Proof. intros A l k c H. apply nth_error_split in H. exact H. Qed.

Lemma nth_error_mid : forall A (l1 : list A) x l2, nth_error (l1 ++ x :: l2) (length l1) = Some x.
Proof. induction l1 as [|a l1 IH]; intros x l2; simpl; [reflexivity | apply IH]. Qed.

Lemma filter_notin : forall x l, ~ In x l -> filter (fun y => negb (Nat.eqb y x)) l = l.
Proof.
  intros x l. induction l as [|a l IH]; intros Hn; simpl; [reflexivity|].
  destruct (Nat.eqb_spec a x) as [E|E]; simpl.
  - exfalso. apply Hn. left. exact E.
  - rewrite IH; [reflexivity|]. intros Hin. apply Hn. right. exact Hin.
Qed.

Lemma flat_remove : forall x l,
  flat_map sc_conns (map (remove_conn x) l) = filter (fun y => negb (Nat.eqb y x)) (flat_map sc_conns l).
Proof.
  intros x l. induction l as [|a l IH]; simpl; [reflexivity|].
  rewrite filter_app, IH. reflexivity.
Qed.

Lemma nodup_insert : forall (l1 c l2 : list nat) n,
  NoDup (l1 ++ c ++ l2) -> ~ In n (l1 ++ c ++ l2) -> NoDup (l1 ++ (c ++ [n]) ++ l2).
Proof.
  intros l1 c l2 n Hnd Hni.
  assert (Hp : Permutation (n :: l1 ++ c ++ l2) (l1 ++ (c ++ [n]) ++ l2)).
  { replace (l1 ++ (c ++ [n]) ++ l2) with ((l1 ++ c) ++ n :: l2).
    - apply Permutation_cons_app. rewrite app_assoc. apply Permutation_refl.
    - rewrite <- !app_assoc. reflexivity. }
  eapply Permutation_NoDup; [exact Hp|]. constructor; assumption.
Qed.

(* ---------- the invariant ---------- *)

Definition oinv (s : ost) : Prop :=
  NoDup (conns_of s) /\ (forall c, In c (conns_of s) -> c < o_next s) /\
  (forall k, In k (o_calls s) -> sc_returned k = true -> sc_shut k = true /\ sc_conns k = []).

Lemma all_drained_in : forall s c, all_drained s = true -> In c (o_calls s) -> sc_conns c = [].
Proof.
  intros s c Hd Hin. unfold all_drained in Hd. rewrite forallb_forall in Hd.
  specialize (Hd c Hin). destruct (sc_conns c); [reflexivity | discriminate].
Qed.

Lemma may_return_drained : forall b s c, In c (o_calls s) -> may_return b s c = true ->
  sc_shut c = true /\ sc_returned c = false /\ sc_conns c = [].
Proof.
  intros b s c Hin Hm. unfold may_return in Hm.
  apply andb_true_iff in Hm. destruct Hm as [Hm H3]. apply andb_true_iff in Hm. destruct Hm as [H1 H2].
  apply negb_true_iff in H2. repeat split; try assumption.
  destruct b.
  - eapply all_drained_in; eassumption.
  - destruct (sc_conns c); [reflexivity | discriminate].
Qed.

(* replacing call k by a call with the same connection list *)
Lemma oinv_replace : forall l1 c l2 n c',
  oinv (mkO (l1 ++ c :: l2) n) -> sc_conns c' = sc_conns c ->
  (sc_returned c' = true -> sc_shut c' = true /\ sc_conns c' = []) ->
  oinv (mkO (l1 ++ c' :: l2) n).
Proof.
  intros l1 c l2 n c' [Hnd [Hlt Hret]] Hc Hr. unfold oinv, conns_of in *. simpl in *.
  rewrite flat_map_app in *. simpl in *. rewrite Hc.
  split; [exact Hnd|]. split; [exact Hlt|].
  intros k Hin Hk. apply in_app_or in Hin. destruct Hin as [Hin|[Hin|Hin]].
  - apply Hret; [apply in_or_app; left; exact Hin | exact Hk].
  - subst k. apply Hr. exact Hk.
  - apply Hret; [apply in_or_app; right; right; exact Hin | exact Hk].
Qed.

Lemma oinv_init : oinv o_init.
Proof.
  unfold oinv, conns_of; simpl. split; [constructor|]. split; intros ? H; contradiction.
Qed.

Lemma oinv_step : forall b s e s', oinv s -> ostep b s e = Some s' -> oinv s'.
Proof.
  intros b s e s' Hinv Hstep. destruct s as [calls nxt]. destruct e as [|k|x|k|k]; simpl in Hstep.
  - (* OStart *)
    inversion Hstep; subst s'; clear Hstep. destruct Hinv as [Hnd [Hlt Hret]].
    unfold oinv, conns_of in *; simpl in *. rewrite flat_map_app; simpl; rewrite app_nil_r.
    split; [exact Hnd|]. split; [exact Hlt|].
    intros k Hin Hk. apply in_app_or in Hin. destruct Hin as [Hin|[Hin|[]]].
    + apply Hret; assumption.
    + subst k. simpl in Hk. discriminate.
  - (* OAccept *)
    destruct (nth_error calls k) as [c|] eqn:Hn; [|discriminate].
    destruct (sc_shut c || sc_returned c) eqn:Hsr; [discriminate|].
    inversion Hstep; subst s'; clear Hstep.
    apply nth_split in Hn. destruct Hn as [l1 [l2 [Hl Hk]]]. subst calls k.
    rewrite set_nth_split. destruct Hinv as [Hnd [Hlt Hret]].
    unfold oinv, conns_of in *; simpl in *. rewrite flat_map_app in *; simpl in *.
    assert (Hni : ~ In nxt (flat_map sc_conns l1 ++ sc_conns c ++ flat_map sc_conns l2)).
    { intros Hin. apply Hlt in Hin. lia. }
    split; [apply nodup_insert; assumption|]. split.
    + intros y Hin. apply in_app_or in Hin. destruct Hin as [Hin|Hin].
      * assert (y < nxt) by (apply Hlt; apply in_or_app; left; exact Hin). lia.
      * apply in_app_or in Hin. destruct Hin as [Hin|Hin].
        -- apply in_app_or in Hin. destruct Hin as [Hin|[Hin|[]]].
           ++ assert (y < nxt) by (apply Hlt; apply in_or_app; right; apply in_or_app; left; exact Hin). lia.
           ++ lia.
        -- assert (y < nxt) by (apply Hlt; apply in_or_app; right; apply in_or_app; right; exact Hin). lia.
    + intros q Hin Hq. apply in_app_or in Hin. destruct Hin as [Hin|[Hin|Hin]].
      * apply Hret; [apply in_or_app; left; exact Hin | exact Hq].
      * subst q. simpl in Hq. discriminate.
      * apply Hret; [apply in_or_app; right; right; exact Hin | exact Hq].
  - (* OEnd *)
    destruct (existsb _ calls); [|discriminate].
    inversion Hstep; subst s'; clear Hstep. destruct Hinv as [Hnd [Hlt Hret]].
    unfold oinv, conns_of in *; simpl in *. rewrite flat_remove.
    split; [apply NoDup_filter; exact Hnd|]. split.
    + intros y Hin. apply filter_In in Hin. apply Hlt. apply Hin.
    + intros q Hin Hq. apply in_map_iff in Hin. destruct Hin as [q0 [Hq0 Hin]]. subst q. simpl in *.
      destruct (Hret q0 Hin Hq) as [Hs Hc]. split; [exact Hs|]. rewrite Hc. reflexivity.
  - (* OShutdown *)
    destruct (nth_error calls k) as [c|] eqn:Hn; [|discriminate].
    destruct (sc_returned c) eqn:Hr; [discriminate|].
    inversion Hstep; subst s'; clear Hstep.
    apply nth_split in Hn. destruct Hn as [l1 [l2 [Hl Hk]]]. subst calls k.
    rewrite set_nth_split. simpl. eapply oinv_replace; [exact Hinv | reflexivity | simpl; discriminate].
  - (* OReturn *)
    destruct (nth_error calls k) as [c|] eqn:Hn; [|discriminate].
    destruct (may_return b _ c) eqn:Hm; [|discriminate].
    inversion Hstep; subst s'; clear Hstep.
    apply may_return_drained in Hm; [|simpl; eapply nth_error_In; exact Hn].
    destruct Hm as [_ [_ Hc]].
    apply nth_split in Hn. destruct Hn as [l1 [l2 [Hl Hk]]]. subst calls k.
    rewrite set_nth_split. simpl. eapply oinv_replace; [exact Hinv | reflexivity |].
    simpl. intros _. split; [reflexivity | exact Hc].
Qed.

Lemma reach_oinv : forall b s, oreach b s -> oinv s.
Proof.
  intros b s H. induction H as [|s e s' _ IH Hs]; [apply oinv_init | eapply oinv_step; eassumption].
Qed.

(* 1. invariants of every reachable state, for both values of shared_wg *)
Theorem reach_inv : forall b s, oreach b s ->
  NoDup (conns_of s) /\ (forall c, In c (conns_of s) -> c < o_next s) /\
  (forall k, In k (o_calls s) -> sc_returned k = true -> sc_shut k = true).
Proof.
  intros b s H. destruct (reach_oinv b s H) as [Hnd [Hlt Hret]].
  split; [exact Hnd|]. split; [exact Hlt|]. intros k Hin Hk. apply (Hret k Hin Hk).
Qed.

(* a returned call has no open connections, and (being an invariant) never gets one again: it accepts nothing *)
Theorem returned_has_no_conns : forall b s, oreach b s ->
  forall k, In k (o_calls s) -> sc_returned k = true -> sc_conns k = [].
Proof.
  intros b s H k Hin Hk. destruct (reach_oinv b s H) as [_ [_ Hret]]. apply (Hret k Hin Hk).
Qed.

(* ---------- own WaitGroup ---------- *)

Lemma may_return_own : forall s c,
  may_return false s c = true <-> (sc_shut c = true /\ sc_returned c = false /\ sc_conns c = []).
Proof.
  intros s c. unfold may_return. destruct (sc_shut c), (sc_returned c), (sc_conns c); simpl; split;
    try discriminate; try (intros [? [? ?]]; discriminate); auto.
Qed.

(* 2. what a call waits for *)
Theorem own_return_iff : forall s k c, nth_error (o_calls s) k = Some c ->
  (exists s', ostep false s (OReturn k) = Some s') <-> (sc_shut c = true /\ sc_returned c = false /\ sc_conns c = []).
Proof.
  intros s k c Hn. simpl. rewrite Hn. rewrite <- (may_return_own s c).
  destruct (may_return false s c); split.
  - intros _. reflexivity.
  - intros _. eexists. reflexivity.
  - intros [s' H]. discriminate.
  - discriminate.
Qed.

(* 3. independence: whether call k may return does not depend on any other call *)
Theorem own_return_independent : forall s s' k c c',
  nth_error (o_calls s) k = Some c -> nth_error (o_calls s') k = Some c' -> c = c' ->
  ((exists t, ostep false s (OReturn k) = Some t) <-> (exists t', ostep false s' (OReturn k) = Some t')).
Proof.
  intros s s' k c c' Hn Hn' Hc. subst c'.
  rewrite (own_return_iff s k c Hn), (own_return_iff s' k c Hn'). reflexivity.
Qed.

(* 4. progress *)
Lemma own_drain_gen : forall k l s c,
  nth_error (o_calls s) k = Some c -> sc_conns c = l -> NoDup l -> sc_shut c = true -> sc_returned c = false ->
  exists s', orun false s (map OEnd l ++ [OReturn k]) = Some s' /\
             exists c', nth_error (o_calls s') k = Some c' /\ sc_returned c' = true.
Proof.
  intros k l. induction l as [|x l IH]; intros s c Hn Hl Hnd Hs Hr.
  - simpl map. simpl app. unfold orun. unfold ostep. rewrite Hn.
    assert (Hm : may_return false s c = true) by (apply may_return_own; auto).
    rewrite Hm. eexists. split; [reflexivity|]. simpl.
    apply nth_split in Hn. destruct Hn as [l1 [l2 [Hc Hk]]]. rewrite Hc. subst k.
    rewrite set_nth_split, nth_error_mid. eexists. split; reflexivity.
  - inversion Hnd as [|x' l' Hni Hnd']; subst x' l'.
    simpl map. simpl app. simpl orun.
    assert (He : existsb (fun q => existsb (Nat.eqb x) (sc_conns q)) (o_calls s) = true).
    { apply existsb_exists. exists c. split; [eapply nth_error_In; exact Hn|].
      rewrite Hl. simpl. rewrite Nat.eqb_refl. reflexivity. }
    rewrite He.
    apply (IH (mkO (map (remove_conn x) (o_calls s)) (o_next s)) (remove_conn x c)).
    + simpl. apply map_nth_error. exact Hn.
    + simpl. rewrite Hl. simpl. rewrite Nat.eqb_refl. simpl. apply filter_notin. exact Hni.
    + exact Hnd'.
    + exact Hs.
    + exact Hr.
Qed.

Lemma nodup_app_l : forall (l1 l2 : list nat), NoDup (l1 ++ l2) -> NoDup l2.
Proof. induction l1 as [|a l1 IH]; intros l2 H; simpl in H; [exact H|]. inversion H; subst. apply IH. assumption. Qed.

Lemma nodup_app_r : forall (l1 l2 : list nat), NoDup (l1 ++ l2) -> NoDup l1.
Proof.
  induction l1 as [|a l1 IH]; intros l2 H; simpl in H; [constructor|].
  inversion H as [|a' l' Hni Hnd]; subst. constructor.
  - intros Hin. apply Hni. apply in_or_app. left. exact Hin.
  - eapply IH. exact Hnd.
Qed.

Lemma nodup_own : forall s k c, NoDup (conns_of s) -> nth_error (o_calls s) k = Some c -> NoDup (sc_conns c).
Proof.
  intros s k c Hnd Hn. apply nth_split in Hn. destruct Hn as [l1 [l2 [Hc _]]].
  unfold conns_of in Hnd. rewrite Hc, flat_map_app in Hnd. simpl in Hnd.
  apply nodup_app_l in Hnd. apply nodup_app_r in Hnd. exact Hnd.
Qed.

Theorem own_drain_then_return : forall s k c, oreach false s -> nth_error (o_calls s) k = Some c -> sc_shut c = true -> sc_returned c = false ->
  exists s', orun false s (map OEnd (sc_conns c) ++ [OReturn k]) = Some s' /\
             exists c', nth_error (o_calls s') k = Some c' /\ sc_returned c' = true.
Proof.
  intros s k c Hreach Hn Hs Hr.
  apply (own_drain_gen k (sc_conns c) s c Hn eq_refl); [|exact Hs|exact Hr].
  eapply nodup_own; [|exact Hn]. apply (reach_inv false s Hreach).
Qed.

(* ---------- 5. the shared WaitGroup is refuted by a concrete run ---------- *)

Definition overlap_run : list oev := [OStart; OAccept 0; OShutdown 0; OStart; OAccept 1; OEnd 0].

Theorem shared_wg_refuted :
  exists es s c0, orun true o_init es = Some s /\ nth_error (o_calls s) 0 = Some c0 /\
    sc_shut c0 = true /\ sc_conns c0 = [] /\ sc_returned c0 = false /\ ostep true s (OReturn 0) = None.
Proof.
  exists overlap_run.
  exists (mkO [mkCall [] true false; mkCall [1] false false] 2).
  exists (mkCall [] true false).
  vm_compute. repeat split; reflexivity.
Qed.

Theorem own_wg_same_run_returns : exists s', orun false o_init (overlap_run ++ [OReturn 0]) = Some s'.
Proof. eexists. vm_compute. reflexivity. Qed.

Print Assumptions reach_inv.
Print Assumptions returned_has_no_conns.
Print Assumptions own_return_iff.
Print Assumptions own_return_independent.
Print Assumptions own_drain_then_return.
Print Assumptions shared_wg_refuted.
Print Assumptions own_wg_same_run_returns.
