(* Spec/IdlGrammar.v — the varlink interface-definition grammar as a rendering
   relation: [Renders d s] holds when the text s is the tree d written with ANY
   layout (blanks, tabs, CR, newlines, # comments) permitted between tokens.
   Specification side of C05; no proofs here. *)
From VL Require Import Bytes Lit Idl.
Open Scope N_scope.

(* ---- layout ---- *)
Definition no_lf (txt : bytes) : Prop := Forall (fun c => c <> LF) txt.

Inductive gap_item : bytes -> Prop :=
| gi_sp : gap_item [SP]
| gi_tab : gap_item [TAB]
| gi_cr : gap_item [CR]
| gi_lf : gap_item [LF]
| gi_comment : forall txt, no_lf txt -> gap_item (HASH :: txt ++ [LF]).

Inductive gap : bytes -> Prop :=
| gap_nil : gap []
| gap_cons : forall i g, gap_item i -> gap g -> gap (i ++ g).

(* a gap that separates two word tokens *)
Definition gap1 (g : bytes) : Prop := gap g /\ g <> [].

(* layout at the very end of the text: may end in a comment without newline *)
Inductive final_gap : bytes -> Prop :=
| fg_gap : forall g, gap g -> final_gap g
| fg_comment : forall g txt, gap g -> no_lf txt -> final_gap (g ++ HASH :: txt).

(* ---- names ---- *)
Definition type_name_ok (n : bytes) : bool :=
  match n with
  | c :: r => is_upper c && forallb is_alnum r
  | [] => false
  end.
Definition field_name_ok (n : bytes) : bool :=
  match n with
  | c :: r => is_lower c && forallb is_field_char r
  | [] => false
  end.
(* the interface name is what the model of the two regular expressions accepts in full *)
Definition iface_name_ok (n : bytes) : bool :=
  (bytes_eqb (rx_name1 n) n || (match rx_name1 n with [] => bytes_eqb (rx_name2 n) n | _ => false end))
  && negb (255 <? N.of_nat (length n)) && (match n with [] => false | _ => true end).

(* ---- types ---- *)
Definition starts_alnum (s : bytes) : bool :=
  match s with c :: _ => is_alnum c | [] => false end.

Inductive RTy : ty -> bytes -> Prop :=
| R_bool : RTy TBool kw_bool
| R_int : RTy TInt kw_int
| R_float : RTy TFloat kw_float
| R_string : RTy TString kw_string
| R_object : RTy TObject kw_object
| R_alias : forall n, type_name_ok n = true -> RTy (TAlias n) n
| R_array : forall e s, RTy e s -> RTy (TArray e) ([91; 93] ++ s)
| R_map : forall e s, RTy e s -> RTy (TMap e) ([91] ++ kw_string ++ [93] ++ s)
| R_maybe : forall e s, RTy e s -> is_maybe e = false -> RTy (TMaybe e) ([63] ++ s)
| R_struct0 : forall g, gap g -> RTy (TStruct []) ([40] ++ g ++ [41])
| R_struct : forall g fs s, gap g -> fs <> [] -> RFields fs s -> RTy (TStruct fs) ([40] ++ g ++ s ++ [41])
| R_enum : forall g ns s, gap g -> ns <> [] -> RNames ns s -> RTy (TEnum ns) ([40] ++ g ++ s ++ [41])
with RFields : list (bytes * ty) -> bytes -> Prop :=
| RF_one : forall n t g1 g2 g3 g4 st,
    field_name_ok n = true -> gap g1 -> gap g2 -> gap g3 -> gap g4 -> RTy t st ->
    RFields [(n, t)] (g1 ++ n ++ g2 ++ [58] ++ g3 ++ st ++ g4)
| RF_cons : forall n t g1 g2 g3 g4 st fs s,
    field_name_ok n = true -> gap g1 -> gap g2 -> gap g3 -> gap g4 -> RTy t st ->
    fs <> [] -> RFields fs s ->
    RFields ((n, t) :: fs) (g1 ++ n ++ g2 ++ [58] ++ g3 ++ st ++ g4 ++ [44] ++ s)
with RNames : list bytes -> bytes -> Prop :=
| RN_one : forall n g1 g2, field_name_ok n = true -> gap g1 -> gap g2 -> RNames [n] (g1 ++ n ++ g2)
| RN_cons : forall n g1 g2 ns s,
    field_name_ok n = true -> gap g1 -> gap g2 -> ns <> [] -> RNames ns s ->
    RNames (n :: ns) (g1 ++ n ++ g2 ++ [44] ++ s).

Definition is_struct (t : ty) : bool := match t with TStruct _ => true | _ => false end.

(* a gap after a word token: non-empty when the next token starts with a letter or digit *)
Definition gap_before (g next : bytes) : Prop :=
  gap g /\ (starts_alnum next = true -> g <> []).

Inductive RMember : member -> bytes -> Prop :=
| RM_alias : forall n doc t g1 g2 st,
    type_name_ok n = true -> gap1 g1 -> RTy t st -> gap_before g2 st ->
    RMember (MAlias n doc t) (kw_type ++ g1 ++ n ++ g2 ++ st)
| RM_method : forall n doc i o g1 g2 g3 g4 si so,
    type_name_ok n = true -> gap1 g1 -> is_struct i = true -> is_struct o = true ->
    RTy i si -> RTy o so -> gap g2 -> gap g3 -> gap g4 ->
    RMember (MMethod n doc i o) (kw_method ++ g1 ++ n ++ g2 ++ si ++ g3 ++ [45; 62] ++ g4 ++ so)
| RM_error0 : forall n doc g1,
    type_name_ok n = true -> gap1 g1 ->
    RMember (MError n doc None) (kw_error ++ g1 ++ n)
| RM_error : forall n doc t g1 g2 st,
    type_name_ok n = true -> gap1 g1 -> is_struct t = true -> RTy t st -> gap g2 ->
    RMember (MError n doc (Some t)) (kw_error ++ g1 ++ n ++ g2 ++ st).

(* does the rendered member end in a word token? (then the next keyword needs a separating gap) *)
Definition ends_word (s : bytes) : bool :=
  match rev s with c :: _ => is_alnum c || (c =? 95) | [] => false end.

(* members, each preceded by its separating gap; [prev] is the text before the gap *)
Inductive RMembers : bytes -> list member -> bytes -> Prop :=
| RMs_nil : forall prev, RMembers prev [] []
| RMs_cons : forall prev g m sm ms s,
    gap g -> (ends_word prev = true -> g <> []) -> RMember m sm -> RMembers sm ms s ->
    RMembers prev (m :: ms) (g ++ sm ++ s).

Definition wf_idl (d : idl) : bool :=
  iface_name_ok (i_name d) && wf_liberal d.

Inductive Renders : idl -> bytes -> Prop :=
| R_idl : forall d g0 g1 sm gend,
    gap g0 -> gap1 g1 -> RMembers (i_name d) (i_members d) sm -> final_gap gend ->
    Renders d (g0 ++ kw_interface ++ g1 ++ i_name d ++ sm ++ gend).

(* the tree minus documentation and description text *)
Definition erase_member (m : member) : member :=
  match m with
  | MAlias n _ t => MAlias n [] t
  | MMethod n _ i o => MMethod n [] i o
  | MError n _ t => MError n [] t
  end.
Definition erase_docs (d : idl) : idl :=
  mkIdl (i_name d) [] [] (map erase_member (i_members d)).

(* ---- documentation blocks ---- *)
Definition is_blank (c : N) : bool := (c =? SP) || (c =? TAB) || (c =? CR).
(* the text of one comment line: one space after '#' is not part of it *)
Definition comment_text (raw : bytes) : bytes :=
  match raw with c :: r => if c =? SP then r else raw | [] => [] end.
Fixpoint drop_empty (l : list bytes) : list bytes :=
  match l with [] :: r => drop_empty r | _ => l end.
Fixpoint join_lf (l : list bytes) : bytes :=
  match l with [] => [] | [x] => x | x :: r => x ++ [LF] ++ join_lf r end.
(* lines = list of (indentation, raw text after '#') *)
Definition doc_of (lines : list (bytes * bytes)) : bytes :=
  join_lf (drop_empty (map (fun l => comment_text (snd l)) lines)).
Fixpoint render_block (lines : list (bytes * bytes)) : bytes :=
  match lines with
  | [] => []
  | (ind, raw) :: r => ind ++ HASH :: raw ++ [LF] ++ render_block r
  end.
Definition block_ok (lines : list (bytes * bytes)) : Prop :=
  Forall (fun l => forallb is_blank (fst l) = true /\ no_lf (snd l)) lines.
