(* Model/RegLife.v — the registry together with the part of the service's life cycle that
   RegisterInterface looks at (service.go: running, conncounter):

     RegisterInterface:  if s.running || s.conncounter > 0 { refuse }   (guard added by the fix for F10)
     Listen / DoListen:  running = true ... accept loop ... teardown; wg.Wait()
     accept loop:        conncounter++ for every accepted connection
     handleConnection:   conncounter-- when the connection ends
     Shutdown:           running = false, listener closed

   Model/Service.v's registry has one flag, [r_running], that stands for "registration is
   refused".  Here the flag is derived: [busy s = running s || 0 <? active s].  The
   handlers of accepted connections read the registry (names, descriptions, dispatch
   table) without the mutex; that is safe because the registry cannot change while
   [busy] holds (Proofs/RegLifeProofs.v).  No proofs in this file. *)
From VL Require Import Bytes Lit Service.
Open Scope nat_scope.

Record rl := mkRL {
  rl_reg : registry;        (* r_running of this component is kept equal to [busy] *)
  rl_running : bool;        (* s.running *)
  rl_active : nat;          (* s.conncounter *)
  rl_serving : bool }.      (* a serving call (Listen / DoListen) has started and not yet returned *)

Definition busy (s : rl) : bool := rl_running s || (0 <? rl_active s).

Definition rl_init (vendor product version url svc_descr : bytes) : rl :=
  mkRL (new_service vendor product version url svc_descr) false 0 false.

Inductive rl_ev :=
| EvRegister (name descr : bytes)
| EvListen                  (* a serving call starts *)
| EvAccept                  (* the accept loop takes a connection *)
| EvConnEnd                 (* a connection handler finishes *)
| EvShutdown
| EvReturn.                 (* the serving call returns (teardown; all handlers joined) *)

Inductive rl_out := OAccepted | ORefused | ODone | ONotEnabled.

Definition with_reg (s : rl) (reg : registry) (run : bool) (act : nat) (srv : bool) : rl :=
  mkRL (set_running reg (run || (0 <? act))) run act srv.

Definition rl_step (s : rl) (e : rl_ev) : rl * rl_out :=
  match e with
  | EvRegister name descr =>
    let '(reg', refused) := register (rl_reg s) name descr in
    (mkRL reg' (rl_running s) (rl_active s) (rl_serving s), if refused then ORefused else OAccepted)
  | EvListen =>
    if rl_serving s then (s, ONotEnabled)
    else (with_reg s (rl_reg s) true (rl_active s) true, ODone)
  | EvAccept =>
    if rl_serving s && rl_running s then (with_reg s (rl_reg s) (rl_running s) (S (rl_active s)) (rl_serving s), ODone)
    else (s, ONotEnabled)
  | EvConnEnd =>
    match rl_active s with
    | O => (s, ONotEnabled)
    | S n => (with_reg s (rl_reg s) (rl_running s) n (rl_serving s), ODone)
    end
  | EvShutdown => (with_reg s (rl_reg s) false (rl_active s) (rl_serving s), ODone)
  | EvReturn =>
    if rl_serving s && negb (rl_running s) && (rl_active s =? 0) then (with_reg s (rl_reg s) false 0 false, ODone)
    else (s, ONotEnabled)
  end.

Fixpoint rl_run (s : rl) (es : list rl_ev) : rl * list rl_out :=
  match es with
  | [] => (s, [])
  | e :: r => let '(s1, o) := rl_step s e in let '(s2, os) := rl_run s1 r in (s2, o :: os)
  end.

(* what the registry harness's operations are in terms of these events *)
Inductive reg_op :=
| RListen                 (* Listen / Bind+DoListen, then one client connects *)
| RShutdownAll            (* the client closes, Shutdown, the serving call returns *)
| RShutdownKeep           (* Shutdown while the client stays connected *)
| RDrop.                  (* the client closes after RShutdownKeep, the serving call returns *)

Definition events_of (o : reg_op) : list rl_ev :=
  match o with
  | RListen => [EvListen; EvAccept]
  | RShutdownAll => [EvConnEnd; EvShutdown; EvReturn]
  | RShutdownKeep => [EvShutdown]
  | RDrop => [EvConnEnd; EvReturn]
  end.
